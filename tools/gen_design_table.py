#!/usr/bin/env python3
"""Regenerates the per-property status table in DESIGN.md (between the markers) from props/*.json,
evidence/*.json and known_findings*."""
import json, glob, os, re
R = os.path.dirname(os.path.dirname(os.path.abspath(__file__)))
props = {os.path.basename(f)[:-5]: json.load(open(f)) for f in glob.glob(R + "/props/C*.json")}
reg = json.load(open(R + "/props/registered.json"))
known = []
for f in [R + "/known_findings.json"] + sorted(glob.glob(R + "/known_findings.d/*.json")):
    if os.path.exists(f): known += json.load(open(f))
rows = []
for l in open(R + "/properties.jsonl"):
    p = json.loads(l); pid = p["id"]
    c = props.get(pid)
    if not c:
        rows.append(f"| {pid} | {p['title']} | — | — | not claimed | |"); continue
    ev = {}
    try: ev = json.load(open(R + f"/evidence/{pid}.json"))
    except Exception: pass
    nth = sum(1 for o in ev.get("coverage", {}).get("obligations_detail", []) if o["kind"] == "theorem")
    engines = ", ".join(sorted({x["engine"] + ("/" + x["params"]["mode"] if x.get("params", {}).get("mode") else "") for x in c.get("corr", [])}))
    fs = sorted({k["id"] + ("✓" if k["status"] == "fixed" else "") for k in known if k["property"] == pid})
    part = "; ".join(c.get("partial", [])) or "—"
    rows.append(f"| {pid} | {p['title']} | {nth} | {engines} | {'claimed' if pid in reg else 'built, not registered'} | {' '.join(fs)} |\n|  | *open / partial:* {part} |  |  |  |  |")
tbl = "| id | property | theorems audited | engines (T-corr) | status | findings (✓ = fixed) |\n|---|---|---|---|---|---|\n" + "\n".join(rows)
d = open(R + "/DESIGN.md").read()
d = re.sub(r"(<!-- STATUS-TABLE-BEGIN -->).*?(<!-- STATUS-TABLE-END -->)", lambda m: m.group(1) + "\n" + tbl + "\n" + m.group(2), d, flags=re.S)
open(R + "/DESIGN.md", "w").write(d)
print("table rows:", len(rows))
