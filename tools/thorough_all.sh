#!/bin/bash
# runs the thorough tier of every registered property once (unchanged tree) and prints verdicts
cd "$(dirname "$0")/.."
./check --setup > /dev/null 2>&1 || { echo "setup failed"; exit 2; }
for p in $(python3 -c "import json; print(' '.join(json.load(open('props/registered.json'))))"); do
  s=$(date +%s)
  timeout 3000 ./check $p --tier thorough > .build/thorough_$p.out 2>&1; rc=$?
  echo "$p rc=$rc $(( $(date +%s) - s ))s $(grep -h 'VIOLATION\|ok:' .build/thorough_$p.out | head -2 | cut -c1-200)"
done
