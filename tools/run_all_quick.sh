#!/bin/bash
# runs every registered quick check on the unchanged tree (rewrites evidence/), prints verdicts
cd "$(dirname "$0")/.."
fail=0
for p in $(python3 -c "import json; print(' '.join(json.load(open('props/registered.json'))))"); do
  s=$(date +%s); ./check $p > .build/quick_$p.out 2>&1; rc=$?
  echo "$p rc=$rc $(( $(date +%s) - s ))s $(grep -h 'VIOLATION\|ok:' .build/quick_$p.out | head -1 | cut -c1-160)"
  [ $rc != 0 ] && fail=1
done
python3-vt - <<'PY'
import json, jsonschema, glob
sch=json.load(open('/root/.vp/EVIDENCE.schema.json'))
bad=0
for f in sorted(glob.glob('evidence/*.json')):
    e=json.load(open(f))
    try: jsonschema.validate(e, sch)
    except Exception as ex: print("INVALID", f, str(ex)[:100]); bad+=1
    c=e['coverage']
    if c['obligations']!=c['discharged']: print("UNDISCHARGED", f, c['discharged'], c['obligations']); bad+=1
print("evidence files:", len(glob.glob('evidence/*.json')), "problems:", bad)
PY
exit $fail
