#!/usr/bin/env python3
"""tools/seed_meta.py <seed-id> <detection text>: (re)write seeded/<id>/meta.json from agent_meta.json."""
import json, sys, os
sid, det = sys.argv[1], sys.argv[2]
d = os.path.join(os.path.dirname(os.path.abspath(__file__)), "..", "seeded", sid)
am = json.load(open(os.path.join(d, "agent_meta.json")))
m = {"property": am["property"], "summary": am["summary"][:600], "needs": am["needs"][:600],
     "produced_by": "fresh sub-agent given only the property record and a scratch git worktree (no access to /verif)",
     "agent_meta": am,
     "confirmed": {"how": "tools/try_seed.sh: rsync copy of /repo, demo test run without the patch (passes) and with it (fails), go build with and without -tags verif, then VERIF_REPO=<patched copy> ./check",
                   "log": "confirm.log", "existing_tests": am.get("tests_run", "")},
     "detection": det}
json.dump(m, open(os.path.join(d, "meta.json"), "w"), indent=1)
print(sid, "ok")
