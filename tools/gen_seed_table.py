#!/usr/bin/env python3
"""Regenerates the table of DESIGN.md §12 (between SEED-TABLE markers) from seeded/*/meta.json."""
import json, os, glob, re
root = os.path.join(os.path.dirname(os.path.abspath(__file__)), "..")
rows = []
for d in sorted(glob.glob(os.path.join(root, "seeded", "*", "meta.json"))):
    sid = d.split(os.sep)[-2]
    m = json.load(open(d))
    chg = m["summary"].replace("|", "/").replace("\n", " ")
    chg = chg[:230] + ("…" if len(chg) > 230 else "")
    det = m["detection"].replace("|", "/").replace("\n", " ")
    rows.append("| %s | %s | %s | %s |" % (sid, m["property"], chg, det))
tab = "| seed | property | change | result |\n|---|---|---|---|\n" + "\n".join(rows) + "\n"
p = os.path.join(root, "DESIGN.md")
s = open(p).read()
a, b = "<!-- SEED-TABLE-BEGIN -->\n", "<!-- SEED-TABLE-END -->"
assert a in s and b in s
s = s[:s.index(a) + len(a)] + tab + s[s.index(b):]
open(p, "w").write(s)
print(len(rows), "seeds")
