#!/bin/bash
# tools/reseed_all.sh [seed-id ...]: re-runs every kept seeded change (or the given ones) against the
# checks recorded for it (seeded/<id>/check_*.out) on a fresh scratch copy of /repo, and prints one line
# per (seed, check): CAUGHT / MISSED / PATCH-DOES-NOT-APPLY. Results: .build/reseed/<id>.log
cd "$(dirname "$0")/.."
mkdir -p .build/reseed
ids="$@"; [ -z "$ids" ] && ids=$(ls seeded)
for id in $ids; do
  d=seeded/$id; [ -f $d/patch.diff ] || continue
  checks=$(ls $d/check_*.out 2>/dev/null | sed 's/.*check_\(C[0-9]*\)\.out/\1/' | tr '\n' ' ')
  [ -z "$checks" ] && continue
  sd=/root/scratch/sd_$id; rm -rf $sd; mkdir -p $sd
  cp $d/patch.diff $sd/; cp $d/*_test.go $sd/ 2>/dev/null; cp $d/agent_meta.json $sd/meta.json
  if ! git -C /repo apply --check /verif/$d/patch.diff 2>/dev/null; then echo "$id PATCH-DOES-NOT-APPLY"; rm -rf $sd; continue; fi
  fl="-mod=mod"; grep -q "tags verif\|-tags=verif\|build verif" $d/agent_meta.json $d/*_test.go 2>/dev/null && fl="-mod=mod -tags=verif"
  SEED_GOFLAGS="$fl" tools/try_seed.sh $id $sd . $checks > .build/reseed/$id.log 2>&1
  rm -rf $sd
  for c in $checks; do
    if grep -q "VIOLATION property=$c" $d/check_$c.out; then echo "$id $c CAUGHT $(grep -o 'no-failing-input-found' $d/check_$c.out | head -1)"; else echo "$id $c MISSED"; fi
  done
done
