#!/bin/bash
# tools/reseed_quick.sh [seed-id ...]: a lighter re-run of the kept seeded changes than reseed_all.sh:
# per seed one scratch copy of /repo with the patch applied and ONE check (the property the seed was
# made for, or the first check its meta.json names as catching it); no demonstration run, nothing
# under seeded/ is rewritten. Prints CAUGHT / MISSED / PATCH-DOES-NOT-APPLY; logs in .build/reseedq/.
cd "$(dirname "$0")/.."
mkdir -p .build/reseedq
ids="$@"; [ -z "$ids" ] && ids=$(ls seeded)
for id in $ids; do
  d=seeded/$id; [ -f $d/patch.diff ] || continue
  c=$(python3 - $d <<'PY'
import json,sys,re
m=json.load(open(sys.argv[1]+'/meta.json'))
det=m.get('detection','')
prop=m.get('property','')
# the first "./check Cxx" mentioned as catching, else the seed's own property
mm=re.search(r'caught[^.;]*?\./check (C\d\d)', det)
first=re.findall(r'\./check (C\d\d)', det)
print(mm.group(1) if mm else (first[0] if first else prop))
PY
)
  if ! git -C /repo apply --check /verif/$d/patch.diff 2>/dev/null; then echo "$id PATCH-DOES-NOT-APPLY"; continue; fi
  W=/root/scratch/rq_$id; rm -rf $W; mkdir -p $W; rsync -a --exclude .git /repo/ $W/repo/
  (cd $W/repo && patch -p1 < /verif/$d/patch.diff > /dev/null 2>&1)
  VERIF_REPO=$W/repo ./check $c > .build/reseedq/$id.$c.out 2>&1
  if grep -q "VIOLATION property=$c" .build/reseedq/$id.$c.out; then
    echo "$id $c CAUGHT $(grep -o 'no-failing-input-found' .build/reseedq/$id.$c.out | head -1) $(grep -v KNOWN .build/reseedq/$id.$c.out | sed -n 2p | grep -o '\[[A-Za-z0-9:_-]*\]' | head -1)"
  else echo "$id $c MISSED"; fi
  rm -rf $W
done
