#!/usr/bin/env python3
"""Writes the two L0->L0 regression scripts of the mvcc corpus (deterministic, no randomness):
  f1_l0l0_tombstone.ops : an older L0 table is excluded from an L0->L0 compaction for being big
                          (>= 2*MemTableSize) while the compaction holds the tombstone of its key
                          (finding F1, fixed by d24306c: the key must stay deleted);
  f2_l0l0_resort_duplicate.ops : managed mode, the same (key, version) written twice; the L0->L0
                          output is re-sorted by Smallest() in front of the excluded older table,
                          which then wins the tie (finding F2, known).
"""
import os
ROOT = os.path.dirname(os.path.dirname(os.path.abspath(__file__)))
def filler(i, n): return ("%02x" % (i % 251)) * n

def big_table_phase(ops, managed, key, val, ver_start):
    """4 L0 tables of ~45 KB each (one holds key), merged L0->L0 into one table A >= 128 KB."""
    tid = 100; ver = ver_start
    for t in range(4):
        for j in range(6):
            tid += 1; ver += 1
            ops.append("begin %d 1 %d" % (tid, 18446744073709551615 if managed else 0))
            if t == 0 and j == 0:
                ops.append("set %d %s 0 0 0 %s 0" % (tid, key, val))
            ops.append("set %d %s 0 0 0 %s 0" % (tid, "7a7a%02x%02x" % (t, j), filler(t * 6 + j, 7000)))
            ops.append("commit %d %d" % (tid, ver if managed else 0))
        ops.append("flush")
    ops.append("compact this=0 id=0 adj=0.5")      # L0->L0: all four are small enough -> table A
    return ver

def small_table(ops, managed, tid, ver, sets):
    ops.append("begin %d 1 %d" % (tid, 18446744073709551615 if managed else 0))
    for s in sets: ops.append("set %d %s" % (tid, s))
    ops.append("commit %d %d" % (tid, ver if managed else 0))
    ops.append("flush")

# ---- F1
ops = ["# F1 (fixed by d24306c): L0->L0 must not drop a tombstone whose older version lives in an excluded big L0 table",
       "reset managed=0 keep=1 thr=8192 inmem=0 levels=4 detect=1 tblsz=2097152 basesz=10485760 comp=0 memsz=65536"]
v = big_table_phase(ops, False, "6b", "6f6c64", 0)
small_table(ops, False, 201, 0, ["61 0 0 0 01 0"])
small_table(ops, False, 202, 0, ["6b 1 0 0 - 0"])          # delete k
small_table(ops, False, 203, 0, ["62 0 0 0 02 0"])
small_table(ops, False, 204, 0, ["63 0 0 0 03 0"])
ops += ["begin 300 0 0", "get 300 6b", "discard 300",
        "compact this=0 id=0 adj=0.5",                   # L0->L0 of the four small tables; A is big
        "begin 301 0 0", "get 301 6b", "iter 301 rev=0 all=0 prefetch=1 seek=rewind prefix=6b", "discard 301"]
open(os.path.join(ROOT, "corpus/mvcc/f1_l0l0_tombstone.ops"), "w").write("\n".join(ops) + "\n")

# ---- F2
ops = ["# F2 (known finding): duplicate (key, version) + L0->L0 output re-sorted by Smallest in front of the excluded older table",
       "reset managed=1 keep=1 thr=8192 inmem=0 levels=4 detect=1 tblsz=2097152 basesz=10485760 comp=0 memsz=65536"]
v = big_table_phase(ops, True, "6b", "6f6c64", 0)          # k@1 = "old" inside big table A ... version 1
small_table(ops, True, 201, v + 1, ["61 0 0 0 01 0"])
# the same (key, version) as in A written again (managed mode allows any commit timestamp)
small_table(ops, True, 202, 1, ["6b 0 0 0 6e6577 0"])
small_table(ops, True, 203, v + 2, ["62 0 0 0 02 0"])
small_table(ops, True, 204, v + 3, ["63 0 0 0 03 0"])
ops += ["begin 300 0 18446744073709551615", "get 300 6b", "discard 300",
        "compact this=0 id=0 adj=0.5",
        "begin 301 0 18446744073709551615", "get 301 6b", "discard 301"]
open(os.path.join(ROOT, "corpus/mvcc/f2_l0l0_resort_duplicate.ops"), "w").write("\n".join(ops) + "\n")
print("written")
