#!/bin/sh
# Unchanged-tree soak of the mvcc engine over many seeds: impl vs Lean model vs oracle.
# usage: tools/mvcc_sweep.sh <first-seed> <last-seed> [sessions-per-seed] [extra bv params]
set -e
cd "$(dirname "$0")/.."
A=${1:-1}; B=${2:-50}; N=${3:-300}; shift 3 2>/dev/null || true
export GOFLAGS=-mod=mod GOPROXY=off GOSUMDB=off GOTOOLCHAIN=local
mkdir -p .build/sweep
(cd lean && lake build bmdriver >/dev/null 2>&1) || { echo "lake build failed"; exit 2; }
cp /repo/go.sum harness/go.sum
(cd harness && go build -tags verif -o ../.build/sweep/bv .) || exit 2
for s in $(seq $A $B); do
  out=.build/sweep/s$s; rm -rf $out; mkdir -p $out
  VERIF_SCRATCH=$out/scratch ./.build/sweep/bv mvcc -seed $s -n $N -out $out "$@" >$out/log 2>&1 || { echo "seed $s: HARNESS EXIT"; tail -5 $out/log; tail -3 $out/progress.txt; continue; }
  lean/.lake/build/bin/bmdriver mvcc < $out/ops.txt > $out/model.txt
  d=$(diff $out/impl.txt $out/model.txt | grep -c '^<' || true)
  o=$(wc -l < $out/oracle.txt)
  echo "seed $s: $(wc -l < $out/ops.txt) ops diffs=$d oracle=$o"
  if [ "$d" != "0" ] || [ "$o" != "0" ]; then
    diff $out/impl.txt $out/model.txt | head -4 | cut -c1-400
    head -3 $out/oracle.txt | cut -c1-600
  else
    rm -rf $out
  fi
done
