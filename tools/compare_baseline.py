#!/usr/bin/env python3
"""compare_baseline.py <go test -json output>: every test in BASELINE.json stable_pass must pass."""
import json, sys
base = json.load(open('/root/.vp/BASELINE.json'))
want = set(base['stable_pass'])
res = {}
for l in open(sys.argv[1]):
    try: e = json.loads(l)
    except Exception: continue
    if e.get('Test') and e.get('Action') in ('pass', 'fail', 'skip'):
        res[e['Package'] + '::' + e['Test']] = e['Action']
missing = [t for t in want if t not in res]
failed = [t for t in want if res.get(t) == 'fail']
skipped = [t for t in want if res.get(t) == 'skip']
print("stable_pass: %d  passed: %d  failed: %d  skipped: %d  missing: %d" % (
    len(want), sum(1 for t in want if res.get(t) == 'pass'), len(failed), len(skipped), len(missing)))
for t in failed[:20]: print("FAIL", t)
for t in missing[:20]: print("MISSING", t)
sys.exit(1 if failed or missing else 0)
