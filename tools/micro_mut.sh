#!/bin/bash
# tools/micro_mut.sh <name> <file rel. to repo> <perl -0pe substitution> <checks...>
# one hand-made mutation in a scratch copy of /repo; prints CAUGHT/MISSED per check
NAME=$1; FILE=$2; SUB=$3; shift 3
W=/root/scratch/mm/$NAME; rm -rf $W; mkdir -p $W
rsync -a --exclude .git /repo/ $W/repo/
cp $W/repo/$FILE $W/orig
perl -0pe "$SUB" -i $W/repo/$FILE
if cmp -s $W/orig $W/repo/$FILE; then echo "$NAME: substitution did not change $FILE"; rm -rf $W; exit 2; fi
export GOFLAGS=-mod=mod GOPROXY=off GOSUMDB=off GOTOOLCHAIN=local
(cd $W/repo && go build ./... && go build -tags verif ./...) > $W/build.log 2>&1 || { echo "$NAME: does not build"; tail -3 $W/build.log; rm -rf $W; exit 2; }
cd /verif
for c in "$@"; do
  VERIF_REPO=$W/repo ./check $c > $W/check_$c.out 2>&1
  if grep -q "VIOLATION property=$c" $W/check_$c.out; then echo "$NAME $c CAUGHT $(grep -o 'no-failing-input-found' $W/check_$c.out | head -1) :: $(grep -m1 -o '\[[A-Za-z0-9:_-]*\]' $W/check_$c.out)"; else echo "$NAME $c MISSED"; fi
done
rm -rf $W/repo
