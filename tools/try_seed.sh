#!/bin/bash
# tools/try_seed.sh <seed-id> <seed-dir containing patch.diff demo_test.go meta.json> <demo target dir rel. to repo root> <check ids...>
# Confirms a seeded change in a scratch copy of /repo (demo fails with it, passes without) and runs
# the given checks against the patched copy. Stores everything under /verif/seeded/<seed-id>/.
set -u
ID=$1; SD=$2; DEMODIR=$3; shift 3
export GOFLAGS=${SEED_GOFLAGS:--mod=mod} GOPROXY=off GOSUMDB=off GOTOOLCHAIN=local
W=/root/scratch/seed_$ID
rm -rf $W; mkdir -p $W
rsync -a --exclude .git /repo/ $W/repo/
OUT=/verif/seeded/$ID; mkdir -p $OUT
cp $SD/patch.diff $OUT/patch.diff; cp $SD/meta.json $OUT/agent_meta.json 2>/dev/null
for f in $SD/*_test.go $SD/*.go; do [ -f "$f" ] && cp $f $OUT/; done
DEMO=$(ls $SD/*_test.go | head -1)
RUN=$(grep -o 'func Test[A-Za-z0-9_]*' $DEMO | head -1 | sed 's/func //')
PFX=$(echo $RUN | cut -c1-10)
cp $DEMO $W/repo/$DEMODIR/zz_seed_demo_test.go
echo "== demo WITHOUT patch" > $OUT/confirm.log
(cd $W/repo/$DEMODIR && go test -count=1 -run "$PFX" . 2>&1 | tail -5) >> $OUT/confirm.log
(cd $W/repo && git apply --unsafe-paths --directory=$W/repo $SD/patch.diff 2>/dev/null || patch -p1 < $SD/patch.diff) >> $OUT/confirm.log 2>&1
echo "== demo WITH patch" >> $OUT/confirm.log
(cd $W/repo/$DEMODIR && go test -count=1 -run "$PFX" . 2>&1 | tail -8) >> $OUT/confirm.log
rm -f $W/repo/$DEMODIR/zz_seed_demo_test.go
(cd $W/repo && go build ./... && go build -tags verif ./...) >> $OUT/confirm.log 2>&1
cd /verif
for c in "$@"; do
  echo "== ./check $c (VERIF_REPO=patched copy)" >> $OUT/confirm.log
  VERIF_REPO=$W/repo ./check $c > $OUT/check_$c.out 2>&1; rc=$?
  echo "rc=$rc" >> $OUT/confirm.log; grep -h "VIOLATION\|ok:" $OUT/check_$c.out | head -3 >> $OUT/confirm.log
  r=$(grep -o 'replay=[^ ]*' $OUT/check_$c.out | head -1 | cut -d= -f2); [ -n "$r" ] && [ -f "$r" ] && head -12 "$r" | cut -c1-400 > $OUT/replay_$c.head
done
rm -rf $W
cat $OUT/confirm.log
