// extract: T-gen. Reads /repo's current sources with go/parser and regenerates
// BadgerModel/Extracted.lean + facts.json: *values* (constants, reservation terms) and
// *comparison operators at named decision sites*. The Lean side re-proves, by `decide`,
// that these equal what the model and the theorems assume (BadgerProofs/Props/*: `Cxx_tgen_*`),
// so a changed constant or flipped comparison breaks a proof obligation on the next run.
package main

import (
	"bytes"
	"crypto/sha256"
	"encoding/hex"
	"encoding/json"
	"flag"
	"fmt"
	"go/ast"
	"go/parser"
	"go/printer"
	"go/token"
	"os"
	"path/filepath"
	"sort"
	"strconv"
	"strings"
)

var fset = token.NewFileSet()
var files = map[string]*ast.File{}
var repo string

func load(rel string) *ast.File {
	if f, ok := files[rel]; ok {
		return f
	}
	f, err := parser.ParseFile(fset, filepath.Join(repo, rel), nil, parser.ParseComments)
	if err != nil {
		fmt.Fprintln(os.Stderr, "extract:", err)
		os.Exit(1)
	}
	files[rel] = f
	return f
}

func src(n ast.Node) string {
	var b bytes.Buffer
	printer.Fprint(&b, fset, n)
	return b.String()
}

// constant: value expression of a package-level const/var by name.
func constExpr(rel, name string) ast.Expr {
	for _, d := range load(rel).Decls {
		gd, ok := d.(*ast.GenDecl)
		if !ok {
			continue
		}
		for _, s := range gd.Specs {
			vs, ok := s.(*ast.ValueSpec)
			if !ok {
				continue
			}
			for i, n := range vs.Names {
				if n.Name == name && i < len(vs.Values) {
					return vs.Values[i]
				}
			}
		}
	}
	return nil
}

// evalInt evaluates the integer constant expressions that occur at our sites.
func evalInt(e ast.Expr) (int64, bool) {
	switch v := e.(type) {
	case *ast.BasicLit:
		if v.Kind == token.INT {
			n, err := strconv.ParseInt(v.Value, 0, 64)
			return n, err == nil
		}
		if v.Kind == token.CHAR {
			s, err := strconv.Unquote(v.Value)
			if err == nil && len(s) == 1 {
				return int64(s[0]), true
			}
		}
	case *ast.ParenExpr:
		return evalInt(v.X)
	case *ast.BinaryExpr:
		a, ok1 := evalInt(v.X)
		b, ok2 := evalInt(v.Y)
		if !ok1 || !ok2 {
			return 0, false
		}
		switch v.Op {
		case token.SHL:
			return a << uint(b), true
		case token.ADD:
			return a + b, true
		case token.SUB:
			return a - b, true
		case token.MUL:
			return a * b, true
		case token.QUO:
			if b != 0 {
				return a / b, true
			}
		}
	case *ast.CallExpr: // byte(1 << 0), int64(x)
		if len(v.Args) == 1 {
			return evalInt(v.Args[0])
		}
	}
	return 0, false
}

func evalStr(e ast.Expr) (string, bool) {
	switch v := e.(type) {
	case *ast.BasicLit:
		if v.Kind == token.STRING {
			s, err := strconv.Unquote(v.Value)
			return s, err == nil
		}
	case *ast.CallExpr: // []byte("...")
		if len(v.Args) == 1 {
			return evalStr(v.Args[0])
		}
	}
	return "", false
}

func findFunc(rel, recv, name string) *ast.FuncDecl {
	for _, d := range load(rel).Decls {
		fd, ok := d.(*ast.FuncDecl)
		if !ok || fd.Name.Name != name {
			continue
		}
		r := ""
		if fd.Recv != nil && len(fd.Recv.List) == 1 {
			r = strings.TrimPrefix(src(fd.Recv.List[0].Type), "*")
		}
		if r == recv {
			return fd
		}
	}
	return nil
}

// opAt: the operator of the first binary expression inside the function whose operands,
// printed, contain the two given substrings (left, right).
func opAt(rel, recv, fn, left, right string) string {
	fd := findFunc(rel, recv, fn)
	if fd == nil {
		return "MISSING-FUNC"
	}
	res := "MISSING-SITE"
	ast.Inspect(fd.Body, func(n ast.Node) bool {
		if res != "MISSING-SITE" {
			return false
		}
		be, ok := n.(*ast.BinaryExpr)
		if !ok {
			return true
		}
		switch be.Op {
		case token.LSS, token.LEQ, token.GTR, token.GEQ, token.EQL, token.NEQ:
			if strings.Contains(src(be.X), left) && strings.Contains(src(be.Y), right) {
				res = be.Op.String()
				return false
			}
		}
		return true
	})
	return res
}

// intTermAt: inside function fn, the integer literal added in the first `+` expression whose
// left operand (printed) contains `left`.
func intTermAt(rel, recv, fn, left string) int64 {
	fd := findFunc(rel, recv, fn)
	if fd == nil {
		return -1
	}
	res := int64(-1)
	ast.Inspect(fd.Body, func(n ast.Node) bool {
		if res >= 0 {
			return false
		}
		be, ok := n.(*ast.BinaryExpr)
		if !ok || be.Op != token.ADD {
			return true
		}
		if strings.Contains(src(be.X), left) {
			if v, ok := evalInt(be.Y); ok {
				res = v
				return false
			}
		}
		return true
	})
	return res
}

// stmtCount: number of `break` / `return` statements in a function (the read path's loops have a
// fixed shape: an added early exit changes what the model's fold over all sources mirrors).
func stmtCount(rel, recv, fn, kind string) int64 {
	fd := findFunc(rel, recv, fn)
	if fd == nil {
		return -1
	}
	var n int64
	ast.Inspect(fd.Body, func(x ast.Node) bool {
		switch v := x.(type) {
		case *ast.BranchStmt:
			if kind == "break" && v.Tok == token.BREAK {
				n++
			}
		case *ast.ReturnStmt:
			if kind == "return" {
				n++
			}
		case *ast.FuncLit:
			return false
		}
		return true
	})
	return n
}

// returnsOf: the printed result expressions of the function's return statements, in source
// order, joined with " | " (nested function literals excluded). "MISSING" if the function is absent.
func returnsOf(rel, recv, fn string) string {
	fd := findFunc(rel, recv, fn)
	if fd == nil {
		return "MISSING"
	}
	var out []string
	ast.Inspect(fd.Body, func(x ast.Node) bool {
		switch v := x.(type) {
		case *ast.ReturnStmt:
			var rs []string
			for _, r := range v.Results {
				rs = append(rs, src(r))
			}
			out = append(out, strings.Join(rs, ", "))
		case *ast.FuncLit:
			return false
		}
		return true
	})
	return strings.Join(out, " | ")
}

// ifCondsWith: the printed conditions of the `if` statements of the function whose condition
// contains the fragment, in source order, joined with " | " (function literals included).
func ifCondsWith(rel, recv, fn, frag string) string {
	fd := findFunc(rel, recv, fn)
	if fd == nil {
		return "MISSING"
	}
	var out []string
	ast.Inspect(fd.Body, func(x ast.Node) bool {
		if v, ok := x.(*ast.IfStmt); ok {
			if c := src(v.Cond); strings.Contains(c, frag) {
				out = append(out, c)
			}
		}
		return true
	})
	return strings.Join(out, " | ")
}

// firstPos: byte offset of the first occurrence of a source fragment inside a function body
// (-1 if absent). Used for "A happens before B" facts.
func firstPos(rel, recv, fn, frag string) int {
	fd := findFunc(rel, recv, fn)
	if fd == nil {
		return -1
	}
	return strings.Index(src(fd.Body), frag)
}

func before(rel, recv, fn, a, b string) string {
	pa, pb := firstPos(rel, recv, fn, a), firstPos(rel, recv, fn, b)
	if pa < 0 || pb < 0 {
		return "MISSING"
	}
	if pa < pb {
		return "before"
	}
	return "after"
}

// ascending: the fragments occur in the function body in exactly this order (first occurrences).
func ascending(rel, recv, fn string, frags ...string) string {
	last := -1
	for _, f := range frags {
		p := firstPos(rel, recv, fn, f)
		if p < 0 {
			return "MISSING:" + f
		}
		if p <= last {
			return "OUT-OF-ORDER:" + f
		}
		last = p
	}
	return "ascending"
}

type fact struct {
	Name  string `json:"name"`
	Kind  string `json:"kind"`
	Value string `json:"value"`
	Where string `json:"where"`
}

func main() {
	leanOut := flag.String("lean", "Extracted.lean", "")
	factsOut := flag.String("facts", "facts.json", "")
	flag.StringVar(&repo, "repo", "/repo", "")
	flag.Parse()

	var facts []fact
	addInt := func(name, rel, cname string) {
		e := constExpr(rel, cname)
		v := "MISSING"
		if e != nil {
			if n, ok := evalInt(e); ok {
				v = strconv.FormatInt(n, 10)
			} else {
				v = "UNEVALUATED(" + src(e) + ")"
			}
		}
		facts = append(facts, fact{name, "nat", v, rel + ":" + cname})
	}
	addStr := func(name, rel, cname string) {
		e := constExpr(rel, cname)
		v := "MISSING"
		if e != nil {
			if s, ok := evalStr(e); ok {
				v = s
			}
		}
		facts = append(facts, fact{name, "str", v, rel + ":" + cname})
	}
	addOp := func(name, rel, recv, fn, l, r string) {
		facts = append(facts, fact{name, "op", opAt(rel, recv, fn, l, r), rel + ":" + recv + "." + fn + " [" + l + " ? " + r + "]"})
	}
	addTerm := func(name, rel, recv, fn, l string) {
		facts = append(facts, fact{name, "nat", strconv.FormatInt(intTermAt(rel, recv, fn, l), 10), rel + ":" + recv + "." + fn + " [" + l + " + ?]"})
	}

	// meta bits (value.go)
	for _, b := range []string{"bitDelete", "bitValuePointer", "bitDiscardEarlierVersions", "bitMergeEntry", "bitTxn", "bitFinTxn"} {
		addInt(b, "value.go", b)
	}
	addInt("vlogHeaderSize", "value.go", "vlogHeaderSize")
	addInt("maxHeaderSize", "structs.go", "maxHeaderSize")
	addStr("badgerPrefix", "db.go", "badgerPrefix")
	addStr("txnKey", "db.go", "txnKey")
	addInt("kvWriteChCapacity", "db.go", "kvWriteChCapacity")
	addInt("manifestDeletionsRewriteThreshold", "manifest.go", "manifestDeletionsRewriteThreshold")
	addInt("manifestDeletionsRatio", "manifest.go", "manifestDeletionsRatio")
	// txn.go: key size limit, size reservations
	if fd := findFunc("txn.go", "Txn", "modify"); fd != nil {
		v := "MISSING"
		ast.Inspect(fd.Body, func(n ast.Node) bool {
			if vs, ok := n.(*ast.ValueSpec); ok && len(vs.Names) == 1 && vs.Names[0].Name == "maxKeySize" && len(vs.Values) == 1 {
				if x, ok := evalInt(vs.Values[0]); ok {
					v = strconv.FormatInt(x, 10)
				}
			}
			return true
		})
		facts = append(facts, fact{"maxKeySize", "nat", v, "txn.go:Txn.modify const maxKeySize"})
	}
	addTerm("finReservePad", "txn.go", "DB", "newTransaction", "len(txnKey)")
	addTerm("perEntryPad", "txn.go", "Txn", "checkSize", "estimateSizeAndSetThreshold")
	addOp("op_checkSize_count", "txn.go", "Txn", "checkSize", "count", "maxBatchCount")
	addOp("op_checkSize_size", "txn.go", "Txn", "checkSize", "size", "maxBatchSize")
	addOp("op_modify_keylen", "txn.go", "Txn", "modify", "len(e.Key)", "maxKeySize")
	addOp("op_modify_vallen", "txn.go", "Txn", "modify", "len(e.Value)", "ValueLogFileSize")
	addOp("op_modify_inmem_vallen", "txn.go", "Txn", "modify", "len(e.Value)", "valueThreshold()")
	addOp("op_hasConflict_ts", "txn.go", "oracle", "hasConflict", "committedTxn.ts", "txn.readTs")
	addOp("op_cleanup_ts", "txn.go", "oracle", "cleanupCommittedTransactions", "txn.ts", "maxReadTs")
	// oracle.discardAtOrBelow: what compactions may discard (managed: discardTs; normal: read watermark)
	facts = append(facts, fact{"ret_discardAtOrBelow", "op", returnsOf("txn.go", "oracle", "discardAtOrBelow"), "txn.go:oracle.discardAtOrBelow [return expressions, in order]"})
	facts = append(facts, fact{"ord_discardAtOrBelow_managed_first", "op", before("txn.go", "oracle", "discardAtOrBelow", "o.isManaged", "o.readMark.DoneUntil()"), "txn.go:oracle.discardAtOrBelow [managed test vs read-mark return]"})
	// compaction filter (levels.go subcompact)
	addOp("op_subcompact_version_discard", "levels.go", "levelsController", "subcompact", "version", "discardTs")
	addOp("op_subcompact_numversions", "levels.go", "levelsController", "subcompact", "numVersions", "NumVersionsToKeep")
	addOp("op_l0l0_min_tables", "levels.go", "levelsController", "fillTablesL0ToL0", "len(out)", "4")
	// read path
	addOp("op_dbget_version_eq", "db.go", "DB", "get", "vs.Version", "version")
	addOp("op_dbget_max", "db.go", "DB", "get", "maxVs.Version", "vs.Version")
	addOp("op_lcget_max", "levels.go", "levelsController", "get", "maxVs.Version", "vs.Version")
	addOp("op_lhget_max", "level_handler.go", "levelHandler", "get", "maxVs.Version", "version")
	addOp("op_writeToLSM_threshold", "structs.go", "Entry", "skipVlogAndSetThreshold", "len(e.Value)", "e.valThreshold")
	addOp("op_estimate_threshold", "structs.go", "Entry", "estimateSizeAndSetThreshold", "v", "e.valThreshold")
	addOp("op_parseItem_version_readts", "iterator.go", "Iterator", "parseItem", "version", "it.readTs")
	addOp("op_parseItem_since", "iterator.go", "Iterator", "parseItem", "version", "it.opt.SinceTs")
	addOp("op_expired", "iterator.go", "", "isDeletedOrExpired", "expiresAt", "time.Now().Unix()")
	addOp("op_parseTs_len", "y/y.go", "", "ParseTs", "len(key)", "8")
	addOp("op_parseKey_len", "y/y.go", "", "ParseKey", "len(key)", "8")
	for _, f := range [][4]string{{"levels.go", "levelsController", "get", "lcget"}, {"db.go", "DB", "get", "dbget"}, {"level_handler.go", "levelHandler", "get", "lhget"}} {
		for _, k := range []string{"break", "return"} {
			facts = append(facts, fact{"n_" + k + "_" + f[3], "nat", strconv.FormatInt(stmtCount(f[0], f[1], f[2], k), 10), f[0] + ":" + f[1] + "." + f[2] + " [#" + k + "]"})
		}
	}
	// orderings inside functions
	facts = append(facts, fact{"ord_rewrite_clamp_scan", "op", before("value.go", "valueLog", "rewrite", "gcActive.Store(true)", ".iterate("), "value.go:valueLog.rewrite [gcActive.Store(true) vs scan]"})
	// the #2286 clamp of subcompact applies to every compaction while a rewrite is in flight (C15)
	facts = append(facts, fact{"cond_subcompact_gc_clamp", "op", ifCondsWith("levels.go", "levelsController", "subcompact", "gcActive"), "levels.go:levelsController.subcompact [conditions of the if statements mentioning gcActive]"})
	facts = append(facts, fact{"cond_subcompact_gc_clamp_inner", "op", ifCondsWith("levels.go", "levelsController", "subcompact", "gcMax"), "levels.go:levelsController.subcompact [condition of the if that lowers discardTs to gcDiscardTs]"})
	// compactStatus (C14 / C12, BadgerModel/CompactStatus.lean): the two overlap tests of compareAndAdd, the
	// condition under which delete removes nextRange, and the being-compacted filter of fillTablesL0ToL0
	facts = append(facts, fact{"cond_caa_tests", "op", ifCondsWith("compaction.go", "compactStatus", "compareAndAdd", "overlapsWith"), "compaction.go:compactStatus.compareAndAdd [conditions of the if statements calling overlapsWith, in order]"})
	facts = append(facts, fact{"cond_cstatus_delete_next", "op", ifCondsWith("compaction.go", "compactStatus", "delete", "nextRange"), "compaction.go:compactStatus.delete [condition under which nextRange is removed]"})
	facts = append(facts, fact{"ret_getKeyRange", "op", strings.Join(strings.Fields(returnsOf("compaction.go", "", "getKeyRange")), " "), "compaction.go:getKeyRange [return expressions, in order]"})
	l0l0Skip := "no"
	if firstPos("levels.go", "levelsController", "fillTablesL0ToL0", "_, beingCompacted := s.cstatus.tables[t.ID()]; beingCompacted") >= 0 {
		l0l0Skip = "yes"
	}
	facts = append(facts, fact{"has_l0l0_being_compacted_skip", "op", l0l0Skip, "levels.go:levelsController.fillTablesL0ToL0 [tables of running compactions are skipped]"})
	facts = append(facts, fact{"ord_caa_tests_appends", "op", before("compaction.go", "compactStatus", "compareAndAdd", "nextLevel.overlapsWith(cd.nextRange)", "thisLevel.ranges = append"), "compaction.go:compactStatus.compareAndAdd [both tests before the first append]"})
	facts = append(facts, fact{"ord_flush_manifest_wal", "op", before("levels.go", "levelsController", "addLevel0Table", "manifest.addChanges", "tryAddLevel0Table"), "levels.go:addLevel0Table [manifest record vs publishing the table]"})
	facts = append(facts, fact{"ord_compact_manifest_replace", "op", before("levels.go", "levelsController", "runCompactDef", "manifest.addChanges", "replaceTables"), "levels.go:runCompactDef [manifest vs replaceTables]"})
	facts = append(facts, fact{"ord_compact_replace_delete", "op", before("levels.go", "levelsController", "runCompactDef", "replaceTables", "deleteTables"), "levels.go:runCompactDef [replaceTables vs deleteTables]"})
	// durability of a commit (C10): every request's WAL is msynced inside writeToLSM, i.e. once per
	// request and on the memtable that request was written to (ensureRoomForWrite may rotate the
	// memtable between two requests of one writeRequests call); writeRequests itself has no
	// SyncWAL; valueLog.write msyncs the value log in its deferred function
	has := func(rel, recv, fn, frag string) string {
		if firstPos(rel, recv, fn, frag) >= 0 {
			return "yes"
		}
		return "no"
	}
	facts = append(facts, fact{"has_writeToLSM_syncwal", "op", has("db.go", "DB", "writeToLSM", "db.mt.SyncWAL()"), "db.go:DB.writeToLSM [contains db.mt.SyncWAL()]"})
	facts = append(facts, fact{"has_writeRequests_syncwal", "op", has("db.go", "DB", "writeRequests", "SyncWAL()"), "db.go:DB.writeRequests [contains SyncWAL()]"})
	facts = append(facts, fact{"ord_writeToLSM_put_sync", "op", before("db.go", "DB", "writeToLSM", "db.mt.Put(", "db.mt.SyncWAL()"), "db.go:writeToLSM [mt.Put vs SyncWAL]"})
	facts = append(facts, fact{"ord_writeRequests_room_lsm", "op", before("db.go", "DB", "writeRequests", "db.ensureRoomForWrite()", "db.writeToLSM(b)"), "db.go:writeRequests [ensureRoomForWrite vs writeToLSM]"})
	facts = append(facts, fact{"ord_writeRequests_lsm_done", "op", before("db.go", "DB", "writeRequests", "db.writeToLSM(b)", "done(nil)"), "db.go:writeRequests [writeToLSM vs done(nil)]"})
	facts = append(facts, fact{"has_vlogwrite_sync", "op", has("value.go", "valueLog", "write", "curlf.Sync()"), "value.go:valueLog.write [contains curlf.Sync()]"})
	facts = append(facts, fact{"ord_commit_lock_ts", "op", before("txn.go", "Txn", "commitAndSend", "writeChLock.Lock()", "newCommitTs"), "txn.go:commitAndSend [writeChLock vs newCommitTs]"})
	facts = append(facts, fact{"ord_commit_ts_send", "op", before("txn.go", "Txn", "commitAndSend", "newCommitTs", "sendToWriteCh"), "txn.go:commitAndSend [newCommitTs vs sendToWriteCh]"})
	facts = append(facts, fact{"ord_commit_wait_done", "op", before("txn.go", "Txn", "commitAndSend", "req.Wait()", "orc.doneCommit(commitTs)\n\t\treturn err"), "txn.go:commitAndSend [req.Wait vs doneCommit]"})
	// validation order of Txn.modify (C28: which error a rejected write gets) and the order of its effects
	facts = append(facts, fact{"ord_modify_checks", "op", ascending("txn.go", "Txn", "modify",
		"case !txn.update:", "case txn.discarded:", "case len(e.Key) == 0:", "case bytes.HasPrefix(e.Key, badgerPrefix):",
		"case len(e.Key) > maxKeySize:", "case int64(len(e.Value)) > txn.db.opt.ValueLogFileSize:",
		"case txn.db.opt.InMemory && int64(len(e.Value)) > txn.db.valueThreshold():",
		"txn.db.isBanned(e.Key)", "txn.checkSize(e)", "txn.conflictKeys[fp] = struct{}{}",
		"oldEntry.version != e.version", "txn.pendingWrites[string(e.Key)] = e"), "txn.go:Txn.modify [order of checks and effects]"})
	// Txn.Get: pending write first, then read tracking, then the snapshot
	facts = append(facts, fact{"ord_get_steps", "op", ascending("txn.go", "Txn", "Get",
		"len(key) == 0", "txn.discarded", "txn.pendingWrites[string(key)]", "txn.addReadKey(key)", "txn.db.get(seek)"), "txn.go:Txn.Get [order of steps]"})
	// banned namespaces (C28): the length guard and the 8-byte namespace term of DB.isBanned, the
	// place of the check in Txn.Get and in Iterator.parseItem (on the USER key since the fix of F30,
	// right after the version window test and before any mode-specific logic)
	addOp("op_isbanned_len", "db.go", "DB", "isBanned", "len(key)", "db.opt.NamespaceOffset + 8")
	addOp("op_isbanned_off", "db.go", "DB", "isBanned", "db.opt.NamespaceOffset", "0")
	facts = append(facts, fact{"ord_get_banned", "op", ascending("txn.go", "Txn", "Get",
		"len(key) == 0", "txn.discarded", "txn.db.isBanned(key)", "txn.pendingWrites[string(key)]"), "txn.go:Txn.Get [isBanned between the discarded check and the pending lookup]"})
	facts = append(facts, fact{"ord_parseitem_banned", "op", ascending("iterator.go", "Iterator", "parseItem",
		"!it.opt.InternalAccess && isInternalKey", "version > it.readTs", "it.txn.db.isBanned(y.ParseKey(key))", "it.opt.AllVersions"), "iterator.go:Iterator.parseItem [internal, window, isBanned(ParseKey(key)), modes]"})
	facts = append(facts, fact{"has_ban_add", "op", has("db.go", "DB", "BanNamespace", "db.bannedNamespaces.add(ns)"), "db.go:DB.BanNamespace [adds to the in-memory set]"})
	facts = append(facts, fact{"ord_ban_steps", "op", ascending("db.go", "DB", "BanNamespace",
		"db.opt.NamespaceOffset < 0", "y.KeyWithTs(append(bannedNsKey, y.U64ToBytes(ns)...), 1)", "db.sendToWriteCh(entry)", "req.Wait()", "db.bannedNamespaces.add(ns)"), "db.go:DB.BanNamespace [mode check, marker key at version 1, write, wait, in-memory set]"})
	// readers and the flusher (C01/C12: a read that overlaps a memtable flush): the flusher publishes
	// the L0 table BEFORE it removes the memtable from db.imm; every reader picks the memtables BEFORE
	// it picks the tables of the levels. (Props/C01Flush.lean: with these two orders no entry is
	// missed, with either one reversed an entry can be.)
	facts = append(facts, fact{"ord_newiterator_mem_levels", "op", ascending("iterator.go", "Txn", "NewIterator",
		"txn.db.getMemTables()", "txn.db.lc.appendIterators("), "iterator.go:Txn.NewIterator [memtables picked before the level tables]"})
	facts = append(facts, fact{"ord_dbget_mem_levels", "op", ascending("db.go", "DB", "get",
		"db.getMemTables()", "tables[i].sl.Get(key)", "db.lc.get(key"), "db.go:DB.get [memtables picked and searched before the levels]"})
	facts = append(facts, fact{"ord_flusher_l0_imm", "op", ascending("db.go", "DB", "flushMemtable",
		"db.handleMemTableFlush(mt, nil)", "db.imm = db.imm[1:]"), "db.go:DB.flushMemtable [L0 table published before the memtable leaves db.imm]"})
	// C34: where the commit watermark is moved outside newCommitTs/doneCommit: Open marks MaxVersion
	// done and THEN increments the next timestamp; Load marks nextTxnTs-1 (the last loaded version),
	// never the next timestamp itself (seed C34f)
	facts = append(facts, fact{"has_load_txnmark_prev", "op", has("backup.go", "DB", "Load", "db.orc.txnMark.Done(db.orc.nextTxnTs - 1)"), "backup.go:DB.Load [txnMark.Done(nextTxnTs - 1)]"})
	facts = append(facts, fact{"ord_open_marks_increment", "op", ascending("db.go", "", "Open",
		"db.orc.nextTxnTs = db.MaxVersion()", "db.orc.txnMark.Done(db.orc.nextTxnTs)", "db.orc.readMark.Done(db.orc.nextTxnTs)", "db.orc.incrementNextTs()"), "db.go:Open [MaxVersion, both marks done, then increment]"})
	// C38: value-log GC releases filesLock before it takes the file's own lock in deleteLogFile
	// (a reader inside Item.Value holds the file's read lock and may need filesLock for a second
	// read: seed C38f); no deferred unlock in rewrite
	// C15/C13/C31: the entry a GC rewrite writes back keeps every user-visible field of the record:
	// all meta bits except value-pointer and transaction bits (merge and discard-earlier bits
	// included), user meta and expiry
	facts = append(facts, fact{"has_rewrite_meta_keep", "op", has("value.go", "valueLog", "rewrite", "ne.meta = e.meta &^ (bitValuePointer | bitTxn | bitFinTxn)"), "value.go:valueLog.rewrite [ne.meta = e.meta &^ (bitValuePointer | bitTxn | bitFinTxn)]"})
	facts = append(facts, fact{"has_rewrite_umeta_copy", "op", has("value.go", "valueLog", "rewrite", "ne.UserMeta = e.UserMeta"), "value.go:valueLog.rewrite [ne.UserMeta = e.UserMeta]"})
	facts = append(facts, fact{"has_rewrite_exp_copy", "op", has("value.go", "valueLog", "rewrite", "ne.ExpiresAt = e.ExpiresAt"), "value.go:valueLog.rewrite [ne.ExpiresAt = e.ExpiresAt]"})
	facts = append(facts, fact{"n_rewrite_meta_assign", "nat", strconv.Itoa(strings.Count(func() string {
		fd := findFunc("value.go", "valueLog", "rewrite")
		if fd == nil {
			return ""
		}
		return src(fd.Body)
	}(), "ne.meta")), "value.go:valueLog.rewrite [number of occurrences of ne.meta]"})
	facts = append(facts, fact{"has_rewrite_deferred_unlock", "op", has("value.go", "valueLog", "rewrite", "defer vlog.filesLock.Unlock()"), "value.go:valueLog.rewrite [defer vlog.filesLock.Unlock()]"})
	facts = append(facts, fact{"ord_rewrite_unlock_delete", "op", ascending("value.go", "valueLog", "rewrite",
		"vlog.filesLock.Lock()", "delete(vlog.filesMap, f.fid)", "deleteFileNow = true", "if deleteFileNow {", "vlog.deleteLogFile(f)"), "value.go:valueLog.rewrite [decide under filesLock, delete the file after releasing it]"})
	// readers and compactions (Props/C01Levels.lean): point lookups and iterator creation walk the
	// levels from 0 downwards (a range loop over s.levels); runCompactDef publishes on the next level
	// before it deletes from this level (ord_compact_replace_delete above)
	facts = append(facts, fact{"has_lcget_range_levels", "op", has("levels.go", "levelsController", "get", "for _, h := range s.levels {"), "levels.go:levelsController.get [for _, h := range s.levels]"})
	facts = append(facts, fact{"has_appenditers_range_levels", "op", has("levels.go", "levelsController", "appendIterators", "for _, level := range s.levels {"), "levels.go:levelsController.appendIterators [for _, level := range s.levels]"})
	// C17: the temporary MANIFEST-REWRITE file is opened with O_TRUNC (a leftover of a rewrite that
	// crashed before its rename must not survive as a tail of the new MANIFEST: seed C17i)
	facts = append(facts, fact{"has_rewrite_opentrunc", "op", has("manifest.go", "", "helpRewrite", "y.OpenTruncFile(rewritePath, false)"), "manifest.go:helpRewrite [y.OpenTruncFile(rewritePath, false)]"})
	// C26 / C06: whether a value is inlined or referenced through a value pointer is decided ONCE per
	// entry (Entry.skipVlogAndSetThreshold memoizes the threshold valueLog.write saw) and the
	// StreamWriter's sorted writer and DB.writeToLSM both ask the entry, not the current (possibly
	// moved, VLogPercentile > 0) threshold (seed C26i)
	facts = append(facts, fact{"has_sw_threshold_memo", "op", has("stream_writer.go", "sortedWriter", "handleRequests", "e.skipVlogAndSetThreshold(w.db.valueThreshold())"), "stream_writer.go:sortedWriter.handleRequests [e.skipVlogAndSetThreshold(w.db.valueThreshold())]"})
	facts = append(facts, fact{"has_lsm_threshold_memo", "op", has("db.go", "DB", "writeToLSM", "entry.skipVlogAndSetThreshold(db.valueThreshold())"), "db.go:DB.writeToLSM [entry.skipVlogAndSetThreshold(db.valueThreshold())]"})
	// C37 / C24: writeToLSM stores an inline value with the value-pointer bit CLEARED and there is
	// exactly one `db.mt.Put` for inline values (no separate in-memory branch that could forget it:
	// a loaded backup carries the raw meta byte of the source, seed C37j)
	facts = append(facts, fact{"has_writetolsm_clears_vptr", "op", has("db.go", "DB", "writeToLSM", "entry.meta &^ bitValuePointer"), "db.go:DB.writeToLSM [Meta: entry.meta &^ bitValuePointer]"})
	facts = append(facts, fact{"n_writetolsm_put", "nat", strconv.Itoa(strings.Count(func() string {
		fd := findFunc("db.go", "DB", "writeToLSM")
		if fd == nil {
			return ""
		}
		return src(fd.Body)
	}(), "db.mt.Put(")), "db.go:DB.writeToLSM [number of db.mt.Put calls: inline, pointer]"})
	// C11 / C07: every entry a table builder adds, stale or not, counts towards the table's
	// MaxVersion (Open seeds the next timestamp from it: seeds C11j, C07j)
	facts = append(facts, fact{"has_addhelper_maxversion", "op", has("table/builder.go", "Builder", "addHelper", "if version := y.ParseTs(key); version > b.maxVersion {"), "table/builder.go:Builder.addHelper [version > b.maxVersion]"})
	facts = append(facts, fact{"has_addinternal_maxversion", "op", has("table/builder.go", "Builder", "addInternal", "maxVersion"), "table/builder.go:Builder.addInternal [mentions maxVersion: should not]"})
	// Txn.Commit / commitPrecheck
	facts = append(facts, fact{"ord_commit_steps", "op", ascending("txn.go", "Txn", "Commit",
		"len(txn.pendingWrites) == 0", "txn.commitPrecheck()", "txn.commitAndSend()"), "txn.go:Txn.Commit [order of steps]"})
	// safeRead.Entry (C16/C09): header through DecodeFrom on the hashing reader, then key‖value and the
	// 4 checksum bytes through io.ReadFull (a bare Read returns a short count at a refill boundary of
	// the bufio.Reader that logFile.iterate hands in), then the comparison; header.DecodeFrom reads
	// two bytes and three ReadUvarint from the same reader.
	facts = append(facts, fact{"ord_saferead_reads", "op", ascending("value.go", "safeRead", "Entry",
		"h.DecodeFrom(tee)", "h.klen > uint32(1<<16)", "io.ReadFull(tee, buf[:])", "io.ReadFull(reader, crcBuf[:])",
		"crc != tee.Sum32()"), "value.go:safeRead.Entry [DecodeFrom, klen check, ReadFull(kv), ReadFull(crc), compare]"})
	facts = append(facts, fact{"has_saferead_bare_read", "op", has("value.go", "safeRead", "Entry", ".Read("), "value.go:safeRead.Entry [contains a bare .Read( call]"})
	facts = append(facts, fact{"ord_header_decodefrom_reads", "op", ascending("structs.go", "header", "DecodeFrom",
		"h.meta, err = reader.ReadByte()", "h.userMeta, err = reader.ReadByte()", "klen, err := binary.ReadUvarint(reader)",
		"vlen, err := binary.ReadUvarint(reader)", "h.expiresAt, err = binary.ReadUvarint(reader)"), "structs.go:header.DecodeFrom [order and kind of reads]"})
	facts = append(facts, fact{"has_iterate_bufio", "op", has("memtable.go", "logFile", "iterate", "bufio.NewReader(lf.NewReader(int(offset)))"), "memtable.go:logFile.iterate [reads through bufio.NewReader over the mmap reader]"})
	// manifest rewrite rule
	addOp("op_manifest_rewrite_threshold", "manifest.go", "manifestFile", "addChanges", "Deletions", "deletionsRewriteThreshold")
	// directory locks (C35): Open takes the second lock iff the absolute paths differ
	addOp("op_open_valuedir_cmp", "db.go", "", "Open", "absValueDir", "absDir")

	// hashes of every anchored file
	shas := map[string]string{}
	var names []string
	for rel := range files {
		names = append(names, rel)
	}
	sort.Strings(names)
	for _, rel := range names {
		b, _ := os.ReadFile(filepath.Join(repo, rel))
		h := sha256.Sum256(b)
		shas[rel] = hex.EncodeToString(h[:8])
	}

	var lb strings.Builder
	lb.WriteString("/-! GENERATED by /verif/extract from /repo's current sources — do not edit.\n")
	lb.WriteString("Values and comparison operators at named decision sites; `Cxx_tgen_*` theorems re-prove\nby `decide` that they are what the model assumes. -/\nnamespace Badger.Extracted\n\n")
	for _, f := range facts {
		switch f.Kind {
		case "nat":
			if _, err := strconv.ParseInt(f.Value, 10, 64); err != nil || strings.HasPrefix(f.Value, "-") {
				fmt.Fprintf(&lb, "/-- %s : NOT FOUND (%s) -/\ndef %s : Nat := 0\ndef %s_found : Bool := false\n", f.Where, f.Value, f.Name, f.Name)
			} else {
				fmt.Fprintf(&lb, "/-- %s -/\ndef %s : Nat := %s\ndef %s_found : Bool := true\n", f.Where, f.Name, f.Value, f.Name)
			}
		case "op":
			fmt.Fprintf(&lb, "/-- %s -/\ndef %s : String := %s\n", f.Where, f.Name, strconv.Quote(f.Value))
		case "str":
			var bs []string
			for _, c := range []byte(f.Value) {
				bs = append(bs, strconv.Itoa(int(c)))
			}
			fmt.Fprintf(&lb, "/-- %s -/\ndef %s : String := %s\ndef %sBytes : List UInt8 := [%s]\ndef %sLen : Nat := %d\n",
				f.Where, f.Name, strconv.Quote(f.Value), f.Name, strings.Join(bs, ", "), f.Name, len(f.Value))
		}
	}
	lb.WriteString("\nend Badger.Extracted\n")
	if err := os.WriteFile(*leanOut, []byte(lb.String()), 0o644); err != nil {
		fmt.Fprintln(os.Stderr, err)
		os.Exit(1)
	}
	out := map[string]interface{}{"facts": facts, "file_sha256_prefix": shas}
	b, _ := json.MarshalIndent(out, "", " ")
	if err := os.WriteFile(*factsOut, b, 0o644); err != nil {
		fmt.Fprintln(os.Stderr, err)
		os.Exit(1)
	}
}
