module extract

go 1.23.0
