package main

// Engines "stream", "backup", "swriter" (C25, C24, C26): real *badger.DB instances in named
// slots, driven deterministically like the mvcc engine (no compactors, explicit flush), plus
// Stream / Backup / Load / StreamWriter runs compared with the Lean model
// (BadgerModel/{Stream,Backup,StreamWriter}.lean through bmd_stream) and judged by oracles
// written here: exactly-once, one-snapshot, serial Send, restored reads equal, contents equal,
// VerifValidate, next commit timestamp above all versions, re-open.

import (
	"bytes"
	"context"
	"fmt"
	"math"
	"math/rand"
	"os"
	"runtime"
	"runtime/debug"
	"sort"
	"strconv"
	"strings"
	"sync"
	"sync/atomic"
	"time"

	badger "github.com/dgraph-io/badger/v4"
	"github.com/dgraph-io/badger/v4/options"
	"github.com/dgraph-io/badger/v4/pb"
	"github.com/dgraph-io/ristretto/v2/z"
	"google.golang.org/protobuf/proto"
)

func init() {
	engines["stream"] = &Engine{Gen: func(r *rand.Rand, n int, st *Stats) []string { return genStreamEng(r, n, st, "stream") }, ExecX: execStreamEng}
	engines["backup"] = &Engine{Gen: func(r *rand.Rand, n int, st *Stats) []string { return genStreamEng(r, n, st, "backup") }, ExecX: execStreamEng}
	engines["swriter"] = &Engine{Gen: func(r *rand.Rand, n int, st *Stats) []string { return genStreamEng(r, n, st, "swriter") }, ExecX: execStreamEng}
}

// ---------------------------------------------------------------- session

type stSlot struct {
	mv  *mvSess
	opt badger.Options
	kv  map[string]string
}

type stBackup struct {
	data []byte
	max  uint64
	kvs  []*pb.KV
}

type stSess struct {
	slots     map[int]*stSlot
	cur       int
	backups   map[int]*stBackup
	sw        *badger.StreamWriter
	swPreList []string                                 // contents of the destination before the stream writer started
	swData    []*pb.KV                                 // everything written through the stream writer
	swOld     map[uint64]bool                          // table ids present when the stream writer was prepared
	streams   map[*badger.DB]map[string]*badger.Stream // obj=N: Stream objects kept for another run
	maxIssued map[*mvSess]uint64                       // highest commit timestamp handed out so far
	tsReuse   map[*mvSess]bool                         // a re-open set nextTxnTs at or below a timestamp already used
	lastSince uint64                                   // `since` of the most recent backup op
	pending   bool                                     // between stream-begin and stream-end
	pendBegin []string                                 // the words of the stream-begin line
	pendMid   []string                                 // the op lines to run at the mid-run point
	f20       map[*mvSess]bool                         // a level-jumping compaction already changed a read of this DB
	lastKVs   [][]*pb.KV                               // output of the last stream op, one list per range
	st        *Stats
}

func (s *stSess) closeAll() {
	if s.sw != nil {
		s.sw.Cancel()
		s.sw = nil
	}
	for _, sl := range s.slots {
		sl.mv.close()
	}
	s.slots = map[int]*stSlot{}
	s.backups = map[int]*stBackup{}
	s.lastKVs = nil
	s.streams = nil
}

func stOptions(kv map[string]string, dir string) badger.Options {
	keep := kvInt(kv, "keep", 1)
	thr := kvInt(kv, "thr", 32)
	levels := kvInt(kv, "levels", 7)
	tblsz := kvInt(kv, "tblsz", 2<<20)
	basesz := kvInt(kv, "basesz", 10<<20)
	comp := kvInt(kv, "comp", 0)
	opt := badger.DefaultOptions(dir).WithLoggingLevel(badger.ERROR).WithNumCompactors(0).
		WithNumLevelZeroTables(100).WithNumLevelZeroTablesStall(200).
		WithNumVersionsToKeep(keep).WithValueThreshold(int64(thr)).WithMaxLevels(levels).
		WithMemTableSize(1 << 20).WithCompactL0OnClose(false).WithDetectConflicts(true).
		WithBaseTableSize(int64(tblsz)).WithBaseLevelSize(int64(basesz)).WithBlockSize(kvInt(kv, "blksz", 256)).
		WithMetricsEnabled(false).WithValueLogFileSize(1 << 20).WithLevelSizeMultiplier(2)
	switch comp {
	case 1:
		opt = opt.WithCompression(options.Snappy)
	case 2:
		opt = opt.WithCompression(options.ZSTD)
	default:
		opt = opt.WithCompression(options.None)
	}
	return opt.WithBlockCacheSize(1 << 20).WithIndexCacheSize(0)
}

// open creates a fresh DB in slot n; returns the final op words after the op name.
func (s *stSess) open(n int, kv map[string]string) (string, error) {
	if old := s.slots[n]; old != nil {
		old.mv.close()
		delete(s.slots, n)
	}
	mv := &mvSess{st: s.st}
	mv.managed = kvInt(kv, "managed", 0) != 0
	mv.keep = kvInt(kv, "keep", 1)
	mv.thr = kvInt(kv, "thr", 32)
	mv.levels = kvInt(kv, "levels", 7)
	mv.inmem = kvInt(kv, "inmem", 0) != 0
	var opt badger.Options
	if mv.inmem {
		opt = stOptions(kv, "").WithInMemory(true)
	} else {
		mv.dir = scratchDir()
		opt = stOptions(kv, mv.dir)
	}
	var err error
	if mv.managed {
		mv.db, err = badger.OpenManaged(opt)
	} else {
		mv.db, err = badger.Open(opt)
	}
	if err != nil {
		os.RemoveAll(mv.dir)
		return "", err
	}
	mv.now = uint64(time.Now().Unix())
	mv.txns = map[int]*mvTxn{}
	mv.spec = newSpec()
	s.slots[n] = &stSlot{mv: mv, opt: opt, kv: kv}
	s.cur = n
	mc, ms, _ := badger.VerifLimits(mv.db)
	return fmt.Sprintf("managed=%d keep=%d thr=%d inmem=%d levels=%d detect=1 tblsz=%d basesz=%d comp=%d blksz=%d now=%d maxcount=%d maxsize=%d vlogsz=%d",
		b2i(mv.managed), mv.keep, mv.thr, b2i(mv.inmem), mv.levels, kvInt(kv, "tblsz", 2<<20), kvInt(kv, "basesz", 10<<20), kvInt(kv, "comp", 0),
		kvInt(kv, "blksz", 256), mv.now, mc, ms, 1<<20), nil
}

func (s *stSess) curMv() *mvSess {
	if sl := s.slots[s.cur]; sl != nil {
		return sl.mv
	}
	return nil
}

// ---------------------------------------------------------------- formatting

func kvMeta(kv *pb.KV) (byte, byte) {
	var m, um byte
	if len(kv.Meta) > 0 {
		m = kv.Meta[0]
	}
	if len(kv.UserMeta) > 0 {
		um = kv.UserMeta[0]
	}
	return m, um
}

func fmtKV(kv *pb.KV) string {
	m, um := kvMeta(kv)
	return fmt.Sprintf("%s@%d:%d:%d:%d:%s", hx(kv.Key), kv.Version, m, um, kv.ExpiresAt, hx(kv.Value))
}

func fmtKVLists(ls [][]*pb.KV) string {
	var parts []string
	for _, l := range ls {
		var es []string
		for _, kv := range l {
			es = append(es, fmtKV(kv))
		}
		parts = append(parts, "["+strings.Join(es, ",")+"]")
	}
	return strings.Join(parts, " ")
}

func parseKVWord(w string) (*pb.KV, bool) {
	i := strings.IndexByte(w, '@')
	if i < 0 {
		return nil, false
	}
	f := strings.Split(w[i+1:], ":")
	if len(f) != 5 {
		return nil, false
	}
	m, _ := strconv.Atoi(f[1])
	um, _ := strconv.Atoi(f[2])
	kv := &pb.KV{Key: unhx(w[:i]), Version: atou(f[0]), ExpiresAt: atou(f[3]), Value: unhx(f[4]), UserMeta: []byte{byte(um)}}
	if m != 0 {
		kv.Meta = []byte{byte(m)}
	}
	return kv, true
}

func chooseFn(c int) func(item *badger.Item) bool {
	switch c {
	case 1:
		return func(it *badger.Item) bool { return len(it.Key())%2 == 0 }
	case 2:
		return func(it *badger.Item) bool { return it.Version()%2 == 0 }
	case 3:
		return func(it *badger.Item) bool { return !it.IsDeletedOrExpired() }
	case 4:
		return func(it *badger.Item) bool { return it.UserMeta()%2 == 0 }
	}
	return func(it *badger.Item) bool { return true }
}

// ---------------------------------------------------------------- basic mvcc ops on the current DB

func (s *stSess) basicOp(w []string, line string, emit func(string, string), fail func(string, string)) bool {
	mv := s.curMv()
	switch w[0] {
	case "begin":
		id, _ := strconv.Atoi(w[1])
		upd := w[2] != "0"
		rts := atou(w[3])
		var t *badger.Txn
		if mv.managed {
			t = mv.db.NewTransactionAt(rts, upd)
		} else {
			t = mv.db.NewTransaction(upd)
		}
		badger.VerifSyncMarks(mv.db)
		mv.txns[id] = &mvTxn{t: t, update: upd, readTs: t.ReadTs(), pending: map[string]specVer{}}
		emit(line, fmt.Sprintf("ok %d", t.ReadTs()))
	case "set":
		id, _ := strconv.Atoi(w[1])
		tx := mv.txns[id]
		if tx == nil {
			emit(line, "err:discarded")
			return true
		}
		key, val := unhx(w[2]), unhx(w[6])
		meta, _ := strconv.Atoi(w[3])
		um, _ := strconv.Atoi(w[4])
		exp := atou(w[5])
		var err error
		sv := specVer{userMeta: byte(um), exp: exp, val: val}
		if meta&1 != 0 {
			err = tx.t.Delete(key)
			sv = specVer{del: true}
		} else {
			e := badger.NewEntry(key, val).WithMeta(byte(um))
			if meta&4 != 0 {
				e = e.WithDiscard()
				sv.discard = true
			}
			e.ExpiresAt = exp
			err = tx.t.SetEntry(e)
		}
		if err == nil {
			if _, ok := tx.pending[string(key)]; !ok {
				tx.order = append(tx.order, string(key))
			}
			tx.pending[string(key)] = sv
		}
		emit(line, errKind(err))
	case "commit":
		id, _ := strconv.Atoi(w[1])
		tx := mv.txns[id]
		if tx == nil {
			emit(line, "err:discarded")
			return true
		}
		emit(line, s.commitTxn(mv, tx, atou(w[2])))
	case "discard":
		id, _ := strconv.Atoi(w[1])
		if tx := mv.txns[id]; tx != nil {
			tx.t.Discard()
			tx.done = true
			badger.VerifSyncMarks(mv.db)
		}
		emit(line, "ok")
	case "flush":
		badger.VerifTakeEvents()
		err := badger.VerifFlush(mv.db)
		if err != nil {
			emit(line, errKind(err))
			return true
		}
		nEv := 0
		mv.emitEvents(func(op, out string) { nEv++; emit(op, out) }, fail)
		if nEv == 0 {
			emit("flush id=0", "ok") // empty memtable: nothing was written
		}
		emit("dump", mv.dump())
		mv.judgeStructure(fail)
	case "compact", "compact-none":
		s.compactOp(mv, kvWords(w[1:]), emit, fail)
	case "dropall":
		for _, t := range mv.txns {
			if !t.done {
				t.t.Discard()
				t.done = true
			}
		}
		badger.VerifSyncMarks(mv.db)
		mv.dropAll(emit, fail)
	case "dump":
		// dumps are emitted automatically after structural ops
	default:
		return false
	}
	return true
}

// compactOp: one production compaction (mvSess.compact: picker, runCompactDef, C12/C13/C14
// oracles). A read changed by a compaction that jumps over a non-empty level — a state only an
// incremental StreamWriter run creates: tables at prevLevel-1, above levelTargets().baseLevel —
// is reported under its own tag (finding F20).
func (s *stSess) compactOp(mv *mvSess, kv map[string]string, emit func(string, string), fail func(string, string)) {
	var occ []bool
	for _, lvl := range badger.VerifLevels(mv.db) {
		occ = append(occ, len(lvl) > 0)
	}
	thisL, nextL := -1, -1
	emit2 := func(op, out string) {
		if strings.HasPrefix(op, "compact ") {
			k := kvWords(strings.Fields(op)[1:])
			thisL, nextL = kvInt(k, "this", -1), kvInt(k, "next", -1)
		}
		emit(op, out)
	}
	fail2 := func(tag, msg string) {
		skipped := -1
		for i := thisL + 1; i < nextL && i < len(occ); i++ {
			if occ[i] {
				skipped = i
			}
		}
		if tag == "C12-read-wrong" && s.f20[mv] {
			// judgeStable also compares every read with the history: a read an earlier
			// level-jumping compaction made wrong stays wrong
			fail("F20:compaction-skips-stream-written-level", "sequel of the earlier level-jumping compaction in this session: "+msg)
			return
		}
		if strings.HasPrefix(tag, "C12-read") && thisL >= 0 && skipped >= 0 {
			if s.f20 == nil {
				s.f20 = map[*mvSess]bool{}
			}
			s.f20[mv] = true
			fail("F20:compaction-skips-stream-written-level", fmt.Sprintf("level %d -> %d compaction with level %d non-empty (tables put there by StreamWriter.PrepareIncremental, above the base level): %s", thisL, nextL, skipped, msg))
			return
		}
		fail(tag, msg)
	}
	mv.compact(kv, emit2, fail2)
}

// commitTxn commits and records the versions in the history oracle; returns the output word(s).
func (s *stSess) commitTxn(mv *mvSess, tx *mvTxn, cts uint64) string {
	var err error
	if mv.managed {
		err = tx.t.CommitAt(cts, nil)
	} else {
		err = tx.t.Commit()
	}
	badger.VerifSyncMarks(mv.db)
	wasDone := tx.done
	tx.done = true
	switch {
	case err == nil && len(tx.pending) > 0 && !wasDone:
		ts := badger.VerifNextTxnTs(mv.db) - 1
		if mv.managed {
			ts = cts
		}
		for _, k := range tx.order {
			sv := tx.pending[k]
			sv.ver = ts
			mv.spec.add([]byte(k), sv)
		}
		if s.maxIssued == nil {
			s.maxIssued = map[*mvSess]uint64{}
		}
		if ts > s.maxIssued[mv] {
			s.maxIssued[mv] = ts
		}
		return fmt.Sprintf("ok %d", ts)
	case err == nil:
		return "ok noop"
	}
	return errKind(err)
}

// ---------------------------------------------------------------- Stream

type streamRun struct {
	lists  [][]*pb.KV // per range, in range order
	done   int
	rts    map[uint64]bool
	serial bool // Send was never entered concurrently
	sends  int
	err    error
	mid    string
}

type kvRange = [2][]byte

func rangesOfSplits(splits [][]byte) []kvRange {
	sort.Slice(splits, func(i, j int) bool { return bytes.Compare(splits[i], splits[j]) < 0 })
	var out []kvRange
	var start []byte
	for _, k := range splits {
		out = append(out, kvRange{start, k})
		start = k
	}
	return append(out, kvRange{start, nil})
}

func splitsOf(rs []kvRange) string {
	var ss []string
	for _, r := range rs {
		if len(r[1]) > 0 {
			ss = append(ss, hx(r[1]))
		}
	}
	if len(ss) == 0 {
		return "none"
	}
	return strings.Join(ss, ",")
}

// runStream configures a Stream from the op's parameters, runs it (production Orchestrate, or
// the stepped schedule when pre/mid are given) and groups the KVs received by Send.
func (s *stSess) runStream(mv *mvSess, kv map[string]string, backupTo *bytes.Buffer) (*streamRun, []kvRange, uint64) {
	return s.runStreamMid(mv, kv, backupTo, nil)
}

// runStreamMid: midFn (stepped schedule only) replaces the single mid-run commit by an arbitrary
// script run at the same point of the schedule.
func (s *stSess) runStreamMid(mv *mvSess, kv map[string]string, backupTo *bytes.Buffer, midFn func()) (*streamRun, []kvRange, uint64) {
	numGo := kvInt(kv, "numgo", 1)
	var st *badger.Stream
	if mv.managed {
		st = mv.db.NewStreamAt(atou(kv["at"]))
	} else if o, ok := kv["obj"]; ok {
		// obj=N: the SAME *Stream object runs again ("Orchestrate can be called multiple times,
		// but in serial order"); every option is set anew for each run
		kind := "s:"
		if backupTo != nil {
			kind = "b:" // Backup installs its own KeyToList/Send: its objects are kept apart
		}
		if s.streams == nil {
			s.streams = map[*badger.DB]map[string]*badger.Stream{}
		}
		if s.streams[mv.db] == nil {
			s.streams[mv.db] = map[string]*badger.Stream{}
		}
		st = s.streams[mv.db][kind+o]
		if st == nil {
			st = mv.db.NewStream()
			s.streams[mv.db][kind+o] = st
			s.st.Inc("stream-object:new")
		} else {
			s.st.Inc("stream-object:rerun")
		}
	} else {
		st = mv.db.NewStream()
	}
	st.NumGo = numGo
	st.Prefix = nil
	if p, ok := kv["prefix"]; ok {
		st.Prefix = unhx(p)
	}
	st.LogPrefix = "verif"
	since := uint64(kvInt(kv, "since", 0))
	st.SinceTs = since
	if v, ok := kv["sincets"]; ok {
		st.SinceTs = atou(v)
	}
	st.SendDoneMarkers(kvInt(kv, "done", 0) != 0)
	run := &streamRun{rts: map[uint64]bool{}, serial: true}
	var mu sync.Mutex
	choose := chooseFn(kvInt(kv, "choose", 0))
	st.ChooseKey = func(item *badger.Item) bool {
		mu.Lock()
		run.rts[badger.VerifItemReadTs(item)] = true
		mu.Unlock()
		return choose(item)
	}
	// the ranges: given explicitly (stepped schedule) or whatever DB.Ranges computes
	var ranges []kvRange
	stepped := kv["sched"] == "step"
	if stepped {
		var sp [][]byte
		if v := kv["splits"]; v != "" && v != "none" {
			for _, h := range strings.Split(v, ",") {
				sp = append(sp, unhx(h))
			}
		}
		ranges = rangesOfSplits(sp)
	} else {
		ranges = badger.VerifRanges(mv.db, st.Prefix, numGo)
	}
	var inflight int32
	byStream := map[uint32][]*pb.KV{}
	var order []uint32
	collect := func(list *pb.KVList) {
		for _, kv := range list.Kv {
			if kv.StreamDone {
				run.done++
				continue
			}
			if _, ok := byStream[kv.StreamId]; !ok {
				order = append(order, kv.StreamId)
			}
			byStream[kv.StreamId] = append(byStream[kv.StreamId], kv)
		}
	}
	var maxV uint64
	if backupTo == nil {
		st.Send = func(buf *z.Buffer) error {
			if atomic.AddInt32(&inflight, 1) != 1 {
				run.serial = false
			}
			run.sends++
			list, err := badger.BufferToKVList(buf)
			if err == nil {
				collect(list)
			}
			time.Sleep(50 * time.Microsecond)
			atomic.AddInt32(&inflight, -1)
			return err
		}
	}
	mid := func() {}
	if m, ok := kv["mid"]; ok {
		id, _ := strconv.Atoi(m)
		mid = func() {
			if tx := mv.txns[id]; tx != nil {
				run.mid = strings.ReplaceAll(s.commitTxn(mv, tx, atou(kv["cts"])), " ", ":")
			} else {
				run.mid = "err:discarded"
			}
		}
	}
	if midFn != nil {
		mid = midFn
	}
	tRun := time.Now()
	if os.Getenv("VERIF_TIMING") == "2" {
		wd := time.AfterFunc(400*time.Millisecond, func() {
			buf := make([]byte, 1<<20)
			n := runtime.Stack(buf, true)
			fmt.Fprintf(os.Stderr, "WATCHDOG\n%s\nENDWATCHDOG\n", buf[:n])
		})
		defer wd.Stop()
	}
	defer func() {
		if os.Getenv("VERIF_TIMING") != "" {
			stTimingAcc[fmt.Sprintf("run:numgo=%d,step=%v", numGo, stepped)] += time.Since(tRun)
			fmt.Fprintln(os.Stderr, "RUN", numGo, stepped, time.Since(tRun))
		}
	}()
	switch {
	case backupTo != nil:
		// Stream.Backup installs its own KeyToList and Send and calls Orchestrate
		maxV, run.err = st.Backup(backupTo, since)
	case stepped:
		run.err = badger.VerifStreamStepped(st, ranges, kvInt(kv, "pre", len(ranges)), mid)
	default:
		run.err = st.Orchestrate(context.Background())
	}
	badger.VerifSyncMarks(mv.db)
	if backupTo != nil && run.err == nil {
		// decode the frames; group by stream id as for a plain stream
		kvs, err := decodeBackup(backupTo.Bytes())
		if err != nil {
			run.err = err
		}
		collect(&pb.KVList{Kv: kvs})
	}
	// one list per range: every range got its own stream id; ranges without output have none
	used := map[uint32]bool{}
	for _, r := range ranges {
		var hit []*pb.KV
		for _, id := range order {
			l := byStream[id]
			if used[id] || len(l) == 0 {
				continue
			}
			k := l[0].Key
			if bytes.Compare(k, r[0]) >= 0 && (len(r[1]) == 0 || bytes.Compare(k, r[1]) < 0) {
				hit = append(hit, l...)
				used[id] = true
			}
		}
		run.lists = append(run.lists, hit)
	}
	for _, id := range order {
		if !used[id] {
			// cannot happen for a correct run: a stream whose first key lies in no range
			run.lists = append(run.lists, byStream[id])
		}
	}
	return run, ranges, maxV
}

func decodeBackup(b []byte) ([]*pb.KV, error) {
	var out []*pb.KV
	for len(b) > 0 {
		if len(b) < 8 {
			return nil, fmt.Errorf("short frame header")
		}
		var sz uint64
		for i := 7; i >= 0; i-- {
			sz = sz<<8 | uint64(b[i])
		}
		b = b[8:]
		if uint64(len(b)) < sz {
			return nil, fmt.Errorf("short frame")
		}
		list := &pb.KVList{}
		if err := proto.Unmarshal(b[:sz], list); err != nil {
			return nil, err
		}
		out = append(out, list.Kv...)
		b = b[sz:]
	}
	return out, nil
}

// snapshotItems: what ONE read transaction created now sees with an AllVersions iterator
// (the oracle's reference for a Stream run): per key the items newest first.
type snapItem struct {
	key     []byte
	ver     uint64
	um      byte
	exp     uint64
	dead    bool
	discard bool
	meta    byte
	val     []byte
}

func (s *stSess) snapshot(mv *mvSess, kv map[string]string, sinceTs uint64) (map[string][]snapItem, []string, uint64) {
	var txn *badger.Txn
	if mv.managed {
		txn = mv.db.NewTransactionAt(atou(kv["at"]), false)
	} else {
		txn = mv.db.NewTransaction(false)
	}
	defer func() {
		txn.Discard()
		badger.VerifSyncMarks(mv.db)
	}()
	opt := badger.DefaultIteratorOptions
	opt.AllVersions = true
	opt.SinceTs = sinceTs
	if p, ok := kv["prefix"]; ok {
		opt.Prefix = unhx(p)
	}
	it := txn.NewIterator(opt)
	defer it.Close()
	out := map[string][]snapItem{}
	var keys []string
	for it.Rewind(); it.Valid(); it.Next() {
		item := it.Item()
		v, _ := item.ValueCopy(nil)
		k := string(item.KeyCopy(nil))
		if _, ok := out[k]; !ok {
			keys = append(keys, k)
		}
		out[k] = append(out[k], snapItem{key: []byte(k), ver: item.Version(), um: item.UserMeta(), exp: item.ExpiresAt(),
			dead: item.IsDeletedOrExpired(), discard: item.DiscardEarlierVersions(), val: v})
	}
	return out, keys, txn.ReadTs()
}

// specToList: Stream.ToList's contract re-stated on a version list.
func specToList(vs []snapItem, keep int) []string {
	var out []string
	for _, v := range vs {
		if v.dead {
			break
		}
		out = append(out, fmt.Sprintf("%s@%d:0:%d:%d:%s", hx(v.key), v.ver, v.um, v.exp, hx(v.val)))
		if keep == 1 || v.discard {
			break
		}
	}
	return out
}

func (s *stSess) doStream(w []string, line string, emit func(string, string), fail func(string, string)) {
	mv := s.curMv()
	kv := kvWords(w[1:])
	// the oracle's single snapshot, taken when the run starts
	snap, keys, snapTs := s.snapshot(mv, kv, uint64(kvInt(kv, "since", 0)))
	run, ranges, _ := s.runStream(mv, kv, nil)
	if _, ok := kv["mid"]; ok && len(run.rts) == 1 && !run.rts[snapTs] {
		// every producer created its transaction after the concurrent commit: the one snapshot
		// of this run is the one after it
		snap2, keys2, ts2 := s.snapshot(mv, kv, uint64(kvInt(kv, "since", 0)))
		if run.rts[ts2] {
			snap, keys, snapTs = snap2, keys2, ts2
		}
	}
	// final op line: intent + the split points observed
	var words []string
	for _, x := range w[1:] {
		if !strings.HasPrefix(x, "splits=") {
			words = append(words, x)
		}
	}
	op := "stream " + strings.Join(words, " ") + " splits=" + splitsOf(ranges)
	if run.err != nil {
		emit(op, "err:"+strings.ReplaceAll(run.err.Error(), " ", "_"))
		return
	}
	midS := "-"
	if _, ok := kv["mid"]; ok {
		midS = run.mid
	}
	emit(op, fmt.Sprintf("ok mid=%s done=%d %s", midS, run.done, fmtKVLists(run.lists[:min(len(run.lists), len(ranges))])))
	s.lastKVs = run.lists
	s.st.Inc(fmt.Sprintf("stream:numgo=%s,ranges=%s,sched=%s", kv["numgo"], sizeBucket(len(ranges)), kv["sched"]))
	s.judgeStream(mv, kv, run, ranges, snap, keys, snapTs, fail)
}

// judgeStream: the oracles of one Stream run against the single snapshot `snap` (taken at snapTs).
func (s *stSess) judgeStream(mv *mvSess, kv map[string]string, run *streamRun, ranges []kvRange,
	snap map[string][]snapItem, keys []string, snapTs uint64, fail func(string, string)) {
	if len(run.lists) != len(ranges) {
		fail("C25-range", fmt.Sprintf("a stream id delivered keys belonging to no key range (%d lists, %d ranges)", len(run.lists), len(ranges)))
	}
	if !run.serial {
		fail("C25-send-serial", "Send was entered while another Send was in flight")
	}
	if kvInt(kv, "done", 0) != 0 && run.done != len(ranges) {
		fail("C25-done-markers", fmt.Sprintf("%d done markers for %d ranges", run.done, len(ranges)))
	}
	got := map[string][]string{}
	count := map[string]int{}
	for _, l := range run.lists {
		var prev []byte
		for _, kv := range l {
			k := string(kv.Key)
			got[k] = append(got[k], fmtKV(kv))
			if !bytes.Equal(prev, kv.Key) {
				count[k]++
				prev = append(prev[:0], kv.Key...)
			}
		}
	}
	for k, c := range count {
		if c > 1 {
			fail("C25-exactly-once", fmt.Sprintf("key %s was delivered %d times", hx([]byte(k)), c))
			return
		}
	}
	choose := kvInt(kv, "choose", 0)
	multi := len(run.rts) > 1
	for _, k := range keys {
		vs := snap[k]
		chosen := true
		switch choose {
		case 1:
			chosen = len(k)%2 == 0
		case 2:
			chosen = vs[0].ver%2 == 0
		case 3:
			chosen = !vs[0].dead
		case 4:
			chosen = vs[0].um%2 == 0
		}
		var want []string
		if chosen {
			want = specToList(vs, mv.keep)
		}
		if strings.Join(want, ",") != strings.Join(got[k], ",") {
			if !multi && len(want) > 0 && len(got[k]) == 0 {
				fail("C25-missing-at-snapshot", fmt.Sprintf("key %s was not delivered; the snapshot at the run's start (ts=%d) holds [%s] (all producers read at %v)",
					hx([]byte(k)), snapTs, strings.Join(want, ","), sortedTs(run.rts)))
				return
			}
			if multi {
				fail("F7:stream-multi-snapshot", fmt.Sprintf("producers read at different timestamps %v: key %s delivered [%s], the snapshot at the run's start (ts=%d) holds [%s]",
					sortedTs(run.rts), hx([]byte(k)), strings.Join(got[k], ","), snapTs, strings.Join(want, ",")))
			} else {
				fail("C25-snapshot", fmt.Sprintf("key %s delivered [%s], the snapshot at the run's start (ts=%d) holds [%s]",
					hx([]byte(k)), strings.Join(got[k], ","), snapTs, strings.Join(want, ",")))
			}
			return
		}
		delete(got, k)
	}
	for k, g := range got {
		if multi {
			fail("F7:stream-multi-snapshot", fmt.Sprintf("producers read at different timestamps %v: key %s delivered [%s], absent from the snapshot at the run's start (ts=%d)",
				sortedTs(run.rts), hx([]byte(k)), strings.Join(g, ","), snapTs))
		} else {
			fail("C25-snapshot", fmt.Sprintf("key %s delivered [%s] but the snapshot at the run's start does not hold it", hx([]byte(k)), strings.Join(g, ",")))
		}
		return
	}
	// history oracle (independent of the iterator): the newest delivered version of every key
	if !multi && !(mv.spec.compacted) && choose == 0 {
		for _, k := range mv.spec.keys() {
			if p, ok := kv["prefix"]; ok && !bytes.HasPrefix([]byte(k), unhx(p)) {
				continue
			}
			v, ok := mv.spec.newest([]byte(k), snapTs, uint64(kvInt(kv, "since", 0)))
			var have uint64
			for _, l := range run.lists {
				for _, x := range l {
					if string(x.Key) == k && x.Version > have {
						have = x.Version
					}
				}
			}
			switch {
			case (!ok || v.dead(mv.now)) && have != 0:
				fail("C25-history", fmt.Sprintf("key %s delivered at version %d, the history has no live version at ts=%d", hx([]byte(k)), have, snapTs))
				return
			case ok && !v.dead(mv.now) && have != v.ver:
				fail("C25-history", fmt.Sprintf("key %s: newest delivered version %d, history says %d at ts=%d", hx([]byte(k)), have, v.ver, snapTs))
				return
			}
		}
	}
}

// stream-begin <params> … stream-end: one stepped Stream run whose mid-run point (just before
// producer `pre` starts; the run's snapshot is pinned by then) executes the op lines in between
// on the same DB: commits of newer versions and deletes, readers that come and go, flushes,
// production compactions. Final lines: `stream-begin …` (emitted when the mid-run point is
// reached), the lines of the script with their own outputs (a compaction's `discard=` is the
// watermark badger used: the run's read mark must hold it back), `stream-end` with the delivered
// lists. Judged against the snapshot taken when the run starts.
func (s *stSess) doStreamSpan(emit func(string, string), fail func(string, string)) {
	w, mids := s.pendBegin, s.pendMid
	s.pending, s.pendBegin, s.pendMid = false, nil, nil
	mv := s.curMv()
	kv := kvWords(w[1:])
	kv["sched"] = "step"
	delete(kv, "mid")
	snap, keys, snapTs := s.snapshot(mv, kv, uint64(kvInt(kv, "since", 0)))
	begun := false
	midFn := func() {
		begun = true
		emit(strings.Join(w, " "), "ok")
		for _, l := range mids {
			mw := strings.Fields(l)
			if len(mw) == 0 || mw[len(mw)-1] == "ev=1" {
				continue
			}
			s.st.Inc("midrun-op:" + mw[0])
			if !s.basicOp(mw, l, emit, fail) {
				emit(l, "bad-op")
			}
		}
	}
	run, ranges, _ := s.runStreamMid(mv, kv, nil, midFn)
	if !begun {
		emit(strings.Join(w, " "), "ok")
	}
	if run.err != nil {
		emit("stream-end", "err:"+strings.ReplaceAll(run.err.Error(), " ", "_"))
		return
	}
	emit("stream-end", fmt.Sprintf("ok done=%d %s", run.done, fmtKVLists(run.lists[:min(len(run.lists), len(ranges))])))
	s.lastKVs = run.lists
	s.st.Inc(fmt.Sprintf("stream-span:ranges=%s,pre=%s", sizeBucket(len(ranges)), kv["pre"]))
	s.judgeStream(mv, kv, run, ranges, snap, keys, snapTs, fail)
}

// stream-race numgo=N: the production Orchestrate, free running, while another goroutine commits
// sum-preserving transfers between accounts. Nothing about the interleaving is controlled, so
// the op is the last of its session and its output is just "ok"; what is judged: all producers
// read at one timestamp and the delivered balances add up (before commit 5000444 they did not always: finding F7).
func (s *stSess) doStreamRace(w []string, line string, emit func(string, string), fail func(string, string)) {
	mv := s.curMv()
	kv := kvWords(w[1:])
	emit(line, "ok")
	if mv.managed {
		return
	}
	const nAcct, start = 256, 1000
	acct := func(i int) []byte { return []byte(fmt.Sprintf("acct%04d", i)) }
	enc := func(v int) []byte { return []byte(strconv.Itoa(v)) }
	err := mv.db.Update(func(txn *badger.Txn) error {
		for i := 0; i < nAcct; i++ {
			if err := txn.Set(acct(i), enc(start)); err != nil {
				return err
			}
		}
		return nil
	})
	if err != nil {
		return
	}
	_ = badger.VerifFlush(mv.db) // several blocks => several key ranges
	stop := make(chan struct{})
	var wg sync.WaitGroup
	commits := 0
	wg.Add(1)
	go func() {
		defer wg.Done()
		rng := rand.New(rand.NewSource(int64(kvInt(kv, "seed", 1))))
		for {
			select {
			case <-stop:
				return
			default:
			}
			i, j := rng.Intn(nAcct), rng.Intn(nAcct)
			if i == j {
				continue
			}
			_ = mv.db.Update(func(txn *badger.Txn) error {
				get := func(k []byte) int {
					it, err := txn.Get(k)
					if err != nil {
						return 0
					}
					v, _ := it.ValueCopy(nil)
					n, _ := strconv.Atoi(string(v))
					return n
				}
				a, b := get(acct(i)), get(acct(j))
				if err := txn.Set(acct(i), enc(a-1)); err != nil {
					return err
				}
				return txn.Set(acct(j), enc(b+1))
			})
			commits++
		}
	}()
	st := mv.db.NewStream()
	st.NumGo = kvInt(kv, "numgo", 8)
	st.Prefix = []byte("acct")
	st.LogPrefix = "verif"
	rts := map[uint64]bool{}
	var mu sync.Mutex
	st.ChooseKey = func(item *badger.Item) bool {
		mu.Lock()
		rts[badger.VerifItemReadTs(item)] = true
		mu.Unlock()
		return true
	}
	total, keys := 0, 0
	seen := map[string]bool{}
	st.Send = func(buf *z.Buffer) error {
		list, err := badger.BufferToKVList(buf)
		if err != nil {
			return err
		}
		for _, x := range list.Kv {
			if seen[string(x.Key)] {
				continue // older versions (NumVersionsToKeep > 1)
			}
			seen[string(x.Key)] = true
			n, _ := strconv.Atoi(string(x.Value))
			total += n
			keys++
		}
		return nil
	}
	rerr := st.Orchestrate(context.Background())
	close(stop)
	wg.Wait()
	badger.VerifSyncMarks(mv.db)
	s.st.Inc(fmt.Sprintf("stream-race:distinct-read-ts=%d", len(rts)))
	if rerr != nil {
		fail("C25-race", "Orchestrate failed: "+rerr.Error())
		return
	}
	switch {
	case len(rts) > 1:
		fail("F7:stream-multi-snapshot", fmt.Sprintf("free-running Orchestrate (NumGo=%d, %d concurrent transfers): producers read at different timestamps %v; %d accounts delivered, total %d (one snapshot holds %d)",
			st.NumGo, commits, sortedTs(rts), keys, total, nAcct*start))
	case keys != nAcct || total != nAcct*start:
		fail("C25-race", fmt.Sprintf("one read timestamp %v but %d accounts / total %d delivered (expected %d / %d)", sortedTs(rts), keys, total, nAcct, nAcct*start))
	}
}

func sortedTs(m map[uint64]bool) []uint64 {
	var out []uint64
	for k := range m {
		out = append(out, k)
	}
	sort.Slice(out, func(i, j int) bool { return out[i] < out[j] })
	return out
}

// ---------------------------------------------------------------- Backup / Load

func (s *stSess) doBackup(w []string, line string, emit func(string, string), fail func(string, string)) {
	mv := s.curMv()
	kv := kvWords(w[1:])
	// since=@N: the version returned by backup N
	if v := kv["since"]; strings.HasPrefix(v, "@") {
		n, _ := strconv.Atoi(v[1:])
		if b := s.backups[n]; b != nil {
			kv["since"] = utoa(b.max)
		} else {
			kv["since"] = "0"
		}
	}
	since := uint64(kvInt(kv, "since", 0))
	s.lastSince = since
	sinceTs := since
	if v, ok := kv["sincets"]; ok {
		sinceTs = atou(v)
	}
	kv["sincets"] = utoa(sinceTs)
	snap, keys, snapTs := s.snapshot(mv, kv, sinceTs)
	var buf bytes.Buffer
	run, ranges, maxV := s.runStream(mv, kv, &buf)
	var words []string
	for _, k := range []string{"buf", "since", "sincets", "numgo", "prefix", "at", "obj"} {
		if v, ok := kv[k]; ok {
			words = append(words, k+"="+v)
		}
	}
	op := "backup " + strings.Join(words, " ") + " splits=" + splitsOf(ranges)
	if run.err != nil {
		emit(op, "err:"+strings.ReplaceAll(run.err.Error(), " ", "_"))
		return
	}
	b := &stBackup{data: append([]byte{}, buf.Bytes()...), max: maxV}
	for _, l := range run.lists {
		b.kvs = append(b.kvs, l...)
	}
	s.backups[kvInt(kv, "buf", 0)] = b
	emit(op, fmt.Sprintf("ok mid=- max=%d %s", maxV, fmtKVLists(run.lists[:min(len(run.lists), len(ranges))])))
	s.st.Inc(fmt.Sprintf("backup:since=%v,ranges=%s", since > 0, sizeBucket(len(ranges))))
	// ---- oracles: per key the versions down to the first boundary, markers included
	if len(run.lists) != len(ranges) {
		fail("C24-range", "a stream id delivered keys belonging to no key range")
	}
	got := map[string][]string{}
	var top uint64
	for _, x := range b.kvs {
		got[string(x.Key)] = append(got[string(x.Key)], fmtKV(x))
		if x.Version > top {
			top = x.Version
		}
	}
	// "All keys with version =< sinceTs will be ignored": only the synthetic delete below a
	// discard-earlier entry may sit at the since version itself
	for _, l := range run.lists {
		for i, x := range l {
			if sinceTs > 0 && x.Version <= sinceTs {
				m, _ := kvMeta(x)
				synthetic := i > 0 && bytes.Equal(l[i-1].Key, x.Key) && l[i-1].Version == x.Version+1 && m == 1 && len(l[i-1].Meta) > 0 && l[i-1].Meta[0]&4 != 0
				if !synthetic {
					fail("C24-since", fmt.Sprintf("backup with SinceTs=%d holds key %s at version %d", sinceTs, hx(x.Key), x.Version))
					break
				}
			}
		}
	}
	if maxV != top {
		fail("C24-maxversion", fmt.Sprintf("Backup returned %d, the highest version written is %d", maxV, top))
	}
	if since != sinceTs {
		return // Stream.Backup on a stream with its own SinceTs: compared with the model only
	}
	for _, k := range keys {
		var want []string
		for _, v := range snap[k] {
			val := v.val
			if v.dead {
				val = nil
			}
			want = append(want, fmt.Sprintf("%s@%d:*:%d:%d:%s", hx(v.key), v.ver, v.um, v.exp, hx(val)))
			if v.discard {
				want = append(want, fmt.Sprintf("%s@%d:*:0:0:-", hx(v.key), v.ver-1))
				break
			}
			if v.dead {
				break
			}
		}
		var have []string
		for _, g := range got[k] {
			// the meta byte is judged through Load (restored reads); mask it here
			f := strings.SplitN(g, ":", 3)
			have = append(have, f[0]+":*:"+f[2])
		}
		if strings.Join(want, ",") != strings.Join(have, ",") {
			fail("C24-backup-versions", fmt.Sprintf("key %s: backup holds [%s], the snapshot at ts=%d prescribes [%s]", hx([]byte(k)), strings.Join(have, ","), snapTs, strings.Join(want, ",")))
			return
		}
		delete(got, k)
	}
	for k := range got {
		fail("C24-backup-versions", fmt.Sprintf("key %s is in the backup but not in the snapshot at ts=%d", hx([]byte(k)), snapTs))
		return
	}
}

func (s *stSess) doLoad(w []string, line string, emit func(string, string), fail func(string, string)) {
	mv := s.curMv()
	kv := kvWords(w[1:])
	b := s.backups[kvInt(kv, "buf", 0)]
	if b == nil {
		emit(line, "bad-op")
		return
	}
	err := mv.db.Load(bytes.NewReader(b.data), 16)
	badger.VerifSyncMarks(mv.db)
	next := badger.VerifNextTxnTs(mv.db)
	if err != nil {
		emit(line, fmt.Sprintf("err next=%d", next))
		return
	}
	emit(line, fmt.Sprintf("ok next=%d", next))
	// C34: the commit watermark may only report timestamps that were handed out: a doneUntil at
	// the NEXT timestamp lets readers start at that timestamp while the commit that gets it is
	// still being applied (its Begin cannot lower doneUntil)
	if st := badger.VerifOracleOf(mv.db).State(); !mv.managed && st.TxnDoneUntil >= st.NextTxnTs {
		fail("C34-txnmark-ahead-of-next", fmt.Sprintf("after Load txnMark.DoneUntil=%d although timestamp %d has not been handed out yet: the commit that gets it will be considered applied before it is written", st.TxnDoneUntil, st.NextTxnTs))
	}
	emit("dump", mv.dump())
	s.st.Inc("load:kvs=" + sizeBucket(len(b.kvs)))
	// the loaded versions enter the destination's history (for later Stream / Backup oracles)
	for _, x := range b.kvs {
		m, um := kvMeta(x)
		mv.spec.add(x.Key, specVer{ver: x.Version, del: m&1 != 0, discard: m&4 != 0, userMeta: um, exp: x.ExpiresAt, val: x.Value})
	}
	// C24_load_ts / C11
	for _, x := range b.kvs {
		if !mv.managed && x.Version >= next {
			fail("C24-load-ts", fmt.Sprintf("after Load nextTxnTs=%d but version %d of key %s was loaded", next, x.Version, hx(x.Key)))
			return
		}
	}
}

// cmp-restore src=A dst=B at=R: every key of the source, every interesting ts from the key's
// first retention boundary up to R: the same visible read.
func (s *stSess) doCmpRestore(w []string, line string, emit func(string, string), fail func(string, string)) {
	kv := kvWords(w[1:])
	src, dst := s.slots[kvInt(kv, "src", 0)], s.slots[kvInt(kv, "dst", 1)]
	if src == nil || dst == nil {
		emit(line, "bad-op")
		return
	}
	emit(line, "ok")
	final := kvInt(kv, "final", 0) != 0
	save := s.cur
	s.cur = kvInt(kv, "src", 0)
	snap, keys, snapTs := s.snapshot(src.mv, map[string]string{"at": utoa(math.MaxUint64)}, 0)
	s.cur = save
	cnt := 0
	for _, k := range keys {
		vs := snap[k]
		// boundary = first dead / discard-earlier version
		bver := uint64(0)
		for _, v := range vs {
			if v.dead || v.discard {
				bver = v.ver
				break
			}
		}
		tss := []uint64{snapTs, math.MaxUint64}
		if !final {
			for _, v := range vs {
				if v.ver >= bver {
					tss = append(tss, v.ver)
					if v.ver > bver {
						tss = append(tss, v.ver-1)
					}
				}
			}
		}
		for _, ts := range tss {
			if ts < bver {
				continue
			}
			a, b := src.mv.readAt([]byte(k), ts), dst.mv.readAt([]byte(k), ts)
			cnt++
			if a != b {
				var av uint64
				fmt.Sscanf(a, "%d:", &av)
				if final && s.tsReuse[src.mv] {
					fail("F29:reopen-reuses-timestamps-backup-since", fmt.Sprintf("key %s at ts=%d: the source serves %q (version %d), the restored chain reads %q; after the newest commits' entries were dropped a re-open of the source handed out commit timestamps again that earlier backups of this chain (last `since` %d) had already covered",
						hx([]byte(k)), ts, a, av, b, s.lastSince))
				} else {
					fail("C24-restored-read", fmt.Sprintf("key %s at ts=%d: source reads %q, restored DB reads %q", hx([]byte(k)), ts, a, b))
				}
				return
			}
		}
	}
	// keys the source no longer holds at all (final state: every key of the restored DB)
	if final {
		s.cur = kvInt(kv, "dst", 1)
		_, dk, _ := s.snapshot(dst.mv, map[string]string{"at": utoa(math.MaxUint64)}, 0)
		s.cur = save
		for _, k := range dk {
			if _, ok := snap[k]; ok {
				continue
			}
			if src.mv.droppedAll {
				// DropAll is not a write: no backup can carry it (outside C24's statement)
				s.st.Inc("cmp-restore:key-dropped-by-dropall")
				continue
			}
			a, b := src.mv.readAt([]byte(k), math.MaxUint64), dst.mv.readAt([]byte(k), math.MaxUint64)
			if a == b {
				continue
			}
			// the source's history: was the newest write to k a delete / an expired entry that
			// compaction has since removed together with everything below it?
			if s.tsReuse[src.mv] {
				fail("F29:reopen-reuses-timestamps-backup-since", fmt.Sprintf("key %s at ts=max: the source serves %q, the restored chain reads %q; a re-open of the source handed out commit timestamps again that earlier backups of this chain had already covered", hx([]byte(k)), a, b))
			} else if nv, ok := src.mv.spec.newest([]byte(k), math.MaxUint64, 0); ok && nv.dead(src.mv.now) && a == "absent" && src.mv.spec.compacted {
				fail("F19:incremental-backup-lost-tombstone", fmt.Sprintf("key %s: the source deleted/expired it at version %d and a compaction dropped that marker before the next incremental backup ran; source reads %q, restored chain reads %q",
					hx([]byte(k)), nv.ver, a, b))
			} else {
				fail("C24-restored-read", fmt.Sprintf("key %s at ts=max: source reads %q, restored DB reads %q", hx([]byte(k)), a, b))
			}
			return
		}
	}
	s.st.Inc("cmp-restore:reads=" + sizeBucket(cnt))
}

// ---------------------------------------------------------------- reopen

func allEntries(db *badger.DB) []string {
	var out []string
	for _, m := range badger.VerifMemEntries(db) {
		for _, e := range m {
			out = append(out, fmtVEntryNoPtr(e))
		}
	}
	for _, lvl := range badger.VerifLevels(db) {
		for _, t := range lvl {
			for _, e := range t.Entries {
				out = append(out, fmtVEntryNoPtr(e))
			}
		}
	}
	sort.Strings(out)
	return out
}

// the value-pointer bit depends on where the value lives; mask it (and the txn bits) for content comparisons
func fmtVEntryNoPtr(e badger.VEntry) string {
	v := hx(e.Value)
	if e.ReadErr != "" {
		v = "READERR"
	}
	return fmt.Sprintf("%s@%d:%d:%d:%d:%s", hx(e.Key), e.Version, e.Meta&^(2|64|128), e.UserMeta, e.ExpiresAt, v)
}

func (s *stSess) doReopen(line string, emit func(string, string), fail func(string, string)) {
	sl := s.slots[s.cur]
	mv := sl.mv
	for _, t := range mv.txns {
		if !t.done {
			t.t.Discard()
			t.done = true
		}
	}
	before := allEntries(mv.db)
	maxV := uint64(0)
	oldIDs := map[uint64]bool{}
	for _, lvl := range badger.VerifLevels(mv.db) {
		for _, t := range lvl {
			oldIDs[t.ID] = true
			for _, e := range t.Entries {
				if e.Version > maxV {
					maxV = e.Version
				}
			}
		}
	}
	for _, m := range badger.VerifMemEntries(mv.db) {
		for _, e := range m {
			if e.Version > maxV {
				maxV = e.Version
			}
		}
	}
	if err := mv.db.Close(); err != nil {
		emit(line, "err:close:"+strings.ReplaceAll(err.Error(), " ", "_"))
		mv.db = nil
		return
	}
	var err error
	if mv.managed {
		mv.db, err = badger.OpenManaged(sl.opt)
	} else {
		mv.db, err = badger.Open(sl.opt)
	}
	if err != nil {
		emit(line, "err:open:"+strings.ReplaceAll(err.Error(), " ", "_"))
		fail("C26-reopen", "re-open failed: "+err.Error())
		mv.db = nil
		return
	}
	mv.txns = map[int]*mvTxn{}
	next := badger.VerifNextTxnTs(mv.db)
	newID := uint64(0)
	for _, lvl := range badger.VerifLevels(mv.db) {
		for _, t := range lvl {
			if !oldIDs[t.ID] {
				newID = t.ID
			}
		}
	}
	emit(fmt.Sprintf("reopen id=%d", newID), fmt.Sprintf("ok next=%d", next))
	if !mv.managed && next <= s.maxIssued[mv] {
		// Open derives nextTxnTs from the stored entries only: the newest commits left nothing
		if s.tsReuse == nil {
			s.tsReuse = map[*mvSess]bool{}
		}
		s.tsReuse[mv] = true
		s.st.Inc("reopen:timestamps-reused")
		// the history oracle assumes commit timestamps grow: restart it from what is stored
		mv.spec = newSpec()
		mv.spec.compacted = true
		add := func(e badger.VEntry) {
			mv.spec.add(e.Key, specVer{ver: e.Version, del: e.Meta&1 != 0, discard: e.Meta&4 != 0, userMeta: e.UserMeta, exp: e.ExpiresAt, val: e.Value})
		}
		lv := badger.VerifLevels(mv.db)
		for i := len(lv) - 1; i >= 0; i-- {
			for _, t := range lv[i] {
				for _, e := range t.Entries {
					add(e)
				}
			}
		}
		for _, m := range badger.VerifMemEntries(mv.db) {
			for _, e := range m {
				add(e)
			}
		}
	}
	emit("dump", mv.dump())
	after := allEntries(mv.db)
	if strings.Join(before, " ") != strings.Join(after, " ") {
		fail("reopen-contents", fmt.Sprintf("contents changed over close/re-open: %d entries before, %d after", len(before), len(after)))
	}
	if !mv.managed && next <= maxV {
		fail("reopen-ts", fmt.Sprintf("after re-open nextTxnTs=%d, highest stored version %d", next, maxV))
	}
	if err := badger.VerifValidate(mv.db); err != nil {
		fail("C14-validate", err.Error())
	}
}

// ---------------------------------------------------------------- StreamWriter

func (s *stSess) doSwPrepare(w []string, line string, emit func(string, string), fail func(string, string)) {
	mv := s.curMv()
	kv := kvWords(w[1:])
	inc := kvInt(kv, "inc", 0) != 0
	for _, t := range mv.txns {
		if !t.done {
			t.t.Discard()
			t.done = true
		}
	}
	if s.sw != nil {
		s.sw.Cancel()
		s.sw = nil
	}
	if inc {
		// Flatten (level 0 non-empty) runs free compactions: move level 0 down first, one
		// recorded production compaction at a time
		for i := 0; i < 8 && len(badger.VerifLevels(mv.db)[0]) > 0; i++ {
			s.compactOp(mv, map[string]string{"this": "0", "id": "0", "adj": "1.5"}, emit, fail)
		}
	}
	sw := mv.db.NewStreamWriter()
	var err error
	if inc {
		err = sw.PrepareIncremental()
	} else {
		err = sw.Prepare()
	}
	if err != nil {
		sw.Cancel()
		if strings.Contains(err.Error(), "MemTable has data") {
			emit(line, "err:memtable")
		} else {
			emit(line, "err:"+strings.ReplaceAll(err.Error(), " ", "_"))
		}
		return
	}
	s.sw = sw
	s.swData = nil
	s.swPreList = allEntries(mv.db)
	s.swOld = map[uint64]bool{}
	for _, lvl := range badger.VerifLevels(mv.db) {
		for _, t := range lvl {
			s.swOld[t.ID] = true
		}
	}
	if !inc {
		mv.spec = newSpec()
		if len(s.swPreList) != 0 {
			fail("C26-prepare", fmt.Sprintf("%d entries survive Prepare", len(s.swPreList)))
		}
	}
	emit(line, "ok")
	s.st.Inc(fmt.Sprintf("sw-prepare:inc=%v", inc))
}

func (s *stSess) doSwWrite(w []string, line string, emit func(string, string), fail func(string, string)) {
	if s.sw == nil {
		emit(line, "bad-op")
		return
	}
	buf := z.NewBuffer(1<<16, "verif.sw")
	defer func() { _ = buf.Release() }()
	var data []*pb.KV
	for _, x := range w[1:] {
		i := strings.IndexByte(x, ':')
		if i < 0 {
			emit(line, "bad-op")
			return
		}
		sid, _ := strconv.Atoi(x[:i])
		if x[i+1:] == "done" {
			badger.KVToBuffer(&pb.KV{StreamId: uint32(sid), StreamDone: true}, buf)
			continue
		}
		kv, ok := parseKVWord(x[i+1:])
		if !ok {
			emit(line, "bad-op")
			return
		}
		kv.StreamId = uint32(sid)
		badger.KVToBuffer(kv, buf)
		data = append(data, kv)
	}
	out := safely(func() string {
		if err := s.sw.Write(buf); err != nil {
			return "err:" + strings.ReplaceAll(err.Error(), " ", "_")
		}
		return "ok"
	})
	emit(line, out)
	if out == "ok" {
		s.swData = append(s.swData, data...)
	}
	s.st.Inc("sw-write:kvs=" + sizeBucket(len(w)-1))
}

func (s *stSess) doSwFlush(w []string, line string, emit func(string, string), fail func(string, string)) {
	if s.sw == nil {
		emit(line, "bad-op")
		return
	}
	mv := s.curMv()
	err := s.sw.Flush()
	s.sw = nil
	if err != nil {
		emit(line, "err:"+strings.ReplaceAll(err.Error(), " ", "_"))
		fail("C26-flush", "Flush failed: "+err.Error())
		return
	}
	// every streamed version must read back through the public API before anything else looks
	// at the tables (an inline value stored with the value-pointer flag makes readers decode its
	// bytes as a pointer: error, garbage or panic — finding F26, fixed)
	if tag, msg := s.swProbe(mv); tag != "" {
		emit(line, "unreadable")
		fail(tag, msg)
		mv.close() // the dump hooks would trip over the same entries
		mv.db = nil
		return
	}
	after := badger.VerifLevels(mv.db)
	// the new tables, in level order
	old := s.swOld
	var sizes []string
	for _, lvl := range after {
		for _, t := range lvl {
			if !old[t.ID] {
				sizes = append(sizes, fmt.Sprintf("%d:%d", t.ID, len(t.Entries)))
			}
		}
	}
	next := badger.VerifNextTxnTs(mv.db)
	nextS := utoa(next)
	verr := badger.VerifValidate(mv.db)
	emit("sw-flush out="+strings.Join(sizes, ","), fmt.Sprintf("ok next=%s valid=%v", nextS, verr == nil))
	emit("dump", mv.dump())
	s.st.Inc("sw-flush:tables=" + sizeBucket(len(sizes)))
	// ---- oracles
	if verr != nil {
		fail("C14-validate", verr.Error())
	}
	mv.judgeStructure(fail)
	var want []string
	want = append(want, s.swPreList...)
	var maxV uint64
	for _, x := range s.swData {
		m, um := kvMeta(x)
		want = append(want, fmt.Sprintf("%s@%d:%d:%d:%d:%s", hx(x.Key), x.Version, m&^(2|64|128), um, x.ExpiresAt, hx(x.Value)))
		if x.Version > maxV {
			maxV = x.Version
		}
		mv.spec.add(x.Key, specVer{ver: x.Version, del: m&1 != 0, discard: m&4 != 0, userMeta: um, exp: x.ExpiresAt, val: x.Value})
	}
	sort.Strings(want)
	have := allEntries(mv.db)
	if strings.Join(want, " ") != strings.Join(have, " ") {
		fail("C26-contents", fmt.Sprintf("after Flush the DB holds %d entries, streamed+pre-existing are %d; first difference: %s", len(have), len(want), firstDiff(have, want)))
	}
	if !mv.managed && next <= maxV {
		fail("C26-ts", fmt.Sprintf("after Flush nextTxnTs=%d, highest streamed version %d", next, maxV))
	}
	// reads: the newest streamed version of every key is what a read at MaxUint64 serves
	newest := map[string]*pb.KV{}
	for _, x := range s.swData {
		if o := newest[string(x.Key)]; o == nil || o.Version < x.Version {
			newest[string(x.Key)] = x
		}
	}
	for k, x := range newest {
		e, ok, err := badger.VerifGetAt(mv.db, []byte(k), math.MaxUint64)
		if err != nil || !ok || e.Version < x.Version {
			fail("C26-read", fmt.Sprintf("key %s: streamed version %d, a read serves found=%v version=%d err=%v", hx([]byte(k)), x.Version, ok, e.Version, err))
			return
		}
		if e.Version == x.Version && !bytes.Equal(e.Value, x.Value) {
			fail("C26-read", fmt.Sprintf("key %s@%d: streamed value %s, read value %s", hx([]byte(k)), x.Version, hx(x.Value), hx(e.Value)))
			return
		}
	}
}

// swProbe reads every version of every key with an AllVersions iterator and Item.ValueCopy and
// compares it with what was streamed.
func (s *stSess) swProbe(mv *mvSess) (tag, msg string) {
	want := map[string]*pb.KV{}
	for _, x := range s.swData {
		want[fmt.Sprintf("%x@%d", x.Key, x.Version)] = x
	}
	classify := func(x *pb.KV, what string) (string, string) {
		m, _ := kvMeta(x)
		if m&2 != 0 && len(x.Value) < mv.thr {
			return "F26:streamwriter-inline-keeps-pointer-bit", fmt.Sprintf("KV %s (Meta has the value-pointer bit, value below the threshold %d => stored inline with the flag kept): %s", fmtKV(x), mv.thr, what)
		}
		return "C26-read", fmt.Sprintf("KV %s: %s", fmtKV(x), what)
	}
	var txn *badger.Txn
	if mv.managed {
		txn = mv.db.NewTransactionAt(math.MaxUint64, false)
	} else {
		txn = mv.db.NewTransaction(false)
	}
	defer func() {
		if r := recover(); r != nil {
			// Unclosed iterator at time of Txn.Discard: the iterator below died in a panic
			tag, msg = "C26-read", fmt.Sprintf("panic while reading back: %v", r)
		}
	}()
	opt := badger.DefaultIteratorOptions
	opt.AllVersions = true
	opt.PrefetchValues = false
	it := txn.NewIterator(opt)
	for it.Rewind(); it.Valid() && tag == ""; it.Next() {
		item := it.Item()
		x := want[fmt.Sprintf("%x@%d", item.Key(), item.Version())]
		if x == nil {
			continue
		}
		func() {
			defer func() {
				if r := recover(); r != nil {
					tag, msg = classify(x, fmt.Sprintf("Item.ValueCopy panics: %v", r))
				}
			}()
			v, err := item.ValueCopy(nil)
			switch {
			case err != nil:
				tag, msg = classify(x, "Item.ValueCopy fails: "+err.Error())
			case !bytes.Equal(v, x.Value):
				tag, msg = classify(x, fmt.Sprintf("reads back as %s", hx(v)))
			}
		}()
	}
	it.Close()
	txn.Discard()
	badger.VerifSyncMarks(mv.db)
	return
}

func firstDiff(a, b []string) string {
	am, bm := map[string]int{}, map[string]int{}
	for _, x := range a {
		am[x]++
	}
	for _, x := range b {
		bm[x]++
	}
	for _, x := range a {
		if am[x] != bm[x] {
			return fmt.Sprintf("%s (db %d times, expected %d)", x, am[x], bm[x])
		}
	}
	for _, x := range b {
		if am[x] != bm[x] {
			return fmt.Sprintf("%s (db %d times, expected %d)", x, am[x], bm[x])
		}
	}
	return "none"
}

// sw-feed batch=K seed=N ids=M: the output of the last stream op is written through the stream
// writer: the ranges become streams (ids renumbered), cut into batches of about K KVs, the
// streams interleaved by the seeded PRNG. Expands into explicit sw-write lines.
func (s *stSess) doSwFeed(w []string, emit func(string, string), fail func(string, string)) {
	kv := kvWords(w[1:])
	rng := rand.New(rand.NewSource(int64(kvInt(kv, "seed", 1))))
	batch := kvInt(kv, "batch", 4)
	done := kvInt(kv, "done", 0) != 0
	type cursor struct {
		sid int
		kvs []*pb.KV
	}
	var cs []*cursor
	for i, l := range s.lastKVs {
		if len(l) > 0 {
			cs = append(cs, &cursor{sid: i + 1, kvs: l})
		}
	}
	for len(cs) > 0 {
		var words []string
		n := 1 + rng.Intn(batch)
		for j := 0; j < n && len(cs) > 0; j++ {
			i := rng.Intn(len(cs))
			c := cs[i]
			// keep all versions of one key in one write (any cut is allowed; this one varies)
			take := 1 + rng.Intn(3)
			for t := 0; t < take && len(c.kvs) > 0; t++ {
				words = append(words, fmt.Sprintf("%d:%s", c.sid, fmtKV(c.kvs[0])))
				c.kvs = c.kvs[1:]
			}
			if len(c.kvs) == 0 {
				if done {
					words = append(words, fmt.Sprintf("%d:done", c.sid))
				}
				cs = append(cs[:i], cs[i+1:]...)
			}
		}
		l := "sw-write " + strings.Join(words, " ")
		s.doSwWrite(strings.Fields(l), l, emit, fail)
	}
}

// ---------------------------------------------------------------- executor

func execStreamEng(intents []string, st *Stats) (final, outs, oracle []string) {
	s := &stSess{st: st, slots: map[int]*stSlot{}, backups: map[int]*stBackup{}}
	defer s.closeAll()
	// every producer of a Stream allocates 32 MB buffers (2*batchSize); with the default GC
	// pacing each of them triggers a collection and the allocating goroutine assists it
	if os.Getenv("VERIF_STREAM_GC") == "" {
		defer debug.SetGCPercent(debug.SetGCPercent(-1))
		defer debug.SetMemoryLimit(debug.SetMemoryLimit(700 << 20))
	}
	emit := func(op, out string) {
		final = append(final, op)
		outs = append(outs, out)
	}
	fail := func(tag, msg string) {
		oracle = append(oracle, fmt.Sprintf("line %d: %s :: [%s] %s", len(final), stTrunc(final[len(final)-1], 300), tag, msg))
	}
	for _, line := range intents {
		w := strings.Fields(line)
		if len(w) == 0 {
			continue
		}
		progress(line)
		if w[len(w)-1] == "ev=1" {
			continue // a consequence of the preceding intent line (replay)
		}
		if w[0] != "reset" && s.curMv() == nil {
			emit(line, "bad-op")
			continue
		}
		if w[0] != "reset" && w[0] != "open" && w[0] != "use" && s.curMv().db == nil {
			emit(line, "bad-op")
			continue
		}
		if s.pending && w[0] != "reset" {
			if w[0] == "stream-end" {
				st.Inc("op:stream-span")
				s.doStreamSpan(emit, fail)
			} else {
				s.pendMid = append(s.pendMid, line)
			}
			continue
		}
		s.pending = false
		st.Inc("op:" + w[0])
		if os.Getenv("VERIF_TIMING") != "" {
			t0 := time.Now()
			name := w[0]
			defer func() { _ = t0 }()
			stTimingStart(name)
		}
		switch w[0] {
		case "reset":
			s.closeAll()
			op, err := s.open(0, kvWords(w[1:]))
			if err != nil {
				emit(line, "err:open:"+err.Error())
				continue
			}
			emit("reset "+op, "ok")
		case "open":
			n, _ := strconv.Atoi(w[1])
			op, err := s.open(n, kvWords(w[2:]))
			if err != nil {
				emit(line, "err:open:"+err.Error())
				continue
			}
			emit(fmt.Sprintf("open %d %s", n, op), "ok")
		case "use":
			n, _ := strconv.Atoi(w[1])
			if s.slots[n] == nil {
				emit(line, "bad-op")
				continue
			}
			s.cur = n
			emit(line, "ok")
		case "reopen":
			s.doReopen(line, emit, fail)
		case "stream":
			s.doStream(w, line, emit, fail)
		case "stream-begin":
			s.pending, s.pendBegin, s.pendMid = true, w, nil
		case "stream-end":
			emit(line, "bad-op")
		case "stream-race":
			s.doStreamRace(w, line, emit, fail)
		case "backup":
			s.doBackup(w, line, emit, fail)
		case "load":
			s.doLoad(w, line, emit, fail)
		case "cmp-restore":
			s.doCmpRestore(w, line, emit, fail)
		case "sw-prepare":
			s.doSwPrepare(w, line, emit, fail)
		case "sw-write":
			s.doSwWrite(w, line, emit, fail)
		case "sw-feed":
			if s.sw == nil {
				emit(line, "bad-op")
				continue
			}
			s.doSwFeed(w, emit, fail)
		case "sw-flush":
			s.doSwFlush(w, line, emit, fail)
		case "sw-cancel":
			if s.sw != nil {
				s.sw.Cancel()
				s.sw = nil
			}
			emit(line, "ok")
		default:
			if !s.basicOp(w, line, emit, fail) {
				emit(line, "bad-op")
			}
		}
	}
	if s.pending && s.curMv() != nil && s.curMv().db != nil {
		s.doStreamSpan(emit, fail) // a script cut off before its stream-end
	}
	return
}

func stTrunc(s string, n int) string {
	if len(s) > n {
		return s[:n] + "…"
	}
	return s
}

// ---------------------------------------------------------------- generator

type stGen struct {
	rng       *rand.Rand
	st        *Stats
	ops       []string
	keys      [][]byte
	nextID    int
	now       uint64
	managed   bool
	cts       uint64
	thr       int
	backupObj bool
}

func (g *stGen) add(f string, a ...interface{}) { g.ops = append(g.ops, fmt.Sprintf(f, a...)) }

func (g *stGen) val() []byte {
	var n int
	switch g.rng.Intn(6) {
	case 0:
		n = 0
	case 1:
		n = g.thr - 1
	case 2:
		n = g.thr
	case 3:
		n = g.thr + 1
	default:
		n = g.rng.Intn(40)
	}
	if n > 200 {
		n = g.rng.Intn(200)
	}
	if n < 0 {
		n = 0
	}
	v := make([]byte, n)
	g.rng.Read(v)
	return v
}

func (g *stGen) dbParams() string {
	keep := pick(g.rng, 1, 1, 2, 1000)
	g.thr = pick(g.rng, 16, 16, 64, 100000)
	levels := pick(g.rng, 3, 4, 7)
	tblsz := pick(g.rng, 2<<20, 2<<20, 2048, 600)
	basesz := pick(g.rng, 10<<20, 4096, 1024)
	comp := pick(g.rng, 0, 0, 1, 2)
	blksz := pick(g.rng, 256, 256, 64, 4096)
	return fmt.Sprintf("managed=%d keep=%d thr=%d levels=%d tblsz=%d basesz=%d comp=%d blksz=%d",
		b2i(g.managed), keep, g.thr, levels, tblsz, basesz, comp, blksz)
}

// setLine: one write of a random kind to key k by transaction id.
func (g *stGen) setLine(id int, k []byte) {
	meta, um, exp, v := 0, g.rng.Intn(256), uint64(0), g.val()
	switch g.rng.Intn(10) {
	case 0, 1:
		meta, um, v = 1, 0, nil
	case 2:
		exp = g.now - 1000
	case 3:
		exp = g.now + 100000
	case 4:
		meta = 4
	}
	g.add("set %d %s %d %d %d %s 0", id, hx(k), meta, um, exp, hx(v))
}

func (g *stGen) rts() uint64 {
	if g.managed {
		return math.MaxUint64
	}
	return 0
}

func (g *stGen) commitTs() uint64 {
	if g.managed {
		g.cts++
		return g.cts
	}
	return 0
}

// txn: one committed transaction with 1..3 writes.
func (g *stGen) txn() {
	id := g.nextID
	g.nextID++
	g.add("begin %d 1 %d", id, g.rts())
	for x := 0; x < 1+g.rng.Intn(3); x++ {
		g.setLine(id, g.keys[g.rng.Intn(len(g.keys))])
	}
	g.add("commit %d %d", id, g.commitTs())
}

// build: a multi-version history spread over the memtable, several L0 tables and deeper levels.
func (g *stGen) build(rounds int) {
	for r := 0; r < rounds; r++ {
		for i := 0; i < 1+g.rng.Intn(4); i++ {
			g.txn()
		}
		switch g.rng.Intn(5) {
		case 0, 1:
			g.add("flush")
		case 2:
			g.add("flush")
			g.add("compact this=0 id=0 adj=1.5")
		case 3:
			g.add("compact pick=%d id=0 adj=1.5", g.rng.Intn(8))
		}
	}
}

func (g *stGen) newKeys() {
	g.keys = nil
	n := 3 + g.rng.Intn(8)
	var pfx []byte
	if g.rng.Intn(2) == 0 {
		pfx = genUserKey(g.rng, 1, 2)
	}
	for len(g.keys) < n {
		k := genUserKey(g.rng, 1, 3)
		if pfx != nil && g.rng.Intn(2) == 0 {
			k = append(append([]byte{}, pfx...), k...)
		}
		g.keys = append(g.keys, k)
	}
}

// objParam: about 4 in 10 stream ops run on one of two long-lived Stream objects of the session,
// so that roughly 1 in 4 is a re-run of an object that has run before.
func (g *stGen) objParam() string {
	if g.managed || g.rng.Intn(10) >= 4 {
		return ""
	}
	return fmt.Sprintf(" obj=%d", 1+g.rng.Intn(2))
}

func (g *stGen) streamParams() string {
	numGo := pick(g.rng, 1, 1, 1, 2, 2, 2, 2, 8, 8, 16)
	o := fmt.Sprintf("numgo=%d", numGo) + g.objParam()
	if g.rng.Intn(3) == 0 {
		k := g.keys[g.rng.Intn(len(g.keys))]
		o += " prefix=" + hx(k[:1+g.rng.Intn(len(k))])
	}
	if g.rng.Intn(4) == 0 {
		o += fmt.Sprintf(" since=%d", g.rng.Intn(g.nextID+2))
	}
	if g.rng.Intn(3) == 0 {
		o += fmt.Sprintf(" choose=%d", 1+g.rng.Intn(4))
	}
	if g.rng.Intn(3) == 0 {
		o += " done=1"
	}
	if g.managed {
		at := uint64(math.MaxUint64)
		if g.rng.Intn(2) == 0 {
			at = uint64(g.rng.Intn(int(g.cts) + 2))
			if at == 0 {
				at = 1
			}
		}
		o += fmt.Sprintf(" at=%d", at)
	}
	return o
}

// steppedStream: explicit split points (user keys of the data set, duplicates, byte strings in
// between) and an update transaction committed between the creation of two producers'
// transactions.
func (g *stGen) steppedStream() {
	nsplit := g.rng.Intn(4)
	var sp []string
	for i := 0; i < nsplit; i++ {
		k := g.keys[g.rng.Intn(len(g.keys))]
		switch g.rng.Intn(4) {
		case 0:
			k = append(append([]byte{}, k...), 0x00)
		case 1:
			k = genUserKey(g.rng, 1, 3)
		}
		sp = append(sp, hx(k))
	}
	splits := "none"
	if len(sp) > 0 {
		splits = strings.Join(sp, ",")
	}
	o := fmt.Sprintf("numgo=%d sched=step splits=%s", nsplit+1, splits) + g.objParam()
	if g.rng.Intn(4) == 0 {
		o += fmt.Sprintf(" choose=%d", 1+g.rng.Intn(4))
	}
	if g.rng.Intn(4) == 0 {
		o += " done=1"
	}
	if g.managed {
		o += fmt.Sprintf(" at=%d", g.cts)
	}
	if g.rng.Intn(3) != 0 {
		// the concurrent writer: a transfer touching two keys
		id := g.nextID
		g.nextID++
		g.add("begin %d 1 %d", id, g.rts())
		g.setLine(id, g.keys[g.rng.Intn(len(g.keys))])
		g.setLine(id, g.keys[g.rng.Intn(len(g.keys))])
		o += fmt.Sprintf(" pre=%d mid=%d cts=%d", g.rng.Intn(nsplit+2), id, g.commitTs())
	}
	g.add("stream %s", o)
}

func genStreamEng(rng *rand.Rand, n int, st *Stats, kind string) []string {
	var ops []string
	for c := 0; c < n; c++ {
		g := &stGen{rng: rng, st: st, nextID: 1, now: uint64(time.Now().Unix()), cts: 1}
		g.managed = rng.Intn(5) == 0
		if params["managed"] != "" {
			g.managed = params["managed"] == "1"
		}
		g.newKeys()
		switch kind {
		case "stream":
			g.genStream()
		case "backup":
			g.genBackup()
		default:
			g.genSwriter()
		}
		st.Inc(fmt.Sprintf("session:%s,managed=%v", kind, g.managed))
		ops = append(ops, g.ops...)
	}
	return ops
}

// spanStream: a stepped run with a script at its mid-run point: newer versions and deletes of
// the keys, readers that come and go (they move the read watermark unless the run holds it),
// flushes and production compactions. One version is kept (NumVersionsToKeep=1) so that what
// ToList delivers does not depend on whether a range was read before or after a compaction.
func (g *stGen) spanStream() {
	nsplit := 1 + g.rng.Intn(3)
	var sp []string
	for i := 0; i < nsplit; i++ {
		sp = append(sp, hx(g.keys[g.rng.Intn(len(g.keys))]))
	}
	o := fmt.Sprintf("numgo=%d splits=%s pre=%d", nsplit+1, strings.Join(sp, ","), pick(g.rng, 0, 0, 1, 1, 2)) + g.objParam()
	if g.rng.Intn(4) == 0 {
		o += " done=1"
	}
	if g.managed {
		o += fmt.Sprintf(" at=%d", g.cts)
	}
	g.add("stream-begin %s", o)
	for r := 0; r < 1+g.rng.Intn(2); r++ {
		// overwrite / delete most keys
		for i := 0; i < 1+g.rng.Intn(3); i++ {
			id := g.nextID
			g.nextID++
			g.add("begin %d 1 %d", id, g.rts())
			for _, k := range g.keys {
				if g.rng.Intn(3) != 0 {
					g.setLine(id, k)
				}
			}
			g.add("commit %d %d", id, g.commitTs())
		}
		// a reader comes and goes
		id := g.nextID
		g.nextID++
		g.add("begin %d 0 %d", id, g.rts())
		g.add("discard %d", id)
		g.add("flush")
		g.add("compact this=0 id=0 adj=1.5")
		if g.rng.Intn(2) == 0 {
			g.add("compact pick=%d id=0 adj=1.5", g.rng.Intn(8))
		}
	}
	g.add("stream-end")
}

func (g *stGen) genStream() {
	if g.rng.Intn(4) == 0 {
		// compactions during a run
		g.add("reset %s", strings.Replace(strings.Replace(strings.Replace(g.dbParams(), "keep=2 ", "keep=1 ", 1), "keep=1000 ", "keep=1 ", 1), "keep=3 ", "keep=1 ", 1))
		g.build(2 + g.rng.Intn(5))
		for i := 0; i < 1+g.rng.Intn(2); i++ {
			g.spanStream()
			g.build(g.rng.Intn(2))
		}
		return
	}
	g.add("reset %s", g.dbParams())
	g.build(2 + g.rng.Intn(6))
	for i := 0; i < 1+g.rng.Intn(3); i++ {
		if g.rng.Intn(3) == 0 {
			g.steppedStream()
		} else {
			g.add("stream %s", g.streamParams())
		}
		g.build(g.rng.Intn(3))
	}
	if !g.managed && g.rng.Intn(4) == 0 {
		g.add("stream-race numgo=%d seed=%d", pick(g.rng, 8, 16), g.rng.Intn(1000))
	}
}

func (g *stGen) backupParams() string {
	o := fmt.Sprintf("numgo=%d", pick(g.rng, 1, 1, 1, 2, 2, 2, 2, 8, 8, 16))
	if g.backupObj {
		o += " obj=1" // every backup of the chain through the same Stream object
	}
	if g.managed {
		o += fmt.Sprintf(" at=%d", uint64(math.MaxUint64))
	}
	return o
}

func (g *stGen) genBackup() {
	g.backupObj = !g.managed && g.rng.Intn(3) == 0
	src := g.dbParams()
	// an InMemory destination (no value log: everything inline, the value-pointer bit the
	// backup carries for values of a low-threshold on-disk source must be cleared on load)
	inmemDst := g.rng.Intn(3) == 0
	if inmemDst {
		src = strings.Replace(strings.Replace(strings.Replace(src, "thr=64 ", "thr=16 ", 1), "thr=100000 ", "thr=16 ", 1), "thr=16 ", "thr=8 ", 1)
		g.thr = 8
	}
	g.add("reset %s", src)
	g.build(2 + g.rng.Intn(6))
	g.add("backup buf=0 since=0 %s", g.backupParams())
	// restore into a fresh DB (its own thresholds) and compare every read
	dg := &stGen{rng: g.rng, managed: g.managed}
	dst := dg.dbParams()
	if inmemDst {
		dst += " inmem=1"
	}
	g.add("open 1 %s", dst)
	g.add("load buf=0")
	g.add("cmp-restore src=0 dst=1 final=0")
	chain := g.rng.Intn(3)
	for i := 1; i <= chain; i++ {
		g.add("use 0")
		switch g.rng.Intn(8) {
		case 0, 1:
			// everything is dropped, the DB is closed and re-opened, then written again
			g.add("dropall")
			g.add("reopen")
		case 2:
			// every key deleted, the markers compacted away (when nothing below overlaps), re-open
			id := g.nextID
			g.nextID++
			g.add("begin %d 1 %d", id, g.rts())
			for _, k := range g.keys {
				g.add("set %d %s 1 0 0 - 0", id, hx(k))
			}
			g.add("commit %d %d", id, g.commitTs())
			rid := g.nextID
			g.nextID++
			g.add("begin %d 0 %d", rid, g.rts())
			g.add("discard %d", rid)
			g.add("flush")
			g.add("compact this=0 id=0 adj=1.5")
			g.add("compact pick=1 id=0 adj=1.5")
			g.add("reopen")
		}
		g.build(1 + g.rng.Intn(4))
		if g.rng.Intn(6) == 0 {
			// Stream.Backup on a stream whose SinceTs differs from `since` (model comparison only)
			g.add("backup buf=9 since=%d sincets=%d %s", g.rng.Intn(g.nextID+1), g.rng.Intn(g.nextID+1), g.backupParams())
		}
		g.add("backup buf=%d since=@%d %s", i, i-1, g.backupParams())
		g.add("use 1")
		g.add("load buf=%d", i)
		g.add("cmp-restore src=0 dst=1 final=1")
	}
	if !inmemDst && g.rng.Intn(2) == 0 {
		g.add("use 1")
		g.add("reopen")
		g.add("cmp-restore src=0 dst=1 final=1")
		// the restored DB keeps working: a new commit gets a timestamp above everything loaded
		if !g.managed {
			id := g.nextID
			g.nextID++
			g.add("begin %d 1 0", id)
			g.setLine(id, g.keys[0])
			g.add("commit %d 0", id)
		}
	}
}

// synthetic streams: sorted, pairwise disjoint; several versions per key, markers, values
// around the threshold; written in random batches with the stream ids interleaved.
func (g *stGen) swRound(done bool, verBase uint64) {
	keys := map[string]bool{}
	for len(keys) < 2+g.rng.Intn(10) {
		keys[string(genUserKey(g.rng, 1, 3))] = true
	}
	var ks []string
	for k := range keys {
		ks = append(ks, k)
	}
	sort.Strings(ks)
	ns := 1 + g.rng.Intn(4)
	if ns > len(ks) {
		ns = len(ks)
	}
	// consecutive groups of keys = streams; ids are arbitrary distinct numbers
	ids := g.rng.Perm(ns + 3)[:ns]
	type cur struct {
		sid   int
		words []string
	}
	var cs []*cur
	per := (len(ks) + ns - 1) / ns
	for i := 0; i < ns; i++ {
		c := &cur{sid: ids[i] + 1}
		lo, hi := i*per, (i+1)*per
		if hi > len(ks) {
			hi = len(ks)
		}
		if lo >= hi {
			break
		}
		for _, k := range ks[lo:hi] {
			nv := 1 + g.rng.Intn(3)
			ver := verBase + uint64(nv+g.rng.Intn(20))
			if g.rng.Intn(30) == 0 {
				ver = 1<<40 + uint64(g.rng.Intn(5))
			}
			for v := 0; v < nv && ver > 0; v++ {
				meta, um, exp, val := 0, g.rng.Intn(256), uint64(0), g.val()
				switch g.rng.Intn(8) {
				case 0:
					meta, um, val = 1, 0, nil
				case 1:
					meta = 4
				case 2:
					exp = g.now + 100000
				case 3:
					exp = g.now - 1000
				}
				// internal bits a Backup KV can carry: value pointer (the value lived in the
				// source's value log), transaction markers
				if g.rng.Intn(4) == 0 {
					meta |= 2
				}
				if g.rng.Intn(10) == 0 {
					meta |= pick(g.rng, 64, 64, 128)
				}
				c.words = append(c.words, fmt.Sprintf("%d:%s@%d:%d:%d:%d:%s", c.sid, hx([]byte(k)), ver, meta, um, exp, hx(val)))
				ver -= uint64(1 + g.rng.Intn(2))
			}
		}
		if len(c.words) > 0 {
			cs = append(cs, c)
		}
	}
	for len(cs) > 0 {
		var words []string
		for j := 0; j < 1+g.rng.Intn(4) && len(cs) > 0; j++ {
			i := g.rng.Intn(len(cs))
			c := cs[i]
			take := 1 + g.rng.Intn(4)
			if take > len(c.words) {
				take = len(c.words)
			}
			words = append(words, c.words[:take]...)
			c.words = c.words[take:]
			if len(c.words) == 0 {
				if done {
					words = append(words, fmt.Sprintf("%d:done", c.sid))
				}
				cs = append(cs[:i], cs[i+1:]...)
			}
		}
		g.add("sw-write %s", strings.Join(words, " "))
	}
}

func (g *stGen) genSwriter() {
	p := g.dbParams()
	// small level counts make successive incremental runs climb to level 0
	if g.rng.Intn(2) == 0 {
		p = strings.Replace(p, "levels=7", "levels=3", 1)
		p = strings.Replace(p, "levels=4", "levels=3", 1)
	}
	if g.rng.Intn(3) == 0 {
		// end to end: Stream of a source DB into the StreamWriter of a fresh one
		g.add("reset %s", p)
		g.build(2 + g.rng.Intn(5))
		o := fmt.Sprintf("numgo=%d", pick(g.rng, 1, 1, 1, 2, 2, 2, 2, 8, 8, 16))
		if g.managed {
			o += fmt.Sprintf(" at=%d", uint64(math.MaxUint64))
		}
		g.add("stream %s", o)
		dg := &stGen{rng: g.rng, managed: g.managed}
		g.add("open 1 %s", dg.dbParams())
		g.add("sw-prepare inc=%d", g.rng.Intn(2))
		g.add("sw-feed batch=%d seed=%d done=%d", 1+g.rng.Intn(5), g.rng.Intn(1000), g.rng.Intn(2))
		g.add("sw-flush")
		g.add("cmp-restore src=0 dst=1 final=1")
		g.add("reopen")
		g.add("cmp-restore src=0 dst=1 final=1")
		return
	}
	g.add("reset %s", p)
	if g.rng.Intn(2) == 0 {
		// pre-existing data (dropped by Prepare, kept by PrepareIncremental)
		g.build(1 + g.rng.Intn(4))
		if g.rng.Intn(5) != 0 {
			g.add("flush")
		}
	}
	rounds := 1 + g.rng.Intn(4)
	base := uint64(g.nextID + 2)
	for r := 0; r < rounds; r++ {
		inc := r > 0 || g.rng.Intn(2) == 0
		g.add("sw-prepare inc=%d", b2i(inc))
		g.swRound(g.rng.Intn(3) == 0, base)
		g.add("sw-flush")
		base += 30
		if g.rng.Intn(3) == 0 {
			g.add("reopen")
		}
		if !g.managed && g.rng.Intn(3) == 0 {
			// the DB keeps working after a stream write
			id := g.nextID
			g.nextID++
			g.add("begin %d 1 0", id)
			g.setLine(id, g.keys[0])
			g.add("commit %d 0", id)
			if g.rng.Intn(2) == 0 {
				g.add("flush")
			}
		}
	}
}

var stTimingLast time.Time
var stTimingName string
var stTimingAcc = map[string]time.Duration{}

func stTimingStart(name string) {
	now := time.Now()
	if stTimingName != "" {
		stTimingAcc[stTimingName] += now.Sub(stTimingLast)
	}
	stTimingName, stTimingLast = name, now
	if name == "reset" {
		fmt.Fprintln(os.Stderr, "TIMING", stTimingAcc)
	}
}
