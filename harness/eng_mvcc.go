package main

// Engine "mvcc": a real *badger.DB driven deterministically (no background compactors,
// explicit flush, production compaction pickers invoked one step at a time), compared
// with the Lean LSM/transaction model (BadgerModel/Mvcc.lean) and judged by a naive
// MVCC-map oracle written here.

import (
	"encoding/binary"
	"bytes"
	"fmt"
	"math"
	"math/rand"
	"os"
	"path/filepath"
	"sort"
	"strconv"
	"strings"
	"time"

	badger "github.com/dgraph-io/badger/v4"
	"github.com/dgraph-io/badger/v4/options"
)

func init() {
	engines["mvcc"] = &Engine{Gen: genMvcc, ExecX: execMvcc}
}

// ---------------------------------------------------------------- oracle (naive MVCC map)

type specVer struct {
	ver      uint64
	del      bool
	discard  bool // WithDiscard
	merge    bool
	userMeta byte
	exp      uint64
	val      []byte
	seq      int
}

type mvSpec struct {
	// dropFloor[key] = newest commit timestamp when a DropPrefix covering key returned: reads
	// of that key at or below it are not judged (DropPrefix leaves old versions of a key whose
	// newest version is already dead; the property only speaks about snapshots from then on)
	dropFloor  map[string]uint64
	maxTs      uint64
	hist       map[string][]specVer
	seq        int
	maxDiscard uint64 // highest discard watermark any compaction has run with
	compacted  bool
	// below[key]: managed mode, some write of key was committed at a version BELOW a version the
	// key already had (allowed by the API; finding F27: a tombstone above it can be compacted away)
	below map[string]bool
	// belowDrop[key]: a write of key at a version at or below the floor of a DropPrefix that covered
	// it (DropPrefix leaves dead versions of a dropped key in place; they hide such a write)
	belowDrop map[string]bool
}

func newSpec() *mvSpec {
	return &mvSpec{hist: map[string][]specVer{}, dropFloor: map[string]uint64{}, below: map[string]bool{}, belowDrop: map[string]bool{}}
}

// judged: reads of key at ts are promised by the history (not in the shadow of a DropPrefix).
func (s *mvSpec) judged(key []byte, ts uint64) bool {
	f, ok := s.dropFloor[string(key)]
	return !ok || ts > f
}

func (s *mvSpec) add(key []byte, v specVer) {
	if v.ver > s.maxTs {
		s.maxTs = v.ver
	}
	s.seq++
	v.seq = s.seq
	for _, o := range s.hist[string(key)] {
		if o.ver > v.ver {
			s.below[string(key)] = true
		}
	}
	if f, ok := s.dropFloor[string(key)]; ok && v.ver <= f {
		s.belowDrop[string(key)] = true
	}
	s.hist[string(key)] = append(s.hist[string(key)], v)
}

func (v specVer) dead(now uint64) bool {
	return v.del || (v.exp != 0 && v.exp <= now)
}

// newest write with version <= ts (and > since); later write wins among equal versions.
func (s *mvSpec) newest(key []byte, ts, since uint64) (specVer, bool) {
	var best specVer
	found := false
	for _, v := range s.hist[string(key)] {
		if v.ver > ts || (since > 0 && v.ver <= since) {
			continue
		}
		if !found || v.ver > best.ver || (v.ver == best.ver && v.seq > best.seq) {
			best, found = v, true
		}
	}
	return best, found
}

// dupVersion: the history holds two writes of key with the same version (managed mode only).
func (s *mvSpec) dupVersion(key []byte) bool {
	seen := map[uint64]bool{}
	for _, v := range s.hist[string(key)] {
		if seen[v.ver] {
			return true
		}
		seen[v.ver] = true
	}
	return false
}

func (s *mvSpec) keys() []string {
	var ks []string
	for k := range s.hist {
		ks = append(ks, k)
	}
	sort.Strings(ks)
	return ks
}

// ---------------------------------------------------------------- session

type mvTxn struct {
	reads   map[string]bool // keys read through Get / iterator items / Seek (update txns)
	t       *badger.Txn
	update  bool
	readTs  uint64
	pending map[string]specVer
	order   []string
	done    bool
}

type mvSess struct {
	db      *badger.DB
	dir     string
	managed bool
	keep    int
	thr     int
	inmem   bool
	levels  int
	now     uint64
	txns    map[int]*mvTxn
	spec    *mvSpec
	st      *Stats
	lastCts uint64
	// DropAll ran in this session (in-memory mode: the value-size limit then changes, F18)
	droppedAll bool
	// an L0->L0 compaction ran in this session (it re-sorts L0 by Smallest: finding F2)
	l0l0Seen bool
	// options of the session (for `reopen`)
	opt badger.Options
	// spec.seq at the last reopen: committedTxns does not survive a restart, so conflict detection
	// (only observable in managed mode, where a transaction may read below an earlier commit) knows
	// nothing about commits made before it
	reopenSeq int
	// banned namespaces (C28): Options.NamespaceOffset (-1 = off) and the namespaces banned so far
	nsoff  int
	banned map[uint64]bool
	// relExp: expiry times set relative to the wall clock at execution (`set … exp=+N`): the session
	// then follows the real clock (see clockStep) so that an entry can expire DURING the session
	relExp []uint64
}

func (s *mvSess) close() {
	if s.db != nil {
		for _, t := range s.txns {
			if !t.done {
				t.t.Discard()
			}
		}
		_ = s.db.Close()
		s.db = nil
	}
	if s.dir != "" {
		os.RemoveAll(s.dir)
	}
}

func kvWords(ws []string) map[string]string {
	m := map[string]string{}
	for _, w := range ws {
		if i := strings.IndexByte(w, '='); i > 0 {
			m[w[:i]] = w[i+1:]
		}
	}
	return m
}

func kvInt(m map[string]string, k string, d int) int {
	if v, ok := m[k]; ok {
		n, err := strconv.Atoi(v)
		if err == nil {
			return n
		}
	}
	return d
}

var sessCounter int

func scratchDir() string {
	base := os.Getenv("VERIF_SCRATCH")
	if base == "" {
		base = "/verif/.build/scratch"
	}
	sessCounter++
	d := filepath.Join(base, fmt.Sprintf("db-%d-%d", os.Getpid(), sessCounter))
	os.RemoveAll(d)
	os.MkdirAll(d, 0o755)
	return d
}

func (s *mvSess) open(kv map[string]string) (string, error) {
	s.managed = kvInt(kv, "managed", 0) != 0
	s.keep = kvInt(kv, "keep", 1)
	s.thr = kvInt(kv, "thr", 32)
	s.inmem = kvInt(kv, "inmem", 0) != 0
	s.levels = kvInt(kv, "levels", 7)
	detect := kvInt(kv, "detect", 1) != 0
	tblsz := kvInt(kv, "tblsz", 2<<20)
	basesz := kvInt(kv, "basesz", 10<<20)
	comp := kvInt(kv, "comp", 0)
	memsz := kvInt(kv, "memsz", 1<<20)
	vlogpct := kvInt(kv, "vlogpct", 0) // percent; > 0 enables dynamic value thresholds
	vmax := kvInt(kv, "vmax", 0)      // > 0: ValueLogMaxEntries (the value log rotates after that many entries)
	s.nsoff = kvInt(kv, "nsoff", -1)
	s.banned = map[uint64]bool{}
	s.relExp = nil
	s.dir = ""
	var opt badger.Options
	if s.inmem {
		opt = badger.DefaultOptions("").WithInMemory(true)
	} else {
		s.dir = scratchDir()
		opt = badger.DefaultOptions(s.dir)
	}
	opt = opt.WithLoggingLevel(badger.ERROR).WithNumCompactors(0).
		WithNumLevelZeroTables(100).WithNumLevelZeroTablesStall(200).
		WithNumVersionsToKeep(s.keep).WithValueThreshold(int64(s.thr)).WithMaxLevels(s.levels).
		WithMemTableSize(int64(memsz)).WithCompactL0OnClose(false).WithDetectConflicts(detect).
		WithBaseTableSize(int64(tblsz)).WithBaseLevelSize(int64(basesz)).WithBlockSize(256).
		WithMetricsEnabled(false).WithValueLogFileSize(1 << 20).WithLevelSizeMultiplier(2)
	switch comp {
	case 1:
		opt = opt.WithCompression(options.Snappy)
	case 2:
		opt = opt.WithCompression(options.ZSTD)
	default:
		opt = opt.WithCompression(options.None)
	}
	opt = opt.WithBlockCacheSize(1 << 20).WithIndexCacheSize(0)
	if vlogpct > 0 {
		opt = opt.WithVLogPercentile(float64(vlogpct) / 100)
	}
	if vmax > 0 {
		opt = opt.WithValueLogMaxEntries(uint32(vmax))
	}
	if s.nsoff >= 0 {
		opt = opt.WithNamespaceOffset(s.nsoff)
	}
	var err error
	s.opt = opt
	if s.managed {
		s.db, err = badger.OpenManaged(opt)
	} else {
		s.db, err = badger.Open(opt)
	}
	if err != nil {
		return "", err
	}
	s.now = uint64(time.Now().Unix())
	s.txns = map[int]*mvTxn{}
	s.spec = newSpec()
	s.lastCts = 0
	s.reopenSeq = 0
	s.droppedAll = false
	s.l0l0Seen = false
	mc, ms, _ := badger.VerifLimits(s.db)
	ns := ""
	if s.nsoff >= 0 {
		ns = fmt.Sprintf(" nsoff=%d", s.nsoff)
	}
	return fmt.Sprintf("reset managed=%d keep=%d thr=%d inmem=%d levels=%d detect=%d tblsz=%d basesz=%d comp=%d memsz=%d vmax=%d now=%d maxcount=%d maxsize=%d vlogsz=%d%s",
		b2i(s.managed), s.keep, s.thr, b2i(s.inmem), s.levels, b2i(detect), tblsz, basesz, comp, memsz, vmax, s.now, mc, ms, 1<<20, ns), nil
}

func b2i(b bool) int {
	if b {
		return 1
	}
	return 0
}

func errKind(err error) string {
	switch {
	case err == nil:
		return "ok"
	case err == badger.ErrConflict:
		return "conflict"
	case err == badger.ErrReadOnlyTxn:
		return "err:readonly"
	case err == badger.ErrDiscardedTxn:
		return "err:discarded"
	case err == badger.ErrEmptyKey:
		return "err:emptykey"
	case err == badger.ErrInvalidKey:
		return "err:invalidkey"
	case err == badger.ErrTxnTooBig:
		return "err:txntoobig"
	case err == badger.ErrKeyNotFound:
		return "notfound"
	case err == badger.ErrBannedKey:
		return "err:banned"
	case strings.HasPrefix(err.Error(), "Key with size"):
		return "err:keytoobig"
	case strings.HasPrefix(err.Error(), "Value with size"):
		return "err:valtoobig"
	case strings.Contains(err.Error(), "CommitTs cannot be zero"):
		return "err:zerocommitts"
	case strings.Contains(err.Error(), "Trying to commit a discarded txn"):
		return "err:discarded"
	}
	return "err:other:" + strings.ReplaceAll(err.Error(), " ", "_")
}

func fmtVEntry(e badger.VEntry) string {
	v := hx(e.Value)
	if e.ReadErr != "" {
		v = "READERR"
	}
	return fmt.Sprintf("%s@%d:%d:%d:%d:%s", hx(e.Key), e.Version, e.Meta, e.UserMeta, e.ExpiresAt, v)
}

func (s *mvSess) dump() string {
	var parts []string
	mems := badger.VerifMemEntries(s.db)
	var ms []string
	if len(mems) > 0 {
		for _, e := range mems[0] {
			ms = append(ms, fmtVEntry(e))
		}
	}
	parts = append(parts, "M["+strings.Join(ms, ",")+"]")
	for i, lvl := range badger.VerifLevels(s.db) {
		if len(lvl) == 0 {
			continue
		}
		var sb strings.Builder
		fmt.Fprintf(&sb, "L%d", i)
		for _, t := range lvl {
			var es []string
			for _, e := range t.Entries {
				es = append(es, fmtVEntry(e))
			}
			sb.WriteString(fmt.Sprintf("[#%d ", t.ID) + strings.Join(es, ",") + "]")
		}
		parts = append(parts, sb.String())
	}
	return strings.Join(parts, " ")
}

func itemFlags(it *badger.Item) string {
	f := ""
	if it.IsDeletedOrExpired() {
		f += "d"
	}
	if it.DiscardEarlierVersions() {
		f += "D"
	}
	if f == "" {
		f = "."
	}
	return f
}

func fmtItem(it *badger.Item) (string, error) {
	v, err := it.ValueCopy(nil)
	if err != nil {
		return "", err
	}
	// C06: Item.Value must hand the callback the same bytes as Item.ValueCopy returns, and
	// ValueCopy into a caller-supplied buffer must return them too
	var v2 []byte
	if err := it.Value(func(b []byte) error { v2 = append([]byte{}, b...); return nil }); err != nil {
		return "", err
	}
	v3, err := it.ValueCopy(make([]byte, 3, 40))
	if err != nil {
		return "", err
	}
	if !bytes.Equal(v, v2) || !bytes.Equal(v, v3) || !bytes.Equal(it.Key(), it.KeyCopy(nil)) {
		return "", fmt.Errorf("C06-item-api-mismatch Value=%x ValueCopy=%x ValueCopy(buf)=%x", v2, v, v3)
	}
	return fmt.Sprintf("%s@%d:%d:%d:%s:%s", hx(it.Key()), it.Version(), it.UserMeta(), it.ExpiresAt(), itemFlags(it), hx(v)), nil
}

// ---------------------------------------------------------------- executor

func execMvcc(intents []string, st *Stats) (final, outs, oracle []string) {
	s := &mvSess{st: st}
	defer func() { s.close() }()
	emit := func(op, out string) {
		final = append(final, op)
		outs = append(outs, out)
	}
	fail := func(tag, msg string) {
		o := fmt.Sprintf("line %d: %s :: [%s] %s", len(final), final[len(final)-1], tag, msg)
		oracle = append(oracle, o)
		oracleProgress(o)
	}
	for _, line := range intents {
		w := strings.Fields(line)
		if len(w) == 0 {
			continue
		}
		progress(line)
		if kvInt(kvWords(w[1:]), "ev", 0) == 1 {
			continue // derived from the preceding intent; regenerated when that intent is re-executed
		}
		if w[0] != "reset" && s.db == nil {
			emit(line, "bad-op")
			continue
		}
		st.Inc("op:" + w[0])
		if len(s.relExp) > 0 && w[0] != "reset" {
			s.clockStep(emit, false)
		}
		switch w[0] {
		case "reset":
			s.close()
			op, err := s.open(kvWords(w[1:]))
			if err != nil {
				emit(line, "err:open:"+err.Error())
				s.db = nil
				continue
			}
			emit(op, "ok")
		case "reopen":
			// Close (flushes the memtable) and Open again on the same directory: C07 inside a
			// history. Every read at or above the discard watermark must be unchanged.
			if s.inmem {
				emit(line, "err:inmem")
				continue
			}
			pre := s.snapshotReads()
			for _, t := range s.txns {
				if !t.done {
					t.t.Discard()
					t.done = true
				}
			}
			s.txns = map[int]*mvTxn{}
			badger.VerifTakeEvents()
			if err := s.db.Close(); err != nil {
				emit(line, "err:close:"+err.Error())
				s.db = nil
				continue
			}
			s.emitEventsX(emit, fail, "", true) // the flush of the memtable at Close
			var err error
			if s.managed {
				s.db, err = badger.OpenManaged(s.opt)
			} else {
				s.db, err = badger.Open(s.opt)
			}
			if err != nil {
				emit(line, "err:open:"+err.Error())
				fail("C07-reopen-failed", "Open after a clean Close failed: "+err.Error())
				s.db = nil
				continue
			}
			next := badger.VerifNextTxnTs(s.db)
			emit(line, fmt.Sprintf("ok next=%d", next))
			if s.nsoff >= 0 {
				// the banned set is rebuilt from the stored markers; DropAll removes the markers but
				// not the in-memory set, so a restart after DropAll forgets the bans (finding F31)
				act := map[uint64]bool{}
				for _, ns := range s.db.BannedNamespaces() {
					act[ns] = true
				}
				for ns := range s.banned {
					if !act[ns] {
						fail("F31:ban-forgotten-after-dropall-reopen", fmt.Sprintf("namespace %d was banned before Close and is not banned after Open", ns))
					}
				}
				for ns := range act {
					if !s.banned[ns] {
						fail("C28-ban-appeared", fmt.Sprintf("namespace %d is banned after Open but was never banned", ns))
					}
				}
				s.banned = act
			}
			if !s.managed {
				// C11: the next timestamp lies above every stored version. Versions of the history
				// at or above it are therefore no longer stored (dropped by a compaction that the
				// oracle judged when it ran); their timestamps will be handed out again (finding
				// F29), so the history forgets them -- otherwise a later commit at a reused
				// timestamp would be judged against a version that legitimately no longer exists.
				for _, lvl := range badger.VerifLevels(s.db) {
					for _, t := range lvl {
						for _, e := range t.Entries {
							if e.Version >= next {
								fail("C11-next-not-above-stored", fmt.Sprintf("after Close+Open the next timestamp is %d but table %d stores key %s at version %d", next, t.ID, hx(e.Key), e.Version))
							}
						}
					}
				}
				// The newest version of a key is only ever dropped as a dead version at the bottom,
				// together with every older version of the key: such a key starts afresh.
				for k, vs := range s.spec.hist {
					gone := false
					for _, v := range vs {
						if v.ver >= next {
							gone = true
						}
					}
					if !gone {
						continue
					}
					if nv, ok := s.spec.newest([]byte(k), math.MaxUint64, 0); ok && !nv.dead(s.now) && s.spec.judged([]byte(k), nv.ver) {
						fail("C11-live-version-above-next", fmt.Sprintf("after Close+Open the next timestamp is %d but key %s has the live version %d", next, hx([]byte(k)), nv.ver))
					}
					delete(s.spec.hist, k)
				}
			}
			s.lastCts = 0
			s.reopenSeq = s.spec.seq
			emit("dump", s.dump())
			s.judgeStructure(fail)
			s.judgeStable("close+open", pre, fail)
			s.judgeMarks("Close+Open", fail)
		case "sleepuntil":
			// wait until the next pending relative expiry has passed (C33: an entry expires while
			// the database is running)
			emit(line, "ok")
			s.clockStep(emit, true)
		case "ban":
			// ban <ns>: DB.BanNamespace. The marker key !badger!banned<ns> is written at version 1
			// through the write channel like any entry (it is part of the stored history).
			ns := atou(w[1])
			err := s.db.BanNamespace(ns)
			badger.VerifWaitFlushed(s.db)
			s.emitEventsX(emit, fail, "", true)
			switch {
			case err == nil:
				emit(line, "ok")
				if s.nsoff < 0 {
					fail("C28-ban-accepted-without-namespaces", "BanNamespace succeeded although NamespaceOffset < 0")
				}
				if !s.banned[ns] {
					mk := append([]byte("!badger!banned"), make([]byte, 8)...)
					binary.BigEndian.PutUint64(mk[len(mk)-8:], ns)
					s.spec.add(mk, specVer{ver: 1})
				}
				s.banned[ns] = true
			case err == badger.ErrNamespaceMode:
				emit(line, "err:nsmode")
				if s.nsoff >= 0 {
					fail("C28-ban-refused", "BanNamespace answered ErrNamespaceMode although NamespaceOffset >= 0")
				}
			default:
				emit(line, "err:"+strings.ReplaceAll(err.Error(), " ", "_"))
			}
		case "dump":
			continue // dumps are emitted automatically after structural ops
		case "begin":
			id, _ := strconv.Atoi(w[1])
			upd := w[2] != "0"
			rts := atou(w[3])
			var t *badger.Txn
			if s.managed {
				t = s.db.NewTransactionAt(rts, upd)
			} else {
				t = s.db.NewTransaction(upd)
			}
			badger.VerifSyncMarks(s.db)
			s.txns[id] = &mvTxn{t: t, update: upd, readTs: t.ReadTs(), pending: map[string]specVer{}, reads: map[string]bool{}}
			emit(line, fmt.Sprintf("ok %d", t.ReadTs()))
		case "set":
			// set id key meta umeta exp val ver
			id, _ := strconv.Atoi(w[1])
			tx := s.txns[id]
			if tx == nil {
				emit(line, "err:discarded")
				continue
			}
			key, val := unhx(w[2]), unhx(w[6])
			meta, _ := strconv.Atoi(w[3])
			um, _ := strconv.Atoi(w[4])
			var exp uint64
			if !strings.HasPrefix(w[5], "+") {
				exp = atou(w[5])
			} else {
				// expiry relative to the wall clock now: the recorded line carries the absolute time
				s.clockStep(emit, false)
				exp = s.now + atou(w[5][1:])
				s.relExp = append(s.relExp, exp)
				w[5] = strconv.FormatUint(exp, 10)
				line = strings.Join(w, " ")
			}
			var err error
			sv := specVer{userMeta: byte(um), exp: exp, val: val}
			if meta&1 != 0 {
				err = tx.t.Delete(key)
				sv = specVer{del: true}
			} else {
				e := badger.NewEntry(key, val).WithMeta(byte(um))
				if meta&4 != 0 {
					e = e.WithDiscard()
					sv.discard = true
				}
				if meta == 8 {
					// a merge-operator operand (MergeOperator.Add): never counted by the retention rule
					e = badger.VerifWithMergeBit(e)
					sv.merge = true
				}
				e.ExpiresAt = exp
				err = tx.t.SetEntry(e)
			}
			k := errKind(err)
			if err == nil {
				if _, ok := tx.pending[string(key)]; !ok {
					tx.order = append(tx.order, string(key))
				}
				tx.pending[string(key)] = sv
			}
			// oracle (C28): validation outcome
			want := "ok"
			switch {
			case !tx.update:
				want = "err:readonly"
			case tx.done:
				want = "err:discarded"
			case len(key) == 0:
				want = "err:emptykey"
			case bytes.HasPrefix(key, []byte("!badger!")):
				want = "err:invalidkey"
			case len(key) > 65000:
				want = "err:keytoobig"
			case len(val) > 1<<20:
				want = "err:valtoobig"
			case s.inmem && len(val) > s.thr:
				want = "err:valtoobig"
			case s.isBanned(key):
				want = "err:banned"
			}
			emit(line, k)
			if k != want && !(want == "ok" && k == "err:txntoobig") {
				if s.inmem && s.droppedAll && want == "err:valtoobig" && k == "err:banned" && s.isBanned(key) {
					// F18 (the size limit is gone after DropAll), then the banned check answers
					fail("F18:inmem-threshold-after-dropall", fmt.Sprintf("in-memory DB after DropAll: value of %d bytes > ValueThreshold %d passes the size check (before DropAll it is rejected)", len(val), s.thr))
				} else if want == "err:banned" || k == "err:banned" {
					fail("C28-banned-set", fmt.Sprintf("write of key %s: got %s want %s", hx(key), k, want))
				} else if s.inmem && s.droppedAll && want == "err:valtoobig" && k == "ok" {
					fail("F18:inmem-threshold-after-dropall", fmt.Sprintf("in-memory DB after DropAll: value of %d bytes > ValueThreshold %d accepted (before DropAll it is rejected)", len(val), s.thr))
				} else {
					fail("C28-validation", fmt.Sprintf("got %s want %s", k, want))
				}
			}
		case "get":
			id, _ := strconv.Atoi(w[1])
			tx := s.txns[id]
			if tx == nil {
				emit(line, "err:discarded")
				continue
			}
			key := unhx(w[2])
			it, err := tx.t.Get(key)
			var out string
			if err != nil {
				out = errKind(err)
			} else {
				f, verr := fmtItem(it)
				if verr != nil {
					out = "err:value:" + strings.ReplaceAll(verr.Error(), " ", "_")
				} else {
					out = "found " + f
				}
			}
			emit(line, out)
			if !tx.done && len(key) > 0 {
				if _, own := tx.pending[string(key)]; !own && out != "err:banned" {
					tx.reads[string(key)] = true // (ErrBannedKey is answered before the read is recorded)
				}
				s.judgeGet(tx, key, out, fail)
			}
		case "iter":
			id, _ := strconv.Atoi(w[1])
			tx := s.txns[id]
			if tx == nil || tx.done {
				emit(line, "err:discarded")
				continue
			}
			kv := kvWords(w[2:])
			out := s.iterate(tx, kv, fail, &final, &outs, line)
			_ = out
		case "xiter", "xget":
			// a read (iterator creation + scan, or Get) that overlaps a memtable flush: the reader is
			// parked on db.lock while the flusher's two steps run (badger.VerifReadAcrossFlush); it
			// must see exactly what the same read sees without the flush (C01/C12). The flush is
			// reported after the read as a derived event.
			id, _ := strconv.Atoi(w[1])
			tx := s.txns[id]
			if tx == nil || tx.done {
				emit(line, "err:discarded")
				continue
			}
			pre := s.snapshotReads()
			badger.VerifTakeEvents()
			_, err := badger.VerifReadAcrossFlush(s.db, 15*time.Millisecond, func() {
				if w[0] == "xiter" {
					s.iterate(tx, kvWords(w[2:]), fail, &final, &outs, line)
					return
				}
				key := unhx(w[2])
				it, err := tx.t.Get(key)
				var out string
				if err != nil {
					out = errKind(err)
				} else if f, verr := fmtItem(it); verr != nil {
					out = "err:value:" + strings.ReplaceAll(verr.Error(), " ", "_")
				} else {
					out = "found " + f
				}
				emit(line, out)
				if len(key) > 0 {
					if _, own := tx.pending[string(key)]; !own && out != "err:banned" {
						tx.reads[string(key)] = true
					}
					s.judgeGet(tx, key, out, fail)
				}
			})
			if err != nil {
				fail("C12-flush-failed", "flush during a read failed: "+err.Error())
			}
			if s.emitEventsX(emit, fail, "", true) >= 0 {
				s.judgeStable("flush during a read", pre, fail)
				emit("dump", s.dump())
				s.judgeStructure(fail)
			}
		case "commit":
			id, _ := strconv.Atoi(w[1])
			tx := s.txns[id]
			if tx == nil {
				emit(line, "err:discarded")
				continue
			}
			cts := atou(w[2])
			var err error
			if s.managed {
				err = tx.t.CommitAt(cts, nil)
			} else {
				err = tx.t.Commit()
			}
			conflictDue := s.conflictDue(tx)
			badger.VerifSyncMarks(s.db)
			// a full memtable is rotated (and flushed by the background flusher) BEFORE this
			// commit's entries are written: report that flush ahead of the commit line
			badger.VerifWaitFlushed(s.db)
			s.emitEventsX(emit, fail, "", true)
			// normal mode: the timestamp just allocated (the harness is the only committer)
			emit(line, s.commitDone(tx, cts, err, badger.VerifNextTxnTs(s.db)-1, conflictDue, fail))
			s.judgeMarks("Commit", fail)
		case "batchcommit":
			// batchcommit id:cts ...: the write pipeline is parked (VerifHoldWriter) while the commits
			// are issued asynchronously (CommitWith / CommitAt with a callback); the first one is being
			// served, the others queue up and are then written by ONE writeRequests / valueLog.write
			// call. Timestamps and conflict checks happen at issue time, in this order.
			var txs []*mvTxn
			var ctss []uint64
			for _, a := range w[1:] {
				parts := strings.SplitN(a, ":", 2)
				id, _ := strconv.Atoi(parts[0])
				c := uint64(0)
				if len(parts) == 2 {
					c = atou(parts[1])
				}
				txs = append(txs, s.txns[id])
				ctss = append(ctss, c)
			}
			base := badger.VerifNextTxnTs(s.db)
			release := badger.VerifHoldWriter(s.db)
			errs := make([]error, len(txs))
			dones := make([]chan struct{}, len(txs))
			dues := make([]string, len(txs))
			for i, tx := range txs {
				dones[i] = make(chan struct{})
				if tx == nil {
					close(dones[i])
					continue
				}
				i := i
				cb := func(err error) { errs[i] = err; close(dones[i]) }
				dues[i] = s.conflictDueBatch(tx, txs[:i], errs[:i])
				if s.managed {
					_ = tx.t.CommitAt(ctss[i], cb)
				} else {
					tx.t.CommitWith(cb)
				}
			}
			deadline := time.Now().Add(20 * time.Second)
			for badger.VerifWriteChLen(s.db) > 0 && time.Now().Before(deadline) {
				time.Sleep(time.Millisecond)
			}
			time.Sleep(5 * time.Millisecond)
			release()
			hung := false
			for i := range dones {
				select {
				case <-dones[i]:
				case <-time.After(60 * time.Second):
					hung = true
				}
			}
			if hung {
				emit(line, "hang")
				fail("impl-hang", "a commit issued while the write pipeline was parked did not complete within 60 s after it was released")
				continue
			}
			badger.VerifSyncMarks(s.db)
			badger.VerifWaitFlushed(s.db)
			s.emitEventsX(emit, fail, "", true)
			var outs []string
			next := base
			for i, tx := range txs {
				if tx == nil {
					outs = append(outs, "err:discarded")
					continue
				}
				ts := next
				if errs[i] == nil && len(tx.pending) > 0 && !tx.done && !s.managed {
					next++
				}
				outs = append(outs, s.commitDone(tx, ctss[i], errs[i], ts, dues[i], fail))
			}
			emit(line, strings.Join(outs, ";"))
		case "discard":
			id, _ := strconv.Atoi(w[1])
			if tx := s.txns[id]; tx != nil {
				tx.t.Discard()
				tx.done = true
				badger.VerifSyncMarks(s.db)
			}
			emit(line, "ok")
		case "setdiscard":
			ts := atou(w[1])
			if s.managed {
				s.db.SetDiscardTs(ts)
			}
			emit(line, "ok")
		case "flush":
			pre := s.snapshotReads()
			badger.VerifTakeEvents()
			err := badger.VerifFlush(s.db)
			if err != nil {
				emit(line, errKind(err))
				continue
			}
			if len(final) > 0 {
				nb := len(final)
				s.emitEvents(emit, fail)
				if len(final) == nb {
					emit("flush id=0", "ok") // empty memtable: nothing was written
				}
			}
			s.judgeStable("flush", pre, fail)
			emit("dump", s.dump())
			s.judgeStructure(fail)
		case "waitthr":
			// wait (bounded) until the dynamic value threshold has risen above the given size
			want := int64(atou(w[1]))
			deadline := time.Now().Add(3 * time.Second)
			for time.Now().Before(deadline) {
				if _, _, thr := badger.VerifLimits(s.db); thr > want {
					break
				}
				time.Sleep(2 * time.Millisecond)
			}
			_, _, thr := badger.VerifLimits(s.db)
			emit(line, fmt.Sprintf("ok %v", thr > want))
		case "dropprefix":
			s.dropPrefix(w[1:], emit, fail)
		case "dropall":
			s.dropAll(emit, fail)
		case "compact", "compact-none":
			kv := kvWords(w[1:])
			s.compact(kv, emit, fail)
		default:
			emit(line, "bad-op")
		}
	}
	return
}

// judgeGet: C01/C04/C06/C33/C36 — a Get equals the newest committed write at or below the
// read timestamp (own pending writes layered on top), absent when deleted or expired.
// clockStep: sessions with relative expiry times follow the wall clock. badger compares ExpiresAt
// with time.Now().Unix() inside each operation; the oracle and the model use s.now. No operation
// may straddle the second in which an entry expires, so when the clock is within one second of a
// pending expiry E (now >= E-2) the session waits until E has passed (an operation may take up to
// two seconds on a loaded machine); `force` waits for the next
// pending expiry in any case (op sleepuntil). A changed clock is reported to the model as a derived
// `now T` line.
func (s *mvSess) clockStep(emit func(string, string), force bool) {
	now := uint64(time.Now().Unix())
	for _, e := range s.relExp {
		if e > now && (force || e-now <= 2) {
			for uint64(time.Now().Unix()) < e {
				time.Sleep(20 * time.Millisecond)
			}
			now = uint64(time.Now().Unix())
		}
	}
	// not in the last 100 ms of a second either: the operation must see the same second we report
	for time.Now().Nanosecond() > 900_000_000 {
		time.Sleep(10 * time.Millisecond)
	}
	now = uint64(time.Now().Unix())
	// the guard above may have moved us into the second before an expiry
	for _, e := range s.relExp {
		if e > now && e-now <= 2 {
			for uint64(time.Now().Unix()) < e {
				time.Sleep(20 * time.Millisecond)
			}
			now = uint64(time.Now().Unix())
		}
	}
	if now != s.now {
		s.now = now
		emit(fmt.Sprintf("now %d ev=1", s.now), "ok")
	}
}

// judgeMarks (C34): in normal mode the commit watermark never reports a timestamp that has not been
// handed out yet (doneUntil < nextTxnTs), and the read watermark never runs ahead of it.
func (s *mvSess) judgeMarks(what string, fail func(string, string)) {
	if s.managed || s.db == nil {
		return
	}
	badger.VerifSyncMarks(s.db)
	st := badger.VerifOracleOf(s.db).State()
	if st.TxnDoneUntil >= st.NextTxnTs {
		fail("C34-txnmark-ahead-of-next", fmt.Sprintf("after %s txnMark.DoneUntil=%d although timestamp %d has not been handed out yet", what, st.TxnDoneUntil, st.NextTxnTs))
	}
	if st.ReadDoneUntil >= st.NextTxnTs {
		fail("C34-readmark-ahead-of-next", fmt.Sprintf("after %s readMark.DoneUntil=%d, next timestamp %d", what, st.ReadDoneUntil, st.NextTxnTs))
	}
}

// isBanned: the key carries a namespace (a complete 8-byte field at NamespaceOffset followed by at
// least one more byte, as DB.isBanned has it) and that namespace was banned in this session.
func (s *mvSess) isBanned(key []byte) bool {
	if s.nsoff < 0 || len(key) <= s.nsoff+8 {
		return false
	}
	return s.banned[binary.BigEndian.Uint64(key[s.nsoff:s.nsoff+8])]
}

func (s *mvSess) judgeGet(tx *mvTxn, key []byte, out string, fail func(string, string)) {
	var want string
	if s.isBanned(key) {
		if out != "err:banned" {
			fail("C28-banned-get", fmt.Sprintf("Get of key %s in a banned namespace answers %q", hx(key), out))
		}
		return
	}
	if out == "err:banned" {
		fail("C28-banned-get", fmt.Sprintf("Get of key %s, which is in no banned namespace, answers err:banned", hx(key)))
		return
	}
	if pv, ok := tx.pending[string(key)]; ok && tx.update {
		if pv.dead(s.now) {
			want = "notfound"
		} else {
			fl := "."
			if pv.discard {
				fl = "D"
			}
			want = fmt.Sprintf("found %s@%d:%d:%d:%s:%s", hx(key), tx.readTs, pv.userMeta, pv.exp, fl, hx(pv.val))
		}
	} else {
		// reads below the discard watermark of a past compaction are not promised
		if s.spec.compacted && tx.readTs < s.spec.maxDiscard {
			return
		}
		if !s.spec.judged(key, tx.readTs) {
			return
		}
		v, ok := s.spec.newest(key, tx.readTs, 0)
		if !ok || v.dead(s.now) {
			want = "notfound"
		} else {
			fl := "."
			if v.discard {
				fl = "D"
			}
			want = fmt.Sprintf("found %s@%d:%d:%d:%s:%s", hx(key), v.ver, v.userMeta, v.exp, fl, hx(v.val))
		}
	}
	if out != want {
		tag := "C01-read"
		if s.managed && s.spec.dupVersion(key) && strings.HasPrefix(out, "found ") && s.l0l0Seen {
			// the same (key, version) was written twice and an L0->L0 compaction has re-sorted L0
			tag = "F2:l0-resort-duplicate-version"
		} else if s.managed && s.spec.below[string(key)] && s.spec.compacted && strings.HasPrefix(out, "found ") && want == "notfound" {
			// F27 is exactly: the history says absent (a tombstone / expired version is the newest one
			// at or below the read timestamp) and a version written below it shows up
			tag = "F27:write-below-existing-version"
		} else if s.managed && s.spec.belowDrop[string(key)] && out == "notfound" {
			tag = "F27b:write-below-dropped-tombstone"
		}
		fail(tag, fmt.Sprintf("Get returned %q, the snapshot at readTs=%d holds %q", out, tx.readTs, want))
	}
}

// conflictDue: C02 oracle — was a key this transaction read written by a commit after its read ts?
func (s *mvSess) conflictDue(tx *mvTxn) string {
	due := ""
	if tx.update && !tx.done && len(tx.pending) > 0 {
		dnow := badger.VerifDiscardTs(s.db)
		for k := range tx.reads {
			for _, v := range s.spec.hist[k] {
				if v.ver > tx.readTs && (!s.managed || v.ver > dnow) && v.seq > s.reopenSeq {
					due = fmt.Sprintf("key %s read at ts %d was written at ts %d", hx([]byte(k)), tx.readTs, v.ver)
				}
			}
		}
	}
	return due
}

// conflictDueBatch: the same inside a batch: the earlier members of the batch that were accepted
// count as committed although the spec has not been updated yet.
func (s *mvSess) conflictDueBatch(tx *mvTxn, earlier []*mvTxn, _ []error) string {
	due := s.conflictDue(tx)
	if due != "" || !tx.update || tx.done || len(tx.pending) == 0 || s.managed {
		return due
	}
	for _, e := range earlier {
		if e == nil || e == tx || !e.update || len(e.pending) == 0 {
			continue
		}
		for k := range tx.reads {
			if _, ok := e.pending[k]; ok {
				return "" // judged by the model only: the earlier member may itself have been refused
			}
		}
	}
	return due
}

// commitDone: bookkeeping and oracles after a Commit returned err; ts is the commit timestamp a
// successful normal-mode commit got (managed mode: cts). Returns the output of the op.
func (s *mvSess) commitDone(tx *mvTxn, cts uint64, err error, ts uint64, conflictDue string, fail func(string, string)) string {
	wasDone := tx.done
	switch {
	case err == nil && len(tx.pending) > 0 && !wasDone:
		if s.managed {
			ts = cts
		}
		for _, k := range tx.order {
			sv := tx.pending[k]
			sv.ver = ts
			s.spec.add([]byte(k), sv)
		}
		if conflictDue != "" && len(s.spec.dropFloor) == 0 {
			fail("C02-conflict-missed", "Commit returned nil although "+conflictDue)
		}
		if !s.managed {
			if ts <= s.lastCts {
				fail("C03-ts-order", fmt.Sprintf("commit ts %d not above previous %d", ts, s.lastCts))
			}
			if ts <= tx.readTs {
				fail("C03-ts-order", fmt.Sprintf("commit ts %d <= own read ts %d", ts, tx.readTs))
			}
			s.lastCts = ts
		}
		tx.done = true
		return fmt.Sprintf("ok %d", ts)
	case err == nil:
		tx.done = true
		return "ok noop"
	default:
		if err == badger.ErrTxnTooBig && !wasDone {
			// every Set/Delete of this transaction had been accepted (rejected ones are not
			// in tx.pending and do not change the transaction)
			fail("C28-accepted-toobig", fmt.Sprintf("Commit of a transaction whose %d writes were all accepted failed with ErrTxnTooBig", len(tx.pending)))
		}
		if err == badger.ErrConflict || len(tx.pending) > 0 {
			// Commit defers Discard for every path past the precheck
			if !strings.Contains(err.Error(), "CommitTs cannot be zero") && !strings.Contains(err.Error(), "discarded txn") {
				tx.done = true
			}
		}
		return errKind(err)
	}
}

type readSnap struct {
	key string
	ts  uint64
	res string
}

// every (key, ts) with ts at or above the discard watermark: what DB.get serves.
func (s *mvSess) snapshotReads() []readSnap {
	badger.VerifSyncMarks(s.db)
	d := badger.VerifDiscardTs(s.db)
	tsSet := map[uint64]bool{math.MaxUint64: true, d: true}
	for _, vs := range s.spec.hist {
		for _, v := range vs {
			if v.ver >= d {
				tsSet[v.ver] = true
			}
			if v.ver > 0 && v.ver-1 >= d {
				tsSet[v.ver-1] = true
			}
		}
	}
	var tss []uint64
	for t := range tsSet {
		tss = append(tss, t)
	}
	sort.Slice(tss, func(i, j int) bool { return tss[i] < tss[j] })
	var out []readSnap
	for _, k := range s.spec.keys() {
		for _, ts := range tss {
			out = append(out, readSnap{k, ts, s.readAt([]byte(k), ts)})
		}
	}
	return out
}

func (s *mvSess) readAt(key []byte, ts uint64) string {
	e, ok, err := badger.VerifGetAt(s.db, key, ts)
	if err != nil {
		return "err:" + err.Error()
	}
	if !ok || badger.VerifIsDeletedOrExpired(e.Meta, e.ExpiresAt) {
		return "absent"
	}
	if e.ReadErr != "" {
		return "READERR " + e.ReadErr
	}
	return fmt.Sprintf("%d:%d:%d:%s", e.Version, e.UserMeta, e.ExpiresAt, hx(e.Value))
}

// judgeStable: C12 — a flush or compaction changed no read at or above the discard watermark,
// and each of those reads equals the naive MVCC map.
func (s *mvSess) judgeStable(what string, pre []readSnap, fail func(string, string)) {
	for _, r := range pre {
		now := s.readAt([]byte(r.key), r.ts)
		if now != r.res {
			tag := "C12-read-changed"
			if s.managed && s.spec.dupVersion([]byte(r.key)) && s.l0l0Seen && now != "absent" && r.res != "absent" &&
				strings.SplitN(now, ":", 2)[0] == strings.SplitN(r.res, ":", 2)[0] {
				tag = "F2:l0-resort-duplicate-version"
			} else if s.managed && s.spec.below[r.key] && now != "absent" && r.res == "absent" {
				// a version written below an existing (dead) version of the key became visible
				tag = "F27:write-below-existing-version"
			}
			fail(tag, fmt.Sprintf("%s changed read of key %s at ts=%d: before %q after %q", what, hx([]byte(r.key)), r.ts, r.res, now))
			return
		}
		v, ok := s.spec.newest([]byte(r.key), r.ts, 0)
		want := "absent"
		if ok && !v.dead(s.now) {
			want = fmt.Sprintf("%d:%d:%d:%s", v.ver, v.userMeta, v.exp, hx(v.val))
		}
		if now != want && !(s.spec.compacted && r.ts < s.spec.maxDiscard) && s.spec.judged([]byte(r.key), r.ts) {
			if s.managed && s.spec.dupVersion([]byte(r.key)) && s.l0l0Seen {
				fail("F2:l0-resort-duplicate-version", fmt.Sprintf("after %s key %s at ts=%d reads %q, history says %q", what, hx([]byte(r.key)), r.ts, now, want))
				return
			}
			if s.managed && s.spec.below[r.key] && s.spec.compacted && now != "absent" && want == "absent" {
				fail("F27:write-below-existing-version", fmt.Sprintf("after %s key %s at ts=%d reads %q, history says %q", what, hx([]byte(r.key)), r.ts, now, want))
				return
			}
			if s.managed && s.spec.belowDrop[r.key] && now == "absent" {
				fail("F27b:write-below-dropped-tombstone", fmt.Sprintf("after %s key %s at ts=%d reads %q, history says %q (a dead version left in place by DropPrefix hides the write)", what, hx([]byte(r.key)), r.ts, now, want))
				return
			}
			fail("C12-read-wrong", fmt.Sprintf("after %s key %s at ts=%d reads %q, history says %q", what, hx([]byte(r.key)), r.ts, now, want))
			return
		}
	}
}

// judgeStructure: C14 — levels >= 1 sorted and disjoint, all versions of a key in one table.
func (s *mvSess) judgeStructure(fail func(string, string)) {
	if err := badger.VerifValidate(s.db); err != nil {
		fail("C14-validate", err.Error())
	}
	for i, lvl := range badger.VerifLevels(s.db) {
		if i == 0 {
			continue
		}
		var prevKey []byte
		for ti, t := range lvl {
			if len(t.Entries) == 0 {
				fail("C14-empty-table", fmt.Sprintf("level %d table %d empty", i, ti))
				continue
			}
			first := t.Entries[0]
			if prevKey != nil && bytes.Compare(prevKey, first.Key) >= 0 {
				fail("C14-levels", fmt.Sprintf("level %d: table %d starts at user key %s, previous table ends at %s (overlap or a key split across tables)", i, ti, hx(first.Key), hx(prevKey)))
			}
			prevKey = t.Entries[len(t.Entries)-1].Key
		}
	}
}

func joinU64(xs []uint64) string {
	var r []string
	for _, x := range xs {
		r = append(r, strconv.FormatUint(x, 10))
	}
	return strings.Join(r, ",")
}

// emitEvents turns the flush/compaction events badger reported since the last call into op
// lines (tables named by file id) for the model, each with the implementation's own
// (discardTs, hasOverlap) as output. Returns the number of compaction events.
func (s *mvSess) emitEvents(emit func(string, string), fail func(string, string)) int {
	return s.emitEventsX(emit, fail, "", false)
}

// intent: fields of the generated op (`id=… adj=…`) appended to the first event line so that a
// replay re-issues the same call; allDerived: every line is a consequence of a preceding intent
// line (DropPrefix) and carries `ev=1`, which makes the executor skip it on replay.
func (s *mvSess) emitEventsX(emit func(string, string), fail func(string, string), intent string, allDerived bool) int {
	n := 0
	first := true
	for _, ev := range badger.VerifTakeEvents() {
		suffix := ""
		if allDerived || !first {
			suffix = " ev=1"
		} else if intent != "" {
			suffix = " " + intent
		}
		first = false
		switch ev.Kind {
		case "flush":
			emit(fmt.Sprintf("flush id=%d", ev.NewIDs[0])+suffix, "ok")
		case "compact":
			n++
			var news []string
			for i, id := range ev.NewIDs {
				news = append(news, fmt.Sprintf("%d:%d", id, ev.NewCounts[i]))
			}
			var drops []string
			for _, p := range ev.DropPrefixes {
				drops = append(drops, hx(p))
			}
			op := fmt.Sprintf("compact this=%d next=%d top=%s bot=%s new=%s", ev.ThisLevel, ev.NextLevel,
				joinU64(ev.TopIDs), joinU64(ev.BotIDs), strings.Join(news, ","))
			if len(drops) > 0 {
				op += " drop=" + strings.Join(drops, ",")
			}
			if allDerived && !s.managed {
				op += fmt.Sprintf(" lag=%d", ev.DiscardTs)
			}
			op += suffix
			emit(op, fmt.Sprintf("ok discard=%d overlap=%d", ev.DiscardTs, b2i(ev.HasOverlap)))
			s.st.Inc(fmt.Sprintf("compact:L%d->L%d", ev.ThisLevel, ev.NextLevel))
			if ev.ThisLevel == 0 && ev.NextLevel == 0 {
				s.l0l0Seen = true
			}
			if len(ev.BotIDs) > 0 {
				s.st.Inc("compact:with-bot")
			}
			if len(ev.NewIDs) > 1 {
				s.st.Inc("compact:multi-output")
			}
			if ev.DiscardTs > s.spec.maxDiscard {
				s.spec.maxDiscard = ev.DiscardTs
			}
			s.spec.compacted = true
		}
	}
	return n
}

func (s *mvSess) compact(kv map[string]string, emit func(string, string), fail func(string, string)) {
	this := kvInt(kv, "this", 0)
	id := kvInt(kv, "id", 0)
	adjS := kv["adj"]
	if adjS == "" {
		adjS = "1.5"
	}
	adj, _ := strconv.ParseFloat(adjS, 64)
	if pk, ok := kv["pick"]; ok {
		// pick=N: the N-th (mod) non-empty level, so that generated compactions hit real tables
		n, _ := strconv.Atoi(pk)
		var ne []int
		for i, lvl := range badger.VerifLevels(s.db) {
			if len(lvl) > 0 {
				ne = append(ne, i)
			}
		}
		if len(ne) > 0 {
			this = ne[n%len(ne)]
		}
	}
	if this >= s.levels {
		this = s.levels - 1
	}
	bd := ""
	if kvInt(kv, "backdate", 1) != 0 {
		badger.VerifBackdate(s.db, 2*time.Hour)
	} else {
		bd = " backdate=0" // tables created since the last compaction op stay "young" for the L0->L0 picker
	}
	pre := s.snapshotReads()
	badger.VerifTakeEvents()
	err := badger.VerifCompact(s.db, id, this, 1.5, adj, nil)
	if err != nil {
		emit(fmt.Sprintf("compact-none this=%d id=%d adj=%s%s", this, id, adjS, bd), "none")
		s.st.Inc("compact:none")
		return
	}
	s.emitEventsX(emit, fail, fmt.Sprintf("id=%d adj=%s%s", id, adjS, bd), false)
	s.judgeStable(fmt.Sprintf("compaction of level %d", this), pre, fail)
	emit("dump", s.dump())
	s.judgeStructure(fail)
	s.judgeRetention(fail)
}

// dropPrefix: C29 — DropPrefix(p...) then: no key with a dropped prefix is visible at any
// timestamp, every other key reads as before.
func (s *mvSess) dropPrefix(ws []string, emit func(string, string), fail func(string, string)) {
	var prefixes [][]byte
	for _, w := range ws {
		prefixes = append(prefixes, unhx(w))
	}
	for _, t := range s.txns {
		if !t.done {
			// DropPrefix must not run with open iterators/transactions racing it; the generator
			// closes them first. (Open transactions are allowed by the API; they are just readers.)
			_ = t
		}
	}
	pre := s.snapshotReads()
	badger.VerifTakeEvents()
	err := s.db.DropPrefix(prefixes...)
	op := "dropprefix " + strings.Join(ws, " ")
	if err != nil {
		emit(op, errKind(err))
		return
	}
	emit(op, "ok")
	// events: the unfiltered memtable flush(es), then one same-level compaction per table group
	// (levels bottom-up), then the L0 -> Lbase compaction. Between the flushes and the
	// compactions a `dropplan` line asks the model which groups it expects.
	evs := badger.VerifTakeEvents()
	var flushes, comps []badger.VCompactEvent
	for _, ev := range evs {
		if ev.Kind == "flush" {
			flushes = append(flushes, ev)
		} else {
			comps = append(comps, ev)
		}
	}
	badger.VerifPutBackEvents(flushes)
	s.emitEventsX(emit, fail, "", true)
	if len(evs) > 0 {
		var plan []string
		cur := -1
		for _, ev := range comps {
			if ev.ThisLevel == ev.NextLevel && ev.ThisLevel >= 1 && len(ev.TopIDs) == 0 {
				if ev.ThisLevel != cur {
					plan = append(plan, fmt.Sprintf("L%d:", ev.ThisLevel))
					cur = ev.ThisLevel
				}
				plan[len(plan)-1] += "[" + joinU64(ev.BotIDs) + "]"
			}
		}
		// the prefixes dropPrefixes actually works with: DropPrefix first removes those under which
		// no key is visible (filterPrefixesToDrop); every compaction event carries the filtered list
		// (no compaction at all: every prefix was filtered out; the C29 oracle below still checks
		// that no visible key with a dropped prefix survives)
		var pws []string
		if len(comps) > 0 {
			for _, p := range comps[0].DropPrefixes {
				pws = append(pws, hx(p))
			}
		}
		emit("dropplan "+strings.Join(pws, " ")+" ev=1", "plan "+strings.Join(plan, ";"))
	}
	badger.VerifPutBackEvents(comps)
	s.emitEventsX(emit, fail, "", true)
	emit("dump", s.dump())
	s.judgeStructure(fail)
	// oracle
	has := func(k string) bool {
		for _, p := range prefixes {
			if bytes.HasPrefix([]byte(k), p) {
				return true
			}
		}
		return false
	}
	badger.VerifSyncMarks(s.db)
	dAfter := badger.VerifDiscardTs(s.db)
	for _, r := range pre {
		if r.ts < dAfter {
			continue // DropPrefix's own read-only View may advance the discard watermark
		}
		now := s.readAt([]byte(r.key), r.ts)
		if has(r.key) && s.isBanned([]byte(r.key)) {
			// a key of a banned namespace is visible to nobody (Get answers ErrBannedKey, iterators
			// hide it), DropPrefix's own visibility filter included: a prefix under which only such
			// keys live is filtered out and their data stays in the tree (not a violation of "no key
			// with the prefix is visible"; recorded in DESIGN §8). The history follows the tree.
			continue
		}
		if has(r.key) {
			// "no key with the prefix is visible": judged for snapshots taken from now on (the
			// newest timestamp). A key whose newest version is already a delete/expired marker is
			// skipped by DropPrefix (nothing visible to drop); its older versions stay readable
			// at old managed-mode timestamps, which the property does not speak about.
			if r.ts != math.MaxUint64 {
				continue
			}
			if now != "absent" {
				fail("C29-prefix-survived", fmt.Sprintf("after DropPrefix key %s still reads %q at ts=%d", hx([]byte(r.key)), now, r.ts))
				return
			}
		} else if now != r.res {
			fail("C29-other-key-changed", fmt.Sprintf("DropPrefix changed key %s (no dropped prefix) at ts=%d: before %q after %q", hx([]byte(r.key)), r.ts, r.res, now))
			return
		}
	}
	for k := range s.spec.hist {
		if has(k) {
			if s.isBanned([]byte(k)) && s.readAt([]byte(k), math.MaxUint64) != "absent" {
				continue // its prefix was filtered out (see above): still stored
			}
			delete(s.spec.hist, k)
			s.spec.dropFloor[k] = s.spec.maxTs
		}
	}
}

func (s *mvSess) dropAll(emit func(string, string), fail func(string, string)) {
	err := s.db.DropAll()
	emit("dropall", errKind(err))
	if err != nil {
		return
	}
	s.droppedAll = true
	badger.VerifTakeEvents()
	emit("dump", s.dump())
	s.judgeMarks("DropAll", fail)
	for _, k := range s.spec.keys() {
		if r := s.readAt([]byte(k), math.MaxUint64); r != "absent" {
			fail("C29-dropall-survivor", fmt.Sprintf("after DropAll key %s reads %q", hx([]byte(k)), r))
			break
		}
	}
	s.spec = newSpec()
}

// judgeRetention: C13 — no version above the discard watermark has disappeared, and the
// newest version at or below it is still there unless it is a dead marker.
func (s *mvSess) judgeRetention(fail func(string, string)) {
	have := map[string]map[uint64]bool{}
	add := func(e badger.VEntry) {
		m := have[string(e.Key)]
		if m == nil {
			m = map[uint64]bool{}
			have[string(e.Key)] = m
		}
		m[e.Version] = true
	}
	for _, lvl := range badger.VerifLevels(s.db) {
		for _, t := range lvl {
			for _, e := range t.Entries {
				add(e)
			}
		}
	}
	for _, m := range badger.VerifMemEntries(s.db) {
		for _, e := range m {
			add(e)
		}
	}
	for k, vs := range s.spec.hist {
		for _, v := range vs {
			if v.ver > s.spec.maxDiscard && !have[k][v.ver] {
				fail("C13-lost-version", fmt.Sprintf("key %s version %d is above every discard watermark used (%d) but is gone", hx([]byte(k)), v.ver, s.spec.maxDiscard))
				return
			}
		}
		if nv, ok := s.spec.newest([]byte(k), s.spec.maxDiscard, 0); ok && !nv.dead(s.now) && s.keep >= 1 && !have[k][nv.ver] {
			fail("C13-lost-newest", fmt.Sprintf("key %s: newest version %d at or below the watermark %d is live but gone", hx([]byte(k)), nv.ver, s.spec.maxDiscard))
			return
		}
		// at or below the watermark: the newest NumVersionsToKeep (non-merge) versions, up to and
		// including the first delete / expired / discard-earlier entry (a dead one may be dropped)
		if _, dropped := s.spec.dropFloor[k]; !dropped && !s.spec.dupVersion([]byte(k)) {
			sorted := append([]specVer{}, vs...)
			sort.Slice(sorted, func(i, j int) bool { return sorted[i].ver > sorted[j].ver })
			count := 0
			for _, v := range sorted {
				if v.ver > s.spec.maxDiscard {
					continue
				}
				if v.merge {
					// a merge-operator operand is never counted; it goes only when it lies below a
					// version of its key that ends the retained run (C31: operands not yet folded
					// must survive every compaction)
					if !have[k][v.ver] && !s.spec.below[k] {
						fail("C13-lost-merge-operand", fmt.Sprintf("key %s: merge operand at version %d lies above every version that ends the retained run (watermark %d, NumVersionsToKeep=%d) but is gone", hx([]byte(k)), v.ver, s.spec.maxDiscard, s.keep))
						return
					}
					continue
				}
				count++
				if !v.dead(s.now) && !have[k][v.ver] {
					fail("C13-lost-retained", fmt.Sprintf("key %s: version %d is the %d-th newest version at or below the watermark %d (NumVersionsToKeep=%d) and live, but it is gone", hx([]byte(k)), v.ver, count, s.spec.maxDiscard, s.keep))
					return
				}
				if v.dead(s.now) || v.discard || count == s.keep {
					break
				}
			}
		}
	}
}

// iterate runs one full scan and judges it (C05, C04): emits the final op + output itself.
func (s *mvSess) iterate(tx *mvTxn, kv map[string]string, fail func(string, string), final, outs *[]string, line string) string {
	opt := badger.DefaultIteratorOptions
	opt.Reverse = kvInt(kv, "rev", 0) != 0
	opt.AllVersions = kvInt(kv, "all", 0) != 0
	opt.InternalAccess = kvInt(kv, "internal", 0) != 0
	opt.SinceTs = uint64(kvInt(kv, "since", 0))
	opt.PrefetchValues = kvInt(kv, "prefetch", 1) != 0
	if p, ok := kv["prefix"]; ok {
		opt.Prefix = unhx(p)
	}
	iskey := kvInt(kv, "iskey", 0) != 0
	var it *badger.Iterator
	if iskey {
		pfx := opt.Prefix
		opt.Prefix = nil
		it = tx.t.NewKeyIterator(pfx, opt)
		opt.Prefix = pfx
		opt.AllVersions = true
	} else {
		it = tx.t.NewIterator(opt)
	}
	seek := kv["seek"]
	if seek == "" || seek == "rewind" {
		it.Rewind()
	} else {
		it.Seek(unhx(seek))
		if len(unhx(seek)) > 0 {
			tx.reads[string(unhx(seek))] = true
		}
	}
	var items []string
	type got struct {
		key []byte
		ver uint64
	}
	var gots []got
	for ; it.Valid(); it.Next() {
		item := it.Item()
		f, err := fmtItem(item)
		if err != nil {
			f = "ERR:" + strings.ReplaceAll(err.Error(), " ", "_")
		}
		items = append(items, f)
		gots = append(gots, got{append([]byte{}, item.Key()...), item.Version()})
		tx.reads[string(item.Key())] = true
		if len(items) > 10000 {
			break
		}
	}
	it.Close()
	out := "items " + strings.Join(items, ";")
	*final = append(*final, line)
	*outs = append(*outs, out)
	s.st.Inc(fmt.Sprintf("iter:rev=%v,all=%v,n=%s", opt.Reverse, opt.AllVersions, sizeBucket(len(items))))
	// ---- oracle
	// order: strictly monotone by (key, version desc) in the direction of iteration
	for i := 1; i < len(gots); i++ {
		c := bytes.Compare(gots[i-1].key, gots[i].key)
		if c == 0 {
			if !opt.AllVersions {
				fail("C05-duplicate", fmt.Sprintf("key %s yielded twice", hx(gots[i].key)))
				break
			}
			if (!opt.Reverse && gots[i-1].ver <= gots[i].ver) || (opt.Reverse && gots[i-1].ver >= gots[i].ver) {
				fail("C05-version-order", fmt.Sprintf("key %s versions %d then %d", hx(gots[i].key), gots[i-1].ver, gots[i].ver))
				break
			}
		} else if (c > 0) != opt.Reverse {
			fail("C05-order", fmt.Sprintf("%s then %s", hx(gots[i-1].key), hx(gots[i].key)))
			break
		}
	}
	// Judged against the snapshot when the scan is one the property speaks about: no Prefix,
	// or a Seek key inside the prefix, or a forward Rewind (reverse+Prefix+Rewind and seeks
	// outside the prefix are compared with the model only, DESIGN §8.3).
	seekIn := seek != "" && seek != "rewind" && bytes.HasPrefix(unhx(seek), opt.Prefix)
	judged := len(opt.Prefix) == 0 || seekIn || ((seek == "" || seek == "rewind") && !opt.Reverse)
	for _, f := range s.spec.dropFloor {
		if tx.readTs <= f {
			judged = false // in the shadow of a DropPrefix (see mvSpec.dropFloor)
		}
	}
	if judged && !opt.AllVersions && !(s.spec.compacted && tx.readTs < s.spec.maxDiscard) {
		want := s.specScan(tx, opt, seek)
		if strings.Join(want, ";") != strings.Join(items, ";") {
			tag := "C05-scan"
			if s.managed && s.spec.compacted && s.onlyBelowKeysDiffer(want, items) {
				tag = "F27:write-below-existing-version"
			}
			fail(tag, fmt.Sprintf("iterator yielded [%s], the snapshot at readTs=%d holds [%s]", strings.Join(items, ";"), tx.readTs, strings.Join(want, ";")))
		}
	}
	return out
}

// specScan: the visible keys of the snapshot (own pending writes layered on top) in order.
// onlyBelowKeysDiffer: the two item lists differ only in items of keys that were written below an
// existing version (finding F27), and only by extra items on the implementation's side.
func (s *mvSess) onlyBelowKeysDiffer(want, got []string) bool {
	ws := map[string]bool{}
	for _, w := range want {
		ws[w] = true
	}
	gs := map[string]bool{}
	any := false
	for _, g := range got {
		gs[g] = true
		if !ws[g] {
			k := g
			if i := strings.IndexByte(g, '@'); i >= 0 {
				k = g[:i]
			}
			if !s.spec.below[string(unhx(k))] {
				return false
			}
			any = true
		}
	}
	for _, w := range want {
		if !gs[w] {
			return false
		}
	}
	return any
}

func (s *mvSess) specScan(tx *mvTxn, opt badger.IteratorOptions, seek string) []string {
	keySet := map[string]bool{}
	for k := range s.spec.hist {
		keySet[k] = true
	}
	if tx.update {
		for k := range tx.pending {
			keySet[k] = true
		}
	}
	var keys []string
	for k := range keySet {
		keys = append(keys, k)
	}
	sort.Strings(keys)
	if opt.Reverse {
		for i, j := 0, len(keys)-1; i < j; i, j = i+1, j-1 {
			keys[i], keys[j] = keys[j], keys[i]
		}
	}
	var sk []byte
	hasSeek := false
	if seek != "" && seek != "rewind" {
		sk = unhx(seek)
		hasSeek = len(sk) > 0
	}
	if !hasSeek && len(opt.Prefix) > 0 {
		sk, hasSeek = opt.Prefix, true
	}
	var out []string
	for _, k := range keys {
		if hasSeek {
			c := bytes.Compare([]byte(k), sk)
			if (!opt.Reverse && c < 0) || (opt.Reverse && c > 0) {
				continue
			}
		}
		hasPfx := bytes.HasPrefix([]byte(k), opt.Prefix)
		// forward: the scan ends at the first key (visible or not) outside the prefix
		if !opt.Reverse && !hasPfx {
			break
		}
		if bytes.HasPrefix([]byte(k), []byte("!badger!")) && !opt.InternalAccess {
			continue
		}
		// keys of banned namespaces are hidden from every iterator (internal keys are exempt)
		if !bytes.HasPrefix([]byte(k), []byte("!badger!")) && s.isBanned([]byte(k)) {
			continue
		}
		var v specVer
		ok := false
		ver := uint64(0)
		if pv, has := tx.pending[k]; has && tx.update {
			if !(opt.SinceTs > 0 && tx.readTs <= opt.SinceTs) {
				v, ok, ver = pv, true, tx.readTs
			}
		}
		if !ok {
			v, ok = s.spec.newest([]byte(k), tx.readTs, opt.SinceTs)
			ver = v.ver
		}
		if !ok || v.dead(s.now) {
			continue
		}
		// reverse: Valid() turns false at the first visible key outside the prefix
		if opt.Reverse && !hasPfx {
			break
		}
		fl := "."
		if v.discard {
			fl = "D"
		}
		out = append(out, fmt.Sprintf("%s@%d:%d:%d:%s:%s", hx([]byte(k)), ver, v.userMeta, v.exp, fl, hx(v.val)))
	}
	return out
}

// ---------------------------------------------------------------- generator

func genMvcc(rng *rand.Rand, n int, st *Stats) []string {
	var ops []string
	for c := 0; c < n; c++ {
		ops = append(ops, genMvccSession(rng, st)...)
	}
	return ops
}

func pick[T any](rng *rand.Rand, xs ...T) T { return xs[rng.Intn(len(xs))] }

// genPctSession: dynamic value threshold (VLogPercentile > 0). A transaction collects many
// values that are accounted as value pointers, other transactions then commit larger values so
// that the threshold rises above them, then the first transaction commits. Judged by the oracle
// only (the asynchronous threshold is not modelled).
func genPctSession(rng *rand.Rand, st *Stats) []string {
	st.Inc("session:vlogpct")
	ops := []string{fmt.Sprintf("reset managed=0 keep=1 thr=32 inmem=0 levels=4 detect=1 tblsz=2097152 basesz=10485760 comp=0 memsz=1048576 vlogpct=%d", pick(rng, 99, 90, 50))}
	small := 300 + rng.Intn(900)
	nA := 200 + rng.Intn(900)
	ops = append(ops, "begin 1 1 0")
	for i := 0; i < nA; i++ {
		v := make([]byte, small)
		rng.Read(v)
		ops = append(ops, fmt.Sprintf("set 1 %s 0 0 0 %s 0", hx([]byte(fmt.Sprintf("a%05d", i))), hx(v)))
	}
	id := 2
	big := small*2 + rng.Intn(4000)
	for i := 0; i < 60+rng.Intn(200); i++ {
		ops = append(ops, fmt.Sprintf("begin %d 1 0", id))
		for j := 0; j < 1+rng.Intn(4); j++ {
			v := make([]byte, big)
			rng.Read(v)
			ops = append(ops, fmt.Sprintf("set %d %s 0 0 0 %s 0", id, hx([]byte(fmt.Sprintf("b%05d_%d", i, j))), hx(v)))
		}
		ops = append(ops, fmt.Sprintf("commit %d 0", id))
		id++
	}
	ops = append(ops, fmt.Sprintf("waitthr %d", small), "commit 1 0")
	ops = append(ops, fmt.Sprintf("begin %d 0 0", id), fmt.Sprintf("get %d %s", id, hx([]byte("a00000"))), fmt.Sprintf("discard %d", id))
	return ops
}

func genMvccSession(rng *rand.Rand, st *Stats) []string {
	if params["mode"] == "pct" {
		return genPctSession(rng, st)
	}
	managed := rng.Intn(3) == 0
	if params["managed"] != "" {
		managed = params["managed"] == "1"
	}
	keep := pick(rng, 1, 1, 2, 3, 1000)
	thr := pick(rng, 16, 16, 64, 100000)
	levels := pick(rng, 3, 4, 5, 7)
	inmem := rng.Intn(6) == 0
	if params["inmem"] != "" {
		inmem = params["inmem"] == "1"
	}
	tblsz := pick(rng, 2<<20, 2<<20, 2048, 600)
	basesz := pick(rng, 10<<20, 4096, 1024)
	comp := pick(rng, 0, 0, 1, 2)
	memsz := pick(rng, 1<<20, 1<<20, 1<<20, 65536)
	if memsz == 65536 {
		// small memtables: natural rotations inside commits, L0 tables that count as "big"
		// (>= 2*MemTableSize) after an L0->L0 merge; ValueThreshold must stay below 15% of it
		thr = pick(rng, 16, 64, 8192)
		comp = 0
	}
	var ops []string
	vmaxG := 0
	if !inmem && rng.Intn(3) == 0 {
		vmaxG = pick(rng, 3, 5, 8) // frequent value-log rotations (also in the middle of a write batch)
	}
	// banned namespaces (C28): one session in seven runs with NamespaceOffset >= 0 and keys that carry
	// a namespace (8 bytes at the offset, big endian) followed by 0..2 more bytes, or are shorter
	nsoff := -1
	if rng.Intn(7) == 0 {
		nsoff = pick(rng, 0, 1, 2)
	}
	if params["nsoff"] != "" {
		nsoff, _ = strconv.Atoi(params["nsoff"])
	}
	nsArg := ""
	if nsoff >= 0 {
		nsArg = fmt.Sprintf(" nsoff=%d", nsoff)
		st.Inc("session:namespaces")
	}
	ops = append(ops, fmt.Sprintf("reset managed=%d keep=%d thr=%d inmem=%d levels=%d detect=1 tblsz=%d basesz=%d comp=%d memsz=%d vmax=%d%s",
		b2i(managed), keep, thr, b2i(inmem), levels, tblsz, basesz, comp, memsz, vmaxG, nsArg))
	st.Inc(fmt.Sprintf("session:managed=%v,inmem=%v,keep=%d", managed, inmem, keep))
	nkeys := 2 + rng.Intn(7)
	var keys [][]byte
	for len(keys) < nkeys {
		k := genUserKey(rng, 1, 3)
		if nsoff >= 0 && rng.Intn(5) != 0 {
			k = append([]byte("pq")[:nsoff:nsoff], 0, 0, 0, 0, 0, 0, 0, byte(1+rng.Intn(3)))
			if rng.Intn(6) != 0 {
				k = append(k, genUserKey(rng, 1, 2)...) // else: the namespace field ends the key (never banned)
			}
		}
		keys = append(keys, k)
	}
	bannedG := map[int]bool{}
	// C33: one session in sixty lets an entry expire while the database is running (a two-second
	// TTL relative to the wall clock at execution, then a wait for the clock to pass it)
	// C11: one normal-mode session in twenty ends a history with the NEWEST versions being entries
	// that are already expired, kept by a compaction (an open reader holds the discard watermark
	// down, so they are written as stale keys), then Close + Open and a new commit
	expMaxSession := !managed && !inmem && rng.Intn(20) == 0
	ttlSession := !inmem && rng.Intn(60) == 0
	if params["ttl"] != "" {
		ttlSession = params["ttl"] == "1"
	}
	now := uint64(time.Now().Unix())
	nextID := 1
	var open []int
	upd := map[int]bool{}
	cts := uint64(1)
	disc := uint64(0)
	nops := 20 + rng.Intn(50)
	genVal := func() []byte {
		var n int
		switch rng.Intn(6) {
		case 0:
			n = 0
		case 1:
			n = thr - 1
		case 2:
			n = thr
		case 3:
			n = thr + 1
		default:
			n = rng.Intn(40)
		}
		if n > 200 {
			n = rng.Intn(200)
		}
		if n < 0 {
			n = 0
		}
		if inmem && n > thr && rng.Intn(4) != 0 {
			n = thr // memory mode rejects values above the threshold; keep most of them acceptable
		}
		v := make([]byte, n)
		rng.Read(v)
		return v
	}
	keyMax := map[string]uint64{}   // managed mode: highest version (possibly) written per key
	txnKeys := map[int][]string{} // keys set by each generated transaction
	for i := 0; i < nops; i++ {
		r := rng.Intn(100)
		switch {
		case (nsoff >= 0 && rng.Intn(10) == 0) || (nsoff < 0 && rng.Intn(400) == 0):
			// BanNamespace: from now on Set / Delete / Get of the namespace's keys answer ErrBannedKey
			// and iterators hide them (ErrNamespaceMode when namespaces are off)
			ns := pick(rng, 1, 2, 3, 3, 9)
			if !bannedG[ns] {
				bannedG[ns] = true
				ops = append(ops, fmt.Sprintf("ban %d", ns))
				st.Inc("ban")
			}
		case r < 1 && len(keys) >= 3:
			// drop scenario: everything compacted to a level >= 1, then DropPrefix of the smallest
			// and the biggest key (a table whose two ends carry different dropped prefixes)
			for _, id := range open {
				ops = append(ops, fmt.Sprintf("discard %d", id))
			}
			open = nil
			rts := uint64(0)
			if managed {
				rts = math.MaxUint64
			}
			if rng.Intn(2) == 0 {
				// variant: a base-level table [w..y]; two L0 tables with DISJOINT ranges, [a..c] (older)
				// and [x..z] (newer, overlapping the base table); DropPrefix must compact ALL of L0
				// together with every base table they overlap
				st.Inc("scenario_drop_disjoint_l0")
				groups := [][][]byte{{{0x77}, {0x78}, {0x79}}, {{0x61}, {0x62}, {0x63}}, {{0x78}, {0x7a}}}
				for gi, g := range groups {
					ops = append(ops, fmt.Sprintf("begin %d 1 %d", nextID, rts))
					for _, k := range g {
						ops = append(ops, fmt.Sprintf("set %d %s 0 %d 0 %s 0", nextID, hx(k), gi+1, hx(genVal())))
					}
					c := uint64(0)
					if managed {
						cts++
						c = cts
						for _, k := range g {
							keyMax[string(k)] = c
						}
					}
					ops = append(ops, fmt.Sprintf("commit %d %d", nextID, c), "flush")
					nextID++
					if gi == 0 {
						ops = append(ops, "compact this=0 id=1 adj=1.5")
					}
				}
				ops = append(ops, "dropprefix "+hx(pick(rng, []byte{0x61}, []byte{0x62}, []byte{0x7a})))
				continue
			}
			ops = append(ops, fmt.Sprintf("begin %d 1 %d", nextID, rts))
			sk := append([][]byte{}, keys...)
			sort.Slice(sk, func(a, b int) bool { return bytes.Compare(sk[a], sk[b]) < 0 })
			for _, k := range sk {
				ops = append(ops, fmt.Sprintf("set %d %s 0 1 0 %s 0", nextID, hx(k), hx(genVal())))
			}
			c := uint64(0)
			if managed {
				cts++
				c = cts
				for _, k := range sk {
					keyMax[string(k)] = c
				}
			}
			ops = append(ops, fmt.Sprintf("commit %d %d", nextID, c), "flush", "compact this=0 id=1 adj=1.5")
			nextID++
			ops = append(ops, fmt.Sprintf("dropprefix %s %s", hx(sk[0]), hx(sk[len(sk)-1])))
		case r < 2:
			// split scenario: many small tables on the base level, then new versions (or deletes)
			// of every key in one L0 table: the L0->Lbase compaction is split into sub-compactions
			// whose boundaries fall on bottom-table boundaries
			rts := uint64(0)
			if managed {
				rts = math.MaxUint64
			}
			var wk [][]byte
			for j := 0; j < 10; j++ {
				wk = append(wk, []byte{0x70, byte(0x30 + j)})
			}
			for round := 0; round < 2; round++ {
				for g := 0; g < len(wk); g += 2 {
					ops = append(ops, fmt.Sprintf("begin %d 1 %d", nextID, rts))
					for _, k := range wk[g : g+2] {
						v := make([]byte, 300)
						rng.Read(v)
						if round == 1 && rng.Intn(2) == 0 {
							ops = append(ops, fmt.Sprintf("set %d %s 1 0 0 - 0", nextID, hx(k)))
						} else {
							ops = append(ops, fmt.Sprintf("set %d %s 0 2 0 %s 0", nextID, hx(k), hx(v)))
						}
					}
					c := uint64(0)
					if managed {
						cts++
						c = cts
						for _, k := range wk[g : g+2] {
							keyMax[string(k)] = c
						}
					}
					ops = append(ops, fmt.Sprintf("commit %d %d", nextID, c))
					nextID++
					if round == 0 {
						ops = append(ops, "flush", "compact this=0 id=1 adj=1.5")
					}
				}
				if round == 0 {
					// several base-level tables whose MaxVersion grows with the key: iterators with a
					// Prefix AND SinceTs pick a sub-range of the level and filter it by MaxVersion; the
					// level itself must be untouched for every later scan and Get
					n := cts
					if !managed {
						n = 0
						for _, o := range ops {
							if strings.HasPrefix(o, "commit ") {
								n++
							}
						}
					}
					rid := nextID
					nextID++
					ops = append(ops, fmt.Sprintf("begin %d 0 %d", rid, rts))
					for sv := int64(n) - 8; sv < int64(n); sv++ {
						if sv <= 0 {
							continue
						}
						ops = append(ops, fmt.Sprintf("iter %d rev=0 all=0 prefetch=0 prefix=70 seek=rewind since=%d", rid, sv),
							fmt.Sprintf("iter %d rev=%d all=0 prefetch=0 seek=rewind", rid, rng.Intn(2)),
							fmt.Sprintf("get %d %s", rid, hx(wk[rng.Intn(len(wk))])))
					}
					ops = append(ops, fmt.Sprintf("discard %d", rid))
					st.Inc("scenario_prefix_since_over_tables")
				}
				if round == 1 {
					for _, id := range open {
						ops = append(ops, fmt.Sprintf("discard %d", id))
					}
					open = nil
					ops = append(ops, "flush", "compact this=0 id=1 adj=1.5")
				}
			}
		case r < 14 || len(open) == 0:
			if len(open) >= 4 {
				continue
			}
			u := rng.Intn(4) != 0
			rts := uint64(0)
			if managed {
				switch rng.Intn(3) {
				case 0:
					rts = math.MaxUint64
				case 1:
					rts = cts
				default:
					rts = uint64(rng.Intn(int(cts) + 2))
				}
			}
			ops = append(ops, fmt.Sprintf("begin %d %d %d", nextID, b2i(u), rts))
			open = append(open, nextID)
			upd[nextID] = u
			nextID++
		case r < 42:
			id := open[rng.Intn(len(open))]
			k := keys[rng.Intn(len(keys))]
			meta := 0
			switch rng.Intn(10) {
			case 0, 1:
				meta = 1
			case 2:
				meta = 4
			case 3:
				meta = 8 // merge-operator operand
			}
			exp := uint64(0)
			switch rng.Intn(8) {
			case 0:
				exp = now - 1000
			case 1:
				exp = now + 100000
			}
			um := rng.Intn(256)
			v := genVal()
			if meta == 1 {
				um, exp, v = 0, 0, nil
			}
			if rng.Intn(40) == 0 {
				k = pick(rng, []byte{}, []byte("!badger!x"), []byte("!badger!"))
			}
			if rng.Intn(500) == 0 {
				// C28: the key size limit (65000 accepted, 65001 rejected)
				k = bytes.Repeat([]byte{0x4b}, pick(rng, 64999, 65000, 65001, 65010))
				k[len(k)-1] = byte(rng.Intn(256))
				st.Inc("set_key_at_size_limit")
			}
			if meta != 1 && rng.Intn(700) == 0 {
				// C28: the value size limit (ValueLogFileSize = 1 MiB here: that many bytes pass the
				// validation and then meet the batch limits, one more is rejected outright)
				v = make([]byte, pick(rng, 1<<20, 1<<20+1))
				st.Inc("set_value_at_size_limit")
			}
			ops = append(ops, fmt.Sprintf("set %d %s %d %d %d %s 0", id, hx(k), meta, um, exp, hx(v)))
			txnKeys[id] = append(txnKeys[id], string(k))
		case r < 57:
			id := open[rng.Intn(len(open))]
			g := "get"
			if rng.Intn(12) == 0 {
				g = "xget" // the same Get while a memtable flush runs
				st.Inc("read_across_flush")
			}
			ops = append(ops, fmt.Sprintf("%s %d %s", g, id, hx(keys[rng.Intn(len(keys))])))
		case r < 70:
			j := rng.Intn(len(open))
			id := open[j]
			c := uint64(0)
			if managed {
				// commit timestamps are the caller's: mostly increasing, sometimes below earlier
				// ones (never below the discard timestamp, never at or below a version this
				// transaction's keys already have: badger's documented per-key contract)
				low := disc + 1
				for _, k := range txnKeys[id] {
					if keyMax[k]+1 > low {
						low = keyMax[k] + 1
					}
				}
				below := false
				if len(txnKeys[id]) > 0 && rng.Intn(30) == 0 {
					// the API also allows a commit BELOW a version the key already has (finding F27)
					if km := keyMax[txnKeys[id][0]]; km > disc+1 {
						c = disc + 1 + uint64(rng.Intn(int(km-disc-1)))
						below = true
						st.Inc("managed_commit_below_existing")
					}
				}
				if below {
				} else if low < cts && rng.Intn(3) == 0 {
					c = low + uint64(rng.Intn(int(cts-low)))
				} else {
					cts++
					c = cts
				}
				for _, k := range txnKeys[id] {
					if c > keyMax[k] {
						keyMax[k] = c
					}
				}
			}
			ops = append(ops, fmt.Sprintf("commit %d %d", id, c))
			open = append(open[:j], open[j+1:]...)
		case r < 71 && vmaxG > 0 && rng.Intn(2) == 0:
			// value-log rotation in the middle of ONE write batch: fresh transactions with values that
			// go to the value log, more entries than ValueLogMaxEntries, committed as a batch; every
			// value must read back afterwards (the pointers must name the file the value went to)
			nb := vmaxG + 2 + rng.Intn(3)
			var items []string
			var bkeys [][]byte
			for j := 0; j < nb; j++ {
				rts := uint64(0)
				if managed {
					rts = math.MaxUint64
				}
				ops = append(ops, fmt.Sprintf("begin %d 1 %d", nextID, rts))
				k := []byte{0x76, byte(0x30 + j%10), byte(0x30 + j/10)}
				v := make([]byte, thr+8+rng.Intn(40))
				rng.Read(v)
				if thr > 1000 {
					v = v[:24] // huge thresholds: the value stays inline (nothing to rotate), keep it small
				}
				ops = append(ops, fmt.Sprintf("set %d %s 0 %d 0 %s 0", nextID, hx(k), j+1, hx(v)))
				bkeys = append(bkeys, k)
				c := uint64(0)
				if managed {
					cts++
					c = cts
					keyMax[string(k)] = c
				}
				items = append(items, fmt.Sprintf("%d:%d", nextID, c))
				nextID++
			}
			ops = append(ops, "batchcommit "+strings.Join(items, " "))
			rid := nextID
			nextID++
			rts := uint64(0)
			if managed {
				rts = math.MaxUint64
			}
			ops = append(ops, fmt.Sprintf("begin %d 0 %d", rid, rts))
			for _, k := range bkeys {
				ops = append(ops, fmt.Sprintf("get %d %s", rid, hx(k)))
			}
			ops = append(ops, fmt.Sprintf("iter %d rev=0 all=0 prefetch=1 prefix=76 seek=rewind", rid), fmt.Sprintf("discard %d", rid))
			st.Inc("scenario_vlog_rotation_in_batch")
		case r < 71 && len(open) >= 2:
			// several commits written by one writeRequests / valueLog.write call
			nb := 2 + rng.Intn(3)
			if nb > len(open) {
				nb = len(open)
			}
			perm := rng.Perm(len(open))[:nb]
			var items []string
			gone := map[int]bool{}
			for _, j := range perm {
				id := open[j]
				gone[id] = true
				c := uint64(0)
				if managed {
					cts++
					c = cts
					for _, k := range txnKeys[id] {
						if c > keyMax[k] {
							keyMax[k] = c
						}
					}
				}
				items = append(items, fmt.Sprintf("%d:%d", id, c))
			}
			ops = append(ops, "batchcommit "+strings.Join(items, " "))
			var keep []int
			for _, id := range open {
				if !gone[id] {
					keep = append(keep, id)
				}
			}
			open = keep
			st.Inc("batchcommit")
		case r < 73:
			j := rng.Intn(len(open))
			ops = append(ops, fmt.Sprintf("discard %d", open[j]))
			open = append(open[:j], open[j+1:]...)
		case r < 82:
			id := open[rng.Intn(len(open))]
			o := fmt.Sprintf("iter %d rev=%d all=%d prefetch=%d", id, rng.Intn(2), b2i(rng.Intn(4) == 0), rng.Intn(2))
			if rng.Intn(3) == 0 {
				o += " prefix=" + hx(genUserKey(rng, 1, 2))
			}
			if rng.Intn(3) == 0 {
				sk := genUserKey(rng, 1, 3)
				switch rng.Intn(4) {
				case 0:
					// land exactly on a key this transaction has a pending write for
					if pk := txnKeys[id]; len(pk) > 0 {
						sk = []byte(pk[rng.Intn(len(pk))])
						st.Inc("iter_seek_on_pending_key")
					}
				case 1:
					sk = keys[rng.Intn(len(keys))] // exactly on a key of the pool
				}
				if len(sk) == 0 {
					sk = genUserKey(rng, 1, 3)
				}
				if i := strings.Index(o, " prefix="); i >= 0 && rng.Intn(3) != 0 {
					// with Prefix set, seek inside the prefix (seeks outside it depend on which
					// tables the prefix-based table picking leaves out; not part of the property)
					sk = append(unhx(o[i+8:]), sk[:rng.Intn(len(sk))]...)
				}
				o += " seek=" + hx(sk)
			} else {
				o += " seek=rewind"
			}
			if rng.Intn(5) == 0 {
				o += fmt.Sprintf(" since=%d", rng.Intn(int(cts)+3))
			}
			if rng.Intn(8) == 0 {
				o = fmt.Sprintf("iter %d iskey=1 prefix=%s seek=rewind rev=%d", id, hx(keys[rng.Intn(len(keys))]), b2i(rng.Intn(4) == 0))
			}
			if rng.Intn(8) == 0 {
				o = "x" + o // the iterator is created while a memtable flush runs
				st.Inc("read_across_flush")
			}
			ops = append(ops, o)
		case r < 90:
			ops = append(ops, "flush")
		case r < 96:
			adj := pick(rng, "1.5", "1.5", "0.5", "0")
			if rng.Intn(3) == 0 {
				o := fmt.Sprintf("compact this=0 id=%d adj=%s", rng.Intn(2), adj)
				if rng.Intn(4) == 0 {
					o += " backdate=0" // the tables flushed since the last compaction op count as young
				}
				ops = append(ops, o)
			} else {
				ops = append(ops, fmt.Sprintf("compact pick=%d id=%d adj=%s", rng.Intn(16), rng.Intn(2), adj))
			}
		case r < 98:
			// burst: several small committed transactions, each flushed to its own L0 table
			// (so that L0->L0 and multi-table L0->Lbase picks become reachable)
			nb := 2 + rng.Intn(5)
			for j := 0; j < nb; j++ {
				u := 1
				rts := uint64(0)
				if managed {
					rts = math.MaxUint64
				}
				ops = append(ops, fmt.Sprintf("begin %d %d %d", nextID, u, rts))
				for x := 0; x < 1+rng.Intn(3); x++ {
					k := keys[rng.Intn(len(keys))]
					meta, um, exp, v := 0, rng.Intn(256), uint64(0), genVal()
					switch rng.Intn(6) {
					case 0:
						meta, um, v = 1, 0, nil
					case 1:
						exp = now - 1000
					case 2:
						meta = 4
					}
					ops = append(ops, fmt.Sprintf("set %d %s %d %d %d %s 0", nextID, hx(k), meta, um, exp, hx(v)))
					txnKeys[nextID] = append(txnKeys[nextID], string(k))
				}
				c := uint64(0)
				if managed {
					cts++
					c = cts
					for _, k := range txnKeys[nextID] {
						keyMax[k] = c
					}
				}
				ops = append(ops, fmt.Sprintf("commit %d %d", nextID, c))
				nextID++
				if rng.Intn(4) != 0 {
					ops = append(ops, "flush")
				}
			}
			if rng.Intn(2) == 0 {
				ops = append(ops, fmt.Sprintf("compact this=0 id=0 adj=%s", pick(rng, "0.5", "0.5", "1.5")))
			}
		case expMaxSession && i > nops/2:
			expMaxSession = false
			st.Inc("scenario_expired_newest_then_reopen")
			rd := nextID
			nextID++
			ops = append(ops, fmt.Sprintf("begin %d 0 0", rd), fmt.Sprintf("begin %d 1 0", nextID))
			for j := 0; j < 1+rng.Intn(3); j++ {
				ops = append(ops, fmt.Sprintf("set %d %s 0 %d %d %s 0", nextID, hx(keys[rng.Intn(len(keys))]), rng.Intn(256), now-1000, hx(genVal())))
			}
			ops = append(ops, fmt.Sprintf("commit %d 0", nextID), "flush",
				fmt.Sprintf("compact this=0 id=0 adj=%s", pick(rng, "0.5", "1.5")))
			nextID++
			open = nil
			ops = append(ops, "reopen")
			k := keys[rng.Intn(len(keys))]
			ops = append(ops, fmt.Sprintf("begin %d 1 0", nextID), fmt.Sprintf("set %d %s 0 1 0 %s 0", nextID, hx(k), hx(genVal())),
				fmt.Sprintf("commit %d 0", nextID))
			nextID++
			ops = append(ops, fmt.Sprintf("begin %d 0 0", nextID), fmt.Sprintf("get %d %s", nextID, hx(k)), fmt.Sprintf("discard %d", nextID))
			nextID++
		case ttlSession && i > nops/3:
			ttlSession = false
			st.Inc("scenario_ttl_crossing")
			rts := uint64(0)
			if managed {
				rts = math.MaxUint64
			}
			k := keys[rng.Intn(len(keys))]
			k2 := append([]byte("tt"), byte(rng.Intn(3)))
			ops = append(ops, fmt.Sprintf("begin %d 1 %d", nextID, rts),
				fmt.Sprintf("set %d %s 0 %d +4 %s 0", nextID, hx(k), rng.Intn(256), hx(genVal())),
				fmt.Sprintf("set %d %s 0 %d +4 %s 0", nextID, hx(k2), rng.Intn(256), hx(genVal())))
			c := uint64(0)
			if managed {
				cts++
				c = cts
				keyMax[string(k)] = c
				keyMax[string(k2)] = c
			}
			ops = append(ops, fmt.Sprintf("commit %d %d", nextID, c))
			nextID++
			if rng.Intn(2) == 0 {
				ops = append(ops, "flush")
			}
			rd := nextID
			nextID++
			ops = append(ops, fmt.Sprintf("begin %d 0 %d", rd, rts), fmt.Sprintf("get %d %s", rd, hx(k)),
				fmt.Sprintf("iter %d rev=%d all=0 prefetch=1 seek=rewind", rd, rng.Intn(2)),
				"sleepuntil",
				fmt.Sprintf("get %d %s", rd, hx(k)), fmt.Sprintf("get %d %s", rd, hx(k2)),
				fmt.Sprintf("iter %d rev=%d all=%d prefetch=%d seek=rewind", rd, rng.Intn(2), rng.Intn(2), rng.Intn(2)),
				fmt.Sprintf("discard %d", rd))
			if rng.Intn(2) == 0 {
				ops = append(ops, "flush", fmt.Sprintf("compact this=0 id=0 adj=%s", pick(rng, "0.5", "1.5")))
			}
		case r < 99 && memsz == 65536 && rng.Intn(4) == 0:
			// C28: one transaction driven to the batch limits (maxBatchCount is about a hundred with
			// this memtable size) by overwrites of a few keys and by distinct keys; sets past the
			// limit answer ErrTxnTooBig (the model counts exactly like Txn.checkSize) and the
			// commit of the accepted ones must succeed
			st.Inc("scenario_txn_to_the_limit")
			rts := uint64(0)
			if managed {
				rts = math.MaxUint64
			}
			ops = append(ops, fmt.Sprintf("begin %d 1 %d", nextID, rts))
			nk := pick(rng, 1, 2, 3, 200)
			ns := 90 + rng.Intn(120)
			var touched []string
			for j := 0; j < ns; j++ {
				k := append([]byte("yy"), byte(j%nk), byte(j%nk>>8))
				v := make([]byte, rng.Intn(12))
				rng.Read(v)
				ops = append(ops, fmt.Sprintf("set %d %s 0 0 0 %s 0", nextID, hx(k), hx(v)))
				if j < nk {
					touched = append(touched, string(k))
				}
			}
			c := uint64(0)
			if managed {
				cts++
				c = cts
				for _, k := range touched {
					keyMax[k] = c
				}
			}
			ops = append(ops, fmt.Sprintf("commit %d %d", nextID, c))
			nextID++
		case r < 99 && memsz == 65536 && rng.Intn(2) == 0:
			// filler: big values so that tables grow past the "already big" limit of L0->L0
			nb := 6 + rng.Intn(20)
			for j := 0; j < nb; j++ {
				rts := uint64(0)
				if managed {
					rts = math.MaxUint64
				}
				ops = append(ops, fmt.Sprintf("begin %d 1 %d", nextID, rts))
				k := append([]byte("zz"), byte(rng.Intn(4)))
				if rng.Intn(3) == 0 {
					k = keys[rng.Intn(len(keys))]
				}
				sz := 3000 + rng.Intn(4500)
				if inmem && sz >= thr {
					sz = thr - 1
				}
				v := make([]byte, sz)
				rng.Read(v)
				ops = append(ops, fmt.Sprintf("set %d %s 0 0 0 %s 0", nextID, hx(k), hx(v)))
				c := uint64(0)
				if managed {
					cts++
					c = cts
					keyMax[string(k)] = c
				}
				ops = append(ops, fmt.Sprintf("commit %d %d", nextID, c))
				nextID++
				if rng.Intn(5) == 0 {
					ops = append(ops, "flush")
				}
			}
			ops = append(ops, fmt.Sprintf("compact this=0 id=0 adj=%s", pick(rng, "0.5", "0.5", "1.5")))
		case r < 99:
			if rng.Intn(3) == 0 {
				// DropPrefix / DropAll need no open transaction to be meaningful; close them so
				// that the discard watermark can advance past the dropped data
				for _, id := range open {
					ops = append(ops, fmt.Sprintf("discard %d", id))
				}
				open = nil
				if rng.Intn(5) == 0 {
					ops = append(ops, "dropall")
				} else {
					k := keys[rng.Intn(len(keys))]
					p := k[:1+rng.Intn(len(k))]
					o := "dropprefix " + hx(p)
					if rng.Intn(4) == 0 {
						k2 := keys[rng.Intn(len(keys))]
						o += " " + hx(k2[:1+rng.Intn(len(k2))])
					}
					ops = append(ops, o)
				}
			} else if !inmem && rng.Intn(2) == 0 {
				// Close + Open in the middle of the history (no transaction survives it)
				open = nil
				ops = append(ops, "reopen")
				st.Inc("reopen")
			}
		case r < 100 && !managed:
			// C02: every key an update transaction reads THROUGH AN ITERATOR is a conflict key, including the
			// keys beyond the iterator's first items (the Item objects of later positions are recycled ones,
			// seed C02k): T1 scans n keys, T2 overwrites one of the LATER ones and commits, T1 writes
			// elsewhere and commits: the commit must be rejected (the model decides; the oracle re-checks).
			n := 3 + rng.Intn(6)
			if memsz > 65536 && rng.Intn(4) == 0 {
				n = 101 + rng.Intn(20) // beyond the default PrefetchSize
			}
			wid := nextID
			nextID++
			ops = append(ops, fmt.Sprintf("begin %d 1 0", wid))
			for i := 0; i < n; i++ {
				ops = append(ops, fmt.Sprintf("set %d %s 0 0 0 %s 0", wid, hx([]byte(fmt.Sprintf("q%04d", i))), hx([]byte("q0"))))
			}
			ops = append(ops, fmt.Sprintf("commit %d 0", wid))
			t1 := nextID
			t2 := nextID + 1
			nextID += 2
			rev := rng.Intn(2)
			ops = append(ops, fmt.Sprintf("begin %d 1 0", t1),
				fmt.Sprintf("iter %d rev=%d all=0 prefetch=%d prefix=71 seek=%s", t1, rev, rng.Intn(2), []string{"rewind", "71ff"}[rev]))
			victim := n - 1 - rng.Intn(2) // late in a forward scan
			if rev == 1 {
				victim = rng.Intn(2) // late in a reverse scan
			}
			ops = append(ops, fmt.Sprintf("begin %d 1 0", t2),
				fmt.Sprintf("set %d %s 0 0 0 %s 0", t2, hx([]byte(fmt.Sprintf("q%04d", victim))), hx([]byte("q1"))),
				fmt.Sprintf("commit %d 0", t2),
				fmt.Sprintf("set %d %s 0 0 0 %s 0", t1, hx([]byte("qsum")), hx([]byte("s"))),
				fmt.Sprintf("commit %d 0", t1))
			st.Inc("scenario_iter_read_conflict")
		default:
			if managed {
				// the discard timestamp may only be raised (the oracle asserts it) and commits
				// must stay above it
				disc += uint64(rng.Intn(int(cts-disc) + 1))
				ops = append(ops, fmt.Sprintf("setdiscard %d", disc))
			}
		}
	}
	for _, id := range open {
		ops = append(ops, fmt.Sprintf("discard %d", id))
	}
	return ops
}
