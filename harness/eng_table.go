package main

// Engine "table" (property C18): drives the real table.Builder / OpenInMemoryTable /
// CreateTable+OpenTable / Iterator / ConcatIterator and prints one canonical line per op.
// The Lean side is lean/BadgerModel/Driver/Table.lean (exe bmd_table, engine "table").
//
// Session script:
//   reset <blockSize> <comp 0|1|2> <enc 0|1> <bloom 0|1> <chkMode 0..3> <file 0|1>
//   add|addstale <key> <meta> <usermeta> <expiresAt> <value> <vpLen>
//   build                       -> table #k of the session (k = 0,1,…)
//   verify <k> | has <k> <userkey>
//   iter <k> <reversed 0|1>     -> new table iterator
//   rewind 0|1 | seek <key> | seekprev <key> | next | prev      (internal, bidirectional)
//   arewind | aseek <key> | anext                                 (y.Iterator API, REVERSED flag)
//   concat <reversed> | crewind | cseek <key> | cnext             (ConcatIterator over all tables)

import (
	"bytes"
	"fmt"
	"io"
	"math/rand"
	"os"
	"path/filepath"
	"sort"
	"strings"
	"sync/atomic"

	"github.com/dgraph-io/badger/v4/fb"
	"github.com/dgraph-io/badger/v4/options"
	"github.com/dgraph-io/badger/v4/pb"
	"github.com/dgraph-io/badger/v4/table"
	"github.com/dgraph-io/badger/v4/y"
	"github.com/dgraph-io/ristretto/v2"
)

func init() {
	engines["table"] = &Engine{Gen: genTable, Exec: execTable}
}

var tblIDCounter atomic.Uint64

var tblIndexCache *ristretto.Cache[uint64, *fb.TableIndex]

func tblCache() *ristretto.Cache[uint64, *fb.TableIndex] {
	if tblIndexCache == nil {
		c, err := ristretto.NewCache[uint64, *fb.TableIndex](&ristretto.Config[uint64, *fb.TableIndex]{
			NumCounters: 1000, MaxCost: 1 << 24, BufferItems: 64,
		})
		if err != nil {
			panic(err)
		}
		tblIndexCache = c
	}
	return tblIndexCache
}

var tblDataKey = &pb.DataKey{KeyId: 7, Data: []byte("0123456789abcdef0123456789abcdef")}

type tEntry struct {
	key []byte
	vs  y.ValueStruct
}

type tTable struct {
	t       *table.Table
	entries []tEntry
	sorted  bool
	users   map[string]bool
	file    bool
}

type tSession struct {
	opts       table.Options
	raw        bool
	file       bool
	b          *table.Builder
	bDead      bool
	cur        []tEntry
	tables     []*tTable
	it         *table.Iterator
	itTab      int
	itPos      int // index into entries when known; posUnknown otherwise
	itReversed bool
	cit        *table.ConcatIterator
	citRev     bool
	citPos     int
	citOK      bool // tables are individually sorted and globally increasing
	citAll     []tEntry
}

const posUnknown = -1 << 30

func showB(b []byte) string {
	if len(b) <= 40 {
		return hx(b)
	}
	h := uint64(14695981039346656037)
	for _, x := range b {
		h ^= uint64(x)
		h *= 1099511628211
	}
	return fmt.Sprintf("#%d:%d", len(b), h)
}

func showEntry(k []byte, v y.ValueStruct) string {
	return fmt.Sprintf("%s %d %d %d %s", showB(k), v.Meta, v.UserMeta, v.ExpiresAt, showB(v.Value))
}

func (s *tSession) close() {
	defer func() { _ = recover() }()
	if s.it != nil {
		s.it.Close()
		s.it = nil
	}
	if s.cit != nil {
		s.cit.Close()
		s.cit = nil
	}
	if s.b != nil {
		s.b.Close()
		s.b = nil
	}
	for _, t := range s.tables {
		if t.file {
			_ = t.t.DecrRef() // deletes the file
		}
	}
	s.tables = nil
}

func strictlySorted(es []tEntry) bool {
	for i := 1; i < len(es); i++ {
		if len(es[i-1].key) < 8 || len(es[i].key) < 8 || y.CompareKeys(es[i-1].key, es[i].key) >= 0 {
			return false
		}
	}
	return len(es) == 0 || len(es[0].key) >= 8
}

// lower bound: first index with key >= k; upper: last index with key <= k (or -1).
func lowerBound(es []tEntry, k []byte) int {
	for i := range es {
		if y.CompareKeys(es[i].key, k) >= 0 {
			return i
		}
	}
	return len(es)
}

func lastLE(es []tEntry, k []byte) int {
	r := -1
	for i := range es {
		if y.CompareKeys(es[i].key, k) <= 0 {
			r = i
		}
	}
	return r
}

func execTable(ops []string, st *Stats) ([]string, []string) {
	outs := make([]string, len(ops))
	var oracle []string
	s := &tSession{}
	scratch := os.Getenv("VERIF_SCRATCH")
	if scratch == "" {
		scratch = filepath.Join(os.TempDir(), "verif-table")
	}
	_ = os.MkdirAll(scratch, 0o755)
	fail := func(i int, msg string) {
		oracle = append(oracle, fmt.Sprintf("line %d: %s :: %s", i+1, trunc(ops[i]), msg))
	}
	for i, l := range ops {
		w := strings.Fields(l)
		if len(w) == 0 {
			outs[i] = "bad-op"
			continue
		}
		st.Inc("op:" + w[0])
		var orc string
		outs[i] = safely(func() string {
			o, oc := s.step(w, scratch, st)
			orc = oc
			return o
		})
		if outs[i] == "panic" {
			// a recovered panic leaves the object in an unknown state: retire it
			switch w[0] {
			case "rewind", "seek", "seekprev", "next", "prev", "arewind", "aseek", "anext":
				s.it = nil
			case "crewind", "cseek", "cnext":
				s.cit = nil
			case "add", "addstale", "build":
				s.bDead = true
			}
		}
		if orc != "" {
			fail(i, orc)
		}
	}
	s.close()
	return outs, oracle
}

func trunc(s string) string {
	if len(s) > 300 {
		return s[:300] + "…"
	}
	return s
}

func (s *tSession) newBuilder() {
	s.b = table.NewTableBuilder(s.opts)
	s.bDead = false
	s.cur = nil
}

func (s *tSession) step(w []string, scratch string, st *Stats) (string, string) {
	switch w[0] {
	case "reset":
		if len(w) != 7 {
			return "bad-op", ""
		}
		s.close()
		*s = tSession{}
		bs, comp, enc, bloom, chk, file := atou(w[1]), atou(w[2]), atou(w[3]), atou(w[4]), atou(w[5]), atou(w[6])
		s.opts = table.Options{
			BlockSize:            int(bs),
			TableSize:            1 << 16,
			ChkMode:              options.ChecksumVerificationMode(chk),
			Compression:          options.CompressionType(comp),
			ZSTDCompressionLevel: 1,
		}
		if bloom != 0 {
			s.opts.BloomFalsePositive = 0.01
		}
		if enc != 0 {
			s.opts.DataKey = tblDataKey
			s.opts.IndexCache = tblCache()
		}
		s.raw = comp == 0 && enc == 0
		s.file = file != 0
		s.newBuilder()
		return "ok", ""
	case "add", "addstale":
		if len(w) != 7 {
			return "bad-op", ""
		}
		if s.b == nil || s.bDead {
			return "dead", ""
		}
		k := unhx(w[1])
		vs := y.ValueStruct{Meta: byte(atou(w[2])), UserMeta: byte(atou(w[3])), ExpiresAt: atou(w[4]), Value: unhx(w[5])}
		vp := uint32(atou(w[6]))
		if len(k) > 65535 {
			// y.AssertTrue (log.Fatalf) may fire: never execute; protocol-level refusal.
			s.bDead = true
			return "fatal-long-key", ""
		}
		if w[0] == "add" {
			s.b.Add(k, vs, vp)
		} else {
			s.b.AddStaleKey(k, vs, vp)
		}
		s.cur = append(s.cur, tEntry{k, vs})
		return "ok", ""
	case "build":
		if s.b == nil || s.bDead {
			return "dead", ""
		}
		return s.build(scratch, st)
	case "verify":
		t := s.tab(w, 1)
		if t == nil {
			return "bad-op", ""
		}
		if err := t.t.VerifyChecksum(); err != nil {
			return "error", "[checksum] VerifyChecksum failed on a freshly built table: " + err.Error()
		}
		return "ok", ""
	case "has":
		t := s.tab(w, 1)
		if t == nil || len(w) != 3 {
			return "bad-op", ""
		}
		uk := unhx(w[2])
		r := t.t.DoesNotHave(y.Hash(uk))
		if s.opts.BloomFalsePositive == 0 {
			if r {
				return "true", "[bloom] DoesNotHave = true without a bloom filter"
			}
			return "false", ""
		}
		if t.users[string(uk)] {
			if r {
				return "true", "[bloom] DoesNotHave = true for a key that was added (false negative)"
			}
			return "false", ""
		}
		return "maybe", ""
	case "iter":
		t := s.tab(w, 1)
		if t == nil || len(w) != 3 {
			return "bad-op", ""
		}
		if s.it != nil {
			s.it.Close()
		}
		opt := 0
		if atou(w[2]) != 0 {
			opt = table.REVERSED
		}
		s.it = t.t.NewIterator(opt)
		s.itTab = int(atou(w[1]))
		s.itReversed = opt != 0
		s.itPos = posUnknown
		return "ok", ""
	case "rewind", "seek", "seekprev", "next", "prev", "arewind", "aseek", "anext":
		return s.iterOp(w)
	case "concat":
		if len(w) != 2 {
			return "bad-op", ""
		}
		if s.cit != nil {
			s.cit.Close()
		}
		var ts []*table.Table
		s.citAll = nil
		s.citOK = true
		for _, t := range s.tables {
			ts = append(ts, t.t)
			s.citAll = append(s.citAll, t.entries...)
			if !t.sorted {
				s.citOK = false
			}
		}
		if !strictlySorted(s.citAll) {
			s.citOK = false
		}
		s.citRev = atou(w[1]) != 0
		opt := 0
		if s.citRev {
			opt = table.REVERSED
		}
		s.cit = table.NewConcatIterator(ts, opt)
		s.citPos = posUnknown
		return "ok", ""
	case "crewind", "cseek", "cnext":
		return s.concatOp(w)
	}
	return "bad-op", ""
}

func (s *tSession) tab(w []string, i int) *tTable {
	if len(w) <= i {
		return nil
	}
	k := int(atou(w[i]))
	if k >= len(s.tables) {
		return nil
	}
	return s.tables[k]
}

func (s *tSession) build(scratch string, st *Stats) (string, string) {
	entries := s.cur
	if len(entries) == 0 {
		s.b.Close()
		s.newBuilder()
		return "empty", ""
	}
	id := tblIDCounter.Add(1)
	var t *table.Table
	var err error
	opts := s.opts
	if s.file {
		fname := table.NewFilename(id, scratch)
		_ = os.Remove(fname)
		t, err = table.CreateTable(fname, s.b)
	} else {
		data := s.b.Finish()
		t, err = table.OpenInMemoryTable(data, id, &opts)
	}
	s.b.Close()
	s.newBuilder()
	if err != nil {
		return "open-error", "[open] opening a freshly built table failed: " + err.Error()
	}
	tt := &tTable{t: t, entries: entries, sorted: strictlySorted(entries), users: map[string]bool{}, file: s.file}
	maxv := uint64(0)
	for _, e := range entries {
		tt.users[string(y.ParseKey(e.key))] = true
		if v := y.ParseTs(e.key); v > maxv {
			maxv = v
		}
	}
	s.tables = append(s.tables, tt)
	if s.it != nil {
		s.it.Close()
		s.it = nil
	}
	if s.cit != nil {
		s.cit.Close()
		s.cit = nil
	}
	blocks := t.VerifBlocks()
	var bases, ns, offs, digs []string
	for _, b := range blocks {
		bases = append(bases, showB(b.BaseKey))
		ns = append(ns, fmt.Sprint(b.NumEntries))
		offs = append(offs, fmt.Sprintf("%d:%d", b.Offset, b.Len))
		h := uint64(14695981039346656037)
		for _, x := range b.Raw {
			h ^= uint64(x)
			h *= 1099511628211
		}
		digs = append(digs, fmt.Sprintf("%d:%d", len(b.Raw), h))
	}
	st.Inc("blocks:" + sizeBucket(len(blocks)))
	st.Inc("entries:" + sizeBucket(len(entries)))
	out := fmt.Sprintf("ok nb=%d smallest=%s biggest=%s maxv=%d keys=%d usize=%d stale=%d bloom=%v base=%s n=%s",
		len(blocks), showB(t.Smallest()), showB(t.Biggest()), t.MaxVersion(), t.KeyCount(), t.UncompressedSize(),
		t.StaleDataSize(), t.BloomFilterSize() > 0, strings.Join(bases, ","), strings.Join(ns, ","))
	if s.raw {
		// OnDiskSize includes len(index buffer); IndexSize is that length for unencrypted tables.
		out += fmt.Sprintf(" ondisk=%d offs=%s blocks=%s", t.OnDiskSize()-uint32(t.IndexSize()), strings.Join(offs, ","), strings.Join(digs, ","))
	}
	// oracle: metadata (C18_meta)
	var orc string
	if !bytes.Equal(t.Smallest(), entries[0].key) {
		orc = "[meta-smallest] Smallest() != first added key"
	} else if tt.sorted && !bytes.Equal(t.Biggest(), entries[len(entries)-1].key) {
		orc = "[meta-biggest] Biggest() != last added key"
	} else if t.MaxVersion() != maxv {
		orc = fmt.Sprintf("[meta-maxversion] MaxVersion()=%d, max ParseTs=%d", t.MaxVersion(), maxv)
	} else if int(t.KeyCount()) != len(entries) {
		orc = fmt.Sprintf("[meta-keycount] KeyCount()=%d, added %d", t.KeyCount(), len(entries))
	}
	sum := 0
	for _, b := range blocks {
		sum += b.NumEntries
		if b.Err != nil && orc == "" {
			orc = "[block-read] Table.block failed on a freshly built table: " + b.Err.Error()
		}
	}
	if sum != len(entries) && orc == "" {
		orc = fmt.Sprintf("[block-entries] blocks hold %d entries, added %d", sum, len(entries))
	}
	return out, orc
}

func (s *tSession) iterOp(w []string) (string, string) {
	if s.it == nil {
		return "dead", ""
	}
	it := s.it
	tt := s.tables[s.itTab]
	es := tt.entries
	n := len(es)
	bpos, dataLen, _ := it.VerifState()
	// expected position (oracle) where the spec says something
	exp := posUnknown // posUnknown: no expectation; n or -1: invalid expected
	fwdNext := func() {
		if bpos < 0 && dataLen == 0 {
			panic("t.block(-1): y.AssertTruef would exit the process") // reported as "panic", not executed
		}
		it.VerifNext()
		if s.itPos >= 0 && s.itPos < n {
			exp = s.itPos + 1
		}
	}
	bwdPrev := func() {
		it.VerifPrev()
		if s.itPos >= 0 && s.itPos < n {
			exp = s.itPos - 1
		}
	}
	needKey := func() []byte { return unhx(w[1]) }
	switch w[0] {
	case "rewind", "seek", "seekprev", "aseek":
		if len(w) != 2 {
			return "bad-op", ""
		}
	default:
		if len(w) != 1 {
			return "bad-op", ""
		}
	}
	switch w[0] {
	case "rewind":
		if len(w) == 2 && w[1] == "0" {
			it.VerifSeekToFirst()
			exp = 0
		} else {
			it.VerifSeekToLast()
			exp = n - 1
		}
	case "seek":
		k := needKey()
		it.VerifSeek(k)
		if tt.sorted && len(k) >= 8 {
			exp = lowerBound(es, k)
		}
	case "seekprev":
		k := needKey()
		it.VerifSeekForPrev(k)
		if tt.sorted && len(k) >= 8 {
			exp = lastLE(es, k)
		}
	case "next":
		fwdNext()
	case "prev":
		bwdPrev()
	case "arewind":
		it.Rewind()
		if s.itRev() {
			exp = n - 1
		} else {
			exp = 0
		}
	case "aseek":
		k := needKey()
		it.Seek(k)
		if tt.sorted && len(k) >= 8 {
			if s.itRev() {
				exp = lastLE(es, k)
			} else {
				exp = lowerBound(es, k)
			}
		}
	case "anext":
		if s.itRev() {
			it.Next()
			if s.itPos >= 0 && s.itPos < n {
				exp = s.itPos - 1
			}
		} else {
			if bpos < 0 && dataLen == 0 {
				panic("t.block(-1)")
			}
			it.Next()
			if s.itPos >= 0 && s.itPos < n {
				exp = s.itPos + 1
			}
		}
	}
	_, _, err := it.VerifState()
	var out string
	valid := it.Valid()
	switch {
	case err == io.EOF:
		out = "invalid"
	case err != nil:
		out = "error"
	default:
		out = showEntry(it.Key(), it.Value())
	}
	var orc string
	if exp != posUnknown {
		if exp < 0 || exp >= n {
			if valid {
				orc = fmt.Sprintf("[iter-%s] expected the iterator to be invalid, got key %s", w[0], showB(it.Key()))
			}
			s.itPos = posUnknown
		} else {
			want := showEntry(es[exp].key, es[exp].vs)
			if !valid {
				orc = fmt.Sprintf("[iter-%s] expected entry #%d (%s), iterator is invalid (%v)", w[0], exp, trunc(want), err)
			} else if out != want {
				orc = fmt.Sprintf("[iter-%s] expected entry #%d (%s), got %s", w[0], exp, trunc(want), trunc(out))
			}
			s.itPos = exp
		}
	} else {
		s.itPos = posUnknown
	}
	return out, orc
}

func (s *tSession) itRev() bool {
	// the REVERSED flag of the current iterator: recorded at creation through the op stream
	return s.itReversed
}

func (s *tSession) concatOp(w []string) (string, string) {
	if s.cit == nil {
		return "dead", ""
	}
	c := s.cit
	es := s.citAll
	n := len(es)
	exp := posUnknown
	switch w[0] {
	case "crewind":
		c.Rewind()
		if n > 0 {
			if s.citRev {
				exp = n - 1
			} else {
				exp = 0
			}
		}
	case "cseek":
		if len(w) != 2 {
			return "bad-op", ""
		}
		k := unhx(w[1])
		c.Seek(k)
		if s.citOK && len(k) >= 8 {
			if s.citRev {
				exp = lastLE(es, k)
			} else {
				exp = lowerBound(es, k)
			}
		}
	case "cnext":
		c.Next()
		if s.citPos >= 0 && s.citPos < n {
			if s.citRev {
				exp = s.citPos - 1
			} else {
				exp = s.citPos + 1
			}
		}
	}
	isNil, err := c.VerifCur()
	var out string
	switch {
	case isNil:
		out = "invalid"
	case err == io.EOF:
		out = "invalid"
	case err != nil:
		out = "error"
	default:
		out = showEntry(c.Key(), c.Value())
	}
	valid := c.Valid()
	var orc string
	if !s.citOK {
		exp = posUnknown
	}
	if exp != posUnknown {
		if exp < 0 || exp >= n {
			if valid {
				orc = fmt.Sprintf("[concat-%s] expected the iterator to be invalid, got key %s", w[0], showB(c.Key()))
			}
			s.citPos = posUnknown
		} else {
			want := showEntry(es[exp].key, es[exp].vs)
			if !valid {
				orc = fmt.Sprintf("[concat-%s] expected entry #%d (%s), iterator is invalid", w[0], exp, trunc(want))
			} else if out != want {
				orc = fmt.Sprintf("[concat-%s] expected entry #%d (%s), got %s", w[0], exp, trunc(want), trunc(out))
			}
			s.citPos = exp
		}
	} else {
		s.citPos = posUnknown
	}
	return out, orc
}

// ---------------------------------------------------------------- generator

func tblGenEntries(rng *rand.Rand, st *Stats, n int, blockSize int, prefix []byte) []tEntry {
	shape := rng.Intn(10)
	var users [][]byte
	mk := func(b []byte) []byte { return append(append([]byte{}, prefix...), b...) }
	switch {
	case shape < 4: // short keys over a tiny alphabet: every shared-prefix length occurs
		st.Inc("keys:alphabet")
		for i := 0; i < n; i++ {
			users = append(users, mk(genUserKey(rng, 1, 6)))
		}
	case shape < 6: // base key plus suffixes
		st.Inc("keys:base+suffix")
		base := genUserKey(rng, 1, 12)
		users = append(users, mk(base))
		for i := 1; i < n; i++ {
			users = append(users, mk(append(append([]byte{}, base...), genUserKey(rng, 0, 3)...)))
		}
	case shape < 7: // one-byte user keys
		st.Inc("keys:1byte")
		for i := 0; i < n; i++ {
			users = append(users, mk([]byte{byte(rng.Intn(256))}))
		}
	case shape < 9: // medium keys with a long shared prefix, diverging at random depths
		st.Inc("keys:longprefix")
		L := 20 + rng.Intn(300)
		base := make([]byte, L)
		for i := range base {
			base[i] = keyAlphabet[rng.Intn(len(keyAlphabet))]
		}
		for i := 0; i < n; i++ {
			k := append([]byte{}, base[:1+rng.Intn(L)]...)
			if rng.Intn(2) == 0 {
				k = append(k, genUserKey(rng, 0, 4)...)
			}
			users = append(users, mk(k))
		}
	default: // printf-style keys like the test-suite
		st.Inc("keys:printf")
		for i := 0; i < n; i++ {
			users = append(users, mk([]byte(fmt.Sprintf("key%04d", rng.Intn(3*n+1)))))
		}
	}
	var es []tEntry
	for _, u := range users {
		nv := 1
		if rng.Intn(4) == 0 {
			nv = 1 + rng.Intn(4) // several versions of the same user key, adjacent in the table
		}
		for j := 0; j < nv; j++ {
			var ts uint64
			if rng.Intn(3) == 0 {
				ts = genU64(rng)
			} else {
				ts = uint64(rng.Intn(20))
			}
			es = append(es, tEntry{key: y.KeyWithTs(u, ts)})
		}
	}
	sort.Slice(es, func(i, j int) bool { return y.CompareKeys(es[i].key, es[j].key) < 0 })
	out := es[:0]
	for i, e := range es {
		if i > 0 && bytes.Equal(e.key, es[i-1].key) {
			continue
		}
		out = append(out, e)
	}
	es = out
	if len(es) > n {
		// keep a contiguous window so that adjacency (versions, prefixes) is preserved
		s := rng.Intn(len(es) - n + 1)
		es = es[s : s+n]
	}
	for i := range es {
		var v []byte
		switch rng.Intn(6) {
		case 0: // empty value
		case 1:
			v = make([]byte, rng.Intn(blockSize+blockSize/2+1)) // straddles a block boundary
		case 2:
			v = make([]byte, rng.Intn(4))
		case 3:
			// around the growth steps of the builder's block buffer (initially BlockSize+256
			// bytes, doubled on demand): entry sizes that just fit / just do not fit
			if rng.Intn(3) == 0 {
				base := (blockSize + 256) << uint(rng.Intn(3))
				n := base - 64 + rng.Intn(80)
				if n < 0 {
					n = 0
				}
				if n > 20000 {
					n = 20000
				}
				v = make([]byte, n)
			} else {
				v = make([]byte, rng.Intn(24))
			}
		default:
			v = make([]byte, rng.Intn(24))
		}
		for j := range v {
			v[j] = byte(rng.Intn(256))
		}
		es[i].vs = y.ValueStruct{Meta: byte(rng.Intn(256)), UserMeta: byte(rng.Intn(256)), Value: v}
		if rng.Intn(3) == 0 {
			es[i].vs.ExpiresAt = genU64(rng)
		}
	}
	return es
}

func tblProbeKeys(rng *rand.Rand, es []tEntry, k int) [][]byte {
	var ps [][]byte
	mut := func(key []byte) []byte {
		u := append([]byte{}, y.ParseKey(key)...)
		ts := y.ParseTs(key)
		switch rng.Intn(7) {
		case 0:
			return append([]byte{}, key...)
		case 1:
			if ts < 1<<64-1 {
				ts++
			}
		case 2:
			if ts > 0 {
				ts--
			}
		case 3:
			u = append(u, keyAlphabet[rng.Intn(len(keyAlphabet))])
			ts = genU64(rng)
		case 4:
			if len(u) > 0 {
				u = u[:len(u)-1]
			}
			ts = genU64(rng)
		case 5:
			if len(u) > 0 {
				u[len(u)-1]--
			}
		case 6:
			if len(u) > 0 {
				u[rng.Intn(len(u))] ^= byte(1 << uint(rng.Intn(8)))
			}
		}
		return y.KeyWithTs(u, ts)
	}
	for i := 0; i < k; i++ {
		switch rng.Intn(12) {
		case 0:
			ps = append(ps, y.KeyWithTs(nil, 1<<64-1)) // smallest possible internal key
		case 1:
			ps = append(ps, y.KeyWithTs(bytes.Repeat([]byte{0xff}, 8+rng.Intn(400)), 0))
		default:
			ps = append(ps, mut(es[rng.Intn(len(es))].key))
		}
	}
	return ps
}

func addLine(e tEntry, stale bool, vp int) string {
	op := "add"
	if stale {
		op = "addstale"
	}
	return fmt.Sprintf("%s %s %d %d %d %s %d", op, hx(e.key), e.vs.Meta, e.vs.UserMeta, e.vs.ExpiresAt, hx(e.vs.Value), vp)
}

func genTable(rng *rand.Rand, n int, st *Stats) []string {
	var ops []string
	for c := 0; c < n; c++ {
		ops = append(ops, genTableCase(rng, st)...)
	}
	return ops
}

func genTableCase(rng *rand.Rand, st *Stats) []string {
	var ops []string
	blockSizes := []int{64, 128, 4096, 64, 128, 32, 256, 1, 1000}
	bs := blockSizes[rng.Intn(len(blockSizes))]
	comp := 0
	if rng.Intn(3) == 0 {
		comp = 1 + rng.Intn(2)
	}
	enc := 0
	if rng.Intn(4) == 0 {
		enc = 1
	}
	bloom := rng.Intn(2)
	chk := rng.Intn(4)
	file := 0
	if rng.Intn(12) == 0 {
		file = 1
	}
	st.Inc(fmt.Sprintf("opt:bs=%d", bs))
	st.Inc(fmt.Sprintf("opt:comp=%d,enc=%d", comp, enc))
	st.Inc(fmt.Sprintf("opt:chk=%d", chk))
	st.Inc(fmt.Sprintf("opt:file=%d", file))
	ops = append(ops, fmt.Sprintf("reset %d %d %d %d %d %d", bs, comp, enc, bloom, chk, file))

	kind := rng.Intn(20)
	switch {
	case kind == 0:
		st.Inc("case:longkeys")
		return append(ops, genLongKeyCase(rng, st, bs)...)
	case kind == 1:
		st.Inc("case:unsorted")
	case kind < 6:
		st.Inc("case:concat")
	default:
		st.Inc("case:single")
	}
	nt := 1
	if kind >= 2 && kind < 6 {
		nt = 2 + rng.Intn(3)
	}
	var all [][]tEntry
	for ti := 0; ti < nt; ti++ {
		var cnt int
		switch rng.Intn(10) {
		case 0:
			cnt = 1
		case 1:
			cnt = 50 + rng.Intn(151)
		case 2, 3:
			cnt = 10 + rng.Intn(40)
		default:
			cnt = 1 + rng.Intn(12)
		}
		if nt > 1 && cnt > 40 {
			cnt = 1 + rng.Intn(20)
		}
		// tables of a concat case get disjoint increasing ranges through a table prefix byte
		var prefix []byte
		if nt > 1 {
			prefix = []byte{byte(0x10 + 0x20*ti)}
		}
		es := tblGenEntries(rng, st, cnt, bs, prefix)
		if kind == 1 && len(es) > 1 {
			rng.Shuffle(len(es), func(i, j int) { es[i], es[j] = es[j], es[i] })
		}
		all = append(all, es)
		for _, e := range es {
			vp := 0
			if rng.Intn(5) == 0 {
				vp = rng.Intn(100000)
			}
			ops = append(ops, addLine(e, rng.Intn(15) == 0, vp))
		}
		ops = append(ops, "build")
		if rng.Intn(8) == 0 {
			ops = append(ops, "build") // empty builder
		}
		k := ti
		if rng.Intn(3) == 0 {
			ops = append(ops, fmt.Sprintf("verify %d", k))
		}
		for j := 0; j < 2; j++ {
			e := es[rng.Intn(len(es))]
			u := y.ParseKey(e.key)
			if rng.Intn(2) == 0 {
				u = append(append([]byte{}, u...), 0x7a)
			}
			ops = append(ops, fmt.Sprintf("has %d %s", k, hx(u)))
		}
		ops = append(ops, genIterOps(rng, st, k, es)...)
	}
	if nt > 1 {
		var flat []tEntry
		for _, es := range all {
			flat = append(flat, es...)
		}
		for _, rev := range []int{0, 1} {
			if rng.Intn(3) == 0 {
				continue
			}
			ops = append(ops, fmt.Sprintf("concat %d", rev), "crewind")
			// n-1 steps reach the last entry, one more invalidates; a further Next would
			// dereference the nil current iterator (panic), which retires the iterator.
			for i := 0; i < len(flat); i++ {
				ops = append(ops, "cnext")
			}
			if rng.Intn(4) == 0 {
				ops = append(ops, "cnext")
			}
			for _, p := range tblProbeKeys(rng, flat, 6) {
				ops = append(ops, fmt.Sprintf("concat %d", rev), "cseek "+hx(p))
				for j := rng.Intn(4); j > 0; j-- {
					ops = append(ops, "cnext")
				}
			}
			// seeks at the table boundaries
			for _, es := range all {
				b := es[len(es)-1].key
				if rng.Intn(2) == 0 {
					b = es[0].key
				}
				ops = append(ops, fmt.Sprintf("concat %d", rev), "cseek "+hx(b), "cnext")
			}
		}
	}
	return ops
}

func genIterOps(rng *rand.Rand, st *Stats, k int, es []tEntry) []string {
	var ops []string
	n := len(es)
	mode := rng.Intn(4)
	if mode == 0 || n <= 12 {
		// full forward and reverse scans with the internal methods on one iterator
		ops = append(ops, fmt.Sprintf("iter %d 0", k), "rewind 0")
		for i := 0; i < n+1; i++ {
			ops = append(ops, "next")
		}
		ops = append(ops, "rewind 1")
		for i := 0; i < n+1; i++ {
			ops = append(ops, "prev")
		}
	}
	if mode == 1 || n <= 12 {
		// API scans with the REVERSED flag
		for _, rev := range []int{0, 1} {
			ops = append(ops, fmt.Sprintf("iter %d %d", k, rev), "arewind")
			for i := 0; i < n+1; i++ {
				ops = append(ops, "anext")
			}
			for _, p := range tblProbeKeys(rng, es, 3) {
				ops = append(ops, "aseek "+hx(p), "anext")
			}
		}
	}
	// seeks from any key, followed by short walks in both directions
	ops = append(ops, fmt.Sprintf("iter %d 0", k))
	np := 4 + rng.Intn(8)
	for _, p := range tblProbeKeys(rng, es, np) {
		if rng.Intn(2) == 0 {
			ops = append(ops, "seek "+hx(p))
		} else {
			ops = append(ops, "seekprev "+hx(p))
		}
		for j := rng.Intn(5); j > 0; j-- {
			if rng.Intn(2) == 0 {
				ops = append(ops, "next")
			} else {
				ops = append(ops, "prev")
			}
		}
		if rng.Intn(3) == 0 {
			// a fresh iterator: walking off the front and then forward kills the old one
			ops = append(ops, fmt.Sprintf("iter %d 0", k))
		}
	}
	// random walk (mostly inside the table: start in the middle, change direction rarely)
	if rng.Intn(3) == 0 {
		ops = append(ops, fmt.Sprintf("iter %d 0", k), "seek "+hx(es[rng.Intn(n)].key))
		dir := rng.Intn(2)
		for j := 0; j < 10+rng.Intn(20); j++ {
			if rng.Intn(4) == 0 {
				dir = 1 - dir
			}
			if dir == 0 {
				ops = append(ops, "next")
			} else {
				ops = append(ops, "prev")
			}
		}
	}
	st.Inc("iterops")
	return ops
}

// Long keys: up to the 65000-byte user-key limit (internal key 65008), few entries.
func genLongKeyCase(rng *rand.Rand, st *Stats, bs int) []string {
	var ops []string
	L := []int{300, 1000, 5000, 20000, 64990, 65000}[rng.Intn(6)]
	st.Inc(fmt.Sprintf("longkey:%d", L))
	base := bytes.Repeat([]byte{0x61}, L)
	cnt := 2 + rng.Intn(4)
	var es []tEntry
	for i := 0; i < cnt; i++ {
		u := append([]byte{}, base...)
		cut := 1 + rng.Intn(10)
		u = u[:L-cut]
		u = append(u, byte(0x62+i))
		for len(u) < L && rng.Intn(2) == 0 {
			u = append(u, 0x63)
		}
		es = append(es, tEntry{key: y.KeyWithTs(u, uint64(rng.Intn(5))), vs: y.ValueStruct{Meta: 1, Value: []byte{byte(i)}}})
	}
	sort.Slice(es, func(i, j int) bool { return y.CompareKeys(es[i].key, es[j].key) < 0 })
	out := es[:0]
	for i, e := range es {
		if i > 0 && bytes.Equal(e.key, es[i-1].key) {
			continue
		}
		out = append(out, e)
	}
	es = out
	for _, e := range es {
		ops = append(ops, addLine(e, false, 0))
	}
	ops = append(ops, "build", "verify 0", "iter 0 0", "rewind 0")
	for range es {
		ops = append(ops, "next")
	}
	ops = append(ops, "rewind 1")
	for range es {
		ops = append(ops, "prev")
	}
	for _, e := range es {
		ops = append(ops, "seek "+hx(e.key), "seekprev "+hx(e.key))
	}
	return ops
}
