package main

// Engine "pipe", op "drop" (C29, concurrency clause; oracle only, no model):
//
//	drop <seed> <kind: prefix|all> <sched: free|queued|window|late> <committers> <txns> <rounds>
//
// Several transactions, each writing 2–4 keys that no other transaction writes (so nothing is
// ever overwritten and nothing conflicts), some under the prefix that is dropped ("P" keys) and
// some not ("Q" keys), are committed concurrently with DropPrefix / DropAll on a real on-disk DB.
// After the drop has returned and the committers have finished, every transaction is read back:
//
//   - Commit returned nil: every Q key is there with its value; of its P keys either none is
//     there (the transaction took effect before the drop) or all are (after): never a part
//     [C29-concurrent-mix]; if Commit had returned before the drop was called, none
//     [C29-concurrent-survivor]; if Commit was called after the drop returned, all
//     [C29-concurrent-lost-after]; a missing Q key is [C29-concurrent-lost-write];
//   - Commit returned an error (ErrBlockedWrites): no key of it is there [C29-concurrent-trace];
//   - after the drop a fresh commit succeeds [C29-concurrent-writes-not-resumed] with a version
//     above everything stored [C29-concurrent-ts];
//   - DropAll: every key is a P key.
//
// Schedules: free (free-running committers, the drop somewhere in the middle), queued (the write
// pipeline is stalled with VerifHoldWrites, commits queue up, the drop is called, the pipeline is
// released: commits issued before blockWrite), window (db.lock is held for reading so the drop
// stops after blockWrite+drain and before its flush; commits issued now are rejected), late (one
// committer is parked between sendToWriteCh's blockWrites check and its send, the F38a window,
// while the drop runs). All judgements are what the property promises whatever the schedule.

import (
	"bytes"
	"fmt"
	"math/rand"
	"os"
	"runtime"
	"sync"
	"sync/atomic"
	"time"

	badger "github.com/dgraph-io/badger/v4"
	"github.com/dgraph-io/badger/v4/options"
)

func genPipeDrop(rng *rand.Rand, n int, st *Stats) []string {
	var ops []string
	scheds := []string{"free", "free", "queued", "window", "late"}
	for i := 0; i < n; i++ {
		kind := "prefix"
		if rng.Intn(4) == 0 {
			kind = "all"
		}
		sched := scheds[i%len(scheds)]
		if sched == "late" && (i/len(scheds))%2 == 1 {
			kind = "all" // DropAll has no View: the late request is served after the drop
		}
		ops = append(ops, fmt.Sprintf("drop %d %s %s %d %d %d", rng.Int63n(1<<40), kind, sched,
			2+rng.Intn(5), 20+rng.Intn(60), 1+rng.Intn(3)))
	}
	return ops
}

type pdTxn struct {
	keys    [][]byte
	isP     []bool
	val     []byte
	err     error
	phaseAt int32 // phase when Commit was called
	phaseOk int32 // phase when Commit returned
	done    bool
}

func execPipeDrop(w []string, st *Stats) (string, []string) {
	seed, e1 := parseU(w[1])
	committers, e2 := parseU(w[4])
	txns, e3 := parseU(w[5])
	rounds, e4 := parseU(w[6])
	if e1 != nil || e2 != nil || e3 != nil || e4 != nil || (w[2] != "prefix" && w[2] != "all") ||
		committers < 1 || committers > 16 || txns < 1 || txns > 2000 || rounds < 1 || rounds > 5 {
		return "bad-op", nil
	}
	switch w[3] {
	case "free", "queued", "window", "late":
	default:
		return "bad-op", nil
	}
	return runPipeDrop(int64(seed), w[2], w[3], int(committers), int(txns), int(rounds), st)
}

func pdValue(rng *rand.Rand, c, s int) []byte {
	n := 8 + rng.Intn(16)
	if rng.Intn(3) == 0 {
		n = 40 + rng.Intn(80) // above the value threshold: goes to the value log
	}
	v := make([]byte, n)
	for i := range v {
		v[i] = byte(c*17 + s*3 + i)
	}
	return v
}

// waitOr waits for ch up to d; reports whether it arrived.
func pdWait(ch <-chan struct{}, d time.Duration) bool {
	select {
	case <-ch:
		return true
	case <-time.After(d):
		return false
	}
}

func runPipeDrop(seed int64, kind, sched string, committers, txns, rounds int, st *Stats) (string, []string) {
	base := os.Getenv("VERIF_SCRATCH")
	if base == "" {
		base = os.TempDir()
	}
	dir, err := os.MkdirTemp(base, "pdrop-")
	if err != nil {
		panic(err)
	}
	abandoned := false
	defer func() {
		if !abandoned {
			os.RemoveAll(dir)
		}
	}()
	opt := badger.DefaultOptions(dir).WithLoggingLevel(badger.ERROR).
		WithMemTableSize(64 << 10).WithValueThreshold(32).WithValueLogFileSize(4 << 20).
		WithBaseTableSize(64 << 10).WithBaseLevelSize(256 << 10).WithNumMemtables(3).
		WithNumLevelZeroTables(3).WithNumLevelZeroTablesStall(8).WithNumCompactors(2).
		WithCompression(options.None).WithBlockCacheSize(0).WithIndexCacheSize(0).
		WithMetricsEnabled(false).WithSyncWrites(false).WithDetectConflicts(true)
	db, err := badger.Open(opt)
	if err != nil {
		panic(err)
	}
	fails := &pipeFailures{}
	rng := rand.New(rand.NewSource(seed))
	if kind == "all" {
		rounds = 1
	}
	nOK, nErr, nBefore, nAfter, nFree := 0, 0, 0, 0, 0
	outcomeBefore, outcomeAfter := 0, 0

	for round := 0; round < rounds; round++ {
		pfx := []byte(fmt.Sprintf("r%dp/", round))
		mkTxn := func(r *rand.Rand, c, s int) *pdTxn {
			t := &pdTxn{val: pdValue(r, c, s)}
			nk := 2 + r.Intn(3)
			for i := 0; i < nk; i++ {
				p := r.Intn(2) == 0 || kind == "all"
				if kind == "all" {
					p = true
				}
				cls := "q"
				if p && kind != "all" {
					cls = "p"
				}
				if kind == "all" {
					cls = []string{"p", "q"}[r.Intn(2)]
				}
				t.keys = append(t.keys, []byte(fmt.Sprintf("r%d%s/c%02d-%05d-%d", round, cls, c, s, i)))
				t.isP = append(t.isP, p)
			}
			return t
		}
		var phase atomic.Int32 // 0 before the drop call, 1 during, 2 after it returned
		commit := func(t *pdTxn) {
			txn := db.NewTransaction(true)
			for _, k := range t.keys {
				if err := txn.Set(k, t.val); err != nil {
					t.err = err
					txn.Discard()
					t.done = true
					return
				}
			}
			t.phaseAt = phase.Load()
			t.err = txn.Commit()
			t.phaseOk = phase.Load()
			t.done = true
		}
		var all []*pdTxn
		var allMu sync.Mutex
		add := func(t *pdTxn) { allMu.Lock(); all = append(all, t); allMu.Unlock() }

		// some committed data first, so that the prefix exists (not always)
		if rng.Intn(5) != 0 {
			for s := 0; s < 5+rng.Intn(30); s++ {
				t := mkTxn(rng, 90, s)
				commit(t)
				add(t)
			}
		}
		dropDone := make(chan struct{})
		var dropErr error
		doDrop := func() {
			phase.Store(1)
			if kind == "all" {
				dropErr = db.DropAll()
			} else {
				dropErr = db.DropPrefix(pfx)
			}
			phase.Store(2)
			close(dropDone)
		}
		hung := false
		var wg sync.WaitGroup
		runCommitters := func(n, per int, idBase int) {
			for c := 0; c < n; c++ {
				wg.Add(1)
				go func(c int) {
					defer wg.Done()
					r := rand.New(rand.NewSource(seed*131 + int64(round*1000+idBase+c)))
					for s := 0; s < per; s++ {
						t := mkTxn(r, idBase+c, s)
						add(t)
						commit(t)
						if r.Intn(8) == 0 {
							runtime.Gosched()
						}
					}
				}(c)
			}
		}
		switch sched {
		case "free":
			runCommitters(committers, txns, 0)
			time.Sleep(time.Duration(rng.Intn(8000)) * time.Microsecond)
			go doDrop()
			if !pdWait(dropDone, 20*time.Second) {
				hung = true
			}
		case "queued":
			release := badger.VerifHoldWrites(db)
			runCommitters(committers, 1+txns/10, 0)
			// the first request is taken by doWrites and stalls in the value log; the others pile
			// up behind it (in doWrites' batch or in writeCh)
			time.Sleep(time.Duration(2+rng.Intn(6)) * time.Millisecond)
			go doDrop()
			time.Sleep(time.Duration(1+rng.Intn(10)) * time.Millisecond)
			release()
			if !pdWait(dropDone, 20*time.Second) {
				hung = true
			}
		case "window":
			// quiet database, then hold db.lock for reading: the drop blocks writes, drains and
			// stops before its flush
			release := badger.VerifHoldWriter(db)
			go doDrop()
			time.Sleep(time.Duration(5+rng.Intn(10)) * time.Millisecond)
			inWindow := 0
			for c := 0; c < committers; c++ {
				t := mkTxn(rng, 40+c, round)
				add(t)
				fin := make(chan struct{})
				go func() { commit(t); close(fin) }()
				if !pdWait(fin, 300*time.Millisecond) {
					// the drop had not blocked writes yet: this commit sits behind db.lock
					release()
					release = func() {}
					<-fin
					break
				}
				if t.err == badger.ErrBlockedWrites {
					inWindow++
				}
			}
			st.Hist["pdrop:window-rejected"] += inWindow
			release()
			if !pdWait(dropDone, 20*time.Second) {
				hung = true
			}
		case "late":
			runtime.GC()
			runtime.GC()
			entered := make(chan struct{})
			rel := make(chan struct{})
			restore := badger.VerifSysHoldNextRequest(entered, rel)
			t := mkTxn(rng, 50, round)
			add(t)
			fin := make(chan struct{})
			go func() { commit(t); close(fin) }()
			parked := pdWait(entered, 500*time.Millisecond)
			if parked {
				st.Inc("pdrop:late-parked")
			}
			go doDrop()
			// the drop runs while the sender is parked between its check and its send
			early := pdWait(dropDone, time.Duration(50+rng.Intn(100))*time.Millisecond)
			if early {
				st.Inc("pdrop:late-drop-finished-while-parked")
			}
			close(rel)
			okDrop := pdWait(dropDone, 5*time.Second)
			okCommit := pdWait(fin, 5*time.Second)
			restore()
			if !okDrop || !okCommit {
				smp := badger.VerifWriteChLen(db)
				fails.add("[C29-concurrent-late-sender-hang]", fmt.Sprintf(
					"%s: a Commit was between sendToWriteCh's blockWrites check and its send on writeCh when the drop blocked writes and drained the channel; the request was sent afterwards (writeCh length %d), nobody serves the channel, and the drop does not return (returned=%v, Commit returned=%v after 5 s): the drop's View waits for that commit timestamp, the commit waits for the drop",
					map[string]string{"prefix": "DropPrefix", "all": "DropAll"}[kind], smp, okDrop, okCommit))
				abandoned = true // the DB cannot be closed any more; leave it
				st.Inc("pdrop:late-hang")
				return "hang", fails.msgs
			}
		}
		if hung {
			if n := badger.VerifWriteChLen(db); n > 0 && kind == "prefix" {
				// the signature of F38b, reached without any schedule hook: requests sit in writeCh,
				// nobody serves it, DropPrefix waits in its View for their commit timestamps
				fails.add("[C29-concurrent-late-sender-hang]", fmt.Sprintf(
					"DropPrefix did not return within 20 s in a free-running session (schedule %s, no hook involved): %d request(s) sit in writeCh, sent after prepareToDrop drained it by committers that had passed the blockWrites check before; the drop's View waits for their commit timestamps", sched, n))
				st.Inc("pdrop:natural-late-hang")
			} else {
				fails.add("[C29-concurrent-drop-hang]", fmt.Sprintf("the drop did not return within 20 s (schedule %s, %s, writeCh length %d)", sched, kind, badger.VerifWriteChLen(db)))
			}
			abandoned = true
			return "hang", fails.msgs
		}
		if dropErr != nil {
			fails.add("[C29-concurrent-drop-error]", fmt.Sprintf("the drop returned %v", dropErr))
		}
		// after the drop: writes are accepted again, with a timestamp above everything stored
		mv := badger.VerifMaxVersion(db)
		fresh := mkTxn(rng, 70, round)
		add(fresh)
		commit(fresh)
		if fresh.err != nil {
			fails.add("[C29-concurrent-writes-not-resumed]", fmt.Sprintf("a commit issued after the drop returned failed: %v", fresh.err))
		}
		// a few more transactions after the drop
		runCommitters(1+rng.Intn(2), 3, 60)
		fin := make(chan struct{})
		go func() { wg.Wait(); close(fin) }()
		if !pdWait(fin, 60*time.Second) {
			fails.add("[C29-concurrent-commit-hang]", "a Commit issued around the drop did not return within 60 s")
			abandoned = true
			return "hang", fails.msgs
		}

		// ---- read everything back
		rtxn := db.NewTransaction(false)
		get := func(k []byte) (val []byte, ver uint64, found bool) {
			item, err := rtxn.Get(k)
			if err == badger.ErrKeyNotFound {
				return nil, 0, false
			}
			if err != nil {
				fails.add("[C29-concurrent-read-error]", fmt.Sprintf("Get %q: %v", k, err))
				return nil, 0, false
			}
			v, err := item.ValueCopy(nil)
			if err != nil {
				fails.add("[C29-concurrent-read-error]", fmt.Sprintf("value of %q: %v", k, err))
				return nil, 0, false
			}
			return v, item.Version(), true
		}
		for _, t := range all {
			if !t.done {
				continue
			}
			desc := func() string {
				return fmt.Sprintf("transaction %q.. (%d keys; Commit called in phase %d, returned in phase %d; phases: 0 before the drop call, 1 during, 2 after it returned; schedule %s, %s)",
					t.keys[0], len(t.keys), t.phaseAt, t.phaseOk, sched, kind)
			}
			nP, visP, visQ, nQ := 0, 0, 0, 0
			var vers []uint64
			for i, k := range t.keys {
				v, ver, found := get(k)
				if found && !bytes.Equal(v, t.val) {
					fails.add("[C29-concurrent-wrong-value]", fmt.Sprintf("%s: key %q reads a value nobody wrote to it", desc(), k))
				}
				if found {
					vers = append(vers, ver)
				}
				if t.isP[i] {
					nP++
					if found {
						visP++
					}
				} else {
					nQ++
					if found {
						visQ++
					}
				}
			}
			if t.err != nil {
				nErr++
				if visP+visQ > 0 {
					fails.add("[C29-concurrent-trace]", fmt.Sprintf("%s: Commit returned %v, yet %d of its keys are stored", desc(), t.err, visP+visQ))
				}
				if t.phaseAt == 2 {
					fails.add("[C29-concurrent-writes-not-resumed]", fmt.Sprintf("%s: Commit called after the drop had returned failed: %v", desc(), t.err))
				}
				continue
			}
			nOK++
			for _, v := range vers {
				if v != vers[0] {
					fails.add("[C29-concurrent-mix]", fmt.Sprintf("%s: its keys carry different versions %v", desc(), vers))
					break
				}
			}
			if visQ != nQ {
				fails.add("[C29-concurrent-lost-write]", fmt.Sprintf("%s: Commit returned nil but %d of its %d keys outside the dropped prefix are missing", desc(), nQ-visQ, nQ))
			}
			if visP != 0 && visP != nP {
				fails.add("[C29-concurrent-mix]", fmt.Sprintf("%s: %d of its %d keys under the dropped prefix survive: neither entirely before nor entirely after the drop", desc(), visP, nP))
			}
			switch {
			case t.phaseOk == 0:
				nBefore++
				if visP != 0 {
					fails.add("[C29-concurrent-survivor]", fmt.Sprintf("%s: Commit had returned before the drop was called, yet %d of its %d dropped keys are still there", desc(), visP, nP))
				}
			case t.phaseAt == 2:
				nAfter++
				if visP != nP {
					fails.add("[C29-concurrent-lost-after]", fmt.Sprintf("%s: committed after the drop had returned, yet %d of its %d keys under the prefix are missing", desc(), nP-visP, nP))
				}
			default:
				nFree++
				if nP > 0 && visP == 0 {
					outcomeBefore++
				} else if nP > 0 {
					outcomeAfter++
				}
			}
			if t == fresh && len(vers) > 0 && vers[0] <= mv {
				fails.add("[C29-concurrent-ts]", fmt.Sprintf("the first commit after the drop got version %d, not above the largest stored version %d", vers[0], mv))
			}
		}
		rtxn.Discard()
	}
	if err := db.Close(); err != nil {
		fails.add("[C29-concurrent-close-error]", err.Error())
	}
	st.Inc("pdrop:cases:" + kind + ":" + sched)
	st.Hist["pdrop:commit-ok"] += nOK
	st.Hist["pdrop:commit-err"] += nErr
	st.Hist["pdrop:acked-before"] += nBefore
	st.Hist["pdrop:called-after"] += nAfter
	st.Hist["pdrop:concurrent"] += nFree
	st.Hist["pdrop:concurrent-took-effect-before"] += outcomeBefore
	st.Hist["pdrop:concurrent-took-effect-after"] += outcomeAfter
	return fmt.Sprintf("done ok=%d err=%d", nOK, nErr), fails.msgs
}
