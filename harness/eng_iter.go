package main

// Engines "merge" (C21), "skl" (C22, sequential) and "sklstress" (C22, free-running
// concurrent stress; no model).
//
// merge protocol (stateful, one session per `reset`):
//   reset <reverse 0|1>
//   src <i> <kind slice|skl|table> <keyhex:valhex>...     source i (i = 0,1,2,… in order), sorted
//   build <tree>            prefix expression: s<i> | m<k> <k subtrees>  (m = table.NewMergeIterator)
//   rewind | seek <keyhex> | next          -> "<keyhex> <valhex>" | "invalid"
//   drain <n>               consumer loop, at most n entries -> "k:v k:v ..." | "-"
// A value payload is meta, usermeta, value bytes (len >= 2).
//
// skl protocol:
//   reset
//   put <keyhex> <encoded ValueStruct hex> <height|?>   `?` is replaced by Exec with the tower
//                           height the real Put drew (read back from the level dump), so
//                           that the model builds the same towers
//   get <key>               -> "<encoded vs> <version>"
//   near <key> <less 0|1> <allowEqual 0|1>  -> "<nodekey|nil> <found>"
//   tower                   -> all level chains "k k k | k k | ..."
//   dump                    -> level 0 with values
//   first | last | seek k | seekprev k | next | prev     (skl.Iterator)  -> "<key> <vs>" | "invalid" | "panic"
//   uni <rev> | urewind | useek k | unext                (skl.UniIterator)

import (
	"bytes"
	"fmt"
	"math"
	"math/rand"
	"runtime"
	"sort"
	"strconv"
	"strings"
	"sync"
	"sync/atomic"

	"github.com/dgraph-io/badger/v4/skl"
	"github.com/dgraph-io/badger/v4/table"
	"github.com/dgraph-io/badger/v4/y"
)

func init() {
	engines["merge"] = &Engine{Gen: genMerge, Exec: execMerge}
	engines["skl"] = &Engine{Gen: genSkl, Exec: execSkl}
	engines["sklstress"] = &Engine{Gen: genSklStress, Exec: execSklStress}
	engines["sklsched"] = &Engine{Gen: genSklSched, Exec: execSklSched}
}

type itEntry struct {
	key []byte
	val []byte // payload: meta, usermeta, value...
}

func itPayloadVS(p []byte) y.ValueStruct {
	return y.ValueStruct{Meta: p[0], UserMeta: p[1], Value: p[2:]}
}

func itVSPayload(v y.ValueStruct) []byte {
	out := []byte{v.Meta, v.UserMeta}
	return append(out, v.Value...)
}

// ---------------------------------------------------------------- slice-backed y.Iterator

type itSliceIter struct {
	items []itEntry
	rev   bool
	pos   int
}

func newItSliceIter(items []itEntry, rev bool) *itSliceIter {
	return &itSliceIter{items: items, rev: rev, pos: -1}
}

func (s *itSliceIter) Valid() bool { return s.pos >= 0 && s.pos < len(s.items) }
func (s *itSliceIter) Rewind() {
	if !s.rev {
		s.pos = 0
	} else {
		s.pos = len(s.items) - 1
	}
}
func (s *itSliceIter) Seek(k []byte) {
	if !s.rev {
		// first key >= k
		s.pos = sort.Search(len(s.items), func(i int) bool { return y.CompareKeys(s.items[i].key, k) >= 0 })
	} else {
		// last key <= k
		s.pos = sort.Search(len(s.items), func(i int) bool { return y.CompareKeys(s.items[i].key, k) > 0 }) - 1
	}
}
func (s *itSliceIter) Next() {
	if !s.Valid() {
		return
	}
	if !s.rev {
		s.pos++
	} else {
		s.pos--
	}
}
func (s *itSliceIter) Key() []byte          { return s.items[s.pos].key }
func (s *itSliceIter) Value() y.ValueStruct { return itPayloadVS(s.items[s.pos].val) }
func (s *itSliceIter) Close() error         { return nil }

// ---------------------------------------------------------------- generators (shared)

// itKeyPool: internal keys (user key ++ ts) with many shared prefixes and several versions.
func itKeyPool(rng *rand.Rand, n int) [][]byte {
	var users [][]byte
	nu := 1 + rng.Intn(n)
	for len(users) < nu {
		users = append(users, genUserKey(rng, 1, 4))
	}
	tss := []uint64{0, 1, 2, 3, 5, 7, 255, 256, 1 << 32, math.MaxUint64 - 1, math.MaxUint64}
	seen := map[string]bool{}
	var pool [][]byte
	for tries := 0; len(pool) < n && tries < 10*n; tries++ {
		k := y.KeyWithTs(users[rng.Intn(len(users))], tss[rng.Intn(len(tss))])
		if !seen[string(k)] {
			seen[string(k)] = true
			pool = append(pool, k)
		}
	}
	return pool
}

func itSeekKey(rng *rand.Rand, pool [][]byte, st *Stats) []byte {
	switch r := rng.Intn(20); {
	case r < 10 && len(pool) > 0:
		st.Inc("seek:pool")
		return pool[rng.Intn(len(pool))]
	case r < 15:
		st.Inc("seek:random")
		return y.KeyWithTs(genUserKey(rng, 1, 4), genU64(rng))
	case r < 17:
		st.Inc("seek:before-first")
		return y.KeyWithTs([]byte{}, math.MaxUint64)
	case r < 19:
		st.Inc("seek:after-last")
		return y.KeyWithTs([]byte{0xff, 0xff, 0xff, 0xff, 0xff}, 0)
	default:
		st.Inc("seek:same-user-other-ts")
		if len(pool) == 0 {
			return y.KeyWithTs([]byte{0x61}, 4)
		}
		return y.KeyWithTs(y.ParseKey(pool[rng.Intn(len(pool))]), genU64(rng))
	}
}

// ---------------------------------------------------------------- merge: generator

func genMerge(rng *rand.Rand, n int, st *Stats) []string {
	var ops []string
	for c := 0; c < n; c++ {
		ops = append(ops, genMergeCase(rng, st)...)
	}
	return ops
}

func itGenTree(rng *rand.Rand, ids []int, top bool, st *Stats) []string {
	if len(ids) == 1 && !(top && rng.Intn(3) == 0) {
		return []string{fmt.Sprintf("s%d", ids[0])}
	}
	if top && rng.Intn(2) == 0 || len(ids) <= 2 || rng.Intn(3) == 0 {
		// flat: NewMergeIterator(list)
		out := []string{fmt.Sprintf("m%d", len(ids))}
		for _, i := range ids {
			out = append(out, fmt.Sprintf("s%d", i))
		}
		return out
	}
	// split into 2..4 groups, each a subtree
	st.Inc("tree:nested")
	g := 2 + rng.Intn(3)
	if g > len(ids) {
		g = len(ids)
	}
	cuts := map[int]bool{}
	for len(cuts) < g-1 {
		cuts[1+rng.Intn(len(ids)-1)] = true
	}
	var groups [][]int
	start := 0
	for i := 1; i <= len(ids); i++ {
		if cuts[i] || i == len(ids) {
			groups = append(groups, ids[start:i])
			start = i
		}
	}
	out := []string{fmt.Sprintf("m%d", len(groups))}
	for _, gr := range groups {
		out = append(out, itGenTree(rng, gr, false, st)...)
	}
	return out
}

func genMergeCase(rng *rand.Rand, st *Stats) []string {
	rev := rng.Intn(2)
	ops := []string{fmt.Sprintf("reset %d", rev)}
	nsrc := 1 + rng.Intn(7)
	if rng.Intn(40) == 0 {
		nsrc = 0
	}
	st.Inc(fmt.Sprintf("nsrc:%d", nsrc))
	st.Inc(fmt.Sprintf("reverse:%d", rev))
	pool := itKeyPool(rng, 3+rng.Intn(14))
	dups := 0
	count := map[string]int{}
	for i := 0; i < nsrc; i++ {
		p := []float64{0, 0.2, 0.5, 0.8, 1}[rng.Intn(5)]
		var es []itEntry
		for _, k := range pool {
			if rng.Float64() < p {
				val := []byte{byte(rng.Intn(3)), byte(rng.Intn(2)), byte(i)}
				for j := rng.Intn(3); j > 0; j-- {
					val = append(val, keyAlphabet[rng.Intn(len(keyAlphabet))])
				}
				es = append(es, itEntry{k, val})
				count[string(k)]++
				if count[string(k)] == 2 {
					dups++
				}
			}
		}
		sort.Slice(es, func(a, b int) bool { return y.CompareKeys(es[a].key, es[b].key) < 0 })
		kind := "slice"
		switch r := rng.Intn(10); {
		case r == 0:
			kind = "skl"
		case r == 1 && len(es) > 0:
			kind = "table"
		}
		st.Inc("srckind:" + kind)
		st.Inc("srclen:" + sizeBucket(len(es)))
		l := fmt.Sprintf("src %d %s", i, kind)
		for _, e := range es {
			l += " " + hx(e.key) + ":" + hx(e.val)
		}
		ops = append(ops, l)
	}
	st.Inc("dupkeys:" + sizeBucket(dups))
	ids := make([]int, nsrc)
	for i := range ids {
		ids[i] = i
	}
	if rng.Intn(4) == 0 {
		rng.Shuffle(len(ids), func(a, b int) { ids[a], ids[b] = ids[b], ids[a] })
		st.Inc("tree:shuffled")
	}
	if nsrc == 0 {
		ops = append(ops, "build m0")
	} else {
		ops = append(ops, "build "+strings.Join(itGenTree(rng, ids, true, st), " "))
	}
	nops := 4 + rng.Intn(24)
	for j := 0; j < nops; j++ {
		r := rng.Intn(20)
		if j == 0 && rng.Intn(5) != 0 {
			r = rng.Intn(9) // mostly position the iterator first
		}
		switch {
		case r < 3:
			ops = append(ops, "rewind")
		case r < 9:
			ops = append(ops, "seek "+hx(itSeekKey(rng, pool, st)))
		case r < 17:
			ops = append(ops, "next")
		default:
			ops = append(ops, fmt.Sprintf("drain %d", 1+rng.Intn(20)))
		}
	}
	if rng.Intn(2) == 0 {
		ops = append(ops, "rewind", "drain 200")
	}
	return ops
}

// ---------------------------------------------------------------- merge: executor + oracle

type itMergeSess struct {
	rev     bool
	srcs    [][]itEntry
	kinds   []string
	it      y.Iterator
	bare    bool // the top-level iterator is a leaf, not a MergeIterator
	ref     []itEntry
	refPos  int
	closers []func()
	tableID uint64
}

func (s *itMergeSess) close() {
	if s.it != nil {
		_ = s.it.Close()
	}
	for _, c := range s.closers {
		c()
	}
	s.it, s.closers = nil, nil
}

func (s *itMergeSess) leaf(i int) (y.Iterator, error) {
	es := s.srcs[i]
	switch s.kinds[i] {
	case "skl":
		l := skl.NewSkiplist(1 << 16)
		// insert in a scrambled order; the list sorts
		perm := rand.New(rand.NewSource(int64(i) + 17)).Perm(len(es))
		for _, j := range perm {
			l.Put(es[j].key, itPayloadVS(es[j].val))
		}
		s.closers = append(s.closers, func() { l.DecrRef() })
		return l.NewUniIterator(s.rev), nil
	case "table":
		opts := table.Options{BlockSize: 64, BloomFalsePositive: 0.01, TableSize: 1 << 20}
		b := table.NewTableBuilder(opts)
		for _, e := range es {
			b.Add(e.key, itPayloadVS(e.val), 0)
		}
		s.tableID++
		tbl, err := table.OpenInMemoryTable(b.Finish(), s.tableID, &opts)
		b.Close()
		if err != nil {
			return nil, err
		}
		s.closers = append(s.closers, func() { _ = tbl.DecrRef() })
		opt := 0
		if s.rev {
			opt = table.REVERSED
		}
		return tbl.NewIterator(opt), nil
	default:
		return newItSliceIter(es, s.rev), nil
	}
}

// parse builds the real iterator tree; order = leaves left to right (= precedence order).
func (s *itMergeSess) parse(toks []string) (it y.Iterator, order []int, rest []string, isLeaf bool, err error) {
	if len(toks) == 0 {
		return nil, nil, nil, false, fmt.Errorf("short tree")
	}
	t := toks[0]
	n, e := strconv.Atoi(t[1:])
	if e != nil {
		return nil, nil, nil, false, e
	}
	switch t[0] {
	case 's':
		if n >= len(s.srcs) {
			return nil, nil, nil, false, fmt.Errorf("no source %d", n)
		}
		it, err := s.leaf(n)
		return it, []int{n}, toks[1:], true, err
	case 'm':
		rest = toks[1:]
		var its []y.Iterator
		leaf := false
		for j := 0; j < n; j++ {
			var c y.Iterator
			var o []int
			c, o, rest, leaf, err = s.parse(rest)
			if err != nil {
				return nil, nil, nil, false, err
			}
			its = append(its, c)
			order = append(order, o...)
		}
		return table.NewMergeIterator(its, s.rev), order, rest, n == 1 && leaf, nil
	}
	return nil, nil, nil, false, fmt.Errorf("bad token %s", t)
}

// itNaiveMerge is the oracle: sorted union, earliest source wins, in iteration order.
func itNaiveMerge(srcs [][]itEntry, order []int, rev bool) []itEntry {
	seen := map[string]bool{}
	var out []itEntry
	for _, i := range order {
		for _, e := range srcs[i] {
			if !seen[string(e.key)] {
				seen[string(e.key)] = true
				out = append(out, e)
			}
		}
	}
	sort.Slice(out, func(a, b int) bool {
		c := y.CompareKeys(out[a].key, out[b].key)
		if rev {
			return c > 0
		}
		return c < 0
	})
	return out
}

func itCur(it y.Iterator) (string, *itEntry) {
	if !it.Valid() {
		return "invalid", nil
	}
	e := itEntry{y.Copy(it.Key()), itVSPayload(it.Value())}
	return hx(e.key) + " " + hx(e.val), &e
}

func (s *itMergeSess) refCur() *itEntry {
	if s.refPos >= 0 && s.refPos < len(s.ref) {
		return &s.ref[s.refPos]
	}
	return nil
}

// itCheck compares what the implementation shows with the oracle's cursor.
func (s *itMergeSess) check(op string, got *itEntry) string {
	want := s.refCur()
	switch {
	case want == nil && got == nil:
		return ""
	case want == nil:
		return fmt.Sprintf("[merge-%s] valid at %s, sorted union is exhausted", op, hx(got.key))
	case got == nil:
		return fmt.Sprintf("[merge-%s] invalid, sorted union continues with %s", op, hx(want.key))
	case !bytes.Equal(got.key, want.key):
		return fmt.Sprintf("[merge-%s] at key %s, sorted union has %s", op, hx(got.key), hx(want.key))
	case !bytes.Equal(got.val, want.val):
		return fmt.Sprintf("[merge-earliest] key %s returned with value %s, earliest input has %s", hx(got.key), hx(got.val), hx(want.val))
	}
	return ""
}

func execMerge(ops []string, st *Stats) ([]string, []string) {
	outs := make([]string, len(ops))
	var oracle []string
	s := &itMergeSess{}
	fail := func(i int, msg string) {
		if msg != "" {
			oracle = append(oracle, fmt.Sprintf("line %d: %s :: %s", i+1, ops[i], msg))
		}
	}
	for i, l := range ops {
		w := strings.Fields(l)
		if len(w) == 0 {
			outs[i] = "bad-op"
			continue
		}
		st.Inc("op:" + w[0])
		outs[i] = safely(func() string {
			switch w[0] {
			case "reset":
				s.close()
				s = &itMergeSess{rev: len(w) > 1 && w[1] == "1", tableID: s.tableID}
				return "ok"
			case "src":
				idx, _ := strconv.Atoi(w[1])
				if idx != len(s.srcs) || len(w) < 3 {
					return "bad-op"
				}
				var es []itEntry
				for _, t := range w[3:] {
					kv := strings.Split(t, ":")
					if len(kv) != 2 {
						return "bad-op"
					}
					es = append(es, itEntry{unhx(kv[0]), unhx(kv[1])})
				}
				s.srcs = append(s.srcs, es)
				s.kinds = append(s.kinds, w[2])
				return "ok"
			case "build":
				it, order, rest, leaf, err := s.parse(w[1:])
				if err != nil || len(rest) != 0 {
					return "bad-op"
				}
				s.bare = leaf
				s.ref = itNaiveMerge(s.srcs, order, s.rev)
				s.refPos = len(s.ref)
				if it == nil {
					s.it = nil
					return "nil"
				}
				s.it = it
				return "ok"
			}
			if s.it == nil {
				return "noiter"
			}
			switch w[0] {
			case "rewind":
				s.it.Rewind()
				s.refPos = 0
				o, e := itCur(s.it)
				fail(i, s.check("rewind", e))
				return o
			case "seek":
				k := unhx(w[1])
				s.it.Seek(k)
				s.refPos = sort.Search(len(s.ref), func(j int) bool {
					c := y.CompareKeys(s.ref[j].key, k)
					if s.rev {
						return c <= 0
					}
					return c >= 0
				})
				o, e := itCur(s.it)
				fail(i, s.check("seek", e))
				return o
			case "next":
				if s.refCur() == nil && s.bare {
					// a bare leaf (NewMergeIterator of one input returns the input): Next on an
					// unpositioned/exhausted leaf is leaf-specific (skl asserts); not called.
					return "invalid"
				}
				s.it.Next()
				if s.refCur() != nil {
					s.refPos++
				}
				o, e := itCur(s.it)
				fail(i, s.check("next", e))
				return o
			case "drain":
				n, _ := strconv.Atoi(w[1])
				var parts []string
				for j := 0; j < n; j++ {
					if s.refCur() == nil && s.bare {
						break
					}
					_, e := itCur(s.it)
					fail(i, s.check("drain", e))
					if e == nil {
						break
					}
					parts = append(parts, hx(e.key)+":"+hx(e.val))
					s.it.Next()
					if s.refCur() != nil {
						s.refPos++
					}
				}
				if len(parts) == 0 {
					return "-"
				}
				return strings.Join(parts, " ")
			}
			return "bad-op"
		})
	}
	s.close()
	return outs, oracle
}

// ---------------------------------------------------------------- skl: generator

func itGenVS(rng *rand.Rand) []byte {
	vs := y.ValueStruct{Meta: byte(rng.Intn(4)), UserMeta: byte(rng.Intn(3))}
	switch rng.Intn(4) {
	case 0:
		vs.ExpiresAt = 0
	case 1:
		vs.ExpiresAt = uint64(rng.Intn(300))
	default:
		vs.ExpiresAt = genU64(rng)
	}
	vs.Value = genUserKey(rng, 0, 5)
	b := make([]byte, vs.EncodedSize())
	vs.Encode(b)
	return b
}

func genSkl(rng *rand.Rand, n int, st *Stats) []string {
	var ops []string
	for c := 0; c < n; c++ {
		ops = append(ops, "reset")
		pool := itKeyPool(rng, 2+rng.Intn(20))
		nops := 5 + rng.Intn(60)
		st.Inc("sklcase:" + sizeBucket(nops))
		itPos, uniPos := false, false // iterator probably positioned (generator's guess)
		for j := 0; j < nops; j++ {
			r := rng.Intn(100)
			// Next/Prev on an unpositioned iterator is a fatal assertion in Go ("panic" in both
			// outputs): keep a few, redirect most to a positioning call.
			if r >= 84 && r < 92 && !itPos && rng.Intn(8) != 0 {
				r = 70 + rng.Intn(14)
			}
			if r >= 97 && !uniPos && rng.Intn(8) != 0 {
				r = 93 + rng.Intn(4)
			}
			switch {
			case r < 40:
				k := pool[rng.Intn(len(pool))]
				ops = append(ops, fmt.Sprintf("put %s %s ?", hx(k), hx(itGenVS(rng))))
			case r < 52:
				ops = append(ops, "get "+hx(itSeekKey(rng, pool, st)))
			case r < 62:
				ops = append(ops, fmt.Sprintf("near %s %d %d", hx(itSeekKey(rng, pool, st)), rng.Intn(2), rng.Intn(2)))
			case r < 66:
				ops = append(ops, "tower")
			case r < 69:
				ops = append(ops, "dump")
			case r < 70:
				ops = append(ops, "empty")
			case r < 73:
				ops = append(ops, "first")
				itPos = true
			case r < 76:
				ops = append(ops, "last")
				itPos = true
			case r < 80:
				ops = append(ops, "seek "+hx(itSeekKey(rng, pool, st)))
				itPos = true
			case r < 84:
				ops = append(ops, "seekprev "+hx(itSeekKey(rng, pool, st)))
				itPos = true
			case r < 88:
				ops = append(ops, "next")
			case r < 92:
				ops = append(ops, "prev")
			case r < 93:
				ops = append(ops, fmt.Sprintf("uni %d", rng.Intn(2)))
				uniPos = false
			case r < 95:
				ops = append(ops, "urewind")
				uniPos = true
			case r < 97:
				ops = append(ops, "useek "+hx(itSeekKey(rng, pool, st)))
				uniPos = true
			default:
				ops = append(ops, "unext")
			}
		}
		// full scans both ways at the end
		ops = append(ops, "tower", "dump", "first")
		for j := 0; j < 3; j++ {
			ops = append(ops, "next")
		}
		ops = append(ops, "last")
		for j := 0; j < 3; j++ {
			ops = append(ops, "prev")
		}
	}
	return ops
}

// ---------------------------------------------------------------- skl: executor + oracle

// itRefMap is the oracle: entries sorted by CompareKeys, insert-or-replace.
type itRefMap struct{ es []itEntry }

func (m *itRefMap) lowerBound(k []byte) int { // first index with key >= k
	return sort.Search(len(m.es), func(i int) bool { return y.CompareKeys(m.es[i].key, k) >= 0 })
}
func (m *itRefMap) upperBound(k []byte) int { // first index with key > k
	return sort.Search(len(m.es), func(i int) bool { return y.CompareKeys(m.es[i].key, k) > 0 })
}
func (m *itRefMap) put(k, v []byte) (isNew bool) {
	i := m.lowerBound(k)
	if i < len(m.es) && bytes.Equal(m.es[i].key, k) {
		m.es[i].val = v
		return false
	}
	m.es = append(m.es, itEntry{})
	copy(m.es[i+1:], m.es[i:])
	m.es[i] = itEntry{k, v}
	return true
}

// near returns the index the four findNear modes must land on (-1: none).
func (m *itRefMap) near(k []byte, less, allowEqual bool) int {
	var i int
	switch {
	case !less && allowEqual:
		i = m.lowerBound(k)
	case !less && !allowEqual:
		i = m.upperBound(k)
	case less && allowEqual:
		i = m.upperBound(k) - 1
	default:
		i = m.lowerBound(k) - 1
	}
	if i < 0 || i >= len(m.es) {
		return -1
	}
	return i
}

func (m *itRefMap) at(i int) string {
	if i < 0 || i >= len(m.es) {
		return "invalid"
	}
	return hx(m.es[i].key) + " " + hx(m.es[i].val)
}

func (m *itRefMap) indexOf(k []byte) int {
	i := m.lowerBound(k)
	if i < len(m.es) && bytes.Equal(m.es[i].key, k) {
		return i
	}
	return -1
}

func itEncVS(v y.ValueStruct) []byte {
	v2 := v
	b := make([]byte, v2.EncodedSize())
	v2.Encode(b)
	return b
}

func itDecVS(b []byte) y.ValueStruct {
	var v y.ValueStruct
	v.Decode(b)
	v.Value = y.Copy(v.Value)
	return v
}

func itIterStr(valid bool, key func() []byte, val func() y.ValueStruct) string {
	if !valid {
		return "invalid"
	}
	return hx(key()) + " " + hx(itEncVS(val()))
}

// itCheckChain: sortedness / duplicate freedom of a chain of keys.
func itCheckChain(keys [][]byte) string {
	for i := 1; i < len(keys); i++ {
		c := y.CompareKeys(keys[i-1], keys[i])
		if c == 0 {
			return fmt.Sprintf("duplicate key %s", hx(keys[i]))
		}
		if c > 0 {
			return fmt.Sprintf("%s before %s", hx(keys[i-1]), hx(keys[i]))
		}
	}
	return ""
}

func itIsSubseq(sub, full [][]byte) bool {
	j := 0
	for _, k := range sub {
		for j < len(full) && !bytes.Equal(full[j], k) {
			j++
		}
		if j == len(full) {
			return false
		}
		j++
	}
	return true
}

func execSkl(ops []string, st *Stats) ([]string, []string) {
	outs := make([]string, len(ops))
	var oracle []string
	var l *skl.Skiplist
	var it *skl.Iterator
	var uni *skl.UniIterator
	ref := &itRefMap{}
	uniRev := false
	// ValueStructs handed out by Get / iterators alias the arena: what was read once must
	// never change, whatever is Put later.
	type heldVal struct {
		how         string
		alias, snap []byte
	}
	var held []heldVal
	hold := func(how string, v y.ValueStruct) {
		if v.Value != nil {
			held = append(held, heldVal{how, v.Value, y.Copy(v.Value)})
			if len(held) > 64 {
				held = held[1:]
			}
		}
	}
	closeAll := func() {
		if it != nil {
			it.Close()
		}
		if uni != nil {
			uni.Close()
		}
		if l != nil {
			l.DecrRef()
		}
		it, uni, l = nil, nil, nil
	}
	fail := func(i int, msg string) {
		if msg != "" {
			oracle = append(oracle, fmt.Sprintf("line %d: %s :: %s", i+1, ops[i], msg))
		}
	}
	for i, line := range ops {
		w := strings.Fields(line)
		if len(w) == 0 {
			outs[i] = "bad-op"
			continue
		}
		st.Inc("op:" + w[0])
		if w[0] != "reset" && l == nil {
			outs[i] = "bad-op"
			continue
		}
		outs[i] = safely(func() string {
			switch w[0] {
			case "reset":
				closeAll()
				held = nil
				l = skl.NewSkiplist(1 << 20)
				it = l.NewIterator()
				uni = l.NewUniIterator(false)
				uniRev = false
				ref = &itRefMap{}
				return "ok"
			case "put":
				k, v := unhx(w[1]), unhx(w[2])
				l.Put(k, itDecVS(v))
				isNew := ref.put(k, v)
				levels, ok := l.VerifLevels(len(ref.es) + 5)
				h := 0
				for _, ch := range levels {
					for _, ck := range ch {
						if bytes.Equal(ck, k) {
							h++
							break
						}
					}
				}
				if !ok {
					fail(i, "[skl-chain] a level chain does not end (cycle)")
				}
				if h == 0 {
					fail(i, "[skl-put-present] key absent from level 0 after Put")
					h = 1
				}
				if !isNew {
					h = 1 // height argument is irrelevant when the key exists
					st.Inc("put:replace")
				} else {
					st.Inc(fmt.Sprintf("put:new-h%d", h))
				}
				ops[i] = fmt.Sprintf("put %s %s %d", w[1], w[2], h)
				for _, hv := range held {
					if !bytes.Equal(hv.alias, hv.snap) {
						fail(i, fmt.Sprintf("[skl-value-mutated] a ValueStruct obtained earlier by %s changed under this Put: was %s, now %s", hv.how, hx(hv.snap), hx(hv.alias)))
						held = nil
						break
					}
				}
				// oracle: level 0 with values equals the sorted map
				if len(levels) > 0 {
					if len(levels[0]) != len(ref.es) {
						fail(i, fmt.Sprintf("[skl-put-map] level 0 has %d nodes, sorted map has %d", len(levels[0]), len(ref.es)))
					} else {
						for j := range ref.es {
							if !bytes.Equal(levels[0][j], ref.es[j].key) {
								fail(i, fmt.Sprintf("[skl-put-map] level 0 position %d is %s, sorted map has %s", j, hx(levels[0][j]), hx(ref.es[j].key)))
								break
							}
						}
					}
				}
				return "ok"
			case "get":
				k := unhx(w[1])
				vs := l.Get(k)
				hold("Get", vs)
				out := hx(itEncVS(vs)) + " " + utoa(vs.Version)
				want := "000000 0"
				if j := ref.near(k, false, true); j >= 0 && y.SameKey(k, ref.es[j].key) {
					want = hx(ref.es[j].val) + " " + utoa(y.ParseTs(ref.es[j].key))
				}
				if out != want {
					fail(i, fmt.Sprintf("[skl-get] Get returned %s, sorted map says %s", out, want))
				}
				return out
			case "near":
				k := unhx(w[1])
				less, eq := w[2] == "1", w[3] == "1"
				nk, found := l.VerifFindNear(k, less, eq)
				out := "nil"
				if nk != nil {
					out = hx(nk)
				}
				out += " " + fmt.Sprint(found)
				j := ref.near(k, less, eq)
				want := "nil"
				wfound := false
				if j >= 0 {
					want = hx(ref.es[j].key)
					wfound = bytes.Equal(ref.es[j].key, k)
				}
				want += " " + fmt.Sprint(wfound)
				if out != want {
					fail(i, fmt.Sprintf("[skl-findnear] findNear(less=%v,allowEqual=%v) = %s, sorted map says %s", less, eq, out, want))
				}
				return out
			case "tower":
				levels, ok := l.VerifLevels(len(ref.es) + 5)
				if !ok {
					fail(i, "[skl-chain] a level chain does not end (cycle)")
				}
				var parts []string
				for li, ch := range levels {
					if m := itCheckChain(ch); m != "" {
						fail(i, fmt.Sprintf("[skl-level-sorted] level %d: %s", li, m))
					}
					if li > 0 && !itIsSubseq(ch, levels[li-1]) {
						fail(i, fmt.Sprintf("[skl-level-sublist] level %d is not a sub-chain of level %d", li, li-1))
					}
					var ks []string
					for _, k := range ch {
						ks = append(ks, hx(k))
					}
					if len(ks) == 0 {
						parts = append(parts, "-")
					} else {
						parts = append(parts, strings.Join(ks, " "))
					}
				}
				return strings.Join(parts, " | ")
			case "dump":
				var parts []string
				x := l.NewIterator()
				defer x.Close()
				for x.SeekToFirst(); x.Valid(); x.Next() {
					parts = append(parts, hx(x.Key())+":"+hx(itEncVS(x.Value())))
					if len(parts) > len(ref.es)+5 {
						break
					}
				}
				var want []string
				for _, e := range ref.es {
					want = append(want, hx(e.key)+":"+hx(e.val))
				}
				if strings.Join(parts, " ") != strings.Join(want, " ") {
					fail(i, "[skl-iter-fwd] forward iteration differs from the sorted map")
				}
				// and backwards
				var back []string
				for x.SeekToLast(); x.Valid(); x.Prev() {
					back = append(back, hx(x.Key())+":"+hx(itEncVS(x.Value())))
					if len(back) > len(ref.es)+5 {
						break
					}
				}
				for a, b := 0, len(back)-1; a < b; a, b = a+1, b-1 {
					back[a], back[b] = back[b], back[a]
				}
				if strings.Join(back, " ") != strings.Join(want, " ") {
					fail(i, "[skl-iter-rev] reverse iteration differs from the reversed sorted map")
				}
				if len(parts) == 0 {
					return "-"
				}
				return strings.Join(parts, " ")
			case "empty":
				e := l.Empty()
				if e != (len(ref.es) == 0) {
					fail(i, "[skl-empty] Empty() disagrees with the sorted map")
				}
				return fmt.Sprint(e)
			case "first", "last", "seek", "seekprev", "next", "prev":
				// oracle position before the move (for next/prev)
				cur := -1
				if it.Valid() {
					cur = ref.indexOf(it.Key())
				}
				want := -1
				switch w[0] {
				case "first":
					it.SeekToFirst()
					if len(ref.es) > 0 {
						want = 0
					}
				case "last":
					it.SeekToLast()
					want = len(ref.es) - 1
				case "seek":
					k := unhx(w[1])
					it.Seek(k)
					want = ref.near(k, false, true)
				case "seekprev":
					k := unhx(w[1])
					it.SeekForPrev(k)
					want = ref.near(k, true, true)
				case "next":
					if !it.Valid() {
						return "panic" // y.AssertTrue(s.Valid()) is log.Fatal: not called
					}
					it.Next()
					want = cur + 1
					if want >= len(ref.es) {
						want = -1
					}
				case "prev":
					if !it.Valid() {
						return "panic"
					}
					it.Prev()
					want = cur - 1
				}
				out := itIterStr(it.Valid(), it.Key, it.Value)
				if it.Valid() {
					hold("Iterator."+w[0], it.Value())
				}
				if out != ref.at(want) {
					fail(i, fmt.Sprintf("[skl-iter-%s] iterator at %s, sorted map says %s", w[0], out, ref.at(want)))
				}
				return out
			case "uni":
				uni.Close()
				uni = l.NewUniIterator(w[1] == "1")
				uniRev = w[1] == "1"
				return "ok"
			case "urewind", "useek", "unext":
				cur := -1
				if uni.Valid() {
					cur = ref.indexOf(uni.Key())
				}
				want := -1
				switch w[0] {
				case "urewind":
					uni.Rewind()
					if uniRev {
						want = len(ref.es) - 1
					} else if len(ref.es) > 0 {
						want = 0
					}
				case "useek":
					k := unhx(w[1])
					uni.Seek(k)
					want = ref.near(k, uniRev, true)
				case "unext":
					if !uni.Valid() {
						return "panic"
					}
					uni.Next()
					if uniRev {
						want = cur - 1
					} else {
						want = cur + 1
						if want >= len(ref.es) {
							want = -1
						}
					}
				}
				out := itIterStr(uni.Valid(), uni.Key, uni.Value)
				if uni.Valid() {
					hold("UniIterator."+w[0], uni.Value())
				}
				if out != ref.at(want) {
					fail(i, fmt.Sprintf("[skl-uni-%s] UniIterator(reversed=%v) at %s, sorted map says %s", w[0], uniRev, out, ref.at(want)))
				}
				return out
			}
			return "bad-op"
		})
	}
	closeAll()
	return outs, oracle
}

// ---------------------------------------------------------------- sklstress (no model)

// One op line per case:
//
//	stress  <seed> <writers> <keys> <putsPerWriter> <readers>
//	    writers Put concurrently (overlapping key sets, values tagged writer/sequence), readers
//	    concurrently run Get / forward / reverse iteration and check what they see;
//	torn    <seed> <writers> <hotkeys> <putsPerWriter> <readers>
//	    writers overwrite a few hot internal keys with self-describing values of different
//	    sizes (often strictly shrinking); readers keep the ValueStruct they got (it aliases
//	    the arena), yield, and verify that it is exactly one put and never changes;
//	tornseq <seed> <rounds>
//	    the same, channel-sequenced (no luck involved): read, signal the writer to
//	    overwrite with a shorter value, re-check the ValueStruct that was read.
func genSklStress(rng *rand.Rand, n int, st *Stats) []string {
	var ops []string
	for c := 0; c < n; c++ {
		switch c % 3 {
		case 0:
			ops = append(ops, fmt.Sprintf("stress %d %d %d %d %d", rng.Int63(), 2+rng.Intn(7), 4+rng.Intn(60), 200+rng.Intn(3000), 1+rng.Intn(4)))
		case 1:
			ops = append(ops, fmt.Sprintf("torn %d %d %d %d %d", rng.Int63(), 1+rng.Intn(4), 1+rng.Intn(4), 200+rng.Intn(1500), 1+rng.Intn(4)))
		default:
			ops = append(ops, fmt.Sprintf("tornseq %d %d", rng.Int63(), 2+rng.Intn(8)))
		}
	}
	return ops
}

func execSklStress(ops []string, st *Stats) ([]string, []string) {
	outs := make([]string, len(ops))
	var oracle []string
	for i, line := range ops {
		w := strings.Fields(line)
		var a []int
		okArgs := len(w) >= 2
		var seed int64
		if okArgs {
			var err error
			seed, err = strconv.ParseInt(w[1], 10, 64)
			okArgs = err == nil
			for _, x := range w[min(2, len(w)):] {
				v, err := strconv.Atoi(x)
				if err != nil || v < 0 || v > 1<<20 {
					okArgs = false
				}
				a = append(a, v)
			}
		}
		var msgs []string
		switch {
		case okArgs && w[0] == "stress" && len(a) == 4:
			msgs = itStressOnce(seed, a[0], a[1], a[2], a[3], st)
		case okArgs && w[0] == "torn" && len(a) == 4 && a[0] >= 1 && a[1] >= 1:
			msgs = itTornOnce(seed, a[0], a[1], a[2], a[3], st)
		case okArgs && w[0] == "tornseq" && len(a) == 1:
			msgs = itTornSeq(seed, a[0], st)
		default:
			outs[i] = "bad-op"
			continue
		}
		st.Inc("op:" + w[0])
		for _, m := range msgs {
			oracle = append(oracle, fmt.Sprintf("line %d: %s :: %s", i+1, line, m))
		}
		outs[i] = fmt.Sprintf("ok %d", len(msgs))
	}
	return outs, oracle
}

// ---- self-describing values: every field is a function of (key index, writer, seq, length)

var itTornSizes = []int{200, 120, 64, 33, 16, 9, 150, 40, 12, 8, 90, 89, 31, 10}

func itTornVS(ki, w, seq, n int) y.ValueStruct {
	v := make([]byte, n)
	v[0] = byte(w)
	v[1], v[2], v[3], v[4] = byte(seq>>24), byte(seq>>16), byte(seq>>8), byte(seq)
	v[5], v[6] = byte(n>>8), byte(n)
	v[7] = byte(ki)
	f := byte(w*31 + seq*7 + n + ki*13)
	for j := 8; j < n; j++ {
		v[j] = f
	}
	return y.ValueStruct{
		Meta:      byte(seq*5 + n),
		UserMeta:  byte(seq>>8) ^ byte(w<<4) ^ byte(ki),
		ExpiresAt: uint64(seq)*1000003 + uint64(w)*17 + uint64(n)<<40,
		Value:     v,
	}
}

// itTornValidate: "" iff meta, userMeta, expiresAt and every value byte are those of ONE
// put (ki, w, seq, n) that can have been issued for this key.
func itTornValidate(vs y.ValueStruct, ki, nw, maxSeq int) string {
	v := vs.Value
	if len(v) < 8 {
		return fmt.Sprintf("value of length %d", len(v))
	}
	w := int(v[0])
	seq := int(v[1])<<24 | int(v[2])<<16 | int(v[3])<<8 | int(v[4])
	n := int(v[5])<<8 | int(v[6])
	if w >= nw || seq >= maxSeq || int(v[7]) != ki {
		return fmt.Sprintf("header %s names no put issued for this key", hx(v[:8]))
	}
	if n != len(v) {
		return fmt.Sprintf("value written with length %d is returned with length %d", n, len(v))
	}
	want := itTornVS(ki, w, seq, n)
	if !bytes.Equal(want.Value, v) {
		return fmt.Sprintf("value bytes of put (writer %d, seq %d, len %d) mixed with another put: %s", w, seq, n, hx(v))
	}
	if vs.Meta != want.Meta || vs.UserMeta != want.UserMeta || vs.ExpiresAt != want.ExpiresAt {
		return fmt.Sprintf("value of put (writer %d, seq %d) with meta/userMeta/expiresAt %d/%d/%d of another put (its own: %d/%d/%d)",
			w, seq, vs.Meta, vs.UserMeta, vs.ExpiresAt, want.Meta, want.UserMeta, want.ExpiresAt)
	}
	return ""
}

// itHeldVS is a ValueStruct a reader keeps: Value aliases the arena.
type itHeldVS struct {
	how  string
	ki   int
	vs   y.ValueStruct
	snap []byte
}

// recheck: a value once read must still be the same put, byte for byte.
func (h *itHeldVS) recheck(nw, maxSeq int) string {
	if m := itTornValidate(h.vs, h.ki, nw, maxSeq); m != "" {
		return fmt.Sprintf("[skl-torn-value] ValueStruct obtained by %s is not one put any more: %s", h.how, m)
	}
	if !bytes.Equal(h.vs.Value, h.snap) {
		return fmt.Sprintf("[skl-value-mutated] ValueStruct obtained by %s changed after it was read: was %s, now %s", h.how, hx(h.snap), hx(h.vs.Value))
	}
	return ""
}

func itTornHotKeys(rng *rand.Rand, nhot int) [][]byte {
	// same user key AND same version are overwritten; neighbours share prefixes
	var keys [][]byte
	seen := map[string]bool{}
	for len(keys) < nhot {
		k := y.KeyWithTs(genUserKey(rng, 1, 3), uint64(rng.Intn(4)))
		if !seen[string(k)] {
			seen[string(k)] = true
			keys = append(keys, k)
		}
	}
	return keys
}

func itSpin(n int) {
	for i := 0; i < n; i++ {
		runtime.Gosched()
	}
}

// itTornOnce: free-running writers and readers on hot keys.
func itTornOnce(seed int64, nw, nhot, np, nr int, st *Stats) []string {
	rng := rand.New(rand.NewSource(seed))
	hot := itTornHotKeys(rng, nhot)
	idx := map[string]int{}
	for i, k := range hot {
		idx[string(k)] = i
	}
	l := skl.NewSkiplist(int64(nw*np+nhot+16)*int64(256) + int64(nhot+4)*int64(skl.MaxNodeSize+64))
	defer l.DecrRef()
	var mu sync.Mutex
	var msgs []string
	report := func(m string) {
		if m == "" {
			return
		}
		mu.Lock()
		if len(msgs) < 5 {
			msgs = append(msgs, m)
		}
		mu.Unlock()
	}
	maxSeq := np + 1
	for ki, k := range hot { // every key starts with the longest value (writer 0, seq np)
		l.Put(k, itTornVS(ki, 0, np, itTornSizes[0]))
	}
	var stop atomic.Bool
	var wg, rg sync.WaitGroup
	for wr := 0; wr < nw; wr++ {
		wg.Add(1)
		go func(wr int) {
			defer wg.Done()
			r := rand.New(rand.NewSource(seed + int64(wr)*104729))
			n := itTornSizes[0]
			for seq := 0; seq < np; seq++ {
				ki := r.Intn(len(hot))
				// mostly walk down the size table (strictly shrinking runs), sometimes jump
				if r.Intn(4) == 0 {
					n = itTornSizes[r.Intn(len(itTornSizes))]
				} else {
					n = itTornSizes[(seq+wr)%len(itTornSizes)]
				}
				l.Put(hot[ki], itTornVS(ki, wr, seq, n))
				if seq%64 == 0 {
					runtime.Gosched()
				}
			}
		}(wr)
	}
	for rd := 0; rd < nr; rd++ {
		rg.Add(1)
		go func(rd int) {
			defer rg.Done()
			r := rand.New(rand.NewSource(seed - int64(rd) - 1))
			for !stop.Load() {
				var held []itHeldVS
				take := func(how string, ki int, vs y.ValueStruct) {
					if m := itTornValidate(vs, ki, nw, maxSeq); m != "" {
						report(fmt.Sprintf("[skl-torn-value] %s returned a ValueStruct that is not one put: %s", how, m))
						return
					}
					held = append(held, itHeldVS{how, ki, vs, y.Copy(vs.Value)})
				}
				switch r.Intn(4) {
				case 0, 1:
					ki := r.Intn(len(hot))
					take("Get", ki, l.Get(hot[ki]))
				case 2, 3:
					rev := r.Intn(2) == 0
					it := l.NewUniIterator(rev)
					for it.Rewind(); it.Valid(); it.Next() {
						if ki, ok := idx[string(it.Key())]; ok {
							take(fmt.Sprintf("UniIterator(reversed=%v).Value", rev), ki, it.Value())
						}
					}
					it.Close()
				}
				itSpin(1 + r.Intn(4))
				for j := range held {
					report(held[j].recheck(nw, maxSeq))
				}
			}
		}(rd)
	}
	wg.Wait()
	stop.Store(true)
	rg.Wait()
	for ki, k := range hot {
		if m := itTornValidate(l.Get(k), ki, nw, maxSeq); m != "" {
			report("[skl-torn-value] final Get: " + m)
		}
	}
	st.Inc("torn:writers:" + strconv.Itoa(nw))
	st.Inc("torn:hot:" + strconv.Itoa(nhot))
	return msgs
}

// itTornSeq: deterministic, channel-sequenced. For every round and every access path the
// reader obtains the ValueStruct of a hot key, then the writer overwrites that key with a
// strictly shorter value, then the reader re-checks what it holds.
func itTornSeq(seed int64, rounds int, st *Stats) []string {
	rng := rand.New(rand.NewSource(seed))
	hot := itTornHotKeys(rng, 3)
	sort.Slice(hot, func(a, b int) bool { return y.CompareKeys(hot[a], hot[b]) < 0 })
	l := skl.NewSkiplist(1 << 20)
	defer l.DecrRef()
	var msgs []string
	report := func(m string) {
		if m != "" && len(msgs) < 5 {
			msgs = append(msgs, m)
		}
	}
	paths := []string{"Get", "Iterator.Seek+Value", "UniIterator(reversed=false).Value", "UniIterator(reversed=true).Value"}
	maxSeq := rounds*len(paths)*2*len(hot) + 16
	seq := 0
	for ki, k := range hot {
		l.Put(k, itTornVS(ki, 0, seq, 40))
		seq++
	}
	for r := 0; r < rounds; r++ {
		for _, path := range paths {
			ki := rng.Intn(len(hot))
			long := itTornSizes[rng.Intn(3)]    // 200, 120, 64
			short := itTornSizes[3+rng.Intn(3)] // 33, 16, 9
			toWriter := make(chan struct{})
			toReader := make(chan struct{})
			var wg sync.WaitGroup
			wg.Add(2)
			seqLong, seqShort := seq, seq+1
			seq += 2
			go func() { // writer
				defer wg.Done()
				l.Put(hot[ki], itTornVS(ki, 1, seqLong, long))
				toReader <- struct{}{}
				<-toWriter
				l.Put(hot[ki], itTornVS(ki, 1, seqShort, short)) // strictly smaller encoding
				toReader <- struct{}{}
			}()
			go func() { // reader
				defer wg.Done()
				<-toReader
				var held []itHeldVS
				take := func(ki int, vs y.ValueStruct) {
					if m := itTornValidate(vs, ki, 2, maxSeq); m != "" {
						report(fmt.Sprintf("[skl-torn-value] %s returned a ValueStruct that is not one put: %s", path, m))
						return
					}
					held = append(held, itHeldVS{path, ki, vs, y.Copy(vs.Value)})
				}
				switch path {
				case "Get":
					take(ki, l.Get(hot[ki]))
				case "Iterator.Seek+Value":
					it := l.NewIterator()
					it.Seek(hot[ki])
					if it.Valid() {
						take(ki, it.Value())
					}
					it.Close()
				default:
					it := l.NewUniIterator(strings.Contains(path, "=true"))
					for it.Rewind(); it.Valid(); it.Next() {
						for kj := range hot {
							if bytes.Equal(it.Key(), hot[kj]) {
								take(kj, it.Value())
							}
						}
					}
					it.Close()
				}
				if len(held) == 0 {
					report("[skl-torn-value] " + path + " found no entry for a key that was Put")
				}
				toWriter <- struct{}{}
				<-toReader
				for j := range held {
					report(held[j].recheck(2, maxSeq))
				}
			}()
			wg.Wait()
		}
	}
	st.Inc("tornseq:rounds:" + sizeBucket(rounds))
	return msgs
}

func itStressOnce(seed int64, nw, nk, np, nr int, st *Stats) []string {
	rng := rand.New(rand.NewSource(seed))
	pool := itKeyPool(rng, nk)
	l := skl.NewSkiplist(int64(nw*np+nk+10) * int64(skl.MaxNodeSize+64))
	defer l.DecrRef()
	var mu sync.Mutex
	var msgs []string
	report := func(m string) {
		mu.Lock()
		if len(msgs) < 5 {
			msgs = append(msgs, m)
		}
		mu.Unlock()
	}
	// value = writer id, sequence number (big endian 4 bytes)
	mkVal := func(wr, seq int) []byte {
		return []byte{byte(wr), byte(seq >> 24), byte(seq >> 16), byte(seq >> 8), byte(seq)}
	}
	// completed[k] = per writer the last completed sequence number on key k
	type done struct{ seq []int32 }
	completed := make([]done, len(pool))
	for i := range completed {
		completed[i].seq = make([]int32, nw)
		for j := range completed[i].seq {
			completed[i].seq[j] = -1
		}
	}
	var stop atomic.Bool
	var wg, rg sync.WaitGroup
	for wr := 0; wr < nw; wr++ {
		wg.Add(1)
		go func(wr int) {
			defer wg.Done()
			r := rand.New(rand.NewSource(seed + int64(wr)*7919))
			for seq := 0; seq < np; seq++ {
				ki := r.Intn(len(pool))
				l.Put(pool[ki], y.ValueStruct{Value: mkVal(wr, seq)})
				atomic.StoreInt32(&completed[ki].seq[wr], int32(seq))
			}
		}(wr)
	}
	checkScan := func(rev bool) {
		it := l.NewUniIterator(rev)
		defer it.Close()
		var prev []byte
		n := 0
		for it.Rewind(); it.Valid(); it.Next() {
			k := y.Copy(it.Key())
			if prev != nil {
				c := y.CompareKeys(prev, k)
				if rev {
					c = -c
				}
				if c == 0 {
					report(fmt.Sprintf("[skl-conc-dup] scan(reversed=%v) returned key %s twice", rev, hx(k)))
					return
				}
				if c > 0 {
					report(fmt.Sprintf("[skl-conc-sorted] scan(reversed=%v) returned %s after %s", rev, hx(k), hx(prev)))
					return
				}
			}
			v := it.Value().Value
			if len(v) != 5 || int(v[0]) >= nw {
				report(fmt.Sprintf("[skl-conc-torn] scan saw a value that no Put wrote: %s", hx(v)))
				return
			}
			prev = k
			if n++; n > len(pool)+1 {
				report("[skl-conc-dup] scan returned more entries than distinct keys")
				return
			}
		}
	}
	for rd := 0; rd < nr; rd++ {
		rg.Add(1)
		go func(rd int) {
			defer rg.Done()
			r := rand.New(rand.NewSource(seed - int64(rd) - 1))
			for !stop.Load() {
				switch r.Intn(3) {
				case 0:
					checkScan(false)
				case 1:
					checkScan(true)
				default:
					ki := r.Intn(len(pool))
					target := pool[ki]
					// Get(target) returns the first entry >= target with the same user key, i.e.
					// target itself once it has been Put, else an older version of the user key.
					// Snapshot, before the Get, what every writer had completed on these keys.
					var cands []int
					for kj := range pool {
						if y.SameKey(pool[kj], target) && y.ParseTs(pool[kj]) <= y.ParseTs(target) {
							cands = append(cands, kj)
						}
					}
					before := map[int][]int32{}
					exactDone := false
					for _, kj := range cands {
						b := make([]int32, nw)
						for wr := range b {
							b[wr] = atomic.LoadInt32(&completed[kj].seq[wr])
							if kj == ki && b[wr] >= 0 {
								exactDone = true
							}
						}
						before[kj] = b
					}
					vs := l.Get(target)
					if vs.Value == nil {
						if exactDone {
							report(fmt.Sprintf("[skl-conc-lost] Get(%s) found nothing after a completed Put", hx(target)))
						}
						continue
					}
					v := vs.Value
					if len(v) != 5 || int(v[0]) >= nw {
						report(fmt.Sprintf("[skl-conc-torn] Get saw a value that no Put wrote: %s", hx(v)))
						continue
					}
					found := -1
					for _, kj := range cands {
						if y.ParseTs(pool[kj]) == vs.Version {
							found = kj
						}
					}
					if found < 0 {
						report(fmt.Sprintf("[skl-conc-get] Get(%s) returned Version %d: no such version of this user key <= the target was ever Put", hx(target), vs.Version))
						continue
					}
					if exactDone && found != ki {
						report(fmt.Sprintf("[skl-conc-stale] Get(%s) returned older version %d after a Put of the exact key completed", hx(target), vs.Version))
						continue
					}
					seq := int32(v[1])<<24 | int32(v[2])<<16 | int32(v[3])<<8 | int32(v[4])
					if seq < before[found][v[0]] {
						// an older write of the same writer on the same key after a newer one completed
						report(fmt.Sprintf("[skl-conc-stale] Get(%s) returned writer %d seq %d after its seq %d on that key completed", hx(target), v[0], seq, before[found][v[0]]))
					}
				}
			}
		}(rd)
	}
	wg.Wait()
	stop.Store(true)
	rg.Wait()
	// quiescent checks: every level sorted and duplicate free, level i+1 ⊆ level i,
	// every key that was Put is present exactly once with the value of some writer's last Put.
	levels, ok := l.VerifLevels(len(pool) + 5)
	if !ok {
		report("[skl-conc-chain] a level chain does not end")
	}
	for li, ch := range levels {
		if m := itCheckChain(ch); m != "" {
			report(fmt.Sprintf("[skl-conc-sorted] level %d: %s", li, m))
		}
		if li > 0 && !itIsSubseq(ch, levels[li-1]) {
			report(fmt.Sprintf("[skl-conc-sublist] level %d is not a sub-chain of level %d", li, li-1))
		}
	}
	present := map[string]bool{}
	if len(levels) > 0 {
		for _, k := range levels[0] {
			present[string(k)] = true
		}
	}
	nput := 0
	for ki := range pool {
		var lasts [][]byte
		for wr := 0; wr < nw; wr++ {
			if s := completed[ki].seq[wr]; s >= 0 {
				lasts = append(lasts, mkVal(wr, int(s)))
			}
		}
		if len(lasts) == 0 {
			if present[string(pool[ki])] {
				report(fmt.Sprintf("[skl-conc-phantom] key %s present but never Put", hx(pool[ki])))
			}
			continue
		}
		nput++
		if !present[string(pool[ki])] {
			report(fmt.Sprintf("[skl-conc-lost] key %s was Put but is absent from level 0", hx(pool[ki])))
			continue
		}
		got := l.Get(pool[ki]).Value
		okv := false
		for _, lv := range lasts {
			if bytes.Equal(lv, got) {
				okv = true
			}
		}
		if !okv {
			report(fmt.Sprintf("[skl-conc-final] final value of %s is %s, not the last Put of any writer", hx(pool[ki]), hx(got)))
		}
	}
	st.Inc("stress:writers:" + strconv.Itoa(nw))
	st.Inc("stress:keys:" + sizeBucket(nput))
	return msgs
}

// ---------------------------------------------------------------- sklsched (C22, concurrent T-corr)
//
// Concurrent Puts of the real skiplist under an EXPLICIT schedule, compared step by step with
// the SkipConc Lean model. Put parks at its schedule points (skl.VerifSetSklHook; points: start,
// before setValue, before the height CAS, before every tower CAS, after a failed tower CAS);
// exactly one goroutine runs at a time.
//   reset
//   pre   <key> <vs> <h|?>        sequential Put before the race                       -> ok
//   spawn <t> <key> <vs> <h|?>    goroutine t = 0,1,.. starts Put and parks at its entry -> start
//                                 (`?`: Exec writes the height randomHeight() drew, 1 if none)
//   sched <t,t,...>               goroutine t runs to its next point, for each t        -> tokens
//                                 start|setval|cash|cas<i>|casfail<i>|done
//   finish                        goroutines 0,1,.. in turn, each to completion         -> t:token,...
//   get <key> | tower | dump | height   as in engine skl, on the intermediate state

type itSchedG struct {
	key, val []byte
	resume   chan struct{}
	arrived  chan int
	done     bool
	at       int // id of the point it is parked at
	h        int
	line     int
}

func itSchedToken(id int) string {
	switch {
	case id == -1:
		return "done"
	case id == skl.VerifSklStart:
		return "start"
	case id == skl.VerifSklSetValue || id == skl.VerifSklRetrySet:
		return "setval"
	case id == skl.VerifSklHeightCAS:
		return "cash"
	case id >= skl.VerifSklCASFail && id < skl.VerifSklCASFail+100:
		return fmt.Sprintf("casfail%d", id-skl.VerifSklCASFail)
	case id >= skl.VerifSklCAS && id < skl.VerifSklCAS+100:
		return fmt.Sprintf("cas%d", id-skl.VerifSklCAS)
	}
	return fmt.Sprintf("point%d", id)
}

func genSklSched(rng *rand.Rand, n int, st *Stats) []string {
	var ops []string
	for c := 0; c < n; c++ {
		ops = append(ops, "reset")
		// small key set: few user keys, adjacent versions
		var pool [][]byte
		nu := 1 + rng.Intn(3)
		for u := 0; u < nu; u++ {
			uk := genUserKey(rng, 1, 2)
			for v := 0; v < 1+rng.Intn(3); v++ {
				pool = append(pool, y.KeyWithTs(uk, uint64(rng.Intn(4))))
			}
		}
		for j := rng.Intn(4); j > 0; j-- {
			ops = append(ops, fmt.Sprintf("pre %s %s ?", hx(pool[rng.Intn(len(pool))]), hx(itGenVS(rng))))
		}
		ng := 2 + rng.Intn(2)
		st.Inc(fmt.Sprintf("sched:goroutines:%d", ng))
		hotKey := pool[rng.Intn(len(pool))]
		for t := 0; t < ng; t++ {
			k := pool[rng.Intn(len(pool))]
			if rng.Intn(2) == 0 {
				k = hotKey // equal keys race
			}
			ops = append(ops, fmt.Sprintf("spawn %d %s %s ?", t, hx(k), hx(itGenVS(rng))))
		}
		chunks := 1 + rng.Intn(6)
		for j := 0; j < chunks; j++ {
			var ts []string
			for m := 1 + rng.Intn(6); m > 0; m-- {
				ts = append(ts, strconv.Itoa(rng.Intn(ng)))
			}
			ops = append(ops, "sched "+strings.Join(ts, ","))
			switch rng.Intn(4) {
			case 0:
				ops = append(ops, "get "+hx(pool[rng.Intn(len(pool))]))
			case 1:
				ops = append(ops, "tower")
			case 2:
				ops = append(ops, "dump")
			}
		}
		ops = append(ops, "finish", "height", "tower", "dump")
		for _, k := range pool {
			if rng.Intn(2) == 0 {
				ops = append(ops, "get "+hx(k))
			}
		}
	}
	return ops
}

func execSklSched(ops []string, st *Stats) ([]string, []string) {
	outs := make([]string, len(ops))
	var oracle []string
	var l *skl.Skiplist
	var gs []*itSchedG
	var cur *itSchedG
	mainH := 0
	ref := &itRefMap{}           // sorted map in linearisation order of the publishing accesses
	putKeys := map[string]bool{} // every key some Put was issued for
	fail := func(i int, msg string) {
		if msg != "" {
			oracle = append(oracle, fmt.Sprintf("line %d: %s :: %s", i+1, ops[i], msg))
		}
	}
	skl.VerifSetSklHook(func(id int) {
		g := cur
		if id >= skl.VerifSklHeight {
			if g != nil {
				g.h = id - skl.VerifSklHeight
			} else {
				mainH = id - skl.VerifSklHeight
			}
			return
		}
		if g == nil {
			return // the harness goroutine itself (pre): never parks
		}
		g.arrived <- id
		<-g.resume
	})
	defer skl.VerifSetSklHook(nil)
	// advance: goroutine g runs to its next point; returns the token
	advance := func(g *itSchedG) string {
		if g.done {
			return "done"
		}
		from := g.at
		cur = g
		g.resume <- struct{}{}
		id := <-g.arrived
		cur = nil
		g.at = id
		if id == -1 {
			g.done = true
		}
		tok := itSchedToken(id)
		// the access the goroutine was parked in front of has now been made
		switch {
		case from == skl.VerifSklSetValue || from == skl.VerifSklRetrySet:
			ref.put(g.key, g.val) // setValue: this Put's value is now the node's value
			st.Inc("sched:setvalue")
		case from == skl.VerifSklCAS: // level 0
			if id == skl.VerifSklCASFail {
				st.Inc("sched:cas-retry-level0")
			} else {
				ref.put(g.key, g.val) // linked on level 0: visible with its value
				st.Inc("sched:link-level0")
			}
		case from > skl.VerifSklCAS && from < skl.VerifSklCAS+100:
			if id >= skl.VerifSklCASFail && id < skl.VerifSklCASFail+100 {
				st.Inc("sched:cas-retry-upper")
			}
		case from == skl.VerifSklHeightCAS:
			st.Inc("sched:height-cas")
		}
		if from == skl.VerifSklCASFail && (id == skl.VerifSklRetrySet) {
			st.Inc("sched:equal-key-after-failed-cas")
		}
		return tok
	}
	finishAll := func() []string {
		var toks []string
		for t, g := range gs {
			for !g.done {
				toks = append(toks, fmt.Sprintf("%d:%s", t, advance(g)))
			}
		}
		return toks
	}
	closeSession := func() {
		finishAll()
		for _, g := range gs {
			if strings.HasSuffix(ops[g.line], " ?") {
				h := g.h
				if h == 0 {
					h = 1
				}
				ops[g.line] = strings.TrimSuffix(ops[g.line], "?") + strconv.Itoa(h)
			}
		}
		gs = nil
		if l != nil {
			l.DecrRef()
			l = nil
		}
	}
	checkState := func(i int, final bool) {
		levels, ok := l.VerifLevels(len(putKeys) + 8)
		if !ok {
			fail(i, "[skl-sched-chain] a level chain does not end")
		}
		for li, ch := range levels {
			if m := itCheckChain(ch); m != "" {
				fail(i, fmt.Sprintf("[skl-sched-sorted] level %d: %s", li, m))
			}
			if li > 0 && !itIsSubseq(ch, levels[li-1]) {
				fail(i, fmt.Sprintf("[skl-sched-sublist] level %d is not a sub-chain of level %d", li, li-1))
			}
		}
		// level 0 with values = the sorted map built in linearisation order
		var got, want []string
		x := l.NewIterator()
		for x.SeekToFirst(); x.Valid(); x.Next() {
			got = append(got, hx(x.Key())+":"+hx(itEncVS(x.Value())))
			if len(got) > len(putKeys)+8 {
				break
			}
		}
		x.Close()
		for _, e := range ref.es {
			want = append(want, hx(e.key)+":"+hx(e.val))
		}
		if strings.Join(got, " ") != strings.Join(want, " ") {
			fail(i, fmt.Sprintf("[skl-sched-winner] level 0 is %v, the publishing accesses in schedule order give %v", got, want))
		}
		if final {
			for k := range putKeys {
				if ref.indexOf([]byte(k)) < 0 {
					fail(i, fmt.Sprintf("[skl-sched-lost] key %s was Put and is absent", hx([]byte(k))))
				}
			}
		}
	}
	towerStr := func() string {
		levels, _ := l.VerifLevels(len(putKeys) + 8)
		var parts []string
		for _, ch := range levels {
			var ks []string
			for _, k := range ch {
				ks = append(ks, hx(k))
			}
			if len(ks) == 0 {
				parts = append(parts, "-")
			} else {
				parts = append(parts, strings.Join(ks, " "))
			}
		}
		return strings.Join(parts, " | ")
	}
	for i, line := range ops {
		w := strings.Fields(line)
		if len(w) == 0 || (w[0] != "reset" && l == nil) {
			outs[i] = "bad-op"
			continue
		}
		st.Inc("op:" + w[0])
		switch w[0] {
		case "reset":
			closeSession()
			l = skl.NewSkiplist(1 << 20)
			ref = &itRefMap{}
			putKeys = map[string]bool{}
			outs[i] = "ok"
		case "pre":
			if len(w) != 4 {
				outs[i] = "bad-op"
				break
			}
			k, v := unhx(w[1]), unhx(w[2])
			mainH = 0
			l.Put(k, itDecVS(v))
			ref.put(k, v)
			putKeys[string(k)] = true
			h := mainH
			if h == 0 {
				h = 1
			}
			ops[i] = fmt.Sprintf("pre %s %s %d", w[1], w[2], h)
			outs[i] = "ok"
		case "spawn":
			t, err := strconv.Atoi(w[1])
			if len(w) != 5 || err != nil || t != len(gs) {
				outs[i] = "bad-op"
				break
			}
			g := &itSchedG{key: unhx(w[2]), val: unhx(w[3]), resume: make(chan struct{}), arrived: make(chan int), line: i}
			if w[4] != "?" {
				ops[i] = strings.Join(w[:4], " ") + " ?"
			}
			gs = append(gs, g)
			putKeys[string(g.key)] = true
			cur = g
			go func(ll *skl.Skiplist) {
				ll.Put(g.key, itDecVS(g.val))
				g.arrived <- -1
			}(l)
			id := <-g.arrived
			cur = nil
			g.at = id
			outs[i] = itSchedToken(id)
		case "sched":
			var toks []string
			bad := len(w) != 2
			if !bad {
				for _, x := range strings.Split(w[1], ",") {
					t, err := strconv.Atoi(x)
					if err != nil || t < 0 || t >= len(gs) {
						bad = true
						break
					}
					toks = append(toks, advance(gs[t]))
				}
			}
			if bad {
				outs[i] = "bad-op"
				break
			}
			outs[i] = strings.Join(toks, ",")
			checkState(i, false)
		case "finish":
			toks := finishAll()
			if len(toks) == 0 {
				outs[i] = "-"
			} else {
				outs[i] = strings.Join(toks, ",")
			}
			checkState(i, true)
		case "get":
			k := unhx(w[1])
			vs := l.Get(k)
			out := hx(itEncVS(vs)) + " " + utoa(vs.Version)
			want := "000000 0"
			if j := ref.near(k, false, true); j >= 0 && y.SameKey(k, ref.es[j].key) {
				want = hx(ref.es[j].val) + " " + utoa(y.ParseTs(ref.es[j].key))
			}
			if out != want {
				fail(i, fmt.Sprintf("[skl-sched-get] Get between schedule points returned %s, the publishing accesses so far give %s", out, want))
			}
			outs[i] = out
		case "height":
			outs[i] = strconv.Itoa(l.VerifHeight())
		case "tower":
			outs[i] = towerStr()
		case "dump":
			var parts []string
			x := l.NewIterator()
			for x.SeekToFirst(); x.Valid(); x.Next() {
				parts = append(parts, hx(x.Key())+":"+hx(itEncVS(x.Value())))
				if len(parts) > len(putKeys)+8 {
					break
				}
			}
			x.Close()
			if len(parts) == 0 {
				outs[i] = "-"
			} else {
				outs[i] = strings.Join(parts, " ")
			}
		default:
			outs[i] = "bad-op"
		}
	}
	closeSession()
	return outs, oracle
}
