package main

// Engines of the "aux" area: "manifest" (C17, C09 manifest part), "bloom" (C19), "trie" (C32,
// trie level). The Lean side is lean/BadgerModel/Driver/AuxEng.lean (exe bmd_aux); the two files
// are kept in step.

import (
	"bytes"
	"context"
	"encoding/binary"
	"fmt"
	"hash/crc32"
	"math"
	"math/rand"
	"os"
	"path/filepath"
	"regexp"
	"sort"
	"strconv"
	"strings"
	"sync"
	"sync/atomic"
	"time"

	badger "github.com/dgraph-io/badger/v4"
	"github.com/dgraph-io/badger/v4/options"
	"github.com/dgraph-io/badger/v4/pb"
	"github.com/dgraph-io/badger/v4/table"
	"github.com/dgraph-io/badger/v4/trie"
	"github.com/dgraph-io/badger/v4/y"
	"google.golang.org/protobuf/proto"
)

func init() {
	engines["manifest"] = &Engine{Gen: genManifest, Exec: execManifest}
	engines["bloom"] = &Engine{Gen: genBloom, Exec: execBloom}
	engines["trie"] = &Engine{Gen: genTrie, Exec: execTrie}
	engines["subscribe"] = &Engine{Gen: genSubscribe, Exec: execSubscribe}
}

func auxScratch() string {
	d := os.Getenv("VERIF_SCRATCH")
	if d == "" {
		d = "/root/scratch/aux-harness"
	}
	d = filepath.Join(d, "aux")
	_ = os.MkdirAll(d, 0o755)
	return d
}

func rleStrings(rs []string) string {
	var out []string
	for i := 0; i < len(rs); {
		j := i
		for j < len(rs) && rs[j] == rs[i] {
			j++
		}
		out = append(out, fmt.Sprintf("%d*%s", j-i, rs[i]))
		i = j
	}
	return strings.Join(out, " ")
}

// =====================================================================================
// manifest
// =====================================================================================

var castagnoli = crc32.MakeTable(crc32.Castagnoli)

// mdump is the canonical, comparable content of a badger.Manifest.
type mdump struct {
	tables string // id:level:keyid:comp;...
	levels string // ids.ids|ids|... (as they are)
	norm   string // levels without trailing empty levels
	c, d   int
	n      int
}

func dumpOf(m *badger.Manifest) mdump {
	ids := make([]uint64, 0, len(m.Tables))
	for id := range m.Tables {
		ids = append(ids, id)
	}
	sort.Slice(ids, func(i, j int) bool { return ids[i] < ids[j] })
	var ts []string
	for _, id := range ids {
		tm := m.Tables[id]
		ts = append(ts, fmt.Sprintf("%d:%d:%d:%d", id, tm.Level, tm.KeyID, uint32(tm.Compression)))
	}
	var ls []string
	for _, l := range m.Levels {
		lids := make([]uint64, 0, len(l.Tables))
		for id := range l.Tables {
			lids = append(lids, id)
		}
		sort.Slice(lids, func(i, j int) bool { return lids[i] < lids[j] })
		var s []string
		for _, id := range lids {
			s = append(s, utoa(id))
		}
		ls = append(ls, strings.Join(s, "."))
	}
	norm := append([]string{}, ls...)
	for len(norm) > 0 && norm[len(norm)-1] == "" {
		norm = norm[:len(norm)-1]
	}
	return mdump{tables: strings.Join(ts, ";"), levels: strings.Join(ls, "|"), norm: strings.Join(norm, "|"),
		c: m.Creations, d: m.Deletions, n: len(m.Tables)}
}

func (d mdump) String() string {
	return fmt.Sprintf("c=%d,d=%d,t=[%s],l=[%s]", d.c, d.d, d.tables, d.levels)
}

var (
	reVersion = regexp.MustCompile(`unsupported version: (\d+) `)
	reExists  = regexp.MustCompile(`MANIFEST invalid, table (\d+) exists`)
)

func manifestErrStr(err error) string {
	switch badger.VerifManifestErrKind(err) {
	case "":
		return "ok"
	case "bad-magic":
		return "err:bad-magic"
	case "bad-checksum":
		return "err:bad-checksum"
	}
	s := err.Error()
	if m := reVersion.FindStringSubmatch(s); m != nil {
		return "err:version:" + m[1]
	}
	if m := reExists.FindStringSubmatch(s); m != nil {
		return "err:exists:" + m[1]
	}
	switch {
	case strings.Contains(s, "external magic number doesn't match"):
		return "err:ext-magic"
	case strings.Contains(s, "greater than file size"):
		return "err:len-exceeds-file"
	case strings.Contains(s, "invalid manifestChange op"):
		return "err:invalid-op"
	case strings.Contains(s, "proto:"), strings.Contains(s, "wire-format"):
		return "err:decode"
	}
	return "err:other:" + strings.ReplaceAll(s, " ", "_")
}

type replayRes struct {
	err string // "ok" or err:...
	off int64
	d   mdump
}

func (r replayRes) String() string {
	if r.err != "ok" {
		return r.err
	}
	return fmt.Sprintf("ok %d %s", r.off, r.d)
}

func (r replayRes) digest() string {
	if r.err != "ok" {
		return r.err
	}
	return fmt.Sprintf("ok:%d:%d:%d:%d", r.off, r.d.n, r.d.c, r.d.d)
}

type manifestSession struct {
	dir      string
	vmf      *badger.VerifManifestFile
	ext      uint16
	thr      int
	seq      int
	hist     map[int64]mdump // file length -> in-memory manifest when the file had that length
	countsOK bool            // in-memory counters comparable with replay counters (no reopen since)
	bigLevel bool            // some create used a level >= 256 (Levels and Tables disagree by design)
	rewrite  bool            // first frame was written by helpRewrite from a Go map (random order)
	diverged bool            // an addChanges failed: the in-memory manifest is partially modified (error path, no oracle)
	torn     bool            // the handle was obtained by reopening a file with a torn tail
}

func (s *manifestSession) path() string { return filepath.Join(s.dir, badger.ManifestFilename) }

func (s *manifestSession) fileBytes() []byte {
	b, err := os.ReadFile(s.path())
	if err != nil {
		panic(err)
	}
	return b
}

// replayBytes runs the real ReplayManifestFile on a file with the given content.
func (s *manifestSession) replayBytes(b []byte, ext uint16) replayRes {
	p := filepath.Join(s.dir, "REPLAY-IMAGE")
	if err := os.WriteFile(p, b, 0o644); err != nil {
		panic(err)
	}
	fp, err := os.Open(p)
	if err != nil {
		panic(err)
	}
	defer fp.Close()
	m, off, err := badger.VerifReplayManifestFile(fp, ext)
	if err != nil {
		return replayRes{err: manifestErrStr(err)}
	}
	return replayRes{err: "ok", off: off, d: dumpOf(&m)}
}

// lastFrameStart: offset of the last complete frame of a well-formed file (8 if none).
func lastFrameStart(b []byte) int {
	off, last := 8, 8
	for off+8 <= len(b) {
		l := int(binary.BigEndian.Uint32(b[off : off+4]))
		if off+8+l > len(b) {
			break
		}
		last = off
		off += 8 + l
	}
	return last
}

// canonicalFile re-marshals the first frame with its changes sorted by id when that frame
// came out of helpRewrite (Go map order), so that it can be compared byte for byte.
func (s *manifestSession) canonicalFile() []byte {
	b := s.fileBytes()
	if !s.rewrite || len(b) < 16 {
		return b
	}
	l := int(binary.BigEndian.Uint32(b[8:12]))
	if 16+l > len(b) {
		return b
	}
	payload := b[16 : 16+l]
	if crc32.Checksum(payload, castagnoli) != binary.BigEndian.Uint32(b[12:16]) {
		return b
	}
	var cs pb.ManifestChangeSet
	if err := proto.Unmarshal(payload, &cs); err != nil {
		return b
	}
	sort.SliceStable(cs.Changes, func(i, j int) bool { return cs.Changes[i].Id < cs.Changes[j].Id })
	np, err := proto.Marshal(&cs)
	if err != nil || len(np) != l {
		return b
	}
	out := append([]byte{}, b[:8]...)
	var lc [8]byte
	binary.BigEndian.PutUint32(lc[0:4], uint32(len(np)))
	binary.BigEndian.PutUint32(lc[4:8], crc32.Checksum(np, castagnoli))
	out = append(out, lc[:]...)
	out = append(out, np...)
	out = append(out, b[16+l:]...)
	return out
}

func parseChangeGo(w string) (*pb.ManifestChange, bool) {
	f := strings.Split(w, ":")
	switch {
	case f[0] == "c" && len(f) == 5:
		return badger.VerifNewCreateChange(atou(f[1]), int(atou(f[2])), atou(f[3]), uint32(atou(f[4]))), true
	case f[0] == "d" && len(f) == 2:
		return badger.VerifNewDeleteChange(atou(f[1])), true
	case f[0] == "x" && len(f) == 7:
		return &pb.ManifestChange{
			Id: atou(f[1]), Op: pb.ManifestChange_Operation(int32(uint32(atou(f[2])))), Level: uint32(atou(f[3])),
			KeyId: atou(f[4]), EncryptionAlgo: pb.EncryptionAlgo(int32(uint32(atou(f[5])))), Compression: uint32(atou(f[6])),
		}, true
	}
	return nil, false
}

func parseChangesGo(w string) ([]*pb.ManifestChange, bool) {
	if w == "-" {
		return nil, true
	}
	var out []*pb.ManifestChange
	for _, p := range strings.Split(w, ",") {
		c, ok := parseChangeGo(p)
		if !ok {
			return nil, false
		}
		out = append(out, c)
	}
	return out, true
}

func execManifest(ops []string, st *Stats) ([]string, []string) {
	outs := make([]string, len(ops))
	var oracle []string
	base := auxScratch()
	var s *manifestSession
	nsess := 0
	fail := func(i int, msg string) {
		oracle = append(oracle, fmt.Sprintf("line %d: %s :: %s", i+1, ops[i], msg))
	}
	closeSess := func() {
		if s != nil {
			if s.vmf != nil {
				_ = s.vmf.Close()
			}
			_ = os.RemoveAll(s.dir)
		}
		s = nil
	}
	defer closeSess()
	for i, l := range ops {
		w := strings.Fields(l)
		i := i
		st.Inc("op:" + w[0])
		outs[i] = safely(func() string {
			switch {
			case w[0] == "reset" && len(w) == 3:
				closeSess()
				nsess++
				thr, err := strconv.Atoi(w[1])
				if err != nil {
					return "bad-op"
				}
				s = &manifestSession{dir: filepath.Join(base, fmt.Sprintf("m%d", nsess)), ext: uint16(atou(w[2])), thr: thr,
					hist: map[int64]mdump{}, countsOK: true}
				_ = os.RemoveAll(s.dir)
				if err := os.MkdirAll(s.dir, 0o755); err != nil {
					panic(err)
				}
				vmf, m, err := badger.VerifOpenManifest(s.dir, s.ext, s.thr)
				if err != nil {
					return manifestErrStr(err)
				}
				s.vmf = vmf
				b := s.fileBytes()
				s.hist[8] = dumpOf(&m)
				s.hist[int64(len(b))] = dumpOf(vmf.Manifest())
				return "ok " + hx(b)
			case w[0] == "rawreplay" && len(w) == 3:
				tmp := s
				if tmp == nil {
					tmp = &manifestSession{dir: base}
				}
				return tmp.replayBytes(unhx(w[1]), uint16(atou(w[2]))).String()
			case w[0] == "marshal" && len(w) == 2:
				cs, ok := parseChangesGo(w[1])
				if !ok {
					return "bad-op"
				}
				b, err := proto.Marshal(&pb.ManifestChangeSet{Changes: cs})
				if err != nil {
					return "err:marshal"
				}
				return hx(b)
			case w[0] == "rawopen" && len(w) == 4:
				closeSess()
				nsess++
				thr, err := strconv.Atoi(w[3])
				if err != nil {
					return "bad-op"
				}
				s = &manifestSession{dir: filepath.Join(base, fmt.Sprintf("m%d", nsess)), ext: uint16(atou(w[2])), thr: thr,
					hist: map[int64]mdump{}, countsOK: false}
				_ = os.RemoveAll(s.dir)
				if err := os.MkdirAll(s.dir, 0o755); err != nil {
					panic(err)
				}
				if err := os.WriteFile(s.path(), unhx(w[1]), 0o644); err != nil {
					panic(err)
				}
				vmf, m, err := badger.VerifOpenManifest(s.dir, s.ext, s.thr)
				if err != nil {
					out := manifestErrStr(err)
					closeSess()
					return out
				}
				s.vmf = vmf
				b := s.fileBytes()
				s.hist[int64(len(b))] = dumpOf(vmf.Manifest())
				return fmt.Sprintf("ok %d %s %s", len(b), dumpOf(&m), dumpOf(vmf.Manifest()))
			}
			if s == nil || s.vmf == nil {
				return "bad-op"
			}
			switch {
			case w[0] == "add" && len(w) == 2:
				cs, ok := parseChangesGo(w[1])
				if !ok {
					return "bad-op"
				}
				for _, c := range cs {
					if c.Op == pb.ManifestChange_CREATE && c.Level >= 256 {
						s.bigLevel = true
					}
				}
				before, _ := os.Stat(s.path())
				c1, d1 := s.vmf.Manifest().Creations, s.vmf.Manifest().Deletions
				for _, c := range cs {
					if c.Op == pb.ManifestChange_CREATE {
						c1++
					} else {
						d1++
					}
				}
				wantRewrite := d1 > s.thr && d1 > 10*(c1-d1)
				err := s.vmf.AddChanges(cs)
				after, _ := os.Stat(s.path())
				d := dumpOf(s.vmf.Manifest())
				if err != nil {
					st.Inc("add:error")
					s.diverged = true
					s.hist = map[int64]mdump{}
					return manifestErrStr(err) + " " + d.String()
				}
				if rewrote := !os.SameFile(before, after); rewrote != wantRewrite {
					// the rule as documented: "rewrite if it'd shrink by 1/10 and it's big enough to care"
					fail(i, fmt.Sprintf("[rewrite-rule] rewrite=%v but deletions=%d creations=%d threshold=%d (rule: d > T && d > 10*(c-d))", rewrote, d1, c1, s.thr))
				}
				if !os.SameFile(before, after) {
					st.Inc("add:rewrite")
					s.rewrite = true
					s.countsOK = true
					s.hist = map[int64]mdump{8: dumpOf(ptr(badger.VerifCreateManifest()))}
				} else {
					st.Inc("add:append")
				}
				if !s.diverged {
					s.hist[after.Size()] = d
				}
				// oracle C17: replay of the real file == in-memory manifest
				r := s.replayBytes(s.fileBytes(), s.ext)
				if msg := s.compare(r, d, after.Size()); msg != "" && !s.diverged {
					if s.torn {
						fail(i, "[C17-append-after-recover-lost] change set appended through a handle reopened after a torn tail does not replay: "+msg)
					} else {
						fail(i, "[replay-exact] after addChanges: "+msg)
					}
				}
				return "ok " + d.String()
			case w[0] == "appendraw" && len(w) == 2:
				cs, ok := parseChangesGo(w[1])
				if !ok {
					return "bad-op"
				}
				payload, err := proto.Marshal(&pb.ManifestChangeSet{Changes: cs})
				if err != nil {
					return "err:marshal"
				}
				b := s.fileBytes()
				var lc [8]byte
				binary.BigEndian.PutUint32(lc[0:4], uint32(len(payload)))
				binary.BigEndian.PutUint32(lc[4:8], crc32.Checksum(payload, castagnoli))
				img := append(append(append([]byte{}, b...), lc[:]...), payload...)
				r := s.replayBytes(img, s.ext)
				// oracle (all-or-nothing): apply the set to a copy of the replayed manifest
				if base := s.replayBytes(b, s.ext); base.err == "ok" && !s.diverged {
					fp, _ := os.Open(filepath.Join(s.dir, "REPLAY-IMAGE"))
					m, _, _ := badger.VerifReplayManifestFile(fp, s.ext)
					fp.Close()
					aerr := badger.VerifApplyChangeSet(&m, &pb.ManifestChangeSet{Changes: cs})
					switch {
					case aerr != nil && r.err == "ok":
						fail(i, "[atomic-error] a change set whose application fails ("+manifestErrStr(aerr)+") is in the file, but replay succeeds: "+r.String())
					case aerr == nil && r.err != "ok":
						fail(i, "[replay-exact] appended valid change set, replay fails: "+r.err)
					case aerr == nil:
						if msg := s.sameState(r.d, dumpOf(&m)); msg != "" {
							fail(i, "[replay-exact] appended change set: "+msg)
						}
					}
				}
				return r.String()
			case w[0] == "leftover" && len(w) == 1:
				// plant the MANIFEST-REWRITE a rewrite of the CURRENT table set would have written
				// before crashing ahead of its rename (header + one set of creates, padded a little)
				m := s.vmf.Manifest()
				ids := make([]uint64, 0, len(m.Tables))
				for id := range m.Tables {
					ids = append(ids, id)
				}
				sort.Slice(ids, func(a, b int) bool { return ids[a] < ids[b] })
				var cs []*pb.ManifestChange
				for _, id := range ids {
					tm := m.Tables[id]
					cs = append(cs, badger.VerifNewCreateChange(id, int(tm.Level), tm.KeyID, uint32(tm.Compression)))
				}
				payload, err := proto.Marshal(&pb.ManifestChangeSet{Changes: cs})
				if err != nil {
					return "err:marshal"
				}
				img := []byte{'B', 'd', 'g', 'r', byte(s.ext >> 8), byte(s.ext), 0, 8}
				var lc [8]byte
				binary.BigEndian.PutUint32(lc[0:4], uint32(len(payload)))
				binary.BigEndian.PutUint32(lc[4:8], crc32.Checksum(payload, castagnoli))
				img = append(append(img, lc[:]...), payload...)
				if err := os.WriteFile(filepath.Join(s.dir, "MANIFEST-REWRITE"), img, 0o644); err != nil {
					panic(err)
				}
				st.Inc("leftover:tables=" + sizeBucket(len(ids)))
				return "ok"
			case w[0] == "file" && len(w) == 1:
				return hx(s.canonicalFile())
			case w[0] == "replay" && len(w) == 1:
				b := s.fileBytes()
				r := s.replayBytes(b, s.ext)
				if msg := s.compare(r, dumpOf(s.vmf.Manifest()), int64(len(b))); msg != "" && !s.diverged {
					fail(i, "[replay-exact] "+msg)
				}
				return r.String()
			case w[0] == "cut" && len(w) == 2:
				b := s.fileBytes()
				k := int(atou(w[1]))
				if k > len(b) {
					k = len(b)
				}
				r := s.replayBytes(b[:len(b)-k], s.ext)
				s.judgeCut(b, len(b)-k, r, func(m string) { fail(i, m) }, st)
				return r.String()
			case w[0] == "zero" && len(w) == 3:
				b := s.fileBytes()
				k, n := int(atou(w[1])), int(atou(w[2]))
				if k > len(b) {
					k = len(b)
				}
				img := append(append([]byte{}, b[:len(b)-k]...), make([]byte, n)...)
				r := s.replayBytes(img, s.ext)
				s.judgeZero(b, len(b)-k, img, r, func(m string) { fail(i, m) }, st)
				return r.String()
			case w[0] == "flip" && len(w) == 3:
				b := s.fileBytes()
				k, x := int(atou(w[1])), byte(atou(w[2]))
				if k == 0 || k > len(b) {
					return "bad-op"
				}
				img := append([]byte{}, b...)
				img[len(b)-k] ^= x
				r := s.replayBytes(img, s.ext)
				s.judgeFlip(b, len(b)-k, x, r, func(m string) { fail(i, m) }, st)
				return r.String()
			case w[0] == "cuts" && len(w) == 1:
				b := s.fileBytes()
				start := lastFrameStart(b)
				n := len(b) - start
				var rs []string
				agg := newFailAgg()
				for j := 0; j <= n; j++ {
					r := s.replayBytes(b[:start+j], s.ext)
					s.judgeCut(b, start+j, r, func(m string) { agg.add(start+j, m) }, st)
					rs = append(rs, r.digest())
				}
				agg.flush(func(m string) { fail(i, m) })
				return fmt.Sprintf("%d %d %s", start, n, rleStrings(rs))
			case w[0] == "zeros" && len(w) == 2:
				b := s.fileBytes()
				extra := int(atou(w[1]))
				start := lastFrameStart(b)
				n := len(b) - start
				var rs []string
				agg := newFailAgg()
				for j := 0; j <= n; j++ {
					img := append(append([]byte{}, b[:start+j]...), make([]byte, n-j+extra)...)
					r := s.replayBytes(img, s.ext)
					s.judgeZero(b, start+j, img, r, func(m string) { agg.add(start+j, m) }, st)
					rs = append(rs, r.digest())
				}
				agg.flush(func(m string) { fail(i, m) })
				return fmt.Sprintf("%d %d %s", start, n, rleStrings(rs))
			case (w[0] == "tear" || w[0] == "tearapp") && len(w) == 2:
				b := s.fileBytes()
				var img []byte
				if w[0] == "tear" {
					k := int(atou(w[1]))
					if k > len(b) {
						k = len(b)
					}
					img = append([]byte{}, b[:len(b)-k]...)
					// C17_trunc / C09_manifest_trunc on the image (F16 class included)
					s.judgeCut(b, len(img), s.replayBytes(img, s.ext), func(m string) { fail(i, m) }, st)
				} else {
					img = append(append([]byte{}, b...), unhx(w[1])...)
				}
				_ = s.vmf.Close()
				s.vmf = nil
				if err := os.WriteFile(s.path(), img, 0o644); err != nil {
					panic(err)
				}
				vmf, m, err := badger.VerifOpenManifest(s.dir, s.ext, s.thr)
				if err != nil {
					st.Inc(w[0] + ":open-error")
					return manifestErrStr(err)
				}
				s.vmf = vmf
				nb := s.fileBytes()
				s.torn = true
				s.countsOK = false
				if len(nb) <= 8 {
					s.rewrite = false // the frame written by helpRewrite is gone
				}
				dm, dc := dumpOf(&m), dumpOf(vmf.Manifest())
				if dm.tables != dc.tables {
					fail(i, "[replay-exact] clone of the replayed manifest has different tables")
				}
				if w[0] == "tearapp" {
					// a torn record after an intact file: exactly the intact file must be recovered
					if !bytes.Equal(nb, b) {
						fail(i, fmt.Sprintf("[trunc] torn record appended to a %d-byte MANIFEST: reopen leaves %d bytes", len(b), len(nb)))
					}
					if h, ok := s.hist[int64(len(b))]; ok && h.tables != dm.tables && !s.diverged {
						fail(i, "[trunc] torn record appended: recovered tables differ from the ones before the crash")
					}
				}
				s.hist = map[int64]mdump{int64(len(nb)): dc}
				st.Inc(w[0] + ":ok")
				return fmt.Sprintf("ok %d %s %s", len(nb), dm, dc)
			case w[0] == "reopen" && len(w) == 1:
				_ = s.vmf.Close()
				s.vmf = nil
				wantTables, haveWant := "", false
				if fi, err := os.Stat(s.path()); err == nil {
					if h, ok := s.hist[fi.Size()]; ok {
						wantTables, haveWant = h.tables, true
					}
				}
				vmf, m, err := badger.VerifOpenManifest(s.dir, s.ext, s.thr)
				if err != nil {
					if s.torn && !s.diverged {
						fail(i, "[C17-append-after-recover-lost] MANIFEST written through a handle recovered from a torn tail does not open: "+manifestErrStr(err))
					} else if !s.diverged {
						fail(i, "[replay-exact] reopen of an intact MANIFEST fails: "+manifestErrStr(err))
					}
					return manifestErrStr(err)
				}
				s.vmf = vmf
				b := s.fileBytes()
				if haveWant && !s.diverged && dumpOf(&m).tables != wantTables {
					if s.torn {
						fail(i, "[C17-append-after-recover-lost] reopen: replayed tables ["+dumpOf(&m).tables+"] differ from the in-memory ones before closing ["+wantTables+"]")
					} else {
						fail(i, "[replay-exact] reopen: replayed tables differ from the in-memory ones before closing")
					}
				}
				s.countsOK = false
				dm, dc := dumpOf(&m), dumpOf(vmf.Manifest())
				if dm.tables != dc.tables {
					fail(i, "[replay-exact] clone of the replayed manifest has different tables")
				}
				if h, ok := s.hist[int64(len(b))]; ok && h.tables != dm.tables {
					if s.torn {
						fail(i, "[C17-append-after-recover-lost] reopen after appends through a handle recovered from a torn tail: tables differ from the in-memory manifest before closing")
					} else {
						fail(i, "[replay-exact] reopen: tables differ from the in-memory manifest before closing")
					}
				}
				s.hist[int64(len(b))] = dc
				return fmt.Sprintf("ok %d %s %s", len(b), dm, dc)
			}
			return "bad-op"
		})
	}
	return outs, oracle
}

func ptr[T any](v T) *T { return &v }

// failAgg groups the oracle failures of a compound op (one replay per cut offset) by tag:
// one oracle line per tag, with the first failing offset and the number of offsets.
type failAgg struct {
	order []string
	first map[string]string
	count map[string]int
}

func newFailAgg() *failAgg { return &failAgg{first: map[string]string{}, count: map[string]int{}} }

func (a *failAgg) add(off int, msg string) {
	tag := msg
	if i := strings.IndexByte(msg, ']'); i > 0 {
		tag = msg[:i+1]
	}
	if a.count[tag] == 0 {
		a.order = append(a.order, tag)
		a.first[tag] = fmt.Sprintf("%s (first at cut offset %d", msg, off)
	}
	a.count[tag]++
}

func (a *failAgg) flush(fail func(string)) {
	for _, t := range a.order {
		fail(fmt.Sprintf("%s, %d cut offsets of this op)", a.first[t], a.count[t]))
	}
}

// compare: replay result against the in-memory manifest `want` for a file of `size` bytes.
func (s *manifestSession) compare(r replayRes, want mdump, size int64) string {
	if r.err != "ok" {
		return "replay failed: " + r.err
	}
	if r.off != size {
		return fmt.Sprintf("truncation offset %d != file size %d", r.off, size)
	}
	return s.sameState(r.d, want)
}

func (s *manifestSession) sameState(got, want mdump) string {
	if got.tables != want.tables {
		return fmt.Sprintf("tables differ: replay [%s] in-memory [%s]", got.tables, want.tables)
	}
	if s.countsOK && (got.c != want.c || got.d != want.d) {
		return fmt.Sprintf("counters differ: replay c=%d d=%d, in-memory c=%d d=%d", got.c, got.d, want.c, want.d)
	}
	if !s.bigLevel && got.norm != want.norm {
		return fmt.Sprintf("level sets differ: replay [%s] in-memory [%s]", got.norm, want.norm)
	}
	return ""
}

// frameAt returns start and payload length of the complete frame of b containing offset c
// (start <= c < end), or ok=false when c is in the header / at or beyond the end.
func frameAt(b []byte, c int) (start, l int, ok bool) {
	off := 8
	for off+8 <= len(b) {
		l := int(binary.BigEndian.Uint32(b[off : off+4]))
		if off+8+l > len(b) {
			return 0, 0, false
		}
		if c >= off && c < off+8+l {
			return off, l, true
		}
		off += 8 + l
	}
	return 0, 0, false
}

// judgeCut: C17_atomic_sets / C17_trunc / C09_manifest_trunc on the real code. `b` is the
// intact file, the image is b[:c].
func (s *manifestSession) judgeCut(b []byte, c int, r replayRes, fail func(string), st *Stats) {
	if c < 8 {
		return
	}
	start, l, inside := frameAt(b, c)
	if !inside { // c == len(b): intact file
		start = c
	}
	want, known := s.hist[int64(start)]
	if !known {
		st.Inc("cut:no-history")
		return
	}
	if inside && c >= start+8 && l > c {
		// the class of finding F16 (fixed): the frame length exceeds the size of the torn file;
		// the old length check turned this torn tail into an Open error
		st.Inc("cut:len-exceeds-torn-file")
	}
	st.Inc("cut:judged")
	if r.err != "ok" {
		fail("[trunc] replay of a file cut at " + strconv.Itoa(c) + " (frame start " + strconv.Itoa(start) + ") fails: " + r.err)
		return
	}
	if r.off != int64(start) {
		fail(fmt.Sprintf("[trunc] truncation offset %d, expected end of last complete frame %d", r.off, start))
	}
	if msg := s.sameState(r.d, want); msg != "" {
		fail("[atomic] cut at " + strconv.Itoa(c) + ": manifest is not the one after the complete frames: " + msg)
	}
}

// judgeZero: C09 zero-filled variant. The image is b[:c] followed by zeros.
func (s *manifestSession) judgeZero(b []byte, c int, img []byte, r replayRes, fail func(string), st *Stats) {
	if c < 8 || params["judge"] == "c17" {
		// C17 does not speak about zero-filled tails (that is C09): compared with the model only.
		return
	}
	start, _, inside := frameAt(b, c)
	if !inside {
		start = c
	}
	want, known := s.hist[int64(start)]
	if !known {
		st.Inc("zero:no-history")
		return
	}
	// the image may coincide with an intact prefix containing the whole frame (zero bytes cut
	// and refilled): then the frame counts as written.
	if inside {
		_, l, _ := frameAt(b, c)
		end := start + 8 + l
		if len(img) >= end && bytes.Equal(img[:end], b[:end]) {
			if w2, ok := s.hist[int64(end)]; ok {
				want = w2
				st.Inc("zero:image-identical")
			}
		}
	}
	if r.err != "ok" {
		if inside && c > start {
			st.Inc("zero:F5")
			fail("[F5:manifest-zero-tail] last frame cut at " + strconv.Itoa(c-start) + " bytes and zero-filled: replay returns " + r.err)
			return
		}
		fail("[zero-tail] zeros after a complete frame make replay fail: " + r.err)
		return
	}
	st.Inc("zero:ok")
	if msg := s.sameState(r.d, want); msg != "" {
		fail("[zero-tail-state] zero-filled tail changes the recovered manifest: " + msg)
	}
}

// judgeFlip: C17_checksum_error. One byte at position p is xor-ed with x != 0.
func (s *manifestSession) judgeFlip(b []byte, p int, x byte, r replayRes, fail func(string), st *Stats) {
	if x == 0 {
		return
	}
	start, _, inside := frameAt(b, p)
	if !inside || p < start+4 {
		st.Inc("flip:header-or-length")
		return
	}
	st.Inc("flip:crc-or-payload")
	if r.err != "err:bad-checksum" {
		fail("[checksum-error] byte " + strconv.Itoa(p) + " (crc/payload of the frame at " + strconv.Itoa(start) +
			") altered, replay returns " + r.String() + " instead of the checksum error")
	}
}

// ---- generator ----

var manifestEdgeIDs = []uint64{0, 1, 127, 128, 16383, 16384, 1<<32 - 1, 1 << 32, 1<<63 - 1, 1 << 63, 1<<64 - 1}

func genManifest(rng *rand.Rand, n int, st *Stats) []string {
	var ops []string
	for cse := 0; cse < n; cse++ {
		ops = append(ops, genManifestSession(rng, st)...)
	}
	return ops
}

func genManifestSession(rng *rand.Rand, st *Stats) []string {
	thrs := []int{0, 0, 1, 2, 3, 5, 8, 10000, -1}
	exts := []int{0, 0, 1, 0x1234, 65535}
	thr, ext := thrs[rng.Intn(len(thrs))], exts[rng.Intn(len(exts))]
	ops := []string{fmt.Sprintf("reset %d %d", thr, ext)}
	st.Inc(fmt.Sprintf("threshold:%d", thr))
	live := map[uint64]bool{}
	var liveList []uint64
	used := map[uint64]bool{}
	next := uint64(1 + rng.Intn(3))
	freshID := func() uint64 {
		for {
			var id uint64
			if rng.Intn(8) == 0 {
				id = manifestEdgeIDs[rng.Intn(len(manifestEdgeIDs))]
			} else {
				id = next
				next += uint64(1 + rng.Intn(2))
			}
			if !used[id] {
				used[id] = true
				return id
			}
		}
	}
	level := func() int {
		switch rng.Intn(30) {
		case 0:
			return 255
		case 1:
			st.Inc("level>=256")
			return 256 + rng.Intn(50)
		}
		return rng.Intn(7)
	}
	keyID := func() uint64 {
		switch rng.Intn(4) {
		case 0:
			return 0
		case 1:
			return genU64(rng)
		}
		return uint64(rng.Intn(3))
	}
	comp := func() uint32 {
		if rng.Intn(10) == 0 {
			return []uint32{3, 255, 1 << 31, 1<<32 - 1}[rng.Intn(4)]
		}
		return uint32(rng.Intn(3))
	}
	nAdds := 4 + rng.Intn(24)
	deleteHeavy := rng.Intn(2) == 0
	tornSession := false
	planted := false
	for a := 0; a < nAdds; a++ {
		var cs []string
		sz := rng.Intn(6)
		if rng.Intn(12) == 0 {
			sz = 0
		}
		malformed := false
		for j := 0; j < sz; j++ {
			r := rng.Intn(100)
			switch {
			case (deleteHeavy && r < 45 || !deleteHeavy && r < 25) && len(liveList) > 0:
				k := rng.Intn(len(liveList))
				id := liveList[k]
				liveList = append(liveList[:k], liveList[k+1:]...)
				delete(live, id)
				cs = append(cs, fmt.Sprintf("d:%d", id))
				st.Inc("change:delete-live")
			case r < 55 && deleteHeavy || r < 32:
				// delete of an unknown table (allowed by the code)
				id := uint64(100000 + rng.Intn(50))
				if rng.Intn(3) == 0 && len(used) > 0 {
					id = next + 1000
				}
				if live[id] {
					continue
				}
				cs = append(cs, fmt.Sprintf("d:%d", id))
				st.Inc("change:delete-unknown")
			case r >= 97:
				malformed = true
				if rng.Intn(2) == 0 && len(liveList) > 0 {
					id := liveList[rng.Intn(len(liveList))]
					cs = append(cs, fmt.Sprintf("c:%d:%d:%d:%d", id, level(), keyID(), comp()))
					st.Inc("change:create-existing")
				} else {
					op := []uint32{2, 3, 1 << 31, 1<<32 - 1}[rng.Intn(4)]
					cs = append(cs, fmt.Sprintf("x:%d:%d:%d:%d:%d:%d", freshID(), op, level(), keyID(), rng.Intn(2), comp()))
					st.Inc("change:invalid-op")
				}
			default:
				id := freshID()
				live[id] = true
				liveList = append(liveList, id)
				if rng.Intn(15) == 0 {
					// a raw create with a non-default encryption_algo value
					cs = append(cs, fmt.Sprintf("x:%d:0:%d:%d:%d:%d", id, level(), keyID(), 1+rng.Intn(3), comp()))
				} else {
					cs = append(cs, fmt.Sprintf("c:%d:%d:%d:%d", id, level(), keyID(), comp()))
				}
				st.Inc("change:create")
			}
		}
		if len(cs) == 0 {
			ops = append(ops, "add -")
		} else {
			ops = append(ops, "add "+strings.Join(cs, ","))
		}
		st.Inc("setsize:" + strconv.Itoa(len(cs)))
		if !planted && len(liveList) >= 3 && rng.Intn(3) == 0 {
			// a crashed rewrite's MANIFEST-REWRITE for the current (large) table set; a later
			// automatic rewrite with fewer tables must not inherit its tail
			ops = append(ops, "leftover")
			planted = true
		}
		if malformed {
			// first as a frame appended to a copy of the file (replay must fail as a whole), then
			// through addChanges: the in-memory manifest may then be partially modified and
			// differ from the file, so the well-formed part of the session ends here.
			last := ops[len(ops)-1]
			ops[len(ops)-1] = "appendraw " + strings.TrimPrefix(last, "add ")
			ops = append(ops, last, "file", "replay")
			return ops
		}
		if rng.Intn(10) == 0 && len(cs) > 0 {
			ops = append(ops, "appendraw "+fmt.Sprintf("c:%d:%d:%d:%d", freshID(), level(), keyID(), comp()))
		}
		switch rng.Intn(12) {
		case 0:
			ops = append(ops, "cuts")
		case 1:
			ops = append(ops, fmt.Sprintf("zeros %d", []int{0, 0, 1, 7, 8, 9, 24}[rng.Intn(7)]))
		case 2:
			ops = append(ops, "replay")
		case 3:
			ops = append(ops, "file")
		case 4:
			ops = append(ops, fmt.Sprintf("cut %d", rng.Intn(40)))
		case 5:
			ops = append(ops, fmt.Sprintf("zero %d %d", 1+rng.Intn(30), rng.Intn(40)))
		case 6:
			ops = append(ops, fmt.Sprintf("flip %d %d", 1+rng.Intn(40), 1<<uint(rng.Intn(8))))
			ops = append(ops, fmt.Sprintf("flip %d %d", 1+rng.Intn(12), 1+rng.Intn(255)))
		case 7:
			if rng.Intn(3) == 0 {
				ops = append(ops, "reopen")
			}
		case 8, 9:
			// crash while appending, reopen, and keep appending through the recovered handle
			if rng.Intn(2) == 0 {
				switch rng.Intn(3) {
				case 0:
					ops = append(ops, fmt.Sprintf("tear %d", 1+rng.Intn(7)))
				case 1:
					ops = append(ops, fmt.Sprintf("tear %d", rng.Intn(30)))
				default:
					// torn record: 1..7 header bytes, or a full header (small length) with a short payload
					var t []byte
					if rng.Intn(2) == 0 {
						t = []byte{0, 0, 0, byte(1 + rng.Intn(40)), byte(rng.Intn(256)), byte(rng.Intn(256)), byte(rng.Intn(256))}[:1+rng.Intn(7)]
					} else {
						l := 2 + rng.Intn(14)
						t = []byte{0, 0, 0, byte(l), byte(rng.Intn(256)), byte(rng.Intn(256)), byte(rng.Intn(256)), byte(rng.Intn(256))}
						p := make([]byte, rng.Intn(l))
						rng.Read(p)
						t = append(t, p...)
					}
					ops = append(ops, "tearapp "+hx(t))
				}
				st.Inc("scenario:tear")
				tornSession = true
			}
		}
	}
	if planted {
		ops = append(ops, "reopen")
	}
	if tornSession {
		// close and reopen once more: everything appended after the recovery must replay
		ops = append(ops, "reopen")
	}
	ops = append(ops, "file", "replay", "cuts", "zeros 0")
	if rng.Intn(3) == 0 {
		ops = append(ops, genRawManifest(rng, st)...)
	}
	return ops
}

func pbVarint(v uint64) []byte { return binary.AppendUvarint(nil, v) }

// genRawManifest: malformed stream — arbitrary headers, frames with a valid CRC around
// damaged protobuf payloads, oversized lengths.
func genRawManifest(rng *rand.Rand, st *Stats) []string {
	var ops []string
	frame := func(payload []byte) []byte {
		var lc [8]byte
		binary.BigEndian.PutUint32(lc[0:4], uint32(len(payload)))
		binary.BigEndian.PutUint32(lc[4:8], crc32.Checksum(payload, castagnoli))
		return append(lc[:], payload...)
	}
	validSet := func() []byte {
		var cs []*pb.ManifestChange
		for i := 0; i < 1+rng.Intn(3); i++ {
			cs = append(cs, badger.VerifNewCreateChange(uint64(1000+rng.Intn(1000)*(i+1)+i), rng.Intn(7), genU64(rng), uint32(rng.Intn(3))))
		}
		b, _ := proto.Marshal(&pb.ManifestChangeSet{Changes: cs})
		return b
	}
	for k := 0; k < 1+rng.Intn(4); k++ {
		hdr := []byte{'B', 'd', 'g', 'r', 0, 0, 0, 8}
		ext := 0
		switch rng.Intn(10) {
		case 0:
			hdr[rng.Intn(4)] ^= byte(1 + rng.Intn(255))
			st.Inc("raw:bad-magic")
		case 1:
			hdr[6+rng.Intn(2)] = byte(rng.Intn(256))
			st.Inc("raw:version")
		case 2:
			hdr[4+rng.Intn(2)] = byte(1 + rng.Intn(255))
			st.Inc("raw:ext")
		case 3:
			hdr = hdr[:rng.Intn(8)]
			st.Inc("raw:short-header")
		case 4:
			hdr[4], hdr[5] = 0x12, 0x34
			ext = 0x1234
		}
		file := append([]byte{}, hdr...)
		if len(hdr) == 8 {
			for f := 0; f < rng.Intn(4); f++ {
				p := validSet()
				switch rng.Intn(9) {
				case 0: // flip a payload byte, CRC recomputed (reaches proto.Unmarshal)
					if len(p) > 0 {
						p[rng.Intn(len(p))] ^= byte(1 << uint(rng.Intn(8)))
					}
					st.Inc("raw:payload-bitflip")
				case 1: // truncated message
					p = p[:rng.Intn(len(p)+1)]
					st.Inc("raw:payload-truncated")
				case 2: // unknown fields of every wire type appended / prepended
					var extra []byte
					num := uint64(1 + rng.Intn(40))
					if rng.Intn(4) == 0 {
						num = []uint64{1<<29 - 1, 1 << 29, 0, 1<<31 - 1}[rng.Intn(4)]
					}
					typ := uint64(rng.Intn(8))
					extra = append(extra, pbVarint(num<<3|typ)...)
					switch typ {
					case 0:
						extra = append(extra, pbVarint(genU64(rng))...)
					case 1:
						extra = append(extra, make([]byte, 8-rng.Intn(2))...)
					case 2:
						n := rng.Intn(5)
						extra = append(extra, pbVarint(uint64(n+rng.Intn(2)))...)
						extra = append(extra, make([]byte, n)...)
					case 3:
						// group with a nested varint field and an end tag (sometimes mismatched)
						extra = append(extra, pbVarint(7<<3|0)...)
						extra = append(extra, pbVarint(5)...)
						end := num
						if rng.Intn(4) == 0 {
							end++
						}
						extra = append(extra, pbVarint(end<<3|4)...)
					case 5:
						extra = append(extra, make([]byte, 4-rng.Intn(2))...)
					}
					if rng.Intn(2) == 0 {
						p = append(extra, p...)
					} else {
						p = append(p, extra...)
					}
					st.Inc(fmt.Sprintf("raw:unknown-field-type%d", typ))
				case 3: // hand-made inner message: repeated scalars, non-canonical / overlong varints, wrong wire types
					var in []byte
					for q := 0; q < 1+rng.Intn(5); q++ {
						fn := uint64(1 + rng.Intn(7))
						switch rng.Intn(6) {
						case 0: // non-canonical varint
							in = append(in, pbVarint(fn<<3)...)
							in = append(in, 0x80|byte(rng.Intn(128)), 0x80, 0x00)
						case 1: // 10-byte varint, last byte 1 or 2
							in = append(in, pbVarint(fn<<3)...)
							in = append(in, 0xff, 0xff, 0xff, 0xff, 0xff, 0xff, 0xff, 0xff, 0xff, byte(1+rng.Intn(2)))
						case 2: // known field with wire type bytes / fixed32
							if rng.Intn(2) == 0 {
								in = append(in, pbVarint(fn<<3|2)...)
								in = append(in, 1, 0x41)
							} else {
								in = append(in, pbVarint(fn<<3|5)...)
								in = append(in, 1, 2, 3, 4)
							}
						default:
							in = append(in, pbVarint(fn<<3)...)
							in = append(in, pbVarint(genU64(rng))...)
						}
					}
					p = append(p, 0x0a)
					p = append(p, pbVarint(uint64(len(in)))...)
					p = append(p, in...)
					st.Inc("raw:handmade-change")
				case 4: // random bytes
					p = make([]byte, rng.Intn(12))
					rng.Read(p)
					st.Inc("raw:random-payload")
				}
				fr := frame(p)
				switch rng.Intn(14) {
				case 0:
					binary.BigEndian.PutUint32(fr[0:4], uint32(len(p))+uint32(rng.Intn(3000)))
					st.Inc("raw:length-bigger")
				case 1:
					fr[4+rng.Intn(4)] ^= byte(1 + rng.Intn(255))
					st.Inc("raw:crc-damaged")
				case 2:
					binary.BigEndian.PutUint32(fr[0:4], []uint32{1 << 31, 1<<32 - 1, 1 << 24}[rng.Intn(3)])
					st.Inc("raw:length-huge")
				}
				file = append(file, fr...)
			}
			if rng.Intn(4) == 0 {
				file = file[:len(file)-rng.Intn(min(len(file)-7, 12))]
			}
		}
		if !rawManifestSafe(file) {
			// applyManifestChange allocates one map per level up to tc.Level: a frame with a
			// valid CRC and a huge Level would exhaust memory on the real code.
			st.Inc("raw:skipped-huge-level")
			continue
		}
		ops = append(ops, fmt.Sprintf("rawreplay %s %d", hx(file), ext))
	}
	return ops
}

// rawManifestSafe: no decodable change with Level > 5000 in any frame of the image.
func rawManifestSafe(b []byte) bool {
	off := 8
	for off+8 <= len(b) {
		l := int(binary.BigEndian.Uint32(b[off : off+4]))
		if l < 0 || off+8+l > len(b) {
			return true
		}
		var cs pb.ManifestChangeSet
		if err := proto.Unmarshal(b[off+8:off+8+l], &cs); err == nil {
			for _, c := range cs.Changes {
				if c.Level > 5000 {
					return false
				}
			}
		}
		off += 8 + l
	}
	return true
}

// =====================================================================================
// bloom
// =====================================================================================

func csvU32(hs []uint32) string {
	if len(hs) == 0 {
		return "-"
	}
	s := make([]string, len(hs))
	for i, h := range hs {
		s[i] = strconv.FormatUint(uint64(h), 10)
	}
	return strings.Join(s, ",")
}

func parseCsvU32(w string) []uint32 {
	if w == "-" {
		return nil
	}
	var out []uint32
	for _, p := range strings.Split(w, ",") {
		out = append(out, uint32(atou(p)))
	}
	return out
}

func parseCsvHex(w string) [][]byte {
	if w == "-" {
		return nil
	}
	var out [][]byte
	for _, p := range strings.Split(w, ",") {
		out = append(out, unhx(p))
	}
	return out
}

func csvHex(bs [][]byte) string {
	if len(bs) == 0 {
		return "-"
	}
	s := make([]string, len(bs))
	for i, b := range bs {
		s[i] = hx(b)
	}
	return strings.Join(s, ",")
}

func boolS(b bool) string {
	if b {
		return "true"
	}
	return "false"
}

func execBloom(ops []string, st *Stats) ([]string, []string) {
	outs := make([]string, len(ops))
	var oracle []string
	for i, l := range ops {
		w := strings.Fields(l)
		i, l := i, l
		st.Inc("op:" + w[0])
		fail := func(msg string) { oracle = append(oracle, fmt.Sprintf("line %d: %s :: %s", i+1, l, msg)) }
		outs[i] = safely(func() string {
			switch {
			case w[0] == "hash" && len(w) == 2:
				return utoa(uint64(y.Hash(unhx(w[1]))))
			case w[0] == "filter" && len(w) == 3:
				bpk, err := strconv.Atoi(w[1])
				if err != nil {
					return "bad-op"
				}
				keys := parseCsvU32(w[2])
				f := y.NewFilter(keys, bpk)
				// oracle C19: no false negatives, last byte is k in [1,30]
				for _, h := range keys {
					if !f.MayContain(h) {
						fail(fmt.Sprintf("[no-false-negative] MayContain(%d) = false for an added key hash (bitsPerKey %d, %d keys)", h, bpk, len(keys)))
						break
					}
				}
				if k := f[len(f)-1]; k < 1 || k > 30 {
					fail(fmt.Sprintf("[filter-last-byte-k] last byte %d not in [1,30]", k))
				}
				return hx(f)
			case w[0] == "may" && len(w) == 3:
				return boolS(y.Filter(unhx(w[1])).MayContain(uint32(atou(w[2]))))
			case w[0] == "probe" && len(w) == 4:
				bpk, err := strconv.Atoi(w[1])
				if err != nil {
					return "bad-op"
				}
				keys, probes := parseCsvU32(w[2]), parseCsvU32(w[3])
				f := y.NewFilter(keys, bpk)
				in := map[uint32]bool{}
				for _, h := range keys {
					in[h] = true
				}
				var sb strings.Builder
				for _, p := range probes {
					r := f.MayContain(p)
					if in[p] && !r {
						fail(fmt.Sprintf("[no-false-negative] MayContain(%d) = false for an added key hash (bitsPerKey %d, %d keys)", p, bpk, len(keys)))
					}
					if r {
						sb.WriteByte('1')
						st.Inc("probe:positive")
					} else {
						sb.WriteByte('0')
						st.Inc("probe:negative")
					}
				}
				return sb.String()
			case w[0] == "krange" && len(w) == 3:
				lo, err1 := strconv.Atoi(w[1])
				hi, err2 := strconv.Atoi(w[2])
				if err1 != nil || err2 != nil {
					return "bad-op"
				}
				var rs []string
				for b := lo; b <= hi; b++ {
					f := y.NewFilter(nil, b)
					k := int(f[len(f)-1])
					// assumption check: the float computation equals the integer characterisation
					bb := b
					if bb < 0 {
						bb = 0
					}
					want := bb * 69 / 100
					if want < 1 {
						want = 1
					}
					if want > 30 {
						want = 30
					}
					if k != want {
						fail(fmt.Sprintf("[k-float-characterisation] bitsPerKey %d: k=%d, floor(bpk*69/100) clamped = %d", b, k, want))
					}
					rs = append(rs, strconv.Itoa(k))
				}
				return rleStrings(rs)
			case w[0] == "tbl" && len(w) == 7:
				has, bits, ts := atou(w[1]), w[2], atou(w[3])
				keys, probes := parseCsvHex(w[4]), parseCsvHex(w[5])
				fp, err := strconv.ParseFloat(w[6], 64)
				if err != nil {
					return "bad-op"
				}
				if (has == 0) != (fp == 0) {
					return "bad-op"
				}
				if fp > 0 {
					if got := y.BloomBitsPerKey(len(keys), fp); strconv.Itoa(got) != bits {
						return "bad-op" // the op line carries BloomBitsPerKey(len, fp) computed at generation time
					}
				}
				opts := table.Options{BlockSize: 4 * 1024, BloomFalsePositive: fp, TableSize: 1 << 20, Compression: options.None}
				b := table.NewTableBuilder(opts)
				defer b.Close()
				for _, k := range keys {
					b.Add(y.KeyWithTs(k, ts), y.ValueStruct{Value: []byte("v")}, 0)
				}
				tbl, err := table.OpenInMemoryTable(b.Finish(), 1, &opts)
				if err != nil {
					return "err:open"
				}
				defer func() { _ = tbl.DecrRef() }()
				in := map[string]bool{}
				for _, k := range keys {
					in[string(k)] = true
				}
				var sb strings.Builder
				for _, p := range probes {
					r := tbl.DoesNotHave(y.Hash(p))
					if in[string(p)] && r {
						fail(fmt.Sprintf("[doesNotHave-sound] Table.DoesNotHave(Hash(%x)) = true for a key of the table (fp %v)", p, fp))
					}
					if r {
						sb.WriteByte('1')
					} else {
						sb.WriteByte('0')
					}
				}
				return sb.String()
			}
			return "bad-op"
		})
	}
	return outs, oracle
}

var bloomBpk = []int{-1000, -5, -1, 0, 1, 2, 3, 4, 5, 7, 10, 10, 10, 14, 15, 20, 29, 30, 43, 44, 45, 46, 50, 100, 1000}

func genHash32(rng *rand.Rand) uint32 {
	switch rng.Intn(6) {
	case 0:
		return []uint32{0, 1, 1<<17 - 1, 1 << 17, 1 << 31, 1<<32 - 1, 1<<32 - 2, 0x80000000, 0x0001ffff, 0xfffe0000}[rng.Intn(10)]
	case 1:
		return uint32(rng.Intn(64))
	default:
		return rng.Uint32()
	}
}

func genBloom(rng *rand.Rand, n int, st *Stats) []string {
	var ops []string
	for i := 0; i < n; i++ {
		switch r := rng.Intn(20); {
		case r < 4:
			ln := rng.Intn(12)
			if rng.Intn(4) == 0 {
				ln = rng.Intn(70)
			}
			b := make([]byte, ln)
			rng.Read(b)
			if rng.Intn(4) == 0 {
				for j := range b {
					b[j] = []byte{0, 0xff, 0x80, 0x7f}[rng.Intn(4)]
				}
			}
			ops = append(ops, "hash "+hx(b))
			st.Inc("hash:len%4=" + strconv.Itoa(ln%4))
		case r < 12:
			bpk := bloomBpk[rng.Intn(len(bloomBpk))]
			nk := rng.Intn(8)
			if rng.Intn(3) == 0 {
				nk = rng.Intn(60)
			}
			keys := make([]uint32, nk)
			for j := range keys {
				keys[j] = genHash32(rng)
			}
			probes := append([]uint32{}, keys...)
			for j := 0; j < 6; j++ {
				probes = append(probes, genHash32(rng))
			}
			st.Inc("filter:nkeys=" + sizeBucket(nk))
			st.Inc(fmt.Sprintf("filter:bpk=%d", bpk))
			if r < 6 {
				ops = append(ops, fmt.Sprintf("filter %d %s", bpk, csvU32(keys)))
			} else {
				ops = append(ops, fmt.Sprintf("probe %d %s %s", bpk, csvU32(keys), csvU32(probes)))
			}
		case r < 16:
			// arbitrary / malformed filters for MayContain
			ln := rng.Intn(12)
			f := make([]byte, ln)
			rng.Read(f)
			if ln > 0 {
				switch rng.Intn(4) {
				case 0:
					f[ln-1] = byte(rng.Intn(32))
				case 1:
					f[ln-1] = byte(31 + rng.Intn(225))
				case 2:
					f[ln-1] = 0
				}
			}
			st.Inc("may:len=" + sizeBucket(ln))
			ops = append(ops, fmt.Sprintf("may %s %d", hx(f), genHash32(rng)))
		default:
			fps := []float64{0, 0.01, 0.1, 0.5, 0.001, 0.9, 0.0001}
			fp := fps[rng.Intn(len(fps))]
			nk := 1 + rng.Intn(12)
			seen := map[string]bool{}
			var keys [][]byte
			for len(keys) < nk {
				k := genUserKey(rng, 1, 5)
				if !seen[string(k)] {
					seen[string(k)] = true
					keys = append(keys, k)
				}
			}
			sort.Slice(keys, func(a, b int) bool { return bytes.Compare(keys[a], keys[b]) < 0 })
			probes := append([][]byte{}, keys...)
			for j := 0; j < 5; j++ {
				probes = append(probes, genUserKey(rng, 0, 6))
			}
			has, bits := 0, 0
			if fp > 0 {
				has, bits = 1, y.BloomBitsPerKey(nk, fp)
			}
			ts := genU64(rng)
			st.Inc(fmt.Sprintf("tbl:fp=%v", fp))
			ops = append(ops, fmt.Sprintf("tbl %d %d %d %s %s %s", has, bits, ts, csvHex(keys), csvHex(probes),
				strconv.FormatFloat(fp, 'g', -1, 64)))
		}
	}
	return ops
}

// =====================================================================================
// trie
// =====================================================================================

type livePat struct {
	pat []int // -1 = ignored position, else the byte
	id  uint64
}

func samePat(a, b []int) bool {
	if len(a) != len(b) {
		return false
	}
	for i := range a {
		if a[i] != b[i] {
			return false
		}
	}
	return true
}

var reIgnorePiece = regexp.MustCompile(`^\s*\+?(\d{1,6})\s*(?:-\s*\+?(\d{1,6})\s*)?$`)

// specIgnore: an independent reading of the documented ignore syntax ("3, 5-8, 10").
// ok=false when the string is not of that form.
func specIgnore(ig string) (set map[int]bool, ok bool) {
	set = map[int]bool{}
	if ig == "" {
		return set, true
	}
	for _, piece := range strings.Split(strings.TrimSpace(ig), ",") {
		m := reIgnorePiece.FindStringSubmatch(piece)
		if m == nil {
			return nil, false
		}
		a, _ := strconv.Atoi(m[1])
		b := a
		if m[2] != "" {
			b, _ = strconv.Atoi(m[2])
		}
		for i := a; i <= b; i++ {
			set[i] = true
		}
	}
	return set, true
}

func mkPat(prefix []byte, ign map[int]bool) []int {
	p := make([]int, len(prefix))
	for i, b := range prefix {
		if ign[i] {
			p[i] = -1
		} else {
			p[i] = int(b)
		}
	}
	return p
}

func execTrie(ops []string, st *Stats) ([]string, []string) {
	outs := make([]string, len(ops))
	var oracle []string
	t := trie.NewTrie()
	var live []livePat
	pub := badger.VerifNewPublisher()
	pubPats := map[uint64][][]int{} // subscriber id -> canonical patterns of its matches
	for i, l := range ops {
		w := strings.Fields(l)
		i, l := i, l
		st.Inc("op:" + w[0])
		fail := func(msg string) { oracle = append(oracle, fmt.Sprintf("line %d: %s :: %s", i+1, l, msg)) }
		outs[i] = safely(func() string {
			switch {
			case w[0] == "reset" && len(w) == 1:
				t = trie.NewTrie()
				live = nil
				pub = badger.VerifNewPublisher()
				pubPats = map[uint64][][]int{}
				return "ok"
			case w[0] == "psub" && len(w) >= 3 && len(w)%2 == 1:
				var ms []pb.Match
				var pats [][]int
				for j := 1; j+1 < len(w); j += 2 {
					prefix, ig := unhx(w[j]), string(unhx(w[j+1]))
					ms = append(ms, pb.Match{Prefix: prefix, IgnoreBytes: ig})
					if ign, ok := specIgnore(ig); ok {
						pats = append(pats, mkPat(prefix, ign))
					}
				}
				id, err := pub.Subscribe(ms)
				if err != nil {
					st.Inc("psub:err")
					return "err"
				}
				pubPats[id] = pats
				return utoa(id)
			case w[0] == "punsub" && len(w) == 2:
				id := atou(w[1])
				pub.Unsubscribe(id)
				delete(pubPats, id)
				return "ok"
			case w[0] == "ppub" && len(w) == 3:
				key, ts := unhx(w[1]), atou(w[2])
				pub.Publish([]*badger.Entry{{Key: y.KeyWithTs(key, ts), Value: []byte("v"), UserMeta: 7, ExpiresAt: 9}})
				ids := pub.SubscriberIDs()
				sort.Slice(ids, func(a, b int) bool { return ids[a] < ids[b] })
				var got []string
				for _, id := range ids {
					kvs := pub.Drain(id)
					// spec (C32): the subscriber receives the write iff one of its patterns matches the USER key
					want := false
					for _, p := range pubPats[id] {
						if len(key) >= len(p) {
							m := true
							for j, c := range p {
								if c >= 0 && int(key[j]) != c {
									m = false
									break
								}
							}
							want = want || m
						}
					}
					switch {
					case len(kvs) > 1:
						fail(fmt.Sprintf("[publisher-exactly-once] subscriber %d received %d copies", id, len(kvs)))
					case len(kvs) == 1 && !want:
						// (this was finding F10 — the trie was queried with the internal key — fixed in 3672e07)
						st.Inc("ppub:not-matching")
						fail(fmt.Sprintf("[publisher-only-matching] subscriber %d receives user key %x (version %d) which matches none of its patterns", id, key, ts))
					case len(kvs) == 0 && want:
						fail(fmt.Sprintf("[publisher-missing] subscriber %d has a pattern matching user key %x but received nothing", id, key))
					}
					if len(kvs) >= 1 {
						kv := kvs[0]
						if !bytes.Equal(kv.Key, key) || kv.Version != ts || string(kv.Value) != "v" || kv.ExpiresAt != 9 || len(kv.Meta) != 1 || kv.Meta[0] != 7 {
							fail(fmt.Sprintf("[publisher-kv] subscriber %d received key=%x version=%d value=%q expires=%d meta=%x for write key=%x version=%d", id, kv.Key, kv.Version, kv.Value, kv.ExpiresAt, kv.Meta, key, ts))
						}
						got = append(got, utoa(id))
					}
				}
				st.Inc("ppub:receivers=" + strconv.Itoa(len(got)))
				if len(got) == 0 {
					return "-"
				}
				return strings.Join(got, ",")
			case (w[0] == "add" || w[0] == "del") && len(w) == 4:
				prefix, ig, id := unhx(w[1]), string(unhx(w[2])), atou(w[3])
				var err error
				if w[0] == "add" {
					err = t.AddMatch(pb.Match{Prefix: prefix, IgnoreBytes: ig}, id)
				} else {
					err = t.DeleteMatch(pb.Match{Prefix: prefix, IgnoreBytes: ig}, id)
				}
				ign, ok := specIgnore(ig)
				if ok != (err == nil) {
					fail(fmt.Sprintf("[parse-ignore] ignore string %q: documented syntax valid=%v, implementation error=%v", ig, ok, err))
				}
				if err != nil {
					st.Inc(w[0] + ":err")
					return "err"
				}
				if ok {
					p := mkPat(prefix, ign)
					if w[0] == "add" {
						live = append(live, livePat{p, id})
					} else {
						out := live[:0]
						for _, lp := range live {
							if !(lp.id == id && samePat(lp.pat, p)) {
								out = append(out, lp)
							}
						}
						live = out
					}
				}
				return "ok"
			case w[0] == "get" && len(w) == 2:
				key := unhx(w[1])
				got := t.Get(key)
				ids := make([]uint64, 0, len(got))
				for id := range got {
					ids = append(ids, id)
				}
				sort.Slice(ids, func(a, b int) bool { return ids[a] < ids[b] })
				// oracle C32 (trie level): exactly the ids with a live matching pattern
				want := map[uint64]bool{}
				for _, lp := range live {
					if len(key) < len(lp.pat) {
						continue
					}
					m := true
					for j, c := range lp.pat {
						if c >= 0 && int(key[j]) != c {
							m = false
							break
						}
					}
					if m {
						want[lp.id] = true
					}
				}
				for id := range want {
					if _, ok := got[id]; !ok {
						fail(fmt.Sprintf("[trie-get-spec] id %d has a live pattern matching key %x but Get does not return it", id, key))
					}
				}
				for id := range got {
					if !want[id] {
						fail(fmt.Sprintf("[trie-get-spec] Get(%x) returns id %d which has no live matching pattern", key, id))
					}
				}
				st.Inc("get:nids=" + strconv.Itoa(len(ids)))
				if len(ids) == 0 {
					return "-"
				}
				s := make([]string, len(ids))
				for j, id := range ids {
					s[j] = utoa(id)
				}
				return strings.Join(s, ",")
			case w[0] == "nodes" && len(w) == 1:
				return strconv.Itoa(t.VerifNumNodes())
			case w[0] == "parse" && len(w) == 2:
				bs, err := trie.VerifParseIgnoreBytes(string(unhx(w[1])))
				if err != nil {
					return "err"
				}
				if len(bs) == 0 {
					return "-"
				}
				var sb strings.Builder
				for _, b := range bs {
					if b {
						sb.WriteByte('1')
					} else {
						sb.WriteByte('0')
					}
				}
				return sb.String()
			}
			return "bad-op"
		})
	}
	return outs, oracle
}

var trieAlphabet = []byte{0x00, 0x61, 0x62, 0xff}

func genTrieKey(rng *rand.Rand, maxLen int) []byte {
	n := rng.Intn(maxLen + 1)
	k := make([]byte, n)
	for i := range k {
		k[i] = trieAlphabet[rng.Intn(len(trieAlphabet))]
	}
	return k
}

var trieIgnoreValid = []string{"", "", "", "0", "1", "2", "0-1", "1-2", "0,2", "1, 3", " 2 ", "0-0", "3-1", "+1", "0 - 1", "0,1,2,3", "2-5", "7", "1,1", " 0, 2-3 "}
var trieIgnoreBad = []string{"a", "1-2-3", "-1", ",", "1,", " ", "1--2", "0x1", "1-", "-", "1;2", "99999999999999999999", "1_0"}

func genTrie(rng *rand.Rand, n int, st *Stats) []string {
	var ops []string
	for c := 0; c < n; c++ {
		ops = append(ops, "reset")
		type added struct {
			p  []byte
			ig string
			id uint64
		}
		var hist []added
		nsubs := 0
		for k := 0; k < 6+rng.Intn(24); k++ {
			switch r := rng.Intn(20); {
			case r < 7:
				a := added{genTrieKey(rng, 4), trieIgnoreValid[rng.Intn(len(trieIgnoreValid))], uint64(1 + rng.Intn(5))}
				if rng.Intn(15) == 0 {
					a.ig = trieIgnoreBad[rng.Intn(len(trieIgnoreBad))]
					st.Inc("ignore:malformed")
				} else {
					hist = append(hist, a)
					st.Inc("ignore:valid")
				}
				if rng.Intn(10) == 0 {
					a.id = genU64(rng)
				}
				ops = append(ops, fmt.Sprintf("add %s %s %d", hx(a.p), hx([]byte(a.ig)), a.id))
			case r < 11:
				var a added
				if len(hist) > 0 && rng.Intn(5) != 0 {
					a = hist[rng.Intn(len(hist))]
					if rng.Intn(4) == 0 && len(a.p) > 0 {
						// same canonical pattern through different bytes at ignored positions,
						// or a different pattern when the position is not ignored
						q := append([]byte{}, a.p...)
						q[rng.Intn(len(q))] = trieAlphabet[rng.Intn(len(trieAlphabet))]
						a.p = q
					}
					if rng.Intn(6) == 0 {
						a.id = uint64(1 + rng.Intn(5))
					}
				} else {
					a = added{genTrieKey(rng, 4), trieIgnoreValid[rng.Intn(len(trieIgnoreValid))], uint64(1 + rng.Intn(5))}
				}
				if rng.Intn(20) == 0 {
					a.ig = trieIgnoreBad[rng.Intn(len(trieIgnoreBad))]
				}
				ops = append(ops, fmt.Sprintf("del %s %s %d", hx(a.p), hx([]byte(a.ig)), a.id))
			case r < 18:
				key := genTrieKey(rng, 6)
				if len(hist) > 0 && rng.Intn(2) == 0 {
					key = append(append([]byte{}, hist[rng.Intn(len(hist))].p...), genTrieKey(rng, 2)...)
					if len(key) > 0 && rng.Intn(2) == 0 {
						key[rng.Intn(len(key))] = trieAlphabet[rng.Intn(len(trieAlphabet))]
					}
				}
				ops = append(ops, "get "+hx(key))
			case r < 19:
				ops = append(ops, "nodes")
				// publisher path: subscribe / publish / unsubscribe
				switch rng.Intn(3) {
				case 0:
					op := "psub"
					for m := 0; m < 1+rng.Intn(2); m++ {
						p := genTrieKey(rng, 3)
						if rng.Intn(4) == 0 {
							p = append(p, 0xff)
						}
						ig := trieIgnoreValid[rng.Intn(len(trieIgnoreValid))]
						if rng.Intn(25) == 0 {
							ig = trieIgnoreBad[rng.Intn(len(trieIgnoreBad))]
						}
						op += " " + hx(p) + " " + hx([]byte(ig))
					}
					ops = append(ops, op)
					nsubs++
				case 1:
					if nsubs > 0 {
						ops = append(ops, fmt.Sprintf("punsub %d", rng.Intn(nsubs+1)))
					}
				}
				for q := 0; q < 2; q++ {
					ts := []uint64{0, 1, 5, 1 << 32, 1 << 63, 1<<64 - 1, 1<<64 - 2}[rng.Intn(7)]
					// user keys are never empty in badger (ErrEmptyKey)
					ops = append(ops, fmt.Sprintf("ppub %s %d", hx(append(genTrieKey(rng, 3), trieAlphabet[rng.Intn(len(trieAlphabet))])), ts))
				}
			default:
				ig := trieIgnoreValid[rng.Intn(len(trieIgnoreValid))]
				if rng.Intn(2) == 0 {
					ig = trieIgnoreBad[rng.Intn(len(trieIgnoreBad))]
				}
				ops = append(ops, "parse "+hx([]byte(ig)))
			}
		}
		ops = append(ops, "nodes", "get -", "get 61", "get 6162")
	}
	return ops
}

var _ = math.MaxUint32


// =====================================================================================
// subscribe: the real DB.Subscribe on a real (in-memory) DB. Model: lean/BadgerModel/Publisher.lean
// =====================================================================================
//
// Determinism without sleeps:
//   * registration: Subscribe runs in a goroutine; the op returns once publisher.nextID has moved
//     (newSubscriber increments it in the critical section that also adds the matches) or
//     Subscribe has returned an error;
//   * "everything published so far has reached the channels": subscriber 0 (registered by
//     `reset`, empty prefix) also receives the `!badger!txn` end marker of every commit; when it
//     has seen the marker of the last commit, the publishUpdates call that contained it is under
//     way, and taking the publisher lock once waits for its end (it sends every batch while
//     holding the lock);
//   * cancel: after that barrier the op waits until the subscriber's channel is empty, cancels
//     the context and waits for Subscribe to return — a batch the loop had already taken out of
//     the channel is handed to the callback before the loop looks at the context again;
//   * waits are bounded (generous) and only in the "should arrive" direction; after the first
//     timeout of a run the bound drops so that a broken implementation does not stall the run.

type subKV struct {
	ver  uint64
	key  []byte
	val  []byte
	meta []byte
	exp  uint64
}

func (k subKV) String() string {
	m := 0
	if len(k.meta) > 0 {
		m = int(k.meta[0])
	}
	return fmt.Sprintf("%d:%s:%s:%d:%d", k.ver, hx(k.key), hx(k.val), m, k.exp)
}

type subWrite struct {
	key, val []byte
	meta     byte
	exp      uint64
	del      bool
}

type subCommit struct {
	ts     uint64
	writes []subWrite // canonical: last write per key, sorted by key
}

type subRec struct {
	id     uint64
	ok     bool
	cancel context.CancelFunc
	done   chan error
	mu     sync.Mutex
	got    []subKV
	maxVer atomic.Uint64
	gate   chan struct{}
	gated  bool
	once   sync.Once
	pats   [][]int
	from   int // number of commits before registration
	upto   int // number of commits at removal (-1: still subscribed)
	handle *badger.VerifSubHandle
	gone   bool
}

func (r *subRec) release() { r.once.Do(func() { close(r.gate) }) }

type subSession struct {
	db      *badger.DB
	subs    []*subRec
	commits []subCommit
	lastTs  uint64
}

var subTimedOut atomic.Bool
var subOpTime = map[string]time.Duration{}

func subWait(cond func() bool) bool {
	limit := 30 * time.Second
	if subTimedOut.Load() {
		limit = 300 * time.Millisecond
	}
	deadline := time.Now().Add(limit)
	for i := 0; ; i++ {
		if cond() {
			return true
		}
		if time.Now().After(deadline) {
			subTimedOut.Store(true)
			return false
		}
		if i < 200 {
			time.Sleep(20 * time.Microsecond)
		} else {
			time.Sleep(time.Millisecond)
		}
	}
}

func openSubscribeDB() (*badger.DB, error) {
	opt := badger.DefaultOptions("").WithInMemory(true).WithLoggingLevel(badger.ERROR).
		WithMemTableSize(1 << 20).WithValueThreshold(1 << 10).WithNumCompactors(2).WithNumMemtables(2).
		WithCompression(options.None).WithBlockCacheSize(0).WithIndexCacheSize(0).WithMetricsEnabled(false)
	return badger.Open(opt)
}

func (s *subSession) teardown() {
	if s == nil || s.db == nil {
		return
	}
	for _, r := range s.subs {
		if r != nil && r.ok {
			r.release()
			r.cancel()
		}
	}
	done := make(chan struct{})
	go func() { _ = s.db.Close(); close(done) }()
	select {
	case <-done:
	case <-time.After(20 * time.Second):
	}
	s.db = nil
}

// subscribe registers one subscriber through the real DB.Subscribe.
func (s *subSession) subscribe(ms []pb.Match, gated bool) *subRec {
	r := &subRec{id: uint64(len(s.subs)), done: make(chan error, 1), gate: make(chan struct{}), gated: gated,
		from: len(s.commits), upto: -1}
	for j := range ms {
		if ign, ok := specIgnore(ms[j].IgnoreBytes); ok {
			r.pats = append(r.pats, mkPat(ms[j].Prefix, ign))
		}
	}
	ctx, cancel := context.WithCancel(context.Background())
	r.cancel = cancel
	n0 := badger.VerifPubNextID(s.db)
	cb := func(l *badger.KVList) error {
		r.mu.Lock()
		for _, kv := range l.Kv {
			r.got = append(r.got, subKV{ver: kv.Version, key: append([]byte{}, kv.Key...), val: append([]byte{}, kv.Value...),
				meta: append([]byte{}, kv.Meta...), exp: kv.ExpiresAt})
			if kv.Version > r.maxVer.Load() {
				r.maxVer.Store(kv.Version)
			}
		}
		r.mu.Unlock()
		if r.gated {
			<-r.gate
		}
		return nil
	}
	// newSubscriber fails exactly when an ignore string does not parse (the callback is never
	// nil here); it has then already taken an id. Knowing this beforehand tells which of the two
	// events to wait for.
	willFail := false
	for j := range ms {
		if _, err := trie.VerifParseIgnoreBytes(ms[j].IgnoreBytes); err != nil {
			willFail = true
		}
	}
	go func() { r.done <- s.db.Subscribe(ctx, cb, ms) }()
	s.subs = append(s.subs, r)
	if willFail {
		returned := false
		subWait(func() bool {
			select {
			case <-r.done:
				returned = true
				return true
			default:
				return false
			}
		})
		r.ok = false
		cancel()
		if !returned {
			// Subscribe did not fail although an ignore string is invalid
			r.ok = true
			r.handle = badger.VerifSubHandleOf(s.db, r.id)
		}
		return r
	}
	subWait(func() bool { return badger.VerifPubNextID(s.db) == n0+1 })
	r.ok = true
	r.handle = badger.VerifSubHandleOf(s.db, r.id)
	return r
}

// barrier: every batch of every commit so far is in the channels (or further).
func (s *subSession) barrier() {
	if s.lastTs == 0 || len(s.subs) == 0 {
		return
	}
	w := s.subs[0]
	subWait(func() bool { return w.maxVer.Load() >= s.lastTs })
	badger.VerifPubBarrier(s.db)
}

func (r *subRec) snapshot() []subKV {
	r.mu.Lock()
	defer r.mu.Unlock()
	return append([]subKV{}, r.got...)
}

var badgerPrefixBytes = []byte("!badger!")

// canonical: internal keys dropped, entries of one version (one transaction: map iteration
// order in commitAndSend) sorted by key. The raw order is judged by the oracle.
func subCanonical(raw []subKV) []subKV {
	var l []subKV
	for _, k := range raw {
		if !bytes.HasPrefix(k.key, badgerPrefixBytes) {
			l = append(l, k)
		}
	}
	sort.SliceStable(l, func(i, j int) bool {
		if l[i].ver != l[j].ver {
			return false
		}
		return bytes.Compare(l[i].key, l[j].key) < 0
	})
	// SliceStable with a partial order is only safe when equal-version entries are contiguous:
	// regroup explicitly.
	out := make([]subKV, 0, len(l))
	for i := 0; i < len(l); {
		j := i
		for j < len(l) && l[j].ver == l[i].ver {
			j++
		}
		g := append([]subKV{}, l[i:j]...)
		sort.SliceStable(g, func(a, b int) bool { return bytes.Compare(g[a].key, g[b].key) < 0 })
		out = append(out, g...)
		i = j
	}
	return out
}

func subListStr(l []subKV) string {
	if len(l) == 0 {
		return "-"
	}
	s := make([]string, len(l))
	for i, k := range l {
		s[i] = k.String()
	}
	return strings.Join(s, ",")
}

func patMatchesKey(p []int, key []byte) bool {
	if len(key) < len(p) {
		return false
	}
	for j, c := range p {
		if c >= 0 && int(key[j]) != c {
			return false
		}
	}
	return true
}

// judge: the C32 delivery clause for one subscriber whose subscription has ended.
// complete = everything owed must have arrived (true for close and for our cancel, which waits).
func (s *subSession) judge(r *subRec, raw []subKV, fail func(string)) {
	var want []subKV
	for _, c := range s.commits[r.from:r.upto] {
		for _, w := range c.writes {
			m := false
			for _, p := range r.pats {
				m = m || patMatchesKey(p, w.key)
			}
			if m {
				k := subKV{ver: c.ts, key: w.key, val: w.val, meta: []byte{w.meta}, exp: w.exp}
				if w.del {
					k.val, k.meta, k.exp = nil, []byte{0}, 0
				}
				want = append(want, k)
			}
		}
	}
	// commit order on the raw sequence (internal keys included)
	for i := 1; i < len(raw); i++ {
		if raw[i].ver < raw[i-1].ver {
			fail(fmt.Sprintf("[sub-order] subscriber %d received version %d after version %d", r.id, raw[i].ver, raw[i-1].ver))
			break
		}
	}
	got := subCanonical(raw)
	type k2 struct {
		ver uint64
		key string
	}
	wantSet := map[k2]subKV{}
	for _, k := range want {
		wantSet[k2{k.ver, string(k.key)}] = k
	}
	seen := map[k2]int{}
	for _, k := range got {
		id := k2{k.ver, string(k.key)}
		w, ok := wantSet[id]
		seen[id]++
		switch {
		case !ok:
			m := false
			for _, p := range r.pats {
				m = m || patMatchesKey(p, k.key)
			}
			if !m {
				fail(fmt.Sprintf("[sub-only-matching] subscriber %d received key %x (version %d) which matches none of its patterns", r.id, k.key, k.ver))
			} else {
				fail(fmt.Sprintf("[sub-only-matching] subscriber %d received key %x version %d which was not committed while it was subscribed", r.id, k.key, k.ver))
			}
		case seen[id] > 1:
			fail(fmt.Sprintf("[sub-exactly-once] subscriber %d received key %x version %d %d times", r.id, k.key, k.ver, seen[id]))
		case k.String() != w.String() || len(k.meta) != 1:
			fail(fmt.Sprintf("[sub-kv] subscriber %d received %s for the committed write %s", r.id, k, w))
		}
	}
	for _, k := range want {
		if seen[k2{k.ver, string(k.key)}] == 0 {
			fail(fmt.Sprintf("[sub-missing] subscriber %d never received key %x version %d although it matches and was committed while subscribed", r.id, k.key, k.ver))
		}
	}
}

func parseSubWrites(w string) ([]subWrite, bool) {
	var out []subWrite
	for _, p := range strings.Split(w, ";") {
		f := strings.Split(p, ":")
		switch {
		case f[0] == "s" && len(f) == 5:
			out = append(out, subWrite{key: unhx(f[1]), val: unhx(f[2]), meta: byte(atou(f[3])), exp: atou(f[4])})
		case f[0] == "d" && len(f) == 2:
			out = append(out, subWrite{key: unhx(f[1]), del: true})
		default:
			return nil, false
		}
	}
	return out, true
}

func canonSubWrites(ws []subWrite) []subWrite {
	last := map[string]subWrite{}
	for _, w := range ws {
		last[string(w.key)] = w
	}
	keys := make([]string, 0, len(last))
	for k := range last {
		keys = append(keys, k)
	}
	sort.Strings(keys)
	out := make([]subWrite, 0, len(keys))
	for _, k := range keys {
		out = append(out, last[k])
	}
	return out
}

func applySubWrites(txn *badger.Txn, ws []subWrite) error {
	for _, w := range ws {
		if w.del {
			if err := txn.Delete(w.key); err != nil {
				return err
			}
			continue
		}
		e := badger.NewEntry(w.key, w.val).WithMeta(w.meta)
		e.ExpiresAt = w.exp
		if err := txn.SetEntry(e); err != nil {
			return err
		}
	}
	return nil
}

func (s *subSession) readTs() uint64 {
	txn := s.db.NewTransaction(false)
	defer txn.Discard()
	return txn.ReadTs()
}

func execSubscribe(ops []string, st *Stats) ([]string, []string) {
	outs := make([]string, len(ops))
	var oracle []string
	var s *subSession
	defer func() {
		s.teardown()
		if os.Getenv("VERIF_SUB_TIMING") != "" {
			fmt.Fprintln(os.Stderr, subOpTime)
		}
	}()
	for i, l := range ops {
		w := strings.Fields(l)
		i, l := i, l
		st.Inc("op:" + w[0])
		fail := func(msg string) { oracle = append(oracle, fmt.Sprintf("line %d: %s :: %s", i+1, l, msg)) }
		t0 := time.Now()
		outs[i] = safely(func() string {
			defer func() { subOpTime[w[0]] += time.Since(t0) }()
			if w[0] == "reset" && len(w) == 1 {
				s.teardown()
				db, err := openSubscribeDB()
				if err != nil {
					panic(err)
				}
				s = &subSession{db: db}
				r := s.subscribe([]pb.Match{{}}, false)
				if !r.ok {
					return "err"
				}
				return "ok " + utoa(r.id)
			}
			if s == nil || s.db == nil {
				return "bad-op"
			}
			switch {
			case (w[0] == "sub" || w[0] == "subg") && len(w) >= 3 && len(w)%2 == 1:
				var ms []pb.Match
				for j := 1; j+1 < len(w); j += 2 {
					ms = append(ms, pb.Match{Prefix: unhx(w[j]), IgnoreBytes: string(unhx(w[j+1]))})
				}
				// every earlier commit must have gone through publishUpdates: a subscriber also receives
				// writes committed shortly before its registration if the publisher has not caught up
				s.barrier()
				r := s.subscribe(ms, w[0] == "subg")
				if !r.ok {
					st.Inc("sub:err")
					return "err"
				}
				return utoa(r.id)
			case w[0] == "txn" && len(w) == 2:
				ws, ok := parseSubWrites(w[1])
				if !ok {
					return "bad-op"
				}
				if err := s.db.Update(func(txn *badger.Txn) error { return applySubWrites(txn, ws) }); err != nil {
					return "err:" + strings.ReplaceAll(err.Error(), " ", "_")
				}
				ts := s.readTs()
				s.lastTs = ts
				s.commits = append(s.commits, subCommit{ts: ts, writes: canonSubWrites(ws)})
				st.Inc("txn:writes=" + strconv.Itoa(len(ws)))
				return "ok " + utoa(ts)
			case w[0] == "atxn" && len(w) >= 2:
				var wss [][]subWrite
				for _, t := range w[1:] {
					ws, ok := parseSubWrites(t)
					if !ok {
						return "bad-op"
					}
					wss = append(wss, ws)
				}
				base := s.readTs()
				txns := make([]*badger.Txn, len(wss))
				for j, ws := range wss {
					txns[j] = s.db.NewTransaction(true)
					if err := applySubWrites(txns[j], ws); err != nil {
						return "err:" + strings.ReplaceAll(err.Error(), " ", "_")
					}
				}
				var wg sync.WaitGroup
				errs := make([]error, len(wss))
				for j := range txns {
					j := j
					wg.Add(1)
					// commit timestamps are handed out in the order of these calls (writeChLock)
					txns[j].CommitWith(func(err error) { errs[j] = err; wg.Done() })
				}
				wg.Wait()
				for _, err := range errs {
					if err != nil {
						return "err:" + strings.ReplaceAll(err.Error(), " ", "_")
					}
				}
				for j, ws := range wss {
					s.commits = append(s.commits, subCommit{ts: base + uint64(j) + 1, writes: canonSubWrites(ws)})
				}
				ts := s.readTs()
				s.lastTs = ts
				st.Inc("atxn:n=" + strconv.Itoa(len(wss)))
				return "ok " + utoa(ts)
			case w[0] == "cancel" && len(w) == 2:
				id := atou(w[1])
				if id == 0 {
					return "bad-op"
				}
				if id >= uint64(len(s.subs)) || !s.subs[id].ok || s.subs[id].gone {
					return "gone"
				}
				r := s.subs[id]
				s.barrier()
				r.release()
				subWait(func() bool { return r.handle.QueueLen() == 0 })
				r.cancel()
				subWait(func() bool {
					select {
					case <-r.done:
						return true
					default:
						return false
					}
				})
				r.gone = true
				r.upto = len(s.commits)
				raw := r.snapshot()
				s.judge(r, raw, fail)
				return subListStr(subCanonical(raw))
			case w[0] == "close" && len(w) == 1:
				s.barrier()
				var live []*subRec
				for _, r := range s.subs {
					if r.ok && !r.gone {
						live = append(live, r)
					}
				}
				closed := make(chan struct{})
				go func() { _ = s.db.Close(); close(closed) }()
				// a gated callback is released only once its subscriber has been told that the DB
				// is closing, so that its pending batches go through the close path of Subscribe
				subWait(func() bool {
					for _, r := range live {
						if r.gated && r.handle.CloserSignaled() {
							r.release()
						}
					}
					select {
					case <-closed:
						return true
					default:
						return false
					}
				})
				select {
				case <-closed:
				default:
					// (finding F24, fixed: a failed Subscribe used to leave a subscriber behind whose
					// closer was never released, and cleanSubscribers waited for it forever)
					fail("[close-returns] DB.Close did not return")
					for _, r := range live {
						r.release()
					}
					s.db = nil
					return "hang"
				}
				for _, r := range live {
					r.release()
				}
				var parts []string
				for _, r := range live {
					subWait(func() bool {
						select {
						case <-r.done:
							return true
						default:
							return false
						}
					})
					r.gone = true
					r.upto = len(s.commits)
					raw := r.snapshot()
					s.judge(r, raw, fail)
					parts = append(parts, fmt.Sprintf("%d=%s", r.id, subListStr(subCanonical(raw))))
				}
				s.db = nil
				return strings.Join(parts, "|")
			}
			return "bad-op"
		})
	}
	return outs, oracle
}

func genSubWrite(rng *rand.Rand) string {
	k := append(genTrieKey(rng, 3), trieAlphabet[rng.Intn(len(trieAlphabet))])
	if rng.Intn(6) == 0 {
		return "d:" + hx(k)
	}
	v := make([]byte, rng.Intn(4))
	rng.Read(v)
	meta := []int{0, 0, 1, 0x7f, 0xff}[rng.Intn(5)]
	exp := []uint64{0, 0, 0, 1, 4102444800, 1<<64 - 1}[rng.Intn(6)]
	return fmt.Sprintf("s:%s:%s:%d:%d", hx(k), hx(v), meta, exp)
}

func genSubTxn(rng *rand.Rand) string {
	n := 1 + rng.Intn(4)
	ws := make([]string, n)
	for i := range ws {
		ws[i] = genSubWrite(rng)
	}
	if n > 1 && rng.Intn(4) == 0 {
		// the same key twice in one transaction: the last write wins
		f := strings.Split(ws[0], ":")
		ws[n-1] = "s:" + f[1] + ":" + hx([]byte{byte(rng.Intn(256))}) + ":0:0"
	}
	return strings.Join(ws, ";")
}

func genSubscribe(rng *rand.Rand, n int, st *Stats) []string {
	var ops []string
	for c := 0; c < n; c++ {
		ops = append(ops, "reset")
		nsubs := 1
		badSession := rng.Intn(8) == 0
		for k := 0; k < 6+rng.Intn(16); k++ {
			switch r := rng.Intn(20); {
			case r < 5:
				op := "sub"
				if rng.Intn(5) == 0 {
					op = "subg"
					st.Inc("sub:gated")
				}
				for m := 0; m < 1+rng.Intn(2); m++ {
					p := genTrieKey(rng, 3)
					ig := trieIgnoreValid[rng.Intn(len(trieIgnoreValid))]
					if badSession && rng.Intn(4) == 0 {
						ig = trieIgnoreBad[rng.Intn(len(trieIgnoreBad))]
						st.Inc("sub:bad-ignore")
					}
					op += " " + hx(p) + " " + hx([]byte(ig))
				}
				ops = append(ops, op)
				nsubs++
			case r < 13:
				ops = append(ops, "txn "+genSubTxn(rng))
			case r < 17:
				op := "atxn"
				for t := 0; t < 2+rng.Intn(5); t++ {
					op += " " + genSubTxn(rng)
				}
				ops = append(ops, op)
			default:
				if nsubs > 1 {
					ops = append(ops, fmt.Sprintf("cancel %d", 1+rng.Intn(nsubs-1)))
				}
			}
		}
		ops = append(ops, "close")
	}
	return ops
}
