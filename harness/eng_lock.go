package main

// Engine "lock" (C35): scripts of Open / Close / kill over the harness process (proc 0) and
// child processes (proc 1..), with shared and separate Dir / ValueDir and second names
// (symlinks) of the directories. Compared with the Lean model BadgerModel/DirLock.lean
// (driver `bmd_conc lock`); the oracle is the property itself.
//
// Child processes are this binary re-executed with the hidden first argument `__lockchild`;
// they obey one command per stdin line (open / close) and answer one line on stdout.

import (
	"bufio"
	"fmt"
	"io"
	"math/rand"
	"os"
	"os/exec"
	"path/filepath"
	"strconv"
	"strings"
	"syscall"
	"time"

	badger "github.com/dgraph-io/badger/v4"
	"github.com/dgraph-io/badger/v4/options"
)

func init() {
	if len(os.Args) > 1 && os.Args[1] == "__lockchild" {
		lockChildMain()
		os.Exit(0)
	}
	engines["lock"] = &Engine{Gen: genLock, ExecX: execLock}
}

// ---------------------------------------------------------------- opening a tiny DB

func lockOpen(dir, vdir string, ro, bypass, wrongKey bool) (*badger.DB, string, string) {
	opt := badger.DefaultOptions(dir).WithValueDir(vdir).WithReadOnly(ro).WithBypassLockGuard(bypass).
		WithLogger(nil).WithNumCompactors(0).WithMemTableSize(1 << 20).WithValueThreshold(1024).
		WithValueLogFileSize(1 << 20).WithCompression(options.None).WithBlockCacheSize(0).
		WithIndexCacheSize(0).WithMetricsEnabled(false).WithNumMemtables(1).WithDetectConflicts(false)
	if wrongKey {
		opt = opt.WithEncryptionKey([]byte("0123456789abcdef")).WithBlockCacheSize(1 << 20).WithIndexCacheSize(1 << 20)
	}
	db, err := badger.Open(opt)
	if err != nil {
		if strings.Contains(err.Error(), "Cannot acquire directory lock") {
			return nil, "locked", err.Error()
		}
		return nil, "err", err.Error()
	}
	return db, "ok", ""
}

// ---------------------------------------------------------------- child process

func lockChildMain() {
	in := bufio.NewScanner(os.Stdin)
	in.Buffer(make([]byte, 1<<16), 1<<20)
	out := bufio.NewWriter(os.Stdout)
	dbs := map[string]*badger.DB{}
	reply := func(s string) {
		out.WriteString(strings.ReplaceAll(s, "\n", " ") + "\n")
		out.Flush()
	}
	for in.Scan() {
		w := strings.Fields(in.Text())
		if len(w) == 0 {
			continue
		}
		switch w[0] {
		case "open": // open label dir vdir ro bypass wrongkey
			db, res, msg := lockOpen(w[2], w[3], w[4] == "1", w[5] == "1", w[6] == "1")
			if db != nil {
				dbs[w[1]] = db
			}
			reply(res + " " + msg)
		case "close":
			if db := dbs[w[1]]; db != nil {
				delete(dbs, w[1])
				if err := db.Close(); err != nil {
					reply("err " + err.Error())
					continue
				}
			}
			reply("ok")
		case "exit":
			reply("ok")
			return
		default:
			reply("bad")
		}
	}
}

type lockChild struct {
	cmd *exec.Cmd
	in  io.WriteCloser
	out *bufio.Reader
}

func startLockChild() (*lockChild, error) {
	cmd := exec.Command(os.Args[0], "__lockchild")
	in, err := cmd.StdinPipe()
	if err != nil {
		return nil, err
	}
	outp, err := cmd.StdoutPipe()
	if err != nil {
		return nil, err
	}
	cmd.Stderr = os.Stderr
	if err := cmd.Start(); err != nil {
		return nil, err
	}
	return &lockChild{cmd: cmd, in: in, out: bufio.NewReader(outp)}, nil
}

// call sends one command and waits for the one-line answer (generous bound: a child that
// does not answer within 60 s is a hang of Open/Close itself).
func (c *lockChild) call(line string) string {
	if _, err := io.WriteString(c.in, line+"\n"); err != nil {
		return "err child-write " + err.Error()
	}
	ch := make(chan string, 1)
	go func() {
		s, err := c.out.ReadString('\n')
		if err != nil {
			ch <- "err child-read " + err.Error()
			return
		}
		ch <- strings.TrimSpace(s)
	}()
	select {
	case s := <-ch:
		return s
	case <-time.After(60 * time.Second):
		return "err child-timeout"
	}
}

func (c *lockChild) kill() {
	_ = c.cmd.Process.Kill()
	_, _ = c.cmd.Process.Wait()
	c.in.Close()
}

// ---------------------------------------------------------------- session

type lockInst struct {
	proc   int
	dirs   []int // resolved directories (one entry when ValueDir == Dir as paths)
	ro     bool
	bypass bool
	db     *badger.DB // proc 0 only
}

type lockSess struct {
	base  string
	nd    int
	procs map[int]*lockChild
	insts map[int]*lockInst
}

// lockDirName: the directories come in groups of three related paths — a root ("d"), a
// directory nested in it ("d/v") and a sibling whose name has the root's name as a prefix
// ("d-v") — so that Dir / ValueDir pairs cover nested and common-prefix layouts as well as
// unrelated ones ("d" with "e/v").
func lockDirName(i int) string {
	root := string(rune('d' + i/3))
	switch i % 3 {
	case 1:
		return root + "/v"
	case 2:
		return root + "-v"
	}
	return root
}

func (s *lockSess) path(p int) string {
	if p < s.nd {
		return filepath.Join(s.base, lockDirName(p))
	}
	return filepath.Join(s.base, fmt.Sprintf("a%d", p%s.nd)) // symlink: a second name
}

// endSession closes every instance (children stay alive for the next session: starting a
// process costs more than a whole session) and removes the directories.
func (s *lockSess) endSession() {
	for id, in := range s.insts {
		if in.db != nil {
			_ = in.db.Close()
		} else if c := s.procs[in.proc]; c != nil {
			c.call(fmt.Sprintf("close %d", id))
		}
	}
	if s.base != "" {
		os.RemoveAll(s.base)
	}
	s.insts = map[int]*lockInst{}
	s.base = ""
}

func (s *lockSess) close() {
	s.endSession()
	for _, c := range s.procs {
		c.kill()
	}
	s.procs = map[int]*lockChild{}
}

func (s *lockSess) reset(nd int) error {
	s.endSession()
	s.nd = nd
	s.base = scratchDir()
	for i := 0; i < nd; i++ {
		if err := os.MkdirAll(filepath.Join(s.base, lockDirName(i)), 0o755); err != nil {
			return err
		}
		if err := os.Symlink(lockDirName(i), filepath.Join(s.base, fmt.Sprintf("a%d", i))); err != nil {
			return err
		}
	}
	return nil
}

// probe reports the flock state of directory i as seen by a fresh descriptor: F(ree),
// S(hared holders only), X (an exclusive holder).
func (s *lockSess) probe(i int) string {
	f, err := os.Open(s.path(i))
	if err != nil {
		return "?"
	}
	defer f.Close()
	if syscall.Flock(int(f.Fd()), syscall.LOCK_EX|syscall.LOCK_NB) == nil {
		return "F"
	}
	if syscall.Flock(int(f.Fd()), syscall.LOCK_SH|syscall.LOCK_NB) == nil {
		return "S"
	}
	return "X"
}

func (s *lockSess) dump() string {
	var ls, ps []string
	for i := 0; i < s.nd; i++ {
		ls = append(ls, s.probe(i))
		b, err := os.ReadFile(filepath.Join(s.path(i), "LOCK"))
		if err != nil {
			ps = append(ps, "-")
			continue
		}
		pid, _ := strconv.Atoi(strings.TrimSpace(string(b)))
		who := "?"
		if pid == os.Getpid() {
			who = "0"
		}
		for p, c := range s.procs {
			if c.cmd.Process != nil && c.cmd.Process.Pid == pid {
				who = strconv.Itoa(p)
			}
		}
		if w, ok := deadPids[pid]; ok {
			who = strconv.Itoa(w)
		}
		ps = append(ps, who)
	}
	return "L=" + strings.Join(ls, "") + " P=" + strings.Join(ps, ",")
}

// pids of killed children (their pid files stay behind)
var deadPids = map[int]int{}

func execLock(intents []string, st *Stats) (final, outs, oracle []string) {
	s := &lockSess{insts: map[int]*lockInst{}, procs: map[int]*lockChild{}}
	defer s.close()
	emit := func(op, out string) {
		final = append(final, op)
		outs = append(outs, out)
	}
	fail := func(tag, msg string) {
		oracle = append(oracle, fmt.Sprintf("line %d: %s :: [%s] %s", len(final), final[len(final)-1], tag, msg))
	}
	for _, line := range intents {
		w := strings.Fields(line)
		if len(w) == 0 {
			continue
		}
		progress(line)
		kv := kvWords(w[1:])
		if w[0] != "reset" && s.base == "" {
			emit(line, "bad-op")
			continue
		}
		st.Inc("op:" + w[0])
		switch w[0] {
		case "reset":
			nd := kvInt(kv, "nd", 3)
			if err := s.reset(nd); err != nil {
				emit(line, "err:"+err.Error())
				continue
			}
			emit(fmt.Sprintf("reset nd=%d", nd), "ok "+s.dump())
		case "open":
			id, proc := kvInt(kv, "i", 0), kvInt(kv, "p", 0)
			d, v := kvInt(kv, "d", 0), kvInt(kv, "v", 0)
			ro, bypass := kvInt(kv, "ro", 0) != 0, kvInt(kv, "bypass", 0) != 0
			wk := kvInt(kv, "wk", 0) != 0
			if _, dup := s.insts[id]; dup || d >= 2*s.nd || v >= 2*s.nd {
				emit(line, "bad-op")
				continue
			}
			if bypass && !ro {
				bypass = false // two unlocked writers on one directory destroy each other's files
			}
			// a wrong key is only offered to a directory that already has a (plain) registry,
			// so that no encrypted database is ever created
			if wk {
				if _, err := os.Stat(filepath.Join(s.path(d), "KEYREGISTRY")); err != nil {
					wk = false
				}
			}
			before := s.dump()
			var res, msg string
			var db *badger.DB
			if proc == 0 {
				db, res, msg = lockOpen(s.path(d), s.path(v), ro, bypass, wk)
			} else {
				c := s.procs[proc]
				if c == nil {
					var err error
					if c, err = startLockChild(); err != nil {
						emit(line, "err:child:"+err.Error())
						continue
					}
					s.procs[proc] = c
					st.Inc("child-started")
				}
				r := c.call(fmt.Sprintf("open %d %s %s %d %d %d", id, s.path(d), s.path(v), b2i(ro), b2i(bypass), b2i(wk)))
				res, msg, _ = strings.Cut(r, " ")
			}
			later := 0
			if res == "err" {
				later = 1
			}
			op := fmt.Sprintf("open i=%d p=%d d=%d v=%d ro=%d bypass=%d wk=%d later=%d", id, proc, d, v, b2i(ro), b2i(bypass), b2i(wk), later)
			after := s.dump()
			emit(op, res+" "+after)
			st.Inc(fmt.Sprintf("open:%s:ro=%v,proc0=%v,sameDir=%v", res, ro, proc == 0, d == v))
			layout := "unrelated"
			switch pd, pv := s.path(d%s.nd), s.path(v%s.nd); {
			case d == v:
				layout = "same-path"
			case pd == pv:
				layout = "two-names-of-one-directory"
			case strings.HasPrefix(pv, pd+"/"):
				layout = "valuedir-nested-in-dir"
			case strings.HasPrefix(pv, pd):
				layout = "valuedir-sibling-with-dir-as-name-prefix"
			case strings.HasPrefix(pd, pv):
				layout = "dir-inside-or-prefixed-by-valuedir"
			}
			st.Inc("layout:" + layout + ":" + res)
			if res == "err" {
				st.Inc("open-err:" + lockFirstWords(msg, 4))
			}
			dirs := []int{d % s.nd}
			if v != d {
				dirs = append(dirs, v%s.nd)
			}
			// ---- oracle: the property
			if !bypass {
				var rwHolder, roHolder *lockInst
				for _, in := range s.insts {
					if in.bypass {
						continue
					}
					for _, x := range in.dirs {
						for _, y := range dirs {
							if x == y {
								if in.ro {
									roHolder = in
								} else {
									rwHolder = in
								}
							}
						}
					}
				}
				selfAlias := !ro && v != d && v%s.nd == d%s.nd
				switch {
				case rwHolder != nil:
					if res == "ok" {
						fail("C35-exclusion", fmt.Sprintf("Open(ro=%v) by process %d succeeded while a read-write instance of process %d holds one of its directories", ro, proc, rwHolder.proc))
					}
				case ro && res == "locked":
					fail("C35-ro-coexist", "read-only Open refused with the lock error although no read-write instance holds its directories")
				case roHolder == nil && !selfAlias && res == "locked":
					fail("C35-release", "Open refused with the lock error although every instance that held its directories has been closed")
				}
			}
			if res != "ok" && strings.Fields(before)[0] != strings.Fields(after)[0] {
				fail("C35-no-leak", fmt.Sprintf("failed Open changed the lock state: before %s after %s", before, after))
			}
			if res == "ok" {
				s.insts[id] = &lockInst{proc: proc, dirs: dirs, ro: ro, bypass: bypass, db: db}
			}
		case "close":
			id := kvInt(kv, "i", 0)
			in := s.insts[id]
			res := "ok"
			if in != nil {
				delete(s.insts, id)
				if in.proc == 0 {
					if err := in.db.Close(); err != nil {
						res = "err:" + strings.ReplaceAll(err.Error(), " ", "_")
					}
				} else if c := s.procs[in.proc]; c != nil {
					r := c.call(fmt.Sprintf("close %d", id))
					if r != "ok" {
						res = strings.ReplaceAll(r, " ", "_")
					}
				}
			}
			emit(line, res+" "+s.dump())
		case "kill":
			p := kvInt(kv, "p", 0)
			if p == 0 {
				emit(line, "bad-op")
				continue
			}
			if c := s.procs[p]; c != nil {
				deadPids[c.cmd.Process.Pid] = p
				c.kill()
				delete(s.procs, p)
				st.Inc("child-killed")
			}
			for id, in := range s.insts {
				if in.proc == p {
					delete(s.insts, id)
				}
			}
			emit(line, "ok "+s.dump())
		default:
			emit(line, "bad-op")
		}
	}
	return
}

func lockFirstWords(s string, n int) string {
	w := strings.Fields(s)
	if len(w) > n {
		w = w[:n]
	}
	return strings.Join(w, "_")
}

// ---------------------------------------------------------------- generator

func genLock(rng *rand.Rand, n int, st *Stats) []string {
	var ops []string
	for c := 0; c < n; c++ {
		nd := 6 // two groups: d, d/v, d-v and e, e/v, e-v
		ops = append(ops, fmt.Sprintf("reset nd=%d", nd))
		nextID := 1
		var attempted []int
		type dv struct{ d, v int }
		var created []dv // Dir/ValueDir pairs of earlier read-write opens: a database may exist there
		var usedV []int  // value directories of earlier opens: later opens share them under another Dir
		nops := 8 + rng.Intn(14)
		for i := 0; i < nops; i++ {
			r := rng.Intn(100)
			switch {
			case r < 58 || len(attempted) == 0:
				g := rng.Intn(nd / 3)
				d := 3*g + pick(rng, 0, 0, 0, 1, 2)
				v := d
				switch x := rng.Intn(20); {
				case x < 7: // Dir == ValueDir
				case x < 13: // related: nested in / common-prefix sibling of / parent of Dir
					v = 3*g + rng.Intn(3)
				case x < 17 && len(usedV) > 0: // a value directory somebody else uses, under another Dir
					v = usedV[rng.Intn(len(usedV))]
					if rng.Intn(2) == 0 {
						d = rng.Intn(nd)
					}
				default:
					v = rng.Intn(nd)
				}
				if rng.Intn(8) == 0 {
					d += nd // second name of the directory
				}
				if rng.Intn(8) == 0 {
					v = (v + nd) % (2 * nd)
				}
				usedV = append(usedV, v%nd)
				ro := rng.Intn(5) < 2
				if ro && len(created) > 0 && rng.Intn(4) != 0 {
					c := created[rng.Intn(len(created))]
					d, v = c.d, c.v
					if rng.Intn(5) == 0 {
						d, v = (d+nd)%(2*nd), (v+nd)%(2*nd) // through the other names
					}
				}
				if !ro {
					created = append(created, dv{d, v})
				}
				proc := pick(rng, 0, 0, 1, 1, 2)
				bypass := ro && rng.Intn(12) == 0
				wk := !ro && rng.Intn(10) == 0
				ops = append(ops, fmt.Sprintf("open i=%d p=%d d=%d v=%d ro=%d bypass=%d wk=%d", nextID, proc, d, v, b2i(ro), b2i(bypass), b2i(wk)))
				attempted = append(attempted, nextID)
				nextID++
			case r < 92:
				j := rng.Intn(len(attempted))
				ops = append(ops, fmt.Sprintf("close i=%d", attempted[j]))
				if rng.Intn(4) != 0 {
					attempted = append(attempted[:j], attempted[j+1:]...)
				}
			default:
				ops = append(ops, fmt.Sprintf("kill p=%d", 1+rng.Intn(2)))
			}
		}
	}
	return ops
}
