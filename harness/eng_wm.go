package main

// Engines of the "wm" area (C34, C02, C03):
//
//	watermark  the real y.WaterMark fed with generated mark sequences (Begin/Done/BeginMany/
//	           DoneMany/WaitForMark); the process goroutine is asynchronous, so after every
//	           op the harness waits for quiescence with VerifBarrier (a sentinel mark that is
//	           answered only after all earlier marks were handled).
//	oracle     the real badger oracle, call level (readTs/newCommitTs/doneCommit/doneRead/
//	           cleanup through verif_export_oracle.go).          -> eng_wm_oracle part below
//	txn        a real in-memory DB driven through the public Txn API. -> below
//
// Blocking calls run in goroutines. "Should have returned" is awaited with a generous
// timeout (a time-out is a stranded waiter = violation; it cannot fire on correct code unless
// the machine stalls for seconds); "should still be blocked" is never decided by a sleep: an
// early return is noticed whenever the goroutine gets to report it, at the latest at the end of
// the session, and is a certain violation because doneUntil only grows.

import (
	"context"
	"fmt"
	"math/rand"
	"os"
	"runtime"
	"sort"
	"strings"
	"time"

	badger "github.com/dgraph-io/badger/v4"
	"github.com/dgraph-io/badger/v4/options"
	"github.com/dgraph-io/badger/v4/y"
)

func init() {
	engines["watermark"] = &Engine{Gen: genWatermark, Exec: execWatermark}
}

// strandedTimeout is how long a goroutine that the specification says must return is awaited.
// After the first stranded goroutine of a run it is cut down: the run already failed.
var strandedTimeout = 8 * time.Second

// barrierStuck is the panic raised when a quiescence barrier is not answered: the process
// goroutine of a watermark is gone, stuck, or no longer releases a waiter for index 0. The run
// is aborted: the remaining op lines are answered "aborted" and a [barrier-stuck] failure is
// reported at the op that was being executed.
type barrierStuck struct{ what string }

func wmBarrier(w *y.WaterMark) func() {
	return func() {
		if !w.VerifBarrierTimeout(strandedTimeout) {
			strandedTimeout = 50 * time.Millisecond
			panic(barrierStuck{"watermark"})
		}
	}
}

func orcBarrier(v *badger.VerifOracle) func() {
	return func() {
		if !v.BarrierTimeout(strandedTimeout) {
			strandedTimeout = 50 * time.Millisecond
			panic(barrierStuck{"oracle watermarks"})
		}
	}
}

// abortOnStuck is deferred by the executors.
func abortOnStuck(ops []string, cur *int, outs []string, oracle *[]string) {
	r := recover()
	if r == nil {
		return
	}
	bs, ok := r.(barrierStuck)
	if !ok {
		panic(r)
	}
	i := *cur
	if i >= len(ops) {
		i = len(ops) - 1
	}
	*oracle = append(*oracle, fmt.Sprintf("line %d: %s :: [barrier-stuck] the %s did not become quiescent (process goroutine stuck, or a waiter for an index at or below doneUntil is not released)", i+1, ops[i], bs.what))
	for j := range outs {
		if outs[j] == "" {
			outs[j] = "aborted"
		}
	}
}

func awaitClosed(ch <-chan struct{}) bool {
	select {
	case <-ch:
		return true
	default:
	}
	t := time.NewTimer(strandedTimeout)
	defer t.Stop()
	select {
	case <-ch:
		return true
	case <-t.C:
		strandedTimeout = 50 * time.Millisecond
		return false
	}
}

func isClosed(ch <-chan struct{}) bool {
	select {
	case <-ch:
		return true
	default:
		return false
	}
}

// ---------------------------------------------------------------- naive watermark spec

// shadowWM is the specification of the watermark written naively: a multiset of begun-minus-done
// counts; doneUntil moves to the smallest tracked index while that index has a count <= 0.
// It is used by the generator (to build mostly valid sequences), by the executor to refuse
// marks on which the production code would log.Fatal (which cannot be recovered), and as the
// "equals the naive spec" oracle.
type shadowWM struct {
	du   uint64
	last uint64
	pend map[uint64]int
}

func newShadowWM() *shadowWM { return &shadowWM{pend: map[uint64]int{}} }

func (s *shadowWM) clone() *shadowWM {
	c := &shadowWM{du: s.du, last: s.last, pend: map[uint64]int{}}
	for k, v := range s.pend {
		c.pend[k] = v
	}
	return c
}

// proc returns false when the production code would assert (doneUntil > index).
func (s *shadowWM) proc(idx uint64, done bool) bool {
	if s.du > idx {
		return false
	}
	if done {
		s.pend[idx]--
	} else {
		s.pend[idx]++
	}
	for len(s.pend) > 0 {
		first := true
		var min uint64
		for k := range s.pend {
			if first || k < min {
				min, first = k, false
			}
		}
		if s.pend[min] > 0 {
			break
		}
		delete(s.pend, min)
		s.du = min
	}
	return true
}

// apply runs a whole mark on a copy and commits it only if no assert fires.
func (s *shadowWM) apply(op string, idxs []uint64) bool {
	c := s.clone()
	done := op == "done" || op == "donemany"
	list := idxs
	if op == "donemany" && len(idxs) == 0 {
		list = []uint64{0}
	}
	for _, i := range list {
		if !c.proc(i, done) {
			return false
		}
	}
	if !done && len(idxs) > 0 {
		c.last = idxs[len(idxs)-1]
	}
	*s = *c
	return true
}

func (s *shadowWM) pendingIdx() []uint64 {
	var r []uint64
	for k, v := range s.pend {
		if v > 0 {
			r = append(r, k)
		}
	}
	sort.Slice(r, func(i, j int) bool { return r[i] < r[j] })
	return r
}

// ---------------------------------------------------------------- generator

func joinU(xs []uint64) string {
	var b strings.Builder
	for _, x := range xs {
		fmt.Fprintf(&b, " %d", x)
	}
	return b.String()
}

func genWatermark(rng *rand.Rand, n int, st *Stats) []string {
	var ops []string
	for c := 0; c < n; c++ {
		ops = append(ops, genWatermarkSession(rng, st)...)
	}
	return ops
}

func genWatermarkSession(rng *rand.Rand, st *Stats) []string {
	ops := []string{"reset"}
	sh := newShadowWM()
	// style: "txn" = every index begun once, in increasing order (the oracle's txnMark);
	// "read" = non-decreasing begins with repeats (the oracle's readMark); "any" = anything.
	style := []string{"txn", "read", "any"}[rng.Intn(3)]
	st.Inc("wm-style:" + style)
	base := uint64(0)
	switch rng.Intn(6) {
	case 0:
		base = 1 << 32
	case 1:
		base = 1<<63 - 50
	case 2:
		base = uint64(rng.Intn(1000))
	}
	next := base + uint64(rng.Intn(3))
	if base > 0 || rng.Intn(2) == 0 {
		// like DB.Open: Done(nextTxnTs) without Begin positions the watermark
		ops = append(ops, fmt.Sprintf("done %d", next))
		sh.apply("done", []uint64{next})
		next++
	}
	wid := 0
	nops := 8 + rng.Intn(40)
	for i := 0; i < nops; i++ {
		pend := sh.pendingIdx()
		r := rng.Intn(100)
		switch {
		case r < 30: // begin
			idx := next
			switch style {
			case "txn":
				if rng.Intn(8) == 0 {
					idx += uint64(1 + rng.Intn(40)) // gap (exercises the map notify path)
				}
				next = idx + 1
			case "read":
				if rng.Intn(3) == 0 && next > base {
					idx = next - 1 // same read timestamp again (also == doneUntil sometimes)
				} else {
					if rng.Intn(8) == 0 {
						idx += uint64(rng.Intn(30))
					}
					next = idx + 1
				}
			default:
				switch rng.Intn(6) {
				case 0:
					idx = sh.du // re-begin of the index the watermark stands on
				case 1:
					if sh.du > 0 {
						idx = sh.du - 1 // would assert
					}
				case 2:
					idx = sh.du + uint64(rng.Intn(6))
				default:
					idx += uint64(rng.Intn(4))
					next = idx + 1
				}
			}
			ops = append(ops, fmt.Sprintf("begin %d", idx))
			sh.apply("begin", []uint64{idx})
		case r < 58: // done of a pending index
			if len(pend) == 0 {
				continue
			}
			idx := pend[rng.Intn(len(pend))]
			if rng.Intn(3) == 0 {
				idx = pend[0]
			}
			ops = append(ops, fmt.Sprintf("done %d", idx))
			sh.apply("done", []uint64{idx})
		case r < 63 && style == "any": // done of something not pending / double done
			idx := sh.du + uint64(rng.Intn(5))
			ops = append(ops, fmt.Sprintf("done %d", idx))
			sh.apply("done", []uint64{idx})
		case r < 70: // beginmany, ascending
			k := rng.Intn(4)
			if style != "any" && k == 0 {
				k = 1
			}
			var idxs []uint64
			for j := 0; j < k; j++ {
				idxs = append(idxs, next)
				if style == "read" && rng.Intn(3) == 0 {
					continue
				}
				next += 1 + uint64(rng.Intn(3))
			}
			ops = append(ops, "beginmany"+joinU(idxs))
			if len(idxs) > 0 {
				sh.apply("beginmany", idxs)
			}
		case r < 77: // donemany of some pending indices (ascending), rarely empty
			var idxs []uint64
			for _, p := range pend {
				if rng.Intn(2) == 0 {
					idxs = append(idxs, p)
				}
			}
			if len(idxs) == 0 && !(style == "any" && rng.Intn(3) == 0) {
				continue
			}
			ops = append(ops, "donemany"+joinU(idxs))
			sh.apply("donemany", idxs)
		default: // wait
			var idx uint64
			switch rng.Intn(5) {
			case 0:
				idx = sh.du
			case 1:
				if sh.du > 0 {
					idx = sh.du - 1
				}
			case 2:
				idx = next + uint64(rng.Intn(3))
			default:
				if len(pend) > 0 {
					idx = pend[rng.Intn(len(pend))]
				} else {
					idx = sh.du + 1
				}
			}
			wid++
			op := "wait"
			if rng.Intn(2) == 0 {
				op = "waitraw"
			}
			ops = append(ops, fmt.Sprintf("%s %d %d", op, idx, wid))
		}
	}
	// drain: finish everything so that every waiter at or below the last index is released
	if rng.Intn(3) != 0 {
		for _, p := range sh.pendingIdx() {
			for sh.pend[p] > 0 {
				ops = append(ops, fmt.Sprintf("done %d", p))
				sh.apply("done", []uint64{p})
			}
		}
	}
	st.Inc(fmt.Sprintf("wm-session-len:%s", sizeBucket(len(ops))))
	return ops
}

// ---------------------------------------------------------------- executor

type wmWaiter struct {
	id   uint64
	idx  uint64
	ch   <-chan struct{} // closed when the waiter was released (raw) / WaitForMark returned nil
	raw  bool
	gone bool
}

type wmSession struct {
	w       *y.WaterMark
	stop    func()
	cancel  context.CancelFunc
	ctx     context.Context
	waiters []*wmWaiter
	sh      *shadowWM
	prevDU  uint64
	wf      bool // every done so far matched an earlier begin
}

// wmWaitBody is the goroutine of a WaitForMark call (its name is looked for in stacks).
func wmWaitBody(w *y.WaterMark, ctx context.Context, idx uint64, ch chan struct{}) {
	if err := w.WaitForMark(ctx, idx); err == nil {
		close(ch)
	}
}

// outstanding counts the WaitForMark goroutines that have not returned.
func (s *wmSession) outstanding() int {
	n := 0
	for _, wt := range s.waiters {
		if !wt.raw && !wt.gone && !isClosed(wt.ch) {
			n++
		}
	}
	return n
}

func newWMSession() *wmSession {
	w, stop := y.VerifNewWaterMark("verif")
	ctx, cancel := context.WithCancel(context.Background())
	return &wmSession{w: w, stop: stop, ctx: ctx, cancel: cancel, sh: newShadowWM(), wf: true}
}

// sweep collects released waiters after quiescence. Returns the woke list and oracle failures.
func (s *wmSession) sweep() (woke []string, fails []string) {
	du := s.w.DoneUntil()
	type wk struct {
		id, idx uint64
	}
	var ws []wk
	for _, wt := range s.waiters {
		if wt.gone {
			continue
		}
		if wt.idx <= du {
			// C34: a waiter for an index at or below doneUntil must have been released
			if awaitClosed(wt.ch) {
				wt.gone = true
				ws = append(ws, wk{wt.id, wt.idx})
			} else {
				wt.gone = true // report once
				fails = append(fails, fmt.Sprintf("[waiter-stranded] waiter %d for index %d not released although DoneUntil=%d", wt.id, wt.idx, du))
			}
		} else if isClosed(wt.ch) {
			wt.gone = true
			ws = append(ws, wk{wt.id, wt.idx})
			fails = append(fails, fmt.Sprintf("[waiter-early] waiter %d for index %d released while DoneUntil=%d", wt.id, wt.idx, du))
		}
	}
	sort.Slice(ws, func(i, j int) bool { return ws[i].id < ws[j].id })
	for _, x := range ws {
		woke = append(woke, fmt.Sprintf("%d:%d", x.id, x.idx))
	}
	return
}

func (s *wmSession) close() (fails []string) {
	// last chance to notice early releases of WaitForMark goroutines
	settle("wmWaitBody", wmBarrier(s.w), s.outstanding, false)
	_, f := s.sweep()
	fails = append(fails, f...)
	s.cancel()
	s.stop()
	return
}

func (s *wmSession) out(woke []string) string {
	w := "-"
	if len(woke) > 0 {
		w = strings.Join(woke, ",")
	}
	return fmt.Sprintf("du=%d li=%d woke=%s", s.w.DoneUntil(), s.w.LastIndex(), w)
}

func execWatermark(ops []string, st *Stats) (outs []string, oracle []string) {
	outs = make([]string, len(ops))
	cur := 0
	defer abortOnStuck(ops, &cur, outs, &oracle)
	var s *wmSession
	fail := func(i int, msg string) {
		oracle = append(oracle, fmt.Sprintf("line %d: %s :: %s", i+1, ops[i], msg))
	}
	for i, l := range ops {
		cur = i
		w := strings.Fields(l)
		if len(w) == 0 {
			outs[i] = "bad-op"
			continue
		}
		if w[0] == "reset" {
			if s != nil {
				for _, f := range s.close() {
					fail(i-1, f)
				}
			}
			s = newWMSession()
			outs[i] = "ok"
			st.Inc("op:reset")
			continue
		}
		if s == nil {
			outs[i] = "bad-op"
			continue
		}
		var args []uint64
		bad := false
		for _, a := range w[1:] {
			v, err := parseU(a)
			if err != nil {
				bad = true
			}
			args = append(args, v)
		}
		if bad {
			outs[i] = "bad-op"
			continue
		}
		st.Inc("op:" + w[0])
		fresh := false
		switch w[0] {
		case "begin", "done", "beginmany", "donemany":
			if (w[0] == "begin" || w[0] == "done") && len(args) != 1 {
				outs[i] = "bad-op"
				continue
			}
			if w[0] == "beginmany" && len(args) == 0 {
				outs[i] = safely(func() string { s.w.BeginMany(nil); return "no-panic" })
				continue
			}
			// refuse marks on which process would log.Fatal (not recoverable)
			if !s.sh.apply(w[0], args) {
				outs[i] = "assert"
				st.Inc("wm:assert-refused")
				continue
			}
			// the specification accepts the mark; if the implementation's watermark is already
			// past one of its indices (a violation reported when it happened) the call would
			// kill the process: refuse it
			realAhead := false
			for _, a := range args {
				if a < s.w.DoneUntil() {
					realAhead = true
				}
			}
			if w[0] == "donemany" && len(args) == 0 && s.w.DoneUntil() > 0 {
				realAhead = true
			}
			if realAhead {
				outs[i] = "assert"
				fail(i, fmt.Sprintf("[du-ahead-of-pending] DoneUntil=%d is past an index of this mark although the specification has DoneUntil=%d", s.w.DoneUntil(), s.prevDU))
				continue
			}
			if w[0] == "done" || w[0] == "donemany" {
				// well-formedness bookkeeping is implicit in the shadow: negative counts
				for _, v := range s.sh.pend {
					if v < 0 {
						s.wf = false
					}
				}
			}
			switch w[0] {
			case "begin":
				s.w.Begin(args[0])
			case "done":
				s.w.Done(args[0])
			case "beginmany":
				s.w.BeginMany(args)
			case "donemany":
				s.w.DoneMany(args)
			}
		case "wait", "waitraw":
			if len(args) != 2 {
				outs[i] = "bad-op"
				continue
			}
			wt := &wmWaiter{id: args[1], idx: args[0], raw: w[0] == "waitraw"}
			if wt.raw {
				wt.ch = s.w.VerifWaitRaw(wt.idx)
			} else {
				ch := make(chan struct{})
				wt.ch = ch
				go wmWaitBody(s.w, s.ctx, wt.idx, ch)
				fresh = true
			}
			s.waiters = append(s.waiters, wt)
		default:
			outs[i] = "bad-op"
			continue
		}
		// all WaitForMark goroutines are back or parked with their mark handled
		if !settle("wmWaitBody", wmBarrier(s.w), s.outstanding, fresh) {
			fail(i, "[waiter-lost] a WaitForMark goroutine is neither back nor parked")
		}
		du := s.w.DoneUntil()
		woke, fails := s.sweep()
		outs[i] = s.out(woke)
		for _, f := range fails {
			fail(i, f)
		}
		// ---- C34 evaluated directly on the implementation
		if du < s.prevDU {
			fail(i, fmt.Sprintf("[du-monotone] DoneUntil went from %d to %d", s.prevDU, du))
		}
		s.prevDU = du
		for idx, c := range s.sh.pend {
			if c > 0 && du > idx {
				fail(i, fmt.Sprintf("[du-ahead-of-pending] DoneUntil=%d but index %d has %d unfinished Begin(s)", du, idx, c))
			}
		}
		if du != s.sh.du {
			fail(i, fmt.Sprintf("[du-not-spec] DoneUntil=%d, specification says %d", du, s.sh.du))
		}
		if li := s.w.LastIndex(); li != s.sh.last {
			fail(i, fmt.Sprintf("[last-index] LastIndex=%d, want %d", li, s.sh.last))
		}
		if len(woke) > 0 {
			st.Inc("wm:wakeups")
		}
	}
	if s != nil {
		for _, f := range s.close() {
			fail(len(ops)-1, f)
		}
	}
	return outs, oracle
}

func parseU(s string) (v uint64, err error) {
	defer func() {
		if r := recover(); r != nil {
			err = fmt.Errorf("bad uint")
		}
	}()
	return atou(s), nil
}

// =====================================================================================
// goroutine settling: all blocking calls issued by the harness are either back or parked
// =====================================================================================

// countParked counts goroutines whose stack contains `marker` and that are parked in the
// select of WaterMark.WaitForMark.
var stackBuf = make([]byte, 1<<18)

func countParked(marker string) int {
	var buf []byte
	for {
		n := runtime.Stack(stackBuf, true)
		if n < len(stackBuf) {
			buf = stackBuf[:n]
			break
		}
		stackBuf = make([]byte, 2*len(stackBuf))
	}
	cnt := 0
	for _, blk := range strings.Split(string(buf), "\n\n") {
		if !strings.Contains(blk, marker) || !strings.Contains(blk, ".WaitForMark") {
			continue
		}
		nl := strings.IndexByte(blk, '\n')
		if nl < 0 {
			continue
		}
		hdr := blk[:nl]
		lb := strings.IndexByte(hdr, '[')
		if lb < 0 {
			continue
		}
		st := hdr[lb+1:]
		if strings.HasPrefix(st, "select") || strings.HasPrefix(st, "chan receive") {
			cnt++
		}
	}
	return cnt
}

// settle waits until the `outstanding()` blocking calls still not returned are all parked in
// WaitForMark (after `barrier` made the watermark goroutines quiescent). It returns false when
// that does not happen within strandedTimeout (some goroutine is neither back nor parked).
// A goroutine parked in the select has sent its waiter mark; `fresh` says that a goroutine was
// launched by the current op, in which case the mark may not have been handled yet: a second
// barrier flushes it and the goroutines are looked at once more (a released one is no longer
// parked). Without a fresh goroutine every parked one had its mark handled by an earlier op.
func settle(marker string, barrier func(), outstanding func() int, fresh bool) bool {
	deadline := time.Now().Add(strandedTimeout)
	for spin := 0; ; spin++ {
		barrier()
		n := outstanding()
		if n == 0 {
			return true
		}
		if countParked(marker) >= n {
			if !fresh {
				return true
			}
			barrier()
			n2 := outstanding()
			if n2 == 0 || countParked(marker) >= n2 {
				return true
			}
		}
		if time.Now().After(deadline) {
			strandedTimeout = 50 * time.Millisecond // the run has failed; do not wait again
			return false
		}
		if spin < 50 {
			runtime.Gosched()
		} else {
			time.Sleep(200 * time.Microsecond)
		}
	}
}

// =====================================================================================
// specification of the oracle (naive: the full history is kept for ever)
// =====================================================================================

const (
	rtBlocked = iota // inside NewTransaction/readTs
	rtActive
	rtClosing // Commit returned ErrConflict, Discard not yet run (call level only)
	rtClosed
)

type refTxn struct {
	readTs   uint64
	update   bool
	reads    []uint64
	writes   map[uint64]bool
	state    int
	contract bool // managed mode: discardTs <= readTs held during its whole life
}

type refCommit struct {
	ts     uint64
	writes map[uint64]bool
	done   bool
}

type refOracle struct {
	managed, detect bool
	next            uint64
	discardTs       uint64
	lastCleanup     uint64 // only for the assert guards (managed mode)
	txns            []*refTxn
	commits         []*refCommit
}

func newRefOracle(managed, detect bool, n uint64) *refOracle {
	return &refOracle{managed: managed, detect: detect, next: n + 1}
}

// applied: every allocated commit timestamp <= r has been reported done.
func (r *refOracle) applied(readTs uint64) bool {
	for _, c := range r.commits {
		if c.ts <= readTs && !c.done {
			return false
		}
	}
	return true
}

func (r *refOracle) pendingCommits() []uint64 {
	var out []uint64
	for _, c := range r.commits {
		if !c.done {
			out = append(out, c.ts)
		}
	}
	return out
}

// conflictSpec is the statement of C02: some transaction that obtained a commit timestamp
// after t's read timestamp wrote a key t read.
func (r *refOracle) conflictSpec(t *refTxn) bool {
	if !r.detect {
		return false
	}
	for _, c := range r.commits {
		if c.ts <= t.readTs {
			continue
		}
		for _, k := range t.reads {
			if c.writes[k] {
				return true
			}
		}
	}
	return false
}

func copySet(m map[uint64]bool) map[uint64]bool {
	c := map[uint64]bool{}
	for k := range m {
		c[k] = true
	}
	return c
}

// =====================================================================================
// engine "oracle": the production oracle, call level
// =====================================================================================

func init() {
	engines["oracle"] = &Engine{Gen: genOracle, Exec: execOracle}
	engines["txn"] = &Engine{Gen: genTxn, Exec: execTxn}
}

func b01(b bool) int {
	if b {
		return 1
	}
	return 0
}

func genOracle(rng *rand.Rand, n int, st *Stats) []string {
	var ops []string
	for c := 0; c < n; c++ {
		ops = append(ops, genOracleSession(rng, st)...)
	}
	return ops
}

func genOracleSession(rng *rand.Rand, st *Stats) []string {
	managed := rng.Intn(5) == 0
	if params["mode"] == "normal" {
		managed = false
	}
	detect := rng.Intn(8) != 0
	n0 := uint64(0)
	switch rng.Intn(4) {
	case 0:
		n0 = uint64(rng.Intn(20))
	case 1:
		n0 = 1 << 40
	}
	ref := newRefOracle(managed, detect, n0)
	ops := []string{fmt.Sprintf("reset %d %d %d", b01(managed), b01(detect), n0)}
	st.Inc(fmt.Sprintf("orc-session:managed=%v,detect=%v", managed, detect))
	nkeys := 2 + rng.Intn(2)
	nops := 15 + rng.Intn(70)
	maxTs := n0 // managed: largest timestamp used so far
	for i := 0; i < nops; i++ {
		var active, closing, withWrites []int
		open := 0
		for tid, t := range ref.txns {
			switch t.state {
			case rtActive:
				active = append(active, tid)
				if t.update && len(t.writes) > 0 {
					withWrites = append(withWrites, tid)
				}
				open++
			case rtClosing:
				closing = append(closing, tid)
				open++
			case rtBlocked:
				open++
			}
		}
		r := rng.Intn(100)
		if open < 2 && rng.Intn(2) == 0 {
			r = 0 // keep at least two transactions in flight
		}
		switch {
		case r < 12 && open < 6: // new transaction
			tid := len(ref.txns)
			upd := rng.Intn(5) != 0
			if managed {
				// read timestamps anywhere between discardTs and the largest timestamp in use:
				// commit timestamps are caller-chosen and NOT monotonic in managed mode
				lo, hi := ref.discardTs, maxTs
				if hi < lo {
					hi = lo
				}
				rts := hi
				switch rng.Intn(4) {
				case 0:
					rts = lo + uint64(rng.Int63n(int64(hi-lo)+1))
				case 1:
					rts = hi + uint64(rng.Intn(3))
				case 2:
					rts = lo + uint64(rng.Int63n(int64(hi-lo)+1))/2
				}
				if rng.Intn(12) == 0 && rts > 0 {
					rts-- // occasionally below discardTs: the API contract is broken for this txn
				}
				ops = append(ops, fmt.Sprintf("beginat %d %d %d", tid, rts, b01(upd)))
				ref.txns = append(ref.txns, &refTxn{readTs: rts, update: upd, writes: map[uint64]bool{}, state: rtActive})
				if rts > maxTs {
					maxTs = rts
				}
			} else {
				ops = append(ops, fmt.Sprintf("readts %d %d", tid, b01(upd)))
				t := &refTxn{readTs: ref.next - 1, update: upd, writes: map[uint64]bool{}, state: rtBlocked}
				if ref.applied(t.readTs) {
					t.state = rtActive
				}
				ref.txns = append(ref.txns, t)
			}
		case r < 32 && len(active) > 0: // read
			tid := active[rng.Intn(len(active))]
			k := uint64(1 + rng.Intn(nkeys))
			ops = append(ops, fmt.Sprintf("read %d %d", tid, k))
			if ref.txns[tid].update {
				ref.txns[tid].reads = append(ref.txns[tid].reads, k)
			}
		case r < 52 && len(active) > 0: // write
			tid := active[rng.Intn(len(active))]
			k := uint64(1 + rng.Intn(nkeys))
			ops = append(ops, fmt.Sprintf("write %d %d", tid, k))
			if ref.txns[tid].update {
				ref.txns[tid].writes[k] = true
			}
		case r < 72 && len(withWrites) > 0: // commit
			tid := withWrites[rng.Intn(len(withWrites))]
			t := ref.txns[tid]
			if managed {
				lo, hi := ref.lastCleanup, maxTs
				if lo == 0 {
					lo = 1
				}
				if hi < lo {
					hi = lo
				}
				var ts uint64
				switch rng.Intn(3) {
				case 0:
					ts = hi + 1 + uint64(rng.Intn(2)) // above everything
				case 1:
					ts = lo + uint64(rng.Int63n(int64(hi-lo)+1)) // anywhere: non-monotonic
				default:
					ts = lo + uint64(rng.Intn(4)) // just above the discard bound
				}
				if rng.Intn(15) == 0 && ts > 1 {
					ts = lo - 1 // below lastCleanupTs: would assert (refused by the executor)
					if ts == 0 {
						ts = 1
					}
				}
				ops = append(ops, fmt.Sprintf("commitat %d %d", tid, ts))
				if ref.conflictSpec(t) {
					t.state = rtClosing
				} else if ts >= ref.lastCleanup {
					ref.commits = append(ref.commits, &refCommit{ts: ts, writes: copySet(t.writes), done: true})
					t.state = rtClosed
					if ts > maxTs {
						maxTs = ts
					}
				}
			} else {
				ops = append(ops, fmt.Sprintf("commit %d", tid))
				if ref.conflictSpec(t) {
					t.state = rtClosing
				} else {
					ref.commits = append(ref.commits, &refCommit{ts: ref.next, writes: copySet(t.writes)})
					ref.next++
					t.state = rtClosed
				}
			}
		case r < 79 && len(active)+len(closing) > 0: // discard
			all := append(append([]int{}, active...), closing...)
			tid := all[rng.Intn(len(all))]
			if len(closing) > 0 && rng.Intn(2) == 0 {
				tid = closing[rng.Intn(len(closing))]
			}
			ops = append(ops, fmt.Sprintf("discard %d", tid))
			ref.txns[tid].state = rtClosed
		case r < 94 && !managed: // the pipeline finishes a commit
			pc := ref.pendingCommits()
			if len(pc) == 0 {
				continue
			}
			ts := pc[rng.Intn(len(pc))]
			if rng.Intn(2) == 0 {
				ts = pc[0]
			}
			ops = append(ops, fmt.Sprintf("donecommit %d", ts))
			for _, c := range ref.commits {
				if c.ts == ts {
					c.done = true
				}
			}
			for _, t := range ref.txns {
				if t.state == rtBlocked && ref.applied(t.readTs) {
					t.state = rtActive
				}
			}
		case r < 86 && managed: // SetDiscardTs
			ts := ref.discardTs + uint64(rng.Intn(3))
			if rng.Intn(10) == 0 && ts > 0 {
				ts--
			}
			if rng.Intn(3) != 0 {
				// respect the contract: not above the read timestamp of an open update txn
				for _, t := range ref.txns {
					if t.state == rtActive && t.update && t.readTs < ts {
						ts = t.readTs
					}
				}
			}
			ops = append(ops, fmt.Sprintf("setdiscard %d", ts))
			if !detect || ts >= ref.lastCleanup {
				ref.discardTs = ts
				if detect {
					ref.lastCleanup = ts
				}
			}
		case r < 97:
			ops = append(ops, "cleanup")
		default:
			// an op on a transaction in the wrong state (both sides must answer skip)
			if len(ref.txns) > 0 {
				tid := rng.Intn(len(ref.txns))
				ops = append(ops, []string{fmt.Sprintf("commit %d", tid), fmt.Sprintf("discard %d", tid), fmt.Sprintf("read %d 1", tid)}[rng.Intn(3)])
				// keep ref in step for the cases that are actually enabled
				t := ref.txns[tid]
				last := ops[len(ops)-1]
				switch {
				case strings.HasPrefix(last, "discard") && (t.state == rtActive || t.state == rtClosing):
					t.state = rtClosed
				case strings.HasPrefix(last, "read") && t.state == rtActive && t.update:
					t.reads = append(t.reads, 1)
				case strings.HasPrefix(last, "commit") && !managed && t.state == rtActive && t.update && len(t.writes) > 0:
					if ref.conflictSpec(t) {
						t.state = rtClosing
					} else {
						ref.commits = append(ref.commits, &refCommit{ts: ref.next, writes: copySet(t.writes)})
						ref.next++
						t.state = rtClosed
					}
				}
			}
		}
	}
	// most sessions end by finishing all commits so that every reader must be released
	if !managed && rng.Intn(4) != 0 {
		for _, ts := range ref.pendingCommits() {
			ops = append(ops, fmt.Sprintf("donecommit %d", ts))
		}
	}
	st.Inc("orc-session-len:" + sizeBucket(len(ops)))
	return ops
}

func min64(a, b uint64) uint64 {
	if a < b {
		return a
	}
	return b
}

type orcTxn struct {
	x        *badger.VerifOrcTxn
	update   bool
	state    int
	ch       chan uint64 // readTs result
	expectR  uint64
	readTs   uint64
	hasWrite bool
	ref      *refTxn
}

type orcSession struct {
	v       *badger.VerifOracle
	managed bool
	detect  bool
	txns    []*orcTxn
	ref     *refOracle
	lastTs  uint64
	acked   uint64 // largest commit ts reported done
}

// orcReaderBody is the goroutine of a transaction start (its name is looked for in stacks).
func orcReaderBody(v *badger.VerifOracle, ch chan uint64) {
	ch <- v.ReadTs()
}

func (s *orcSession) outstanding() int {
	n := 0
	for _, t := range s.txns {
		if t.state == rtBlocked {
			select {
			case r := <-t.ch:
				t.readTs = r
				t.state = rtActive
				t.x = s.v.NewTxn(r, t.update)
				t.ch = nil
				t.state = -1 // returned, not yet reported
			default:
				n++
			}
		}
	}
	return n
}

func dumpOracle(st badger.VerifOracleState, keyName func(uint64) string) string {
	var b strings.Builder
	fmt.Fprintf(&b, "next=%d lc=%d dt=%d rd=%d td=%d da=%d ct=", st.NextTxnTs, st.LastCleanupTs, st.DiscardTs, st.ReadDoneUntil, st.TxnDoneUntil, st.DiscardAtOrBelow)
	if len(st.Committed) == 0 {
		b.WriteString("-")
	}
	for i, c := range st.Committed {
		if i > 0 {
			b.WriteString(";")
		}
		fmt.Fprintf(&b, "%d:", c.Ts)
		var ks []string
		for _, k := range c.Keys {
			ks = append(ks, keyName(k))
		}
		sort.Strings(ks)
		b.WriteString(strings.Join(ks, ","))
	}
	return b.String()
}

func sameCommitted(a, b badger.VerifOracleState) bool {
	if a.NextTxnTs != b.NextTxnTs || len(a.Committed) != len(b.Committed) {
		return false
	}
	for i := range a.Committed {
		if a.Committed[i].Ts != b.Committed[i].Ts || len(a.Committed[i].Keys) != len(b.Committed[i].Keys) {
			return false
		}
	}
	return true
}

func execOracle(ops []string, st *Stats) (outs []string, oracle []string) {
	outs = make([]string, len(ops))
	cur := 0
	defer abortOnStuck(ops, &cur, outs, &oracle)
	var s *orcSession
	fail := func(i int, msg string) {
		oracle = append(oracle, fmt.Sprintf("line %d: %s :: %s", i+1, ops[i], msg))
	}
	numName := func(k uint64) string { return utoa(k) }
	closeSession := func(i int) {
		if s == nil {
			return
		}
		// readers still blocked at the end of a session are released by finishing all commits
		if !s.managed {
			for _, c := range s.ref.commits {
				if !c.done && c.ts >= s.v.State().TxnDoneUntil { // below: Done would log.Fatal (already reported)
					s.v.DoneCommit(c.ts)
				}
				c.done = true
			}
			if !settle("orcReaderBody", orcBarrier(s.v), s.outstanding, true) || s.outstanding() != 0 {
				fail(i, "[reader-stranded] a transaction start is still blocked although every commit is done")
			}
		}
		s.v.Stop()
		s = nil
	}
	trace := os.Getenv("VERIF_TRACE") != ""
	for i, l := range ops {
		cur = i
		if trace {
			fmt.Fprintln(os.Stderr, "op:", l)
		}
		w := strings.Fields(l)
		if len(w) == 0 {
			outs[i] = "bad-op"
			continue
		}
		if w[0] == "reset" {
			if len(w) != 4 {
				outs[i] = "bad-op"
				continue
			}
			closeSession(i - 1)
			n0, err := parseU(w[3])
			if err != nil || (w[1] != "0" && w[1] != "1") || (w[2] != "0" && w[2] != "1") {
				outs[i] = "bad-op"
				continue
			}
			s = &orcSession{managed: w[1] == "1", detect: w[2] == "1"}
			s.v = badger.VerifNewOracle(s.managed, s.detect, n0)
			s.ref = newRefOracle(s.managed, s.detect, n0)
			orcBarrier(s.v)()
			outs[i] = "ok woke=- " + dumpOracle(s.v.State(), numName)
			st.Inc("op:reset")
			continue
		}
		if s == nil {
			outs[i] = "bad-op"
			continue
		}
		var a []uint64
		bad := false
		for _, x := range w[1:] {
			v, err := parseU(x)
			if err != nil {
				bad = true
			}
			a = append(a, v)
		}
		if bad {
			outs[i] = "bad-op"
			continue
		}
		st.Inc("op:" + w[0])
		res := "skip"
		own := -1 // tid started by this op
		getTxn := func(k int) *orcTxn {
			if len(a) <= k || a[k] >= uint64(len(s.txns)) {
				return nil
			}
			return s.txns[a[k]]
		}
		before := s.v.State()
		switch {
		case w[0] == "readts" && len(a) == 2 && a[1] <= 1:
			if s.managed || a[0] != uint64(len(s.txns)) {
				break
			}
			if before.ReadDoneUntil > before.NextTxnTs-1 {
				// readMark.Begin(nextTxnTs-1) would log.Fatal
				res = "assert"
				fail(i, fmt.Sprintf("[readmark-ahead-of-next] readMark.DoneUntil=%d > nextTxnTs-1=%d", before.ReadDoneUntil, before.NextTxnTs-1))
				s.txns = append(s.txns, &orcTxn{state: rtClosed, ref: &refTxn{state: rtClosed}})
				s.ref.txns = append(s.ref.txns, s.txns[len(s.txns)-1].ref)
				break
			}
			t := &orcTxn{update: a[1] == 1, state: rtBlocked, ch: make(chan uint64, 1), expectR: before.NextTxnTs - 1}
			t.ref = &refTxn{readTs: s.ref.next - 1, update: t.update, writes: map[uint64]bool{}, state: rtBlocked}
			s.ref.txns = append(s.ref.txns, t.ref)
			s.txns = append(s.txns, t)
			own = len(s.txns) - 1
			go orcReaderBody(s.v, t.ch)
		case w[0] == "beginat" && len(a) == 3 && a[2] <= 1:
			if !s.managed || a[0] != uint64(len(s.txns)) {
				break
			}
			t := &orcTxn{update: a[2] == 1, state: rtActive, readTs: a[1]}
			t.x = s.v.NewTxn(a[1], t.update)
			t.ref = &refTxn{readTs: a[1], update: t.update, writes: map[uint64]bool{}, state: rtActive, contract: s.ref.discardTs <= a[1]}
			s.ref.txns = append(s.ref.txns, t.ref)
			s.txns = append(s.txns, t)
			res = "ok"
		case w[0] == "read" && len(a) == 2:
			if t := getTxn(0); t != nil && t.state == rtActive {
				t.x.AddRead(a[1])
				if t.update {
					t.ref.reads = append(t.ref.reads, a[1])
				}
				res = "ok"
			}
		case w[0] == "write" && len(a) == 2:
			if t := getTxn(0); t != nil && t.state == rtActive && t.update {
				t.x.AddWrite(a[1])
				t.hasWrite = true
				t.ref.writes[a[1]] = true
				res = "ok"
			}
		case (w[0] == "commit" && len(a) == 1) || (w[0] == "commitat" && len(a) == 2):
			t := getTxn(0)
			if t == nil || t.state != rtActive || !t.update || !t.hasWrite || s.managed != (w[0] == "commitat") {
				break
			}
			wantConflict := s.ref.conflictSpec(t.ref)
			if !s.managed && t.readTs < before.ReadDoneUntil {
				res = "assert"
				fail(i, fmt.Sprintf("[readmark-ahead-of-open-txn] readMark.DoneUntil=%d although transaction %d with readTs %d is open", before.ReadDoneUntil, a[0], t.readTs))
				t.state = rtClosed
				t.ref.state = rtClosed
				break
			}
			if !s.managed && before.TxnDoneUntil > before.NextTxnTs {
				res = "assert" // txnMark.Begin(nextTxnTs) would log.Fatal
				fail(i, fmt.Sprintf("[txnmark-ahead-of-next] txnMark.DoneUntil=%d > nextTxnTs=%d", before.TxnDoneUntil, before.NextTxnTs))
				break
			}
			if s.managed {
				// AssertTrue(ts >= lastCleanupTs) would kill the process (log.Fatalf cannot be
				// recovered): refuse the call exactly when the production hasConflict — evaluated
				// here on the dumped committedTxns — finds nothing and ts is below lastCleanupTs.
				implConflict := false
				for _, c := range before.Committed {
					if c.Ts <= t.ref.readTs {
						continue
					}
					for _, k := range c.Keys {
						for _, r := range t.ref.reads {
							if r == k {
								implConflict = true
							}
						}
					}
				}
				if !implConflict && a[1] < before.LastCleanupTs {
					res = "assert"
					break
				}
				t.x.SetCommitTs(a[1])
			}
			ts, conflict := s.v.NewCommitTs(t.x)
			after := s.v.State()
			switch {
			case conflict:
				res = "conflict"
				t.state = rtClosing
				t.ref.state = rtClosing
				if !sameCommitted(before, after) || before.LastCleanupTs != after.LastCleanupTs {
					fail(i, "[conflict-trace] a rejected commit changed nextTxnTs/committedTxns")
				}
				if !wantConflict && (!s.managed || t.ref.contract) {
					fail(i, fmt.Sprintf("[false-conflict] ErrConflict although no transaction with a commit timestamp > %d wrote a key it read", t.ref.readTs))
				}
			default:
				res = fmt.Sprintf("ok ts=%d", ts)
				t.state = rtClosed
				t.ref.state = rtClosed
				if wantConflict && (!s.managed || t.ref.contract) {
					fail(i, fmt.Sprintf("[conflict-missed] commit accepted at %d although a transaction committed after its read timestamp %d wrote a key it read", ts, t.ref.readTs))
				}
				if !s.managed {
					if ts != before.NextTxnTs || ts <= s.lastTs {
						fail(i, fmt.Sprintf("[commit-ts] commit timestamp %d, previous %d, nextTxnTs was %d", ts, s.lastTs, before.NextTxnTs))
					}
					s.lastTs = ts
					s.ref.next = ts + 1
				}
				s.ref.commits = append(s.ref.commits, &refCommit{ts: ts, writes: copySet(t.ref.writes), done: s.managed})
			}
			if !s.managed {
				// determinise the racy cleanup inside newCommitTs (see DESIGN/props notes)
				orcBarrier(s.v)()
				s.v.Cleanup()
			}
		case w[0] == "discard" && len(a) == 1:
			if t := getTxn(0); t != nil && (t.state == rtActive || t.state == rtClosing) {
				if !s.managed && t.readTs < before.ReadDoneUntil {
					// readMark.Done(readTs) below its doneUntil would log.Fatal
					res = "assert"
					fail(i, fmt.Sprintf("[readmark-ahead-of-open-txn] readMark.DoneUntil=%d although transaction %d with readTs %d is open", before.ReadDoneUntil, a[0], t.readTs))
					t.state = rtClosed
					t.ref.state = rtClosed
					break
				}
				if !s.managed {
					s.v.DoneRead(t.x)
				}
				t.state = rtClosed
				t.ref.state = rtClosed
				res = "ok"
			}
		case w[0] == "donecommit" && len(a) == 1:
			for _, c := range s.ref.commits {
				if c.ts == a[0] && !c.done && !s.managed && a[0] < before.TxnDoneUntil {
					res = "assert"
					fail(i, fmt.Sprintf("[txnmark-ahead-of-pending-commit] txnMark.DoneUntil=%d although commit %d is not done", before.TxnDoneUntil, a[0]))
					c.done = true
				}
				if c.ts == a[0] && !c.done {
					s.v.DoneCommit(a[0])
					c.done = true
					if a[0] > s.acked {
						s.acked = a[0]
					}
					res = "ok"
				}
			}
		case w[0] == "setdiscard" && len(a) == 1:
			if !s.managed {
				break
			}
			if s.detect && a[0] < before.LastCleanupTs {
				res = "assert"
				break
			}
			s.v.SetDiscardTs(a[0])
			s.ref.discardTs = a[0]
			for _, t := range s.ref.txns {
				if t.state == rtActive && t.update && a[0] > t.readTs {
					t.contract = false
				}
			}
			res = "ok"
		case w[0] == "cleanup" && len(a) == 0:
			mx := before.ReadDoneUntil
			if s.managed {
				mx = before.DiscardTs
			}
			if s.detect && mx < before.LastCleanupTs {
				res = "assert"
				break
			}
			s.v.Cleanup()
			res = "ok"
		default:
			outs[i] = "bad-op"
			continue
		}
		// ---- quiescence, then collect the transaction starts that returned
		settled := settle("orcReaderBody", orcBarrier(s.v), s.outstanding, own >= 0)
		var woke []string
		for tid, t := range s.txns {
			if t.state == -1 {
				t.state = rtActive
				t.ref.state = rtActive
				// C34: never expose an unfinished commit
				if !s.ref.applied(t.readTs) {
					fail(i, fmt.Sprintf("[reader-early] readTs returned %d while a commit at or below it is still being applied (pending %v)", t.readTs, s.ref.pendingCommits()))
				}
				if t.readTs != t.expectR {
					fail(i, fmt.Sprintf("[readts-value] readTs returned %d, nextTxnTs-1 was %d", t.readTs, t.expectR))
				}
				// C03: a transaction started after doneCommit(ts) returned reads at >= ts.
				// (only meaningful for the transaction started by this very op)
				if tid == own && t.readTs < s.acked {
					fail(i, fmt.Sprintf("[visible-after-ack] readTs %d < acknowledged commit %d", t.readTs, s.acked))
				}
				if tid == own {
					res = fmt.Sprintf("r=%d", t.readTs)
				} else {
					woke = append(woke, fmt.Sprintf("%d:%d", tid, t.readTs))
				}
			} else if t.state == rtBlocked {
				if tid == own {
					res = "blocked"
				}
				// C34: never strand a reader
				if s.ref.applied(t.expectR) {
					if !settled {
						fail(i, fmt.Sprintf("[reader-stranded] transaction %d (readTs %d) still blocked although every commit at or below it is done", tid, t.expectR))
						t.state = rtClosed // report once
					} else {
						// parked although it should run: give it the full timeout
						select {
						case r := <-t.ch:
							t.readTs, t.state, t.x = r, rtActive, s.v.NewTxn(r, t.update)
							t.ref.state = rtActive
							if tid == own {
								res = fmt.Sprintf("r=%d", r)
							} else {
								woke = append(woke, fmt.Sprintf("%d:%d", tid, r))
							}
						case <-time.After(strandedTimeout):
							strandedTimeout = 50 * time.Millisecond
							fail(i, fmt.Sprintf("[reader-stranded] transaction %d (readTs %d) still blocked although every commit at or below it is done", tid, t.expectR))
							t.state = rtClosed
						}
					}
				}
			}
		}
		// ---- C02/C34 invariants evaluated on the implementation's state
		if fin := s.v.State(); !s.managed {
			for tid, t := range s.txns {
				if (t.state == rtActive || t.state == rtClosing) && t.readTs < fin.ReadDoneUntil {
					fail(i, fmt.Sprintf("[readmark-ahead-of-open-txn] readMark.DoneUntil=%d although transaction %d with readTs %d is open", fin.ReadDoneUntil, tid, t.readTs))
				}
				if (t.state == rtActive || t.state == rtClosing) && t.readTs < fin.DiscardAtOrBelow {
					fail(i, fmt.Sprintf("[C34-discard-above-open-reader] discardAtOrBelow()=%d exceeds the read timestamp %d of transaction %d, which has not finished: a compaction may drop versions it still reads", fin.DiscardAtOrBelow, t.readTs, tid))
				}
			}
			for _, c := range s.ref.commits {
				if !c.done && c.ts <= fin.TxnDoneUntil {
					fail(i, fmt.Sprintf("[txnmark-ahead-of-pending-commit] txnMark.DoneUntil=%d although commit %d is not done", fin.TxnDoneUntil, c.ts))
				}
			}
			if fin.LastCleanupTs > fin.ReadDoneUntil {
				fail(i, fmt.Sprintf("[cleanup-ahead-of-readmark] lastCleanupTs=%d > readMark.DoneUntil=%d", fin.LastCleanupTs, fin.ReadDoneUntil))
			}
			if fin.TxnDoneUntil >= fin.NextTxnTs {
				fail(i, fmt.Sprintf("[txnmark-ahead-of-next] txnMark.DoneUntil=%d although timestamp %d has not been handed out yet", fin.TxnDoneUntil, fin.NextTxnTs))
			}
		}
		wk := "-"
		if len(woke) > 0 {
			wk = strings.Join(woke, ",")
			st.Inc("orc:wakeups")
		}
		if res == "blocked" {
			st.Inc("orc:blocked-start")
		}
		if strings.HasPrefix(res, "conflict") {
			st.Inc("orc:conflict")
		}
		outs[i] = res + " woke=" + wk + " " + dumpOracle(s.v.State(), numName)
	}
	closeSession(len(ops) - 1)
	return outs, oracle
}

// =====================================================================================
// engine "txn": a real in-memory DB driven through NewTransaction/Get/Set/Delete/
// NewIterator/Commit/Discard; 2–5 concurrent transactions on 2–4 keys, long-running readers
// that outlive conflict-log cleanups, blind writers, read-only transactions.
// Oracles: every Commit result equals the C02 specification (full history, never pruned);
// every read returns the snapshot value; the committed history is serializable in commit-ts
// order (each tracked read of a committed update transaction equals the value in the serial
// state just before its commit timestamp).
// =====================================================================================

var txnKeys = []string{"61", "62", "63", "6162"}

func genTxn(rng *rand.Rand, n int, st *Stats) []string {
	var ops []string
	for c := 0; c < n; c++ {
		ops = append(ops, genTxnSession(rng, st)...)
	}
	return ops
}

// genTxnManagedSession: a managed DB (OpenManaged). Read and commit timestamps are chosen by the
// caller and are NOT monotonic: commits land below earlier commits and between the read timestamps
// of open transactions. Constraints kept (badger's documented contract): every commit timestamp is
// >= discardTs, unique, and larger than every version already written for each of its keys.
func genTxnManagedSession(rng *rand.Rand, st *Stats) []string {
	detect := rng.Intn(10) != 0
	ops := []string{fmt.Sprintf("reset %d 1", b01(detect))}
	nkeys := 2 + rng.Intn(3)
	maxOpen := 2 + rng.Intn(4)
	type gt struct {
		update bool
		open   bool
		readTs uint64
		keys   map[string]bool
	}
	var txns []*gt
	lastVer := map[string]uint64{}
	used := map[uint64]bool{}
	var hi, discard uint64 = 1, 0
	val := 0
	nops := 20 + rng.Intn(60)
	for i := 0; i < nops; i++ {
		var open []int
		for tid, t := range txns {
			if t.open {
				open = append(open, tid)
			}
		}
		r := rng.Intn(100)
		switch {
		case (r < 16 || len(open) == 0) && len(open) < maxOpen:
			upd := rng.Intn(6) != 0
			lo := discard
			top := hi
			if top < lo {
				top = lo
			}
			rts := top
			switch rng.Intn(3) {
			case 0:
				rts = lo + uint64(rng.Int63n(int64(top-lo)+1))
			case 1:
				rts = top + uint64(rng.Intn(2))
			}
			txns = append(txns, &gt{update: upd, open: true, readTs: rts, keys: map[string]bool{}})
			ops = append(ops, fmt.Sprintf("beginat %d %d %d", len(txns)-1, rts, b01(upd)))
			if rts > hi {
				hi = rts
			}
		case r < 40 && len(open) > 0:
			tid := open[rng.Intn(len(open))]
			ops = append(ops, fmt.Sprintf("get %d %s", tid, txnKeys[rng.Intn(nkeys)]))
		case r < 62 && len(open) > 0:
			tid := open[rng.Intn(len(open))]
			k := txnKeys[rng.Intn(nkeys)]
			val++
			if rng.Intn(8) == 0 {
				ops = append(ops, fmt.Sprintf("del %d %s", tid, k))
			} else {
				ops = append(ops, fmt.Sprintf("set %d %s %02x", tid, k, val%256))
			}
			if txns[tid].update {
				txns[tid].keys[k] = true
			}
		case r < 66 && len(open) > 0:
			ops = append(ops, fmt.Sprintf("iter %d", open[rng.Intn(len(open))]))
		case r < 88 && len(open) > 0:
			tid := open[rng.Intn(len(open))]
			t := txns[tid]
			// lowest admissible timestamp: above the versions of its keys, >= discardTs, >= 1
			low := discard
			if low < 1 {
				low = 1
			}
			for k := range t.keys {
				if lastVer[k]+1 > low {
					low = lastVer[k] + 1
				}
			}
			ts := low + uint64(rng.Intn(3))
			if rng.Intn(3) == 0 {
				ts = hi + 1 + uint64(rng.Intn(2))
				if ts < low {
					ts = low
				}
			}
			for used[ts] {
				ts++
			}
			used[ts] = true
			for k := range t.keys {
				if ts > lastVer[k] {
					lastVer[k] = ts
				}
			}
			if ts > hi {
				hi = ts
			}
			ops = append(ops, fmt.Sprintf("commitat %d %d", tid, ts))
			t.open = false
		case r < 93 && len(open) > 0:
			tid := open[rng.Intn(len(open))]
			ops = append(ops, fmt.Sprintf("discard %d", tid))
			txns[tid].open = false
		case r < 97:
			// SetDiscardTs, mostly within the contract (not above the read ts of an open update txn)
			ts := discard + uint64(rng.Intn(3))
			if rng.Intn(4) != 0 {
				for _, t := range txns {
					if t.open && t.update && t.readTs < ts {
						ts = t.readTs
					}
				}
			}
			if ts < discard {
				ts = discard
			}
			ops = append(ops, fmt.Sprintf("setdiscard %d", ts))
			discard = ts
		case len(txns) > 0:
			tid := rng.Intn(len(txns))
			ops = append(ops, []string{fmt.Sprintf("get %d 61", tid), fmt.Sprintf("commit %d", tid), fmt.Sprintf("begin %d 1", len(txns)), fmt.Sprintf("discard %d", tid)}[rng.Intn(4)])
			if strings.HasPrefix(ops[len(ops)-1], "discard") {
				txns[tid].open = false
			}
		}
	}
	for tid, t := range txns {
		if t.open {
			ops = append(ops, fmt.Sprintf("discard %d", tid))
		}
	}
	st.Inc(fmt.Sprintf("txn-session:managed,detect=%v", detect))
	st.Inc("txn-session-len:" + sizeBucket(len(ops)))
	return ops
}

// genTxnPipeSession: an on-disk DB in normal mode with the write pipeline under control
// (`reset <detect> 2`). The shape that matters for C03: a commit rejected by sendToWriteCh after its
// timestamp was handed out (writes blocked), then a commit held in the pipeline (timestamp handed
// out, nothing applied), transactions started in that window (they must block), reads issued for
// them during the window (answered `blocked`) and after the release.
func genTxnPipeSession(rng *rand.Rand, st *Stats) []string {
	detect := rng.Intn(8) != 0
	ops := []string{fmt.Sprintf("reset %d 2", b01(detect))}
	nkeys := 2 + rng.Intn(3)
	next := 0 // next transaction id
	val := 0
	newTxn := func(upd bool) int {
		ops = append(ops, fmt.Sprintf("begin %d %d", next, b01(upd)))
		next++
		return next - 1
	}
	setKeys := func(tid, n int) []string {
		var ks []string
		perm := rng.Perm(nkeys)
		for j := 0; j < n && j < nkeys; j++ {
			k := txnKeys[perm[j]]
			val++
			ops = append(ops, fmt.Sprintf("set %d %s %02x", tid, k, val%256))
			ks = append(ks, k)
		}
		return ks
	}
	// some committed data first
	t0 := newTxn(true)
	setKeys(t0, nkeys)
	ops = append(ops, fmt.Sprintf("commit %d", t0))
	var longReaders []int
	rounds := 1 + rng.Intn(4)
	for r := 0; r < rounds; r++ {
		if rng.Intn(3) == 0 {
			lr := newTxn(rng.Intn(2) == 0)
			ops = append(ops, fmt.Sprintf("get %d %s", lr, txnKeys[rng.Intn(nkeys)]))
			longReaders = append(longReaders, lr)
		}
		if rng.Intn(3) != 0 {
			// commits rejected while writes are blocked (DropPrefix/DropAll do this)
			ops = append(ops, "block")
			for n := 1 + rng.Intn(2); n > 0; n-- {
				x := newTxn(true)
				if rng.Intn(3) == 0 {
					ops = append(ops, fmt.Sprintf("get %d %s", x, txnKeys[rng.Intn(nkeys)]))
				}
				setKeys(x, 1+rng.Intn(2))
				ops = append(ops, fmt.Sprintf("commit %d", x))
			}
			if rng.Intn(4) == 0 {
				y := newTxn(false) // a reader started while writes are blocked
				ops = append(ops, fmt.Sprintf("get %d %s", y, txnKeys[rng.Intn(nkeys)]), fmt.Sprintf("discard %d", y))
			}
			ops = append(ops, "unblock")
		}
		// a commit held in the pipeline
		w := newTxn(true)
		if rng.Intn(3) == 0 {
			ops = append(ops, fmt.Sprintf("get %d %s", w, txnKeys[rng.Intn(nkeys)]))
		}
		wk := setKeys(w, 2+rng.Intn(2))
		ops = append(ops, fmt.Sprintf("hold %d", w))
		var waiting []int
		for n := 1 + rng.Intn(2); n > 0; n-- {
			rd := newTxn(rng.Intn(3) == 0)
			waiting = append(waiting, rd)
			ops = append(ops, fmt.Sprintf("get %d %s", rd, wk[0])) // during the window
		}
		for _, lr := range longReaders {
			if rng.Intn(2) == 0 {
				ops = append(ops, fmt.Sprintf("get %d %s", lr, wk[rng.Intn(len(wk))]))
			}
		}
		if rng.Intn(4) == 0 {
			ops = append(ops, fmt.Sprintf("commit %d", waiting[0])) // answered blocked / skip
		}
		ops = append(ops, "release")
		for _, rd := range waiting {
			for _, k := range wk {
				ops = append(ops, fmt.Sprintf("get %d %s", rd, k))
			}
			if rng.Intn(2) == 0 {
				ops = append(ops, fmt.Sprintf("iter %d", rd))
			}
			if rng.Intn(2) == 0 {
				ops = append(ops, fmt.Sprintf("set %d %s ee", rd, txnKeys[rng.Intn(nkeys)]))
			}
			ops = append(ops, []string{fmt.Sprintf("commit %d", rd), fmt.Sprintf("discard %d", rd)}[rng.Intn(2)])
		}
		// an ordinary commit afterwards
		z := newTxn(true)
		setKeys(z, 1)
		ops = append(ops, fmt.Sprintf("commit %d", z))
	}
	for _, lr := range longReaders {
		ops = append(ops, []string{fmt.Sprintf("commit %d", lr), fmt.Sprintf("discard %d", lr)}[rng.Intn(2)])
	}
	st.Inc(fmt.Sprintf("txn-session:pipeline,detect=%v", detect))
	st.Inc("txn-session-len:" + sizeBucket(len(ops)))
	return ops
}

func genTxnSession(rng *rand.Rand, st *Stats) []string {
	if params["mode"] != "normal" && rng.Intn(6) == 0 {
		return genTxnPipeSession(rng, st)
	}
	if params["mode"] != "normal" && rng.Intn(3) == 0 {
		return genTxnManagedSession(rng, st)
	}
	detect := rng.Intn(10) != 0
	ops := []string{fmt.Sprintf("reset %d", b01(detect))}
	nkeys := 2 + rng.Intn(3)
	maxOpen := 2 + rng.Intn(4)
	type gt struct {
		update bool
		open   bool
		long   bool // long-running: rarely finished
		writes int
	}
	var txns []*gt
	nops := 15 + rng.Intn(60)
	val := 0
	for i := 0; i < nops; i++ {
		var open []int
		for tid, t := range txns {
			if t.open {
				open = append(open, tid)
			}
		}
		pick := func() int {
			// prefer short transactions so that long ones outlive many commits
			for tries := 0; tries < 4; tries++ {
				tid := open[rng.Intn(len(open))]
				if !txns[tid].long || rng.Intn(6) == 0 {
					return tid
				}
			}
			return open[rng.Intn(len(open))]
		}
		r := rng.Intn(100)
		switch {
		case (r < 15 || len(open) == 0) && len(open) < maxOpen:
			upd := rng.Intn(5) != 0
			txns = append(txns, &gt{update: upd, open: true, long: rng.Intn(4) == 0})
			ops = append(ops, fmt.Sprintf("begin %d %d", len(txns)-1, b01(upd)))
		case r < 40 && len(open) > 0:
			tid := open[rng.Intn(len(open))]
			ops = append(ops, fmt.Sprintf("get %d %s", tid, txnKeys[rng.Intn(nkeys)]))
		case r < 62 && len(open) > 0:
			tid := open[rng.Intn(len(open))]
			val++
			if rng.Intn(6) == 0 {
				ops = append(ops, fmt.Sprintf("del %d %s", tid, txnKeys[rng.Intn(nkeys)]))
			} else {
				ops = append(ops, fmt.Sprintf("set %d %s %02x", tid, txnKeys[rng.Intn(nkeys)], val%256))
			}
			txns[tid].writes++
		case r < 67 && len(open) > 0:
			ops = append(ops, fmt.Sprintf("iter %d", open[rng.Intn(len(open))]))
		case r < 88 && len(open) > 0:
			tid := pick()
			ops = append(ops, fmt.Sprintf("commit %d", tid))
			txns[tid].open = false
		case r < 94 && len(open) > 0:
			tid := pick()
			ops = append(ops, fmt.Sprintf("discard %d", tid))
			txns[tid].open = false
		case len(txns) > 0:
			// an op on a finished transaction
			tid := rng.Intn(len(txns))
			ops = append(ops, []string{fmt.Sprintf("get %d 61", tid), fmt.Sprintf("set %d 61 ff", tid), fmt.Sprintf("commit %d", tid), fmt.Sprintf("discard %d", tid)}[rng.Intn(4)])
			if strings.HasPrefix(ops[len(ops)-1], "commit") || strings.HasPrefix(ops[len(ops)-1], "discard") {
				txns[tid].open = false
			}
		}
	}
	// finish: commit or discard what is still open (long readers commit last: cleanup pressure)
	for tid, t := range txns {
		if t.open {
			if rng.Intn(2) == 0 {
				ops = append(ops, fmt.Sprintf("commit %d", tid))
			} else {
				ops = append(ops, fmt.Sprintf("discard %d", tid))
			}
		}
	}
	st.Inc(fmt.Sprintf("txn-session:detect=%v", detect))
	st.Inc("txn-session-len:" + sizeBucket(len(ops)))
	return ops
}

type dbTxn struct {
	txn     *badger.Txn
	update  bool
	closed  bool
	leaked  bool // never discarded: its Done(readTs) would hit the watermark assertion
	readTs  uint64
	pend    map[string]*string // own writes (nil = delete)
	readLog map[string]string  // tracked reads: key -> observed ("" = not found, else "v"+hex)
	ref     *refTxn
	// NewTransaction has not returned yet (a commit at or below its read timestamp is in flight)
	blocked bool
	ch      chan *badger.Txn
	expectR uint64
	fresh   bool // returned during the current op
}

// heldCommit is a Commit parked in the write pipeline: timestamp handed out, nothing applied.
type heldCommit struct {
	tid    int
	ts     uint64
	t      *dbTxn
	done   chan error
	writes map[string]bool
}

type dbVersion struct {
	ts  uint64
	val *string
}

type dbSession struct {
	db      *badger.DB
	v       *badger.VerifOracle
	managed bool
	detect  bool
	txns    []*dbTxn
	ref     *refOracle
	history map[string][]dbVersion // committed versions per key, ascending ts
	fp      map[uint64]string
	lastTs  uint64
	// pipeline sessions (`reset <detect> 2`): on-disk DB, ops block/unblock/hold/release
	pipe        bool
	dir         string
	blocked     bool
	held        *heldCommit
	releaseHold func()
}

// txnBeginBody is the goroutine of a NewTransaction that may block (its name is looked for in stacks).
func txnBeginBody(db *badger.DB, update bool, ch chan *badger.Txn) {
	ch <- db.NewTransaction(update)
}

// outstandingBegins counts the NewTransaction calls that have not returned, collecting the ones
// that have.
func (s *dbSession) outstandingBegins() int {
	n := 0
	for _, t := range s.txns {
		if !t.blocked {
			continue
		}
		select {
		case x := <-t.ch:
			t.txn, t.blocked, t.fresh = x, false, true
			t.readTs = x.ReadTs()
			t.ref.readTs = t.readTs
			t.ref.state = rtActive
		default:
			n++
		}
	}
	return n
}

func openTxnDBDisk(detect bool, dir string) (*badger.DB, error) {
	opt := badger.DefaultOptions(dir).WithDetectConflicts(detect).
		WithLoggingLevel(badger.ERROR).WithMemTableSize(1 << 20).WithValueThreshold(1 << 10).
		WithValueLogFileSize(1 << 20).WithNumCompactors(2).WithNumMemtables(2).
		WithCompression(options.None).WithBlockCacheSize(0).WithIndexCacheSize(0).
		WithMetricsEnabled(false).WithSyncWrites(false)
	return badger.Open(opt)
}

func (s *dbSession) snapshot(key string, ts uint64) *string {
	var out *string
	for _, v := range s.history[key] {
		if v.ts <= ts {
			out = v.val
		}
	}
	return out
}

func obs(v *string) string {
	if v == nil {
		return "nf"
	}
	return "v=" + *v
}

func openTxnDB(detect, managed bool) (*badger.DB, error) {
	opt := badger.DefaultOptions("").WithInMemory(true).WithDetectConflicts(detect).
		WithLoggingLevel(badger.ERROR).WithMemTableSize(1 << 20).WithValueThreshold(1 << 10).
		WithNumCompactors(2).WithNumMemtables(2).WithCompression(options.None).WithBlockCacheSize(0).WithIndexCacheSize(0).
		WithMetricsEnabled(false)
	if managed {
		return badger.OpenManaged(opt)
	}
	return badger.Open(opt)
}

// withTimeout runs f in a goroutine and reports whether it finished within strandedTimeout.
func withTimeout(f func()) bool {
	done := make(chan struct{})
	go func() { f(); close(done) }()
	return awaitClosed(done)
}

func execTxn(ops []string, st *Stats) (outs []string, oracle []string) {
	outs = make([]string, len(ops))
	cur := 0
	defer abortOnStuck(ops, &cur, outs, &oracle)
	var s *dbSession
	fail := func(i int, msg string) {
		oracle = append(oracle, fmt.Sprintf("line %d: %s :: %s", i+1, ops[i], msg))
	}
	closeSession := func() {
		if s == nil {
			return
		}
		if s.held != nil {
			s.releaseHold()
			select {
			case <-s.held.done:
			case <-time.After(strandedTimeout):
			}
			s.held = nil
		}
		if s.blocked {
			badger.VerifUnblockWrites(s.db)
			s.blocked = false
		}
		for _, t := range s.txns {
			if t.blocked {
				select {
				case x := <-t.ch:
					t.txn, t.blocked = x, false
					t.readTs = x.ReadTs()
				case <-time.After(strandedTimeout):
					t.closed, t.leaked = true, true
				}
			}
		}
		if s.dir != "" {
			defer os.RemoveAll(s.dir)
		}
		leaked := false
		for _, t := range s.txns {
			if t.blocked {
				leaked = true
				continue
			}
			if !t.closed && (s.managed || t.readTs >= s.v.State().ReadDoneUntil) {
				t.txn.Discard()
			} else if !t.closed || t.leaked {
				leaked = true
			}
		}
		if !leaked {
			_ = s.db.Close()
		}
		s = nil
	}
	keyName := func(k uint64) string {
		if n, ok := s.fp[k]; ok {
			return n
		}
		return "?"
	}
	for i, l := range ops {
		cur = i
		w := strings.Fields(l)
		if len(w) == 0 {
			outs[i] = "bad-op"
			continue
		}
		if w[0] == "reset" {
			if (len(w) != 2 && len(w) != 3) || (w[1] != "0" && w[1] != "1") || (len(w) == 3 && w[2] != "0" && w[2] != "1" && w[2] != "2") {
				outs[i] = "bad-op"
				continue
			}
			closeSession()
			managed := len(w) == 3 && w[2] == "1"
			pipe := len(w) == 3 && w[2] == "2"
			var db *badger.DB
			var err error
			dir := ""
			if pipe {
				base := os.Getenv("VERIF_SCRATCH")
				if base == "" {
					base = os.TempDir()
				}
				if dir, err = os.MkdirTemp(base, "txnpipe-"); err != nil {
					panic(err)
				}
				db, err = openTxnDBDisk(w[1] == "1", dir)
			} else {
				db, err = openTxnDB(w[1] == "1", managed)
			}
			if err != nil {
				panic(err)
			}
			s = &dbSession{db: db, v: badger.VerifOracleOf(db), detect: w[1] == "1", managed: managed,
				pipe: pipe, dir: dir,
				history: map[string][]dbVersion{}, fp: map[uint64]string{}}
			s.ref = newRefOracle(managed, s.detect, 0)
			orcBarrier(s.v)()
			outs[i] = "ok " + dumpOracle(s.v.State(), keyName)
			st.Inc("op:reset")
			continue
		}
		if s == nil {
			outs[i] = "bad-op"
			continue
		}
		// invariants of the oracle state checked after every op of this engine
		checkState := func(fin badger.VerifOracleState) {
			if s.managed {
				return
			}
			for tid2, t2 := range s.txns {
				if !t2.closed && !t2.blocked && t2.readTs < fin.ReadDoneUntil {
					fail(i, fmt.Sprintf("[readmark-ahead-of-open-txn] readMark.DoneUntil=%d although transaction %d with readTs %d is open", fin.ReadDoneUntil, tid2, t2.readTs))
				}
				if !t2.closed && !t2.blocked && t2.readTs < fin.DiscardAtOrBelow {
					fail(i, fmt.Sprintf("[C34-discard-above-open-reader] discardAtOrBelow()=%d exceeds the read timestamp %d of transaction %d, which has not finished: a compaction may drop versions it still reads", fin.DiscardAtOrBelow, t2.readTs, tid2))
				}
			}
			if fin.LastCleanupTs > fin.ReadDoneUntil {
				fail(i, fmt.Sprintf("[cleanup-ahead-of-readmark] lastCleanupTs=%d > readMark.DoneUntil=%d", fin.LastCleanupTs, fin.ReadDoneUntil))
			}
			if fin.TxnDoneUntil >= fin.NextTxnTs {
				fail(i, fmt.Sprintf("[txnmark-ahead-of-next] txnMark.DoneUntil=%d although timestamp %d has not been handed out yet: the commit that gets it will be considered applied before it is written", fin.TxnDoneUntil, fin.NextTxnTs))
			}
			if s.held != nil && fin.TxnDoneUntil >= s.held.ts {
				fail(i, fmt.Sprintf("[txnmark-ahead-of-pending-commit] txnMark.DoneUntil=%d although commit %d is still in the write pipeline", fin.TxnDoneUntil, s.held.ts))
			}
		}
		if len(w) == 1 && (w[0] == "block" || w[0] == "unblock" || w[0] == "release") {
			st.Inc("op:" + w[0])
			res := "skip"
			switch {
			case w[0] == "block" && s.pipe && s.held == nil && !s.blocked:
				if err := badger.VerifBlockWrites(s.db); err != nil {
					res = "err=" + err.Error()
				} else {
					s.blocked = true
					res = "ok"
				}
			case w[0] == "unblock" && s.pipe && s.blocked:
				badger.VerifUnblockWrites(s.db)
				s.blocked = false
				res = "ok"
			case w[0] == "release" && s.held != nil:
				h := s.held
				s.releaseHold()
				var cerr error
				select {
				case cerr = <-h.done:
				case <-time.After(strandedTimeout):
					fail(i, "[commit-stuck] the held Commit did not return after the write pipeline was released")
					panic(barrierStuck{"database (held Commit did not return)"})
				}
				s.held = nil
				if cerr != nil {
					res = "err=" + cerr.Error()
				} else {
					res = fmt.Sprintf("ok ts=%d", h.ts)
				}
				for _, c := range s.ref.commits {
					if c.ts == h.ts {
						c.done = true
					}
				}
				if h.ts > s.lastTs {
					s.lastTs = h.ts
				}
				// every NewTransaction that waited for this commit must return now
				for _, t2 := range s.txns {
					t2.fresh = false
				}
				settle("txnBeginBody", orcBarrier(s.v), s.outstandingBegins, false)
				var woke []string
				for tid2, t2 := range s.txns {
					if t2.blocked {
						select {
						case x := <-t2.ch:
							t2.txn, t2.blocked, t2.fresh = x, false, true
							t2.readTs = x.ReadTs()
							t2.ref.readTs, t2.ref.state = t2.readTs, rtActive
						case <-time.After(strandedTimeout):
							strandedTimeout = 50 * time.Millisecond
							fail(i, fmt.Sprintf("[reader-stranded] NewTransaction %d still blocked although every commit is applied", tid2))
							t2.blocked, t2.closed, t2.leaked = false, true, true
						}
					}
					if t2.fresh {
						t2.fresh = false
						if t2.readTs != t2.expectR {
							fail(i, fmt.Sprintf("[readts-value] readTs %d, nextTxnTs-1 was %d", t2.readTs, t2.expectR))
						}
						woke = append(woke, fmt.Sprintf("%d:%d", tid2, t2.readTs))
					}
				}
				wk := "-"
				if len(woke) > 0 {
					wk = strings.Join(woke, ",")
				}
				res += " woke=" + wk
				orcBarrier(s.v)()
				s.v.Cleanup()
			}
			orcBarrier(s.v)()
			fin := s.v.State()
			checkState(fin)
			outs[i] = res + " " + dumpOracle(fin, keyName)
			continue
		}
		if len(w) < 2 {
			outs[i] = "bad-op"
			continue
		}
		if w[0] == "setdiscard" && len(w) == 2 {
			ts, err := parseU(w[1])
			if err != nil {
				outs[i] = "bad-op"
				continue
			}
			st.Inc("op:setdiscard")
			res := "skip"
			if s.managed {
				if cur := s.v.State(); s.detect && ts < cur.LastCleanupTs {
					res = "assert" // AssertTrue(maxReadTs >= lastCleanupTs) would kill the process
				} else {
					s.db.SetDiscardTs(ts)
					s.ref.discardTs = ts
					for _, t := range s.ref.txns {
						if t.state == rtActive && t.update && ts > t.readTs {
							t.contract = false
						}
					}
					res = "ok"
				}
			}
			orcBarrier(s.v)()
			outs[i] = res + " " + dumpOracle(s.v.State(), keyName)
			continue
		}
		tid64, err := parseU(w[1])
		if err != nil {
			outs[i] = "bad-op"
			continue
		}
		tid := int(tid64)
		st.Inc("op:" + w[0])
		res := "skip"
		var t *dbTxn
		if tid < len(s.txns) {
			t = s.txns[tid]
		}
		note := func(k string) []byte {
			kb := unhx(k)
			s.fp[badger.VerifFingerprint(kb)] = k
			return kb
		}
		switch {
		case t != nil && t.blocked && (w[0] == "get" || w[0] == "set" || w[0] == "del" || w[0] == "iter" || w[0] == "commit" || w[0] == "discard" || w[0] == "hold"):
			res = "blocked" // NewTransaction has not returned
		case w[0] == "hold" && len(w) == 2:
			if !s.pipe || s.held != nil || s.blocked || t == nil {
				break
			}
			if t.closed {
				res = "err=discarded"
				break
			}
			if !t.update || len(t.pend) == 0 {
				break
			}
			before := s.v.State()
			if t.readTs < before.ReadDoneUntil {
				res = "assert"
				fail(i, fmt.Sprintf("[readmark-ahead-of-open-txn] readMark.DoneUntil=%d although transaction %d with readTs %d is open", before.ReadDoneUntil, tid, t.readTs))
				t.closed, t.leaked = true, true
				break
			}
			wantConflict := s.ref.conflictSpec(t.ref)
			s.releaseHold = badger.VerifHoldWrites(s.db)
			h := &heldCommit{tid: tid, t: t, done: make(chan error, 1), writes: map[string]bool{}}
			go func() { h.done <- t.txn.Commit() }()
			t.closed = true
			t.ref.state = rtClosed
			// wait until the commit timestamp has been handed out, or Commit is back (conflict)
			var early error
			returned := false
			deadline := time.Now().Add(strandedTimeout)
			for {
				select {
				case early = <-h.done:
					returned = true
				default:
				}
				if returned || s.v.State().NextTxnTs != before.NextTxnTs {
					break
				}
				if time.Now().After(deadline) {
					fail(i, "[commit-stuck] Commit neither returned nor obtained a commit timestamp")
					panic(barrierStuck{"database (Commit did not start)"})
				}
				time.Sleep(50 * time.Microsecond)
			}
			if returned {
				s.releaseHold()
				if early == badger.ErrConflict {
					res = "conflict"
					if !wantConflict {
						fail(i, fmt.Sprintf("[false-conflict] ErrConflict although no transaction committed after read timestamp %d wrote a key it read", t.readTs))
					}
				} else if early != nil {
					res = "err=" + early.Error()
				} else {
					res = "err=commit-went-through" // the gate did not hold: a harness defect
					fail(i, "[hold-failed] Commit returned nil although the write pipeline is held")
				}
			} else {
				h.ts = before.NextTxnTs
				res = fmt.Sprintf("held ts=%d", h.ts)
				if wantConflict {
					fail(i, fmt.Sprintf("[conflict-missed] commit accepted at %d although a transaction committed after its read timestamp %d wrote a key it read", h.ts, t.readTs))
				}
				if h.ts <= s.lastTs {
					fail(i, fmt.Sprintf("[commit-ts] commit timestamp %d, previous %d", h.ts, s.lastTs))
				}
				for _, c := range s.ref.commits {
					if c.ts == h.ts {
						fail(i, fmt.Sprintf("[commit-ts] commit timestamp %d was already handed out to another transaction", h.ts))
					}
				}
				s.ref.next = h.ts + 1
				s.ref.commits = append(s.ref.commits, &refCommit{ts: h.ts, writes: copySet(t.ref.writes), done: false})
				// its writes belong to every snapshot at or above ts (readers there must wait)
				var ks []string
				for k := range t.pend {
					ks = append(ks, k)
				}
				sort.Strings(ks)
				for _, k := range ks {
					h.writes[k] = true
					s.history[k] = append(s.history[k], dbVersion{ts: h.ts, val: t.pend[k]})
				}
				s.held = h
			}
			orcBarrier(s.v)()
			s.v.Cleanup()
		case w[0] == "beginat" && len(w) == 4 && (w[3] == "0" || w[3] == "1"):
			rts, err := parseU(w[2])
			if err != nil {
				outs[i] = "bad-op"
				continue
			}
			if !s.managed || tid != len(s.txns) {
				break
			}
			nt := &dbTxn{update: w[3] == "1", pend: map[string]*string{}, readLog: map[string]string{}, readTs: rts}
			nt.txn = s.db.NewTransactionAt(rts, nt.update)
			nt.ref = &refTxn{readTs: rts, update: nt.update, writes: map[uint64]bool{}, state: rtActive, contract: s.ref.discardTs <= rts}
			s.ref.txns = append(s.ref.txns, nt.ref)
			s.txns = append(s.txns, nt)
			res = fmt.Sprintf("r=%d", rts)
		case w[0] == "commitat" && len(w) == 3:
			ts, err := parseU(w[2])
			if err != nil {
				outs[i] = "bad-op"
				continue
			}
			if !s.managed || t == nil {
				break
			}
			if t.closed {
				res = "err=discarded"
				break
			}
			before := s.v.State()
			if !t.update || len(t.pend) == 0 {
				_ = t.txn.CommitAt(ts, nil)
				t.closed = true
				t.ref.state = rtClosed
				res = "ok-empty"
				break
			}
			// refuse the call when AssertTrue(ts >= lastCleanupTs) would fire: that is when the
			// production hasConflict (evaluated on the dumped committedTxns) finds nothing
			implConflict := false
			for _, c := range before.Committed {
				if c.Ts <= t.readTs {
					continue
				}
				for _, k := range c.Keys {
					for _, r := range t.ref.reads {
						if r == k {
							implConflict = true
						}
					}
				}
			}
			if !implConflict && ts < before.LastCleanupTs {
				res = "assert"
				break
			}
			wantConflict := s.ref.conflictSpec(t.ref)
			cerr := t.txn.CommitAt(ts, nil)
			t.closed = true
			t.ref.state = rtClosed
			after := s.v.State()
			switch {
			case cerr == badger.ErrConflict:
				res = "conflict"
				st.Inc("txn:managed-conflict")
				if !sameCommitted(before, after) {
					fail(i, "[conflict-trace] a rejected commit changed nextTxnTs/committedTxns")
				}
				if !wantConflict && t.ref.contract {
					fail(i, fmt.Sprintf("[false-conflict] ErrConflict although no transaction committed above read timestamp %d wrote a key it read", t.readTs))
				}
			case cerr != nil:
				res = "err=" + cerr.Error()
			default:
				res = fmt.Sprintf("ok ts=%d", ts)
				st.Inc("txn:managed-commit-ok")
				if wantConflict && t.ref.contract {
					fail(i, fmt.Sprintf("[conflict-missed] CommitAt(%d) accepted although a transaction with a commit timestamp above its read timestamp %d wrote a key it read (managed mode, discardTs <= readTs held)", ts, t.readTs))
				}
				s.ref.commits = append(s.ref.commits, &refCommit{ts: ts, writes: copySet(t.ref.writes), done: true})
				var ks []string
				for k := range t.pend {
					ks = append(ks, k)
				}
				sort.Strings(ks)
				for _, k := range ks {
					s.history[k] = append(s.history[k], dbVersion{ts: ts, val: t.pend[k]})
					sort.SliceStable(s.history[k], func(a, b int) bool { return s.history[k][a].ts < s.history[k][b].ts })
				}
			}
		case w[0] == "begin" && len(w) == 3 && (w[2] == "0" || w[2] == "1"):
			if s.managed || tid != len(s.txns) {
				break
			}
			nt := &dbTxn{update: w[2] == "1", pend: map[string]*string{}, readLog: map[string]string{}}
			want := s.v.State().NextTxnTs - 1
			if s.held != nil {
				// a commit is in the pipeline: NewTransaction must wait for it
				nt.blocked, nt.ch, nt.expectR = true, make(chan *badger.Txn, 1), want
				nt.ref = &refTxn{readTs: want, update: nt.update, writes: map[uint64]bool{}, state: rtBlocked}
				s.ref.txns = append(s.ref.txns, nt.ref)
				s.txns = append(s.txns, nt)
				go txnBeginBody(s.db, nt.update, nt.ch)
				if !settle("txnBeginBody", orcBarrier(s.v), s.outstandingBegins, true) {
					fail(i, "[reader-lost] a NewTransaction goroutine is neither back nor parked")
				}
				if nt.blocked {
					res = "blocked"
					break
				}
				nt.fresh = false
				fail(i, fmt.Sprintf("[reader-early] NewTransaction returned readTs %d while commit %d is still in the write pipeline (timestamp handed out, nothing applied)", nt.readTs, s.held.ts))
				if nt.readTs != want {
					fail(i, fmt.Sprintf("[readts-value] readTs %d, nextTxnTs-1 was %d", nt.readTs, want))
				}
				res = fmt.Sprintf("r=%d", nt.readTs)
				break
			}
			if !withTimeout(func() { nt.txn = s.db.NewTransaction(nt.update) }) {
				fail(i, "[reader-stranded] NewTransaction blocked although no commit is pending")
				panic(barrierStuck{"database (NewTransaction did not return)"})
			}
			nt.readTs = nt.txn.ReadTs()
			if nt.readTs != want {
				fail(i, fmt.Sprintf("[readts-value] readTs %d, nextTxnTs-1 was %d", nt.readTs, want))
			}
			if nt.readTs < s.lastTs {
				fail(i, fmt.Sprintf("[visible-after-ack] readTs %d < acknowledged commit %d", nt.readTs, s.lastTs))
			}
			nt.ref = &refTxn{readTs: nt.readTs, update: nt.update, writes: map[uint64]bool{}, state: rtActive}
			s.ref.txns = append(s.ref.txns, nt.ref)
			s.txns = append(s.txns, nt)
			res = fmt.Sprintf("r=%d", nt.readTs)
		case w[0] == "get" && len(w) == 3:
			if t == nil {
				break
			}
			if t.closed {
				res = "err=discarded"
				break
			}
			kb := note(w[2])
			item, err := t.txn.Get(kb)
			var got *string
			switch {
			case err == badger.ErrKeyNotFound:
			case err != nil:
				res = "err=" + err.Error()
			default:
				vb, _ := item.ValueCopy(nil)
				h := hx(vb)
				got = &h
			}
			if err == nil || err == badger.ErrKeyNotFound {
				res = obs(got)
				var want *string
				own, isOwn := t.pend[w[2]]
				if t.update && isOwn {
					want = own
				} else {
					want = s.snapshot(w[2], t.readTs)
					if t.update {
						t.ref.reads = append(t.ref.reads, badger.VerifFingerprint(kb))
						t.readLog[w[2]] = obs(got)
					}
				}
				if obs(want) != obs(got) {
					if s.held != nil && s.held.ts <= t.readTs && s.held.writes[w[2]] {
						fail(i, fmt.Sprintf("[C03-read-partial] transaction with readTs %d reads %s=%s, but commit %d (<= its read timestamp) writes %s and is still in the write pipeline: it will read that commit's keys once applied, i.e. it observes only part of the transaction", t.readTs, w[2], obs(got), s.held.ts, obs(want)))
					} else {
						fail(i, fmt.Sprintf("[snapshot-read] Get returned %s, snapshot at %d (own writes first) has %s", obs(got), t.readTs, obs(want)))
					}
				}
			}
		case (w[0] == "set" && len(w) == 4) || (w[0] == "del" && len(w) == 3):
			if t == nil {
				break
			}
			if !t.update {
				res = "err=readonly"
				break
			}
			if t.closed {
				res = "err=discarded"
				break
			}
			kb := note(w[2])
			var err error
			if w[0] == "set" {
				err = t.txn.Set(kb, unhx(w[3]))
			} else {
				err = t.txn.Delete(kb)
			}
			if err != nil {
				res = "err=" + err.Error()
				break
			}
			if w[0] == "set" {
				v := w[3]
				t.pend[w[2]] = &v
			} else {
				t.pend[w[2]] = nil
			}
			t.ref.writes[badger.VerifFingerprint(kb)] = true
			res = "ok"
		case w[0] == "iter" && len(w) == 2:
			if t == nil {
				break
			}
			if t.closed {
				res = "err=discarded"
				break
			}
			var items []string
			it := t.txn.NewIterator(badger.DefaultIteratorOptions)
			for it.Rewind(); it.Valid(); it.Next() {
				item := it.Item()
				k := hx(item.KeyCopy(nil))
				vb, _ := item.ValueCopy(nil)
				items = append(items, k+":"+hx(vb))
				s.fp[badger.VerifFingerprint(unhx(k))] = k
				if t.update {
					t.ref.reads = append(t.ref.reads, badger.VerifFingerprint(unhx(k)))
					if _, own := t.pend[k]; !own {
						t.readLog[k] = "v=" + hx(vb)
					}
				}
			}
			it.Close()
			// specification of the iteration: own writes over the snapshot, live keys only
			var want []string
			seen := map[string]bool{}
			var cand []string
			for k := range s.history {
				cand = append(cand, k)
				seen[k] = true
			}
			if t.update {
				for k := range t.pend {
					if !seen[k] {
						cand = append(cand, k)
					}
				}
			}
			sort.Slice(cand, func(a, b int) bool { return string(unhx(cand[a])) < string(unhx(cand[b])) })
			for _, k := range cand {
				v := s.snapshot(k, t.readTs)
				if own, isOwn := t.pend[k]; t.update && isOwn {
					v = own
				}
				if v != nil {
					want = append(want, k+":"+*v)
				}
			}
			res = "items=-"
			if len(items) > 0 {
				res = "items=" + strings.Join(items, ",")
			}
			if strings.Join(items, ",") != strings.Join(want, ",") {
				fail(i, fmt.Sprintf("[snapshot-iter] iterator yielded %v, snapshot at %d has %v", items, t.readTs, want))
			}
		case w[0] == "commit" && len(w) == 2:
			if t == nil || s.managed || s.held != nil {
				break
			}
			if t.closed {
				res = "err=discarded"
				break
			}
			before := s.v.State()
			if t.readTs < before.ReadDoneUntil {
				res = "assert"
				fail(i, fmt.Sprintf("[readmark-ahead-of-open-txn] readMark.DoneUntil=%d although transaction %d with readTs %d is open", before.ReadDoneUntil, tid, t.readTs))
				t.closed = true // leaked on purpose: Discard would log.Fatal
				t.leaked = true
				break
			}
			wantConflict := t.update && len(t.pend) > 0 && s.ref.conflictSpec(t.ref)
			var err error
			if !withTimeout(func() { err = t.txn.Commit() }) {
				fail(i, "[commit-stuck] Commit did not return")
				panic(barrierStuck{"database (Commit did not return)"})
			}
			t.closed = true
			t.ref.state = rtClosed
			after := s.v.State()
			switch {
			case err == badger.ErrConflict:
				res = "conflict"
				st.Inc("txn:conflict")
				if !sameCommitted(before, after) {
					fail(i, "[conflict-trace] a rejected commit changed nextTxnTs/committedTxns")
				}
				if !wantConflict {
					fail(i, fmt.Sprintf("[false-conflict] ErrConflict although no transaction committed after read timestamp %d wrote a key it read", t.readTs))
				}
			case err == badger.ErrBlockedWrites:
				// rejected by sendToWriteCh after newCommitTs: the timestamp is consumed
				// (doneCommit), nothing is written
				res = "blocked-writes"
				st.Inc("txn:blocked-writes")
				if after.NextTxnTs == before.NextTxnTs+1 {
					ts := after.NextTxnTs - 1
					s.ref.next = ts + 1
					s.ref.commits = append(s.ref.commits, &refCommit{ts: ts, writes: copySet(t.ref.writes), done: true})
				}
				if wantConflict {
					fail(i, "[conflict-missed] ErrBlockedWrites instead of ErrConflict: the conflict check comes first")
				}
			case err != nil:
				res = "err=" + err.Error()
			case !t.update || len(t.pend) == 0:
				res = "ok-empty"
			default:
				ts := after.NextTxnTs - 1
				res = fmt.Sprintf("ok ts=%d", ts)
				st.Inc("txn:commit-ok")
				if wantConflict {
					fail(i, fmt.Sprintf("[conflict-missed] commit accepted at %d although a transaction committed after its read timestamp %d wrote a key it read", ts, t.readTs))
				}
				if after.NextTxnTs != before.NextTxnTs+1 || ts <= s.lastTs {
					fail(i, fmt.Sprintf("[commit-ts] nextTxnTs %d -> %d, previous commit %d", before.NextTxnTs, after.NextTxnTs, s.lastTs))
				}
				// serializability in commit-ts order: what it read is what the serial
				// execution (all commits with a smaller timestamp applied) would have read
				for k, seenV := range t.readLog {
					if !s.detect {
						break // DetectConflicts=false promises nothing
					}
					if cur := obs(s.snapshot(k, ts)); cur != seenV {
						fail(i, fmt.Sprintf("[not-serializable] committed at %d having read %s=%s at %d, but the serial state before %d has %s", ts, k, seenV, t.readTs, ts, cur))
					}
				}
				s.lastTs = ts
				s.ref.next = ts + 1
				s.ref.commits = append(s.ref.commits, &refCommit{ts: ts, writes: copySet(t.ref.writes), done: true})
				var ks []string
				for k := range t.pend {
					ks = append(ks, k)
				}
				sort.Strings(ks)
				for _, k := range ks {
					s.history[k] = append(s.history[k], dbVersion{ts: ts, val: t.pend[k]})
				}
			}
			if res != "conflict" && rejectedLeftTrace(s, t, err) {
				fail(i, "[rejected-trace] a rejected commit left visible writes")
			}
			orcBarrier(s.v)()
			s.v.Cleanup()
		case w[0] == "discard" && len(w) == 2:
			if t == nil || t.closed {
				break
			}
			if rd := s.v.State().ReadDoneUntil; !s.managed && t.readTs < rd {
				res = "assert"
				fail(i, fmt.Sprintf("[readmark-ahead-of-open-txn] readMark.DoneUntil=%d although transaction %d with readTs %d is open", rd, tid, t.readTs))
				t.closed = true
				t.leaked = true
				break
			}
			t.txn.Discard()
			t.closed = true
			t.ref.state = rtClosed
			res = "ok"
		default:
			outs[i] = "bad-op"
			continue
		}
		orcBarrier(s.v)()
		fin := s.v.State()
		checkState(fin)
		outs[i] = res + " " + dumpOracle(fin, keyName)
	}
	closeSession()
	return outs, oracle
}

// rejectedLeftTrace: placeholder for the pipeline part of C03 (rejected commits leave no trace in
// the LSM); the oracle-level part is checked by [conflict-trace].
func rejectedLeftTrace(s *dbSession, t *dbTxn, err error) bool { return false }
