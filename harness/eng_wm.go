package main

// Engines of the "wm" area (C34, C02, C03):
//
//	watermark  the real y.WaterMark fed with generated mark sequences (Begin/Done/BeginMany/
//	           DoneMany/WaitForMark); the process goroutine is asynchronous, so after every
//	           op the harness waits for quiescence with VerifBarrier (a sentinel mark that is
//	           answered only after all earlier marks were handled).
//	oracle     the real badger oracle, call level (readTs/newCommitTs/doneCommit/doneRead/
//	           cleanup through verif_export_oracle.go).          -> eng_wm_oracle part below
//	txn        a real in-memory DB driven through the public Txn API. -> below
//
// Blocking calls run in goroutines. "Should have returned" is awaited with a generous
// timeout (a time-out is a stranded waiter = violation; it cannot fire on correct code unless
// the machine stalls for seconds); "should still be blocked" is never decided by a sleep: an
// early return is noticed whenever the goroutine gets to report it, at the latest at the end of
// the session, and is a certain violation because doneUntil only grows.

import (
	"context"
	"fmt"
	"math/rand"
	"sort"
	"strings"
	"time"

	"github.com/dgraph-io/badger/v4/y"
)

func init() {
	engines["watermark"] = &Engine{Gen: genWatermark, Exec: execWatermark}
}

// strandedTimeout is how long a goroutine that the specification says must return is awaited.
// After the first stranded goroutine of a run it is cut down: the run already failed.
var strandedTimeout = 8 * time.Second

func awaitClosed(ch <-chan struct{}) bool {
	select {
	case <-ch:
		return true
	default:
	}
	t := time.NewTimer(strandedTimeout)
	defer t.Stop()
	select {
	case <-ch:
		return true
	case <-t.C:
		strandedTimeout = 50 * time.Millisecond
		return false
	}
}

func isClosed(ch <-chan struct{}) bool {
	select {
	case <-ch:
		return true
	default:
		return false
	}
}

// ---------------------------------------------------------------- naive watermark spec

// shadowWM is the specification of the watermark written naively: a multiset of begun-minus-done
// counts; doneUntil moves to the smallest tracked index while that index has a count <= 0.
// It is used by the generator (to build mostly valid sequences), by the executor to refuse
// marks on which the production code would log.Fatal (which cannot be recovered), and as the
// "equals the naive spec" oracle.
type shadowWM struct {
	du   uint64
	last uint64
	pend map[uint64]int
}

func newShadowWM() *shadowWM { return &shadowWM{pend: map[uint64]int{}} }

func (s *shadowWM) clone() *shadowWM {
	c := &shadowWM{du: s.du, last: s.last, pend: map[uint64]int{}}
	for k, v := range s.pend {
		c.pend[k] = v
	}
	return c
}

// proc returns false when the production code would assert (doneUntil > index).
func (s *shadowWM) proc(idx uint64, done bool) bool {
	if s.du > idx {
		return false
	}
	if done {
		s.pend[idx]--
	} else {
		s.pend[idx]++
	}
	for len(s.pend) > 0 {
		first := true
		var min uint64
		for k := range s.pend {
			if first || k < min {
				min, first = k, false
			}
		}
		if s.pend[min] > 0 {
			break
		}
		delete(s.pend, min)
		s.du = min
	}
	return true
}

// apply runs a whole mark on a copy and commits it only if no assert fires.
func (s *shadowWM) apply(op string, idxs []uint64) bool {
	c := s.clone()
	done := op == "done" || op == "donemany"
	list := idxs
	if op == "donemany" && len(idxs) == 0 {
		list = []uint64{0}
	}
	for _, i := range list {
		if !c.proc(i, done) {
			return false
		}
	}
	if !done && len(idxs) > 0 {
		c.last = idxs[len(idxs)-1]
	}
	*s = *c
	return true
}

func (s *shadowWM) pendingIdx() []uint64 {
	var r []uint64
	for k, v := range s.pend {
		if v > 0 {
			r = append(r, k)
		}
	}
	sort.Slice(r, func(i, j int) bool { return r[i] < r[j] })
	return r
}

// ---------------------------------------------------------------- generator

func joinU(xs []uint64) string {
	var b strings.Builder
	for _, x := range xs {
		fmt.Fprintf(&b, " %d", x)
	}
	return b.String()
}

func genWatermark(rng *rand.Rand, n int, st *Stats) []string {
	var ops []string
	for c := 0; c < n; c++ {
		ops = append(ops, genWatermarkSession(rng, st)...)
	}
	return ops
}

func genWatermarkSession(rng *rand.Rand, st *Stats) []string {
	ops := []string{"reset"}
	sh := newShadowWM()
	// style: "txn" = every index begun once, in increasing order (the oracle's txnMark);
	// "read" = non-decreasing begins with repeats (the oracle's readMark); "any" = anything.
	style := []string{"txn", "read", "any"}[rng.Intn(3)]
	st.Inc("wm-style:" + style)
	base := uint64(0)
	switch rng.Intn(6) {
	case 0:
		base = 1 << 32
	case 1:
		base = 1<<63 - 50
	case 2:
		base = uint64(rng.Intn(1000))
	}
	next := base + uint64(rng.Intn(3))
	if base > 0 || rng.Intn(2) == 0 {
		// like DB.Open: Done(nextTxnTs) without Begin positions the watermark
		ops = append(ops, fmt.Sprintf("done %d", next))
		sh.apply("done", []uint64{next})
		next++
	}
	wid := 0
	nops := 8 + rng.Intn(40)
	for i := 0; i < nops; i++ {
		pend := sh.pendingIdx()
		r := rng.Intn(100)
		switch {
		case r < 30: // begin
			idx := next
			switch style {
			case "txn":
				if rng.Intn(8) == 0 {
					idx += uint64(1 + rng.Intn(40)) // gap (exercises the map notify path)
				}
				next = idx + 1
			case "read":
				if rng.Intn(3) == 0 && next > base {
					idx = next - 1 // same read timestamp again (also == doneUntil sometimes)
				} else {
					if rng.Intn(8) == 0 {
						idx += uint64(rng.Intn(30))
					}
					next = idx + 1
				}
			default:
				switch rng.Intn(6) {
				case 0:
					idx = sh.du // re-begin of the index the watermark stands on
				case 1:
					if sh.du > 0 {
						idx = sh.du - 1 // would assert
					}
				case 2:
					idx = sh.du + uint64(rng.Intn(6))
				default:
					idx += uint64(rng.Intn(4))
					next = idx + 1
				}
			}
			ops = append(ops, fmt.Sprintf("begin %d", idx))
			sh.apply("begin", []uint64{idx})
		case r < 58: // done of a pending index
			if len(pend) == 0 {
				continue
			}
			idx := pend[rng.Intn(len(pend))]
			if rng.Intn(3) == 0 {
				idx = pend[0]
			}
			ops = append(ops, fmt.Sprintf("done %d", idx))
			sh.apply("done", []uint64{idx})
		case r < 63 && style == "any": // done of something not pending / double done
			idx := sh.du + uint64(rng.Intn(5))
			ops = append(ops, fmt.Sprintf("done %d", idx))
			sh.apply("done", []uint64{idx})
		case r < 70: // beginmany, ascending
			k := rng.Intn(4)
			if style != "any" && k == 0 {
				k = 1
			}
			var idxs []uint64
			for j := 0; j < k; j++ {
				idxs = append(idxs, next)
				if style == "read" && rng.Intn(3) == 0 {
					continue
				}
				next += 1 + uint64(rng.Intn(3))
			}
			ops = append(ops, "beginmany"+joinU(idxs))
			if len(idxs) > 0 {
				sh.apply("beginmany", idxs)
			}
		case r < 77: // donemany of some pending indices (ascending), rarely empty
			var idxs []uint64
			for _, p := range pend {
				if rng.Intn(2) == 0 {
					idxs = append(idxs, p)
				}
			}
			if len(idxs) == 0 && !(style == "any" && rng.Intn(3) == 0) {
				continue
			}
			ops = append(ops, "donemany"+joinU(idxs))
			sh.apply("donemany", idxs)
		default: // wait
			var idx uint64
			switch rng.Intn(5) {
			case 0:
				idx = sh.du
			case 1:
				if sh.du > 0 {
					idx = sh.du - 1
				}
			case 2:
				idx = next + uint64(rng.Intn(3))
			default:
				if len(pend) > 0 {
					idx = pend[rng.Intn(len(pend))]
				} else {
					idx = sh.du + 1
				}
			}
			wid++
			op := "wait"
			if rng.Intn(2) == 0 {
				op = "waitraw"
			}
			ops = append(ops, fmt.Sprintf("%s %d %d", op, idx, wid))
		}
	}
	// drain: finish everything so that every waiter at or below the last index is released
	if rng.Intn(3) != 0 {
		for _, p := range sh.pendingIdx() {
			for sh.pend[p] > 0 {
				ops = append(ops, fmt.Sprintf("done %d", p))
				sh.apply("done", []uint64{p})
			}
		}
	}
	st.Inc(fmt.Sprintf("wm-session-len:%s", sizeBucket(len(ops))))
	return ops
}

// ---------------------------------------------------------------- executor

type wmWaiter struct {
	id   uint64
	idx  uint64
	ch   <-chan struct{} // closed when the waiter was released (raw) / WaitForMark returned nil
	raw  bool
	gone bool
}

type wmSession struct {
	w       *y.WaterMark
	stop    func()
	cancel  context.CancelFunc
	ctx     context.Context
	waiters []*wmWaiter
	sh      *shadowWM
	prevDU  uint64
	wf      bool // every done so far matched an earlier begin
}

func newWMSession() *wmSession {
	w, stop := y.VerifNewWaterMark("verif")
	ctx, cancel := context.WithCancel(context.Background())
	return &wmSession{w: w, stop: stop, ctx: ctx, cancel: cancel, sh: newShadowWM(), wf: true}
}

// sweep collects released waiters after quiescence. Returns the woke list and oracle failures.
func (s *wmSession) sweep() (woke []string, fails []string) {
	du := s.w.DoneUntil()
	type wk struct {
		id, idx uint64
	}
	var ws []wk
	for _, wt := range s.waiters {
		if wt.gone {
			continue
		}
		if wt.idx <= du {
			// C34: a waiter for an index at or below doneUntil must have been released
			if awaitClosed(wt.ch) {
				wt.gone = true
				ws = append(ws, wk{wt.id, wt.idx})
			} else {
				wt.gone = true // report once
				fails = append(fails, fmt.Sprintf("[waiter-stranded] waiter %d for index %d not released although DoneUntil=%d", wt.id, wt.idx, du))
			}
		} else if isClosed(wt.ch) {
			wt.gone = true
			ws = append(ws, wk{wt.id, wt.idx})
			fails = append(fails, fmt.Sprintf("[waiter-early] waiter %d for index %d released while DoneUntil=%d", wt.id, wt.idx, du))
		}
	}
	sort.Slice(ws, func(i, j int) bool { return ws[i].id < ws[j].id })
	for _, x := range ws {
		woke = append(woke, fmt.Sprintf("%d:%d", x.id, x.idx))
	}
	return
}

func (s *wmSession) close() (fails []string) {
	// last chance to notice early releases of WaitForMark goroutines
	s.w.VerifBarrier()
	_, f := s.sweep()
	fails = append(fails, f...)
	s.cancel()
	s.stop()
	return
}

func (s *wmSession) out(woke []string) string {
	w := "-"
	if len(woke) > 0 {
		w = strings.Join(woke, ",")
	}
	return fmt.Sprintf("du=%d li=%d woke=%s", s.w.DoneUntil(), s.w.LastIndex(), w)
}

func execWatermark(ops []string, st *Stats) ([]string, []string) {
	outs := make([]string, len(ops))
	var oracle []string
	var s *wmSession
	fail := func(i int, msg string) {
		oracle = append(oracle, fmt.Sprintf("line %d: %s :: %s", i+1, ops[i], msg))
	}
	for i, l := range ops {
		w := strings.Fields(l)
		if len(w) == 0 {
			outs[i] = "bad-op"
			continue
		}
		if w[0] == "reset" {
			if s != nil {
				for _, f := range s.close() {
					fail(i-1, f)
				}
			}
			s = newWMSession()
			outs[i] = "ok"
			st.Inc("op:reset")
			continue
		}
		if s == nil {
			outs[i] = "bad-op"
			continue
		}
		var args []uint64
		bad := false
		for _, a := range w[1:] {
			v, err := parseU(a)
			if err != nil {
				bad = true
			}
			args = append(args, v)
		}
		if bad {
			outs[i] = "bad-op"
			continue
		}
		st.Inc("op:" + w[0])
		switch w[0] {
		case "begin", "done", "beginmany", "donemany":
			if (w[0] == "begin" || w[0] == "done") && len(args) != 1 {
				outs[i] = "bad-op"
				continue
			}
			if w[0] == "beginmany" && len(args) == 0 {
				outs[i] = safely(func() string { s.w.BeginMany(nil); return "no-panic" })
				continue
			}
			// refuse marks on which process would log.Fatal (not recoverable)
			if !s.sh.apply(w[0], args) {
				outs[i] = "assert"
				st.Inc("wm:assert-refused")
				continue
			}
			if w[0] == "done" || w[0] == "donemany" {
				// well-formedness bookkeeping is implicit in the shadow: negative counts
				for _, v := range s.sh.pend {
					if v < 0 {
						s.wf = false
					}
				}
			}
			switch w[0] {
			case "begin":
				s.w.Begin(args[0])
			case "done":
				s.w.Done(args[0])
			case "beginmany":
				s.w.BeginMany(args)
			case "donemany":
				s.w.DoneMany(args)
			}
		case "wait", "waitraw":
			if len(args) != 2 {
				outs[i] = "bad-op"
				continue
			}
			wt := &wmWaiter{id: args[1], idx: args[0], raw: w[0] == "waitraw"}
			if wt.raw {
				wt.ch = s.w.VerifWaitRaw(wt.idx)
			} else {
				ch := make(chan struct{})
				wt.ch = ch
				go func(idx uint64) {
					if err := s.w.WaitForMark(s.ctx, idx); err == nil {
						close(ch)
					}
				}(wt.idx)
			}
			s.waiters = append(s.waiters, wt)
		default:
			outs[i] = "bad-op"
			continue
		}
		s.w.VerifBarrier()
		du := s.w.DoneUntil()
		woke, fails := s.sweep()
		outs[i] = s.out(woke)
		for _, f := range fails {
			fail(i, f)
		}
		// ---- C34 evaluated directly on the implementation
		if du < s.prevDU {
			fail(i, fmt.Sprintf("[du-monotone] DoneUntil went from %d to %d", s.prevDU, du))
		}
		s.prevDU = du
		for idx, c := range s.sh.pend {
			if c > 0 && du > idx {
				fail(i, fmt.Sprintf("[du-ahead-of-pending] DoneUntil=%d but index %d has %d unfinished Begin(s)", du, idx, c))
			}
		}
		if du != s.sh.du {
			fail(i, fmt.Sprintf("[du-not-spec] DoneUntil=%d, specification says %d", du, s.sh.du))
		}
		if li := s.w.LastIndex(); li != s.sh.last {
			fail(i, fmt.Sprintf("[last-index] LastIndex=%d, want %d", li, s.sh.last))
		}
		if len(woke) > 0 {
			st.Inc("wm:wakeups")
		}
	}
	if s != nil {
		for _, f := range s.close() {
			fail(len(ops)-1, f)
		}
	}
	return outs, oracle
}

func parseU(s string) (v uint64, err error) {
	defer func() {
		if r := recover(); r != nil {
			err = fmt.Errorf("bad uint")
		}
	}()
	return atou(s), nil
}
