package main

import (
	"encoding/hex"
	"fmt"
	"math/rand"
	"strconv"
)

func hx(b []byte) string {
	if len(b) == 0 {
		return "-"
	}
	return hex.EncodeToString(b)
}

func unhx(s string) []byte {
	if s == "-" {
		return []byte{}
	}
	b, err := hex.DecodeString(s)
	if err != nil {
		panic("bad hex " + s)
	}
	return b
}

func atou(s string) uint64 {
	v, err := strconv.ParseUint(s, 10, 64)
	if err != nil {
		panic("bad uint " + s)
	}
	return v
}

func utoa(v uint64) string { return strconv.FormatUint(v, 10) }

// safely runs f and maps a panic to the canonical output "panic".
func safely(f func() string) (out string) {
	defer func() {
		if r := recover(); r != nil {
			out = "panic"
		}
	}()
	return f()
}

var keyAlphabet = []byte{0x00, 0x01, 0x61, 0x62, 0xfe, 0xff}

// genUserKey draws short keys over a small alphabet so that prefixes of one another,
// 0x00 and 0xFF bytes and shared prefixes are all frequent.
func genUserKey(rng *rand.Rand, minLen, maxLen int) []byte {
	n := minLen + rng.Intn(maxLen-minLen+1)
	k := make([]byte, n)
	for i := range k {
		k[i] = keyAlphabet[rng.Intn(len(keyAlphabet))]
	}
	return k
}

var edgeU64 = []uint64{0, 1, 2, 127, 128, 255, 256, 16383, 16384, 1<<32 - 1, 1 << 32, 1<<63 - 1, 1 << 63, 1<<64 - 2, 1<<64 - 1}

func genU64(rng *rand.Rand) uint64 {
	switch rng.Intn(4) {
	case 0:
		return edgeU64[rng.Intn(len(edgeU64))]
	case 1:
		return uint64(rng.Intn(20))
	case 2:
		return rng.Uint64() >> uint(rng.Intn(64))
	default:
		return rng.Uint64()
	}
}

func sizeBucket(n int) string {
	switch {
	case n == 0:
		return "0"
	case n < 8:
		return "1-7"
	case n < 64:
		return "8-63"
	case n < 1024:
		return "64-1023"
	default:
		return fmt.Sprintf(">=1024")
	}
}
