package main

import (
	"fmt"
	"math/rand"
	"strings"

	"github.com/dgraph-io/badger/v4/y"
)

func init() {
	engines["codec"] = &Engine{Gen: genCodec, Exec: execCodec}
}

type codecGen func(rng *rand.Rand, st *Stats) []string

var codecGens = map[string]codecGen{}
var codecGenOrder []string

type codecExec func(w []string, st *Stats) (out string, oracle string)

var codecExecs = map[string]codecExec{}

func regCodec(name string, g codecGen, ops map[string]codecExec) {
	if g != nil {
		codecGens[name] = g
		codecGenOrder = append(codecGenOrder, name)
	}
	for k, v := range ops {
		codecExecs[k] = v
	}
}

func genCodec(rng *rand.Rand, n int, st *Stats) []string {
	fams := codecGenOrder
	if f := params["families"]; f != "" {
		fams = strings.Split(f, ",")
	}
	for _, f := range fams {
		if codecGens[f] == nil {
			panic("unknown codec family " + f)
		}
	}
	var ops []string
	for i := 0; i < n; i++ {
		f := fams[rng.Intn(len(fams))]
		st.Inc("family:" + f)
		ops = append(ops, codecGens[f](rng, st)...)
	}
	return ops
}

func execCodec(ops []string, st *Stats) ([]string, []string) {
	outs := make([]string, len(ops))
	var oracle []string
	for i, l := range ops {
		w := strings.Fields(l)
		ex, ok := codecExecs[w[0]]
		if !ok {
			outs[i] = "bad-op"
			continue
		}
		var orc string
		outs[i] = safely(func() string {
			o, oc := ex(w, st)
			orc = oc
			return o
		})
		st.Inc("op:" + w[0])
		if orc != "" {
			oracle = append(oracle, fmt.Sprintf("line %d: %s :: %s", i+1, l, orc))
		}
	}
	return outs, oracle
}

// ---- keys (y/y.go) ----

func init() {
	regCodec("key", genKeyCase, map[string]codecExec{
		"kwt": func(w []string, st *Stats) (string, string) {
			k, ts := unhx(w[1]), atou(w[2])
			enc := y.KeyWithTs(k, ts)
			// oracle (C20): round-trip
			var orc string
			if len(k) > 0 {
				if y.ParseTs(enc) != ts {
					orc = "ParseTs(KeyWithTs(k,ts)) != ts"
				}
			}
			if string(y.ParseKey(enc)) != string(k) {
				orc = "ParseKey(KeyWithTs(k,ts)) != k"
			}
			return hx(enc), orc
		},
		"pts": func(w []string, st *Stats) (string, string) { return utoa(y.ParseTs(unhx(w[1]))), "" },
		"pk": func(w []string, st *Stats) (string, string) {
			r := y.ParseKey(unhx(w[1]))
			if r == nil {
				return "nil", ""
			}
			return hx(r), ""
		},
		"cmp": func(w []string, st *Stats) (string, string) {
			a, b := unhx(w[1]), unhx(w[2])
			c := y.CompareKeys(a, b)
			return fmt.Sprint(c), ""
		},
		"same": func(w []string, st *Stats) (string, string) {
			return fmt.Sprint(y.SameKey(unhx(w[1]), unhx(w[2]))), ""
		},
		// cmpk k1 ts1 k2 ts2: compare of encoded keys with the C20 order oracle.
		"cmpk": func(w []string, st *Stats) (string, string) {
			k1, t1, k2, t2 := unhx(w[1]), atou(w[2]), unhx(w[3]), atou(w[4])
			c := y.CompareKeys(y.KeyWithTs(k1, t1), y.KeyWithTs(k2, t2))
			want := strings.Compare(string(k1), string(k2))
			if want == 0 {
				switch {
				case t1 > t2:
					want = -1
				case t1 < t2:
					want = 1
				}
			}
			orc := ""
			if c != want {
				orc = fmt.Sprintf("CompareKeys=%d, spec order=%d", c, want)
			}
			st.Inc(fmt.Sprintf("cmpk:%d", c))
			return fmt.Sprint(c), orc
		},
	})
}

func genKeyCase(rng *rand.Rand, st *Stats) []string {
	k1 := genUserKey(rng, 0, 4)
	k2 := genUserKey(rng, 0, 4)
	if rng.Intn(3) == 0 {
		k2 = append([]byte{}, k1...)
		if rng.Intn(2) == 0 {
			k2 = append(k2, keyAlphabet[rng.Intn(len(keyAlphabet))])
		}
	}
	t1, t2 := genU64(rng), genU64(rng)
	if rng.Intn(4) == 0 {
		t2 = t1
	}
	e1, e2 := y.KeyWithTs(k1, t1), y.KeyWithTs(k2, t2)
	ops := []string{
		fmt.Sprintf("kwt %s %d", hx(k1), t1),
		fmt.Sprintf("cmpk %s %d %s %d", hx(k1), t1, hx(k2), t2),
		fmt.Sprintf("cmp %s %s", hx(e1), hx(e2)),
		fmt.Sprintf("same %s %s", hx(e1), hx(e2)),
		fmt.Sprintf("pts %s", hx(e1)),
		fmt.Sprintf("pk %s", hx(e2)),
	}
	// raw byte strings, including short ones
	raw := genUserKey(rng, 0, 12)
	ops = append(ops, fmt.Sprintf("pts %s", hx(raw)), fmt.Sprintf("pk %s", hx(raw)))
	raw2 := genUserKey(rng, 0, 12)
	ops = append(ops, fmt.Sprintf("same %s %s", hx(raw), hx(raw2)))
	if len(raw) >= 8 && len(raw2) >= 8 {
		ops = append(ops, fmt.Sprintf("cmp %s %s", hx(raw), hx(raw2)))
	}
	st.Inc("keylen:" + sizeBucket(len(k1)))
	return ops
}
