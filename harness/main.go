// bv: the Go side of the correspondence check. It generates operation lines for an
// engine (seeded), executes them against the real badger code built from /repo's current
// working tree with -tags verif, and writes ops / impl outputs / oracle verdicts / stats.
package main

import (
	"bufio"
	"encoding/json"
	"flag"
	"fmt"
	"math/rand"
	"os"
	"sort"
	"strings"
)

// Engine couples a generator of op lines with an executor that runs them on the real code.
type Engine struct {
	// Gen appends n generated cases (one or more op lines each) to the script.
	Gen func(rng *rand.Rand, n int, st *Stats) []string
	// Exec runs the op lines on the implementation: one output line per op line, plus
	// oracle failures (property evaluated directly on implementation outputs).
	Exec func(ops []string, st *Stats) (outs []string, oracle []string)
	// ExecX (stateful engines): like Exec, but the op lines are *intents*; the executor
	// returns the final op lines (intent + the nondeterministic choices the implementation
	// was observed to make, e.g. the tables a compaction picked) — possibly more lines than
	// intents (automatic dumps) — with one output line per final op line.
	ExecX func(ops []string, st *Stats) (final []string, outs []string, oracle []string)
}

type Stats struct {
	Hist map[string]int `json:"hist"`
}

func (s *Stats) Inc(k string) { s.Hist[k]++ }

var engines = map[string]*Engine{}

// params holds -p key=value engine parameters.
var params = map[string]string{}

type paramFlag struct{}

func (paramFlag) String() string { return "" }
func (paramFlag) Set(v string) error {
	i := strings.IndexByte(v, '=')
	if i < 0 {
		return fmt.Errorf("want key=value")
	}
	params[v[:i]] = v[i+1:]
	return nil
}

func main() {
	if len(os.Args) < 2 {
		fmt.Fprintln(os.Stderr, "usage: bv <engine> [flags]")
		os.Exit(2)
	}
	name := os.Args[1]
	fs := flag.NewFlagSet(name, flag.ExitOnError)
	seed := fs.Int64("seed", 1, "PRNG seed")
	n := fs.Int("n", 100, "number of generated cases")
	outDir := fs.String("out", ".", "output directory (ops.txt impl.txt oracle.txt stats.json)")
	replay := fs.String("replay", "", "ops file to execute instead of generating")
	corpus := fs.String("corpus", "", "directory of *.ops files executed before generated cases")
	fs.Var(paramFlag{}, "p", "engine parameter key=value (repeatable)")
	_ = fs.Parse(os.Args[2:])
	eng, ok := engines[name]
	if !ok {
		var names []string
		for k := range engines {
			names = append(names, k)
		}
		sort.Strings(names)
		fmt.Fprintf(os.Stderr, "unknown engine %q; have %v\n", name, names)
		os.Exit(2)
	}
	st := &Stats{Hist: map[string]int{}}
	var ops []string
	if *replay != "" {
		ops = readLines(*replay)
	} else {
		if *corpus != "" {
			ents, _ := os.ReadDir(*corpus)
			for _, e := range ents {
				if strings.HasSuffix(e.Name(), ".ops") {
					ops = append(ops, readLines(*corpus+"/"+e.Name())...)
					st.Inc("corpus_files")
				}
			}
		}
		rng := rand.New(rand.NewSource(*seed))
		ops = append(ops, eng.Gen(rng, *n, st)...)
	}
	progressF, _ = os.Create(*outDir + "/progress.txt")
	oraclePartialF, _ = os.Create(*outDir + "/oracle_partial.txt")
	var outs, oracle []string
	if eng.ExecX != nil {
		ops, outs, oracle = eng.ExecX(ops, st)
	} else {
		outs, oracle = eng.Exec(ops, st)
	}
	if len(outs) != len(ops) {
		fmt.Fprintf(os.Stderr, "engine bug: %d ops, %d outputs\n", len(ops), len(outs))
		os.Exit(3)
	}
	writeLines(*outDir+"/ops.txt", ops)
	writeLines(*outDir+"/impl.txt", outs)
	writeLines(*outDir+"/oracle.txt", oracle)
	b, _ := json.MarshalIndent(st, "", " ")
	_ = os.WriteFile(*outDir+"/stats.json", b, 0o644)
}

// progress appends the intent about to be executed to <out>/progress.txt (unbuffered), so
// that a fatal exit inside badger (y.AssertTrue calls log.Fatalf) still leaves the session
// that caused it on disk.
var progressF *os.File

// oracleProgress appends an oracle failure to <out>/oracle_partial.txt as soon as it is found, so
// that it survives a later hang or crash of the implementation (oracle.txt is written at the end).
var oraclePartialF *os.File

func oracleProgress(line string) {
	if oraclePartialF != nil {
		oraclePartialF.WriteString(line + "\n")
	}
}

func progress(line string) {
	if progressF != nil {
		progressF.WriteString(line + "\n")
	}
	if os.Getenv("VERIF_TRACE") != "" {
		fmt.Fprintln(os.Stderr, "TRACE", line)
	}
}

func readLines(p string) []string {
	f, err := os.Open(p)
	if err != nil {
		fmt.Fprintln(os.Stderr, err)
		os.Exit(3)
	}
	defer f.Close()
	var out []string
	sc := bufio.NewScanner(f)
	sc.Buffer(make([]byte, 1<<20), 1<<28)
	for sc.Scan() {
		l := strings.TrimRight(sc.Text(), "\r\n")
		if l == "" || strings.HasPrefix(l, "#") {
			continue
		}
		out = append(out, l)
	}
	return out
}

func writeLines(p string, ls []string) {
	f, err := os.Create(p)
	if err != nil {
		fmt.Fprintln(os.Stderr, err)
		os.Exit(3)
	}
	w := bufio.NewWriter(f)
	for _, l := range ls {
		w.WriteString(l)
		w.WriteByte('\n')
	}
	w.Flush()
	f.Close()
}
