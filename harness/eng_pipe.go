package main

// Engine "pipe" (C03, write pipeline; oracle only, no model): free-running concurrent committers
// and readers on a real on-disk DB with a tiny memtable (rotations and flushes happen while
// requests are being applied).
//
// Every update transaction blindly writes the same fresh tag to all K keys of one key group, so
// there are no conflicts and a reader must, at any time and for each group, see one tag on all K
// keys (or none at all) and the same version on all of them: all-or-nothing visibility
// (C03_atomic_visibility). A committer that got nil from Commit (or its CommitWith callback)
// immediately reads its group back: what it sees must have a commit timestamp >= its own
// (C03_acked_visible). After the run the value log is read back: it holds every written entry in
// the order writeRequests handled the requests, i.e. in write-channel order, which must be
// commit-timestamp order with the entries of one transaction contiguous (C03_channel_order,
// C03_apply_order).
//
// All checks are safety properties of the unchanged code, so scheduling cannot cause a false alarm;
// a violation under a mutation is found with high probability only (it needs the bad schedule).

import (
	"encoding/binary"
	"fmt"
	"math/rand"
	"os"
	"path/filepath"
	"sort"
	"strings"
	"sync"
	"sync/atomic"
	"time"

	badger "github.com/dgraph-io/badger/v4"
	"github.com/dgraph-io/badger/v4/options"
	"github.com/dgraph-io/badger/v4/y"
)

func init() {
	engines["pipe"] = &Engine{Gen: genPipe, Exec: execPipe}
}

func genPipe(rng *rand.Rand, n int, st *Stats) []string {
	var ops []string
	if params["mode"] == "drop" {
		return genPipeDrop(rng, n, st)
	}
	for i := 0; i < n; i++ {
		committers := 3 + rng.Intn(6)
		readers := 2 + rng.Intn(4)
		txns := 150 + rng.Intn(250)
		k := 3 + rng.Intn(6)
		groups := 1 + rng.Intn(3)
		ops = append(ops, fmt.Sprintf("case %d %d %d %d %d %d", rng.Int63n(1<<40), committers, readers, txns, k, groups))
	}
	return ops
}

const pipeValLen = 48

func pipeTag(committer, seq int) []byte {
	v := make([]byte, pipeValLen)
	binary.BigEndian.PutUint32(v[0:], uint32(committer))
	binary.BigEndian.PutUint32(v[4:], uint32(seq))
	for i := 8; i < pipeValLen; i++ {
		v[i] = byte(committer*31 + seq + i)
	}
	return v
}

func pipeTagOf(v []byte) (string, bool) {
	if len(v) != pipeValLen {
		return "", false
	}
	return fmt.Sprintf("%d/%d", binary.BigEndian.Uint32(v[0:]), binary.BigEndian.Uint32(v[4:])), true
}

func pipeKey(group, i int) []byte { return []byte(fmt.Sprintf("g%02d-k%02d", group, i)) }

type pipeFailures struct {
	mu   sync.Mutex
	msgs []string
	seen map[string]bool
}

func (f *pipeFailures) add(tag, msg string) {
	f.mu.Lock()
	defer f.mu.Unlock()
	if f.seen == nil {
		f.seen = map[string]bool{}
	}
	if f.seen[tag] { // one example per kind is enough
		return
	}
	f.seen[tag] = true
	f.msgs = append(f.msgs, tag+" "+msg)
}

// readGroup reads all keys of a group in one read-only transaction. It returns the tag and version
// seen (empty tag = nothing written yet) and reports torn views.
func readGroup(db *badger.DB, group, k int, useIter bool, fails *pipeFailures, who string) (tag string, version uint64, ok bool) {
	txn := db.NewTransaction(false)
	defer txn.Discard()
	type seen struct {
		tag string
		ver uint64
	}
	got := make([]seen, 0, k)
	if useIter {
		it := txn.NewIterator(badger.IteratorOptions{PrefetchValues: false, Prefix: []byte(fmt.Sprintf("g%02d-", group))})
		for it.Rewind(); it.Valid(); it.Next() {
			item := it.Item()
			v, err := item.ValueCopy(nil)
			if err != nil {
				fails.add("[pipe-read-error]", fmt.Sprintf("%s: ValueCopy: %v", who, err))
				it.Close()
				return "", 0, false
			}
			tg, _ := pipeTagOf(v)
			got = append(got, seen{tg, item.Version()})
		}
		it.Close()
		if len(got) != 0 && len(got) != k {
			fails.add("[partial-visibility]", fmt.Sprintf("%s at readTs %d: iterator over group %d yields %d of %d keys", who, txn.ReadTs(), group, len(got), k))
			return "", 0, false
		}
	} else {
		for i := 0; i < k; i++ {
			item, err := txn.Get(pipeKey(group, i))
			if err == badger.ErrKeyNotFound {
				got = append(got, seen{"", 0})
				continue
			}
			if err != nil {
				fails.add("[pipe-read-error]", fmt.Sprintf("%s: Get: %v", who, err))
				return "", 0, false
			}
			v, err := item.ValueCopy(nil)
			if err != nil {
				fails.add("[pipe-read-error]", fmt.Sprintf("%s: ValueCopy: %v", who, err))
				return "", 0, false
			}
			tg, _ := pipeTagOf(v)
			got = append(got, seen{tg, item.Version()})
		}
	}
	if len(got) == 0 {
		return "", 0, true
	}
	for i := 1; i < len(got); i++ {
		if got[i] != got[0] {
			fails.add("[partial-visibility]", fmt.Sprintf("%s at readTs %d sees part of a transaction in group %d: key 0 has tag %q version %d, key %d has tag %q version %d",
				who, txn.ReadTs(), group, got[0].tag, got[0].ver, i, got[i].tag, got[i].ver))
			return "", 0, false
		}
	}
	if got[0].ver > txn.ReadTs() {
		fails.add("[future-version]", fmt.Sprintf("%s at readTs %d sees version %d", who, txn.ReadTs(), got[0].ver))
	}
	return got[0].tag, got[0].ver, true
}

func execPipe(ops []string, st *Stats) ([]string, []string) {
	outs := make([]string, len(ops))
	var oracle []string
	for i, l := range ops {
		w := strings.Fields(l)
		if len(w) == 7 && w[0] == "drop" {
			res, fails := execPipeDrop(w, st)
			outs[i] = res
			for _, f := range fails {
				oracle = append(oracle, fmt.Sprintf("line %d: %s :: %s", i+1, l, f))
			}
			st.Inc("op:drop")
			continue
		}
		if len(w) != 7 || w[0] != "case" {
			outs[i] = "bad-op"
			continue
		}
		var a [6]int64
		bad := false
		for j := 0; j < 6; j++ {
			v, err := parseU(w[j+1])
			if err != nil || v > 1<<41 {
				bad = true
			}
			a[j] = int64(v)
		}
		if bad || a[1] < 1 || a[1] > 32 || a[2] < 0 || a[2] > 32 || a[3] < 1 || a[3] > 100000 || a[4] < 1 || a[4] > 32 || a[5] < 1 || a[5] > 8 {
			outs[i] = "bad-op"
			continue
		}
		res, fails := runPipeCase(a[0], int(a[1]), int(a[2]), int(a[3]), int(a[4]), int(a[5]), st)
		outs[i] = res
		for _, f := range fails {
			oracle = append(oracle, fmt.Sprintf("line %d: %s :: %s", i+1, l, f))
		}
		st.Inc("op:case")
	}
	return outs, oracle
}

func runPipeCase(seed int64, committers, readers, txns, k, groups int, st *Stats) (string, []string) {
	base := os.Getenv("VERIF_SCRATCH")
	if base == "" {
		base = os.TempDir()
	}
	dir, err := os.MkdirTemp(base, "pipe-")
	if err != nil {
		panic(err)
	}
	defer os.RemoveAll(dir)
	opt := badger.DefaultOptions(dir).WithLoggingLevel(badger.ERROR).
		WithMemTableSize(64 << 10).WithValueThreshold(32).WithValueLogFileSize(4 << 20).
		WithBaseTableSize(64 << 10).WithBaseLevelSize(256 << 10).WithNumMemtables(3).
		WithNumLevelZeroTables(3).WithNumLevelZeroTablesStall(8).WithNumCompactors(2).
		WithCompression(options.None).WithBlockCacheSize(0).WithIndexCacheSize(0).
		WithMetricsEnabled(false).WithSyncWrites(false).WithDetectConflicts(true)
	db, err := badger.Open(opt)
	if err != nil {
		panic(err)
	}
	fails := &pipeFailures{}
	var stop atomic.Bool
	var commitsOK, readsDone atomic.Int64
	// acked[i] = (own tag, tag seen right after the acknowledgement)
	type ackObs struct{ own, seen string }
	var ackMu sync.Mutex
	var acks []ackObs

	var wg sync.WaitGroup
	for c := 0; c < committers; c++ {
		wg.Add(1)
		go func(c int) {
			defer wg.Done()
			rng := rand.New(rand.NewSource(seed + int64(c)))
			for s := 0; s < txns; s++ {
				g := rng.Intn(groups)
				tagv := pipeTag(c, s)
				own, _ := pipeTagOf(tagv)
				txn := db.NewTransaction(true)
				for i := 0; i < k; i++ {
					if err := txn.Set(pipeKey(g, i), tagv); err != nil {
						fails.add("[pipe-write-error]", fmt.Sprintf("Set: %v", err))
					}
				}
				var cerr error
				if rng.Intn(4) == 0 {
					done := make(chan error, 1)
					txn.CommitWith(func(e error) { done <- e })
					cerr = <-done
				} else {
					cerr = txn.Commit()
				}
				if cerr != nil {
					// blind writes cannot conflict
					fails.add("[pipe-commit-error]", fmt.Sprintf("Commit of a blind-write transaction: %v", cerr))
					continue
				}
				commitsOK.Add(1)
				// acknowledged: a transaction started now must see this commit or a later one
				seen, _, ok := readGroup(db, g, k, false, fails, fmt.Sprintf("committer %d after ack of %s", c, own))
				if ok {
					if seen == "" {
						fails.add("[acked-not-visible]", fmt.Sprintf("committer %d: Commit of %s returned nil but a transaction started afterwards sees nothing in group %d", c, own, g))
					} else {
						ackMu.Lock()
						acks = append(acks, ackObs{own, seen})
						ackMu.Unlock()
					}
				}
			}
		}(c)
	}
	var rwg sync.WaitGroup
	for r := 0; r < readers; r++ {
		rwg.Add(1)
		go func(r int) {
			defer rwg.Done()
			rng := rand.New(rand.NewSource(seed*7 + int64(r)))
			last := make([]uint64, groups)
			for !stop.Load() {
				g := rng.Intn(groups)
				_, ver, ok := readGroup(db, g, k, rng.Intn(3) == 0, fails, fmt.Sprintf("reader %d", r))
				if ok {
					if ver < last[g] {
						fails.add("[version-went-back]", fmt.Sprintf("reader %d: group %d version %d after %d", r, g, ver, last[g]))
					}
					last[g] = ver
				}
				readsDone.Add(1)
			}
		}(r)
	}
	finished := make(chan struct{})
	go func() { wg.Wait(); close(finished) }()
	select {
	case <-finished:
	case <-time.After(120 * time.Second):
		fails.add("[pipe-stuck]", "committers did not finish within 120 s")
		stop.Store(true)
		return "stuck", fails.msgs
	}
	stop.Store(true)
	rwg.Wait()
	if err := db.Close(); err != nil {
		fails.add("[pipe-close-error]", err.Error())
	}

	// ---- the value log: every entry in the order writeRequests handled it
	files, _ := filepath.Glob(filepath.Join(dir, "*.vlog"))
	sort.Strings(files)
	tagTs := map[string]uint64{}
	var prevTs uint64
	var prevTag string
	run := 0
	total := 0
	for fi, f := range files {
		data, err := os.ReadFile(f)
		if err != nil {
			fails.add("[pipe-vlog-error]", err.Error())
			continue
		}
		ents, _, _ := badger.VerifIterate(uint32(fi), data, nil, nil)
		for _, e := range ents {
			if len(e.Key) <= 8 || !strings.HasPrefix(string(e.Key), "g") {
				continue
			}
			ts := y.ParseTs(e.Key)
			tg, okT := pipeTagOf(e.Value)
			if !okT {
				continue
			}
			total++
			if old, dup := tagTs[tg]; dup && old != ts {
				fails.add("[apply-order]", fmt.Sprintf("transaction %s was written with two commit timestamps %d and %d", tg, old, ts))
			}
			tagTs[tg] = ts
			if ts < prevTs {
				fails.add("[channel-order]", fmt.Sprintf("value log: entry of %s (commit ts %d) was applied after an entry of %s (commit ts %d): write-channel order is not commit-timestamp order", tg, ts, prevTag, prevTs))
			}
			if tg == prevTag {
				run++
			} else {
				if prevTag != "" && run != k {
					fails.add("[apply-order]", fmt.Sprintf("value log: the %d entries of transaction %s are not contiguous (run of %d)", k, prevTag, run))
				}
				run = 1
			}
			prevTs, prevTag = ts, tg
		}
	}
	if prevTag != "" && run != k {
		fails.add("[apply-order]", fmt.Sprintf("value log: the %d entries of transaction %s are not contiguous (run of %d)", k, prevTag, run))
	}
	if int64(len(tagTs)) != commitsOK.Load() {
		fails.add("[lost-commit]", fmt.Sprintf("%d commits acknowledged, %d transactions found in the value log", commitsOK.Load(), len(tagTs)))
	}
	// distinct commit timestamps
	byTs := map[uint64]string{}
	for tg, ts := range tagTs {
		if o, dup := byTs[ts]; dup {
			fails.add("[commit-ts]", fmt.Sprintf("transactions %s and %s share commit timestamp %d", o, tg, ts))
		}
		byTs[ts] = tg
	}
	// visibility after acknowledgement
	for _, a := range acks {
		o, ok1 := tagTs[a.own]
		s, ok2 := tagTs[a.seen]
		if ok1 && ok2 && s < o {
			fails.add("[acked-not-visible]", fmt.Sprintf("Commit of %s (ts %d) had returned, yet a transaction started afterwards saw %s (ts %d)", a.own, o, a.seen, s))
		}
	}
	st.Inc("pipe:cases")
	st.Hist["pipe:commits"] += int(commitsOK.Load())
	st.Hist["pipe:reads"] += int(readsDone.Load())
	st.Hist["pipe:vlog-entries"] += total
	return fmt.Sprintf("done commits=%d", commitsOK.Load()), fails.msgs
}
