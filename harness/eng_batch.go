package main

// Engines "batch" (WriteBatch, C27), "seq" (Sequence, C30) and "mergeop" (MergeOperator, C31):
// a real *badger.DB driven deterministically (no background compactors, explicit flush and
// compaction through the hooks of the `mvcc` engine), compared with the Lean models
// BadgerModel/{Batch,Sequence,MergeOp}.lean (driver bmd_misc) and judged by the naive specs
// written here (fold with later-op-wins; pairwise distinct / increasing numbers; fold of Adds).

import (
	"bytes"
	"encoding/binary"
	"errors"
	"fmt"
	"io"
	"math"
	"math/rand"
	"os"
	"path/filepath"
	"runtime"
	"sort"
	"strconv"
	"strings"
	"time"

	badger "github.com/dgraph-io/badger/v4"
	"github.com/dgraph-io/badger/v4/options"
	"github.com/dgraph-io/badger/v4/y"
)

func init() {
	engines["batch"] = &Engine{Gen: genBatch, ExecX: execBatch}
	engines["seq"] = &Engine{Gen: genSeq, ExecX: execSeq}
	engines["mergeop"] = &Engine{Gen: genMergeop, ExecX: execMergeop}
}

// ---------------------------------------------------------------- shared: opening a database

// openMisc opens (or re-opens, when dir != "") a database with the deterministic option set of
// the mvcc engine plus a configurable memtable size (small memtables give small
// maxBatchCount/maxBatchSize, i.e. frequent internal splits of a WriteBatch). It fills the
// mvSess fields the mvcc helpers (dump, compact, judge*) rely on and returns the canonical
// reset line understood by the Lean `reset` parser.
func openMisc(s *mvSess, kv map[string]string, dir string, extra string) (string, error) {
	s.managed = kvInt(kv, "managed", 0) != 0
	s.keep = kvInt(kv, "keep", 1)
	s.thr = kvInt(kv, "thr", 32)
	s.inmem = false
	s.levels = kvInt(kv, "levels", 7)
	memsz := kvInt(kv, "memsz", 1<<20)
	tblsz := kvInt(kv, "tblsz", 2<<20)
	basesz := kvInt(kv, "basesz", 10<<20)
	if dir == "" {
		dir = scratchDir()
	}
	s.dir = dir
	opt := badger.DefaultOptions(dir).WithLoggingLevel(badger.ERROR).WithNumCompactors(0).
		WithNumLevelZeroTables(100).WithNumLevelZeroTablesStall(200).
		WithNumVersionsToKeep(s.keep).WithValueThreshold(int64(s.thr)).WithMaxLevels(s.levels).
		WithMemTableSize(int64(memsz)).WithCompactL0OnClose(false).WithDetectConflicts(true).
		WithBaseTableSize(int64(tblsz)).WithBaseLevelSize(int64(basesz)).WithBlockSize(256).
		WithMetricsEnabled(false).WithValueLogFileSize(1 << 20).WithLevelSizeMultiplier(2).
		WithCompression(options.None).WithBlockCacheSize(1 << 20).WithIndexCacheSize(0)
	var err error
	if s.managed {
		s.db, err = badger.OpenManaged(opt)
	} else {
		s.db, err = badger.Open(opt)
	}
	if err != nil {
		return "", err
	}
	s.now = uint64(time.Now().Unix())
	s.txns = map[int]*mvTxn{}
	s.spec = newSpec()
	s.lastCts = 0
	mc, ms, _ := badger.VerifLimits(s.db)
	line := fmt.Sprintf("reset managed=%d keep=%d thr=%d inmem=0 levels=%d detect=1 memsz=%d tblsz=%d basesz=%d comp=0 now=%d maxcount=%d maxsize=%d vlogsz=%d",
		b2i(s.managed), s.keep, s.thr, s.levels, memsz, tblsz, basesz, s.now, mc, ms, 1<<20)
	if extra != "" {
		line += " " + extra
	}
	return line, nil
}

// logicalEnts: every stored entry a reader can reach, i.e. all sources in read-precedence order
// (memtable, immutable memtables newest first, L0 newest first, deeper levels), the first copy
// of a (key, version) wins; sorted by key ascending, version descending.
func logicalEnts(db *badger.DB) []badger.VEntry {
	seen := map[string]bool{}
	var out []badger.VEntry
	add := func(es []badger.VEntry) {
		for _, e := range es {
			var vb [8]byte
			binary.BigEndian.PutUint64(vb[:], e.Version)
			k := string(e.Key) + "\x00" + string(vb[:])
			if !seen[k] {
				seen[k] = true
				out = append(out, e)
			}
		}
	}
	for _, m := range badger.VerifMemEntries(db) {
		add(m)
	}
	lv := badger.VerifLevels(db)
	if len(lv) > 0 {
		for i := len(lv[0]) - 1; i >= 0; i-- {
			add(lv[0][i].Entries)
		}
		for _, l := range lv[1:] {
			for _, t := range l {
				add(t.Entries)
			}
		}
	}
	sort.SliceStable(out, func(i, j int) bool {
		c := bytes.Compare(out[i].Key, out[j].Key)
		if c != 0 {
			return c < 0
		}
		return out[i].Version > out[j].Version
	})
	return out
}

func fmtScan(es []badger.VEntry) string {
	var p []string
	for _, e := range es {
		p = append(p, fmtVEntry(e))
	}
	return "ents " + strings.Join(p, ",")
}

func miscErrKind(err error) string {
	switch {
	case err == nil:
		return "ok"
	case err == y.ErrCommitAfterFinish:
		return "err:commitafterfinish"
	case errors.Is(err, badger.ErrTxnTooBig):
		return "err:txntoobig" // also the wrapped form Flush builds from wb.err and throttle.Finish

	case strings.HasPrefix(err.Error(), "SetEntryAt can only be used in managed mode"):
		return "err:setentryat-unmanaged"
	}
	return errKind(err)
}

// ================================================================ engine "batch" (C27)

type wbOp struct {
	key     []byte
	rawVer  uint64
	del     bool
	discard bool
	umeta   byte
	exp     uint64
	val     []byte
	seg     int
	segID   int
	idx     int
}

type wbSeg struct {
	id        int // unique within the session
	cts       uint64
	committed bool
}

type wantEnt struct {
	op wbOp
}

func (o wbOp) sameAs(e badger.VEntry) bool {
	if (e.Meta&1 != 0) != o.del || (e.Meta&4 != 0) != o.discard {
		return false
	}
	if o.del {
		return true
	}
	return e.UserMeta == o.umeta && e.ExpiresAt == o.exp && bytes.Equal(e.Value, o.val)
}

func (o wbOp) String() string {
	if o.del {
		return fmt.Sprintf("op#%d delete(%s)@raw%d", o.idx, hx(o.key), o.rawVer)
	}
	return fmt.Sprintf("op#%d set(%s=%s)@raw%d", o.idx, hx(o.key), hx(o.val), o.rawVer)
}

type batchSess struct {
	mvSess
	wb      *badger.WriteBatch
	wbCts   uint64
	ops     []wbOp
	segs    []wbSeg
	nops    int
	nsegs   int
	opErr   bool            // some operation of the current batch was refused
	want    map[string]wbOp // (key,version) -> last op, for the whole session
	history map[string][]wbOp
}

func kvKey(k []byte, ver uint64) string {
	var vb [8]byte
	binary.BigEndian.PutUint64(vb[:], ver)
	return string(k) + "\x00" + string(vb[:])
}

func execBatch(intents []string, st *Stats) (final, outs, oracle []string) {
	s := &batchSess{}
	s.st = st
	defer func() { s.close() }()
	emit := func(op, out string) {
		final = append(final, op)
		outs = append(outs, out)
	}
	fail := func(tag, msg string) {
		oracle = append(oracle, fmt.Sprintf("line %d: %s :: [%s] %s", len(final), final[len(final)-1], tag, msg))
	}
	// closeSeg: the current internal transaction was committed (by a split or by Flush)
	closeSeg := func(committed bool) {
		cur := &s.segs[len(s.segs)-1]
		n := 0
		for _, o := range s.ops {
			if o.seg == len(s.segs)-1 {
				n++
			}
		}
		if s.managed {
			cur.cts = s.wbCts
		} else if n > 0 {
			cur.cts = badger.VerifNextTxnTs(s.db) - 1
		}
		cur.committed = committed
		s.nsegs++
		s.segs = append(s.segs, wbSeg{id: s.nsegs})
	}
	// apply the committed internal transactions to the expectation, in issue order
	settle := func(keepOpen bool) {
		var rest []wbOp
		for _, o := range s.ops {
			sg := s.segs[o.seg]
			if !sg.committed {
				if keepOpen && o.seg == len(s.segs)-1 {
					o.seg = 0
					rest = append(rest, o)
				}
				continue
			}
			ver := o.rawVer
			if ver == 0 {
				ver = sg.cts
			}
			k := kvKey(o.key, ver)
			s.want[k] = o
			s.history[k] = append(s.history[k], o)
		}
		if keepOpen && len(s.segs) > 0 {
			s.ops, s.segs = rest, []wbSeg{s.segs[len(s.segs)-1]}
		} else {
			s.ops, s.segs = nil, nil
		}
	}
	// judge: the database holds, for every (key, version) ever written, the last operation
	judge := func() {
		have := map[string]badger.VEntry{}
		for _, e := range logicalEnts(s.db) {
			have[kvKey(e.Key, e.Version)] = e
		}
		var keys []string
		for k := range s.want {
			keys = append(keys, k)
		}
		sort.Strings(keys)
		for _, k := range keys {
			o := s.want[k]
			ver := binary.BigEndian.Uint64([]byte(k[len(k)-8:]))
			e, ok := have[k]
			if !ok {
				fail("C27-last-wins", fmt.Sprintf("key %s version %d: %s was issued and the flush succeeded, but the database has no such entry", hx(o.key), ver, o))
				return
			}
			if !o.sameAs(e) {
				// which earlier operation does the stored entry come from?
				tag := "C27-last-wins"
				from := "no operation of the batch"
				hs := s.history[k]
				for i := len(hs) - 2; i >= 0; i-- {
					if hs[i].sameAs(e) {
						from = hs[i].String()
						if hs[i].segID == o.segID {
							// an older write of the same (key, version) inside the same internal
							// transaction survived (the duplicateWrites / pendingWrites order of
							// commitAndSend: finding F8, fixed by commit 2dbbdab)
							from += " in the same internal transaction"
						}
						break
					}
				}
				fail(tag, fmt.Sprintf("key %s version %d holds %s (from %s); the last operation on it was %s", hx(o.key), ver, fmtVEntry(e), from, o))
				return
			}
		}
		for k, e := range have {
			if _, ok := s.want[k]; !ok && !bytes.HasPrefix(e.Key, []byte("!badger!")) {
				fail("C27-last-wins", fmt.Sprintf("the database holds %s which no committed operation wrote", fmtVEntry(e)))
				return
			}
		}
	}
	for _, line := range intents {
		w := strings.Fields(line)
		if len(w) == 0 {
			continue
		}
		progress(line)
		if w[0] != "reset" && s.db == nil {
			emit(line, "bad-op")
			continue
		}
		st.Inc("op:" + w[0])
		switch w[0] {
		case "reset":
			if s.wb != nil {
				s.wb.Cancel()
				s.wb = nil
			}
			s.close()
			op, err := openMisc(&s.mvSess, kvWords(w[1:]), "", "")
			if err != nil {
				emit(line, "err:open:"+err.Error())
				s.db = nil
				continue
			}
			s.want = map[string]wbOp{}
			s.history = map[string][]wbOp{}
			s.ops, s.segs = nil, nil
			emit(op, "ok")
		case "wb-new":
			if s.wb != nil {
				s.wb.Cancel()
				settle(false)
			}
			cts := uint64(0)
			if len(w) > 2 {
				cts = atou(w[2])
			}
			out := safely(func() string {
				switch w[1] {
				case "normal":
					s.wb = s.db.NewWriteBatch()
				case "at":
					s.wb = s.db.NewWriteBatchAt(cts)
				case "managed":
					s.wb = s.db.NewManagedWriteBatch()
				default:
					return "bad-op"
				}
				return "ok"
			})
			if out != "ok" {
				s.wb = nil
			} else {
				s.wbCts = 0
				s.opErr = false
				if w[1] == "at" {
					s.wbCts = cts
				}
				s.ops = nil
				s.nsegs++
				s.segs = []wbSeg{{id: s.nsegs}}
			}
			if len(w) < 3 {
				line = line + " 0"
			}
			emit(line, out)
		case "wb-set", "wb-setentry", "wb-setat", "wb-del", "wb-delat":
			if s.wb == nil {
				emit(line, "bad-op")
				continue
			}
			var op wbOp
			var err error
			before := badger.VerifWBTxn(s.wb)
			switch w[0] {
			case "wb-set":
				op = wbOp{key: unhx(w[1]), val: unhx(w[2])}
				err = s.wb.Set(op.key, op.val)
			case "wb-setentry", "wb-setat":
				op = wbOp{key: unhx(w[1]), val: unhx(w[2])}
				um, _ := strconv.Atoi(w[3])
				op.umeta = byte(um)
				op.exp = atou(w[4])
				m, _ := strconv.Atoi(w[5])
				e := badger.NewEntry(op.key, op.val).WithMeta(op.umeta)
				if m&4 != 0 {
					e = e.WithDiscard()
					op.discard = true
				}
				e.ExpiresAt = op.exp
				if w[0] == "wb-setat" {
					op.rawVer = atou(w[6])
					err = s.wb.SetEntryAt(e, op.rawVer)
				} else {
					err = s.wb.SetEntry(e)
				}
			case "wb-del":
				op = wbOp{key: unhx(w[1]), del: true}
				err = s.wb.Delete(op.key)
			case "wb-delat":
				op = wbOp{key: unhx(w[1]), del: true, rawVer: atou(w[2])}
				err = s.wb.DeleteAt(op.key, op.rawVer)
			}
			after := badger.VerifWBTxn(s.wb)
			out := miscErrKind(err)
			if after != before {
				out += " split"
				st.Inc("split")
				closeSeg(err == nil) // a commit that failed (sticky error) wrote nothing
			}
			if errors.Is(err, badger.ErrTxnTooBig) && !s.opErr {
				// C28: ErrTxnTooBig is legitimate only for an entry that does not fit an empty
				// transaction; here every earlier operation of the batch was accepted
				_, maxSize, _ := badger.VerifLimits(s.db)
				if int64(len(op.key)+len(op.val)+64) < maxSize {
					fail("C28-accepted-toobig", fmt.Sprintf("%s on key %s answered ErrTxnTooBig although the entry fits an empty transaction and all %d earlier operations of the batch were accepted", w[0], hx(op.key), len(s.ops)))
				}
			}
			if err != nil {
				s.opErr = true
			}
			if err == nil {
				s.nops++
				op.idx = s.nops
				op.seg = len(s.segs) - 1
				op.segID = s.segs[op.seg].id
				s.ops = append(s.ops, op)
			}
			emit(line, out)
		case "wb-flush":
			if s.wb == nil {
				emit(line, "bad-op")
				continue
			}
			_, _, fin := badger.VerifWBFlags(s.wb)
			before := badger.VerifWBTxn(s.wb)
			err := s.wb.Flush()
			_, _ = fin, before
			if err == nil {
				closeSeg(true) // the last internal transaction went through commit()
			}
			emit(line, miscErrKind(err))
			if err == nil {
				st.Inc(fmt.Sprintf("flush-ok:segs=%d", len(s.segs)-1))
				settle(false)
				emit("scan", fmtScan(logicalEnts(s.db)))
				judge()
			} else {
				st.Inc("flush-err")
				if errors.Is(err, badger.ErrTxnTooBig) && !s.opErr {
					fail("C28-accepted-toobig", fmt.Sprintf("Flush answered ErrTxnTooBig although all %d operations of the batch were accepted", len(s.ops)))
				}
				settle(true) // what earlier splits committed stays committed
			}
		case "wb-cancel":
			if s.wb == nil {
				emit(line, "bad-op")
				continue
			}
			s.wb.Cancel()
			emit(line, "ok")
			settle(false)
			emit("scan", fmtScan(logicalEnts(s.db)))
			judge()
		case "scan":
			continue // emitted automatically
		case "flush":
			err := badger.VerifFlush(s.db)
			emit(line, errKind(err))
			emit("scan", fmtScan(logicalEnts(s.db)))
			judge()
		default:
			emit(line, "bad-op")
		}
	}
	if s.wb != nil {
		s.wb.Cancel()
		s.wb = nil
	}
	return
}

func genBatch(rng *rand.Rand, n int, st *Stats) []string {
	var ops []string
	for c := 0; c < n; c++ {
		ops = append(ops, genBatchSession(rng, st)...)
	}
	return ops
}

// genBatchLimitSession (C28 / C27): a managed batch that writes ONE key at 2-4x maxBatchCount
// distinct versions (every overwritten entry moves to duplicateWrites and is still sent with the
// transaction, so it must keep counting against the batch limits), mixed with a few other keys;
// Flush must succeed and every version must read back.
func genBatchLimitSession(rng *rand.Rand, st *Stats) []string {
	memsz := pick(rng, 65536, 65536, 32768) // maxBatchCount about 102 / 51
	var ops []string
	ops = append(ops, fmt.Sprintf("reset managed=1 keep=1000 thr=32 memsz=%d", memsz))
	limit := 102
	if memsz == 32768 {
		limit = 51
	}
	n := limit*2 + rng.Intn(limit*2)
	kind, cts := "managed", 0
	if rng.Intn(3) == 0 {
		kind, cts = "at", 100000+rng.Intn(5)
	}
	ops = append(ops, fmt.Sprintf("wb-new %s %d", kind, cts))
	st.Inc(fmt.Sprintf("limit-session:kind=%s,memsz=%d", kind, memsz))
	key := genUserKey(rng, 1, 3)
	others := [][]byte{[]byte("o1"), []byte("o2"), []byte("o3")}
	vers := rng.Perm(n)
	if rng.Intn(2) == 0 { // increasing versions
		for i := range vers {
			vers[i] = i
		}
	}
	for i := 0; i < n; i++ {
		ver := vers[i] + 1
		v := make([]byte, rng.Intn(10))
		rng.Read(v)
		r := rng.Intn(100)
		switch {
		case r < 8:
			ops = append(ops, fmt.Sprintf("wb-setat %s %s %d 0 0 %d", hx(others[rng.Intn(len(others))]), hx(v), rng.Intn(256), ver))
		case r < 15:
			ops = append(ops, fmt.Sprintf("wb-delat %s %d", hx(key), ver))
		default:
			ops = append(ops, fmt.Sprintf("wb-setat %s %s %d 0 0 %d", hx(key), hx(v), rng.Intn(256), ver))
		}
	}
	ops = append(ops, "wb-flush")
	return ops
}

func genBatchSession(rng *rand.Rand, st *Stats) []string {
	if params["scenario"] == "limit" || (params["scenario"] == "" && rng.Intn(15) == 0) {
		return genBatchLimitSession(rng, st)
	}
	managed := rng.Intn(2) == 0
	if params["managed"] != "" {
		managed = params["managed"] == "1"
	}
	memsz := pick(rng, 16384, 16384, 32768)
	thr := pick(rng, 16, 64, 2000)
	var ops []string
	ops = append(ops, fmt.Sprintf("reset managed=%d keep=1000 thr=%d memsz=%d", b2i(managed), thr, memsz))
	nkeys := 1 + rng.Intn(5)
	var keys [][]byte
	for len(keys) < nkeys {
		keys = append(keys, genUserKey(rng, 1, 3))
	}
	nb := 1 + rng.Intn(3)
	filler := 0
	for b := 0; b < nb; b++ {
		kind := "normal"
		cts := uint64(0)
		if managed {
			if rng.Intn(2) == 0 {
				kind = "at"
				cts = uint64(1 + rng.Intn(6))
				if rng.Intn(10) == 0 {
					cts = 0
				}
			} else {
				kind = "managed"
			}
		}
		if rng.Intn(25) == 0 { // wrong constructor for the mode: panics
			kind = pick(rng, "normal", "at", "managed")
		}
		ops = append(ops, fmt.Sprintf("wb-new %s %d", kind, cts))
		// clash-free sessions keep, per key, the explicit versions non-decreasing, so that equal
		// versions are contiguous; free sessions repeat (key, version) pairs in any pattern (the
		// scenario of finding F8: duplicateWrites against pendingWrites)
		free := rng.Intn(2) == 0
		if params["free"] != "" {
			free = params["free"] == "1"
		}
		st.Inc(fmt.Sprintf("batch:managed=%v,kind=%s,free=%v", managed, kind, free))
		lastVer := map[string]uint64{}
		nops := pick(rng, 3, 8, 20, 60, 150)
		nops = 1 + rng.Intn(nops)
		for i := 0; i < nops; i++ {
			k := keys[rng.Intn(len(keys))]
			if rng.Intn(3) == 0 { // distinct filler keys: they fill the internal transaction
				filler++
				k = []byte(fmt.Sprintf("f%04d", filler))
			}
			var v []byte
			switch rng.Intn(8) {
			case 0:
				v = []byte{}
			case 1:
				v = make([]byte, thr-1)
				rng.Read(v)
			case 2:
				v = make([]byte, thr)
				rng.Read(v)
			default:
				v = make([]byte, 1+rng.Intn(12))
				rng.Read(v)
			}
			if rng.Intn(60) == 0 {
				k = pick(rng, []byte{}, []byte("!badger!x"))
			}
			ver := uint64(0)
			explicit := managed && (kind == "managed" || rng.Intn(2) == 0)
			if explicit {
				ver = uint64(1 + rng.Intn(5))
				if kind == "at" && rng.Intn(3) == 0 {
					ver = cts
				}
				if ver == 0 {
					explicit = false
				}
			}
			if managed && !free {
				// effective version: non-decreasing per key, and one raw spelling per effective
				// version (raw 0 for the batch's own commit timestamp)
				eff := ver
				if !explicit {
					eff = cts
				}
				if eff < lastVer[string(k)] {
					eff = lastVer[string(k)]
				}
				lastVer[string(k)] = eff
				if eff == cts {
					ver, explicit = 0, false
				} else {
					ver, explicit = eff, true
				}
			}
			r := rng.Intn(100)
			switch {
			case r < 15:
				if explicit {
					ops = append(ops, fmt.Sprintf("wb-delat %s %d", hx(k), ver))
				} else {
					ops = append(ops, fmt.Sprintf("wb-del %s", hx(k)))
				}
			case explicit || r < 35:
				um := rng.Intn(256)
				m := 0
				if rng.Intn(6) == 0 {
					m = 4
				}
				exp := uint64(0)
				if rng.Intn(8) == 0 {
					exp = uint64(time.Now().Unix()) + 100000
				}
				if explicit {
					ops = append(ops, fmt.Sprintf("wb-setat %s %s %d %d %d %d", hx(k), hx(v), um, exp, m, ver))
				} else {
					ops = append(ops, fmt.Sprintf("wb-setentry %s %s %d %d %d", hx(k), hx(v), um, exp, m))
				}
			default:
				ops = append(ops, fmt.Sprintf("wb-set %s %s", hx(k), hx(v)))
			}
			if !managed && rng.Intn(200) == 0 {
				ops = append(ops, fmt.Sprintf("wb-setat %s %s 0 0 0 %d", hx(k), hx(v), 1+rng.Intn(5)))
			}
		}
		switch rng.Intn(12) {
		case 0:
			ops = append(ops, "wb-cancel")
		case 1:
			ops = append(ops, "wb-flush", "wb-flush", fmt.Sprintf("wb-set %s 01", hx(keys[0])))
		default:
			ops = append(ops, "wb-flush")
		}
		if rng.Intn(4) == 0 {
			ops = append(ops, "flush")
		}
	}
	return ops
}

// ================================================================ engine "seq" (C30)

type seqHand struct {
	id      int
	val     uint64
	phantom bool
}

type seqSess struct {
	mvSess
	key      []byte
	objs     map[int]*badger.Sequence
	phantom  map[int]bool // object holds a lease whose transaction was refused (never persisted)
	tainted  bool         // a phantom-lease object released (may have rolled the stored lease back)
	handed   []seqHand
	lastBy   map[int]uint64
	hasLast  map[int]bool
	kvOpen   map[string]string
	lastPhan map[int]bool
}

func (s *seqSess) stored() string {
	var out string
	err := s.db.View(func(txn *badger.Txn) error {
		it, err := txn.Get(s.key)
		if err == badger.ErrKeyNotFound {
			out = "stored=none"
			return nil
		}
		if err != nil {
			return err
		}
		v, err := it.ValueCopy(nil)
		if err != nil {
			return err
		}
		if len(v) != 8 {
			out = "stored=bad:" + hx(v)
			return nil
		}
		out = fmt.Sprintf("stored=%d", binary.BigEndian.Uint64(v))
		return nil
	})
	if err != nil {
		return "err:" + err.Error()
	}
	return out
}

func countBlockedInGet() int {
	buf := make([]byte, 1<<20)
	n := runtime.Stack(buf, true)
	return strings.Count(string(buf[:n]), "badger/v4.(*DB).getMemTables(")
}

func copyDir(src, dst string) error {
	return filepath.Walk(src, func(p string, info os.FileInfo, err error) error {
		if err != nil {
			return err
		}
		rel, _ := filepath.Rel(src, p)
		t := filepath.Join(dst, rel)
		if info.IsDir() {
			return os.MkdirAll(t, 0o755)
		}
		in, err := os.Open(p)
		if err != nil {
			return err
		}
		defer in.Close()
		out, err := os.Create(t)
		if err != nil {
			return err
		}
		defer out.Close()
		_, err = io.Copy(out, in)
		return err
	})
}

func execSeq(intents []string, st *Stats) (final, outs, oracle []string) {
	s := &seqSess{}
	s.st = st
	defer func() { s.close() }()
	emit := func(op, out string) {
		final = append(final, op)
		outs = append(outs, out)
	}
	fail := func(tag, msg string) {
		oracle = append(oracle, fmt.Sprintf("line %d: %s :: [%s] %s", len(final), final[len(final)-1], tag, msg))
	}
	// record one successful Next and judge uniqueness / monotonicity
	hand := func(id int, v uint64) {
		ph := s.phantom[id]
		for _, h := range s.handed {
			if h.val == v {
				note := ""
				if h.phantom || ph || s.tainted {
					// a lease transaction of one of the two objects was refused earlier: the
					// signature of finding F9 (fixed by commit 54a0fc5)
					note = " (after a refused lease transaction)"
				}
				fail("C30-unique", fmt.Sprintf("number %d handed out by object %d was already handed out by object %d%s", v, id, h.id, note))
				break
			}
		}
		if s.hasLast[id] && v <= s.lastBy[id] {
			fail("C30-monotone", fmt.Sprintf("object %d handed out %d after %d", id, v, s.lastBy[id]))
		}
		s.handed = append(s.handed, seqHand{id, v, ph})
		s.lastBy[id], s.hasLast[id], s.lastPhan[id] = v, true, ph
	}
	dropObjs := func() {
		s.objs = map[int]*badger.Sequence{}
		s.phantom = map[int]bool{}
	}
	for _, line := range intents {
		w := strings.Fields(line)
		if len(w) == 0 {
			continue
		}
		progress(line)
		if w[0] != "reset" && s.db == nil {
			emit(line, "bad-op")
			continue
		}
		st.Inc("op:" + w[0])
		switch w[0] {
		case "reset":
			s.close()
			kv := kvWords(w[1:])
			s.kvOpen = kv
			s.key = []byte("seq")
			if k, ok := kv["key"]; ok {
				s.key = unhx(k)
			}
			_, err := openMisc(&s.mvSess, kv, "", "")
			if err != nil {
				emit(line, "err:open:"+err.Error())
				s.db = nil
				continue
			}
			dropObjs()
			s.handed, s.tainted = nil, false
			s.lastBy, s.hasLast, s.lastPhan = map[int]uint64{}, map[int]bool{}, map[int]bool{}
			emit(fmt.Sprintf("reset old=0 key=%s", hx(s.key)), "ok")
		case "new":
			id, _ := strconv.Atoi(w[1])
			bw := atou(w[2])
			if _, dup := s.lastBy[id]; dup || s.objs[id] != nil || bw == 0 {
				emit(line, "bad-op")
				continue
			}
			seq, err := s.db.GetSequence(s.key, bw)
			if err != nil {
				emit(line, miscErrKind(err))
				continue
			}
			s.objs[id] = seq
			s.lastBy[id] = 0
			nx, ls := badger.VerifSeqState(seq)
			emit(line, fmt.Sprintf("ok next=%d leased=%d", nx, ls))
		case "next":
			id, _ := strconv.Atoi(w[1])
			seq := s.objs[id]
			if seq == nil {
				emit(line, "bad-op")
				continue
			}
			nx, ls := badger.VerifSeqState(seq)
			renew := nx >= ls
			v, err := seq.Next()
			if err != nil {
				emit(line, miscErrKind(err))
				continue
			}
			if renew {
				s.phantom[id] = false
			}
			emit(line, fmt.Sprintf("ok %d", v))
			hand(id, v)
		case "race":
			// every listed object calls Next concurrently; those that need a new lease are held
			// (db.lock) after their transactions obtained the read timestamp, so that all lease
			// transactions overlap: SSI lets exactly one of them commit.
			var ids []int
			for _, p := range w[1:] {
				id, _ := strconv.Atoi(strings.SplitN(p, ":", 2)[0])
				if s.objs[id] == nil {
					ids = nil
					break
				}
				ids = append(ids, id)
			}
			if len(ids) == 0 {
				emit(line, "bad-op")
				continue
			}
			need := 0
			renews := map[int]bool{}
			for _, id := range ids {
				nx, ls := badger.VerifSeqState(s.objs[id])
				if nx >= ls {
					need++
					renews[id] = true
				}
			}
			type res struct {
				v   uint64
				err error
			}
			chans := map[int]chan res{}
			release := badger.VerifHoldDBLock(s.db)
			for _, id := range ids {
				ch := make(chan res, 1)
				chans[id] = ch
				go func(seq *badger.Sequence) {
					v, err := seq.Next()
					ch <- res{v, err}
				}(s.objs[id])
			}
			deadline := time.Now().Add(3 * time.Second)
			for countBlockedInGet() < need && time.Now().Before(deadline) {
				time.Sleep(100 * time.Microsecond)
			}
			release()
			var parts, ro []string
			results := map[int]res{}
			for _, id := range ids {
				results[id] = <-chans[id]
			}
			for _, id := range ids {
				r := results[id]
				if r.err == nil {
					parts = append(parts, fmt.Sprintf("%d:ok", id))
					ro = append(ro, fmt.Sprintf("%d=ok:%d", id, r.v))
				} else {
					parts = append(parts, fmt.Sprintf("%d:%s", id, miscErrKind(r.err)))
					ro = append(ro, fmt.Sprintf("%d=%s", id, miscErrKind(r.err)))
				}
			}
			emit("race "+strings.Join(parts, " "), strings.Join(ro, " "))
			nconf := 0
			for _, id := range ids {
				r := results[id]
				if r.err == badger.ErrConflict {
					// updateLease assigned seq.next / seq.leased before the commit was refused
					s.phantom[id] = true
					nconf++
				} else if r.err == nil && renews[id] {
					s.phantom[id] = false
				}
			}
			st.Inc(fmt.Sprintf("race:renewing=%d,conflicts=%d", need, nconf))
			for _, id := range ids {
				if r := results[id]; r.err == nil {
					hand(id, r.v)
				}
			}
		case "release":
			id, _ := strconv.Atoi(w[1])
			seq := s.objs[id]
			if seq == nil {
				emit(line, "bad-op")
				continue
			}
			err := seq.Release()
			if err == nil && s.phantom[id] {
				s.tainted = true
			}
			if err == nil {
				s.phantom[id] = false
			}
			emit(line, miscErrKind(err))
		case "relrace":
			// Release ‖ Next on ONE object. Release is started first and parked inside its
			// transaction (db.lock held: its Txn.Get waits in getMemTables); then Next is called.
			// Both methods hold seq.lock for their whole body, so Next must wait for Release
			// (sched=blocked: it neither returns nor reaches its own transaction while Release
			// is parked). Any other schedule means the lock does not cover Release's transaction.
			id, _ := strconv.Atoi(w[1])
			seq := s.objs[id]
			if seq == nil {
				emit(line, "bad-op")
				continue
			}
			type nres struct {
				v   uint64
				err error
			}
			release := badger.VerifHoldDBLock(s.db)
			relCh := make(chan error, 1)
			go func() { relCh <- seq.Release() }()
			deadline := time.Now().Add(3 * time.Second)
			for countBlockedInGet() < 1 && time.Now().Before(deadline) {
				time.Sleep(100 * time.Microsecond)
			}
			nextCh := make(chan nres, 1)
			go func() {
				v, err := seq.Next()
				nextCh <- nres{v, err}
			}()
			sched := "blocked"
			var nr nres
			got := false
			wait := time.Now().Add(40 * time.Millisecond)
			for time.Now().Before(wait) && !got && sched == "blocked" {
				select {
				case nr = <-nextCh:
					got, sched = true, "free" // Next ran to completion while Release was parked
				default:
					if countBlockedInGet() >= 2 {
						sched = "free-parked" // Next reached its own transaction while Release was parked
					} else {
						time.Sleep(500 * time.Microsecond)
					}
				}
			}
			release()
			rerr := <-relCh
			if !got {
				nr = <-nextCh
			}
			if rerr == nil && s.phantom[id] {
				s.tainted = true
			}
			ns := miscErrKind(nr.err)
			if nr.err == nil {
				ns = fmt.Sprintf("ok:%d", nr.v)
			}
			emit(fmt.Sprintf("relrace %d sched=%s", id, sched), fmt.Sprintf("release=%s next=%s", miscErrKind(rerr), ns))
			st.Inc("relrace:" + sched)
			if sched != "blocked" {
				fail("C30-release-lock", fmt.Sprintf("Next on object %d ran (%s) while Release on the same object was inside its transaction: seq.lock does not cover Release's read-modify-write", id, sched))
			}
			if nr.err == nil {
				s.phantom[id] = false
				hand(id, nr.v)
			}
		case "state":
			id, _ := strconv.Atoi(w[1])
			seq := s.objs[id]
			if seq == nil {
				emit(line, "bad-op")
				continue
			}
			nx, ls := badger.VerifSeqState(seq)
			emit(line, fmt.Sprintf("next=%d leased=%d", nx, ls))
		case "stored":
			emit(line, s.stored())
		case "drop":
			id, _ := strconv.Atoi(w[1])
			delete(s.objs, id)
			delete(s.phantom, id)
			emit(line, "ok")
		case "reopen":
			dir := s.dir
			if err := s.db.Close(); err != nil {
				emit(line, "err:close:"+err.Error())
				s.db = nil
				continue
			}
			s.db = nil
			if _, err := openMisc(&s.mvSess, s.kvOpen, dir, ""); err != nil {
				emit(line, "err:open:"+err.Error())
				s.db = nil
				continue
			}
			dropObjs()
			emit(line, "ok")
		case "crash":
			// process crash: the files as the operating system holds them (no Close), opened afresh
			old := s.dir
			nd := scratchDir()
			if err := copyDir(old, nd); err != nil {
				emit(line, "err:copy:"+err.Error())
				continue
			}
			_ = s.db.Close()
			s.db = nil
			os.RemoveAll(old)
			if _, err := openMisc(&s.mvSess, s.kvOpen, nd, ""); err != nil {
				emit(line, "err:open:"+err.Error())
				s.db = nil
				continue
			}
			// recovery turns the replayed memtable into an L0 table in the background: wait for it
			_ = badger.VerifFlush(s.db)
			dropObjs()
			emit(line, "ok")
		default:
			emit(line, "bad-op")
		}
	}
	return
}

func genSeq(rng *rand.Rand, n int, st *Stats) []string {
	var ops []string
	for c := 0; c < n; c++ {
		ops = append(ops, genSeqSession(rng, st)...)
	}
	return ops
}

func genSeqSession(rng *rand.Rand, st *Stats) []string {
	var ops []string
	ops = append(ops, "reset old=0")
	// sessions with races see ErrConflict on lease transactions (the scenario of finding F9)
	races := rng.Intn(2) == 0
	if params["races"] != "" {
		races = params["races"] == "1"
	}
	st.Inc(fmt.Sprintf("session:races=%v", races))
	nextID := 1
	var live []int
	newObj := func() {
		bw := pick(rng, 1, 1, 2, 3, 5, 10)
		ops = append(ops, fmt.Sprintf("new %d %d", nextID, bw))
		live = append(live, nextID)
		nextID++
	}
	newObj()
	nops := 10 + rng.Intn(60)
	for i := 0; i < nops; i++ {
		if len(live) == 0 {
			newObj()
			continue
		}
		r := rng.Intn(100)
		switch {
		case r < 10 && len(live) < 5:
			newObj()
		case r < 55:
			id := live[rng.Intn(len(live))]
			for j := 0; j < 1+rng.Intn(4); j++ {
				ops = append(ops, fmt.Sprintf("next %d", id))
			}
		case r < 70 && races && len(live) >= 2:
			k := 2
			if len(live) >= 3 && rng.Intn(3) == 0 {
				k = 3
			}
			perm := rng.Perm(len(live))[:k]
			var ps []string
			for _, p := range perm {
				ps = append(ps, strconv.Itoa(live[p]))
			}
			ops = append(ops, "race "+strings.Join(ps, " "))
		case r < 75:
			ops = append(ops, fmt.Sprintf("release %d", live[rng.Intn(len(live))]))
		case r < 78:
			// Release and Next at the same time on one object, then keep using it
			id := live[rng.Intn(len(live))]
			ops = append(ops, fmt.Sprintf("relrace %d", id), fmt.Sprintf("next %d", id), fmt.Sprintf("next %d", id))
		case r < 84:
			ops = append(ops, fmt.Sprintf("state %d", live[rng.Intn(len(live))]))
		case r < 90:
			ops = append(ops, "stored")
		case r < 93:
			j := rng.Intn(len(live))
			ops = append(ops, fmt.Sprintf("drop %d", live[j]))
			live = append(live[:j], live[j+1:]...)
		case r < 97:
			ops = append(ops, "reopen")
			live = nil
		default:
			ops = append(ops, "crash")
			live = nil
		}
	}
	ops = append(ops, "stored")
	return ops
}

// ================================================================ engine "mergeop" (C31)

type mergeSess struct {
	mvSess
	key    []byte
	fname  string
	op     *badger.MergeOperator
	adds   [][]byte
	kvOpen map[string]string
}

func mergeFn(name string) badger.MergeFunc {
	if name == "add" {
		return func(a, b []byte) []byte {
			var x, yv uint64
			if len(a) >= 8 {
				x = binary.BigEndian.Uint64(a[len(a)-8:])
			} else {
				for _, c := range a {
					x = x<<8 | uint64(c)
				}
			}
			if len(b) >= 8 {
				yv = binary.BigEndian.Uint64(b[len(b)-8:])
			} else {
				for _, c := range b {
					yv = yv<<8 | uint64(c)
				}
			}
			var out [8]byte
			binary.BigEndian.PutUint64(out[:], x+yv)
			return out[:]
		}
	}
	return func(a, b []byte) []byte {
		out := make([]byte, 0, len(a)+len(b))
		out = append(out, a...)
		return append(out, b...)
	}
}

func (s *mergeSess) want() (string, bool) {
	if len(s.adds) == 0 {
		return "notfound", true
	}
	f := mergeFn(s.fname)
	acc := append([]byte{}, s.adds[0]...)
	for _, a := range s.adds[1:] {
		acc = f(acc, a)
	}
	return "val " + hx(acc), true
}

func execMergeop(intents []string, st *Stats) (final, outs, oracle []string) {
	s := &mergeSess{}
	s.st = st
	defer func() {
		if s.op != nil && s.db != nil {
			s.op.Stop()
		}
		s.close()
	}()
	emit := func(op, out string) {
		final = append(final, op)
		outs = append(outs, out)
	}
	fail := func(tag, msg string) {
		oracle = append(oracle, fmt.Sprintf("line %d: %s :: [%s] %s", len(final), final[len(final)-1], tag, msg))
	}
	newOp := func() {
		s.op = s.db.GetMergeOperator(s.key, mergeFn(s.fname), 24*time.Hour)
	}
	get := func(line string) {
		v, err := s.op.Get()
		var out string
		if err != nil {
			out = miscErrKind(err)
		} else {
			out = "val " + hx(v)
		}
		emit(line, out)
		if w, _ := s.want(); out != w {
			fail("C31-fold", fmt.Sprintf("Get returned %q; the merge function folded over the %d Adds so far gives %q", out, len(s.adds), w))
		}
	}
	for _, line := range intents {
		w := strings.Fields(line)
		if len(w) == 0 {
			continue
		}
		progress(line)
		if w[0] != "reset" && s.db == nil {
			emit(line, "bad-op")
			continue
		}
		st.Inc("op:" + w[0])
		switch w[0] {
		case "reset":
			if s.op != nil && s.db != nil {
				s.op.Stop()
				s.op = nil
			}
			s.close()
			kv := kvWords(w[1:])
			kv["managed"] = "0"
			s.kvOpen = kv
			s.key = []byte("mk")
			if k, ok := kv["mkey"]; ok {
				s.key = unhx(k)
			}
			s.fname = kv["f"]
			if s.fname != "add" {
				s.fname = "cat"
			}
			op, err := openMisc(&s.mvSess, kv, "", fmt.Sprintf("mkey=%s f=%s", hx(s.key), s.fname))
			if err != nil {
				emit(line, "err:open:"+err.Error())
				s.db = nil
				continue
			}
			s.adds = nil
			newOp()
			emit(op, "ok")
		case "madd":
			v := unhx(w[1])
			err := s.op.Add(v)
			badger.VerifSyncMarks(s.db)
			if err == nil {
				s.adds = append(s.adds, v)
			}
			emit(line, miscErrKind(err))
		case "mget":
			get(line)
			badger.VerifSyncMarks(s.db)
		case "mcompact":
			err := badger.VerifMergeCompact(s.op)
			badger.VerifSyncMarks(s.db)
			emit(line, miscErrKind(err))
		case "mstop":
			s.op.Stop()
			err := badger.VerifWriteBarrier(s.db)
			badger.VerifSyncMarks(s.db)
			newOp()
			emit(line, miscErrKind(err))
		case "put":
			k, v := unhx(w[1]), unhx(w[2])
			err := s.db.Update(func(txn *badger.Txn) error { return txn.Set(k, v) })
			badger.VerifSyncMarks(s.db)
			emit(line, miscErrKind(err))
		case "flush":
			// the new table's file id comes from the flush event badger reports (mvcc engine)
			badger.VerifTakeEvents()
			err := badger.VerifFlush(s.db)
			if err != nil {
				emit(line, errKind(err))
				continue
			}
			nb := len(final)
			s.emitEvents(emit, fail)
			if len(final) == nb {
				emit("flush id=0", "ok") // empty memtable: nothing was written
			}
			emit("dump", s.dump())
		case "compact", "compact-none":
			s.compact(kvWords(w[1:]), emit, fail)
		case "dump":
			continue
		case "nextts":
			emit(line, utoa(badger.VerifNextTxnTs(s.db)))
			continue
		case "reopen":
			// Stop runs one last merge compaction; Close flushes the memtable to level 0
			s.op.Stop()
			err := badger.VerifWriteBarrier(s.db)
			emit("mstop", miscErrKind(err))
			get("mget")
			dir := s.dir
			badger.VerifTakeEvents()
			if err := s.db.Close(); err != nil {
				emit(line, "err:close:"+err.Error())
				s.db = nil
				continue
			}
			s.db = nil
			if _, err := openMisc(&s.mvSess, s.kvOpen, dir, ""); err != nil {
				emit(line, "err:open:"+err.Error())
				s.db = nil
				continue
			}
			newOp()
			s.emitEvents(emit, fail) // Close wrote the memtable out as an L0 table
			emit(line, "ok")
			emit("dump", s.dump())
			emit("nextts", utoa(badger.VerifNextTxnTs(s.db)))
		default:
			emit(line, "bad-op")
			continue
		}
		// the property is about every moment: ask after every operation
		if s.db != nil && w[0] != "mget" && w[0] != "reset" {
			get("mget")
			badger.VerifSyncMarks(s.db)
		}
	}
	return
}

func genMergeop(rng *rand.Rand, n int, st *Stats) []string {
	var ops []string
	for c := 0; c < n; c++ {
		ops = append(ops, genMergeopSession(rng, st)...)
	}
	return ops
}

func genMergeopSession(rng *rand.Rand, st *Stats) []string {
	f := pick(rng, "cat", "add")
	if params["f"] != "" {
		f = params["f"]
	}
	keep := pick(rng, 1, 1, 2, 1000)
	thr := pick(rng, 16, 64)
	levels := pick(rng, 3, 4, 7)
	tblsz := pick(rng, 2<<20, 2048, 600)
	basesz := pick(rng, 10<<20, 4096, 1024)
	key := genUserKey(rng, 1, 3)
	var ops []string
	ops = append(ops, fmt.Sprintf("reset keep=%d thr=%d levels=%d tblsz=%d basesz=%d mkey=%s f=%s", keep, thr, levels, tblsz, basesz, hx(key), f))
	st.Inc(fmt.Sprintf("session:f=%s,keep=%d", f, keep))
	if rng.Intn(3) == 0 {
		ops = append(ops, "mget")
	}
	var others [][]byte
	for i := 0; i < 3; i++ {
		others = append(others, genUserKey(rng, 1, 3))
	}
	nops := 10 + rng.Intn(50)
	for i := 0; i < nops; i++ {
		r := rng.Intn(100)
		switch {
		case r < 38:
			var v []byte
			if f == "add" {
				v = make([]byte, 8)
				switch rng.Intn(4) {
				case 0:
					binary.BigEndian.PutUint64(v, math.MaxUint64-uint64(rng.Intn(3)))
				case 1:
					binary.BigEndian.PutUint64(v, uint64(rng.Intn(10)))
				default:
					binary.BigEndian.PutUint64(v, rng.Uint64())
				}
			} else {
				v = make([]byte, rng.Intn(6))
				rng.Read(v)
				if rng.Intn(8) == 0 {
					v = make([]byte, thr+rng.Intn(3))
					rng.Read(v)
				}
			}
			ops = append(ops, "madd "+hx(v))
		case r < 50:
			ops = append(ops, "mget")
		case r < 62:
			ops = append(ops, "mcompact")
		case r < 65:
			ops = append(ops, "mstop")
		case r < 73:
			k := others[rng.Intn(len(others))]
			if bytes.Equal(k, key) {
				continue
			}
			v := make([]byte, rng.Intn(20))
			rng.Read(v)
			ops = append(ops, fmt.Sprintf("put %s %s", hx(k), hx(v)))
		case r < 84:
			ops = append(ops, "flush")
		case r < 96:
			// L0->Lbase and Li->Li+1 compactions (the production pickers); L0->L0 compactions
			// (adj in (0,1)) are left to the corpus: they are the subject of finding F2
			if rng.Intn(3) == 0 {
				ops = append(ops, fmt.Sprintf("compact this=0 id=%d adj=1.5", rng.Intn(2)))
			} else {
				ops = append(ops, fmt.Sprintf("compact pick=%d id=%d adj=%s", rng.Intn(16), 1, pick(rng, "1.5", "0")))
			}
		default:
			ops = append(ops, "reopen")
		}
	}
	ops = append(ops, "mget")
	return ops
}
