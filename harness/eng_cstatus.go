package main

// Engine "cstatus" (C14, C12: concurrently running compactions): the real compactStatus
// (compaction.go) — compareAndAdd, delete, overlapsWith, and the registration at the end of
// levelsController.fillTablesL0ToL0 — against lean/BadgerModel/CompactStatus.lean
// (driver lean/BadgerModel/Driver/CStatus.lean, exe bmd_aux cstatus). The two files are kept in step.
//
// Ops (one output line each):
//   reset <levels>
//   caa  <tl> <nl> <thisL> <thisR> <thisInf> <nextL> <nextR> <nextInf> <thisSize> <ids>   -> true|false <dump> | panic
//   del  <same>                                                                          -> ok <dump> | fatal
//   dell0  (delete of the newest L0->L0 registration)                                    -> as del | none
//   l0l0 <candidate ids>                                                                 -> false <dump> | true <picked> <dump>
//   ovl  <level> <L> <R> <inf>                                                           -> true|false|panic
//   rovl <L> <R> <inf> <L> <R> <inf>                                                     -> overlaps equals empty
// Oracles (judged on the implementation alone):
//   [cstatus-overlap-admitted]  compareAndAdd admitted a compaction although one of its proper ranges
//                               intersects, as a closed key interval, a proper range of a compaction in
//                               flight on the same level
//   [cstatus-leak]              after delete of every compaction in flight (production-shaped ones only)
//                               a range or a table id is still registered
//   [cstatus-shared-table]      fillTablesL0ToL0 picked a table that belongs to a compaction in flight

import (
	"bytes"
	"fmt"
	"math"
	"math/rand"
	"sort"
	"strconv"
	"strings"

	badger "github.com/dgraph-io/badger/v4"
	"github.com/dgraph-io/badger/v4/y"
)

func init() {
	engines["cstatus"] = &Engine{Gen: genCStatus, Exec: execCStatus}
}

type cstRange = badger.VerifRange

func cstRangeStr(r cstRange) string {
	i := 0
	if r.Inf {
		i = 1
	}
	return hx(r.Left) + ":" + hx(r.Right) + ":" + strconv.Itoa(i)
}

func cstDump(v *badger.VerifCStatus) string {
	var ls []string
	for l := 0; l < v.Levels(); l++ {
		var rs []string
		for _, r := range v.Ranges(l) {
			rs = append(rs, cstRangeStr(r))
		}
		ls = append(ls, fmt.Sprintf("%s/%d", strings.Join(rs, ";"), v.DelSize(l)))
	}
	ts := v.Tables()
	sort.Slice(ts, func(i, j int) bool { return ts[i] < ts[j] })
	t := "-"
	if len(ts) > 0 {
		var s []string
		for _, id := range ts {
			s = append(s, utoa(id))
		}
		t = strings.Join(s, ",")
	}
	return "[" + strings.Join(ls, "|") + "] t=" + t
}

func cstParseRange(a, b, c string) cstRange {
	return cstRange{Left: unhx(a), Right: unhx(b), Inf: c != "0"}
}

func cstParseIds(s string) []uint64 {
	if s == "-" {
		return nil
	}
	var out []uint64
	for _, p := range strings.Split(s, ",") {
		out = append(out, atou(p))
	}
	return out
}

func cstIdsStr(ids []uint64) string {
	if len(ids) == 0 {
		return "-"
	}
	var s []string
	for _, id := range ids {
		s = append(s, utoa(id))
	}
	return strings.Join(s, ",")
}

type cstDef struct {
	tl, nl     int
	this, next cstRange
	size       int64
	ids        []uint64
	line       string
}

func cstParseDef(w []string) cstDef {
	tl, _ := strconv.Atoi(w[0])
	nl, _ := strconv.Atoi(w[1])
	sz, _ := strconv.ParseInt(w[8], 10, 64)
	return cstDef{tl: tl, nl: nl, this: cstParseRange(w[2], w[3], w[4]), next: cstParseRange(w[5], w[6], w[7]), size: sz,
		ids: cstParseIds(w[9]), line: strings.Join(w, " ")}
}

func cstEmpty(r cstRange) bool { return len(r.Left) == 0 && len(r.Right) == 0 && !r.Inf }

func cstEq(a, b cstRange) bool {
	return bytes.Equal(a.Left, b.Left) && bytes.Equal(a.Right, b.Right) && a.Inf == b.Inf
}

// proper = what getKeyRange produces: not empty, not inf, left <= right.
func cstProper(r cstRange) bool {
	return !cstEmpty(r) && !r.Inf && len(r.Left) >= 8 && len(r.Right) >= 8 && y.CompareKeys(r.Left, r.Right) <= 0
}

// closed intervals intersect (spec of "the two compactions touch a common key")
func cstIntersect(a, b cstRange) bool {
	return y.CompareKeys(a.Left, b.Right) <= 0 && y.CompareKeys(b.Left, a.Right) <= 0
}

func cstRangesAt(d cstDef, l int) []cstRange {
	var out []cstRange
	if d.tl == l {
		out = append(out, d.this)
	}
	if d.nl == l {
		out = append(out, d.next)
	}
	return out
}

// production-shaped: what the four fillTables* functions hand to compareAndAdd / delete.
func cstProdShaped(d cstDef) bool {
	if d.tl == 0 && d.nl == 0 { // L0 -> L0
		return d.this.Inf && cstEmpty(d.next)
	}
	if !cstProper(d.this) || !cstProper(d.next) {
		return false
	}
	if d.tl == d.nl {
		return cstEq(d.this, d.next)
	}
	return true
}

func execCStatus(ops []string, st *Stats) ([]string, []string) {
	outs := make([]string, len(ops))
	var oracle []string
	v := badger.VerifNewCStatus(7)
	var flight []cstDef
	allProd := true
	for i, l := range ops {
		w := strings.Fields(l)
		i, l := i, l
		st.Inc("op:" + w[0])
		fail := func(msg string) { oracle = append(oracle, fmt.Sprintf("line %d: %s :: %s", i+1, l, msg)) }
		doDel := func(d cstDef) string {
			if d.tl >= v.Levels() || d.nl >= v.Levels() {
				return "fatal"
			}
			// guard: compactStatus.delete ends in log.Fatal when a range or an id is missing
			has := func(lv int, r cstRange) bool {
				for _, q := range v.Ranges(lv) {
					if cstEq(q, r) {
						return true
					}
				}
				return false
			}
			found := has(d.tl, d.this)
			if d.tl != d.nl && !cstEmpty(d.next) {
				found = has(d.nl, d.next) && found
			}
			tabs := map[uint64]bool{}
			for _, id := range v.Tables() {
				tabs[id] = true
			}
			for _, id := range d.ids {
				if !tabs[id] {
					found = false
				}
				delete(tabs, id)
			}
			if !found {
				st.Inc("del:fatal")
				for _, f := range flight {
					if f.line == d.line && allProd {
						fail("[cstatus-delete-fatal] delete of a compaction in flight would end in log.Fatal although only production-shaped compactions with distinct tables were registered")
					}
				}
				return "fatal"
			}
			inFlight := false
			for _, f := range flight {
				if f.line == d.line {
					inFlight = true
				}
			}
			if !inFlight {
				// delete of a compaction that was refused or already deleted (it finds another compaction's
				// equal range and a re-used table id): the callers' hypothesis is violated from here on
				allProd = false
				st.Inc("del:not-in-flight")
			}
			v.Delete(d.tl, d.nl, d.this, d.next, d.size, d.ids)
			st.Inc("del:ok")
			for j, f := range flight {
				if f.line == d.line {
					flight = append(flight[:j:j], flight[j+1:]...)
					break
				}
			}
			if len(flight) == 0 && allProd {
				for lv := 0; lv < v.Levels(); lv++ {
					if n := len(v.Ranges(lv)); n != 0 {
						fail(fmt.Sprintf("[cstatus-leak] no compaction in flight but level %d still has %d range(s) registered", lv, n))
					}
				}
				if n := len(v.Tables()); n != 0 {
					fail(fmt.Sprintf("[cstatus-leak] no compaction in flight but %d table id(s) still registered", n))
				}
			}
			return "ok " + cstDump(v)
		}
		outs[i] = safely(func() string {
			switch {
			case w[0] == "reset" && len(w) == 2:
				n, _ := strconv.Atoi(w[1])
				v = badger.VerifNewCStatus(n)
				flight = nil
				allProd = true
				return "ok"
			case w[0] == "caa" && len(w) == 11:
				d := cstParseDef(w[1:])
				if d.tl >= v.Levels() || d.nl >= v.Levels() {
					st.Inc("caa:panic")
					return "panic" // y.AssertTruef is log.Fatal: never trigger it
				}
				busy := map[uint64]bool{}
				for _, id := range v.Tables() {
					busy[id] = true
				}
				sharedIDs := false
				for _, id := range d.ids {
					if busy[id] {
						sharedIDs = true // a table of a compaction in flight, or listed twice
					}
					busy[id] = true
				}
				ok := v.CompareAndAdd(d.tl, d.nl, d.this, d.next, d.size, d.ids)
				st.Inc(fmt.Sprintf("caa:%v", ok))
				if ok {
					for _, f := range flight {
						if !allProd {
							break
						}
						for lv := 0; lv < v.Levels(); lv++ {
							for _, ra := range cstRangesAt(f, lv) {
								for _, rb := range cstRangesAt(d, lv) {
									if cstProper(ra) && cstProper(rb) && cstIntersect(ra, rb) {
										fail(fmt.Sprintf("[cstatus-overlap-admitted] level %d: %s (in flight: %s) intersects %s", lv, cstRangeStr(ra), f.line, cstRangeStr(rb)))
									}
									if ra.Inf && !cstEmpty(rb) {
										fail(fmt.Sprintf("[cstatus-overlap-admitted] level %d: infRange in flight (%s), admitted %s", lv, f.line, cstRangeStr(rb)))
									}
								}
							}
						}
					}
					if !cstProdShaped(d) || sharedIDs {
						allProd = false
						st.Inc("caa:unproduction-shaped")
					}
					flight = append(flight, d)
				}
				return fmt.Sprintf("%v %s", ok, cstDump(v))
			case w[0] == "del" && len(w) == 11:
				return doDel(cstParseDef(w[1:]))
			case w[0] == "dell0" && len(w) == 1:
				for j := len(flight) - 1; j >= 0; j-- {
					if f := flight[j]; f.tl == 0 && f.nl == 0 && f.this.Inf && cstEmpty(f.next) {
						return doDel(f)
					}
				}
				return "none"
			case w[0] == "l0l0" && len(w) == 2:
				cands := cstParseIds(w[1])
				busy := map[uint64]bool{}
				for _, id := range v.Tables() {
					busy[id] = true
				}
				dup := map[uint64]bool{}
				for _, id := range cands {
					if dup[id] {
						allProd = false // a level never lists a table twice
					}
					dup[id] = true
				}
				for _, f := range flight {
					if f.tl == 0 && f.nl == 0 && f.this.Inf {
						allProd = false // only compactor 0 runs L0 -> L0: never two at a time
					}
				}
				ok, out := v.L0L0(cands)
				st.Inc(fmt.Sprintf("l0l0:%v", ok))
				if !ok {
					return "false " + cstDump(v)
				}
				for _, id := range out {
					if busy[id] {
						fail(fmt.Sprintf("[cstatus-shared-table] fillTablesL0ToL0 picked table %d of a compaction in flight", id))
					}
				}
				d := cstDef{tl: 0, nl: 0, this: cstRange{Inf: true}, ids: out}
				d.line = fmt.Sprintf("0 0 - - 1 - - 0 0 %s", cstIdsStr(out))
				flight = append(flight, d)
				return fmt.Sprintf("true %s %s", cstIdsStr(out), cstDump(v))
			case w[0] == "ovl" && len(w) == 5:
				lv, _ := strconv.Atoi(w[1])
				if lv >= v.Levels() {
					return "panic"
				}
				return fmt.Sprintf("%v", v.OverlapsWith(lv, cstParseRange(w[2], w[3], w[4])))
			case w[0] == "rovl" && len(w) == 7:
				a, b, c := badger.VerifRangeOps(cstParseRange(w[1], w[2], w[3]), cstParseRange(w[4], w[5], w[6]))
				return fmt.Sprintf("%v %v %v", a, b, c)
			}
			return "bad-op"
		})
	}
	return outs, oracle
}

var cstKeys = [][]byte{[]byte("a"), []byte("ab"), []byte("b"), []byte("c"), []byte("ca"), []byte("d"), []byte("e"), {0xff}}

func genCstRange(rng *rand.Rand, st *Stats) cstRange {
	switch p := rng.Intn(40); {
	case p == 0:
		st.Inc("range:empty")
		return cstRange{}
	case p == 1:
		st.Inc("range:inf")
		return cstRange{Inf: true}
	case p == 2: // malformed: left > right
		st.Inc("range:malformed")
		i := 1 + rng.Intn(len(cstKeys)-1)
		return cstRange{Left: y.KeyWithTs(cstKeys[i], math.MaxUint64), Right: y.KeyWithTs(cstKeys[rng.Intn(i)], 0)}
	case p >= 3 && p <= 6: // boundary cases: few keys, few versions, so that one range's end IS another's start
		st.Inc("range:versions")
		tss := []uint64{0, 1, 2, math.MaxUint64}
		i := rng.Intn(3)
		j := i + rng.Intn(2)
		return cstRange{Left: y.KeyWithTs(cstKeys[i], tss[rng.Intn(4)]), Right: y.KeyWithTs(cstKeys[j], tss[rng.Intn(4)])}
	}
	st.Inc("range:proper")
	i := rng.Intn(len(cstKeys))
	j := i + rng.Intn(min(3, len(cstKeys)-i))
	return cstRange{Left: y.KeyWithTs(cstKeys[i], math.MaxUint64), Right: y.KeyWithTs(cstKeys[j], 0)}
}

func genCStatus(rng *rand.Rand, n int, st *Stats) []string {
	var ops []string
	for c := 0; c < n; c++ {
		levels := 2 + rng.Intn(6)
		ops = append(ops, fmt.Sprintf("reset %d", levels))
		nextID := uint64(1)
		var admitted []string // lines of compactions the generator assumes in flight (sent back as del)
		var allIDs []uint64
		l0pending := 0
		fresh := func(k int) []uint64 {
			var ids []uint64
			for i := 0; i < k; i++ {
				ids = append(ids, nextID)
				allIDs = append(allIDs, nextID)
				nextID++
			}
			return ids
		}
		steps := 8 + rng.Intn(30)
		for s := 0; s < steps; s++ {
			switch p := rng.Intn(100); {
			case p < 45:
				tl := rng.Intn(levels)
				nl := tl + 1
				if tl == levels-1 || rng.Intn(12) == 0 {
					nl = tl
				}
				if rng.Intn(60) == 0 {
					nl = levels + rng.Intn(2) // out of range
				}
				this := genCstRange(rng, st)
				next := genCstRange(rng, st)
				switch q := rng.Intn(10); {
				case q < 3:
					next = this // bot empty, or Lmax -> Lmax
				case q < 5 && cstProper(this) && cstProper(next): // next covers this (bot tables overlapping top)
					if y.CompareKeys(next.Left, this.Left) > 0 {
						next.Left = this.Left
					}
					if y.CompareKeys(next.Right, this.Right) < 0 {
						next.Right = this.Right
					}
				}
				if nl == tl && rng.Intn(4) != 0 {
					next = this
				}
				ids := fresh(1 + rng.Intn(3))
				if rng.Intn(25) == 0 && len(allIDs) > 0 {
					ids = append(ids, allIDs[rng.Intn(len(allIDs))]) // a shared / repeated id
				}
				line := fmt.Sprintf("%d %d %s %s %d %s", tl, nl, cstRangeStr(this), cstRangeStr(next), rng.Intn(100), cstIdsStr(ids))
				line = strings.ReplaceAll(line, ":", " ")
				ops = append(ops, "caa "+line)
				admitted = append(admitted, line)
			case p < 70 && len(admitted) > 0:
				j := rng.Intn(len(admitted))
				ops = append(ops, "del "+admitted[j]) // fatal when it was refused (the executor guards)
				if rng.Intn(8) != 0 {
					admitted = append(admitted[:j], admitted[j+1:]...)
				}
			case p < 80 && (l0pending == 0 || rng.Intn(20) == 0): // one compactor (id 0) runs L0 -> L0
				var cands []uint64
				k := 3 + rng.Intn(5)
				seen := map[uint64]bool{}
				for i := 0; i < k; i++ {
					if rng.Intn(3) == 0 && len(allIDs) > 0 {
						if id := allIDs[rng.Intn(len(allIDs))]; !seen[id] || rng.Intn(20) == 0 {
							cands = append(cands, id)
							seen[id] = true
						}
					} else {
						cands = append(cands, fresh(1)...)
					}
				}
				ops = append(ops, "l0l0 "+cstIdsStr(cands))
				l0pending++
			case p < 84 && l0pending > 0:
				ops = append(ops, "dell0") // delete of the newest L0 -> L0 registration (the executor knows its ids)
				l0pending--
			case p < 90:
				r := genCstRange(rng, st)
				ops = append(ops, fmt.Sprintf("ovl %d %s", rng.Intn(levels), strings.ReplaceAll(cstRangeStr(r), ":", " ")))
			default:
				a, b := genCstRange(rng, st), genCstRange(rng, st)
				if rng.Intn(4) == 0 {
					b = a
				}
				ops = append(ops, fmt.Sprintf("rovl %s %s", strings.ReplaceAll(cstRangeStr(a), ":", " "), strings.ReplaceAll(cstRangeStr(b), ":", " ")))
			}
		}
		// drain: delete everything the generator believes in flight
		for _, l := range admitted {
			ops = append(ops, "del "+l)
		}
		for ; l0pending > 0; l0pending-- {
			ops = append(ops, "dell0")
		}
	}
	return ops
}
