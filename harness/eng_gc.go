package main

// Engine "gc" (property C15): an on-disk *badger.DB with a small ValueThreshold and a small
// ValueLogMaxEntries (so that values live in several value-log files), driven deterministically
// like engine "mvcc" (NumCompactors=0, explicit flush, production compaction pickers one step at
// a time) plus value-log garbage collection:
//
//   gc ratio=R            the real DB.RunValueLogGC(R) (pickLog from the discard stats)
//   gcbegin fid=F         vlog.rewrite(F) started through doRunGC and parked between its scan and
//                         its write-back (the DB's own vlogGCPauseHook) ...
//   gcend                 ... resumed: write-back + file deletion
//   hold h txn key        item := txn.Get(key), kept;   hread h   item.ValueCopy again
//   iopen/inext/iclose    a long-lived iterator (its items are read while it is open)
//
// Every op line is also executed by the Lean model (BadgerModel/Vlog.lean, Driver/Gc.lean) and
// the outputs are compared; the oracles below judge the implementation against a naive MVCC map.

import (
	"bytes"
	"fmt"
	"math"
	"math/rand"
	"os"
	"path/filepath"
	"sort"
	"strconv"
	"strings"
	"time"

	badger "github.com/dgraph-io/badger/v4"
	"github.com/dgraph-io/badger/v4/options"
)

func init() {
	engines["gc"] = &Engine{Gen: genGc, ExecX: execGc}
}

type gcHold struct {
	item  *badger.Item
	txn   int
	key   []byte
	val   []byte
	ver   uint64
	isPtr bool
	fid   uint32
}

type gcIter struct {
	it       *badger.Iterator
	txn      int
	prefetch bool
}

type gcRun struct {
	fid uint32
	// scan seam: the rewrite parks before examining record at+1 (mid closed), until resumeMid
	mid       chan struct{}
	resumeMid chan struct{}
	inScan    bool
	parked    chan struct{}
	resume    chan struct{}
	done      chan error
	pre       []readSnap
	before    badger.VVlogState
	nrec      int
}

type gcSess struct {
	mvSess
	maxent int
	holds  map[int]*gcHold
	iters  map[int]*gcIter
	run    *gcRun
	// (fid, offset) -> record index, kept for files that no longer exist
	recIdx map[uint32]map[uint32]int
	// gcSeen: a rewrite has written entries back in this session; wbKeys: the user keys written back
	gcSeen bool
	// wbs[key][ver] = the largest gcDiscardTs (DB max version at the start of the rewrite) of a
	// rewrite that selected (key, ver) for write-back
	wbs map[string]map[uint64]uint64
	// resTag: the classification a resurrected (key, version) got when it was first seen
	resTag map[string]string
	// inGc: between the scan of a parked rewrite and the end of its write-back (the window the
	// #2286 clamp is responsible for)
	inGc bool
	// curSel: what the parked rewrite selected; wbCompleted: (key, version) written back by a
	// rewrite that has finished
	curSel      map[string]bool
	wbCompleted map[string]bool
	// selFields: user-visible fields (meta without value-pointer/txn bits, user meta, expiry) of
	// the entries the rewrite in progress selected, as the LSM served them before the write-back
	selFields map[string]wbFields
}

type wbFields struct {
	key         []byte
	ver         uint64
	meta, umeta byte
	exp         uint64
}

func (s *gcSess) closeAll() {
	if s.db != nil {
		if s.run != nil {
			s.finishRun()
		}
		for _, it := range s.iters {
			it.it.Close()
		}
		s.iters = map[int]*gcIter{}
	}
	s.mvSess.close()
}

func (s *gcSess) open(kv map[string]string) (string, error) {
	s.managed = kvInt(kv, "managed", 0) != 0
	s.keep = kvInt(kv, "keep", 1)
	s.thr = kvInt(kv, "thr", 16)
	s.levels = kvInt(kv, "levels", 4)
	s.maxent = kvInt(kv, "maxent", 2)
	s.inmem = false
	memsz := kvInt(kv, "memsz", 1<<20)
	tblsz := kvInt(kv, "tblsz", 2<<20)
	basesz := kvInt(kv, "basesz", 10<<20)
	s.dir = scratchDir()
	opt := badger.DefaultOptions(s.dir).WithLoggingLevel(badger.ERROR).WithLogger(nil).WithNumCompactors(0).
		WithNumLevelZeroTables(100).WithNumLevelZeroTablesStall(200).
		WithNumVersionsToKeep(s.keep).WithValueThreshold(int64(s.thr)).WithMaxLevels(s.levels).
		WithMemTableSize(int64(memsz)).WithCompactL0OnClose(false).WithDetectConflicts(true).
		WithBaseTableSize(int64(tblsz)).WithBaseLevelSize(int64(basesz)).WithBlockSize(256).
		WithMetricsEnabled(false).WithValueLogFileSize(1 << 20).WithLevelSizeMultiplier(2).
		WithValueLogMaxEntries(uint32(s.maxent)).WithCompression(options.None).
		WithBlockCacheSize(1 << 20).WithIndexCacheSize(0)
	var err error
	if s.managed {
		s.db, err = badger.OpenManaged(opt)
	} else {
		s.db, err = badger.Open(opt)
	}
	if err != nil {
		return "", err
	}
	s.now = uint64(time.Now().Unix())
	s.txns = map[int]*mvTxn{}
	s.spec = newSpec()
	s.lastCts = 0
	s.l0l0Seen = false
	s.holds = map[int]*gcHold{}
	s.iters = map[int]*gcIter{}
	s.run = nil
	s.recIdx = map[uint32]map[uint32]int{}
	s.gcSeen = false
	s.wbs = map[string]map[uint64]uint64{}
	s.resTag = map[string]string{}
	s.inGc = false
	s.curSel = map[string]bool{}
	s.wbCompleted = map[string]bool{}
	s.selFields = map[string]wbFields{}
	mc, ms, _ := badger.VerifLimits(s.db)
	return fmt.Sprintf("reset managed=%d keep=%d thr=%d levels=%d maxent=%d memsz=%d tblsz=%d basesz=%d now=%d maxcount=%d maxsize=%d",
		b2i(s.managed), s.keep, s.thr, s.levels, s.maxent, memsz, tblsz, basesz, s.now, mc, ms), nil
}

// ---------------------------------------------------------------- dumps

// refreshIdx records the index of every record of every existing value-log file.
func (s *gcSess) refreshIdx() {
	for _, fid := range badger.VerifVlogState(s.db).Fids {
		recs, err := badger.VerifVlogRecords(s.db, fid)
		if err != nil {
			continue
		}
		m := s.recIdx[fid]
		if m == nil {
			m = map[uint32]int{}
			s.recIdx[fid] = m
		}
		for i, r := range recs {
			m[r.Offset] = i
		}
	}
}

func (s *gcSess) ptrStr(e badger.VPEntry) string {
	if !e.IsPtr {
		return "-"
	}
	if m := s.recIdx[e.Fid]; m != nil {
		if i, ok := m[e.Offset]; ok {
			return fmt.Sprintf("%d.%d", e.Fid, i)
		}
	}
	return fmt.Sprintf("%d.?%d", e.Fid, e.Offset)
}

func (s *gcSess) fmtPEntry(e badger.VPEntry) string {
	return fmtVEntry(e.VEntry) + ":" + s.ptrStr(e)
}

func (s *gcSess) pdump() string {
	s.refreshIdx()
	var parts []string
	var ms []string
	if mems := badger.VerifMemPtr(s.db); len(mems) > 0 {
		for _, e := range mems[0] {
			ms = append(ms, s.fmtPEntry(e))
		}
	}
	parts = append(parts, "M["+strings.Join(ms, ",")+"]")
	ids := badger.VerifLevelIDs(s.db)
	for i, lvl := range badger.VerifLevelsPtr(s.db) {
		if len(lvl) == 0 {
			continue
		}
		var sb strings.Builder
		fmt.Fprintf(&sb, "L%d", i)
		for ti, t := range lvl {
			var es []string
			for _, e := range t {
				es = append(es, s.fmtPEntry(e))
			}
			id := uint64(0)
			if ti < len(ids[i]) {
				id = ids[i][ti]
			}
			sb.WriteString(fmt.Sprintf("[#%d ", id) + strings.Join(es, ",") + "]")
		}
		parts = append(parts, sb.String())
	}
	return strings.Join(parts, " ")
}

func u32s(xs []uint32) string {
	if len(xs) == 0 {
		return "-"
	}
	var r []string
	for _, x := range xs {
		r = append(r, strconv.FormatUint(uint64(x), 10))
	}
	return strings.Join(r, ",")
}

func (s *gcSess) vdump(fail func(string, string)) string {
	s.refreshIdx()
	st := badger.VerifVlogState(s.db)
	var sb strings.Builder
	fmt.Fprintf(&sb, "max=%d nw=%d tbd=%s it=%d", st.MaxFid, st.NumEntriesWritten, u32s(st.ToBeDeleted), st.IterCount)
	for _, fid := range st.Fids {
		recs, err := badger.VerifVlogRecords(s.db, fid)
		if err != nil {
			fmt.Fprintf(&sb, " F%d[ERR]", fid)
			continue
		}
		var rs []string
		for _, r := range recs {
			rs = append(rs, fmt.Sprintf("%s@%d:%d:%d:%d:%s", hx(r.Key), r.Version, r.Meta, r.UserMeta, r.ExpiresAt, hx(r.Value)))
		}
		fmt.Fprintf(&sb, " F%d[%s]", fid, strings.Join(rs, ","))
	}
	// oracle: the files the DB knows are the files on disk
	if fail != nil {
		known := map[uint32]bool{}
		for _, fid := range st.Fids {
			known[fid] = true
			if _, err := os.Stat(filepath.Join(s.dir, fmt.Sprintf("%06d.vlog", fid))); err != nil {
				fail("C15-file-missing", fmt.Sprintf("value log file %d is in filesMap (to-be-deleted=%v, open iterators=%d) but not on disk", fid, st.ToBeDeleted, st.IterCount))
			}
		}
		ents, _ := os.ReadDir(s.dir)
		for _, e := range ents {
			if strings.HasSuffix(e.Name(), ".vlog") {
				n, _ := strconv.Atoi(strings.TrimSuffix(e.Name(), ".vlog"))
				if !known[uint32(n)] {
					fail("C15-file-leaked", fmt.Sprintf("value log file %s is on disk but unknown to the DB", e.Name()))
				}
			}
		}
	}
	return sb.String()
}

// ---------------------------------------------------------------- oracles

// classify names the specific failing behaviour of a read that disagrees with the history.
// gotVer: the version of the entry that was served (0: none).
func (s *gcSess) classify(key string, got, want string, gotVer uint64, dflt string) string {
	switch {
	case strings.Contains(got, "READERR"):
		return "C15-dangling-read"
	case want == "absent" && got != "absent":
		// F21: the version served was written back by a rewrite and the history holds a dead
		// (deleted / expired) version of the key above it. NOT F21 (but the race the #2286 clamp
		// must prevent): the key comes back inside the window scan..write-back of a rewrite although
		// every dead version above it is newer than that rewrite's gcDiscardTs.
		id := fmt.Sprintf("%s@%d", key, gotVer)
		if t, ok := s.resTag[id]; ok {
			return t
		}
		tag := "C15-resurrected"
		if gcTs, ok := s.wbs[key][gotVer]; ok {
			for _, x := range s.spec.hist[key] {
				inWindow := s.inGc && s.curSel[id] && !s.wbCompleted[id]
				if x.dead(s.now) && x.ver > gotVer && (x.ver <= gcTs || !inWindow) {
					tag = "F21:gc-writeback-above-tombstone"
				}
			}
		}
		s.resTag[id] = tag
		return tag
	}
	return dflt
}

func verOfRead(r string) uint64 {
	if i := strings.IndexByte(r, ':'); i > 0 {
		if v, err := strconv.ParseUint(r[:i], 10, 64); err == nil {
			return v
		}
	}
	return 0
}

// judgeReads: every read at or above the discard watermark is what it was before the step and
// what the naive MVCC map says.
func (s *gcSess) judgeReads(what string, pre []readSnap, fail func(string, string)) {
	for _, r := range pre {
		now := s.readAt([]byte(r.key), r.ts)
		v, ok := s.spec.newest([]byte(r.key), r.ts, 0)
		want := "absent"
		if ok && !v.dead(s.now) {
			want = fmt.Sprintf("%d:%d:%d:%s", v.ver, v.userMeta, v.exp, hx(v.val))
		}
		judged := !(s.spec.compacted && r.ts < s.spec.maxDiscard)
		if now != r.res {
			fail(s.classify(r.key, now, want, verOfRead(now), "C15-read-changed"), fmt.Sprintf("%s changed the read of key %s at ts=%d: before %q after %q (history: %q)", what, hx([]byte(r.key)), r.ts, r.res, now, want))
			return
		}
		if judged && now != want {
			fail(s.classify(r.key, now, want, verOfRead(now), "C15-read-wrong"), fmt.Sprintf("after %s key %s at ts=%d reads %q, history says %q", what, hx([]byte(r.key)), r.ts, now, want))
			return
		}
	}
}

// noteWriteBacks: the (key, version) pairs a rewrite of `fid` selects (its scan has just run, or
// is about to run with nothing in between), with the rewrite's gcDiscardTs.
func (s *gcSess) noteWriteBacks(fid uint32, gcTs uint64, done bool) {
	recs, err := badger.VerifVlogRecords(s.db, fid)
	if err != nil {
		return
	}
	for _, r := range recs {
		e, ok, err := badger.VerifGetAtPtr(s.db, r.Key, r.Version)
		if err != nil || !ok || e.Version != r.Version || !e.IsPtr || e.Fid != fid || e.Offset != r.Offset {
			continue
		}
		m := s.wbs[string(r.Key)]
		if m == nil {
			m = map[uint64]uint64{}
			s.wbs[string(r.Key)] = m
		}
		if gcTs > m[r.Version] || m[r.Version] == 0 {
			m[r.Version] = gcTs
		}
		id := fmt.Sprintf("%s@%d", string(r.Key), r.Version)
		if _, seen := s.selFields[id]; !seen {
			s.selFields[id] = wbFields{key: r.Key, ver: r.Version, meta: e.Meta &^ (2 | 64 | 128), umeta: e.UserMeta, exp: e.ExpiresAt}
		}
		if done {
			s.wbCompleted[id] = true
		} else {
			s.curSel[id] = true
		}
	}
}

// judgeWriteBackFields: after a rewrite every entry it moved reads back (at its own internal
// key) with the same meta bits (value-pointer and transaction bits aside), user meta and expiry
// as before the write-back.
func (s *gcSess) judgeWriteBackFields(fid uint32, fail func(string, string)) {
	ids := make([]string, 0, len(s.selFields))
	for id := range s.selFields {
		ids = append(ids, id)
	}
	sort.Strings(ids)
	for _, id := range ids {
		f := s.selFields[id]
		e, ok, err := badger.VerifGetAtPtr(s.db, f.key, f.ver)
		if err != nil || !ok || e.Version != f.ver {
			continue // compacted away in the meantime
		}
		m := e.Meta &^ (2 | 64 | 128)
		if m != f.meta || e.UserMeta != f.umeta || e.ExpiresAt != f.exp {
			fail("C15-writeback-field-changed", fmt.Sprintf("GC rewrite of file %d: entry %s@%d had meta=%d (merge=%v discard-earlier=%v) userMeta=%d expiresAt=%d before the write-back, now meta=%d userMeta=%d expiresAt=%d",
				fid, hx(f.key), f.ver, f.meta, f.meta&8 != 0, f.meta&4 != 0, f.umeta, f.exp, m, e.UserMeta, e.ExpiresAt))
			break
		}
	}
	s.selFields = map[string]wbFields{}
}

// ---------------------------------------------------------------- executor

func gcErrKind(err error) string {
	switch {
	case err == nil:
		return "ok"
	case err == badger.ErrNoRewrite:
		return "norewrite"
	case err == badger.ErrRejected:
		return "rejected"
	case err == badger.ErrInvalidRequest:
		return "err:invalid"
	case strings.Contains(err.Error(), "already marked for deletion"):
		return "err:marked"
	case strings.Contains(err.Error(), "not found"):
		return "err:nofile"
	}
	return "err:other:" + strings.ReplaceAll(err.Error(), " ", "_")
}

func (s *gcSess) totalRecs() int {
	n := 0
	for _, fid := range badger.VerifVlogState(s.db).Fids {
		recs, _ := badger.VerifVlogRecords(s.db, fid)
		n += len(recs)
	}
	return n
}

// startRun starts doRunGC(fid) in a goroutine and waits until it is parked after its scan (true)
// or has returned (false, error kind).
// at >= 0: park inside the scan after `at` records have been examined (when there are more).
func (s *gcSess) startRun(fid uint32, at int) (bool, string) {
	s.refreshIdx()
	run := &gcRun{fid: fid, parked: make(chan struct{}), resume: make(chan struct{}), done: make(chan error, 1),
		mid: make(chan struct{}), resumeMid: make(chan struct{})}
	if at >= 0 {
		badger.VerifSetGCScanHook(func(_ *badger.DB, n int) {
			if n == at+1 {
				close(run.mid)
				<-run.resumeMid
			}
		})
	}
	run.pre = s.snapshotReads()
	run.before = badger.VerifVlogState(s.db)
	run.nrec = s.totalRecs()
	badger.VerifSetGCPauseHook(s.db, func() {
		close(run.parked)
		<-run.resume
	})
	go func() { run.done <- badger.VerifGCRewrite(s.db, fid) }()
	select {
	case <-run.mid:
		run.inScan = true
		s.run = run
		return true, fmt.Sprintf("parked scanned=%d", at)
	case <-run.parked:
		badger.VerifSetGCScanHook(nil)
		s.run = run
		return true, "parked"
	case err := <-run.done:
		badger.VerifSetGCScanHook(nil)
		badger.VerifSetGCPauseHook(s.db, nil)
		return false, gcErrKind(err)
	}
}

// contRun lets a rewrite parked inside its scan finish the scan; it parks again before the
// write-back (true) or returns (false, error kind).
func (s *gcSess) contRun() (bool, string) {
	run := s.run
	run.inScan = false
	badger.VerifSetGCScanHook(nil)
	close(run.resumeMid)
	select {
	case <-run.parked:
		return true, "parked"
	case err := <-run.done:
		badger.VerifSetGCPauseHook(s.db, nil)
		s.run = nil
		return false, gcErrKind(err)
	}
}

// finishRun resumes the parked rewrite; returns its output line.
func (s *gcSess) finishRun() string {
	if s.run.inScan {
		if ok, out := s.contRun(); !ok {
			return out
		}
	}
	run := s.run
	s.run = nil
	run.nrec = s.totalRecs()
	recsOld := 0
	if r, err := badger.VerifVlogRecords(s.db, run.fid); err == nil {
		recsOld = len(r)
	}
	close(run.resume)
	err := <-run.done
	badger.VerifSetGCPauseHook(s.db, nil)
	if err != nil {
		return gcErrKind(err)
	}
	after := badger.VerifVlogState(s.db)
	del := "now"
	for _, f := range after.Fids {
		if f == run.fid {
			del = "deferred"
		}
	}
	moved := s.totalRecs() - run.nrec
	if del == "now" {
		moved += recsOld
	}
	if moved > 0 {
		s.gcSeen = true
	}
	return fmt.Sprintf("ok moved=%d del=%s", moved, del)
}

func (s *gcSess) eligibleFids() []uint32 {
	st := badger.VerifVlogState(s.db)
	tbd := map[uint32]bool{}
	for _, f := range st.ToBeDeleted {
		tbd[f] = true
	}
	var out []uint32
	for _, f := range st.Fids {
		if f < st.MaxFid && !tbd[f] {
			out = append(out, f)
		}
	}
	return out
}

func execGc(intents []string, st *Stats) (final, outs, oracle []string) {
	s := &gcSess{}
	s.st = st
	defer func() { s.closeAll() }()
	emit := func(op, out string) {
		final = append(final, op)
		outs = append(outs, out)
	}
	fail := func(tag, msg string) {
		oracle = append(oracle, fmt.Sprintf("line %d: %s :: [%s] %s", len(final), final[len(final)-1], tag, msg))
	}
	for _, line := range intents {
		w := strings.Fields(line)
		if len(w) == 0 {
			continue
		}
		progress(line)
		kvl := kvWords(w[1:])
		if kvInt(kvl, "ev", 0) == 1 {
			continue
		}
		if w[0] != "reset" && s.db == nil {
			emit(line, "bad-op")
			continue
		}
		st.Inc("op:" + w[0])
		switch w[0] {
		case "reset":
			s.closeAll()
			op, err := s.open(kvl)
			if err != nil {
				emit(line, "err:open:"+strings.ReplaceAll(err.Error(), " ", "_"))
				s.db = nil
				continue
			}
			emit(op, "ok")
		case "dump", "vlog":
			continue // emitted automatically
		case "begin":
			id, _ := strconv.Atoi(w[1])
			upd := w[2] != "0"
			rts := atou(w[3])
			var t *badger.Txn
			if s.managed {
				t = s.db.NewTransactionAt(rts, upd)
			} else {
				t = s.db.NewTransaction(upd)
			}
			badger.VerifSyncMarks(s.db)
			s.txns[id] = &mvTxn{t: t, update: upd, readTs: t.ReadTs(), pending: map[string]specVer{}}
			emit(line, fmt.Sprintf("ok %d", t.ReadTs()))
		case "set":
			id, _ := strconv.Atoi(w[1])
			tx := s.txns[id]
			if tx == nil || tx.done {
				emit(line, "err:discarded")
				continue
			}
			key, val := unhx(w[2]), unhx(w[6])
			meta, _ := strconv.Atoi(w[3])
			um, _ := strconv.Atoi(w[4])
			exp := atou(w[5])
			var err error
			sv := specVer{userMeta: byte(um), exp: exp, val: val}
			if meta&1 != 0 {
				err = tx.t.Delete(key)
				sv = specVer{del: true}
			} else {
				e := badger.NewEntry(key, val).WithMeta(byte(um))
				if meta&4 != 0 {
					e = e.WithDiscard()
					sv.discard = true
				}
				if meta&8 != 0 {
					// a merge-operator operand (what MergeOperator.Add writes)
					e = badger.VerifWithMergeBit(e)
					sv.merge = true
				}
				e.ExpiresAt = exp
				err = tx.t.SetEntry(e)
			}
			if err == nil {
				if _, ok := tx.pending[string(key)]; !ok {
					tx.order = append(tx.order, string(key))
				}
				tx.pending[string(key)] = sv
			}
			emit(line, errKind(err))
		case "get":
			id, _ := strconv.Atoi(w[1])
			tx := s.txns[id]
			if tx == nil {
				emit(line, "err:discarded")
				continue
			}
			key := unhx(w[2])
			it, err := tx.t.Get(key)
			var out string
			if err != nil {
				out = errKind(err)
			} else {
				f, verr := fmtItem(it)
				if verr != nil {
					out = "err:value:" + strings.ReplaceAll(verr.Error(), " ", "_")
				} else {
					out = "found " + f
				}
			}
			emit(line, out)
			badger.VerifSyncMarks(s.db)
			if !tx.done && len(key) > 0 {
				s.judgeGetGc(tx, key, out, fail)
			}
		case "commit":
			id, _ := strconv.Atoi(w[1])
			tx := s.txns[id]
			if tx == nil {
				emit(line, "err:discarded")
				continue
			}
			cts := atou(w[2])
			// commitAndSend ranges over the Go map pendingWrites: the order in which the entries
			// reach the value log is observed and handed to the model (`vorder=`)
			st0 := badger.VerifVlogState(s.db)
			recs0, _ := badger.VerifVlogRecords(s.db, st0.MaxFid)
			var err error
			if s.managed {
				err = tx.t.CommitAt(cts, nil)
			} else {
				err = tx.t.Commit()
			}
			badger.VerifSyncMarks(s.db)
			badger.VerifWaitFlushed(s.db)
			s.emitEventsX(emit, fail, "", true)
			if recs1, e1 := badger.VerifVlogRecords(s.db, st0.MaxFid); e1 == nil && len(recs1) > len(recs0) {
				var ks []string
				for _, r := range recs1[len(recs0):] {
					ks = append(ks, hx(r.Key))
				}
				line = fmt.Sprintf("commit %s %s vorder=%s", w[1], w[2], strings.Join(ks, ","))
			}
			switch {
			case err == nil && len(tx.pending) > 0 && !tx.done:
				ts := badger.VerifNextTxnTs(s.db) - 1
				if s.managed {
					ts = cts
				}
				for _, k := range tx.order {
					sv := tx.pending[k]
					sv.ver = ts
					s.spec.add([]byte(k), sv)
				}
				emit(line, fmt.Sprintf("ok %d", ts))
				tx.done = true
			case err == nil:
				emit(line, "ok noop")
				tx.done = true
			default:
				emit(line, errKind(err))
				if !strings.Contains(err.Error(), "CommitTs cannot be zero") && !strings.Contains(err.Error(), "discarded txn") {
					tx.done = true
				}
			}
		case "discard":
			id, _ := strconv.Atoi(w[1])
			if tx := s.txns[id]; tx != nil {
				// Txn.Discard panics with an unclosed iterator: close this transaction's iterators first
				for hid, it := range s.iters {
					if it.txn == id {
						it.it.Close()
						delete(s.iters, hid)
					}
				}
				tx.t.Discard()
				tx.done = true
				badger.VerifSyncMarks(s.db)
			}
			emit(line, "ok")
		case "setdiscard":
			if s.managed {
				s.db.SetDiscardTs(atou(w[1]))
			}
			emit(line, "ok")
		case "flush":
			pre := s.snapshotReads()
			badger.VerifTakeEvents()
			if err := badger.VerifFlush(s.db); err != nil {
				emit(line, errKind(err))
				continue
			}
			nb := len(final)
			s.emitEvents(emit, fail)
			if len(final) == nb {
				emit("flush id=0", "ok")
			}
			s.judgeReads("flush", pre, fail)
			emit("dump", s.pdump())
		case "compact", "compact-none":
			s.compactGc(kvl, emit, fail)
		case "hold":
			// hold h txn key
			h, _ := strconv.Atoi(w[1])
			id, _ := strconv.Atoi(w[2])
			tx := s.txns[id]
			if tx == nil || tx.done {
				emit(line, "err:discarded")
				continue
			}
			key := unhx(w[3])
			item, err := tx.t.Get(key)
			if err != nil {
				emit(line, errKind(err))
				delete(s.holds, h)
				continue
			}
			f, verr := fmtItem(item)
			if verr != nil {
				emit(line, "err:value")
				continue
			}
			val, _ := item.ValueCopy(nil)
			hd := &gcHold{item: item, txn: id, key: key, val: val, ver: item.Version()}
			hd.fid, _, hd.isPtr = badger.VerifItemPtr(item)
			s.holds[h] = hd
			emit(line, "held "+f)
			s.judgeGetGc(tx, key, "found "+f, fail)
			st.Inc(fmt.Sprintf("hold:ptr=%v", hd.isPtr))
		case "hread":
			h, _ := strconv.Atoi(w[1])
			hd := s.holds[h]
			if hd == nil {
				emit(line, "nohold")
				continue
			}
			val, err := hd.item.ValueCopy(nil)
			if err != nil {
				emit(line, "err:value:"+strings.ReplaceAll(err.Error(), " ", "_"))
			} else {
				emit(line, "val "+hx(val))
			}
			badger.VerifSyncMarks(s.db)
			tx := s.txns[hd.txn]
			if tx != nil && !tx.done && (err != nil || !bytes.Equal(val, hd.val)) {
				_, statErr := os.Stat(filepath.Join(s.dir, fmt.Sprintf("%06d.vlog", hd.fid)))
				if hd.isPtr && err == nil && len(val) == 0 && statErr != nil {
					fail("F3:get-item-after-gc", fmt.Sprintf("item from Txn.Get(%s) (version %d, value in vlog file %d) read %d bytes before the GC of that file; with the transaction still open ValueCopy now returns 0 bytes and a nil error (the file was unlinked: a Get item does not count as an iterator, and yieldItemValue swallows the read error)", hx(hd.key), hd.ver, hd.fid, len(hd.val)))
				} else {
					fail("C15-held-item", fmt.Sprintf("item from Txn.Get(%s) read %s, now %s err=%v (transaction still open)", hx(hd.key), hx(hd.val), hx(val), err))
				}
			}
			st.Inc("hread")
		case "iopen":
			// iopen it txn rev= all= prefetch=
			h, _ := strconv.Atoi(w[1])
			id, _ := strconv.Atoi(w[2])
			tx := s.txns[id]
			if tx == nil || tx.done || s.iters[h] != nil {
				emit(line, "err:discarded")
				continue
			}
			kv := kvWords(w[3:])
			opt := badger.DefaultIteratorOptions
			opt.Reverse = kvInt(kv, "rev", 0) != 0
			opt.AllVersions = kvInt(kv, "all", 0) != 0
			opt.PrefetchValues = kvInt(kv, "prefetch", 0) != 0
			opt.PrefetchSize = 1000
			it := tx.t.NewIterator(opt)
			it.Rewind()
			s.iters[h] = &gcIter{it: it, txn: id, prefetch: opt.PrefetchValues}
			emit(line, "ok")
			st.Inc(fmt.Sprintf("iopen:prefetch=%v", opt.PrefetchValues))
		case "inext":
			h, _ := strconv.Atoi(w[1])
			it := s.iters[h]
			if it == nil {
				emit(line, "noiter")
				continue
			}
			if !it.it.Valid() {
				emit(line, "end")
				continue
			}
			item := it.it.Item()
			f, err := fmtItem(item)
			if err != nil {
				f = "ERR:" + strings.ReplaceAll(err.Error(), " ", "_")
			}
			emit(line, "item "+f)
			badger.VerifSyncMarks(s.db)
			// oracle: the item is the history's write of that (key, version)
			s.judgeIterItem(item, f, fail)
			it.it.Next()
		case "iclose":
			h, _ := strconv.Atoi(w[1])
			it := s.iters[h]
			if it == nil {
				emit(line, "noiter")
				continue
			}
			it.it.Close()
			delete(s.iters, h)
			emit(line, "ok")
			emit("vlog", s.vdump(fail))
		case "gc":
			// gc ratio=R: the real RunValueLogGC; the file it picks is recorded for the model
			ratio, _ := strconv.ParseFloat(kvl["ratio"], 64)
			if s.run != nil {
				err := s.db.RunValueLogGC(ratio)
				emit(fmt.Sprintf("gc ratio=%s fid=0", kvl["ratio"]), gcErrKind(err))
				continue
			}
			s.refreshIdx()
			s.selFields = map[string]wbFields{}
			fid := uint32(0)
			if ratio > 0 && ratio < 1 {
				fid = badger.VerifVlogPick(s.db, ratio)
			}
			op := fmt.Sprintf("gc ratio=%s fid=%d", kvl["ratio"], fid)
			pre := s.snapshotReads()
			nrec := s.totalRecs()
			recsOld := 0
			if fid != 0 {
				s.noteWriteBacks(fid, s.db.MaxVersion(), true)
				r, _ := badger.VerifVlogRecords(s.db, fid)
				recsOld = len(r)
			}
			err := s.db.RunValueLogGC(ratio)
			if err != nil {
				emit(op, gcErrKind(err))
				continue
			}
			after := badger.VerifVlogState(s.db)
			del := "now"
			for _, f := range after.Fids {
				if f == fid {
					del = "deferred"
				}
			}
			moved := s.totalRecs() - nrec
			if del == "now" {
				moved += recsOld
			}
			if moved > 0 {
				s.gcSeen = true
			}
			emit(op, fmt.Sprintf("ok moved=%d del=%s", moved, del))
			st.Inc("gc:real:" + del)
			s.judgeWriteBackFields(fid, fail)
			s.judgeReads(fmt.Sprintf("RunValueLogGC (file %d)", fid), pre, fail)
			emit("vlog", s.vdump(fail))
			emit("dump", s.pdump())
		case "gcbegin":
			if s.run != nil {
				emit(line, "rejected")
				continue
			}
			fid := uint32(kvInt(kvl, "fid", 0))
			if sel, ok := kvl["sel"]; ok {
				n, _ := strconv.Atoi(sel)
				el := s.eligibleFids()
				if len(el) == 0 {
					emit(fmt.Sprintf("gcbegin fid=0 sel=%s", sel), "err:nofile")
					continue
				}
				fid = el[n%len(el)]
				line = fmt.Sprintf("gcbegin fid=%d sel=%s", fid, sel)
			}
			at := -1
			if a, ok := kvl["at"]; ok {
				at, _ = strconv.Atoi(a)
				if !strings.Contains(line, " at=") {
					line += " at=" + a
				}
			}
			parked, out := s.startRun(fid, at)
			emit(line, out)
			s.inGc = parked
			if parked {
				_, gcTs := badger.VerifGcClamp(s.db)
				if gcTs == 0 {
					gcTs = s.db.MaxVersion()
				}
				s.curSel = map[string]bool{}
				s.noteWriteBacks(fid, gcTs, false)
				s.judgeReads(fmt.Sprintf("the GC scan of file %d", fid), s.run.pre, fail)
				st.Inc("gc:parked")
			}
		case "gccont":
			if s.run == nil {
				emit(line, "norun")
				continue
			}
			if !s.run.inScan {
				emit(line, "noscan")
				continue
			}
			fid := s.run.fid
			pre := s.snapshotReads()
			parked, out := s.contRun()
			emit(line, out)
			if parked {
				_, gcTs := badger.VerifGcClamp(s.db)
				s.noteWriteBacks(fid, gcTs, false)
				s.judgeReads(fmt.Sprintf("the rest of the GC scan of file %d", fid), pre, fail)
				st.Inc("gc:cont")
			} else {
				s.inGc = false
			}
		case "gcend":
			if s.run == nil {
				emit(line, "norun")
				continue
			}
			fid := s.run.fid
			pre := s.snapshotReads()
			out := s.finishRun()
			emit(line, out)
			st.Inc("gc:end:" + strings.Join(strings.Fields(out)[:1], ""))
			s.judgeWriteBackFields(fid, fail)
			s.judgeReads(fmt.Sprintf("the GC write-back of file %d", fid), pre, fail)
			s.inGc = false
			for id := range s.curSel {
				s.wbCompleted[id] = true
			}
			s.curSel = map[string]bool{}
			emit("vlog", s.vdump(fail))
			emit("dump", s.pdump())
		default:
			emit(line, "bad-op")
		}
	}
	return
}

// judgeGetGc: a Get equals the newest committed write at or below the read timestamp.
func (s *gcSess) judgeGetGc(tx *mvTxn, key []byte, out string, fail func(string, string)) {
	if pv, ok := tx.pending[string(key)]; ok && tx.update {
		_ = pv
		return // own writes: judged by the mvcc engine
	}
	if s.spec.compacted && tx.readTs < s.spec.maxDiscard {
		return
	}
	var want, wantAbs string
	v, ok := s.spec.newest(key, tx.readTs, 0)
	if !ok || v.dead(s.now) {
		want, wantAbs = "notfound", "absent"
	} else {
		fl := "."
		if v.discard {
			fl = "D"
		}
		want = fmt.Sprintf("found %s@%d:%d:%d:%s:%s", hx(key), v.ver, v.userMeta, v.exp, fl, hx(v.val))
		wantAbs = want
	}
	if out != want {
		got := out
		gotVer := uint64(0)
		if out == "notfound" {
			got = "absent"
		} else if i := strings.IndexByte(out, '@'); i > 0 {
			gotVer = verOfRead(out[i+1:])
		}
		fail(s.classify(string(key), got, wantAbs, gotVer, "C15-get-wrong"), fmt.Sprintf("Get returned %q, the snapshot at readTs=%d holds %q", out, tx.readTs, want))
	}
}

// judgeIterItem: an item yielded by an open iterator carries the value the history wrote for
// that (key, version).
func (s *gcSess) judgeIterItem(item *badger.Item, got string, fail func(string, string)) {
	key := item.KeyCopy(nil)
	// versions below the newest version at or under a discard watermark already used are not
	// promised (AllVersions scans show such leftovers; their values may be gone)
	if nv, ok := s.spec.newest(key, s.spec.maxDiscard, 0); s.spec.compacted && ok && item.Version() < nv.ver {
		return
	}
	for _, v := range s.spec.hist[string(key)] {
		if v.ver == item.Version() && !v.dead(s.now) {
			if s.spec.dupVersion(key) {
				return
			}
			val, err := item.ValueCopy(nil)
			if err != nil || !bytes.Equal(val, v.val) {
				fail("C15-iter-item", fmt.Sprintf("open iterator: item %s@%d reads %s (err=%v), the history wrote %s", hx(key), v.ver, hx(val), err, hx(v.val)))
			}
			return
		}
	}
}

func (s *gcSess) compactGc(kv map[string]string, emit func(string, string), fail func(string, string)) {
	this := kvInt(kv, "this", 0)
	id := kvInt(kv, "id", 0)
	adjS := kv["adj"]
	if adjS == "" {
		adjS = "1.5"
	}
	adj, _ := strconv.ParseFloat(adjS, 64)
	if pk, ok := kv["pick"]; ok {
		n, _ := strconv.Atoi(pk)
		var ne []int
		for i, lvl := range badger.VerifLevelIDs(s.db) {
			if len(lvl) > 0 {
				ne = append(ne, i)
			}
		}
		if len(ne) > 0 {
			this = ne[n%len(ne)]
		}
	}
	if this >= s.levels {
		this = s.levels - 1
	}
	badger.VerifBackdate(s.db, 2*time.Hour)
	pre := s.snapshotReads()
	badger.VerifTakeEvents()
	err := badger.VerifCompact(s.db, id, this, 1.5, adj, nil)
	if err != nil {
		emit(fmt.Sprintf("compact-none this=%d id=%d adj=%s", this, id, adjS), "none")
		s.st.Inc("compact:none")
		return
	}
	s.emitEventsX(emit, fail, fmt.Sprintf("id=%d adj=%s", id, adjS), false)
	what := fmt.Sprintf("compaction of level %d", this)
	if s.run != nil {
		what += " (during a GC rewrite, between scan and write-back)"
		s.st.Inc("compact:during-gc")
	} else if s.gcSeen {
		what += " (after a GC write-back)"
		s.st.Inc("compact:after-gc")
	}
	s.judgeReads(what, pre, fail)
	emit("dump", s.pdump())
	s.judgeRetention(fail) // C13: merge operands and the retained run survive (also after write-backs)
}

// ---------------------------------------------------------------- generator

func genGc(rng *rand.Rand, n int, st *Stats) []string {
	var ops []string
	for c := 0; c < n; c++ {
		ops = append(ops, genGcSession(rng, st)...)
	}
	return ops
}

func genGcSession(rng *rand.Rand, st *Stats) []string {
	managed := rng.Intn(4) == 0
	if params["managed"] != "" {
		managed = params["managed"] == "1"
	}
	keep := pick(rng, 1, 1, 1, 2, 3)
	thr := pick(rng, 16, 16, 32)
	levels := pick(rng, 3, 4, 4, 7)
	maxent := pick(rng, 1, 2, 2, 3, 5)
	var ops []string
	// prefill: the last level is filled with more than BaseLevelSize of filler keys (63xxxx, a range
	// none of the session's keys falls into), so that L0 compacts into a level ABOVE the last one
	prefill := rng.Intn(3) == 0
	tblsz, basesz := pick(rng, 2<<20, 2<<20, 2048), pick(rng, 10<<20, 4096)
	if prefill {
		tblsz, basesz = 2<<20, 1024
		if levels == 3 {
			levels = 4
		}
	}
	ops = append(ops, fmt.Sprintf("reset managed=%d keep=%d thr=%d levels=%d maxent=%d memsz=%d tblsz=%d basesz=%d",
		b2i(managed), keep, thr, levels, maxent, 1<<20, tblsz, basesz))
	st.Inc(fmt.Sprintf("session:managed=%v,keep=%d,maxent=%d,prefill=%v", managed, keep, maxent, prefill))
	nkeys := 2 + rng.Intn(5)
	var keys [][]byte
	for len(keys) < nkeys {
		keys = append(keys, genUserKey(rng, 1, 3))
	}
	now := uint64(time.Now().Unix())
	nextID, nextH, nextIt := 1, 1, 1
	var open []int // open read transactions (kept open across GC)
	var iters []int
	var holds []int
	parked := false
	cts := uint64(1)
	disc := uint64(0)
	genVal := func() []byte {
		n := thr + rng.Intn(12) // value log
		switch rng.Intn(8) {
		case 0:
			n = rng.Intn(thr) // inline
		case 1:
			n = thr
		}
		v := make([]byte, n)
		rng.Read(v)
		return v
	}
	rtsOf := func() uint64 {
		if !managed {
			return 0
		}
		if rng.Intn(3) == 0 {
			return uint64(rng.Intn(int(cts) + 1))
		}
		return cts
	}
	// one committed write transaction of 1..3 entries
	write := func(del bool) {
		id := nextID
		nextID++
		w := uint64(0)
		if managed {
			w = math.MaxUint64
		}
		ops = append(ops, fmt.Sprintf("begin %d 1 %d", id, w))
		ne := 1 + rng.Intn(3)
		if del {
			ne = 1
		}
		for x := 0; x < ne; x++ {
			k := keys[rng.Intn(len(keys))]
			meta, um, exp, v := 0, rng.Intn(256), uint64(0), genVal()
			switch {
			case del || rng.Intn(7) == 0:
				meta, um, v = 1, 0, nil
			case rng.Intn(12) == 0:
				exp = now - 1000
			case rng.Intn(7) == 0:
				exp = now + 100000 + uint64(rng.Intn(1000))
			case rng.Intn(10) == 0:
				meta = 4
			case rng.Intn(6) == 0:
				// merge-operator operand (never counted by the retention rule); sometimes with a TTL
				meta = 8
				if rng.Intn(4) == 0 {
					exp = now + 200000
				}
			}
			ops = append(ops, fmt.Sprintf("set %d %s %d %d %d %s 0", id, hx(k), meta, um, exp, hx(v)))
		}
		c := uint64(0)
		if managed {
			cts++
			c = cts
		}
		ops = append(ops, fmt.Sprintf("commit %d %d", id, c))
	}
	// the #2286 shape: a rewrite parked inside its scan (or after it), then a delete of some key, the
	// read mark moved past the tombstone, flush and a compaction, all before the write-back
	burst2286 := func() {
		o := fmt.Sprintf("gcbegin sel=%d", rng.Intn(8))
		if rng.Intn(3) != 0 {
			o += fmt.Sprintf(" at=%d", 1+rng.Intn(3))
		}
		ops = append(ops, o)
		write(true)
		if rng.Intn(2) == 0 {
			write(true)
		}
		ops = append(ops, fmt.Sprintf("begin %d 0 %d", nextID, rtsOf()), fmt.Sprintf("discard %d", nextID))
		nextID++
		if managed {
			disc = cts
			ops = append(ops, fmt.Sprintf("setdiscard %d", disc))
		}
		ops = append(ops, "flush", fmt.Sprintf("compact this=0 id=0 adj=%s", pick(rng, "1.5", "1.5", "0")))
		if rng.Intn(2) == 0 {
			ops = append(ops, "gccont")
		}
		ops = append(ops, "gcend")
	}
	if prefill {
		id := nextID
		nextID++
		w := uint64(0)
		if managed {
			w = math.MaxUint64
		}
		ops = append(ops, fmt.Sprintf("begin %d 1 %d", id, w))
		for x := 0; x < 80; x++ {
			v := make([]byte, 12)
			rng.Read(v)
			ops = append(ops, fmt.Sprintf("set %d 63%04x 0 0 0 %s 0", id, x, hx(v)))
		}
		c := uint64(0)
		if managed {
			cts++
			c = cts
		}
		ops = append(ops, fmt.Sprintf("commit %d %d", id, c), "flush", "compact this=0 id=0 adj=1.5")
	}
	// seed data so that there are several value-log files
	for i := 0; i < 3+rng.Intn(5); i++ {
		write(false)
	}
	if prefill {
		// while the session's keys are still only in L0/the memtable (nothing of them below the base level)
		burst2286()
		if rng.Intn(2) == 0 {
			write(false)
			burst2286()
		}
	}
	nops := 15 + rng.Intn(40)
	for i := 0; i < nops; i++ {
		r := rng.Intn(100)
		switch {
		case r < 22:
			write(false)
		case r < 30:
			write(true)
		case r < 36:
			if len(open) < 3 {
				ops = append(ops, fmt.Sprintf("begin %d 0 %d", nextID, rtsOf()))
				open = append(open, nextID)
				nextID++
			}
		case r < 40:
			if len(open) > 0 {
				j := rng.Intn(len(open))
				ops = append(ops, fmt.Sprintf("discard %d", open[j]))
				open = append(open[:j], open[j+1:]...)
			}
		case r < 47:
			if len(open) > 0 {
				ops = append(ops, fmt.Sprintf("get %d %s", open[rng.Intn(len(open))], hx(keys[rng.Intn(len(keys))])))
			}
		case r < 54:
			if len(open) > 0 {
				ops = append(ops, fmt.Sprintf("hold %d %d %s", nextH, open[rng.Intn(len(open))], hx(keys[rng.Intn(len(keys))])))
				holds = append(holds, nextH)
				nextH++
			}
		case r < 60:
			if len(holds) > 0 {
				ops = append(ops, fmt.Sprintf("hread %d", holds[rng.Intn(len(holds))]))
			}
		case r < 64:
			if len(open) > 0 && len(iters) < 2 {
				ops = append(ops, fmt.Sprintf("iopen %d %d rev=%d all=%d prefetch=%d", nextIt, open[rng.Intn(len(open))], rng.Intn(2), b2i(rng.Intn(3) == 0), b2i(rng.Intn(3) == 0)))
				iters = append(iters, nextIt)
				nextIt++
			}
		case r < 70:
			if len(iters) > 0 {
				ops = append(ops, fmt.Sprintf("inext %d", iters[rng.Intn(len(iters))]))
			}
		case r < 73:
			if len(iters) > 0 {
				j := rng.Intn(len(iters))
				ops = append(ops, fmt.Sprintf("iclose %d", iters[j]))
				iters = append(iters[:j], iters[j+1:]...)
			}
		case r < 81:
			ops = append(ops, "flush")
		case r < 86:
			if rng.Intn(3) == 0 {
				ops = append(ops, fmt.Sprintf("compact this=0 id=%d adj=%s", rng.Intn(2), pick(rng, "1.5", "1.5", "0.5")))
			} else {
				ops = append(ops, fmt.Sprintf("compact pick=%d id=%d adj=%s", rng.Intn(16), rng.Intn(2), pick(rng, "1.5", "1.5", "0")))
			}
		case r < 90 && !parked:
			burst2286()
		case r < 92:
			if !parked {
				ops = append(ops, fmt.Sprintf("gc ratio=%s", pick(rng, "0.01", "0.2", "0.5", "0.9")))
			}
		case r < 97:
			if !parked {
				o := fmt.Sprintf("gcbegin sel=%d", rng.Intn(8))
				if rng.Intn(2) == 0 {
					// park inside the scan
					o += fmt.Sprintf(" at=%d", rng.Intn(4))
				}
				ops = append(ops, o)
				parked = true
			} else if rng.Intn(3) == 0 {
				ops = append(ops, "gccont")
			} else {
				ops = append(ops, "gcend")
				parked = false
			}
		default:
			if managed {
				disc += uint64(rng.Intn(int(cts-disc) + 1))
				ops = append(ops, fmt.Sprintf("setdiscard %d", disc))
			} else if parked {
				ops = append(ops, "gcend")
				parked = false
			}
		}
	}
	if parked {
		ops = append(ops, "gcend")
	}
	for _, h := range holds {
		if rng.Intn(2) == 0 {
			ops = append(ops, fmt.Sprintf("hread %d", h))
		}
	}
	for _, it := range iters {
		ops = append(ops, fmt.Sprintf("inext %d", it), fmt.Sprintf("iclose %d", it))
	}
	// final rounds: compact everything down, GC again, and read everything back
	ops = append(ops, "flush", "compact this=0 id=0 adj=1.5", fmt.Sprintf("gc ratio=%s", pick(rng, "0.01", "0.3")))
	for _, id := range open {
		ops = append(ops, fmt.Sprintf("discard %d", id))
	}
	ops = append(ops, fmt.Sprintf("begin %d 0 %d", nextID, func() uint64 {
		if managed {
			return math.MaxUint64
		}
		return 0
	}()))
	for _, k := range keys {
		ops = append(ops, fmt.Sprintf("get %d %s", nextID, hx(k)))
	}
	ops = append(ops, fmt.Sprintf("discard %d", nextID))
	sort.Ints(holds)
	return ops
}
