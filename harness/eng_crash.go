package main

// Engine "crash": durability protocol, recovery, reopen (C07 C08 C10 C11).
//
// A workload (commits incl. multi-key transactions and value-log values, explicit flush,
// production compactions, clean close/reopen, SyncWrites on/off, a small MemTableSize so that
// WAL rotation happens inside commits) runs on a real on-disk *badger.DB while the vevent
// callback (repo/verif_on.go) snapshots the DB directory at every persistence event. Then
//   (i)   every snapshot is opened with the real badger.Open (kill model) and judged (C08, C11),
//   (ii)  power-loss images are synthesised from the event log and opened (C10),
//   (iii) the event log of each logical step is the T-corr output line, compared with the
//         FsOp sequence the Lean Protocol model emits for that step, and the result of opening
//         each crash image is compared with the Lean Recover model,
//   (iv)  close / read-only reopen / read-write reopen with other options (C07).
// See BadgerModel/{Fs,Protocol,Recover}.lean and Driver/Crash.lean for the model side.

import (
	"bytes"
	"crypto/sha1"
	"fmt"
	"math/rand"
	"os"
	"os/exec"
	"path/filepath"
	"sort"
	"strconv"
	"strings"
	"syscall"
	"time"

	badger "github.com/dgraph-io/badger/v4"
	"github.com/dgraph-io/badger/v4/options"
)

func init() {
	engines["crash"] = &Engine{Gen: genCrash, ExecX: execCrash}
}

// ---------------------------------------------------------------- directory images

type crFile struct {
	size int64
	blob [20]byte // key into crSess.blobs: content up to the last non-zero byte
}

type crImage map[string]crFile

func (s *crSess) putBlob(b []byte) [20]byte {
	h := sha1.Sum(b)
	if _, ok := s.blobs[h]; !ok {
		s.blobs[h] = append([]byte(nil), b...)
	}
	return h
}

// excluded from images and from the event stream (DESIGN §8.14)
func crIgnoredFile(base string) bool { return base == "LOCK" || base == "DISCARD" }

// readImage reads the whole directory (sizes + contents). Dirty MAP_SHARED pages are
// visible to read(2) (unified page cache), so this is exactly what a process kill leaves.
func (s *crSess) readImage(dir string) crImage {
	img := crImage{}
	ents, err := os.ReadDir(dir)
	if err != nil {
		return img
	}
	for _, e := range ents {
		if e.IsDir() || crIgnoredFile(e.Name()) {
			continue
		}
		b, err := os.ReadFile(filepath.Join(dir, e.Name()))
		if err != nil {
			continue // unlinked concurrently by another goroutine: a legal kill state too
		}
		n := len(b)
		for n > 0 && b[n-1] == 0 {
			n--
		}
		img[e.Name()] = crFile{size: int64(len(b)), blob: s.putBlob(b[:n])}
	}
	return img
}

// materialise writes the image sparsely (data prefix, then ftruncate to the size).
var crJudgeBase string

// judgeScratch: a directory for a materialised image. Images are opened hundreds of times per
// session; on tmpfs the fsyncs badger issues while opening/closing them cost nothing.
func judgeScratch() string {
	if crJudgeBase == "" {
		crJudgeBase = fmt.Sprintf("/dev/shm/verif-crash-%d", os.Getpid())
		if err := os.MkdirAll(crJudgeBase, 0o755); err != nil {
			crJudgeBase = "-"
		}
	}
	if crJudgeBase == "-" {
		return scratchDir()
	}
	sessCounter++
	d := filepath.Join(crJudgeBase, fmt.Sprintf("img-%d", sessCounter))
	os.RemoveAll(d)
	os.MkdirAll(d, 0o755)
	return d
}

func (s *crSess) materialise(img crImage) string {
	d := judgeScratch()
	for name, f := range img {
		p := filepath.Join(d, name)
		fp, err := os.Create(p)
		if err != nil {
			panic(err)
		}
		if b := s.blobs[f.blob]; len(b) > 0 {
			if int64(len(b)) > f.size {
				b = b[:f.size]
			}
			fp.Write(b)
		}
		fp.Truncate(f.size)
		fp.Close()
	}
	return d
}

func (img crImage) clone() crImage {
	o := crImage{}
	for k, v := range img {
		o[k] = v
	}
	return o
}

func (img crImage) names() string {
	var ns []string
	for k, f := range img {
		ns = append(ns, fmt.Sprintf("%s(%d)", k, f.size))
	}
	sort.Strings(ns)
	return strings.Join(ns, " ")
}

// ---------------------------------------------------------------- session

type crEnt struct {
	key []byte
	del bool
	val []byte
}

type crCommit struct {
	ts       uint64
	ents     []crEnt
	issuedAt int // number of events logged before Commit was called
	ackedAt  int // number of events logged when Commit returned nil
	step     int
}

type crEv struct {
	badger.VEvent
	tok   string // canonical token, "" = not part of the compared stream
	file  string // base name ("" for directory events)
	actor byte   // 'W' writer / caller thread, 'F' flusher
	step  int
}

type crCfg struct {
	sync    bool
	memsz   int
	thr     int
	vmax    int
	keep    int
	l0close bool
	lvls    bool // tiny level targets: the tables spread over several levels (C29 drop sessions)
}

type crSess struct {
	cfg     crCfg
	dir     string
	db      *badger.DB
	blobs   map[[20]byte][]byte
	events  []crEv
	snaps   []crImage // snaps[i] = directory right after events[i]
	initial crImage
	commits []crCommit
	// event sequence numbers at which a compaction / GC finished (older versions may be gone)
	compactedAt []int
	steps       int
	stepKind    []string
	recording   bool
	intents     []string       // the session's intent lines (for the real-kill child)
	vlogOf      map[string]int // "hexkey@version" -> value-log file holding the value
	vlogOrder   []string       // the same keys in the order they were written
	base        int            // events of earlier recordings in this session
	st          *Stats
	// C29: the step (+1; 0 = none) in which DropPrefix / DropAll ran, and what it dropped
	dropAt    int
	dropAll   bool
	dropPfx   [][]byte
	judgeStep int // step of the event whose image is being judged
	gcMoved   bool // a value-log GC of this session has written entries back
}

func (s *crSess) opts(dir string) badger.Options {
	o := badger.DefaultOptions(dir).WithLoggingLevel(badger.ERROR).WithNumCompactors(0).
		WithNumLevelZeroTables(100).WithNumLevelZeroTablesStall(200).
		WithNumVersionsToKeep(s.cfg.keep).WithValueThreshold(int64(s.cfg.thr)).
		WithMemTableSize(int64(s.cfg.memsz)).WithCompactL0OnClose(s.cfg.l0close).
		WithBaseTableSize(2 << 20).WithBaseLevelSize(10 << 20).WithBlockSize(256).
		WithMetricsEnabled(false).WithValueLogFileSize(1 << 20).WithLevelSizeMultiplier(2).
		WithValueLogMaxEntries(uint32(s.cfg.vmax)).WithSyncWrites(s.cfg.sync).
		WithCompression(options.None).WithBlockCacheSize(0).WithIndexCacheSize(0).
		WithDetectConflicts(false).WithNumMemtables(5)
	if s.cfg.lvls {
		o = o.WithBaseTableSize(2 << 10).WithBaseLevelSize(4 << 10)
	}
	return o
}

func crFileTok(path string) (tok, base string) {
	base = filepath.Base(path)
	num := func(suffix string) (int, bool) {
		n, err := strconv.Atoi(strings.TrimSuffix(base, suffix))
		return n, err == nil
	}
	switch {
	case strings.HasSuffix(base, ".mem"):
		if n, ok := num(".mem"); ok {
			return fmt.Sprintf("mem%d", n), base
		}
	case strings.HasSuffix(base, ".vlog"):
		if n, ok := num(".vlog"); ok {
			return fmt.Sprintf("vlog%d", n), base
		}
	case strings.HasSuffix(base, ".sst"):
		if n, ok := num(".sst"); ok {
			return fmt.Sprintf("sst%d", n), base
		}
	}
	return base, base
}

// onEvent runs under the vevent mutex, in the goroutine that performed the operation.
func (s *crSess) onEvent(ev badger.VEvent) {
	e := crEv{VEvent: ev, step: s.steps, actor: 'W'}
	e.Seq = s.base + ev.Seq
	name := badger.VerifEventNames[ev.Kind]
	switch ev.Kind {
	case badger.VevSyncDir:
		e.tok = "syncdir"
		if ev.A == 1 {
			e.actor = 'F' // handleMemTableFlush: between the table's msync and its MANIFEST record
		}
	case badger.VevMkdir, badger.VevLock, badger.VevRenameFrom:
		e.tok = ""
		_, e.file = crFileTok(ev.Path)
	default:
		ft, base := crFileTok(ev.Path)
		e.file = base
		if !crIgnoredFile(base) {
			e.tok = name + ":" + ft
			if ev.Kind == badger.VevClose && ev.A >= 0 {
				e.tok += ":trunc"
			}
			isSst := strings.HasSuffix(base, ".sst")
			isMem := strings.HasSuffix(base, ".mem")
			k := ev.Kind
			build := k == badger.VevCreate || k == badger.VevWrite || k == badger.VevSync
			if (isSst && build) || (base == "MANIFEST" && (k == badger.VevWrite || k == badger.VevSync)) || (isMem && k == badger.VevDelete) {
				e.actor = 'F'
			}
		}
	}
	s.events = append(s.events, e)
	s.snaps = append(s.snaps, s.readImage(s.dir))
}

func (s *crSess) startRecording() {
	s.base = len(s.events)
	badger.VerifEventsStart(s.onEvent)
	s.recording = true
}

func (s *crSess) stopRecording() {
	if s.recording {
		badger.VerifEventsStop()
		s.recording = false
	}
}

func (s *crSess) nEvents() int {
	return s.base + badger.VerifEventCount()
}

// barrier: the flusher goroutine has turned every immutable memtable into an L0 table and
// deleted its WAL (both happen under db.lock before len(db.imm) drops).
func (s *crSess) barrier() {
	if s.db == nil {
		return
	}
	deadline := time.Now().Add(120 * time.Second)
	for badger.VerifImmCount(s.db) > 0 {
		time.Sleep(100 * time.Microsecond)
		if time.Now().After(deadline) {
			panic("[impl-hang] the flusher did not finish within 120 s")
		}
	}
}

func (s *crSess) closeAll() {
	s.stopRecording()
	if s.db != nil {
		_ = s.db.Close()
		s.db = nil
	}
	if s.dir != "" {
		os.RemoveAll(s.dir)
		s.dir = ""
	}
}

// stepTokens renders the compared events of step `step` as the T-corr output.
func (s *crSess) stepTokens(step int, sequential bool) string {
	var w, f []string
	var evs []crEv
	for _, e := range s.events {
		if e.step == step && e.tok != "" {
			evs = append(evs, e)
		}
	}
	if sequential {
		// parallel table builders of a compaction: group the build phase (before the first
		// syncdir) by table, keep everything else in order
		end := len(evs)
		for i, e := range evs {
			if e.tok == "syncdir" || e.file == "MANIFEST" {
				end = i
				break
			}
		}
		build := append([]crEv(nil), evs[:end]...)
		allSst := true
		for _, e := range build {
			if !strings.HasSuffix(e.file, ".sst") || e.Kind == badger.VevDelete {
				allSst = false
			}
		}
		if allSst {
			sort.SliceStable(build, func(i, j int) bool { return build[i].file < build[j].file })
			copy(evs, build)
		}
		// vlog.Close walks a Go map: order the run of close:vlogN events by file
		for i := 0; i < len(evs); {
			j := i
			suffix := ".vlog"
			if i < len(evs) && strings.HasSuffix(evs[i].file, ".sst") {
				suffix = ".sst"
			}
			for j < len(evs) && evs[j].Kind == badger.VevClose && strings.HasSuffix(evs[j].file, suffix) {
				j++
			}
			if j > i+1 {
				run := evs[i:j]
				sort.SliceStable(run, func(a, b int) bool { return run[a].file < run[b].file })
			}
			if j == i {
				j++
			}
			i = j
		}
		for _, e := range evs {
			w = append(w, e.tok)
		}
		return "S: " + strings.Join(w, " ")
	}
	for _, e := range evs {
		if e.actor == 'F' {
			f = append(f, e.tok)
		} else {
			w = append(w, e.tok)
		}
	}
	return "W: " + strings.Join(w, " ") + " | F: " + strings.Join(f, " ")
}

// ---------------------------------------------------------------- what an image must hold

type crStored struct {
	key   string
	ver   uint64
	del   bool
	val   []byte
	rderr string
}

func crDumpDB(db *badger.DB) []crStored {
	seenAt := map[string]int{}
	var out []crStored
	add := func(e badger.VEntry) {
		if bytes.HasPrefix(e.Key, []byte("!badger!")) {
			return
		}
		id := fmt.Sprintf("%x@%d", e.Key, e.Version)
		if ix, dup := seenAt[id]; dup {
			// a value-log GC write-back next to the original entry (same key and version, the
			// original's value pointer is stale): show the copy DB.get serves
			if out[ix].rderr != "" || e.ReadErr != "" || !bytes.Equal(out[ix].val, e.Value) {
				if g, ok, err := badger.VerifGetAt(db, e.Key, e.Version); err == nil && ok && g.Version == e.Version {
					out[ix] = crStored{key: string(g.Key), ver: g.Version, del: g.Meta&1 != 0, val: g.Value, rderr: g.ReadErr}
				}
			}
			return
		}
		seenAt[id] = len(out)
		out = append(out, crStored{key: string(e.Key), ver: e.Version, del: e.Meta&1 != 0, val: e.Value, rderr: e.ReadErr})
	}
	for _, m := range badger.VerifMemEntries(db) {
		for _, e := range m {
			add(e)
		}
	}
	for _, lvl := range badger.VerifLevels(db) {
		for _, t := range lvl {
			for _, e := range t.Entries {
				add(e)
			}
		}
	}
	sort.Slice(out, func(i, j int) bool {
		if out[i].key != out[j].key {
			return out[i].key < out[j].key
		}
		return out[i].ver > out[j].ver
	})
	return out
}

func fnv64(s string) uint64 {
	h := uint64(14695981039346656037)
	for i := 0; i < len(s); i++ {
		h ^= uint64(s[i])
		h *= 1099511628211
	}
	return h
}

func crCanon(es []crStored) string {
	var sb strings.Builder
	for _, e := range es {
		d := 0
		if e.del {
			d = 1
		}
		v := hx(e.val)
		if e.rderr != "" {
			v = "!" // value-log pointer that cannot be followed
		}
		fmt.Fprintf(&sb, "%s@%d:%d:%s;", hx([]byte(e.key)), e.ver, d, v)
	}
	return sb.String()
}

type crVerdict struct {
	out   string   // T-corr output of the crash line
	fails []string // "[tag] message"
}

// judgeImage opens the image with the real badger.Open and evaluates C08 / C10 / C11 / C14 on
// it: acked <= m <= issued, state = commits[:m], no partial transaction, validate, nextTxnTs.
// `exact`: no compaction or GC had finished before the crash, so the stored version set must
// equal the writes of commits[:m] exactly.
func (s *crSess) judgeImage(img crImage, acked, issued int, exact bool, prop string) crVerdict {
	d := s.materialise(img)
	defer os.RemoveAll(d)
	return s.judgeDir(d, img.names(), acked, issued, exact, prop)
}

func (s *crSess) judgeDir(d, names string, acked, issued int, exact bool, prop string) crVerdict {
	if s.dropAt > 0 && s.judgeStep >= s.dropAt-1 {
		return s.judgeDrop(d, names, s.judgeStep > s.dropAt-1)
	}
	var v crVerdict
	fail := func(tag, msg string) { v.fails = append(v.fails, "["+tag+"] "+msg) }
	db, err := badger.Open(s.opts(d).WithSyncWrites(false))
	if err != nil {
		v.out = "err:" + crOpenErrKind(err)
		fail(prop+"-open", fmt.Sprintf("Open of the crash image failed: %v (files: %s)", err, names))
		return v
	}
	defer db.Close()
	if err := badger.VerifValidate(db); err != nil {
		fail("C14-validate", err.Error())
	}
	next := badger.VerifNextTxnTs(db)
	stored := crDumpDB(db)
	// Which stored versions are legal: every stored (key, version) must be a write of a commit
	// issued before the crash point, with that commit's value. (A timestamp can be handed out
	// twice in one session — a compaction drops every entry of the newest commits and a reopen
	// restarts nextTxnTs below them — so a version is looked up among all commits carrying it.)
	if issued > len(s.commits) {
		issued = len(s.commits)
	}
	if acked > issued {
		acked = issued
	}
	type kv struct {
		key string
		ver uint64
	}
	byVer := map[kv][]int{}
	for i, c := range s.commits {
		for _, e := range c.ents {
			k := kv{string(e.key), c.ts}
			byVer[k] = append(byVer[k], i)
		}
	}
	var maxVer uint64
	for _, e := range stored {
		if e.ver > maxVer {
			maxVer = e.ver
		}
		cands := byVer[kv{e.key, e.ver}]
		if len(cands) == 0 {
			fail(prop+"-unknown-version", fmt.Sprintf("stored entry %s@%d belongs to no commit", hx([]byte(e.key)), e.ver))
			continue
		}
		okc := false
		for _, ci := range cands {
			if ci >= issued {
				continue
			}
			for _, w := range s.commits[ci].ents {
				if string(w.key) == e.key && w.del == e.del && (w.del || bytes.Equal(w.val, e.val)) {
					okc = true
				}
			}
		}
		switch {
		case cands[0] >= issued:
			fail(prop+"-future", fmt.Sprintf("stored entry %s@%d belongs to commit #%d, only %d commits had been issued", hx([]byte(e.key)), e.ver, cands[0]+1, issued))
		case e.rderr != "":
			fail(prop+"-vlog-read", fmt.Sprintf("value of %s@%d unreadable: %s", hx([]byte(e.key)), e.ver, e.rderr))
		case !okc:
			fail(prop+"-wrong-value", fmt.Sprintf("%s@%d holds del=%v %s, which no commit wrote at that version", hx([]byte(e.key)), e.ver, e.del, hx(e.val)))
		}
	}
	v.out = fmt.Sprintf("ok next=%d n=%d h=%016x", next, len(stored), fnv64(crCanon(stored)))
	// the visible state: a read of every key at the newest timestamp
	keySet := map[string]bool{}
	for _, c := range s.commits[:issued] {
		for _, e := range c.ents {
			keySet[string(e.key)] = true
		}
	}
	var wantKeys []string
	for k := range keySet {
		wantKeys = append(wantKeys, k)
	}
	sort.Strings(wantKeys)
	type got struct {
		found bool
		val   []byte
		err   string
	}
	gets := map[string]got{}
	_ = db.View(func(txn *badger.Txn) error {
		for _, k := range wantKeys {
			it, err := txn.Get([]byte(k))
			switch {
			case err == badger.ErrKeyNotFound:
				gets[k] = got{}
			case err != nil:
				gets[k] = got{err: err.Error()}
			default:
				val, verr := it.ValueCopy(nil)
				if verr != nil {
					gets[k] = got{err: verr.Error()}
				} else {
					gets[k] = got{found: true, val: val}
				}
			}
		}
		return nil
	})
	for _, k := range wantKeys {
		if g := gets[k]; g.err != "" {
			fail(prop+"-read", fmt.Sprintf("Get(%s): %s", hx([]byte(k)), g.err))
		}
	}
	have := map[kv]bool{}
	for _, e := range stored {
		have[kv{e.key, e.ver}] = true
	}
	// does the recovered state equal commits[:m]? (first mismatch, "" when it does)
	matches := func(m int) string {
		latest := map[string]crEnt{}
		for _, c := range s.commits[:m] {
			for _, e := range c.ents {
				latest[string(e.key)] = e
			}
		}
		for _, k := range wantKeys {
			w, ok := latest[k]
			g := gets[k]
			wantFound := ok && !w.del
			if g.found != wantFound || (wantFound && !bytes.Equal(g.val, w.val)) {
				return fmt.Sprintf("Get(%s) = found:%v %s; commits[:%d] leave found:%v %s", hx([]byte(k)), g.found, hx(g.val), m, wantFound, hx(w.val))
			}
		}
		if exact {
			n := 0
			for _, c := range s.commits[:m] {
				for _, e := range c.ents {
					if !have[kv{string(e.key), c.ts}] {
						return fmt.Sprintf("%s@%d of commits[:%d] is not in the recovered state", hx(e.key), c.ts, m)
					}
					n++
				}
			}
			for _, e := range stored {
				in := false
				for _, ci := range byVer[kv{e.key, e.ver}] {
					if ci < m {
						in = true
					}
				}
				if !in {
					return fmt.Sprintf("stored %s@%d is not a write of commits[:%d]", hx([]byte(e.key)), e.ver, m)
				}
			}
		}
		return ""
	}
	matchesLoose := func(m int) string {
		latest := map[string]crEnt{}
		for _, c := range s.commits[:m] {
			for _, e := range c.ents {
				latest[string(e.key)] = e
			}
		}
		for _, k := range wantKeys {
			w, ok := latest[k]
			g := gets[k]
			wantFound := ok && !w.del
			if wantFound && len(w.val) >= s.cfg.thr {
				continue // stored in the value log
			}
			if g.found != wantFound || (wantFound && !bytes.Equal(g.val, w.val)) {
				return "x"
			}
		}
		return ""
	}
	m := -1
	for c := issued; c >= acked; c-- {
		if matches(c) == "" {
			m = c
			break
		}
	}
	if m < 0 {
		lower := -1
		for c := acked - 1; c >= 0; c-- {
			if matches(c) == "" {
				lower = c
				break
			}
		}
		// the same search with value-log values not compared: the keys and versions of an
		// acknowledged prefix are there, a value is not
		if ml := func() int {
			for c := issued; c >= acked; c-- {
				if matchesLoose(c) == "" {
					return c
				}
			}
			return -1
		}(); ml >= 0 {
			// is the commit that wrote the unreadable value an acknowledged one?
			tag := "-value-lost"
			latest := map[string]int{}
			for ci, c := range s.commits[:ml] {
				for _, e := range c.ents {
					latest[string(e.key)] = ci
				}
			}
			for _, k := range wantKeys {
				ci, ok := latest[k]
				if !ok || s.commits[ci].ents == nil {
					continue
				}
				var w crEnt
				for _, e := range s.commits[ci].ents {
					if string(e.key) == k {
						w = e
					}
				}
				g := gets[k]
				if !w.del && len(w.val) >= s.cfg.thr && !(g.found && bytes.Equal(g.val, w.val)) && ci < acked {
					tag = "-acked-value-lost"
				}
			}
			fail(prop+tag, fmt.Sprintf("the recovered keys are those of commits[:%d] (acked %d) but a value-log value is not: %s", ml, acked, matches(ml)))
		} else if lower >= 0 {
			fail(prop+"-lost-acked", fmt.Sprintf("recovered state equals commits[:%d] but %d commits were acknowledged (first lost: ts=%d)", lower, acked, s.commits[lower].ts))
		} else {
			fail(prop+"-partial-txn", fmt.Sprintf("recovered state is no prefix of the commit order (acked %d, issued %d): %s", acked, issued, matches(acked)))
		}
	}
	// C11: the next commit's timestamp is above every stored version and its write shadows
	if next <= maxVer {
		fail("C11-next-ts", fmt.Sprintf("nextTxnTs=%d after reopen, stored max version %d", next, maxVer))
	}
	probe := []byte("a")
	if len(wantKeys) > 0 {
		probe = []byte(wantKeys[0])
	}
	_ = m
	nv := []byte("c11-probe")
	if err := db.Update(func(txn *badger.Txn) error { return txn.Set(probe, nv) }); err != nil {
		fail("C11-commit", fmt.Sprintf("commit after reopen: %v", err))
	} else {
		_ = db.View(func(txn *badger.Txn) error {
			it, err := txn.Get(probe)
			if err != nil {
				fail("C11-shadow", fmt.Sprintf("Get after new commit: %v", err))
				return nil
			}
			val, _ := it.ValueCopy(nil)
			if it.Version() <= maxVer || !bytes.Equal(val, nv) {
				fail("C11-shadow", fmt.Sprintf("new write got version %d (stored max %d), read back %s", it.Version(), maxVer, hx(val)))
			}
			return nil
		})
	}
	return v
}

// ---------------------------------------------------------------- C29: crash during a drop

func (s *crSess) isDropped(k string) bool {
	if s.dropAll {
		return true
	}
	for _, p := range s.dropPfx {
		if bytes.HasPrefix([]byte(k), p) {
			return true
		}
	}
	return false
}

// drop: DropPrefix / DropAll on the live database, as one recorded step. Every commit issued
// before it has been acknowledged; the step's events are judged by judgeDrop.
func (s *crSess) drop(words []string, emit func(string, string), fail func(string)) {
	s.barrier()
	nl := 0
	for _, l := range badger.VerifLevels(s.db) {
		if len(l) > 0 {
			nl++
		}
	}
	s.st.Inc(fmt.Sprintf("drop:nonempty-levels=%d,gc=%v", nl, s.gcMoved))
	s.dropAt = s.steps + 1
	s.dropAll = false
	s.dropPfx = nil
	var err error
	if len(words) > 0 && words[0] == "all" {
		s.dropAll = true
		err = s.db.DropAll()
	} else {
		for _, x := range words {
			s.dropPfx = append(s.dropPfx, unhx(x))
		}
		err = s.db.DropPrefix(s.dropPfx...)
	}
	s.barrier()
	out := "ok " + s.stepTokens(s.steps, true)
	if err != nil {
		out = "err:" + err.Error()
		fail("[C29-crash-drop-error] the drop returned an error: " + err.Error())
	}
	emit("drop "+strings.Join(words, " "), out)
	s.st.Inc(fmt.Sprintf("drop:all=%v,prefixes=%d", s.dropAll, len(s.dropPfx)))
	s.stepKind = append(s.stepKind, "drop")
	s.steps++
	if err == nil {
		for _, f := range s.dropJudgeDB(s.db, true, "live-", false) {
			fail(f)
		}
	}
}

// judgeDrop opens the image of a crash during (after = false) or after (after = true) the drop.
func (s *crSess) judgeDrop(d, names string, after bool) crVerdict {
	var v crVerdict
	db, err := badger.Open(s.opts(d).WithSyncWrites(false))
	if err != nil {
		v.out = "err:" + crOpenErrKind(err)
		v.fails = append(v.fails, fmt.Sprintf("[C29-crash-open] Open of the image of a crash during a drop failed: %v (files: %s)", err, names))
		return v
	}
	defer db.Close()
	v.fails = s.dropJudgeDB(db, after, "", true)
	v.out = "ok"
	return v
}

// dropJudgeDB: the state of an opened database against the commits issued before the drop.
// A dropped key reads its pre-drop value or is absent (absent when the drop had completed);
// every other key reads its pre-drop value; every stored version is a write of some commit;
// a new commit works and gets a timestamp above every stored version.
func (s *crSess) dropJudgeDB(db *badger.DB, after bool, sub string, probeCommit bool) (fails []string) {
	fail := func(tag, msg string) { fails = append(fails, "[C29-crash-"+sub+tag+"] "+msg) }
	if err := badger.VerifValidate(db); err != nil {
		fail("validate", err.Error())
	}
	type kvT struct {
		key string
		ver uint64
	}
	byVer := map[kvT][]crEnt{}
	latest := map[string]crEnt{}
	hist := map[string][]crEnt{}
	for _, c := range s.commits {
		for _, e := range c.ents {
			k := kvT{string(e.key), c.ts}
			byVer[k] = append(byVer[k], e)
			latest[string(e.key)] = e
			hist[string(e.key)] = append(hist[string(e.key)], e)
		}
	}
	var maxVer uint64
	for _, e := range crDumpDB(db) {
		if e.ver > maxVer {
			maxVer = e.ver
		}
		cands := byVer[kvT{e.key, e.ver}]
		okc := false
		for _, w := range cands {
			if w.del == e.del && (w.del || bytes.Equal(w.val, e.val)) {
				okc = true
			}
		}
		switch {
		case len(cands) == 0:
			fail("unknown-version", fmt.Sprintf("stored entry %s@%d belongs to no commit", hx([]byte(e.key)), e.ver))
		case e.rderr != "":
			fail("vlog-read", fmt.Sprintf("value of %s@%d unreadable: %s", hx([]byte(e.key)), e.ver, e.rderr))
		case !okc:
			fail("wrong-value", fmt.Sprintf("%s@%d holds del=%v %s, which no commit wrote at that version", hx([]byte(e.key)), e.ver, e.del, hx(e.val)))
		}
	}
	var keys []string
	for k := range latest {
		keys = append(keys, k)
	}
	sort.Strings(keys)
	_ = db.View(func(txn *badger.Txn) error {
		for _, k := range keys {
			w := latest[k]
			found, val := false, []byte(nil)
			it, err := txn.Get([]byte(k))
			switch {
			case err == badger.ErrKeyNotFound:
			case err != nil:
				fail("read", fmt.Sprintf("Get(%s): %v", hx([]byte(k)), err))
				continue
			default:
				val, err = it.ValueCopy(nil)
				if err != nil {
					fail("read", fmt.Sprintf("Get(%s): value: %v", hx([]byte(k)), err))
					continue
				}
				found = true
			}
			pre := found == !w.del && (w.del || bytes.Equal(val, w.val))
			switch {
			case !s.isDropped(k):
				if !pre {
					fail("other-key", fmt.Sprintf("key %s (not dropped) reads found:%v %s, before the drop found:%v %s", hx([]byte(k)), found, hx(val), !w.del, hx(w.val)))
				}
			case !found:
			case after:
				fail("visible-after-drop", fmt.Sprintf("dropped key %s is visible after the completed drop: %s", hx([]byte(k)), hx(val)))
			case pre:
			default:
				old := false
				for _, h := range hist[k] {
					if !h.del && bytes.Equal(h.val, val) {
						old = true
					}
				}
				if old {
					// finding F32: the newest version goes first (WAL / memtable, then L0, then the
					// lower levels), so a crash in between shows an older version again
					// known (F32, what is left of it): a drop after a value-log GC whose write-back
					// put an OLDER version of the key above its newest version (memtable / L0)
					tag := ""
					if s.gcMoved {
						tag = "[F32:drop-after-gc-stale-value] "
					}
					fails = append(fails, fmt.Sprintf("%s[C29-crash-%sstale-value] dropped key %s reads %s, an older value of it; right before the drop it read found:%v %s", tag, sub, hx([]byte(k)), hx(val), !w.del, hx(w.val)))
				} else {
					fail("foreign-value", fmt.Sprintf("dropped key %s reads %s, a value it never had", hx([]byte(k)), hx(val)))
				}
			}
		}
		return nil
	})
	// the database keeps accepting writes, above every stored version
	if next := badger.VerifNextTxnTs(db); next <= maxVer {
		fail("next-ts", fmt.Sprintf("nextTxnTs=%d, stored max version %d", next, maxVer))
	}
	if !probeCommit {
		return fails
	}
	probe := []byte("a")
	if len(keys) > 0 {
		probe = []byte(keys[0])
	}
	nv := []byte("c29-probe")
	if err := db.Update(func(txn *badger.Txn) error { return txn.Set(probe, nv) }); err != nil {
		fail("commit", fmt.Sprintf("commit after the drop / the recovery: %v", err))
	} else {
		_ = db.View(func(txn *badger.Txn) error {
			it, err := txn.Get(probe)
			if err != nil {
				fail("commit", fmt.Sprintf("Get after a new commit: %v", err))
				return nil
			}
			val, _ := it.ValueCopy(nil)
			if it.Version() <= maxVer || !bytes.Equal(val, nv) {
				fail("commit", fmt.Sprintf("new write got version %d (stored max %d), read back %s", it.Version(), maxVer, hx(val)))
			}
			return nil
		})
	}
	return fails
}

func crOpenErrKind(err error) string {
	e := err.Error()
	switch {
	case strings.Contains(e, "file does not exist for table"):
		return "missing-table"
	case strings.Contains(e, "Create a new file"):
		return "zero-length-log"
	case strings.Contains(e, "Truncate Needed"), strings.Contains(e, "truncate"):
		return "truncate-needed"
	case strings.Contains(e, "checksum"):
		return "checksum"
	case strings.Contains(e, "no manifest"):
		return "no-manifest"
	}
	return "other"
}

// ---------------------------------------------------------------- executor

func (s *crSess) ackedIssued(g int) (acked, issued int) {
	for _, c := range s.commits {
		// acknowledged when ackedAt events had been logged: before event ackedAt+1, so a crash
		// right after event g >= ackedAt can come after the acknowledgement
		if c.ackedAt <= g {
			acked++
		}
		if c.issuedAt < g {
			issued++
		}
	}
	return
}

func (s *crSess) exactAt(g int) bool {
	for _, c := range s.compactedAt {
		if c <= g {
			return false
		}
	}
	return true
}

func parseCrEnts(w string) []crEnt {
	var out []crEnt
	if w == "" || w == "-" {
		return out
	}
	for _, p := range strings.Split(w, ",") {
		f := strings.Split(p, ":")
		if len(f) != 3 {
			continue
		}
		out = append(out, crEnt{key: unhx(f[0]), del: f[1] == "1", val: unhx(f[2])})
	}
	return out
}

func execCrash(intents []string, st *Stats) (final, outs, oracle []string) {
	s := &crSess{st: st}
	defer func() {
		s.closeAll()
		if crJudgeBase != "" && crJudgeBase != "-" {
			os.RemoveAll(crJudgeBase)
		}
	}()
	emit := func(op, out string) {
		final = append(final, op)
		outs = append(outs, out)
	}
	fail := func(msg string) {
		oracle = append(oracle, fmt.Sprintf("line %d: %s :: %s", len(final), final[len(final)-1], msg))
	}
	open := func() error {
		db, err := badger.Open(s.opts(s.dir))
		if err != nil {
			return err
		}
		s.db = db
		s.barrier()
		return nil
	}
	for _, line := range intents {
		w := strings.Fields(line)
		if len(w) == 0 {
			continue
		}
		progress(line)
		switch w[0] {
		case "crash", "power", "realkill", "dump", "open-ro", "close-ro", "close", "open":
			continue // regenerated by the executor (replay of a final ops file)
		}
		if w[0] != "reset" && s.dir == "" {
			emit(line, "bad-op")
			continue
		}
		st.Inc("op:" + w[0])
		s.intents = append(s.intents, line)
		switch w[0] {
		case "reset":
			s.closeAll()
			kv := kvWords(w[1:])
			*s = crSess{st: st, blobs: map[[20]byte][]byte{}, vlogOf: map[string]int{}}
			s.cfg = crCfg{sync: kvInt(kv, "sync", 1) != 0, memsz: kvInt(kv, "memsz", 8192), thr: kvInt(kv, "thr", 32),
				vmax: kvInt(kv, "vmax", 1000), keep: kvInt(kv, "keep", 1000), l0close: kvInt(kv, "l0close", 0) != 0, lvls: kvInt(kv, "lvls", 0) != 0}
			s.dir = scratchDir()
			s.initial = crImage{}
			s.startRecording()
			err := open()
			op := fmt.Sprintf("reset sync=%d memsz=%d thr=%d vmax=%d keep=%d l0close=%d", b2i(s.cfg.sync), s.cfg.memsz, s.cfg.thr, s.cfg.vmax, s.cfg.keep, b2i(s.cfg.l0close))
			if s.cfg.lvls {
				op += " lvls=1"
			}
			if err != nil {
				emit(op, "err:open:"+err.Error())
				s.closeAll()
				continue
			}
			emit(op, s.stepTokens(s.steps, false))
			s.stepKind = append(s.stepKind, "reset")
			s.steps++
		case "commit":
			if s.db == nil {
				emit(line, "bad-op")
				continue
			}
			ents := parseCrEnts(w[1])
			c := crCommit{ents: ents, issuedAt: s.nEvents(), step: s.steps}
			txn := s.db.NewTransaction(true)
			var err error
			for _, e := range ents {
				if e.del {
					err = txn.Delete(e.key)
				} else {
					err = txn.Set(e.key, e.val)
				}
				if err != nil {
					break
				}
			}
			if err == nil {
				// the commit timestamp is fixed before the write is queued; a crash between the
				// allocation and the acknowledgement may or may not persist the commit
				err = txn.Commit()
			}
			if err != nil {
				txn.Discard()
				emit(line, "err:"+errKind(err))
				s.barrier()
				s.stepKind = append(s.stepKind, "commit-err")
				s.steps++
				continue
			}
			c.ackedAt = s.nEvents()
			c.ts = badger.VerifNextTxnTs(s.db) - 1
			s.commits = append(s.commits, c)
			s.barrier()
			rot := 0
			for _, e := range s.events {
				if e.step == s.steps && e.Kind == badger.VevCreate && strings.HasSuffix(e.file, ".mem") {
					rot = 1
				}
			}
			vf := 0
			for _, e := range s.events {
				if e.step == s.steps && vf == 0 && e.Kind == badger.VevWrite && strings.HasSuffix(e.file, ".vlog") && e.A >= 20 {
					fmt.Sscanf(strings.TrimPrefix(e.tok, "write:vlog"), "%d", &vf)
				}
			}
			for _, e := range ents {
				if !e.del && len(e.val) >= s.cfg.thr && vf > 0 {
					k := fmt.Sprintf("%s@%d", hx(e.key), c.ts)
					s.vlogOf[k] = vf
					s.vlogOrder = append(s.vlogOrder, k)
				}
			}
			emit(fmt.Sprintf("commit %s rot=%d", w[1], rot), fmt.Sprintf("ts=%d ", c.ts)+s.stepTokens(s.steps, false))
			st.Inc(fmt.Sprintf("commit:n=%d,rot=%d", len(ents), rot))
			s.stepKind = append(s.stepKind, "commit")
			s.steps++
		case "flush":
			if s.db == nil {
				emit(line, "bad-op")
				continue
			}
			err := badger.VerifFlush(s.db)
			s.barrier()
			if err != nil {
				emit(line, "err:"+errKind(err))
			} else {
				emit("flush", s.stepTokens(s.steps, false))
			}
			s.stepKind = append(s.stepKind, "flush")
			s.steps++
		case "compact", "compact-none":
			if s.db == nil {
				emit(line, "bad-op")
				continue
			}
			kv := kvWords(w[1:])
			lvl := kvInt(kv, "pick", 0)
			var ne []int
			for i, l := range badger.VerifLevels(s.db) {
				if len(l) > 0 {
					ne = append(ne, i)
				}
			}
			this := 0
			if len(ne) > 0 {
				this = ne[lvl%len(ne)]
			}
			badger.VerifBackdate(s.db, 2*time.Hour)
			evBefore := s.nEvents()
			err := badger.VerifCompact(s.db, 0, this, 1.5, 1.5, nil)
			if err != nil {
				emit(fmt.Sprintf("compact-none pick=%d", lvl), "none")
				s.stepKind = append(s.stepKind, "compact-none")
				s.steps++
				continue
			}
			s.compactedAt = append(s.compactedAt, evBefore)
			var created, deleted []string
			for _, e := range s.events {
				if e.step != s.steps {
					continue
				}
				if e.Kind == badger.VevCreate && strings.HasSuffix(e.file, ".sst") {
					created = append(created, strings.TrimPrefix(e.tok, "create:sst"))
				}
				if e.Kind == badger.VevDelete && strings.HasSuffix(e.file, ".sst") {
					deleted = append(deleted, strings.TrimPrefix(e.tok, "delete:sst"))
				}
			}
			sort.Slice(created, func(i, j int) bool { a, _ := strconv.Atoi(created[i]); b, _ := strconv.Atoi(created[j]); return a < b })
			// content of the new tables (the model takes the picker's and the merge's result as given)
			var outs []string
			for _, id := range created {
				for li, lvl := range badger.VerifLevels(s.db) {
					for _, t := range lvl {
						if fmt.Sprint(t.ID) != id {
							continue
						}
						var es []string
						for _, e := range t.Entries {
							es = append(es, fmt.Sprintf("%s@%d", hx(e.Key), e.Version))
						}
						outs = append(outs, fmt.Sprintf("%d/%s", li, strings.Join(es, "+")))
					}
				}
			}
			if len(outs) == 0 {
				outs = []string{"-"}
			}
			emit(fmt.Sprintf("compact pick=%d new=%s del=%s outs=%s", lvl, strings.Join(created, ","), strings.Join(deleted, ","), strings.Join(outs, ",")), s.stepTokens(s.steps, true))
			st.Inc(fmt.Sprintf("compact:L%d,new=%d,del=%d", this, len(created), len(deleted)))
			s.stepKind = append(s.stepKind, "compact")
			s.steps++
		case "batch":
			if s.db == nil || len(w) < 3 {
				emit(line, "bad-op")
				continue
			}
			s.batch(w[1:], emit, fail)
		case "gc", "gc-none":
			if s.db == nil {
				emit(line, "bad-op")
				continue
			}
			s.gc(emit, fail)
		case "reopen":
			if s.db == nil {
				emit(line, "bad-op")
				continue
			}
			emit("reopen", "ok")
			pre := s.allReads(s.db)
			err := s.db.Close()
			s.db = nil
			closeTok := s.stepTokens(s.steps, true)
			if err != nil {
				emit("close", "err:"+err.Error())
				continue
			}
			emit("close", closeTok)
			s.stepKind = append(s.stepKind, "close")
			s.steps++
			if err := open(); err != nil {
				emit("open", "err:open:"+err.Error())
				fail("[C07-reopen] Open after a clean Close failed: " + err.Error())
				continue
			}
			emit("open", s.stepTokens(s.steps, false))
			s.stepKind = append(s.stepKind, "open")
			s.steps++
			if got := s.allReads(s.db); got != pre {
				fail(fmt.Sprintf("[C07-rw-reads] reads after Close + Open differ: before %.300s after %.300s", pre, got))
			}
			s.c11Live(fail)
		case "c07":
			if s.db == nil {
				emit(line, "bad-op")
				continue
			}
			emit("c07", "ok")
			s.c07(emit, fail)
			if s.db != nil {
				s.c11Live(fail)
			}
		case "drop":
			if s.db == nil {
				emit(line, "bad-op")
				continue
			}
			s.drop(w[1:], emit, fail)
		case "dropcheck":
			if s.db == nil || s.dropAt == 0 {
				emit(line, "bad-op")
				continue
			}
			emit(line, "ok")
			s.stopRecording()
			err := s.db.Close()
			s.db = nil
			if err != nil {
				fail("[C29-crash-reopen] Close after the drop failed: " + err.Error())
				continue
			}
			if err := open(); err != nil {
				fail("[C29-crash-reopen] Open after a completed drop and a clean Close failed: " + err.Error())
				continue
			}
			for _, f := range s.dropJudgeDB(s.db, true, "reopen-", true) {
				fail(f)
			}
		case "crashes":
			kv := kvWords(w[1:])
			emit(line, "ok")
			s.stopRecording()
			if kvInt(kv, "kill", 1) != 0 {
				s.crashes(kv, emit, fail)
			}
			if s.cfg.sync && kvInt(kv, "power", 1) != 0 {
				s.powerLoss(kv, emit, fail)
			}
			if n := kvInt(kv, "realkills", 0); n > 0 {
				s.realKills(n, emit, fail)
			}
		default:
			emit(line, "bad-op")
		}
	}
	return
}

// crashes judges every kill snapshot (and the synthesised sub-event images).
func (s *crSess) crashes(kv map[string]string, emit func(string, string), fail func(string)) {
	stride := kvInt(kv, "stride", 1)
	var last crImage
	sameImg := func(a, b crImage) bool {
		if a == nil || b == nil || len(a) != len(b) {
			return false
		}
		for k, v := range a {
			if b[k] != v {
				return false
			}
		}
		return true
	}
	pos := s.positions()
	synth := s.synthImages()
	for i, e := range s.events {
		if e.tok == "" {
			continue
		}
		e.actor = pos[i].actor
		wc, fc := pos[i].w, pos[i].f
		g := e.Seq
		if kv["from"] == "drop" && (s.dropAt == 0 || e.step < s.dropAt-1) {
			continue
		}
		s.judgeStep = e.step
		acked, issued := s.ackedIssued(g)
		// sub-event images: open(O_CREAT) done, ftruncate(size) not yet; ftruncate(0) done,
		// unlink not yet (both inside ristretto's z.OpenMmapFile / MmapFile.Delete)
		if kvInt(kv, "sub", 1) != 0 && (e.Kind == badger.VevCreate || e.Kind == badger.VevDelete) && (strings.HasSuffix(e.file, ".mem") || strings.HasSuffix(e.file, ".vlog") || strings.HasSuffix(e.file, ".sst")) {
			var prev crImage
			if i > 0 {
				prev = synth[i-1].clone()
			} else {
				prev = s.initial.clone()
			}
			prev[e.file] = crFile{size: 0, blob: s.putBlob(nil)}
			sub := "create"
			if e.Kind == badger.VevDelete {
				sub = "delete"
			}
			v := s.judgeImage(prev, acked, issued, s.exactAt(g), "C08")
			emit(fmt.Sprintf("crash step=%d w=%d f=%d sub=%s:%s actor=%c", e.step, wc, fc, sub, strings.SplitN(e.tok, ":", 2)[1], e.actor), v.out)
			s.st.Inc("crash:sub-" + sub)
			for _, f := range v.fails {
				if strings.Contains(f, "-open]") && v.out == "err:zero-length-log" {
					f = "[F22:zero-length-log-file] " + f
				}
				fail(f)
			}
		}
		if stride > 1 && i%stride != 0 && i != len(s.events)-1 {
			continue
		}
		// The image compared with the model is assembled from race-free pieces: every file as it
		// was right after the last event that touched it (taken from the snapshot the touching
		// thread made itself). The raw snapshot may additionally hold an operation of the other
		// thread that had landed but was not logged yet (or was half done): it is a legal kill
		// state too and is judged by the oracle alone.
		img := synth[i]
		if raw := s.snaps[i]; !sameImg(raw, img) {
			v := s.judgeImage(raw, acked, issued, s.exactAt(g), "C08")
			emit(fmt.Sprintf("crash step=%d w=%d f=%d racy=1", e.step, wc, fc), "judged")
			s.st.Inc("crash:racy-snapshot")
			for _, f := range v.fails {
				if strings.Contains(f, "-open]") && v.out == "err:zero-length-log" {
					f = "[F22:zero-length-log-file] " + f
				}
				fail(f)
			}
		}
		if sameImg(img, last) {
			// e.g. a sync: nothing changed for the kill model
			s.st.Inc("crash:same-image")
			emit(fmt.Sprintf("crash step=%d w=%d f=%d same=1", e.step, wc, fc), "same")
			continue
		}
		last = img
		v := s.judgeImage(img, acked, issued, s.exactAt(g), "C08")
		emit(fmt.Sprintf("crash step=%d w=%d f=%d", e.step, wc, fc), v.out)
		s.st.Inc("crash:kill-image")
		for _, f := range v.fails {
			fail(f)
		}
	}
}

// ---------------------------------------------------------------- generator

func genCrash(rng *rand.Rand, n int, st *Stats) []string {
	var ops []string
	for c := 0; c < n; c++ {
		ops = append(ops, genCrashSession(rng, st, c)...)
	}
	return ops
}

func genCrashSession(rng *rand.Rand, st *Stats, idx int) []string {
	sync := rng.Intn(3) != 0
	if params["sync"] != "" {
		sync = params["sync"] == "1"
	}
	if params["mode"] == "power" {
		sync = true
	}
	pReopen, pC07 := 6, 6
	if params["mode"] == "c07" || params["mode"] == "c11" {
		pReopen, pC07 = 12, 12
	}
	memsz := pick(rng, 4096, 4096, 8192, 16384)
	thr := pick(rng, 16, 32, 200, 200)
	if memsz == 4096 && rng.Intn(2) == 0 {
		thr = 200
	}
	if params["mode"] == "power" && rng.Intn(2) == 0 {
		memsz, thr = 4096, 200
	}
	vmax := pick(rng, 3, 5, 1000)
	keep := pick(rng, 1000, 1000, 1)
	// power mode, every other session (the first one always): values go to the value log and
	// the value log rotates every few entries, inside a commit and between two requests of one
	// writeRequests call -- the msync that precedes the acknowledgement must hit the file the
	// values went to
	vprof := params["mode"] == "power" && idx%2 == 0
	if vprof {
		memsz, thr, vmax = pick(rng, 8192, 16384), pick(rng, 16, 32), pick(rng, 3, 5)
	}
	var ops []string
	ops = append(ops, fmt.Sprintf("reset sync=%d memsz=%d thr=%d vmax=%d keep=%d l0close=%d", b2i(sync), memsz, thr, vmax, keep, 0))
	lvls := params["mode"] == "drop" && idx%2 == 1
	if lvls {
		ops[len(ops)-1] += " lvls=1"
	}
	st.Inc(fmt.Sprintf("session:sync=%v,memsz=%d", sync, memsz))
	nkeys := 3 + rng.Intn(6)
	var keys [][]byte
	for len(keys) < nkeys {
		keys = append(keys, genUserKey(rng, 1, 3))
	}
	nsteps := 14 + rng.Intn(22)
	if v, err := strconv.Atoi(params["steps"]); err == nil {
		nsteps = v
	}
	maxTxnBytes := memsz * 15 / 100
	burstAt, batchAt := -1, -1
	if memsz <= 8192 && thr == 200 {
		burstAt = rng.Intn(nsteps)
		batchAt = rng.Intn(nsteps)
	}
	gcAt := -1
	if vmax <= 5 && thr <= 32 && params["mode"] != "power" {
		gcAt = rng.Intn(nsteps)
	}
	vrunAt, vbatchAt := -1, -1
	if vprof {
		vrunAt, vbatchAt = rng.Intn(nsteps), rng.Intn(nsteps)
	}
	vlogVal := func() []byte {
		v := make([]byte, thr+rng.Intn(30))
		rng.Read(v)
		v[len(v)-1] |= 1
		return v
	}
	for i := 0; i < nsteps; i++ {
		r := rng.Intn(100)
		if i == vrunAt {
			// enough value-log commits for the value log to rotate inside one of them
			for j := 0; j < vmax+2; j++ {
				ops = append(ops, fmt.Sprintf("commit %s:0:%s", hx(keys[rng.Intn(len(keys))]), hx(vlogVal())))
			}
		}
		if i == vbatchAt {
			// one writeRequests call with vmax+2 value-log requests: the value log rotates after
			// one of them and the later ones go to the new file
			rq := []string{fmt.Sprintf("%s:0:%s", hx(keys[rng.Intn(len(keys))]), hx([]byte{byte(1 + rng.Intn(200))}))}
			for j := 0; j < vmax+2; j++ {
				rq = append(rq, fmt.Sprintf("%s:0:%s", hx(keys[rng.Intn(len(keys))]), hx(vlogVal())))
			}
			ops = append(ops, "batch "+strings.Join(rq, " "))
		}
		if i == gcAt {
			// value-log values until the value log has rotated, a few later small commits (the
			// newest versions, in the WAL only), then GC of the oldest value-log file: its live
			// entries come back at the WAL tail with their old versions
			for j := 0; j < vmax+2+rng.Intn(3); j++ {
				v := make([]byte, thr+rng.Intn(30))
				rng.Read(v)
				v[len(v)-1] |= 1
				ops = append(ops, fmt.Sprintf("commit %s:0:%s", hx(keys[rng.Intn(len(keys))]), hx(v)))
			}
			for j := 0; j < 1+rng.Intn(3); j++ {
				ops = append(ops, fmt.Sprintf("commit %s:0:%s", hx(keys[rng.Intn(len(keys))]), hx([]byte{byte(1 + rng.Intn(200))})))
			}
			ops = append(ops, "gc")
			if rng.Intn(2) == 0 {
				ops = append(ops, fmt.Sprintf("commit %s:0:%s", hx(keys[rng.Intn(len(keys))]), hx([]byte{byte(1 + rng.Intn(200))})))
			}
			continue
		}
		if i == burstAt {
			r = 72
		}
		if i == batchAt {
			r = 70
		}
		switch {
		case r < 70:
			ne := 1 + rng.Intn(3)
			var parts []string
			used := map[string]bool{}
			size := 0
			for j := 0; j < ne; j++ {
				k := keys[rng.Intn(len(keys))]
				if used[string(k)] {
					continue
				}
				used[string(k)] = true
				del := rng.Intn(8) == 0
				var v []byte
				if !del {
					var n int
					switch rng.Intn(5) {
					case 0:
						n = thr + rng.Intn(40) // value log
					case 1:
						n = thr - 1
					case 2, 3:
						n = 100 + rng.Intn(200) // fills the memtable quickly (inline when thr=200)
					default:
						n = rng.Intn(24)
					}
					if size+n+40 > maxTxnBytes/2 {
						n = 4
					}
					v = make([]byte, n)
					rng.Read(v)
					if n > 0 {
						v[n-1] |= 1 // never ends in a zero byte
					}
					size += n + 40
				}
				parts = append(parts, fmt.Sprintf("%s:%d:%s", hx(k), b2i(del), hx(v)))
			}
			ops = append(ops, "commit "+strings.Join(parts, ","))
		case r < 71 && memsz <= 8192 && thr == 200:
			// several commits in one writeRequests call, fat enough to rotate the memtable inside it
			nb := memsz/220 + 2
			var rq []string
			for j := 0; j < nb; j++ {
				n := thr - 1 - rng.Intn(20)
				if n+40 > maxTxnBytes/2 {
					n = maxTxnBytes/2 - 41
				}
				v := make([]byte, n)
				rng.Read(v)
				v[n-1] |= 1
				rq = append(rq, fmt.Sprintf("%s:0:%s", hx(keys[rng.Intn(len(keys))]), hx(v)))
			}
			ops = append(ops, "batch "+strings.Join(rq, " "))
		case r < 73 && memsz <= 8192 && thr == 200:
			// burst of fat single-entry commits: the memtable fills up and rotates inside a commit
			nb := memsz/150 + rng.Intn(8)
			for j := 0; j < nb; j++ {
				k := keys[rng.Intn(len(keys))]
				n := thr - 1 - rng.Intn(20) // as fat as an inline value can be
				if n+40 > maxTxnBytes/2 {
					n = maxTxnBytes/2 - 41
				}
				v := make([]byte, n)
				rng.Read(v)
				v[n-1] |= 1
				ops = append(ops, fmt.Sprintf("commit %s:0:%s", hx(k), hx(v)))
			}
		case r < 80:
			ops = append(ops, "flush")
			if lvls {
				for j := 0; j < rng.Intn(3); j++ {
					ops = append(ops, fmt.Sprintf("compact pick=%d", rng.Intn(4)))
				}
			}
		case r < 84 && vmax <= 5 && params["mode"] != "power":
			// value-log GC of the oldest file: old versions are written back at the WAL tail
			ops = append(ops, "gc")
		case r < 88:
			ops = append(ops, fmt.Sprintf("compact pick=%d", rng.Intn(4)))
		case r < 88+pReopen:
			ops = append(ops, "reopen")
		case r < 88+pReopen+pC07:
			ops = append(ops, "c07")
		default:
			ops = append(ops, "flush")
		}
	}
	switch params["mode"] {
	case "drop":
		// the last commits stay in the memtable; then the drop, crash images at every event of
		// it, and the clean re-open
		for j := 0; j < rng.Intn(4); j++ {
			ops = append(ops, fmt.Sprintf("commit %s:%d:%s", hx(keys[rng.Intn(len(keys))]), b2i(rng.Intn(6) == 0), hx([]byte{byte(1 + rng.Intn(200)), byte(1 + rng.Intn(200))})))
		}
		if rng.Intn(4) == 0 {
			ops = append(ops, "drop all")
		} else {
			var ps []string
			for j := 0; j < 1+rng.Intn(2); j++ {
				k := keys[rng.Intn(len(keys))]
				ps = append(ps, hx(k[:1+rng.Intn(len(k))]))
			}
			ops = append(ops, "drop "+strings.Join(ps, " "))
		}
		ops = append(ops, "crashes kill=1 power=1 from=drop sub=0", "dropcheck")
	case "power":
		ops = append(ops, "crashes kill=0 power=1")
	case "c07":
		// no crash images: close / reopen only
	case "c11":
		ops = append(ops, "crashes kill=1 power=0 sub=0 stride=3")
	case "kill":
		ops = append(ops, fmt.Sprintf("crashes kill=1 power=0 realkills=%d", kvInt(params, "realkills", 2)))
	default:
		ops = append(ops, "crashes kill=1 power=1")
	}
	return ops
}

// ---------------------------------------------------------------- C07: close / reopen

func crTreeHash(dir string) string {
	ents, _ := os.ReadDir(dir)
	var parts []string
	for _, e := range ents {
		if e.Name() == "LOCK" {
			continue
		}
		b, err := os.ReadFile(filepath.Join(dir, e.Name()))
		if err != nil {
			parts = append(parts, e.Name()+":ERR")
			continue
		}
		parts = append(parts, fmt.Sprintf("%s:%d:%x", e.Name(), len(b), sha1.Sum(b)))
	}
	sort.Strings(parts)
	return strings.Join(parts, " ")
}

// every read the history can distinguish: all stored versions, plus DB.get of every key at
// every commit timestamp and at the newest one
func (s *crSess) allReads(db *badger.DB) string {
	stored := crDumpDB(db)
	var sb strings.Builder
	sb.WriteString(crCanon(stored))
	keys := map[string]bool{}
	for _, c := range s.commits {
		for _, e := range c.ents {
			keys[string(e.key)] = true
		}
	}
	var ks []string
	for k := range keys {
		ks = append(ks, k)
	}
	sort.Strings(ks)
	tss := []uint64{^uint64(0)}
	for _, c := range s.commits {
		tss = append(tss, c.ts)
	}
	for _, k := range ks {
		for _, ts := range tss {
			e, ok, err := badger.VerifGetAt(db, []byte(k), ts)
			switch {
			case err != nil:
				fmt.Fprintf(&sb, "|%s@%d:err:%v", hx([]byte(k)), ts, err)
			case !ok:
				fmt.Fprintf(&sb, "|%s@%d:none", hx([]byte(k)), ts)
			default:
				fmt.Fprintf(&sb, "|%s@%d:%d:%d:%s:%s", hx([]byte(k)), ts, e.Version, e.Meta&1, hx(e.Value), e.ReadErr)
			}
		}
	}
	return sb.String()
}

func crDigest(db *badger.DB) string {
	stored := crDumpDB(db)
	return fmt.Sprintf("ok next=%d n=%d h=%016x", badger.VerifNextTxnTs(db), len(stored), fnv64(crCanon(stored)))
}

// c07: Close, hash the tree, reopen read-only, read everything, re-hash (nothing changed),
// reopen read-write with different compaction options, compare the reads with the pre-close ones.
func (s *crSess) c07(emit func(string, string), fail func(string)) {
	pre := s.allReads(s.db)
	err := s.db.Close()
	s.db = nil
	closeTok := s.stepTokens(s.steps, true)
	if err != nil {
		emit("close", "err:"+err.Error())
		return
	}
	emit("close", closeTok)
	s.stepKind = append(s.stepKind, "close")
	s.steps++
	h1 := crTreeHash(s.dir)
	// ---- read-only
	ro, err := badger.Open(s.opts(s.dir).WithReadOnly(true))
	if err != nil {
		emit("open-ro", "err:open:"+crOpenErrKind(err))
		fail("[C07-ro-open] read-only Open after a clean Close failed: " + err.Error())
	} else {
		emit("open-ro", s.stepTokens(s.steps, false))
		for _, e := range s.events {
			if e.step == s.steps && e.tok != "" && e.Kind != badger.VevSyncDir && e.Kind != badger.VevSync && e.Kind != badger.VevClose {
				fail(fmt.Sprintf("[C07-ro-mutates] read-only Open performed %s", e.tok))
			}
		}
		s.stepKind = append(s.stepKind, "open-ro")
		s.steps++
		if got := s.allReads(ro); got != pre {
			fail(fmt.Sprintf("[C07-ro-reads] reads after a read-only reopen differ from the reads before Close: before %.300s after %.300s", pre, got))
		}
		emit("dump", crDigest(ro))
		_ = ro.View(func(txn *badger.Txn) error {
			it := txn.NewIterator(badger.IteratorOptions{AllVersions: true, PrefetchValues: true, PrefetchSize: 10})
			defer it.Close()
			for it.Rewind(); it.Valid(); it.Next() {
				_, _ = it.Item().ValueCopy(nil)
			}
			return nil
		})
		if err := ro.Close(); err != nil {
			fail("[C07-ro-close] " + err.Error())
		}
		for _, e := range s.events {
			if e.step == s.steps && e.tok != "" && e.Kind != badger.VevSyncDir && e.Kind != badger.VevSync && e.Kind != badger.VevClose {
				fail(fmt.Sprintf("[C07-ro-mutates] closing the read-only DB performed %s", e.tok))
			}
		}
		emit("close-ro", s.stepTokens(s.steps, true))
		s.stepKind = append(s.stepKind, "close")
		s.steps++
		if h2 := crTreeHash(s.dir); h2 != h1 {
			fail(fmt.Sprintf("[C07-ro-tree-changed] directory before the read-only session: %s ; after: %s", h1, h2))
		}
	}
	// ---- read-write with other compaction settings
	o := s.opts(s.dir).WithNumLevelZeroTables(3).WithNumLevelZeroTablesStall(150).WithBaseTableSize(1 << 20).
		WithLevelSizeMultiplier(10).WithBaseLevelSize(5 << 20).WithNumMemtables(3)
	db, err := badger.Open(o)
	if err != nil {
		emit("open", "err:open:"+crOpenErrKind(err))
		fail("[C07-reopen] Open after a clean Close failed: " + err.Error())
		return
	}
	s.db = db
	s.barrier()
	emit("open", s.stepTokens(s.steps, false))
	s.stepKind = append(s.stepKind, "open")
	s.steps++
	if got := s.allReads(db); got != pre {
		fail(fmt.Sprintf("[C07-rw-reads] reads after reopening with other compaction options differ: before %.300s after %.300s", pre, got))
	}
	emit("dump", crDigest(db))
	s.st.Inc("c07")
}

// ---------------------------------------------------------------- C10: power loss

// identity of a file = the event that created it (0 = there before recording started)
type crPower struct {
	vol  map[string]int // name -> identity (volatile directory)
	dur  map[string]int // name -> identity (as of the last syncdir)
	sync map[int]crFile // identity -> content as of its last sync (a never-synced file: zeros of its created size)
}

func (s *crSess) powerLoss(kv map[string]string, emit func(string, string), fail func(string)) {
	nrand := kvInt(kv, "prand", 2)
	rng := rand.New(rand.NewSource(int64(len(s.events))*7919 + 1))
	pw := crPower{vol: map[string]int{}, dur: map[string]int{}, sync: map[int]crFile{}}
	never := map[int]bool{}     // identities never synced
	deadVol := map[int]crFile{} // unlinked identities: their page-cache content
	posP := s.positions()
	synthP := s.synthImages()
	empty := crFile{size: 0, blob: s.putBlob(nil)}
	judged := map[string]bool{}
	var renameFrom string
	for i, e := range s.events {
		g := e.Seq
		img := synthP[i]
		// ---- update the durable / volatile bookkeeping with event e
		switch e.Kind {
		case badger.VevCreate:
			if !crIgnoredFile(e.file) {
				pw.vol[e.file] = g
				// the size given by create+ftruncate is taken to be durable with the entry
				pw.sync[g] = crFile{size: e.A, blob: empty.blob}
				never[g] = true
			}
		case badger.VevWrite:
			if e.file == "REWRITE-KEYREGISTRY" || e.file == "KEYREGISTRY" {
				if id, ok := pw.vol[e.file]; ok { // opened with O_DSYNC
					pw.sync[id] = img[e.file]
					delete(never, id)
				}
			}
		case badger.VevSync, badger.VevClose:
			if id, ok := pw.vol[e.file]; ok {
				pw.sync[id] = img[e.file]
				delete(never, id)
			}
		case badger.VevDelete, badger.VevRemove:
			if id, ok := pw.vol[e.file]; ok {
				if e.Kind == badger.VevDelete {
					deadVol[id] = empty // MmapFile.Delete: ftruncate(0), then unlink
				} else if i > 0 {
					deadVol[id] = synthP[i-1][e.file]
				}
			}
			delete(pw.vol, e.file)
		case badger.VevRenameFrom:
			renameFrom = e.file
		case badger.VevRename:
			if id, ok := pw.vol[renameFrom]; ok {
				delete(pw.vol, renameFrom)
				pw.vol[e.file] = id
			}
		case badger.VevSyncDir:
			pw.dur = map[string]int{}
			for k, v := range pw.vol {
				pw.dur[k] = v
			}
		}
		if e.tok == "" {
			continue
		}
		if kv["from"] == "drop" && (s.dropAt == 0 || e.step < s.dropAt-1) {
			continue
		}
		s.judgeStep = e.step
		wcP, fcP := posP[i].w, posP[i].f
		// power-loss points: the end of every logical step (acknowledgement points) and every
		// event that changes what is durable or which names exist
		lastOfStep := i+1 == len(s.events) || s.events[i+1].step != e.step
		switch e.Kind {
		case badger.VevCreate, badger.VevDelete, badger.VevRemove, badger.VevRename, badger.VevSyncDir:
		case badger.VevSync, badger.VevWrite:
			if e.file != "MANIFEST" && !lastOfStep {
				continue
			}
		default:
			if !lastOfStep {
				continue
			}
		}
		acked, issued := s.ackedIssued(g)
		exact := s.exactAt(g)
		// ---- the unsynced items at this point
		type item struct {
			kind string // "entry" or "data"
			name string
			id   int
		}
		var items []item
		names := map[string]bool{}
		for k := range pw.vol {
			names[k] = true
		}
		for k := range pw.dur {
			names[k] = true
		}
		var ns []string
		for k := range names {
			ns = append(ns, k)
		}
		sort.Strings(ns)
		for _, n := range ns {
			v, vok := pw.vol[n]
			d, dok := pw.dur[n]
			if vok != dok || v != d {
				items = append(items, item{"entry", n, 0})
			}
		}
		// identities reachable through either directory: live ones by their volatile name,
		// unlinked ones by the durable name that still points at them
		ids := map[int]string{}
		live := map[int]bool{}
		for _, n := range ns {
			if v, ok := pw.vol[n]; ok {
				ids[v] = n
				live[v] = true
			}
		}
		for _, n := range ns {
			if d, ok := pw.dur[n]; ok && !live[d] {
				ids[d] = n
			}
		}
		var idl []int
		for id := range ids {
			idl = append(idl, id)
		}
		sort.Ints(idl)
		volContent := func(id int) crFile {
			if live[id] {
				return img[ids[id]]
			}
			return deadVol[id]
		}
		durContent := func(id int) crFile { return pw.sync[id] }
		for _, id := range idl {
			if volContent(id) != durContent(id) {
				items = append(items, item{"data", ids[id], id})
			}
		}
		if len(items) == 0 {
			continue
		}
		// build(lost): the image in which exactly the items in `lost` have their old version
		build := func(lost map[int]bool) crImage {
			out := crImage{}
			lostEntry := map[string]bool{}
			lostData := map[int]bool{}
			for ix, it := range items {
				if lost[ix] {
					if it.kind == "entry" {
						lostEntry[it.name] = true
					} else {
						lostData[it.id] = true
					}
				}
			}
			for _, n := range ns {
				bind, ok := pw.vol[n]
				if lostEntry[n] {
					bind, ok = pw.dur[n]
				}
				if !ok {
					continue
				}
				if lostData[bind] {
					out[n] = pw.sync[bind]
				} else {
					out[n] = volContent(bind)
				}
			}
			return out
		}
		run := func(label string, lost map[int]bool, tagOf func(crVerdict) string) (bool, crVerdict) {
			im := build(lost)
			sig := fmt.Sprintf("%s|%d|%d|%v", im.names(), acked, issued, exact)
			for _, f := range im {
				sig += fmt.Sprintf("%x", f.blob[:6])
			}
			if ok, seen := judged[sig]; seen {
				return ok, crVerdict{}
			}
			v := s.judgeImage(im, acked, issued, exact, "C10")
			judged[sig] = len(v.fails) == 0
			var lostS []string
			for ix, it := range items {
				if lost[ix] {
					lostS = append(lostS, it.kind+":"+crTokOfName(it.name))
				}
			}
			emit(fmt.Sprintf("power step=%d w=%d f=%d ev=%d %s lost=%s", e.step, wcP, fcP, g, label, strings.Join(lostS, ",")), v.out)
			s.st.Inc("power:" + label)
			tag := ""
			if tagOf != nil {
				tag = tagOf(v)
			}
			for _, f := range v.fails {
				fail(tag + f)
			}
			return len(v.fails) == 0, v
		}
		// single losses first: they attribute a failure to one specific unsynced item
		// F4 class: the directory entry of a .mem/.vlog/.sst file created after the last
		// directory fsync (badger never fsyncs the directory for these)
		f4 := func(it item) bool {
			if it.kind != "entry" {
				return false
			}
			_, inDur := pw.dur[it.name]
			_, inVol := pw.vol[it.name]
			return inVol && !inDur && (strings.HasSuffix(it.name, ".mem") || strings.HasSuffix(it.name, ".vlog") || strings.HasSuffix(it.name, ".sst"))
		}
		for ix, it := range items {
			it := it
			run("single", map[int]bool{ix: true}, func(v crVerdict) string {
				if f4(it) {
					return "[F4:no-dirsync-new-file] "
				}
				_, inVol := pw.vol[it.name]
				if it.kind == "entry" && !inVol && v.out == "err:zero-length-log" {
					// Delete = ftruncate(0) + unlink: the unlink is lost, the truncation is not
					return "[F22:zero-length-log-file] "
				}
				return ""
			})
		}
		// everything else that is unsynced lost together / random subsets of it (the F4 items
		// stay: their loss is judged above, one at a time, so that it is attributed correctly)
		f22 := func(it item) bool {
			_, inVol := pw.vol[it.name]
			d, inDur := pw.dur[it.name]
			return it.kind == "entry" && !inVol && inDur && deadVol[d].size == 0 && pw.sync[d].size != 0
		}
		all := map[int]bool{}
		for ix, it := range items {
			if !f4(it) && !f22(it) {
				all[ix] = true
			}
		}
		if len(all) > 1 {
			run("worst", all, nil)
			for r := 0; r < nrand; r++ {
				sub := map[int]bool{}
				for ix := range all {
					if rng.Intn(2) == 0 {
						sub[ix] = true
					}
				}
				if len(sub) > 1 && len(sub) < len(all) {
					run("random", sub, nil)
				}
			}
		}
	}
}

func crTokOfName(n string) string {
	t, _ := crFileTok(n)
	return t
}

// positions: for every event, the number of writer / flusher events of its step up to and
// including it (in the order of the event log).
type crPos struct {
	w, f   int
	actor  byte
	racing int // unused (kept -1)
}

// synthImages: for every event the directory image made of race-free pieces. The snapshot at
// an event is taken by the thread that performed the operation, right after it, so the file
// that operation touched is exact in it; files the *other* thread is working on may be one
// operation ahead of the event log (it blocks on the event mutex only when it logs). Taking,
// for every file, its content from the snapshot of the last event that touched it gives
// exactly "the first i events have happened, nothing else" — the state the model computes.
func (s *crSess) synthImages() []crImage {
	out := make([]crImage, len(s.events))
	cur := s.initial.clone()
	renameFrom := ""
	for i, e := range s.events {
		if e.file != "" && !crIgnoredFile(e.file) {
			switch e.Kind {
			case badger.VevRenameFrom:
				renameFrom = e.file
			case badger.VevRename:
				delete(cur, renameFrom)
				fallthrough
			default:
				if f, ok := s.snaps[i][e.file]; ok {
					cur[e.file] = f
				} else {
					delete(cur, e.file)
				}
			}
		}
		out[i] = cur.clone()
	}
	return out
}

func (s *crSess) positions() []crPos {
	out := make([]crPos, len(s.events))
	eff := func(e crEv) byte {
		if k := s.stepKind[e.step]; k == "close" || k == "compact" {
			return 'W'
		}
		return e.actor
	}
	wc, fc, cur := 0, 0, -1
	for i, e := range s.events {
		if e.step != cur {
			cur, wc, fc = e.step, 0, 0
		}
		out[i].racing = -1
		if e.tok == "" {
			out[i] = crPos{wc, fc, eff(e), -1}
			continue
		}
		a := eff(e)
		if a == 'F' {
			fc++
		} else {
			wc++
		}
		out[i] = crPos{wc, fc, a, -1}
	}
	return out
}

// c11Live: after a re-open of the live session, nextTxnTs is above every stored version.
func (s *crSess) c11Live(fail func(string)) {
	next := badger.VerifNextTxnTs(s.db)
	var maxVer uint64
	for _, e := range crDumpDB(s.db) {
		if e.ver > maxVer {
			maxVer = e.ver
		}
	}
	if next <= maxVer {
		fail(fmt.Sprintf("[C11-next-ts] nextTxnTs=%d after reopen, stored max version %d", next, maxVer))
	}
	s.st.Inc("c11:live-reopen")
}

// ---------------------------------------------------------------- real kills

// realKills validates the snapshot method against the kernel: the session's workload is run
// again in a child process (this binary, engine "crash-child") which is SIGKILLed at a random
// persistence event or after a random delay; the directory it leaves is opened and judged like
// a snapshot. The ack log lives outside the DB directory.
func (s *crSess) realKills(n int, emit func(string, string), fail func(string)) {
	exe, err := os.Executable()
	if err != nil {
		emit("realkill", "checked")
		return
	}
	base := scratchDir()
	defer os.RemoveAll(base)
	script := filepath.Join(base, "child.ops")
	var lines []string
	hasCompact := false
	for _, l := range s.intents {
		w := strings.Fields(l)
		switch w[0] {
		case "reset", "commit", "flush", "reopen", "c07", "gc", "batch":
			lines = append(lines, l)
		case "compact", "compact-none":
			lines = append(lines, l)
			hasCompact = true
		}
	}
	writeLines(script, lines)
	rng := rand.New(rand.NewSource(int64(len(s.events))*31 + 7))
	run := func(killat int, delay time.Duration) (dir string, acked, issued int, ok bool) {
		dir = filepath.Join(base, fmt.Sprintf("db-%d-%d", killat, delay))
		os.MkdirAll(dir, 0o755)
		out := filepath.Join(base, "out")
		os.MkdirAll(out, 0o755)
		acklog := filepath.Join(base, fmt.Sprintf("ack-%d-%d", killat, delay))
		cmd := exec.Command(exe, "crash-child", "-replay", script, "-out", out,
			"-p", "dir="+dir, "-p", fmt.Sprintf("killat=%d", killat), "-p", "acklog="+acklog)
		cmd.Env = os.Environ()
		if err := cmd.Start(); err != nil {
			return dir, 0, 0, false
		}
		if delay > 0 {
			time.AfterFunc(delay, func() { cmd.Process.Kill() })
		}
		_ = cmd.Wait()
		for _, l := range readLinesIfAny(acklog) {
			switch strings.Fields(l)[0] {
			case "issue":
				issued++
			case "ack":
				acked++
			}
		}
		return dir, acked, issued, true
	}
	// a full run first: how long it takes and how many events it has
	t0 := time.Now()
	dir, _, _, ok := run(0, 0)
	full := time.Since(t0)
	os.RemoveAll(dir)
	if !ok {
		emit("realkill", "checked")
		return
	}
	total := len(s.events)
	for i := 0; i < n; i++ {
		killat, delay := 0, time.Duration(0)
		if i%2 == 0 && total > 0 {
			killat = 1 + rng.Intn(total)
		} else {
			delay = time.Duration(rng.Int63n(int64(full) + 1))
			if delay == 0 {
				delay = time.Millisecond
			}
		}
		dir, acked, issued, ok := run(killat, delay)
		if ok {
			if issued > len(s.commits) {
				issued = len(s.commits)
			}
			v := s.judgeDir(dir, "real kill", acked, issued, !hasCompact, "C08")
			for _, f := range v.fails {
				if strings.Contains(f, "-open]") && v.out == "err:zero-length-log" {
					f = "[F22:zero-length-log-file] " + f
				}
				fail(fmt.Sprintf("real SIGKILL (event %d, delay %v): %s", killat, delay, f))
			}
			s.st.Inc("realkill")
		}
		os.RemoveAll(dir)
		emit(fmt.Sprintf("realkill %d", i), "checked")
	}
}

func readLinesIfAny(p string) []string {
	b, err := os.ReadFile(p)
	if err != nil {
		return nil
	}
	var out []string
	for _, l := range strings.Split(string(b), "\n") {
		if strings.TrimSpace(l) != "" {
			out = append(out, l)
		}
	}
	return out
}

func init() {
	engines["crash-child"] = &Engine{
		Gen: func(*rand.Rand, int, *Stats) []string { return nil },
		ExecX: func(intents []string, st *Stats) (final, outs, oracle []string) {
			crashChild(intents)
			return nil, nil, nil
		},
	}
}

// crashChild: the workload of one session on params["dir"], killing itself with SIGKILL at
// persistence event number params["killat"] (0 = never).
func crashChild(intents []string) {
	dir := params["dir"]
	killat, _ := strconv.Atoi(params["killat"])
	ack, err := os.OpenFile(params["acklog"], os.O_CREATE|os.O_WRONLY|os.O_APPEND, 0o644)
	if err != nil || dir == "" {
		os.Exit(4)
	}
	s := &crSess{blobs: map[[20]byte][]byte{}, st: &Stats{Hist: map[string]int{}}}
	n := 0
	badger.VerifEventsStart(func(ev badger.VEvent) {
		n++
		if killat > 0 && n == killat {
			syscall.Kill(os.Getpid(), syscall.SIGKILL)
			select {}
		}
	})
	var db *badger.DB
	commitNo := 0
	for _, line := range intents {
		w := strings.Fields(line)
		if len(w) == 0 {
			continue
		}
		switch w[0] {
		case "reset":
			kv := kvWords(w[1:])
			s.cfg = crCfg{sync: kvInt(kv, "sync", 1) != 0, memsz: kvInt(kv, "memsz", 8192), thr: kvInt(kv, "thr", 32),
				vmax: kvInt(kv, "vmax", 1000), keep: kvInt(kv, "keep", 1000), l0close: kvInt(kv, "l0close", 0) != 0, lvls: kvInt(kv, "lvls", 0) != 0}
			db, err = badger.Open(s.opts(dir))
			if err != nil {
				os.Exit(5)
			}
		case "commit":
			ents := parseCrEnts(w[1])
			fmt.Fprintf(ack, "issue %d\n", commitNo)
			err := db.Update(func(txn *badger.Txn) error {
				for _, e := range ents {
					var err error
					if e.del {
						err = txn.Delete(e.key)
					} else {
						err = txn.Set(e.key, e.val)
					}
					if err != nil {
						return err
					}
				}
				return nil
			})
			if err == nil {
				fmt.Fprintf(ack, "ack %d\n", commitNo)
			}
			commitNo++
			for badger.VerifImmCount(db) > 0 {
				time.Sleep(100 * time.Microsecond)
			}
		case "batch":
			for _, r := range w[1:] {
				if strings.HasPrefix(r, "rots=") {
					continue
				}
				ents := parseCrEnts(r)
				fmt.Fprintf(ack, "issue %d\n", commitNo)
				err := db.Update(func(txn *badger.Txn) error {
					for _, e := range ents {
						if err := txn.Set(e.key, e.val); err != nil {
							return err
						}
					}
					return nil
				})
				if err == nil {
					fmt.Fprintf(ack, "ack %d\n", commitNo)
				}
				commitNo++
			}
			for badger.VerifImmCount(db) > 0 {
				time.Sleep(100 * time.Microsecond)
			}
		case "flush":
			_ = badger.VerifFlush(db)
		case "gc":
			fids, max := badger.VerifVlogFids(db)
			if len(fids) > 0 && fids[0] < max {
				_ = badger.VerifVlogRewrite(db, fids[0])
			}
			for badger.VerifImmCount(db) > 0 {
				time.Sleep(100 * time.Microsecond)
			}
		case "compact", "compact-none":
			kv := kvWords(w[1:])
			lvl := kvInt(kv, "pick", 0)
			var ne []int
			for i, l := range badger.VerifLevels(db) {
				if len(l) > 0 {
					ne = append(ne, i)
				}
			}
			this := 0
			if len(ne) > 0 {
				this = ne[lvl%len(ne)]
			}
			badger.VerifBackdate(db, 2*time.Hour)
			_ = badger.VerifCompact(db, 0, this, 1.5, 1.5, nil)
		case "reopen", "c07":
			_ = db.Close()
			db, err = badger.Open(s.opts(dir))
			if err != nil {
				os.Exit(5)
			}
			for badger.VerifImmCount(db) > 0 {
				time.Sleep(100 * time.Microsecond)
			}
		}
	}
	if db != nil {
		_ = db.Close()
	}
	os.Exit(0)
}

// gc: value-log GC (valueLog.rewrite) of the oldest value-log file. Its live entries are
// written back through batchSet with their ORIGINAL versions: the WAL then ends with versions
// older than earlier records (what memTable.maxVersion / nextTxnTs must cope with after a crash).
func (s *crSess) gc(emit func(string, string), fail func(string)) {
	fids, max := badger.VerifVlogFids(s.db)
	if len(fids) == 0 || fids[0] >= max {
		emit("gc-none", "none")
		s.stepKind = append(s.stepKind, "gc-none")
		s.steps++
		return
	}
	fid := int(fids[0])
	stored := map[string]bool{}
	for _, e := range crDumpDB(s.db) {
		if !e.del {
			stored[fmt.Sprintf("%s@%d", hx([]byte(e.key)), e.ver)] = true
		}
	}
	var moved []string
	for _, k := range s.vlogOrder {
		if s.vlogOf[k] == fid && stored[k] {
			moved = append(moved, k)
		}
	}
	// the batches valueLog.rewrite forms (count / size limits of a transaction)
	mc, ms, _ := badger.VerifLimits(s.db)
	vlen := map[string]int{}
	for _, c := range s.commits {
		for _, e := range c.ents {
			vlen[fmt.Sprintf("%s@%d", hx(e.key), c.ts)] = len(e.val)
		}
	}
	var batches []int
	n, size := 0, int64(0)
	for _, k := range moved {
		klen := len(k[:strings.IndexByte(k, '@')])/2 + 8
		es := int64(klen+12+2) + int64(vlen[k])
		if int64(n+1) >= mc || size+es >= ms {
			batches = append(batches, n)
			n, size = 0, 0
		}
		n++
		size += es
	}
	if n > 0 {
		batches = append(batches, n)
	}
	err := badger.VerifVlogRewrite(s.db, uint32(fid))
	s.barrier()
	if err != nil {
		emit(fmt.Sprintf("gc fid=%d", fid), "err:"+strings.ReplaceAll(err.Error(), " ", "_"))
		s.stepKind = append(s.stepKind, "gc")
		s.steps++
		return
	}
	// where the moved values live now, and in which batch the memtable was rotated
	rots := make([]int, len(batches))
	bi, inBatch, newFid := 0, 0, 0
	mi := 0
	for _, e := range s.events {
		if e.step != s.steps || e.tok == "" {
			continue
		}
		switch {
		case e.Kind == badger.VevWrite && strings.HasSuffix(e.file, ".vlog") && e.A >= 20:
			fmt.Sscanf(strings.TrimPrefix(e.tok, "write:vlog"), "%d", &newFid)
			if mi < len(moved) {
				s.vlogOf[moved[mi]] = newFid
				mi++
			}
		case e.Kind == badger.VevCreate && strings.HasSuffix(e.file, ".mem"):
			if bi < len(rots) {
				rots[bi] = 1
			}
		case e.Kind == badger.VevWrite && strings.HasSuffix(e.file, ".mem") && e.A >= 20:
			inBatch++
			if bi < len(batches) && inBatch == batches[bi] {
				bi, inBatch = bi+1, 0
			}
		}
	}
	// the moved records now sit at the end of the value log, in the order they were moved
	isMoved := map[string]bool{}
	for _, k := range moved {
		isMoved[k] = true
	}
	var order []string
	for _, k := range s.vlogOrder {
		if !isMoved[k] {
			order = append(order, k)
		}
	}
	s.vlogOrder = append(order, moved...)
	js := func(xs []int) string {
		var p []string
		for _, x := range xs {
			p = append(p, strconv.Itoa(x))
		}
		if len(p) == 0 {
			return "-"
		}
		return strings.Join(p, ";")
	}
	mv := strings.Join(moved, "+")
	if mv == "" {
		mv = "-"
	}
	if len(moved) > 0 {
		s.gcMoved = true
	}
	emit(fmt.Sprintf("gc fid=%d batches=%s rots=%s moved=%s", fid, js(batches), js(rots), mv), s.stepTokens(s.steps, false))
	s.st.Inc(fmt.Sprintf("gc:moved=%s", sizeBucket(len(moved))))
	s.stepKind = append(s.stepKind, "gc")
	s.steps++
}

// batch: several commits served by ONE DB.writeRequests call. The write path is parked
// (VerifHoldWriter) while the first commit is being served, the others are issued with
// CommitWith and queue up behind it; when the writer is released it serves the first alone and
// all the others in one call. With fat inline values the memtable fills, and is rotated, in the
// middle of that call: every request's WAL must be msynced before the batch is acknowledged.
func (s *crSess) batch(words []string, emit func(string, string), fail func(string)) {
	var reqs []string
	for _, r := range words {
		if !strings.HasPrefix(r, "rots=") {
			reqs = append(reqs, r)
		}
	}
	tsBase := badger.VerifNextTxnTs(s.db)
	release := badger.VerifHoldWriter(s.db)
	type res struct {
		err   error
		acked int
	}
	results := make([]res, len(reqs))
	issued := make([]int, len(reqs))
	done := make(chan int, len(reqs))
	// all transactions are begun before the first commit: NewTransaction waits until every
	// earlier commit timestamp is done, and the first commit will be stuck for a while
	txns := make([]*badger.Txn, len(reqs))
	for i, r := range reqs {
		txn := s.db.NewTransaction(true)
		var err error
		for _, e := range parseCrEnts(r) {
			if e.del {
				err = txn.Delete(e.key)
			} else {
				err = txn.Set(e.key, e.val)
			}
			if err != nil {
				break
			}
		}
		if err != nil {
			txn.Discard()
			results[i].err = err
			continue
		}
		txns[i] = txn
	}
	for i := range reqs {
		i := i
		issued[i] = s.nEvents()
		if txns[i] == nil {
			done <- i
			continue
		}
		txns[i].CommitWith(func(err error) {
			results[i] = res{err: err, acked: s.nEvents()}
			done <- i
		})
		if i == 0 {
			// let the writer pick the first request up and get stuck on it
			for k := 0; k < 2000 && badger.VerifWriteChLen(s.db) > 0; k++ {
				time.Sleep(50 * time.Microsecond)
			}
			if s.cfg.sync {
				// with SyncWrites valueLog.write ends with an msync event: once it is there the
				// first request is inside writeRequests, alone (no sleep-length guess)
				for k := 0; k < 100000 && s.nEvents() <= issued[0]; k++ {
					time.Sleep(50 * time.Microsecond)
				}
			}
			time.Sleep(2 * time.Millisecond)
		}
	}
	for k := 0; k < 2000 && badger.VerifWriteChLen(s.db) > 0; k++ {
		time.Sleep(50 * time.Microsecond)
	}
	time.Sleep(2 * time.Millisecond)
	release()
	deadline := time.After(60 * time.Second)
	for range reqs {
		select {
		case <-done:
		case <-deadline:
			// never observed on the unchanged tree: reported instead of hanging the run
			emit("batch "+strings.Join(reqs, " "), "err:batch-timeout")
			fail("[impl-hang] a batch of commits was not acknowledged within 60 s")
			s.stepKind = append(s.stepKind, "batch")
			s.steps++
			return
		}
	}
	s.barrier()
	okAll := true
	for i, r := range reqs {
		if results[i].err != nil {
			okAll = false
			continue
		}
		s.commits = append(s.commits, crCommit{ts: tsBase + uint64(i), ents: parseCrEnts(r), issuedAt: issued[i], ackedAt: results[i].acked, step: s.steps})
	}
	// in which request's ensureRoomForWrite the memtable was rotated: count the end-of-
	// transaction records (one per request) seen before each create:mem
	rots := make([]int, len(reqs))
	fins := 0
	ri := 0
	var memWrites []crEv
	for _, e := range s.events {
		if e.step == s.steps && e.tok != "" {
			memWrites = append(memWrites, e)
		}
	}
	_ = fins
	// every request writes len(ents)+1 WAL records; walk the events
	need := 0
	if len(reqs) > 0 {
		need = len(parseCrEnts(reqs[0])) + 1
	}
	for _, e := range memWrites {
		switch {
		case e.Kind == badger.VevCreate && strings.HasSuffix(e.file, ".mem"):
			if ri < len(rots) {
				rots[ri] = 1
			}
		case e.Kind == badger.VevWrite && strings.HasSuffix(e.file, ".mem") && e.A >= 20:
			need--
			if need == 0 {
				ri++
				if ri < len(reqs) {
					need = len(parseCrEnts(reqs[ri])) + 1
				}
			}
		}
	}
	var rs []string
	for _, x := range rots {
		rs = append(rs, strconv.Itoa(x))
	}
	out := fmt.Sprintf("ts=%d ", tsBase) + s.stepTokens(s.steps, false)
	if !okAll {
		out = "err:batch"
	}
	emit("batch rots="+strings.Join(rs, ";")+" "+strings.Join(reqs, " "), out)
	s.st.Inc(fmt.Sprintf("batch:n=%d,rot=%v", len(reqs), strings.Contains(strings.Join(rs, ""), "1")))
	s.stepKind = append(s.stepKind, "batch")
	s.steps++
}
