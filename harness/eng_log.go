package main

// Engine "log": varints, header / ValueStruct / valuePointer codecs, CRC32-C, WAL / value-log
// records (encodeEntry, decodeEntry, safeRead.Entry) and logFile.iterate, including torn tails
// (C20 encodings part, C16, C09 log part). Stateless: one op line, one output line.

import (
	"bytes"
	"encoding/binary"
	"fmt"
	"hash/crc32"
	"math/rand"
	"strconv"
	"strings"

	badger "github.com/dgraph-io/badger/v4"
	"github.com/dgraph-io/badger/v4/y"
)

func init() {
	engines["log"] = &Engine{Gen: genLog, Exec: execLog}
}

type logGen func(rng *rand.Rand, st *Stats) []string
type logExec func(w []string, st *Stats) (out string, oracle string)

var logGens = map[string]logGen{}
var logGenOrder []string
var logExecs = map[string]logExec{}

func regLog(name string, g logGen, ops map[string]logExec) {
	if g != nil {
		logGens[name] = g
		logGenOrder = append(logGenOrder, name)
	}
	for k, v := range ops {
		logExecs[k] = v
	}
}

func genLog(rng *rand.Rand, n int, st *Stats) []string {
	fams := logGenOrder
	if f := params["families"]; f != "" {
		fams = strings.Split(f, ",")
	}
	for _, f := range fams {
		if logGens[f] == nil {
			panic("unknown log family " + f)
		}
	}
	var ops []string
	for i := 0; i < n; i++ {
		f := fams[rng.Intn(len(fams))]
		st.Inc("family:" + f)
		ops = append(ops, logGens[f](rng, st)...)
	}
	return ops
}

func execLog(ops []string, st *Stats) ([]string, []string) {
	outs := make([]string, len(ops))
	var oracle []string
	for i, l := range ops {
		w := strings.Fields(l)
		if len(w) == 0 {
			outs[i] = "bad-op"
			continue
		}
		ex, ok := logExecs[w[0]]
		if !ok {
			outs[i] = "bad-op"
			continue
		}
		var orc string
		outs[i] = safely(func() string {
			o, oc := ex(w, st)
			orc = oc
			return o
		})
		st.Inc("op:" + w[0])
		st.Inc("out:" + w[0] + ":" + outClass(outs[i]))
		if orc != "" {
			oracle = append(oracle, fmt.Sprintf("line %d: %s :: %s", i+1, clip(l, 600), orc))
		}
	}
	return outs, oracle
}

// outClass: first word of an output line when it is one of the status words.
func outClass(o string) string {
	f := strings.SplitN(o, " ", 2)[0]
	switch f {
	case "ok", "eof", "unexpected-eof", "truncate", "overflow", "panic", "bad-op", "error":
		return f
	}
	return "value"
}

func clip(s string, n int) string {
	if len(s) <= n {
		return s
	}
	return s[:n] + "..."
}

func atob(s string) byte {
	v := atou(s)
	if v > 255 {
		panic("bad byte " + s)
	}
	return byte(v)
}

func exact(b []byte) []byte { // cap == len, so that Go slice expressions panic like the model
	return append(make([]byte, 0, len(b)), b...)[:len(b):len(b)]
}

func randBytes(rng *rand.Rand, n int) []byte {
	b := make([]byte, n)
	for i := range b {
		switch rng.Intn(6) {
		case 0:
			b[i] = 0
		case 1:
			b[i] = 0xff
		default:
			b[i] = byte(rng.Intn(256))
		}
	}
	return b
}

var edgeU32 = []uint64{0, 1, 2, 127, 128, 255, 256, 16383, 16384, 65535, 65536, 65537, 1<<21 - 1, 1 << 21, 1<<28 - 1, 1 << 28, 1<<32 - 2, 1<<32 - 1}

func genU32(rng *rand.Rand) uint32 {
	switch rng.Intn(3) {
	case 0:
		return uint32(edgeU32[rng.Intn(len(edgeU32))])
	case 1:
		return uint32(rng.Intn(300))
	default:
		return rng.Uint32() >> uint(rng.Intn(32))
	}
}

// ---------------------------------------------------------------- uvarint (encoding/binary)

func init() {
	regLog("uvarint", genUvarintCase, map[string]logExec{
		"uvput": func(w []string, st *Stats) (string, string) {
			n := atou(w[1])
			var buf [binary.MaxVarintLen64]byte
			k := binary.PutUvarint(buf[:], n)
			enc := buf[:k]
			orc := ""
			v, c := binary.Uvarint(append(append([]byte{}, enc...), 0xff, 0x80, 0x00))
			if v != n || c != k {
				orc = "[uvarint-roundtrip] Uvarint(PutUvarint(n)++rest) != (n,len)"
			}
			return hx(enc), orc
		},
		"uvget": func(w []string, st *Stats) (string, string) {
			v, c := binary.Uvarint(unhx(w[1]))
			return fmt.Sprintf("%d %d", v, c), ""
		},
		"uvread": func(w []string, st *Stats) (string, string) {
			b := unhx(w[1])
			r := bytes.NewReader(b)
			v, err := binary.ReadUvarint(r)
			if err != nil {
				return badger.VerifLogErrName(err), ""
			}
			return fmt.Sprintf("ok %d %d", v, len(b)-r.Len()), ""
		},
	})
}

func malformedVarint(rng *rand.Rand) []byte {
	n := rng.Intn(13)
	b := make([]byte, n)
	for i := range b {
		b[i] = byte(rng.Intn(256)) | 0x80
	}
	if n > 0 && rng.Intn(3) > 0 {
		b[n-1] &= 0x7f
		if rng.Intn(2) == 0 {
			b[n-1] = byte(rng.Intn(4))
		}
	}
	return b
}

func genUvarintCase(rng *rand.Rand, st *Stats) []string {
	n := genU64(rng)
	var buf [binary.MaxVarintLen64]byte
	k := binary.PutUvarint(buf[:], n)
	enc := append([]byte{}, buf[:k]...)
	withRest := append(append([]byte{}, enc...), randBytes(rng, rng.Intn(4))...)
	ops := []string{
		fmt.Sprintf("uvput %d", n),
		"uvget " + hx(withRest),
		"uvread " + hx(withRest),
		"uvget " + hx(enc[:rng.Intn(k+1)]),
		"uvread " + hx(enc[:rng.Intn(k+1)]),
	}
	m := malformedVarint(rng)
	ops = append(ops, "uvget "+hx(m), "uvread "+hx(m))
	st.Inc(fmt.Sprintf("uvarint-len:%d", k))
	return ops
}

// ---------------------------------------------------------------- header (structs.go)

func hdrStr(h badger.VerifHeader) string {
	return fmt.Sprintf("%d %d %d %d %d", h.Meta, h.UserMeta, h.Klen, h.Vlen, h.ExpiresAt)
}

func init() {
	regLog("header", genHeaderCase, map[string]logExec{
		"hdrenc": func(w []string, st *Stats) (string, string) {
			kl, vl := atou(w[3]), atou(w[4])
			if kl >= 1<<32 || vl >= 1<<32 {
				return "bad-op", ""
			}
			h := badger.VerifHeader{Meta: atob(w[1]), UserMeta: atob(w[2]), Klen: uint32(kl), Vlen: uint32(vl), ExpiresAt: atou(w[5])}
			enc := badger.VerifHeaderEncode(h)
			// oracle (C20): Decode / DecodeFrom round trip, with trailing bytes
			orc := ""
			in := exact(append(append([]byte{}, enc...), 0xff, 0x00, 0x81))
			h2, n2 := badger.VerifHeaderDecode(in)
			if h2 != h || n2 != len(enc) {
				orc = fmt.Sprintf("[header-roundtrip] Decode(Encode(h)) = (%s, %d) != (h, %d)", hdrStr(h2), n2, len(enc))
			}
			h3, n3, err := badger.VerifHeaderDecodeFrom(in)
			if err != nil || h3 != h || n3 != len(enc) {
				orc = fmt.Sprintf("[header-decodefrom] DecodeFrom(Encode(h)) = (%s, %d, %v) != (h, %d)", hdrStr(h3), n3, err, len(enc))
			}
			return hx(enc), orc
		},
		"hdrdec": func(w []string, st *Stats) (string, string) {
			h, n := badger.VerifHeaderDecode(exact(unhx(w[1])))
			return fmt.Sprintf("%s %d", hdrStr(h), n), ""
		},
		"hdrfrom": func(w []string, st *Stats) (string, string) {
			h, n, err := badger.VerifHeaderDecodeFrom(unhx(w[1]))
			if err != nil {
				return badger.VerifLogErrName(err), ""
			}
			return fmt.Sprintf("ok %s %d", hdrStr(h), n), ""
		},
	})
}

func genHeaderCase(rng *rand.Rand, st *Stats) []string {
	h := badger.VerifHeader{Meta: byte(rng.Intn(256)), UserMeta: byte(rng.Intn(256)), Klen: genU32(rng), Vlen: genU32(rng), ExpiresAt: genU64(rng)}
	enc := badger.VerifHeaderEncode(h)
	withRest := append(append([]byte{}, enc...), randBytes(rng, rng.Intn(5))...)
	cut := enc[:rng.Intn(len(enc)+1)]
	ops := []string{
		fmt.Sprintf("hdrenc %d %d %d %d %d", h.Meta, h.UserMeta, h.Klen, h.Vlen, h.ExpiresAt),
		"hdrdec " + hx(withRest),
		"hdrfrom " + hx(withRest),
		"hdrdec " + hx(cut),
		"hdrfrom " + hx(cut),
	}
	// malformed: two meta bytes then three arbitrary (possibly overflowing / over-long) varints
	m := []byte{byte(rng.Intn(256)), byte(rng.Intn(256))}
	for i := 0; i < 3; i++ {
		if rng.Intn(3) == 0 {
			m = append(m, malformedVarint(rng)...)
		} else {
			var b [binary.MaxVarintLen64]byte
			v := genU64(rng)
			m = append(m, b[:binary.PutUvarint(b[:], v)]...)
		}
	}
	ops = append(ops, "hdrdec "+hx(m), "hdrfrom "+hx(m))
	st.Inc(fmt.Sprintf("header-len:%d", len(enc)))
	return ops
}

// ---------------------------------------------------------------- y.ValueStruct

func init() {
	regLog("vs", genVsCase, map[string]logExec{
		"vsenc": func(w []string, st *Stats) (string, string) {
			v := y.ValueStruct{Meta: atob(w[1]), UserMeta: atob(w[2]), ExpiresAt: atou(w[3]), Value: unhx(w[4])}
			sz := v.EncodedSize()
			b := make([]byte, sz+16) // slack: a wrong EncodedSize must show as [vs-size], not as a panic
			n := v.Encode(b)
			orc := ""
			if n != sz {
				orc = fmt.Sprintf("[vs-size] Encode wrote %d, EncodedSize=%d", n, sz)
			}
			var d y.ValueStruct
			d.Decode(exact(b[:n]))
			if d.Meta != v.Meta || d.UserMeta != v.UserMeta || d.ExpiresAt != v.ExpiresAt || !bytes.Equal(d.Value, v.Value) {
				orc = "[vs-roundtrip] Decode(Encode(v)) != v"
			}
			var bb bytes.Buffer
			v.EncodeTo(&bb)
			if !bytes.Equal(bb.Bytes(), b[:n]) {
				orc = "[vs-encodeto] EncodeTo != Encode"
			}
			return fmt.Sprintf("%s %d", hx(b[:n]), sz), orc
		},
		"vsdec": func(w []string, st *Stats) (string, string) {
			var d y.ValueStruct
			d.Decode(exact(unhx(w[1])))
			return fmt.Sprintf("%d %d %d %s", d.Meta, d.UserMeta, d.ExpiresAt, hx(d.Value)), ""
		},
	})
}

func genVsCase(rng *rand.Rand, st *Stats) []string {
	v := y.ValueStruct{Meta: byte(rng.Intn(256)), UserMeta: byte(rng.Intn(256)), ExpiresAt: genU64(rng), Value: randBytes(rng, rng.Intn(20))}
	b := make([]byte, v.EncodedSize()+16)
	b = b[:v.Encode(b)]
	ops := []string{
		fmt.Sprintf("vsenc %d %d %d %s", v.Meta, v.UserMeta, v.ExpiresAt, hx(v.Value)),
		"vsdec " + hx(b),
		"vsdec " + hx(b[:rng.Intn(len(b)+1)]),
	}
	m := append([]byte{byte(rng.Intn(256)), byte(rng.Intn(256))}, malformedVarint(rng)...)
	m = append(m, randBytes(rng, rng.Intn(4))...)
	ops = append(ops, "vsdec "+hx(m))
	st.Inc("vs-vlen:" + sizeBucket(len(v.Value)))
	return ops
}

// ---------------------------------------------------------------- valuePointer

func init() {
	regLog("vptr", genVptrCase, map[string]logExec{
		"vpenc": func(w []string, st *Stats) (string, string) {
			f, l, o := atou(w[1]), atou(w[2]), atou(w[3])
			if f >= 1<<32 || l >= 1<<32 || o >= 1<<32 {
				return "bad-op", ""
			}
			b := badger.VerifVptrEncode(uint32(f), uint32(l), uint32(o))
			f2, l2, o2 := badger.VerifVptrDecode(exact(b))
			orc := ""
			if uint64(f2) != f || uint64(l2) != l || uint64(o2) != o {
				orc = "[vptr-roundtrip] Decode(Encode(p)) != p"
			}
			return hx(b), orc
		},
		"vpdec": func(w []string, st *Stats) (string, string) {
			f, l, o := badger.VerifVptrDecode(exact(unhx(w[1])))
			return fmt.Sprintf("%d %d %d", f, l, o), ""
		},
	})
}

func genVptrCase(rng *rand.Rand, st *Stats) []string {
	f, l, o := genU32(rng), genU32(rng), genU32(rng)
	b := badger.VerifVptrEncode(f, l, o)
	withRest := append(append([]byte{}, b...), randBytes(rng, rng.Intn(4))...)
	return []string{
		fmt.Sprintf("vpenc %d %d %d", f, l, o),
		"vpdec " + hx(withRest),
		"vpdec " + hx(randBytes(rng, rng.Intn(16))),
	}
}

// ---------------------------------------------------------------- CRC32-C

func init() {
	regLog("crc", func(rng *rand.Rand, st *Stats) []string {
		n := rng.Intn(80)
		if rng.Intn(8) == 0 {
			n = rng.Intn(600)
		}
		st.Inc("crc-len:" + sizeBucket(n))
		return []string{"crc " + hx(randBytes(rng, n))}
	}, map[string]logExec{
		"crc": func(w []string, st *Stats) (string, string) {
			return fmt.Sprint(crc32.Checksum(unhx(w[1]), y.CastagnoliCrcTable)), ""
		},
	})
}

// ---------------------------------------------------------------- log records

// crypto words of an op line: <aeskey> <baseiv>; "-" "-" = unencrypted file.
type logCrypto struct {
	key, iv []byte
}

func (c logCrypto) enabled() bool { return c.key != nil }

func parseCrypto(k, iv string) logCrypto {
	if k == "-" {
		return logCrypto{nil, make([]byte, 12)}
	}
	c := logCrypto{unhx(k), unhx(iv)}
	if len(c.iv) != 12 || (len(c.key) != 16 && len(c.key) != 24 && len(c.key) != 32) {
		panic("bad crypto words")
	}
	return c
}

func (c logCrypto) words() string {
	if !c.enabled() {
		return "- -"
	}
	return hx(c.key) + " " + hx(c.iv)
}

// keystream returns n bytes of the AES-CTR key stream for the record at offset off.
func (c logCrypto) keystream(off uint32, n int) []byte {
	if !c.enabled() || n == 0 {
		return nil
	}
	dst := make([]byte, n)
	if err := y.XORBlock(dst, make([]byte, n), c.key, badger.VerifGenerateIV(c.iv, off)); err != nil {
		panic(err)
	}
	return dst
}

func genCrypto(rng *rand.Rand, st *Stats) logCrypto {
	if rng.Intn(3) == 0 {
		st.Inc("file:encrypted")
		return logCrypto{randBytes(rng, []int{16, 24, 32}[rng.Intn(3)]), randBytes(rng, 12)}
	}
	st.Inc("file:plain")
	return logCrypto{nil, make([]byte, 12)}
}

func entStr(e badger.VerifLogEntry) string {
	return fmt.Sprintf("%d %d %d %s %s", e.Meta, e.UserMeta, e.ExpiresAt, hx(e.Key), hx(e.Value))
}

func sameStored(a, b badger.VerifLogEntry) bool {
	return a.Meta == b.Meta && a.UserMeta == b.UserMeta && a.ExpiresAt == b.ExpiresAt &&
		bytes.Equal(a.Key, b.Key) && bytes.Equal(a.Value, b.Value)
}

// checkKs: the key stream word of the line must be what the real cipher produces (the model
// only sees the key stream; a line edited by hand could be inconsistent).
func checkKs(c logCrypto, off uint32, ksWord string) bool {
	ks := unhx(ksWord)
	if !c.enabled() {
		return len(ks) == 0
	}
	return bytes.Equal(ks, c.keystream(off, len(ks)))
}

func init() {
	regLog("entry", genEntryCase, map[string]logExec{
		// entenc meta usermeta exp key val off aeskey iv ks
		"entenc": func(w []string, st *Stats) (string, string) {
			e := badger.VerifLogEntry{Meta: atob(w[1]), UserMeta: atob(w[2]), ExpiresAt: atou(w[3]), Key: unhx(w[4]), Value: unhx(w[5])}
			off := uint32(atou(w[6]))
			c := parseCrypto(w[7], w[8])
			if !checkKs(c, off, w[9]) || (c.enabled() && len(unhx(w[9])) < len(e.Key)+len(e.Value)+4) {
				return "bad-op", ""
			}
			enc, n, err := badger.VerifEncodeEntry(c.key, c.iv, off, e)
			if err != nil {
				return "error", ""
			}
			orc := ""
			if n != len(enc) {
				orc = fmt.Sprintf("[entry-len] encodeEntry returned %d, wrote %d", n, len(enc))
			}
			if len(enc) < 4 || binary.BigEndian.Uint32(enc[len(enc)-4:]) != crc32.Checksum(enc[:len(enc)-4], y.CastagnoliCrcTable) {
				orc = "[entry-crc-scope] trailing crc32 is not the Castagnoli CRC of all preceding record bytes"
			}
			// round trips (C16): decodeEntry and safeRead.Entry give back exactly e
			d, derr := badger.VerifDecodeEntry(c.key, c.iv, off, exact(enc))
			if derr != nil || !sameStored(d, e) {
				orc = fmt.Sprintf("[entry-roundtrip] decodeEntry(encodeEntry(e)) = %s (%v)", entStr(d), derr)
			}
			if len(e.Key) <= 1<<16 {
				in := append(append([]byte{}, enc...), 0x13, 0x00, 0xff)
				s, serr := badger.VerifSafeRead(c.key, c.iv, off, in)
				if serr != nil || !sameStored(s, e) || s.Hlen+len(e.Key)+len(e.Value)+4 != len(enc) {
					orc = fmt.Sprintf("[entry-saferead] safeRead.Entry(encodeEntry(e)++rest) = %s hlen=%d (%v)", entStr(s), s.Hlen, serr)
				}
				// corruption (C16): any single-byte change in meta bytes, key, value or crc is rejected
				// header length from the documented layout, not from the (possibly broken) reader:
				// altering a length varint is a different experiment (it can announce gigabytes)
				hl := 2 + uvLen(uint64(len(e.Key))) + uvLen(uint64(len(e.Value))) + uvLen(e.ExpiresAt)
				if hl+len(e.Key)+len(e.Value)+4 != len(enc) {
					return hx(enc), fmt.Sprintf("[entry-len] record has %d bytes, layout header|key|value|crc32 needs %d", len(enc), hl+len(e.Key)+len(e.Value)+4)
				}
				pos := []int{0, 1, len(enc) - 1, len(enc) - 4}
				for i := hl; i < len(enc)-4; i++ {
					pos = append(pos, i)
				}
				if len(pos) > 70 {
					p2 := pos[:4]
					for i := 0; i < 66; i++ {
						p2 = append(p2, hl+int(uint32(i)*2654435761%uint32(len(enc)-4-hl)))
					}
					pos = p2
				}
				for _, p := range pos {
					for _, mask := range []byte{0x01, 0x80, 0xff, byte(1 + (p*37)%255)} {
						mod := append([]byte{}, enc...)
						mod[p] ^= mask
						if _, cerr := badger.VerifSafeRead(c.key, c.iv, off, mod); cerr == nil {
							orc = fmt.Sprintf("[entry-corruption] byte %d ^= %#x of the record accepted by safeRead.Entry", p, mask)
						}
					}
				}
				st.Inc("corruption-positions:" + sizeBucket(len(pos)))
			}
			return hx(enc), orc
		},
		// entdec hex off aeskey iv ks
		"entdec": func(w []string, st *Stats) (string, string) {
			off := uint32(atou(w[2]))
			c := parseCrypto(w[3], w[4])
			if !checkKs(c, off, w[5]) {
				return "bad-op", ""
			}
			e, err := badger.VerifDecodeEntry(c.key, c.iv, off, exact(unhx(w[1])))
			if err != nil {
				return "error", ""
			}
			return entStr(e), ""
		},
		// sread hex off aeskey iv ks
		"sread": func(w []string, st *Stats) (string, string) {
			off := uint32(atou(w[2]))
			c := parseCrypto(w[3], w[4])
			if !checkKs(c, off, w[5]) {
				return "bad-op", ""
			}
			e, err := badger.VerifSafeRead(c.key, c.iv, off, unhx(w[1]))
			if err != nil {
				return badger.VerifLogErrName(err), ""
			}
			return fmt.Sprintf("ok %s %d", entStr(e), e.Hlen), ""
		},
	})
}

var metaChoices = []byte{0, 1, 2, 4, 8, 3, 0x40, 0x41, 0x42, 0x80, 0xc0, 0xff}

func genLogKey(rng *rand.Rand, st *Stats) []byte {
	switch rng.Intn(40) {
	case 0:
		st.Inc("klen:65535-65537")
		return randBytes(rng, 65535+rng.Intn(3)) // around the `klen > 1<<16` check
	case 1:
		return randBytes(rng, 120+rng.Intn(20)) // around the 1/2-byte varint boundary
	case 2:
		return []byte{}
	}
	return y.KeyWithTs(genUserKey(rng, 1, 6), genU64(rng))
}

func genLogValue(rng *rand.Rand) []byte {
	switch rng.Intn(12) {
	case 0:
		return []byte{}
	case 1:
		return randBytes(rng, 120+rng.Intn(20))
	case 2:
		return randBytes(rng, 16380+rng.Intn(8))
	}
	return randBytes(rng, rng.Intn(24))
}

func genOffset(rng *rand.Rand) uint32 {
	switch rng.Intn(4) {
	case 0:
		return 20
	case 1:
		return uint32(1<<32 - 1 - rng.Intn(100000))
	}
	return rng.Uint32()
}

var hugeVlenDone bool

func genEntryCase(rng *rand.Rand, st *Stats) []string {
	c := genCrypto(rng, st)
	off := genOffset(rng)
	e := badger.VerifLogEntry{Meta: metaChoices[rng.Intn(len(metaChoices))], UserMeta: byte(rng.Intn(256)), ExpiresAt: genU64(rng),
		Key: genLogKey(rng, st), Value: genLogValue(rng)}
	enc, _, err := badger.VerifEncodeEntry(c.key, c.iv, off, e)
	if err != nil {
		panic(err)
	}
	ks := c.keystream(off, len(enc)+8)
	cw := fmt.Sprintf("%d %s %s", off, c.words(), hx(ks))
	ops := []string{
		fmt.Sprintf("entenc %s %s", entStr(e), cw),
		fmt.Sprintf("entdec %s %s", hx(enc), cw),
		fmt.Sprintf("sread %s %s", hx(append(append([]byte{}, enc...), randBytes(rng, rng.Intn(4))...)), cw),
	}
	small := len(enc) < 400
	if small {
		// torn: every kind of short read
		for i := 0; i < 3; i++ {
			cut := rng.Intn(len(enc))
			ops = append(ops, fmt.Sprintf("sread %s %s", hx(enc[:cut]), cw))
			ops = append(ops, fmt.Sprintf("entdec %s %s", hx(enc[:cut]), cw))
		}
		// corrupted
		mod := append([]byte{}, enc...)
		mod[rng.Intn(len(mod))] ^= byte(1 + rng.Intn(255))
		if saneLengths(mod) {
			ops = append(ops, fmt.Sprintf("sread %s %s", hx(mod), cw))
		}
	}
	// malformed headers in front of a short body: large klen, uint32 wrap of klen+vlen, overflow
	var hb [binary.MaxVarintLen64]byte
	m := []byte{byte(rng.Intn(256)), byte(rng.Intn(256))}
	klen := []uint64{0, 1, 3, 65536, 65537, 1 << 32, 1<<32 + 2}[rng.Intn(7)]
	vlen := []uint64{0, 2, 1<<32 + 1, 5, 1 << 32, 300}[rng.Intn(6)]
	if rng.Intn(20) == 0 && !hugeVlenDone {
		hugeVlenDone = true // once per run: a second 8 GiB allocation has to be zeroed (seconds)
		// uint32 wrap of klen+vlen. Rare: safeRead.Entry allocates 2*vlen bytes (8 GiB of address
		// space) for such a header before reading anything.
		vlen = []uint64{1<<32 - 1, 1<<32 - 2}[rng.Intn(2)]
		klen = []uint64{1, 3, 65536, 0}[rng.Intn(4)]
		st.Inc("entry:huge-vlen")
	}
	if (klen+vlen)%(1<<32) < 1<<20 || klen%(1<<32) > 1<<16 { // (no multi-GiB make([]byte, klen+vlen))
		m = append(m, hb[:binary.PutUvarint(hb[:], klen)]...)
		m = append(m, hb[:binary.PutUvarint(hb[:], vlen)]...)
		if rng.Intn(6) == 0 {
			m = append(m, malformedVarint(rng)...)
		} else {
			m = append(m, hb[:binary.PutUvarint(hb[:], genU64(rng))]...)
		}
		m = append(m, randBytes(rng, rng.Intn(12))...)
		if rng.Intn(2) == 0 { // give it a correct checksum over whatever the body turns out to be
			m = binary.BigEndian.AppendUint32(m, crc32.Checksum(m, y.CastagnoliCrcTable))
		}
		ks2 := c.keystream(off, len(m)+8)
		cw2 := fmt.Sprintf("%d %s %s", off, c.words(), hx(ks2))
		ops = append(ops, fmt.Sprintf("sread %s %s", hx(m), cw2), fmt.Sprintf("entdec %s %s", hx(m), cw2))
		st.Inc("entry:malformed-header")
	}
	st.Inc("entry-klen:" + sizeBucket(len(e.Key)))
	st.Inc("entry-vlen:" + sizeBucket(len(e.Value)))
	st.Inc(fmt.Sprintf("entry-meta:%#x", e.Meta&0xc0))
	return ops
}

// ---------------------------------------------------------------- iterate

type logRec struct {
	m, um byte
	ex    uint64
	k, v  []byte
}

func (r logRec) word() string {
	return fmt.Sprintf("%d:%d:%d:%s:%s", r.m, r.um, r.ex, hx(r.k), hx(r.v))
}

func parseRec(s string) logRec {
	p := strings.Split(s, ":")
	if len(p) != 5 {
		panic("bad rec")
	}
	return logRec{atob(p[0]), atob(p[1]), atou(p[2]), unhx(p[3]), unhx(p[4])}
}

func uvLen(x uint64) int {
	var b [binary.MaxVarintLen64]byte
	return binary.PutUvarint(b[:], x)
}

// specLen: the documented record layout | header | key | value | crc32 |.
func (r logRec) specLen() int {
	return 2 + uvLen(uint64(len(r.k))) + uvLen(uint64(len(r.v))) + uvLen(r.ex) + len(r.k) + len(r.v) + 4
}

func deliveredWord(fid, off, ln uint32, m, um byte, ex uint64, k, v []byte) string {
	return fmt.Sprintf("%d:%d:%d:%d:%d:%d:%s:%s", fid, off, ln, m, um, ex, hx(k), hx(v))
}

func iterOut(items []badger.VerifLogEntry, end uint32, err error) string {
	w := []string{badger.VerifLogErrName(err), utoa(uint64(end)), fmt.Sprint(len(items))}
	for _, e := range items {
		w = append(w, deliveredWord(e.VpFid, e.VpOffset, e.VpLen, e.Meta, e.UserMeta, e.ExpiresAt, e.Key, e.Value))
	}
	return strings.Join(w, " ")
}

func fileImage(content []byte) []byte {
	return append(make([]byte, badger.VerifVlogHeaderSize), content...)
}

// parseKsMap / checks that every key stream of the line is the real one.
func checkKsMap(c logCrypto, word string) bool {
	if word == "-" {
		return !c.enabled()
	}
	if !c.enabled() {
		return false
	}
	for _, p := range strings.Split(word, ",") {
		q := strings.Split(p, ":")
		if len(q) != 2 || !checkKs(c, uint32(atou(q[0])), q[1]) {
			return false
		}
	}
	return true
}

// walSpec: what C16/C09 promise for a log written as recs and then cut after `cut` content bytes
// (the rest missing or zero): exactly the records of the complete units (a non-transactional
// record, or a run of bitTxn records of one commit timestamp closed by its bitFinTxn marker)
// that lie entirely before the cut, in write order, with vptr = (fid, offset, len); the returned
// end offset is the end of the last complete unit.
func walSpec(fid uint32, recs []logRec, cut int) (items []string, end uint32) {
	off := int(badger.VerifVlogHeaderSize)
	end = uint32(off)
	limit := off + cut
	i := 0
	for i < len(recs) {
		r := recs[i]
		if len(r.k) == 0 {
			return
		}
		switch {
		case r.m&badger.VerifBitTxn == 0 && r.m&badger.VerifBitFinTxn == 0:
			if off+r.specLen() > limit {
				return
			}
			items = append(items, deliveredWord(fid, uint32(off), uint32(r.specLen()), r.m, r.um, r.ex, r.k, r.v))
			off += r.specLen()
			end = uint32(off)
			i++
		case r.m&badger.VerifBitTxn != 0:
			ts := y.ParseTs(r.k)
			if ts == 0 {
				return
			}
			var group []string
			o := off
			j := i
			for j < len(recs) && recs[j].m&badger.VerifBitTxn != 0 && len(recs[j].k) > 0 && y.ParseTs(recs[j].k) == ts {
				group = append(group, deliveredWord(fid, uint32(o), uint32(recs[j].specLen()), recs[j].m, recs[j].um, recs[j].ex, recs[j].k, recs[j].v))
				o += recs[j].specLen()
				j++
			}
			if j >= len(recs) || recs[j].m&badger.VerifBitFinTxn == 0 || len(recs[j].k) == 0 {
				return
			}
			fts, err := strconv.ParseUint(string(recs[j].v), 10, 64)
			if err != nil || fts != ts {
				return
			}
			o += recs[j].specLen()
			if o > limit {
				return
			}
			items = append(items, group...)
			off = o
			end = uint32(off)
			i = j + 1
		default: // a bare end-of-transaction marker: badger never writes one
			return
		}
	}
	return
}

func encodeRecs(c logCrypto, recs []logRec) (content []byte, offs []uint32) {
	off := uint32(badger.VerifVlogHeaderSize)
	for _, r := range recs {
		enc, _, err := badger.VerifEncodeEntry(c.key, c.iv, off, badger.VerifLogEntry{Meta: r.m, UserMeta: r.um, ExpiresAt: r.ex, Key: r.k, Value: r.v})
		if err != nil {
			panic(err)
		}
		offs = append(offs, off)
		content = append(content, enc...)
		off += uint32(len(enc))
	}
	return
}

func ksMapWord(c logCrypto, recs []logRec, offs []uint32) string {
	if !c.enabled() {
		return "-"
	}
	var p []string
	for i, r := range recs {
		p = append(p, fmt.Sprintf("%d:%s", offs[i], hx(c.keystream(offs[i], len(r.k)+len(r.v)+8))))
	}
	if len(p) == 0 {
		return fmt.Sprintf("20:%s", hx(c.keystream(20, 1)))
	}
	return strings.Join(p, ",")
}

func runWal(w []string, withOracle bool) (string, string) {
	// wal fid aeskey iv ksmap cut fill rec...
	fid := uint32(atou(w[1]))
	c := parseCrypto(w[2], w[3])
	if !checkKsMap(c, w[4]) {
		return "bad-op", ""
	}
	cut, fill := int(atou(w[5])), int(atou(w[6]))
	var recs []logRec
	for _, s := range w[7:] {
		recs = append(recs, parseRec(s))
	}
	full, _ := encodeRecs(c, recs)
	total := len(full)
	if cut > total {
		cut = total
	}
	content := append(append([]byte{}, full[:cut]...), make([]byte, fill)...)
	// Zero-filling bytes that were zero anyway damages nothing: the file equals the written log up
	// to the first lost non-zero byte, and that is the cut the property speaks about.
	for cut < total && cut < len(content) && full[cut] == 0 {
		cut++
	}
	items, end, err := badger.VerifIterate(fid, fileImage(content), c.key, c.iv)
	out := fmt.Sprintf("%s len=%d crc=%d", iterOut(items, end, err), total, crc32.Checksum(content, y.CastagnoliCrcTable))
	orc := ""
	if withOracle {
		wantItems, wantEnd := walSpec(fid, recs, cut)
		var got []string
		for _, e := range items {
			got = append(got, deliveredWord(e.VpFid, e.VpOffset, e.VpLen, e.Meta, e.UserMeta, e.ExpiresAt, e.Key, e.Value))
		}
		kind := "[log-iterate]"
		if cut < total {
			kind = "[log-torn-truncated]"
			if fill > 0 {
				kind = "[log-torn-zero]"
			}
		}
		switch {
		case err != nil:
			orc = fmt.Sprintf("%s iterate failed: %v", kind, err)
		case strings.Join(got, " ") != strings.Join(wantItems, " "):
			orc = fmt.Sprintf("%s delivered %d entries %v, the complete units before the cut are %d: %v", kind, len(got), clip(strings.Join(got, " "), 300), len(wantItems), clip(strings.Join(wantItems, " "), 300))
		case end != wantEnd:
			orc = fmt.Sprintf("%s end offset %d, end of the last complete unit is %d", kind, end, wantEnd)
		}
	}
	return out, orc
}

func init() {
	regLog("wal", genWalCase, map[string]logExec{
		"wal":  func(w []string, st *Stats) (string, string) { return runWal(w, true) },
		"walx": func(w []string, st *Stats) (string, string) { return runWal(w, false) },
		// iter fid hex aeskey iv ksmap : raw file content
		"iter": func(w []string, st *Stats) (string, string) {
			fid := uint32(atou(w[1]))
			c := parseCrypto(w[3], w[4])
			if !checkKsMap(c, w[5]) {
				return "bad-op", ""
			}
			content := unhx(w[2])
			items, end, err := badger.VerifIterate(fid, fileImage(content), c.key, c.iv)
			orc := ""
			if err == nil && int(end) > badger.VerifVlogHeaderSize+len(content) {
				orc = "[log-iterate] end offset beyond the file"
			}
			return iterOut(items, end, err), orc
		},
	})
	regLog("torn", genTornCase, nil)
	regLog("iterraw", genIterRawCase, nil)
}

func genPlainRec(rng *rand.Rand) logRec {
	return logRec{[]byte{0, 1, 2, 4, 8, 3, 0x10}[rng.Intn(7)], byte(rng.Intn(256)), genU64(rng) >> uint(rng.Intn(64)),
		y.KeyWithTs(genUserKey(rng, 1, 5), genU64(rng)), genSmallValue(rng)}
}

func genSmallValue(rng *rand.Rand) []byte {
	switch rng.Intn(10) {
	case 0:
		return []byte{}
	case 1:
		return randBytes(rng, 120+rng.Intn(16))
	}
	return randBytes(rng, rng.Intn(12))
}

func genTs(rng *rand.Rand) uint64 {
	for {
		if ts := genU64(rng); ts != 0 {
			return ts
		}
	}
}

func genTxnUnit(rng *rand.Rand, ts uint64) []logRec {
	var u []logRec
	n := 1 + rng.Intn(3)
	for i := 0; i < n; i++ {
		u = append(u, logRec{badger.VerifBitTxn | []byte{0, 1, 2, 4}[rng.Intn(4)], byte(rng.Intn(256)), genU64(rng) >> uint(rng.Intn(64)),
			y.KeyWithTs(genUserKey(rng, 1, 5), ts), genSmallValue(rng)})
	}
	u = append(u, logRec{badger.VerifBitFinTxn, 0, 0, y.KeyWithTs([]byte("!badger!txn"), ts), []byte(strconv.FormatUint(ts, 10))})
	return u
}

// genUnits: what badger writes: non-transactional records and complete transactions.
func genUnits(rng *rand.Rand, st *Stats, n int) (recs []logRec, unitEnds []int) {
	for i := 0; i < n; i++ {
		if rng.Intn(2) == 0 {
			recs = append(recs, genPlainRec(rng))
			st.Inc("unit:plain")
		} else {
			u := genTxnUnit(rng, genTs(rng))
			recs = append(recs, u...)
			st.Inc(fmt.Sprintf("unit:txn-%d", len(u)-1))
		}
		unitEnds = append(unitEnds, len(recs))
	}
	return
}

func walLine(op string, fid uint32, c logCrypto, recs []logRec, cut, fill int) string {
	_, offs := encodeRecs(c, recs)
	w := []string{op, fmt.Sprint(fid), c.words(), ksMapWord(c, recs, offs), fmt.Sprint(cut), fmt.Sprint(fill)}
	for _, r := range recs {
		w = append(w, r.word())
	}
	return strings.Join(w, " ")
}

const walNoCut = 1 << 30

// logFile.iterate reads the file through bufio.NewReader (4096-byte buffer) positioned at file
// offset 20: with records shorter than the buffer it is refilled at file offsets 20+4096*k. A
// read that is not an io.ReadFull sees a short count exactly there.
const iterReadBuf = 4096

func recsLen(recs []logRec) int {
	n := 0
	for _, r := range recs {
		n += r.specLen()
	}
	return n
}

func genOneUnit(rng *rand.Rand, st *Stats) []logRec {
	recs, _ := genUnits(rng, st, 1)
	return recs
}

// straddleCount: records of the log whose 4-byte CRC field lies across a refill boundary.
func straddleCount(recs []logRec) int {
	off, n := badger.VerifVlogHeaderSize, 0
	for _, r := range recs {
		off += r.specLen()
		if m := (off - badger.VerifVlogHeaderSize) % iterReadBuf; m >= 1 && m <= 3 && off > iterReadBuf {
			n++
		}
	}
	return n
}

// genStraddleLog: many small units of varied lengths, then a record padded so that it ends d bytes
// (1..3) after file offset 20+4096*k, i.e. its CRC field straddles the k-th refill boundary of the
// read buffer, then a few more units (which must still be delivered).
func genStraddleLog(rng *rand.Rand, st *Stats, k, d int) []logRec {
	boundary := badger.VerifVlogHeaderSize + iterReadBuf*k
	for {
		var recs []logRec
		off := badger.VerifVlogHeaderSize
		for off+1500 < boundary {
			u := genOneUnit(rng, st)
			recs = append(recs, u...)
			off += recsLen(u)
		}
		for off+260 < boundary {
			r := genPlainRec(rng)
			r.v = randBytes(rng, rng.Intn(40))
			recs = append(recs, r)
			off += r.specLen()
		}
		// the padded record: outside a transaction, or the first record of one
		ts := genTs(rng)
		r := genPlainRec(rng)
		inTxn := rng.Intn(2) == 0
		if inTxn {
			r = logRec{badger.VerifBitTxn, byte(rng.Intn(256)), 0, y.KeyWithTs(genUserKey(rng, 1, 5), ts), nil}
		}
		found := false
		for vl := 0; vl < 400 && !found; vl++ {
			r.v = make([]byte, vl)
			if off+r.specLen() == boundary+d {
				r.v = randBytes(rng, vl)
				found = true
			}
		}
		if !found {
			continue
		}
		recs = append(recs, r)
		if inTxn {
			recs = append(recs, logRec{badger.VerifBitFinTxn, 0, 0, y.KeyWithTs([]byte("!badger!txn"), ts), []byte(strconv.FormatUint(ts, 10))})
		}
		for i := 0; i < 2+rng.Intn(3); i++ {
			recs = append(recs, genOneUnit(rng, st)...)
		}
		st.Inc(fmt.Sprintf("wal:crc-straddles-refill-k%d-by%d", k, d))
		return recs
	}
}

// genLongLog: 12..20 KiB of small units, so that several refill boundaries are crossed and record
// ends fall at arbitrary residues modulo the buffer size.
func genLongLog(rng *rand.Rand, st *Stats) []logRec {
	want := 12<<10 + rng.Intn(8<<10)
	var recs []logRec
	for n := 0; n < want; {
		u := genOneUnit(rng, st)
		recs = append(recs, u...)
		n += recsLen(u)
	}
	st.Inc("wal:long")
	st.Inc(fmt.Sprintf("wal:long-crc-straddles:%d", straddleCount(recs)))
	return recs
}

var walCases int

func init() {
	regLog("walstraddle", func(rng *rand.Rand, st *Stats) []string {
		c := genCrypto(rng, st)
		return []string{walLine("wal", genU32(rng), c, genStraddleLog(rng, st, 1+rng.Intn(3), 1+rng.Intn(3)), walNoCut, 0)}
	}, nil)
	regLog("wallong", func(rng *rand.Rand, st *Stats) []string {
		c := genCrypto(rng, st)
		return []string{walLine("wal", genU32(rng), c, genLongLog(rng, st), walNoCut, 0)}
	}, nil)
}

func genWalCase(rng *rand.Rand, st *Stats) []string {
	walCases++
	if walCases == 1 {
		// once per run: every refill boundary k = 1..3 straddled by 1, 2 and 3 bytes
		var ops []string
		for k := 1; k <= 3; k++ {
			for d := 1; d <= 3; d++ {
				c := genCrypto(rng, st)
				ops = append(ops, walLine("wal", genU32(rng), c, genStraddleLog(rng, st, k, d), walNoCut, 0))
			}
		}
		return ops
	}
	if rng.Intn(40) == 0 {
		c := genCrypto(rng, st)
		return []string{walLine("wal", genU32(rng), c, genLongLog(rng, st), walNoCut, 0)}
	}
	c := genCrypto(rng, st)
	fid := genU32(rng)
	recs, _ := genUnits(rng, st, rng.Intn(6))
	ops := []string{walLine("wal", fid, c, recs, walNoCut, 0)}
	// incomplete / interrupted transactions after a valid prefix (still what badger can leave
	// behind after a crash: C16 "delivered only together with their end marker")
	ts := genTs(rng)
	u := genTxnUnit(rng, ts)
	switch rng.Intn(5) {
	case 0: // marker missing at the end of the file
		st.Inc("wal:txn-no-marker")
		ops = append(ops, walLine("wal", fid, c, append(append([]logRec{}, recs...), u[:len(u)-1]...), walNoCut, rng.Intn(2)*30))
	case 1: // marker of another transaction
		st.Inc("wal:txn-wrong-marker")
		u[len(u)-1].v = []byte(strconv.FormatUint(ts+1, 10))
		ops = append(ops, walLine("wal", fid, c, append(append(append([]logRec{}, recs...), u...), genPlainRec(rng)), walNoCut, 0))
	case 2: // transaction interrupted by a non-transactional record
		st.Inc("wal:txn-interrupted")
		x := append(append([]logRec{}, recs...), u[:len(u)-1]...)
		x = append(x, genPlainRec(rng))
		x = append(x, u[len(u)-1])
		ops = append(ops, walLine("wal", fid, c, x, walNoCut, 0))
	case 3: // entries of another commit timestamp inside the group
		st.Inc("wal:txn-mixed-ts")
		x := append(append([]logRec{}, recs...), u[:len(u)-1]...)
		x = append(x, genTxnUnit(rng, ts+1)...)
		ops = append(ops, walLine("wal", fid, c, x, walNoCut, 0))
	case 4: // things badger never writes: model-vs-code comparison only
		st.Inc("wal:malformed")
		x := append([]logRec{}, recs...)
		switch rng.Intn(5) {
		case 0:
			x = append(x, logRec{badger.VerifBitFinTxn, 0, 0, []byte("k"), []byte("0")}, genPlainRec(rng))
		case 1:
			x = append(x, logRec{badger.VerifBitTxn, 0, 0, []byte("short"), []byte("v")}, genPlainRec(rng),
				logRec{badger.VerifBitFinTxn, 0, 0, []byte("k"), []byte("0")}, genPlainRec(rng))
		case 2:
			u[len(u)-1].v = [][]byte{[]byte(""), []byte("+1"), []byte("1_0"), []byte("18446744073709551616"), []byte("007"), []byte("1a")}[rng.Intn(6)]
			x = append(append(x, u...), genPlainRec(rng))
		case 3:
			x = append(x, logRec{0, 0, 0, []byte{}, []byte("zero-key")}, genPlainRec(rng))
		case 4:
			u[0].m |= badger.VerifBitFinTxn
			x = append(append(x, u...), genPlainRec(rng))
		}
		ops = append(ops, walLine("walx", fid, c, x, walNoCut, 0))
	}
	st.Inc("wal-records:" + sizeBucket(len(recs)))
	return ops
}

// genTornCase (C09): a valid log cut at every offset within its last three records, the rest
// missing or zero-filled.
func genTornCase(rng *rand.Rand, st *Stats) []string {
	c := genCrypto(rng, st)
	fid := genU32(rng)
	recs, _ := genUnits(rng, st, 1+rng.Intn(4))
	content, offs := encodeRecs(c, recs)
	first := 0
	if len(recs) > 3 {
		first = int(offs[len(recs)-3]) - badger.VerifVlogHeaderSize
	}
	var ops []string
	for cut := first; cut < len(content); cut++ {
		ops = append(ops, walLine("wal", fid, c, recs, cut, 0))
		ops = append(ops, walLine("wal", fid, c, recs, cut, []int{1, 3, 8, 22, 40, len(content) - cut + 25}[rng.Intn(6)]))
		st.Inc("torn-cuts")
	}
	return ops
}

// saneLengths: no record header reachable by following the declared lengths announces a value of
// more than 16 MiB (safeRead.Entry allocates 3*vlen bytes before it verifies anything; such
// inputs are exercised separately and rarely, see "entry:huge-vlen").
func saneLengths(content []byte) bool {
	off := 0
	for off+2 <= len(content) {
		p := off + 2
		var f [3]uint64
		for i := range f {
			v, n := binary.Uvarint(content[p:])
			if n <= 0 {
				return true
			}
			f[i] = v
			p += n
		}
		if uint32(f[1]) > 1<<24 {
			return false
		}
		if uint32(f[0]) > 1<<16 {
			return true
		}
		off = p + int(uint32(f[0])) + int(uint32(f[1])) + 4
	}
	return true
}

// genIterRawCase: raw file contents: a valid log with bytes altered / garbage appended.
func genIterRawCase(rng *rand.Rand, st *Stats) []string {
	c := genCrypto(rng, st)
	fid := genU32(rng)
	recs, _ := genUnits(rng, st, 1+rng.Intn(4))
	content, offs := encodeRecs(c, recs)
	km := "-"
	if c.enabled() {
		var p []string
		for _, o := range offs {
			p = append(p, fmt.Sprintf("%d:%s", o, hx(c.keystream(o, len(content)+40))))
		}
		km = strings.Join(p, ",")
	}
	var ops []string
	line := func(b []byte) string { return fmt.Sprintf("iter %d %s %s %s", fid, hx(b), c.words(), km) }
	ops = append(ops, line(content))
	for i := 0; i < 3; i++ {
		mod := append([]byte{}, content...)
		mod[rng.Intn(len(mod))] ^= byte(1 + rng.Intn(255))
		if !saneLengths(mod) {
			st.Inc("iterraw:skipped-huge-vlen")
			continue
		}
		ops = append(ops, line(mod))
	}
	if g := append(append([]byte{}, content...), randBytes(rng, rng.Intn(30))...); saneLengths(g) {
		ops = append(ops, line(g))
	}
	if !c.enabled() {
		// an over-long varint in the header: iterate returns an error instead of stopping
		bad := append(append([]byte{}, content...), 0, 0, 0x80, 0x80, 0x80, 0x80, 0x80, 0x80, 0x80, 0x80, 0x80, 0x80, 0x01)
		ops = append(ops, line(bad))
		if g := randBytes(rng, rng.Intn(40)); saneLengths(g) {
			ops = append(ops, line(g))
		}
	}
	st.Inc("iterraw")
	return ops
}
