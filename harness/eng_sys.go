package main

// Engines of the "sys" area:
//
//   crypto   (C23)  unit ops compared with the Lean model BadgerModel/Crypto.lean (driver
//                   `bmd_conc crypto`): log-record IVs, CTR counter overlap measured on the real
//                   AES key stream, LatestDataKey branches, registry open / master-key rotation;
//                   plus `session` ops: the same random workload on a plain and an encrypted
//                   DB (reads compared, every file scanned for plaintext needles, every
//                   (data key, IV) collected and checked pairwise distinct, every value-log
//                   record decrypted independently under base‖offset, wrong-key reopen,
//                   master-key rotation as badger/cmd/rotate.go does it).
//   pipeline (C38)  see eng_pipeline section below.

import (
	"bytes"
	"context"
	"crypto/aes"
	"crypto/cipher"
	"crypto/sha256"
	"encoding/binary"
	"errors"
	"fmt"
	"math"
	"math/big"
	"math/rand"
	"os"
	"os/exec"
	"path/filepath"
	"runtime"
	"sort"
	"strconv"
	"strings"
	"sync"
	"sync/atomic"
	"time"

	badger "github.com/dgraph-io/badger/v4"
	"github.com/dgraph-io/badger/v4/options"
	"github.com/dgraph-io/badger/v4/pb"
	"github.com/dgraph-io/badger/v4/y"
)

func init() {
	if len(os.Args) > 1 && os.Args[1] == "__cryptochild" {
		sys_cryptoChildMain()
		os.Exit(0)
	}
	engines["crypto"] = &Engine{Gen: sys_genCrypto, ExecX: sys_execCrypto}
}

// sys_cryptoChildMain: `bv __cryptochild <dir> <vdir> <comp> <keyhex>...` tries to open the
// database with each key in turn and prints one line per key: ok | mismatch | err <text>.
// Run in a child process because a wrong key that is *not* rejected makes badger decode
// garbage, which may kill the process from a background goroutine.
func sys_cryptoChildMain() {
	dir, vdir := os.Args[2], os.Args[3]
	comp, _ := strconv.Atoi(os.Args[4])
	s := &sys_cryptoSess{rot: 240 * time.Hour, comp: options.CompressionType(comp)}
	for _, kh := range os.Args[5:] {
		var key []byte
		if kh != "-" {
			key = unhx(kh)
		}
		db, err := badger.Open(s.opts(dir, vdir, key))
		switch {
		case err == nil:
			db.Close()
			fmt.Println("ok")
		case errors.Is(err, badger.ErrEncryptionKeyMismatch):
			fmt.Println("mismatch")
		default:
			fmt.Println("err " + strings.ReplaceAll(err.Error(), "\n", " "))
		}
	}
}

// sys_tryKeys runs the child; one result per key ("crash" when the child died).
func sys_tryKeys(dir, vdir string, comp options.CompressionType, keys [][]byte) []string {
	args := []string{"__cryptochild", dir, vdir, strconv.Itoa(int(comp))}
	for _, k := range keys {
		args = append(args, hx(k))
	}
	cmd := exec.Command(os.Args[0], args...)
	outB, _ := cmd.Output()
	res := strings.Split(strings.TrimSpace(string(outB)), "\n")
	if len(res) == 1 && res[0] == "" {
		res = nil
	}
	for len(res) < len(keys) {
		res = append(res, "crash")
	}
	return res
}

// ---------------------------------------------------------------- crypto: unit ops

func sys_blocksOf(l int) int { return (l + 15) / 16 }

// sys_keystream of n bytes for (key, iv) through badger's own XORBlock.
func sys_keystream(key, iv []byte, n int) []byte {
	out, err := y.XORBlockAllocate(make([]byte, n), key, iv)
	if err != nil {
		panic(err)
	}
	return out
}

// sys_specBlock is AES_key(iv + j) with the IV taken as one 128-bit big-endian counter.
func sys_specBlock(key, iv []byte, j int) []byte {
	blk, _ := aes.NewCipher(key)
	n := new(big.Int).SetBytes(iv)
	n.Add(n, big.NewInt(int64(j)))
	n.Mod(n, new(big.Int).Lsh(big.NewInt(1), 128))
	ctr := make([]byte, 16)
	n.FillBytes(ctr)
	out := make([]byte, 16)
	blk.Encrypt(out, ctr)
	return out
}

var sys_unitKey = []byte("verif-unit-key16")

func sys_cryptoUnit(w []string, st *Stats) (final string, out string, orc string) {
	line := strings.Join(w, " ")
	switch w[0] {
	case "iv":
		base := unhx(w[1])
		off := atou(w[2])
		if len(base) != 12 || off > math.MaxUint32 {
			return line, "bad-op", ""
		}
		return line, hx(badger.VerifSysGenerateIV(base, uint32(off))), ""
	case "ctrs":
		base := unhx(w[1])
		o1, l1, o2, l2 := atou(w[2]), int(atou(w[3])), atou(w[4]), int(atou(w[5]))
		iv1 := badger.VerifSysGenerateIV(base, uint32(o1))
		iv2 := badger.VerifSysGenerateIV(base, uint32(o2))
		s1 := sys_keystream(sys_unitKey, iv1, sys_blocksOf(l1)*16)
		s2 := sys_keystream(sys_unitKey, iv2, sys_blocksOf(l2)*16)
		overlap := false
		for i := 0; i+16 <= len(s1); i += 16 {
			for j := 0; j+16 <= len(s2); j += 16 {
				if bytes.Equal(s1[i:i+16], s2[j:j+16]) {
					overlap = true
				}
			}
		}
		// oracle: the key stream is AES of the incrementing 128-bit counter (carry included)
		for i := 0; i+16 <= len(s1); i += 16 {
			if !bytes.Equal(s1[i:i+16], sys_specBlock(sys_unitKey, iv1, i/16)) {
				orc = fmt.Sprintf("[C23-ctr-structure] key-stream block %d under IV %x is not AES(IV+%d) with a 128-bit big-endian increment", i/16, iv1, i/16)
			}
		}
		res := "disjoint"
		if overlap {
			res = "overlap"
			if o1+uint64(l1) <= o2 && o2+uint64(l2) <= 1<<32 {
				orc = fmt.Sprintf("[C23-ctr-overlap] records at offsets %d (+%d) and %d (+%d) of one file share a CTR counter block", o1, l1, o2, l2)
			}
		}
		st.Inc("ctrs:" + res)
		return line, res, orc
	case "latest":
		kv := kvWords(w[1:])
		ml := kvInt(kv, "master", 0)
		next := uint64(kvInt(kv, "next", 0))
		now := time.Now()
		nowNs := now.UnixNano()
		var last int64
		var rot time.Duration
		has := next > 0
		switch kv["kind"] {
		case "fresh-max":
			rot = time.Duration(math.MaxInt64)
		case "fresh-epoch":
			rot = time.Duration(nowNs) + time.Hour
		case "fresh-10d":
			rot = 240 * time.Hour
		case "young":
			last, rot = now.Unix()-100, time.Hour
		case "old":
			last, rot = now.Unix()-7200, time.Hour
		case "tiny":
			last, rot = now.Unix()-5, time.Nanosecond
		case "zero":
			last, rot = now.Unix()-5, 0
		case "replay": // a final op line replayed as is
			last = int64(atou(kv["last"]))
			r, _ := strconv.ParseInt(kv["rotns"], 10, 64)
			rot = time.Duration(r)
			has = kvInt(kv, "has", 0) != 0
		default:
			return line, "bad-op", ""
		}
		if strings.HasPrefix(kv["kind"], "fresh") {
			next, has, last = 0, false, 0
		}
		master := bytes.Repeat([]byte{1}, ml)
		id, isNil, nx, err := badger.VerifSysLatestDataKey(master, rot, last, next, has)
		final = fmt.Sprintf("latest master=%d kind=replay rotns=%d last=%d next=%d has=%d now=%d", ml, int64(rot), last, next, b2i(has), nowNs)
		switch {
		case err != nil:
			out = "err:" + err.Error()
		case isNil:
			out = fmt.Sprintf("nil next=%d", nx)
			if ml > 0 {
				// (finding F23a, fixed by 497bf84: rotation interval beyond the epoch on a fresh registry)
				orc = fmt.Sprintf("[C23-nil-datakey] LatestDataKey returned a nil data key although an encryption key is configured (rotation %v, lastCreated %d, nextKeyID %d): files would be written in plaintext", rot, last, next)
			}
		case nx != next:
			out = fmt.Sprintf("new %d next=%d", id, nx)
		default:
			out = fmt.Sprintf("reuse %d next=%d", id, nx)
		}
		st.Inc("latest:" + strings.Fields(out)[0])
		return final, out, orc
	case "regopen", "rotate":
		return sys_cryptoRegistryOp(w, st)
	}
	return line, "bad-op", ""
}

func sys_krOpts(dir string, key []byte, ro bool) badger.KeyRegistryOptions {
	return badger.KeyRegistryOptions{Dir: dir, ReadOnly: ro, EncryptionKey: key, EncryptionKeyRotationDuration: 0}
}

func sys_dirHash(dirs ...string) string {
	h := sha256.New()
	for _, d := range dirs {
		var names []string
		filepath.Walk(d, func(p string, fi os.FileInfo, err error) error {
			if err == nil && !fi.IsDir() {
				names = append(names, p)
			}
			return nil
		})
		sort.Strings(names)
		for _, p := range names {
			b, _ := os.ReadFile(p)
			fmt.Fprintf(h, "%s %d\n", strings.TrimPrefix(p, d), len(b))
			h.Write(b)
		}
	}
	return fmt.Sprintf("%x", h.Sum(nil))
}

// sys_makeRegistry creates KEYREGISTRY in dir under key w with nk data keys; returns (id → key material).
func sys_makeRegistry(dir string, w []byte, nk int) (map[uint64][]byte, error) {
	kr, err := badger.OpenKeyRegistry(sys_krOpts(dir, w, false))
	if err != nil {
		return nil, err
	}
	keys := map[uint64][]byte{}
	for i := 0; i < nk; i++ {
		dk, err := kr.LatestDataKey()
		if err != nil {
			return nil, err
		}
		if dk == nil {
			break
		}
		keys[dk.KeyId] = append([]byte{}, dk.Data...)
	}
	return keys, kr.Close()
}

func sys_cryptoRegistryOp(w []string, st *Stats) (final, out, orc string) {
	line := strings.Join(w, " ")
	dir := scratchDir()
	defer os.RemoveAll(dir)
	classify := func(err error) string {
		switch {
		case err == nil:
			return "ok"
		case errors.Is(err, badger.ErrEncryptionKeyMismatch):
			return "mismatch"
		case errors.Is(err, badger.ErrInvalidEncryptionKey) || strings.Contains(err.Error(), badger.ErrInvalidEncryptionKey.Error()):
			return "invalid-key"
		}
		return "err:" + strings.ReplaceAll(err.Error(), " ", "_")
	}
	countKeys := func(kr *badger.KeyRegistry, want map[uint64][]byte) (n int, same bool) {
		same = true
		for id, data := range want {
			dk, err := kr.DataKey(id)
			if err == nil && dk != nil {
				n++
				if !bytes.Equal(dk.Data, data) {
					same = false
				}
			} else {
				same = false
			}
		}
		return
	}
	validLen := func(k []byte) bool { return len(k) == 0 || len(k) == 16 || len(k) == 24 || len(k) == 32 }
	switch w[0] {
	case "regopen": // regopen <written-with> <opened-with> <nkeys>
		wk, ok, nk := unhx(w[1]), unhx(w[2]), int(atou(w[3]))
		keys, err := sys_makeRegistry(dir, wk, nk)
		if err != nil {
			return line, "err:setup:" + err.Error(), ""
		}
		before := sys_dirHash(dir)
		kr, err := badger.OpenKeyRegistry(sys_krOpts(dir, ok, false))
		res := classify(err)
		if err == nil {
			n, _ := countKeys(kr, keys)
			res = fmt.Sprintf("ok %d", n)
			kr.Close()
		}
		after := sys_dirHash(dir)
		st.Inc("regopen:" + strings.Fields(res)[0])
		switch {
		case validLen(ok) && !bytes.Equal(wk, ok) && res != "mismatch":
			orc = fmt.Sprintf("[C23-wrong-key] registry written with a %d-byte key opened with a different %d-byte key: %s (want ErrEncryptionKeyMismatch)", len(wk), len(ok), res)
		case bytes.Equal(wk, ok) && res != fmt.Sprintf("ok %d", len(keys)):
			orc = fmt.Sprintf("[C23-right-key] registry reopened with its own key: %s (want ok %d)", res, len(keys))
		case res != "ok" && !strings.HasPrefix(res, "ok ") && before != after:
			orc = "[C23-wrong-key-mutates] failed OpenKeyRegistry changed the directory"
		}
		return line, res, orc
	case "rotate": // rotate <old> <new> <nkeys> <reopen-with>
		oldK, newK, nk, re := unhx(w[1]), unhx(w[2]), int(atou(w[3])), unhx(w[4])
		keys, err := sys_makeRegistry(dir, oldK, nk)
		if err != nil {
			return line, "err:setup:" + err.Error(), ""
		}
		// badger/cmd/rotate.go doRotate: open read-only with the old key, rewrite with the new
		opt := sys_krOpts(dir, oldK, true)
		kr, err := badger.OpenKeyRegistry(opt)
		if err != nil {
			return line, "rotate-failed", ""
		}
		opt.EncryptionKey = newK
		if err := badger.WriteKeyRegistry(kr, opt); err != nil {
			return line, "rotate-failed", ""
		}
		kr2, err := badger.OpenKeyRegistry(sys_krOpts(dir, re, false))
		res := classify(err)
		if err == nil {
			n, same := countKeys(kr2, keys)
			res = fmt.Sprintf("ok %d changed-keys", n)
			if same {
				res = fmt.Sprintf("ok %d same-keys", n)
			}
			kr2.Close()
		}
		st.Inc("rotate:" + strings.Fields(res)[0])
		switch {
		case bytes.Equal(re, newK) && res != fmt.Sprintf("ok %d same-keys", len(keys)):
			orc = fmt.Sprintf("[C23-rotation] after master-key rotation the registry opened with the new key gives %q (want all %d data keys unchanged)", res, len(keys))
		case !bytes.Equal(re, newK) && validLen(re) && res != "mismatch":
			orc = fmt.Sprintf("[C23-wrong-key] after rotation the old key still opens the registry: %s", res)
		}
		return line, res, orc
	}
	return line, "bad-op", ""
}

// ---------------------------------------------------------------- crypto: sessions

type sys_needleSet struct {
	idx map[uint64][]string // first 8 bytes → descriptions
}

func sys_newNeedles() *sys_needleSet { return &sys_needleSet{idx: map[uint64][]string{}} }

func (n *sys_needleSet) add(b []byte, what string) {
	if len(b) < 8 {
		return
	}
	k := binary.LittleEndian.Uint64(b[:8])
	if k == 0 {
		return
	}
	n.idx[k] = append(n.idx[k], what)
}

// scan returns a description of the first needle found in data ("" if none) and the count.
func (n *sys_needleSet) scan(data []byte) (string, int) {
	first, cnt := "", 0
	for i := 0; i+8 <= len(data); i++ {
		if data[i] == 0 && data[i+7] == 0 {
			continue
		}
		k := binary.LittleEndian.Uint64(data[i : i+8])
		if w, ok := n.idx[k]; ok {
			cnt++
			if first == "" {
				first = fmt.Sprintf("%s at offset %d", w[0], i)
			}
		}
	}
	return first, cnt
}

type sys_cryptoSess struct {
	st       *Stats
	rng      *rand.Rand
	base     string
	key      []byte
	rot      time.Duration
	comp     options.CompressionType
	p, q     *badger.DB
	model    map[string][]byte // live key → value
	allKeys  map[string]bool   // every user key ever written
	needles  *sys_needleSet
	ivSeen   map[string]string // "keyid/iv" → where
	fails    []string
	plainHit []string // plaintext sightings in the encrypted DB's files
}

func (s *sys_cryptoSess) fail(tag, msg string) {
	s.fails = append(s.fails, fmt.Sprintf("[%s] %s", tag, msg))
}

func (s *sys_cryptoSess) opts(dir, vdir string, key []byte) badger.Options {
	o := badger.DefaultOptions(dir).WithValueDir(vdir).WithLogger(nil).WithMemTableSize(64 << 10).
		WithValueThreshold(256).WithValueLogFileSize(1 << 20).WithBaseTableSize(32 << 10).
		WithBaseLevelSize(64 << 10).WithLevelSizeMultiplier(2).WithNumLevelZeroTables(2).
		WithNumLevelZeroTablesStall(4).WithNumCompactors(2).WithBlockSize(1024).
		WithBlockCacheSize(1 << 20).WithIndexCacheSize(1 << 20).WithMetricsEnabled(false).
		WithCompression(options.None).WithDetectConflicts(false).WithNumMemtables(2)
	if key != nil {
		o = o.WithEncryptionKey(key).WithEncryptionKeyRotationDuration(s.rot).WithCompression(s.comp)
	}
	return o
}

func (s *sys_cryptoSess) qdirs() (string, string) {
	return filepath.Join(s.base, "q"), filepath.Join(s.base, "qv")
}

func (s *sys_cryptoSess) openBoth(key []byte) error {
	var err error
	pd := filepath.Join(s.base, "p")
	if s.p, err = badger.Open(s.opts(pd, pd, nil)); err != nil {
		return fmt.Errorf("plain open: %w", err)
	}
	qd, qv := s.qdirs()
	if s.q, err = badger.Open(s.opts(qd, qv, key)); err != nil {
		s.p.Close()
		s.p = nil
		return fmt.Errorf("encrypted open: %w", err)
	}
	return nil
}

func (s *sys_cryptoSess) closeBoth() {
	if s.p != nil {
		if err := s.p.Close(); err != nil {
			s.fail("C23-close", "plain Close: "+err.Error())
		}
		s.p = nil
	}
	if s.q != nil {
		if err := s.q.Close(); err != nil {
			s.fail("C23-close", "encrypted Close: "+err.Error())
		}
		s.q = nil
	}
}

func (s *sys_cryptoSess) randBytes(n int) []byte {
	b := make([]byte, n)
	s.rng.Read(b)
	return b
}

func (s *sys_cryptoSess) workload(nops int) {
	type op struct {
		key, val []byte
		del      bool
	}
	for done := 0; done < nops; {
		n := 1 + s.rng.Intn(6)
		var batch []op
		for i := 0; i < n; i++ {
			var k []byte
			if len(s.model) > 0 && s.rng.Intn(3) == 0 {
				ks := make([]string, 0, len(s.model))
				for kk := range s.model {
					ks = append(ks, kk)
				}
				sort.Strings(ks)
				k = []byte(ks[s.rng.Intn(len(ks))])
			} else {
				k = s.randBytes(8 + s.rng.Intn(17))
			}
			if s.rng.Intn(8) == 0 {
				batch = append(batch, op{key: k, del: true})
				continue
			}
			var vl int
			switch s.rng.Intn(6) {
			case 0:
				vl = s.rng.Intn(8)
			case 1, 2:
				vl = 8 + s.rng.Intn(200)
			case 3:
				vl = 255 + s.rng.Intn(3) // around the value threshold
			default:
				vl = 300 + s.rng.Intn(1500) // value log
			}
			batch = append(batch, op{key: k, val: s.randBytes(vl)})
		}
		for _, db := range []*badger.DB{s.p, s.q} {
			err := db.Update(func(t *badger.Txn) error {
				for _, o := range batch {
					var err error
					if o.del {
						err = t.Delete(o.key)
					} else {
						err = t.Set(o.key, o.val)
					}
					if err != nil {
						return err
					}
				}
				return nil
			})
			if err != nil {
				s.fail("C23-write", "Update failed: "+err.Error())
				return
			}
		}
		for _, o := range batch {
			s.allKeys[string(o.key)] = true
			s.needles.add(o.key, fmt.Sprintf("user key %x", o.key))
			if o.del {
				delete(s.model, string(o.key))
				continue
			}
			s.model[string(o.key)] = o.val
			s.needles.add(o.val, fmt.Sprintf("value (len %d) of key %x", len(o.val), o.key))
			if len(o.val) >= 24 {
				s.needles.add(o.val[len(o.val)/2:], fmt.Sprintf("middle of value (len %d) of key %x", len(o.val), o.key))
			}
			s.st.Inc("session-value:" + sizeBucket(len(o.val)))
		}
		done += n
	}
}

func sys_dumpAll(db *badger.DB) (map[string][]byte, []string, error) {
	out := map[string][]byte{}
	var order []string
	err := db.View(func(t *badger.Txn) error {
		it := t.NewIterator(badger.DefaultIteratorOptions)
		defer it.Close()
		for it.Rewind(); it.Valid(); it.Next() {
			v, err := it.Item().ValueCopy(nil)
			if err != nil {
				return err
			}
			k := string(it.Item().KeyCopy(nil))
			out[k] = v
			order = append(order, k)
		}
		return nil
	})
	return out, order, err
}

// compare: encrypted DB == plain DB == the harness's own map, by Get and by iteration.
func (s *sys_cryptoSess) compare(when string) {
	pm, po, perr := sys_dumpAll(s.p)
	qm, qo, qerr := sys_dumpAll(s.q)
	if perr != nil || qerr != nil {
		s.fail("C23-transparent", fmt.Sprintf("%s: iteration error plain=%v encrypted=%v", when, perr, qerr))
		return
	}
	if strings.Join(po, "\x00") != strings.Join(qo, "\x00") {
		s.fail("C23-transparent", fmt.Sprintf("%s: iteration yields %d keys on the plain DB and %d on the encrypted DB (or a different order)", when, len(po), len(qo)))
	}
	for k, v := range s.model {
		if !bytes.Equal(qm[k], v) || !bytes.Equal(pm[k], v) {
			s.fail("C23-transparent", fmt.Sprintf("%s: key %x reads %d bytes on the encrypted DB, %d on the plain DB, written %d", when, k, len(qm[k]), len(pm[k]), len(v)))
			return
		}
	}
	if len(qm) != len(s.model) {
		s.fail("C23-transparent", fmt.Sprintf("%s: encrypted DB has %d live keys, history has %d", when, len(qm), len(s.model)))
	}
	// point reads
	n := 0
	err := s.q.View(func(t *badger.Txn) error {
		for k, v := range s.model {
			it, err := t.Get([]byte(k))
			if err != nil {
				return fmt.Errorf("Get %x: %w", k, err)
			}
			got, err := it.ValueCopy(nil)
			if err != nil || !bytes.Equal(got, v) {
				return fmt.Errorf("Get %x: value differs (err %v)", k, err)
			}
			if n++; n > 200 {
				break
			}
		}
		return nil
	})
	if err != nil {
		s.fail("C23-transparent", when+": "+err.Error())
	}
}

func sys_listFiles(dirs ...string) []string {
	var names []string
	seen := map[string]bool{}
	for _, d := range dirs {
		filepath.Walk(d, func(p string, fi os.FileInfo, err error) error {
			if err == nil && !fi.IsDir() && !seen[p] {
				seen[p] = true
				names = append(names, p)
			}
			return nil
		})
	}
	sort.Strings(names)
	return names
}

// scanPlaintext: no needle may occur in any file of the encrypted DB's directories.
func (s *sys_cryptoSess) scanPlaintext(when string) {
	qd, qv := s.qdirs()
	for _, p := range sys_listFiles(qd, qv) {
		b, err := os.ReadFile(p)
		if err != nil {
			continue // removed meanwhile (compaction)
		}
		s.st.Inc("scan:" + filepath.Ext(p))
		if first, cnt := s.needles.scan(b); cnt > 0 {
			s.plainHit = append(s.plainHit, fmt.Sprintf("%s: %s holds %d plaintext needle(s), first: %s", when, filepath.Base(p), cnt, first))
		}
	}
}

func (s *sys_cryptoSess) noteIV(keyID uint64, iv []byte, where string) {
	k := fmt.Sprintf("%d/%x", keyID, iv)
	if prev, dup := s.ivSeen[k]; dup && prev != where {
		s.fail("C23-iv-reuse", fmt.Sprintf("data key %d and IV %x used twice: %s and %s", keyID, iv, prev, where))
		return
	}
	s.ivSeen[k] = where
}

// collectIVs: table blocks and indexes through the table hook; log files from their headers.
// Every value-log / WAL record is decrypted independently under base‖offset.
func (s *sys_cryptoSess) collectIVs(when string) {
	for _, t := range badger.VerifSysCryptoTables(s.q) {
		if t.KeyID == 0 {
			s.plainHit = append(s.plainHit, fmt.Sprintf("%s: table %06d.sst has key id 0 (not encrypted)", when, t.ID))
			continue
		}
		s.st.Inc("iv:table-index")
		s.noteIV(t.KeyID, t.IndexIV, fmt.Sprintf("index of table %d", t.ID))
		for i, iv := range t.BlockIVs {
			s.st.Inc("iv:table-block")
			s.noteIV(t.KeyID, iv, fmt.Sprintf("block %d of table %d", i, t.ID))
		}
	}
	qd, qv := s.qdirs()
	for _, p := range sys_listFiles(qd, qv) {
		ext := filepath.Ext(p)
		if ext != ".vlog" && ext != ".mem" {
			continue
		}
		b, err := os.ReadFile(p)
		if err != nil || len(b) < 20 {
			continue
		}
		keyID := binary.BigEndian.Uint64(b[:8])
		base := b[8:20]
		name := filepath.Base(p)
		if keyID == 0 {
			s.plainHit = append(s.plainHit, fmt.Sprintf("%s: log file %s has key id 0 (not encrypted)", when, name))
			continue
		}
		s.st.Inc("iv:log-base" + ext)
		s.noteIV(keyID, base, "base IV of "+name)
		dk, err := badger.VerifSysDataKey(s.q, keyID)
		if err != nil || dk == nil {
			s.fail("C23-datakey", fmt.Sprintf("%s: data key %d of %s not in the registry: %v", when, keyID, name, err))
			continue
		}
		s.checkLogRecords(name, b, dk, base)
	}
}

// checkLogRecords decrypts key‖value of every record with AES-CTR under (data key, base‖offset)
// computed here, and requires the key to be one the workload wrote (or an internal key).
func (s *sys_cryptoSess) checkLogRecords(name string, b, dk, base []byte) {
	off := 20
	for off+5 < len(b) {
		h := b[off:]
		pos := 2
		klen, n1 := binary.Uvarint(h[pos:])
		if n1 <= 0 {
			return
		}
		pos += n1
		vlen, n2 := binary.Uvarint(h[pos:])
		if n2 <= 0 {
			return
		}
		pos += n2
		_, n3 := binary.Uvarint(h[pos:])
		if n3 <= 0 {
			return
		}
		pos += n3
		if klen == 0 || klen > 1<<16 || off+pos+int(klen)+int(vlen)+4 > len(b) {
			return
		}
		kvEnc := b[off+pos : off+pos+int(klen)+int(vlen)]
		iv := make([]byte, 16)
		copy(iv, base)
		binary.BigEndian.PutUint32(iv[12:], uint32(off))
		blk, _ := aes.NewCipher(dk)
		kvp := make([]byte, len(kvEnc))
		cipher.NewCTR(blk, iv).XORKeyStream(kvp, kvEnc)
		key := kvp[:klen]
		s.st.Inc("log-record-decrypted")
		ok := bytes.HasPrefix(key, []byte("!badger!"))
		if len(key) > 8 && s.allKeys[string(key[:len(key)-8])] {
			ok = true
		}
		if !ok {
			s.fail("C23-log-iv", fmt.Sprintf("record at offset %d of %s does not decrypt to a written key under IV = base‖offset (%x)", off, name, iv))
			return
		}
		off += pos + int(klen) + int(vlen) + 4
	}
}

func sys_flipFirst(k []byte) []byte {
	o := append([]byte{}, k...)
	o[0] ^= 0x80
	return o
}

func sys_cryptoSession(kv map[string]string, st *Stats) (string, []string) {
	seed := int64(kvInt(kv, "seed", 1))
	s := &sys_cryptoSess{st: st, rng: rand.New(rand.NewSource(seed)), model: map[string][]byte{}, allKeys: map[string]bool{},
		needles: sys_newNeedles(), ivSeen: map[string]string{}}
	s.base = scratchDir()
	defer os.RemoveAll(s.base)
	s.key = s.randBytes(kvInt(kv, "keylen", 32))
	switch kv["rot"] {
	case "max":
		s.rot = time.Duration(math.MaxInt64)
	case "", "10d":
		s.rot = 240 * time.Hour
	default:
		r, _ := strconv.ParseInt(kv["rot"], 10, 64)
		s.rot = time.Duration(r)
	}
	switch kvInt(kv, "comp", 0) {
	case 1:
		s.comp = options.Snappy
	case 2:
		s.comp = options.ZSTD
	default:
		s.comp = options.None
	}
	nops := kvInt(kv, "nops", 150)
	st.Inc(fmt.Sprintf("session:keylen=%d,rot=%s,comp=%d", len(s.key), kv["rot"], kvInt(kv, "comp", 0)))
	defer s.closeBoth()

	key := s.key
	rounds := 3
	for r := 0; r < rounds; r++ {
		if err := s.openBoth(key); err != nil {
			return "err:" + strings.ReplaceAll(err.Error(), " ", "_"), s.fails
		}
		if r > 0 {
			s.compare(fmt.Sprintf("after reopen %d", r))
		}
		s.workload(nops / rounds)
		s.compare(fmt.Sprintf("round %d", r))
		s.scanPlaintext(fmt.Sprintf("round %d, DB open", r))
		s.collectIVs(fmt.Sprintf("round %d", r))
		s.closeBoth()
		s.scanPlaintext(fmt.Sprintf("round %d, after Close", r))

		qd, qv := s.qdirs()
		// ---- wrong keys: mismatch, and not a byte of the directories changes
		before := sys_dirHash(qd, qv)
		wrong := [][]byte{sys_flipFirst(key), nil, bytes.Repeat([]byte{9}, 48-len(key))}
		for i, res := range sys_tryKeys(qd, qv, s.comp, wrong) {
			if res != "mismatch" {
				s.fail("C23-wrong-key", fmt.Sprintf("Open with a wrong key (%d bytes, the right key has %d): %s (want ErrEncryptionKeyMismatch)", len(wrong[i]), len(key), res))
			}
			st.Inc("wrong-key-open:" + strings.Fields(res)[0])
		}
		if sys_dirHash(qd, qv) != before {
			s.fail("C23-wrong-key-mutates", "a failed Open with a wrong key changed files of the database directories")
		}
		// ---- master-key rotation as badger/cmd/rotate.go does it (round 1 only)
		if r == 1 {
			newKey := s.randBytes([]int{16, 24, 32}[s.rng.Intn(3)])
			opt := badger.KeyRegistryOptions{Dir: qd, ReadOnly: true, EncryptionKey: key, EncryptionKeyRotationDuration: 10 * 24 * time.Hour}
			kr, err := badger.OpenKeyRegistry(opt)
			if err != nil {
				s.fail("C23-rotation", "rotate: OpenKeyRegistry with the current key: "+err.Error())
			} else {
				opt.EncryptionKey = newKey
				if err := badger.WriteKeyRegistry(kr, opt); err != nil {
					s.fail("C23-rotation", "rotate: WriteKeyRegistry: "+err.Error())
				} else {
					st.Inc("master-rotation")
					if res := sys_tryKeys(qd, qv, s.comp, [][]byte{key})[0]; res != "mismatch" {
						s.fail("C23-wrong-key", "after master-key rotation Open with the old key: "+res+" (want ErrEncryptionKeyMismatch)")
					}
					key = newKey
				}
			}
		}
	}
	// ---- verdicts on plaintext
	for i, h := range s.plainHit {
		if i < 3 {
			s.fail("C23-plaintext", h)
		}
	}
	// scanner self-test: the plain DB's files must show needles
	pd := filepath.Join(s.base, "p")
	found := 0
	for _, p := range sys_listFiles(pd) {
		b, _ := os.ReadFile(p)
		_, c := s.needles.scan(b)
		found += c
	}
	if found == 0 && len(s.model) > 0 {
		s.fail("C23-scanner", "the needle scanner finds nothing in the unencrypted database either")
	}
	st.Inc("session-needles-in-plain-db:" + sizeBucket(found))
	return "ok", s.fails
}

func sys_execCrypto(intents []string, st *Stats) (final, outs, oracle []string) {
	for _, line := range intents {
		w := strings.Fields(line)
		if len(w) == 0 {
			continue
		}
		progress(line)
		st.Inc("op:" + w[0])
		if w[0] == "session" {
			out, fails := sys_cryptoSession(kvWords(w[1:]), st)
			final = append(final, line)
			outs = append(outs, out)
			for _, f := range fails {
				oracle = append(oracle, fmt.Sprintf("line %d: %s :: %s", len(final), line, f))
			}
			continue
		}
		var f, o, orc string
		func() {
			defer func() {
				if r := recover(); r != nil {
					f, o = line, "panic"
				}
			}()
			f, o, orc = sys_cryptoUnit(w, st)
		}()
		final = append(final, f)
		outs = append(outs, o)
		if orc != "" {
			oracle = append(oracle, fmt.Sprintf("line %d: %s :: %s", len(final), f, orc))
		}
	}
	return
}

func sys_genCrypto(rng *rand.Rand, n int, st *Stats) []string {
	var ops []string
	nsess := n / 100
	if s := params["sessions"]; s != "" {
		nsess, _ = strconv.Atoi(s)
	}
	keyOf := func(l int) []byte {
		b := make([]byte, l)
		rng.Read(b)
		return b
	}
	lens := []int{16, 24, 32}
	for i := 0; i < n; i++ {
		switch rng.Intn(10) {
		case 0, 1:
			off := pick(rng, uint64(0), 20, 255, 256, 65535, 1<<24, 1<<31, 1<<32-1, uint64(rng.Uint32()))
			ops = append(ops, fmt.Sprintf("iv %s %d", hx(keyOf(12)), off))
		case 2, 3, 4:
			base := keyOf(12)
			if rng.Intn(4) == 0 {
				base = bytes.Repeat([]byte{0xff}, 12) // carry out of the base part
			}
			o1 := pick(rng, uint64(20), uint64(rng.Intn(1<<20)), 1<<32-200, 1<<32-17, 1<<32-1, uint64(rng.Uint32()))
			l1 := pick(rng, 0, 1, 15, 16, 17, 40, 200, rng.Intn(300))
			var o2 uint64
			switch rng.Intn(4) {
			case 0:
				o2 = o1 + uint64(l1) + 9 // the next record of the file
			case 1:
				o2 = o1 + uint64(rng.Intn(sys_blocksOf(l1)+2)) // overlapping records (never happens in a file)
			case 2:
				o2 = uint64(rng.Intn(64)) // as if the offset had wrapped
			default:
				o2 = o1 + uint64(l1) + uint64(rng.Intn(1000))
			}
			if o2 > 1<<32-1 {
				o2 %= 1 << 32
			}
			l2 := pick(rng, 1, 16, 33, 100, rng.Intn(300))
			ops = append(ops, fmt.Sprintf("ctrs %s %d %d %d %d", hx(base), o1, l1, o2, l2))
		case 5, 6:
			kind := pick(rng, "fresh-10d", "fresh-10d", "young", "old", "tiny", "zero", "young", "old")
			if rng.Intn(25) == 0 {
				kind = pick(rng, "fresh-max", "fresh-epoch")
			}
			master := pick(rng, 16, 24, 32, 32, 0)
			ops = append(ops, fmt.Sprintf("latest master=%d kind=%s next=%d", master, kind, 1+rng.Intn(5)))
		case 7, 8:
			wk := keyOf(lens[rng.Intn(3)])
			ok := wk
			nk := rng.Intn(4)
			switch rng.Intn(9) {
			case 0:
				ok = sys_flipFirst(wk)
			case 1:
				ok = keyOf(lens[rng.Intn(3)])
			case 2:
				ok = nil
			case 3:
				wk, ok, nk = nil, keyOf(16), 0
			case 4:
				ok = keyOf(pick(rng, 1, 15, 17, 31, 33))
			}
			ops = append(ops, fmt.Sprintf("regopen %s %s %d", hx(wk), hx(ok), nk))
		default:
			oldK, newK := keyOf(lens[rng.Intn(3)]), keyOf(lens[rng.Intn(3)])
			re := newK
			if rng.Intn(3) == 0 {
				re = oldK
			}
			ops = append(ops, fmt.Sprintf("rotate %s %s %d %s", hx(oldK), hx(newK), rng.Intn(4), hx(re)))
		}
	}
	for i := 0; i < nsess; i++ {
		rot := pick(rng, "1", "1", "10d", "1000000000", "max")
		ops = append(ops, fmt.Sprintf("session keylen=%d rot=%s comp=%d seed=%d nops=%d", lens[rng.Intn(3)], rot,
			pick(rng, 0, 0, 1, 2), rng.Intn(1<<30), 120+rng.Intn(120)))
	}
	return ops
}

// ====================================================================================
// Engine "pipeline" (C38): stress runs on a real DB with NumCompactors=2, a tiny memtable,
// NumLevelZeroTablesStall 2..3 and NumMemtables 1..2 — concurrent writers, WriteBatch.Flush,
// readers, iterators, RunValueLogGC, DropPrefix, Flatten, Subscribe/cancel — then Close with
// writes in flight. Every public call runs under a 60 s bound; on a timeout all goroutine
// stacks are dumped. THIS IS A TEST, NOT A PROOF (props/C38.json says so). The coarse state
// (len(imm), len(flushChan), L0 tables, len(writeCh)) is sampled throughout and every distinct
// sample becomes an op line that the Lean model judges with the projection of its invariant
// (theorem C38_coarse_inv). `late-sender` replays finding F38a deterministically.

func init() {
	engines["pipeline"] = &Engine{Gen: sys_genPipeline, ExecX: sys_execPipeline}
}

// sys_callLimit: bound per public call (`-p limit=<seconds>` shortens it for mutation experiments).
var sys_callLimit = 60 * time.Second

type sys_call struct {
	name  string
	start time.Time
}

type sys_watchdog struct {
	mu    sync.Mutex
	calls map[int64]*sys_call
	next  int64
	fired chan string // closed-over message of the first timeout
	once  sync.Once
	stop  chan struct{}
	limit time.Duration
}

func sys_newWatchdog(limit time.Duration) *sys_watchdog {
	w := &sys_watchdog{calls: map[int64]*sys_call{}, fired: make(chan string, 1), stop: make(chan struct{}), limit: limit}
	go func() {
		t := time.NewTicker(250 * time.Millisecond)
		defer t.Stop()
		for {
			select {
			case <-w.stop:
				return
			case <-t.C:
				w.mu.Lock()
				var late *sys_call
				for _, c := range w.calls {
					if time.Since(c.start) > w.limit && (late == nil || c.start.Before(late.start)) {
						late = c
					}
				}
				w.mu.Unlock()
				if late != nil {
					w.once.Do(func() { w.fired <- late.name })
				}
			}
		}
	}()
	return w
}

// do runs f as one public call under the watchdog; a panic of f is returned as text.
func (w *sys_watchdog) do(name string, f func()) (panicked string) {
	w.mu.Lock()
	w.next++
	id := w.next
	w.calls[id] = &sys_call{name: name, start: time.Now()}
	w.mu.Unlock()
	defer func() {
		if r := recover(); r != nil {
			panicked = fmt.Sprint(r)
		}
		w.mu.Lock()
		delete(w.calls, id)
		w.mu.Unlock()
	}()
	f()
	return ""
}

func sys_allStacks() string {
	buf := make([]byte, 8<<20)
	n := runtime.Stack(buf, true)
	return string(buf[:n])
}

// sys_classifyHang names the known hang shapes by what the stuck goroutines are doing. The
// F38a shape is narrow: a caller waits in request.Wait although neither doWrites nor a
// writeRequests activity exists any more (the request entered writeCh after doWrites exited).
func sys_classifyHang(call, dump string) string {
	dump = sys_freshGoroutines(dump)
	noWriter := !strings.Contains(dump, "(*DB).doWrites") && !strings.Contains(dump, "(*DB).writeRequests")
	switch {
	case strings.Contains(dump, "(*request).Wait") && noWriter && strings.Contains(call, "closing"):
		return "[F38a:late-sender] " + call + " never returned: its request entered writeCh after doWrites had exited (req.Wait blocks for ever)"
	case strings.Contains(dump, "filterPrefixesToDrop") && strings.Contains(dump, "(*oracle).readTs") &&
		strings.Contains(dump, "(*request).Wait") && noWriter:
		return "[F38b:dropprefix-late-sender] " + call + " never returned: DropPrefix blocked the writes and drained writeCh, a commit that had passed the blockWrites check sent its request afterwards (nobody serves writeCh until unblockWrite), and DropPrefix's filterPrefixesToDrop → View → oracle.readTs waits on txnMark for exactly that commit timestamp; every later transaction start waits behind it"
	case sys_isF38c(dump) && noWriter && strings.Contains(call, "clos"):
		return "[F38c:readts-after-orc-stop] " + call + " never returned: oracle.readTs waits in WaterMark.WaitForMark for a commit timestamp that was never marked done, and the watermark goroutines are gone (orc.Stop at the end of Close)"
	case strings.Contains(dump, "(*WaterMark).WaitForMark") && noWriter:
		return "[C38-timeout-readts] " + call + " did not return within the time bound: blocked in WaterMark.WaitForMark"
	}
	return "[C38-timeout] " + call + " did not return within the time bound"
}

// sys_freshGoroutines drops from a dump the goroutines that were already present in an earlier
// dump of this process (a run that hit a hang leaves its stuck goroutines behind; they must not
// decide the classification of a later one).
var sys_seenGoroutines = map[string]bool{}

func sys_freshGoroutines(dump string) string {
	var keep []string
	var ids []string
	for _, blk := range strings.Split(dump, "\n\n") {
		id := ""
		if strings.HasPrefix(blk, "goroutine ") {
			if f := strings.Fields(blk); len(f) > 1 {
				id = f[1]
			}
		}
		if id != "" && sys_seenGoroutines[id] {
			continue
		}
		keep = append(keep, blk)
		if id != "" {
			ids = append(ids, id)
		}
	}
	for _, id := range ids {
		sys_seenGoroutines[id] = true
	}
	return strings.Join(keep, "\n\n")
}

// sys_isF38c: some goroutine waits in oracle.readTs → WaitForMark while no WaterMark.process
// goroutine exists in the whole process: nobody can ever release it.
func sys_isF38c(dump string) bool {
	return strings.Contains(dump, "(*WaterMark).WaitForMark") && strings.Contains(dump, "(*oracle).readTs") &&
		!strings.Contains(dump, "(*WaterMark).process")
}

type sys_pipeCfg struct {
	nm, stall, l0t, writers, readers, ms int
	seed                                 int64
}

func sys_pipeOpts(dir string, c sys_pipeCfg) badger.Options {
	return badger.DefaultOptions(dir).WithLogger(nil).WithNumCompactors(2).WithMemTableSize(32 << 10).
		WithValueThreshold(128).WithValueLogFileSize(1 << 20).WithBaseTableSize(16 << 10).
		WithBaseLevelSize(64 << 10).WithLevelSizeMultiplier(2).WithNumLevelZeroTables(c.l0t).
		WithNumLevelZeroTablesStall(c.stall).WithNumMemtables(c.nm).WithBlockSize(1024).
		WithCompression(options.None).WithBlockCacheSize(0).WithIndexCacheSize(0).
		WithMetricsEnabled(false).WithCompactL0OnClose(false)
}

type sys_sample struct{ imm, fc, l0, wc int }

func sys_stress(kv map[string]string, st *Stats) (samples []string, fails []string, out string) {
	c := sys_pipeCfg{nm: kvInt(kv, "nm", 1), stall: kvInt(kv, "stall", 2), writers: kvInt(kv, "writers", 6),
		readers: kvInt(kv, "readers", 2), ms: kvInt(kv, "ms", 600), seed: int64(kvInt(kv, "seed", 1))}
	c.l0t = kvInt(kv, "l0t", c.stall-1)
	dir := scratchDir()
	defer os.RemoveAll(dir)
	db, err := badger.Open(sys_pipeOpts(dir, c))
	if err != nil {
		return nil, nil, "err:open:" + strings.ReplaceAll(err.Error(), " ", "_")
	}
	wd := sys_newWatchdog(sys_callLimit)
	defer close(wd.stop)
	var failMu, incMu sync.Mutex
	inc := func(k string) {
		incMu.Lock()
		st.Inc(k)
		incMu.Unlock()
	}
	fail := func(s string) {
		failMu.Lock()
		fails = append(fails, s)
		failMu.Unlock()
	}
	notePanic := func(call, p string) {
		if p == "" {
			return
		}
		inc("panic:" + lockFirstWords(p, 5))
		if strings.Contains(p, "send on closed channel") {
			fail("[F38a:late-sender] " + call + " panicked: " + p + " (the caller passed the blockWrites check before Close and sent after close(writeCh))")
			return
		}
		fail("[C38-panic] " + call + " panicked: " + p)
	}
	var stopAll, stopAux, closing, flattening atomic.Bool
	var apiMu sync.RWMutex
	var wgW, wgAux sync.WaitGroup
	key := func(r *rand.Rand) []byte {
		return []byte(fmt.Sprintf("%c%04d", "abc"[r.Intn(3)], r.Intn(300)))
	}
	val := func(r *rand.Rand) []byte {
		n := 16 + r.Intn(100)
		if r.Intn(3) == 0 {
			n = 150 + r.Intn(400)
		}
		b := make([]byte, n)
		r.Read(b)
		return b
	}
	var nCalls atomic.Int64
	// ---- writers (stay in flight through Close)
	for i := 0; i < c.writers; i++ {
		wgW.Add(1)
		go func(i int) {
			defer wgW.Done()
			r := rand.New(rand.NewSource(c.seed*1000 + int64(i)))
			for !stopAll.Load() && !closing.Load() {
				var err error
				p := wd.do("Update", func() {
					err = db.Update(func(t *badger.Txn) error {
						for j := 0; j < 1+r.Intn(5); j++ {
							if e := t.Set(key(r), val(r)); e != nil {
								return e
							}
						}
						return nil
					})
				})
				nCalls.Add(1)
				notePanic("Update", p)
				if err != nil {
					inc("update-err:" + lockFirstWords(err.Error(), 3))
					time.Sleep(200 * time.Microsecond)
				}
				for flattening.Load() && !closing.Load() && !stopAll.Load() {
					time.Sleep(500 * time.Microsecond)
				}
			}
		}(i)
	}
	wgW.Add(1)
	go func() { // WriteBatch.Flush
		defer wgW.Done()
		r := rand.New(rand.NewSource(c.seed*1000 + 77))
		for !stopAll.Load() && !closing.Load() {
			p := wd.do("WriteBatch.Flush", func() {
				wb := db.NewWriteBatch()
				// no deferred Cancel: a Flush that panics (F38a) leaves the batch's mutex locked
				for j := 0; j < 20; j++ {
					if wb.Set(key(r), val(r)) != nil {
						wb.Cancel()
						return
					}
				}
				if err := wb.Flush(); err != nil {
					inc("flush-err:" + lockFirstWords(err.Error(), 3))
					time.Sleep(200 * time.Microsecond)
				}
			})
			for flattening.Load() && !closing.Load() && !stopAll.Load() {
				time.Sleep(500 * time.Microsecond)
			}
			nCalls.Add(1)
			notePanic("WriteBatch.Flush", p)
		}
	}()
	aux := func(name string, pause time.Duration, f func(r *rand.Rand)) {
		wgAux.Add(1)
		go func() {
			defer wgAux.Done()
			r := rand.New(rand.NewSource(c.seed*1000 + int64(len(name))*13))
			for !stopAll.Load() && !stopAux.Load() {
				p := wd.do(name, func() { f(r) })
				nCalls.Add(1)
				notePanic(name, p)
				if pause > 0 {
					time.Sleep(pause)
				}
			}
		}()
	}
	for i := 0; i < c.readers; i++ {
		aux("View/Get", 0, func(r *rand.Rand) {
			_ = db.View(func(t *badger.Txn) error {
				for j := 0; j < 10; j++ {
					if it, err := t.Get(key(r)); err == nil {
						_, _ = it.ValueCopy(nil)
					}
				}
				return nil
			})
		})
		aux("View/Iterate", 0, func(r *rand.Rand) {
			_ = db.View(func(t *badger.Txn) error {
				o := badger.DefaultIteratorOptions
				o.Prefix = []byte{"abc"[r.Intn(3)]}
				o.Reverse = r.Intn(4) == 0
				it := t.NewIterator(o)
				defer it.Close()
				n := 0
				for it.Rewind(); it.Valid() && n < 200; it.Next() {
					_, _ = it.Item().ValueCopy(nil)
					n++
				}
				return nil
			})
		})
	}
	aux("RunValueLogGC", 30*time.Millisecond, func(r *rand.Rand) {
		if err := db.RunValueLogGC(0.3); err != nil {
			inc("gc:" + lockFirstWords(err.Error(), 3))
		} else {
			inc("gc:rewrote")
		}
	})
	aux("DropPrefix/Flatten", 60*time.Millisecond, func(r *rand.Rand) { // serialised admin calls
		if r.Intn(2) == 0 {
			if err := db.DropPrefix([]byte("c")); err != nil {
				inc("dropprefix-err:" + lockFirstWords(err.Error(), 3))
			} else {
				inc("dropprefix:ok")
			}
		} else {
			// Flatten competes with writes by design (its documentation asks for no writes) and
			// need not terminate under a continuous write load: the writers pause meanwhile.
			flattening.Store(true)
			defer flattening.Store(false)
			if err := db.Flatten(2); err != nil {
				inc("flatten-err:" + lockFirstWords(err.Error(), 3))
			} else {
				inc("flatten:ok")
			}
		}
	})
	aux("Subscribe+cancel", 5*time.Millisecond, func(r *rand.Rand) {
		ctx, cancel := context.WithCancel(context.Background())
		done := make(chan error, 1)
		go func() {
			done <- db.Subscribe(ctx, func(kvs *badger.KVList) error { return nil }, []pb.Match{{Prefix: []byte("a")}})
		}()
		time.Sleep(time.Duration(5+r.Intn(20)) * time.Millisecond)
		cancel()
		<-done // bounded by the watchdog: this whole closure is one timed call
		inc("subscribe-cancelled")
	})
	// ---- sampler
	seen := map[sys_sample]bool{}
	var sampMu sync.Mutex
	stopSamp := make(chan struct{})
	sampDone := make(chan struct{})
	stalledSeen := 0
	go func() {
		defer close(sampDone)
		for {
			select {
			case <-stopSamp:
				return
			default:
			}
			p := badger.VerifSysPipelineSample(db)
			// db.Levels()/db.Tables() read table indexes: only while the DB is not closing
			var lv []badger.LevelInfo
			apiMu.RLock()
			if !closing.Load() {
				lv = db.Levels()
				_ = db.Tables()
			}
			apiMu.RUnlock()
			s := sys_sample{p.Imm, p.FlushLen, p.L0, p.WriteChLen}
			sampMu.Lock()
			if !seen[s] && len(seen) < 400 {
				seen[s] = true
				samples = append(samples, fmt.Sprintf("sample nm=%d stall=%d cap=%d imm=%d fc=%d l0=%d wc=%d", p.FlushCap, p.L0Stall, p.WriteChCap, s.imm, s.fc, s.l0, s.wc))
			}
			if p.L0 >= p.L0Stall {
				stalledSeen++
			}
			sampMu.Unlock()
			if len(lv) > 0 && lv[0].NumTables > p.L0Stall {
				fail(fmt.Sprintf("[C38-l0-above-stall] db.Levels() shows %d L0 tables, stall threshold %d", lv[0].NumTables, p.L0Stall))
			}
			time.Sleep(300 * time.Microsecond)
		}
	}()
	waitOr := func(wg *sync.WaitGroup, what string) bool {
		ch := make(chan struct{})
		go func() { wg.Wait(); close(ch) }()
		select {
		case <-ch:
			return true
		case call := <-wd.fired:
			dump := sys_allStacks()
			sys_saveDump(dump)
			fail(sys_classifyHang(call+" (while "+what+")", dump))
			return false
		}
	}
	t0 := time.Now()
	time.Sleep(time.Duration(c.ms) * time.Millisecond)
	// ---- phase 2: stop everything except the writers
	stopAux.Store(true)
	if !waitOr(&wgAux, "stopping readers, GC, admin calls and subscribers") {
		stopAll.Store(true)
		close(stopSamp)
		return samples, fails, "ok"
	}
	t1 := time.Now()
	// ---- phase 3: Close with writes in flight
	apiMu.Lock()
	closing.Store(true)
	apiMu.Unlock()
	var closeErr error
	var wgC sync.WaitGroup
	wgC.Add(1)
	go func() {
		defer wgC.Done()
		p := wd.do("Close", func() { closeErr = db.Close() })
		notePanic("Close", p)
	}()
	okC := waitOr(&wgC, "closing with writes in flight")
	okW := okC && waitOr(&wgW, "closing: waiting for the writers that were in flight during Close")
	stopAll.Store(true)
	close(stopSamp)
	<-sampDone
	if okC && closeErr != nil {
		fail("[C38-close-error] Close returned " + closeErr.Error())
	}
	_ = okW
	if os.Getenv("VERIF_TRACE") != "" {
		fmt.Fprintf(os.Stderr, "stress phases: run+stop-aux %v, close+writers %v\n", t1.Sub(t0), time.Since(t1))
	}
	inc("stress-calls:" + sizeBucket(int(nCalls.Load())))
	if stalledSeen > 0 {
		inc("stress-saw-l0-at-stall")
	}
	inc(fmt.Sprintf("stress:nm=%d,stall=%d", c.nm, c.stall))
	return samples, fails, "ok"
}

var sys_dumpN int

func sys_saveDump(d string) {
	base := os.Getenv("VERIF_SCRATCH")
	if base == "" {
		base = "/verif/.build/scratch"
	}
	sys_dumpN++
	p := filepath.Join(filepath.Dir(base), fmt.Sprintf("goroutines-%d-%d.txt", os.Getpid(), sys_dumpN))
	_ = os.WriteFile(p, []byte(d), 0o644)
	fmt.Fprintln(os.Stderr, "goroutine dump written to", p)
	if len(d) > 6000 {
		d = d[:6000]
	}
	fmt.Fprintln(os.Stderr, d)
}

// sys_lateSender replays F38a: a committing caller is parked between the blockWrites check and
// the send on writeCh (in the allocation of its request), Close runs to completion, the caller
// is released.
func sys_lateSender(st *Stats) (out string, fails []string) {
	dir := scratchDir()
	defer os.RemoveAll(dir)
	c := sys_pipeCfg{nm: 1, stall: 2, l0t: 1}
	db, err := badger.Open(sys_pipeOpts(dir, c))
	if err != nil {
		return "err:open", nil
	}
	if err := db.Update(func(t *badger.Txn) error { return t.Set([]byte("k0"), []byte("v0")) }); err != nil {
		db.Close()
		return "err:first-write", nil
	}
	wd := sys_newWatchdog(sys_callLimit)
	defer close(wd.stop)
	var res string
	for attempt := 0; attempt < 5; attempt++ {
		runtime.GC()
		runtime.GC() // two cycles empty the request pool, so the next Get calls New
		entered := make(chan struct{})
		release := make(chan struct{})
		restore := badger.VerifSysHoldNextRequest(entered, release)
		done := make(chan string, 1)
		go func() {
			var err error
			p := wd.do("Update (late sender)", func() {
				err = db.Update(func(t *badger.Txn) error { return t.Set([]byte("k1"), []byte("v1")) })
			})
			switch {
			case p != "":
				done <- "panic:" + p
			case err != nil:
				done <- "returned:" + strings.ReplaceAll(err.Error(), " ", "_")
			default:
				done <- "returned:nil"
			}
		}()
		select {
		case <-entered:
		case r := <-done: // the pool was not empty: the write went through; try again
			restore()
			_ = r
			continue
		case <-time.After(20 * time.Second):
			restore()
			return "err:caller-not-parked", nil
		}
		var closeErr error
		closed := make(chan struct{})
		go func() {
			wd.do("Close", func() { closeErr = db.Close() })
			close(closed)
		}()
		select {
		case <-closed:
		case call := <-wd.fired:
			dump := sys_allStacks()
			sys_saveDump(dump)
			close(release)
			restore()
			return "close-hangs", []string{sys_classifyHang(call, dump)}
		}
		close(release)
		select {
		case res = <-done:
		case call := <-wd.fired:
			dump := sys_allStacks()
			sys_saveDump(dump)
			restore()
			return "caller-hangs", []string{sys_classifyHang(call, dump)}
		}
		restore()
		st.Inc("late-sender:" + lockFirstWords(res, 1))
		closeS := "returned"
		if closeErr != nil {
			closeS = "error"
		}
		if strings.HasPrefix(res, "panic:") && strings.Contains(res, "send on closed channel") {
			return "panic close=" + closeS + " pending=0", []string{"[F38a:late-sender] Update whose sendToWriteCh passed the blockWrites check before Close and reached `db.writeCh <- req` after Close returned: panic: send on closed channel"}
		}
		return res + " close=" + closeS, nil
	}
	db.Close()
	return "err:pool-never-empty", nil
}

// sys_lateFlush replays F38c: a WriteBatch.Flush that was called before Close is parked at the
// first line of commitAndSend (the harness holds orc.writeChLock as a slow committer would),
// Close runs to completion, the Flush is released: its commit is refused with ErrBlockedWrites
// and WriteBatch.commit then creates its next transaction, whose readTs waits for ever.
func sys_lateFlush(st *Stats) (out string, fails []string) {
	dir := scratchDir()
	defer os.RemoveAll(dir)
	db, err := badger.Open(sys_pipeOpts(dir, sys_pipeCfg{nm: 1, stall: 2, l0t: 1}))
	if err != nil {
		return "err:open", nil
	}
	wb := db.NewWriteBatch()
	if err := wb.Set([]byte("k1"), []byte("v1")); err != nil {
		db.Close()
		return "err:set", nil
	}
	release := badger.VerifSysHoldCommitLock(db)
	done := make(chan string, 1)
	go func() {
		defer func() {
			if r := recover(); r != nil {
				done <- "panic:" + fmt.Sprint(r)
			}
		}()
		err := wb.Flush()
		if err != nil {
			done <- "returned:" + strings.ReplaceAll(err.Error(), " ", "_")
		} else {
			done <- "returned:nil"
		}
	}()
	parked := false
	for i := 0; i < 500 && !parked; i++ { // wait until the Flush stands at the lock
		time.Sleep(10 * time.Millisecond)
		parked = strings.Contains(sys_allStacks(), "(*Txn).commitAndSend")
	}
	if !parked {
		release()
		db.Close()
		return "err:flush-not-parked", nil
	}
	closed := make(chan error, 1)
	go func() { closed <- db.Close() }()
	select {
	case <-closed:
	case <-time.After(sys_callLimit):
		dump := sys_allStacks()
		sys_saveDump(dump)
		release()
		return "close-hangs", []string{sys_classifyHang("Close", dump)}
	}
	release()
	// the Flush has one entry to commit on a closed DB: it returns at once or never. After 5 s
	// the stacks decide: waiting in readTs with no watermark goroutine left is for ever.
	deadline := time.After(sys_callLimit)
	for {
		select {
		case res := <-done:
			st.Inc("late-flush:" + lockFirstWords(res, 1))
			return "flush-" + res + " close=returned", nil
		case <-time.After(5 * time.Second):
			if dump := sys_allStacks(); sys_isF38c(dump) && strings.Contains(dump, "(*WriteBatch).commit") {
				_ = sys_freshGoroutines(dump) // the stuck Flush stays behind: not evidence for later dumps
				st.Inc("late-flush:hangs")
				return "flush-hangs close=returned", []string{"[F38c:readts-after-orc-stop] WriteBatch.Flush called before Close and scheduled after it never returns: its commit is refused (ErrBlockedWrites) and WriteBatch.commit's next newTransaction blocks in oracle.readTs → WaterMark.WaitForMark; the commit timestamp's Done mark went to a stopped watermark (orc.Stop at the end of Close)"}
			}
		case <-deadline:
			dump := sys_allStacks()
			sys_saveDump(dump)
			return "flush-timeout close=returned", []string{sys_classifyHang("WriteBatch.Flush (closed)", dump)}
		}
	}
}

type sys_gcLogger struct {
	mu       sync.Mutex
	removing chan struct{}
	fired    bool
}

func (l *sys_gcLogger) Errorf(string, ...interface{})   {}
func (l *sys_gcLogger) Warningf(string, ...interface{}) {}
func (l *sys_gcLogger) Debugf(string, ...interface{})   {}
func (l *sys_gcLogger) Infof(f string, a ...interface{}) {
	// value-log GC logs "Removing fid: N" right before it removes the file it has rewritten
	if strings.HasPrefix(f, "Removing fid") {
		l.mu.Lock()
		if !l.fired {
			l.fired = true
			close(l.removing)
		}
		l.mu.Unlock()
	}
}

// sys_gcReader: reader R1 sits inside Item.Value(fn) on a live value of the oldest value-log
// file (holding that file's read lock), RunValueLogGC rewrites that file and waits for R1
// before deleting it, and from inside fn R1 waits (bounded, 5 s) for a second reader R2 that
// reads a value stored in the NEWEST value-log file. All three calls must return.
func sys_gcReader(st *Stats) (out string, fails []string) {
	for attempt := 0; attempt < 3; attempt++ {
		out, fails, setupOK := sys_gcReaderOnce(st)
		if setupOK {
			return out, fails
		}
		st.Inc("gc-reader:setup-retry")
	}
	return "setup-failed", nil
}

func sys_gcReaderOnce(st *Stats) (out string, fails []string, setupOK bool) {
	dir := scratchDir()
	defer os.RemoveAll(dir)
	lg := &sys_gcLogger{removing: make(chan struct{})}
	open := func() (*badger.DB, error) {
		return badger.Open(badger.DefaultOptions(dir).WithSyncWrites(false).WithValueLogFileSize(1 << 20).
			WithValueThreshold(64).WithNumVersionsToKeep(1).WithNumCompactors(2).WithCompactL0OnClose(true).
			WithLogger(lg).WithMetricsEnabled(false).WithCompression(options.None).WithBlockCacheSize(0).WithIndexCacheSize(0))
	}
	val := func(tag string) []byte { return bytes.Repeat([]byte(tag), 4096/len(tag)) }
	db, err := open()
	if err != nil {
		return "", nil, false
	}
	set := func(k string, v []byte) error {
		return db.Update(func(t *badger.Txn) error { return t.Set([]byte(k), v) })
	}
	if set("keep", val("keep")) != nil {
		db.Close()
		return "", nil, false
	}
	for round := 0; round < 2; round++ { // the second round makes the first round's values stale
		for i := 0; i < 400; i++ {
			if set(fmt.Sprintf("k%04d", i), val(fmt.Sprintf("r%dv%04d", round, i))) != nil {
				db.Close()
				return "", nil, false
			}
		}
	}
	_ = set("other", val("othr"))
	if db.Close() != nil { // flush + L0 compaction: discard statistics per value-log file
		return "", nil, false
	}
	if db, err = open(); err != nil {
		return "", nil, false
	}
	const bound = 5 * time.Second
	inCallback := make(chan struct{})
	startR2 := make(chan struct{})
	r2Res := make(chan error, 1)
	r2Seen := make(chan error, 1)
	r1Done := make(chan error, 1)
	gcDone := make(chan error, 1)
	var r2Late atomic.Bool
	go func() { // R2
		<-startR2
		r2Res <- db.View(func(t *badger.Txn) error {
			it, err := t.Get([]byte("other"))
			if err != nil {
				return err
			}
			v, err := it.ValueCopy(nil)
			if err == nil && !bytes.Equal(v, val("othr")) {
				err = errors.New("wrong value for other")
			}
			return err
		})
	}()
	go func() { // R1
		r1Done <- db.View(func(t *badger.Txn) error {
			it, err := t.Get([]byte("keep"))
			if err != nil {
				return err
			}
			return it.Value(func(v []byte) error {
				close(inCallback)
				<-startR2
				select {
				case e := <-r2Res:
					r2Seen <- e
				case <-time.After(bound):
					r2Late.Store(true)
				}
				return nil
			})
		})
	}()
	closeDB := func() string {
		c := make(chan error, 1)
		go func() { c <- db.Close() }()
		select {
		case <-c:
			return "ok"
		case <-time.After(30 * time.Second):
			return "hangs"
		}
	}
	select {
	case <-inCallback:
	case <-time.After(20 * time.Second):
		close(startR2)
		closeDB()
		return "", nil, false
	}
	go func() { gcDone <- db.RunValueLogGC(0.1) }()
	select {
	case <-lg.removing:
	case <-gcDone: // nothing to rewrite: the setup did not produce discard statistics
		close(startR2)
		<-r1Done
		closeDB()
		return "", nil, false
	case <-time.After(30 * time.Second):
		close(startR2)
		closeDB()
		return "", nil, false
	}
	time.Sleep(300 * time.Millisecond) // GC reaches the point where it waits for R1's file lock
	close(startR2)
	wait := func(c chan error, what string) string {
		select {
		case e := <-c:
			if e != nil {
				return "err"
			}
			return "ok"
		case <-time.After(30 * time.Second):
			fails = append(fails, "[C38-timeout] "+what+" did not return within 30 s")
			return "hangs"
		}
	}
	r1 := wait(r1Done, "View/Item.Value (R1, value in the file being garbage-collected)")
	r2 := "ok"
	if r2Late.Load() {
		r2 = "late"
		fails = append(fails, "[C38-timeout] View/Get+ValueCopy of a value in another value-log file (R2) did not return within 5 s while RunValueLogGC waited for reader R1 of the file it removes: R1 → R2 → GC → R1")
		wait(r2Res, "R2 after R1's callback gave up")
	} else {
		r2 = wait(r2Seen, "R2")
	}
	gc := wait(gcDone, "RunValueLogGC")
	cl := closeDB()
	if cl != "ok" {
		fails = append(fails, "[C38-timeout] Close after the GC scenario did not return within 30 s")
	}
	st.Inc("gc-reader:r2=" + r2)
	return fmt.Sprintf("ok r1=%s r2=%s gc=%s", r1, r2, gc), fails, true
}

func sys_execPipeline(intents []string, st *Stats) (final, outs, oracle []string) {
	if l, err := strconv.Atoi(params["limit"]); err == nil && l > 0 {
		sys_callLimit = time.Duration(l) * time.Second
	}
	emit := func(op, out string) {
		final = append(final, op)
		outs = append(outs, out)
	}
	for _, line := range intents {
		w := strings.Fields(line)
		if len(w) == 0 {
			continue
		}
		progress(line)
		st.Inc("op:" + w[0])
		switch w[0] {
		case "stress":
			samples, fails, out := sys_stress(kvWords(w[1:]), st)
			emit(line, out)
			at := len(final)
			for _, f := range fails {
				oracle = append(oracle, fmt.Sprintf("line %d: %s :: %s", at, line, f))
			}
			for _, s := range samples {
				emit(s, "ok")
				st.Inc("sample")
			}
		case "sample": // replayed sample
			emit(line, "ok")
		case "late-flush":
			out, fails := sys_lateFlush(st)
			emit(line, out)
			for _, f := range fails {
				oracle = append(oracle, fmt.Sprintf("line %d: %s :: %s", len(final), line, f))
			}
		case "gc-read-during-removal":
			out, fails := sys_gcReader(st)
			emit(line, out)
			for _, f := range fails {
				oracle = append(oracle, fmt.Sprintf("line %d: %s :: %s", len(final), line, f))
			}
		case "late-sender":
			out, fails := sys_lateSender(st)
			emit(line, out)
			for _, f := range fails {
				oracle = append(oracle, fmt.Sprintf("line %d: %s :: %s", len(final), line, f))
			}
		default:
			emit(line, "bad-op")
		}
	}
	return
}

func sys_genPipeline(rng *rand.Rand, n int, st *Stats) []string {
	var ops []string
	for i := 0; i < n; i++ {
		stall := 2 + rng.Intn(2)
		ops = append(ops, fmt.Sprintf("stress seed=%d nm=%d stall=%d l0t=%d writers=%d readers=2 ms=%d",
			rng.Intn(1<<30), 1+rng.Intn(2), stall, 1+rng.Intn(stall-1), 4+rng.Intn(5), 400+rng.Intn(400)))
	}
	return ops
}
