#!/usr/bin/env python3
"""Regenerates MANIFEST.json from props.py (claimed checks) and na.py (not claimed, with reasons)."""
import json, os, sys
ROOT = os.path.dirname(os.path.abspath(__file__))
sys.path.insert(0, ROOT)
from props import PROPS as ALLPROPS, REGISTERED
PROPS = {k: v for k, v in ALLPROPS.items() if k in REGISTERED}
try:
    from props import NOT_APPLICABLE
except ImportError:
    NOT_APPLICABLE = {}
try:
    from props import HOOK_COMMITS
except ImportError:
    HOOK_COMMITS = []

import subprocess
try:
    HOOK_COMMITS = subprocess.run(["git", "-C", "/repo", "log", "--format=%H %s", "--grep", "^verif hooks"],
                                  capture_output=True, text=True).stdout.strip().split("\n")
    HOOK_COMMITS = [h for h in reversed(HOOK_COMMITS) if h]
except Exception:
    pass
ids = [json.loads(l)["id"] for l in open(os.path.join(ROOT, "properties.jsonl"))]
checks = []
for pid in ids:
    if pid not in PROPS:
        continue
    c = PROPS[pid]
    checks.append(dict(
        property_id=pid,
        quick_cmd="./check %s --tier quick" % pid,
        thorough_cmd="./check %s --tier thorough" % pid,
        evidence_file="/verif/evidence/%s.json" % pid,
        replay_cmd_template="./check %s --replay {path}" % pid,
        engine=",".join(sorted({x["engine"] for x in c.get("corr", [])})) or "lean",
        level_claimed=dict(category="proof", text=c["level_text"], design_ref=c.get("design_ref", "§6")),
        level_note="; ".join(["Lean 4.33 kernel; axioms ⊆ {propext, Classical.choice, Quot.sound}; model tied to the code by the correspondence harness (differential, not a proof)"] + c.get("trusted", []) + c.get("assumptions", [])),
        technique=c["technique"],
    ))
na = []
for pid in ids:
    if pid in PROPS:
        continue
    na.append(dict(property_id=pid, reason=NOT_APPLICABLE.get(pid, "not yet covered by the Lean model and correspondence harness in this snapshot; no check is claimed")))
man = dict(
    version=1,
    setup_cmd="./check --setup",
    hooks=dict(guard="verif", enable="go build -tags verif (harness module replaces github.com/dgraph-io/badger/v4 => /repo)",
               baseline_off_cmd=json.load(open("/root/.vp/BASELINE.json"))["cmd"] if os.path.exists("/root/.vp/BASELINE.json") else "go test ./...",
               source_commits=HOOK_COMMITS, add_only=True),
    engines=[
        dict(name="lean-model", path="/verif/lean", serves_properties=sorted(PROPS), kind_free_text="Lean 4 model (BadgerModel), theorems (BadgerProofs/Props), bmdriver line-protocol executable"),
        dict(name="harness", path="/verif/harness", serves_properties=sorted(PROPS), kind_free_text="Go correspondence harness (bv) built with -tags verif against /repo; engines codec/iter/mvcc/crash/conc/lock"),
        dict(name="extract", path="/verif/extract", serves_properties=sorted(PROPS), kind_free_text="go/ast fact extractor regenerating BadgerModel/Extracted.lean"),
    ],
    checks=checks,
    not_applicable=na,
    notes="Single entry point ./check <Cxx>; see DESIGN.md. Evidence level is 'proof' (theorems) with the correspondence statistics recorded alongside.",
)
json.dump(man, open(os.path.join(ROOT, "MANIFEST.json"), "w"), indent=1, ensure_ascii=False)
print("checks:", len(checks), "not_applicable:", len(na))
