"""Per-property configuration of ./check (see DESIGN.md §6). Kept as data so that the
MANIFEST can be generated from it (./mkmanifest.py)."""

PROPS = {}

PROPS["C20"] = dict(
    title="Internal key, header and value encodings round-trip and order correctly",
    modules=["BadgerProofs.Props.C20"],
    required_theorems=["C20_parseKey_keyWithTs", "C20_parseTs_keyWithTs", "C20_compareKeys_order"],
    corr=[dict(engine="codec", name="key+header+vs+vptr", params={"families": "key"},
               n=dict(quick=3000, thorough=300000))],
    technique="Lean 4 theorems (round-trip, order law) over a byte-level model + differential correspondence with y.KeyWithTs/ParseTs/CompareKeys",
    level_text="unbounded theorems over all keys/versions for the model; the model is tied to the code by differential runs on generated and corpus inputs",
    trusted=["encoding/binary, bytes.Compare (Go stdlib) behave as modelled"],
    assumptions=["timestamps are uint64 (ts ≤ 2^64-1)"],
    design_ref="§6 C20",
)
