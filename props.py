"""Per-property configuration of ./check: one JSON file per property under props/
(so that properties can be added without touching shared files). See CONVENTIONS.md."""
import json, os, glob
_D = os.path.join(os.path.dirname(os.path.abspath(__file__)), "props")
PROPS = {}
for _f in sorted(glob.glob(os.path.join(_D, "C*.json"))):
    PROPS[os.path.basename(_f)[:-5]] = json.load(open(_f))
NOT_APPLICABLE = {}
if os.path.exists(os.path.join(_D, "not_applicable.json")):
    NOT_APPLICABLE = json.load(open(os.path.join(_D, "not_applicable.json")))
HOOK_COMMITS = []
if os.path.exists(os.path.join(_D, "hook_commits.json")):
    HOOK_COMMITS = json.load(open(os.path.join(_D, "hook_commits.json")))

# Only vetted properties are claimed in MANIFEST.json and built by setup: the coordinator adds
# an id to props/registered.json once `./check Cxx` passes on the unchanged tree.
REGISTERED = []
if os.path.exists(os.path.join(_D, "registered.json")):
    REGISTERED = json.load(open(os.path.join(_D, "registered.json")))
