import BadgerProofs.Lemmas.Bytes
import BadgerProofs.Props.C20
