import BadgerModel.Driver.Iter
import BadgerModel.Driver.Loop
/-! `bmd_iter <engine>`: line-protocol driver (see CONVENTIONS.md). Engines: `merge`, `skl`. -/
open Badger.Driver

def main (args : List String) : IO UInt32 := do
  let stdin ← IO.getStdin
  let stdout ← IO.getStdout
  match args with
  | ["merge"] => statefulLoopU stdin stdout mergeStep {}; return 0
  | ["skl"] => statefulLoop stdin stdout sklStep {}; return 0
  | ["sklsched"] => statefulLoop stdin stdout schedStep {}; return 0
  | _ => IO.eprintln "usage: bmd_iter <merge|skl|sklsched>"; return 2
