import BadgerModel.Driver.Log
import BadgerModel.Driver.Loop
/-! `bmd_log <engine>`: line-protocol driver (see CONVENTIONS.md). -/
open Badger.Driver

def main (args : List String) : IO UInt32 := do
  let stdin ← IO.getStdin
  let stdout ← IO.getStdout
  match args with
  | ["log"] => statelessLoop stdin stdout logStep; return 0
  | _ => IO.eprintln "usage: bmd_log <engine>"; return 2
