import BadgerModel.Driver.Loop
import BadgerModel.Driver.Sys
/-! `bmd_conc <engine>`: line-protocol driver (see CONVENTIONS.md). Engines: `lock` (C35),
    `pipeline` (C38), `crypto` (C23). -/
open Badger.Driver

def main (args : List String) : IO UInt32 := do
  let stdin ← IO.getStdin
  let stdout ← IO.getStdout
  match args with
  | ["lock"] => statefulLoop stdin stdout lockStep ({} : LockDrv); return 0
  | ["crypto"] => statelessLoop stdin stdout cryptoStep; return 0
  | ["pipeline"] => statelessLoop stdin stdout pipelineStep; return 0
  | _ => IO.eprintln "usage: bmd_conc <lock|pipeline|crypto>"; return 2
