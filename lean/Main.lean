import BadgerModel.Driver.Codec
import BadgerModel.Driver.Mvcc
import BadgerModel.Driver.Gc
import BadgerModel.Driver.Loop
/-! `bmdriver <engine>`: reads one op per line on stdin, prints one canonical output line per op. -/
open Badger.Driver

def main (args : List String) : IO UInt32 := do
  let stdin ← IO.getStdin
  let stdout ← IO.getStdout
  match args with
  | ["codec"] => statelessLoop stdin stdout codecStep; return 0
  | ["mvcc"] => statefulLoop stdin stdout mvccStep (Badger.Db.init {} 0); return 0
  | ["gc"] => statefulLoop stdin stdout gcStep ({} : GcDrv); return 0
  | _ => IO.eprintln "usage: bmdriver <engine>"; return 2
