import BadgerModel.Driver.Codec
/-! `bmdriver <engine>`: reads one op per line on stdin, prints one canonical output line per op. -/
open Badger.Driver

partial def statelessLoop (h : IO.FS.Stream) (out : IO.FS.Stream) (f : String → String) : IO Unit := do
  let line ← h.getLine
  if line.isEmpty then return ()
  out.putStrLn (f (chomp line))
  statelessLoop h out f

def main (args : List String) : IO UInt32 := do
  let stdin ← IO.getStdin
  let stdout ← IO.getStdout
  match args with
  | ["codec"] => statelessLoop stdin stdout codecStep; return 0
  | _ => IO.eprintln "usage: bmdriver <engine>"; return 2
