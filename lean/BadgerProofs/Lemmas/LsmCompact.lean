import BadgerProofs.Lemmas.LsmInv
import BadgerProofs.Props.C12Filter
/-!
# Compaction on the LSM model: list utilities, key ranges, `sortBySmallest`, the shape of
`Lsm.compact`, and the definitions `CompactOk`, `VerBound`, `CutsAtKeyChange`.
Helper lemmas live in `namespace Badger.LL`.
-/
namespace Badger
namespace LL

/-! ## index utilities: `zipIdx`, `removeIdx`, `pickIdx` -/

theorem zipIdx_map_snd {α : Type} (l : List α) : (zipIdx l).map (·.2) = l := by
  unfold zipIdx
  apply List.map_snd_zip
  simp

theorem mem_removeIdx {α : Type} {l : List α} {idx : List Nat} {t : α} :
    t ∈ removeIdx l idx ↔ ∃ j, l[j]? = some t ∧ j ∉ idx := by
  unfold removeIdx
  simp only [List.mem_map, List.mem_filter]
  constructor
  · rintro ⟨⟨j, t'⟩, ⟨hm, hc⟩, rfl⟩
    exact ⟨j, (mem_zipIdx _ _ _).mp hm, by simpa using hc⟩
  · rintro ⟨j, hj, hn⟩
    exact ⟨(j, t), ⟨(mem_zipIdx _ _ _).mpr hj, by simpa using hn⟩, rfl⟩

theorem removeIdx_sublist {α : Type} (l : List α) (idx : List Nat) : (removeIdx l idx).Sublist l := by
  have h : ((zipIdx l).filter (fun (p : Nat × α) => !idx.contains p.1)).Sublist (zipIdx l) := List.filter_sublist
  have := h.map (·.2)
  rw [zipIdx_map_snd] at this
  exact this

theorem mem_pickIdx {α : Type} {l : List α} {idx : List Nat} {t : α} :
    t ∈ pickIdx l idx ↔ ∃ j ∈ idx, l[j]? = some t := by
  unfold pickIdx
  simp [List.mem_filterMap]

theorem pickIdx_range' {α : Type} (l : List α) (b c : Nat) (h : b + c ≤ l.length) :
    pickIdx l (List.range' b c) = (l.drop b).take c := by
  induction c generalizing b with
  | zero => simp [pickIdx]
  | succ c ih =>
    have hb : b < l.length := by omega
    have := ih (b + 1) (by omega)
    unfold pickIdx at this ⊢
    rw [List.range'_succ, List.filterMap_cons]
    simp only [List.getElem?_eq_getElem hb]
    rw [this, List.drop_eq_getElem_cons hb, List.take_succ_cons]

theorem pickIdx_sublist_range' {α : Type} (l : List α) (b c : Nat) (h : b + c ≤ l.length) :
    (pickIdx l (List.range' b c)).Sublist l := by
  rw [pickIdx_range' l b c h]
  exact (List.take_sublist _ _).trans (List.drop_sublist _ _)

theorem pickIdx_singleton {α : Type} (l : List α) (i : Nat) (h : i < l.length) : pickIdx l [i] = [l[i]] := by
  simp [pickIdx, List.getElem?_eq_getElem h]

theorem pickIdx_range {α : Type} (l : List α) (n : Nat) (h : n ≤ l.length) :
    pickIdx l (List.range n) = l.take n := by
  rw [List.range_eq_range', pickIdx_range' l 0 n (by omega)]; simp

theorem removeIdx_range_aux {α : Type} (l : List α) (a n : Nat) :
    (((List.range' a l.length).zip l).filter (fun (p : Nat × α) => !(List.range n).contains p.1)).map (·.2) =
      l.drop (n - a) := by
  induction l generalizing a with
  | nil => simp
  | cons x xs ih =>
    simp only [List.length_cons, List.range'_succ, List.zip_cons_cons, List.filter_cons]
    by_cases ha : a < n
    · have : (List.range n).contains a = true := by simp [ha]
      simp only [this, Bool.not_true, Bool.false_eq_true, if_false]
      rw [ih (a + 1)]
      have : n - a = (n - (a + 1)) + 1 := by omega
      rw [this, List.drop_succ_cons]
    · have : (List.range n).contains a = false := by simp; omega
      simp only [this, Bool.not_false, if_true, List.map_cons]
      rw [ih (a + 1)]
      have h1 : n - a = 0 := by omega
      have h2 : n - (a + 1) = 0 := by omega
      rw [h1, h2]; simp

theorem removeIdx_range {α : Type} (l : List α) (n : Nat) : removeIdx l (List.range n) = l.drop n := by
  unfold removeIdx zipIdx
  have := removeIdx_range_aux l 0 n
  rw [← List.range_eq_range'] at this
  simpa using this

/-! ## `splitSizes`, `withIds` -/

theorem splitSizes_spec {ns : List Nat} {es : List Ent} {tbls : List Tbl} (h : splitSizes ns es = some tbls) :
    (tbls.map (·.ents)).flatten = es ∧ ∀ t ∈ tbls, t.ents ≠ [] := by
  induction ns generalizing es tbls with
  | nil =>
    cases es with
    | nil => simp [splitSizes] at h; subst h; simp
    | cons _ _ => simp [splitSizes] at h
  | cons n ns ih =>
    rw [splitSizes] at h
    split at h
    · simp at h
    · rename_i hc
      have hc' : n ≠ 0 ∧ n ≤ es.length := by
        constructor
        · intro h0; apply hc; left; simp [h0]
        · apply Nat.le_of_not_lt; intro hl; apply hc; right; exact hl
      cases hr : splitSizes ns (es.drop n) with
      | none => rw [hr] at h; simp at h
      | some r =>
        rw [hr] at h; simp at h; subst h
        obtain ⟨h1, h2⟩ := ih hr
        constructor
        · simp [h1]
        · intro t ht
          rcases List.mem_cons.mp ht with rfl | ht
          · simp
            refine ⟨hc'.1, ?_⟩
            intro h0; subst h0; simp at hc'
          · exact h2 t ht

theorem withIds_map_ents (ts : List Tbl) (is : List Nat) : (withIds ts is).map (·.ents) = ts.map (·.ents) := by
  induction ts generalizing is with
  | nil => cases is <;> simp [withIds]
  | cons t ts ih =>
    cases is with
    | nil => simp [withIds]
    | cons i is => simp [withIds, ih]


/-! ## `sortBySmallest` of pairwise separated tables -/

/-- every entry of `a` is `R`-before every entry of `b` -/
def Sep (R : Ent → Ent → Prop) (a b : Tbl) : Prop := ∀ x ∈ a.ents, ∀ y ∈ b.ents, R x y

/-- a transitive relation inside the internal-key order -/
structure SepRel (R : Ent → Ent → Prop) : Prop where
  toElt : ∀ {a b}, R a b → elt a b
  trans : ∀ {a b c}, R a b → R b c → R a c

/-- strict order on the user keys of two entries -/
def keyLt (a b : Ent) : Prop := klt a.key b.key

theorem sepRel_elt : SepRel elt := ⟨id, elt_trans⟩
theorem sepRel_keyLt : SepRel keyLt := ⟨fun h => .inl h, klt_trans⟩

theorem Sep.trans {R : Ent → Ent → Prop} (hR : SepRel R) {a b c : Tbl} (hb : b.ents ≠ [])
    (h1 : Sep R a b) (h2 : Sep R b c) : Sep R a c := by
  intro x hx z hz
  obtain ⟨y, hy⟩ := List.exists_mem_of_ne_nil _ hb
  exact hR.trans (h1 x hx y hy) (h2 y hy z hz)

theorem smallest_mem {t : Tbl} {a : Ent} (h : t.smallest = some a) : a ∈ t.ents := by
  unfold Tbl.smallest at h; exact List.mem_of_head? h

theorem smallest_some {t : Tbl} (h : t.ents ≠ []) : ∃ a, t.smallest = some a := by
  unfold Tbl.smallest
  cases ht : t.ents with
  | nil => exact absurd ht h
  | cons a _ => exact ⟨a, rfl⟩

theorem biggest_mem {t : Tbl} {a : Ent} (h : t.biggest = some a) : a ∈ t.ents := by
  unfold Tbl.biggest at h; exact List.mem_of_getLast? h

theorem biggest_some {t : Tbl} (h : t.ents ≠ []) : ∃ a, t.biggest = some a := by
  unfold Tbl.biggest
  exact ⟨t.ents.getLast h, List.getLast?_eq_some_getLast h⟩

theorem mem_insertBySmallest {t y : Tbl} {xs : List Tbl} :
    y ∈ insertBySmallest t xs ↔ y = t ∨ y ∈ xs := by
  induction xs with
  | nil => simp [insertBySmallest]
  | cons x xs ih =>
    unfold insertBySmallest
    split
    · split
      · simp only [List.mem_cons, ih]
        constructor
        · rintro (h | h | h)
          · exact .inr (.inl h)
          · exact .inl h
          · exact .inr (.inr h)
        · rintro (h | h | h)
          · exact .inr (.inl h)
          · exact .inl h
          · exact .inr (.inr h)
      · simp
    · simp only [List.mem_cons, ih]
      constructor
      · rintro (h | h | h)
        · exact .inr (.inl h)
        · exact .inl h
        · exact .inr (.inr h)
      · rintro (h | h | h)
        · exact .inr (.inl h)
        · exact .inl h
        · exact .inr (.inr h)

theorem mem_sortBySmallest {y : Tbl} {l : List Tbl} : y ∈ sortBySmallest l ↔ y ∈ l := by
  induction l with
  | nil => simp [sortBySmallest]
  | cons t l ih =>
    have : sortBySmallest (t :: l) = insertBySmallest t (sortBySmallest l) := rfl
    rw [this, mem_insertBySmallest, ih]; simp

theorem insertBySmallest_pairwise {R : Ent → Ent → Prop} (hR : SepRel R) {t : Tbl} {xs : List Tbl}
    (ht : t.ents ≠ []) (hne : ∀ x ∈ xs, x.ents ≠ []) (hp : xs.Pairwise (Sep R))
    (hs : ∀ x ∈ xs, Sep R x t ∨ Sep R t x) : (insertBySmallest t xs).Pairwise (Sep R) := by
  induction xs with
  | nil => simp [insertBySmallest]
  | cons x xs ih =>
    obtain ⟨hx, hp'⟩ := List.pairwise_cons.mp hp
    obtain ⟨a, ha⟩ := smallest_some ht
    obtain ⟨b, hb⟩ := smallest_some (hne x (by simp))
    have ham := smallest_mem ha
    have hbm := smallest_mem hb
    unfold insertBySmallest
    rw [ha, hb]
    simp only
    by_cases hc : entCmp b a = .lt
    · rw [if_pos (by simp [hc])]
      have hxt : Sep R x t := by
        rcases hs x (by simp) with h | h
        · exact h
        · exact absurd ((entCmp_lt_iff _ _).mp hc) (elt_asymm (hR.toElt (h a ham b hbm)))
      refine List.pairwise_cons.mpr ⟨?_, ih (fun y hy => hne y (List.mem_cons_of_mem _ hy)) hp'
        (fun y hy => hs y (List.mem_cons_of_mem _ hy))⟩
      intro y hy
      rcases mem_insertBySmallest.mp hy with rfl | hy
      · exact hxt
      · exact hx y hy
    · rw [if_neg (by simp [hc])]
      have htx : Sep R t x := by
        rcases hs x (by simp) with h | h
        · exact absurd ((entCmp_lt_iff _ _).mpr (hR.toElt (h b hbm a ham))) hc
        · exact h
      refine List.pairwise_cons.mpr ⟨?_, hp⟩
      intro y hy
      rcases List.mem_cons.mp hy with rfl | hy
      · exact htx
      · exact Sep.trans hR (hne x (by simp)) htx (hx y hy)

theorem sortBySmallest_pairwise {R : Ent → Ent → Prop} (hR : SepRel R) {l : List Tbl}
    (hne : ∀ x ∈ l, x.ents ≠ []) (hp : l.Pairwise (fun a b => Sep R a b ∨ Sep R b a)) :
    (sortBySmallest l).Pairwise (Sep R) := by
  induction l with
  | nil => simp [sortBySmallest]
  | cons t l ih =>
    obtain ⟨ht, hp'⟩ := List.pairwise_cons.mp hp
    have : sortBySmallest (t :: l) = insertBySmallest t (sortBySmallest l) := rfl
    rw [this]
    apply insertBySmallest_pairwise hR (hne t (by simp))
    · intro x hx; exact hne x (List.mem_cons_of_mem _ (mem_sortBySmallest.mp hx))
    · exact ih (fun x hx => hne x (List.mem_cons_of_mem _ hx)) hp'
    · intro x hx
      rcases ht x (mem_sortBySmallest.mp hx) with h | h
      · exact .inr h
      · exact .inl h


/-! ## key ranges (`keyRangeOf`, `tblOverlaps`) -/

/-- `a`'s user key is `≤` `b`'s -/
def kle (a b : Bytes) : Prop := ¬ klt b a

theorem kle_refl (a : Bytes) : kle a a := klt_irrefl a
theorem kle_of_klt {a b : Bytes} (h : klt a b) : kle a b := klt_asymm h
theorem kle_iff {a b : Bytes} : kle a b ↔ klt a b ∨ a = b := by
  unfold kle
  rcases klt_tri a b with h | h | h
  · simp [h, klt_asymm h]
  · subst h; simp [klt_irrefl]
  · simp [h, klt_asymm h]; intro e; subst e; exact klt_irrefl _ h
theorem klt_of_klt_of_kle {a b c : Bytes} (h1 : klt a b) (h2 : kle b c) : klt a c := by
  rcases kle_iff.mp h2 with h | rfl
  · exact klt_trans h1 h
  · exact h1
theorem klt_of_kle_of_klt {a b c : Bytes} (h1 : kle a b) (h2 : klt b c) : klt a c := by
  rcases kle_iff.mp h1 with h | rfl
  · exact klt_trans h h2
  · exact h2
theorem kle_trans {a b c : Bytes} (h1 : kle a b) (h2 : kle b c) : kle a c := by
  rcases kle_iff.mp h1 with h | rfl
  · exact kle_of_klt (klt_of_klt_of_kle h h2)
  · exact h2
theorem elt_kle {a b : Ent} (h : elt a b) : kle a.key b.key := by
  rcases h with h | ⟨h, _⟩
  · exact kle_of_klt h
  · rw [h]; exact kle_refl _
theorem elt_of_klt {a b : Ent} (h : klt a.key b.key) : elt a b := .inl h

theorem sorted_head {l : List Ent} (hs : SortedEnts l) {a : Ent} (ha : l.head? = some a) :
    ∀ x ∈ l, x = a ∨ elt a x := by
  cases l with
  | nil => simp at ha
  | cons y ys =>
    simp at ha; subst ha
    intro x hx
    rcases List.mem_cons.mp hx with rfl | hx
    · exact .inl rfl
    · exact .inr ((sorted_cons.mp hs).1 x hx)

theorem tbl_keys_ge_smallest {t : Tbl} (hs : SortedEnts t.ents) {a : Ent} (ha : t.smallest = some a) :
    ∀ x ∈ t.ents, kle a.key x.key := by
  intro x hx
  rcases sorted_head hs ha x hx with rfl | h
  · exact kle_refl _
  · exact elt_kle h

theorem tbl_keys_le_biggest {t : Tbl} (hs : SortedEnts t.ents) {b : Ent} (hb : t.biggest = some b) :
    ∀ x ∈ t.ents, kle x.key b.key := by
  intro x hx
  rcases sorted_getLast hs hb x hx with rfl | h
  · exact kle_refl _
  · exact elt_kle h

theorem foldl_min_spec (s : Ent) (ss : List Ent) :
    let m := ss.foldl (fun a x => if entCmp x a == .lt then x else a) s
    (m = s ∨ elt m s) ∧ ∀ x ∈ ss, ¬ elt x m := by
  induction ss generalizing s with
  | nil => simp
  | cons x ss ih =>
    simp only [List.foldl_cons]
    by_cases hc : entCmp x s = .lt
    · have hx : elt x s := (entCmp_lt_iff _ _).mp hc
      simp only [hc, beq_self_eq_true, if_true]
      obtain ⟨h1, h2⟩ := ih x
      refine ⟨?_, ?_⟩
      · rcases h1 with h1 | h1
        · right; rw [h1]; exact hx
        · right; exact elt_trans h1 hx
      · intro y hy
        rcases List.mem_cons.mp hy with rfl | hy
        · rcases h1 with h1 | h1
          · rw [h1]; exact elt_irrefl _
          · exact elt_asymm h1
        · exact h2 y hy
    · have hx : ¬ elt x s := fun h => hc ((entCmp_lt_iff _ _).mpr h)
      have : (entCmp x s == .lt) = false := by simp [hc]
      simp only [this, Bool.false_eq_true, if_false]
      obtain ⟨h1, h2⟩ := ih s
      refine ⟨h1, ?_⟩
      intro y hy
      rcases List.mem_cons.mp hy with rfl | hy
      · rcases h1 with h1 | h1
        · rw [h1]; exact hx
        · intro h; exact hx (elt_trans h h1)
      · exact h2 y hy

theorem foldl_max_spec (s : Ent) (ss : List Ent) :
    let m := ss.foldl (fun a x => if entCmp x a == .gt then x else a) s
    (m = s ∨ elt s m) ∧ ∀ x ∈ ss, ¬ elt m x := by
  induction ss generalizing s with
  | nil => simp
  | cons x ss ih =>
    simp only [List.foldl_cons]
    by_cases hc : entCmp x s = .gt
    · have hx : elt s x := (entCmp_gt_iff _ _).mp hc
      simp only [hc, beq_self_eq_true, if_true]
      obtain ⟨h1, h2⟩ := ih x
      refine ⟨?_, ?_⟩
      · rcases h1 with h1 | h1
        · right; rw [h1]; exact hx
        · right; exact elt_trans hx h1
      · intro y hy
        rcases List.mem_cons.mp hy with rfl | hy
        · rcases h1 with h1 | h1
          · rw [h1]; exact elt_irrefl _
          · exact elt_asymm h1
        · exact h2 y hy
    · have hx : ¬ elt s x := fun h => hc ((entCmp_gt_iff _ _).mpr h)
      have : (entCmp x s == .gt) = false := by simp [hc]
      simp only [this, Bool.false_eq_true, if_false]
      obtain ⟨h1, h2⟩ := ih s
      refine ⟨h1, ?_⟩
      intro y hy
      rcases List.mem_cons.mp hy with rfl | hy
      · rcases h1 with h1 | h1
        · rw [h1]; exact hx
        · intro h; exact hx (elt_trans h1 h)
      · exact h2 y hy

theorem keyRangeOf_cover {ts : List Tbl} (hok : ∀ t ∈ ts, TblOk t) {lo hi : Ent}
    (h : keyRangeOf ts = some (lo, hi)) :
    lo.ver = maxU64 ∧ hi.ver = 0 ∧ ∀ t ∈ ts, ∀ e ∈ t.ents, kle lo.key e.key ∧ kle e.key hi.key := by
  unfold keyRangeOf at h
  simp only at h
  split at h
  · rename_i s ss b bs hs hb
    have h := Option.some.inj h
    have hlo := congrArg Prod.fst h
    have hhi := congrArg Prod.snd h
    simp only at hlo hhi
    refine ⟨by rw [← hlo], by rw [← hhi], ?_⟩
    intro t ht e he
    obtain ⟨sm, hsm⟩ := smallest_some (hok t ht).1
    obtain ⟨bg, hbg⟩ := biggest_some (hok t ht).1
    have hsm' : sm ∈ s :: ss := by rw [← hs]; exact List.mem_filterMap.mpr ⟨t, ht, hsm⟩
    have hbg' : bg ∈ b :: bs := by rw [← hb]; exact List.mem_filterMap.mpr ⟨t, ht, hbg⟩
    obtain ⟨m1, m2⟩ := foldl_min_spec s ss
    obtain ⟨x1, x2⟩ := foldl_max_spec b bs
    constructor
    · rw [← hlo]; simp only
      apply kle_trans _ (tbl_keys_ge_smallest (hok t ht).2 hsm e he)
      intro hk
      rcases List.mem_cons.mp hsm' with rfl | hm
      · rcases m1 with m1 | m1
        · rw [m1] at hk; exact klt_irrefl _ hk
        · exact elt_asymm m1 (elt_of_klt hk)
      · exact m2 sm hm (elt_of_klt hk)
    · rw [← hhi]; simp only
      apply kle_trans (tbl_keys_le_biggest (hok t ht).2 hbg e he)
      intro hk
      rcases List.mem_cons.mp hbg' with rfl | hm
      · rcases x1 with x1 | x1
        · rw [x1] at hk; exact klt_irrefl _ hk
        · exact elt_asymm x1 (elt_of_klt hk)
      · exact x2 bg hm (elt_of_klt hk)
  · simp at h

theorem keyRangeOf_some {ts : List Tbl} (hok : ∀ t ∈ ts, TblOk t) (hne : ts ≠ []) :
    ∃ lo hi, keyRangeOf ts = some (lo, hi) := by
  cases ts with
  | nil => exact absurd rfl hne
  | cons t ts =>
    obtain ⟨sm, hsm⟩ := smallest_some (hok t (by simp)).1
    obtain ⟨bg, hbg⟩ := biggest_some (hok t (by simp)).1
    unfold keyRangeOf
    simp only [List.filterMap_cons, hsm, hbg]
    exact ⟨_, _, rfl⟩

theorem keyRangeOf_nil : keyRangeOf [] = none := rfl

theorem not_overlap_sides {t : Tbl} (hok : TblOk t) (hv : ∀ e ∈ t.ents, e.ver ≤ maxU64) {lo hi : Ent}
    (hlo : lo.ver = maxU64) (hhi : hi.ver = 0) (h : tblOverlaps lo hi t = false) :
    (∀ x ∈ t.ents, klt x.key lo.key) ∨ (∀ x ∈ t.ents, klt hi.key x.key) := by
  obtain ⟨sm, hsm⟩ := smallest_some hok.1
  obtain ⟨bg, hbg⟩ := biggest_some hok.1
  unfold tblOverlaps at h
  rw [hsm, hbg] at h
  simp only [Bool.and_eq_false_iff, bne_eq_false_iff_eq] at h
  rcases h with h | h
  · left
    have h' := (entCmp_gt_iff _ _).mp h
    have hk : klt bg.key lo.key := by
      rcases h' with h' | ⟨_, h'⟩
      · exact h'
      · have := hv bg (biggest_mem hbg); omega
    intro x hx
    exact klt_of_kle_of_klt (tbl_keys_le_biggest hok.2 hbg x hx) hk
  · right
    have h' := (entCmp_lt_iff _ _).mp h
    have hk : klt hi.key sm.key := by
      rcases h' with h' | ⟨_, h'⟩
      · exact h'
      · omega
    intro x hx
    exact klt_of_klt_of_kle hk (tbl_keys_ge_smallest hok.2 hsm x hx)

theorem overlap_not_left {t : Tbl} {lo hi : Ent} (h : tblOverlaps lo hi t = true) :
    ¬ (∀ x ∈ t.ents, klt x.key lo.key) := by
  unfold tblOverlaps at h
  split at h
  · rename_i s b hs hb
    simp only [Bool.and_eq_true, bne_iff_ne, ne_eq] at h
    intro hall
    exact h.1 ((entCmp_gt_iff _ _).mpr (elt_of_klt (hall b (biggest_mem hb))))
  · simp at h

theorem overlap_not_right {t : Tbl} {lo hi : Ent} (h : tblOverlaps lo hi t = true) :
    ¬ (∀ x ∈ t.ents, klt hi.key x.key) := by
  unfold tblOverlaps at h
  split at h
  · rename_i s b hs hb
    simp only [Bool.and_eq_true, bne_iff_ne, ne_eq] at h
    intro hall
    exact h.2 ((entCmp_lt_iff _ _).mpr (elt_of_klt (hall s (smallest_mem hs))))
  · simp at h

end LL

/-! ## well-formed compaction definitions -/

/-- versions fit a `uint64` -/
def VerBound (s : Lsm) : Prop := ∀ e ∈ s.allEntries, e.ver ≤ maxU64

def cdThisT (s : Lsm) (cd : CompactDef) : List Tbl := s.levels.getD cd.thisLevel []
def cdNextT (s : Lsm) (cd : CompactDef) : List Tbl := s.levels.getD cd.nextLevel []
def cdTops (s : Lsm) (cd : CompactDef) : List Tbl := pickIdx (cdThisT s cd) cd.top
def cdBots (s : Lsm) (cd : CompactDef) : List Tbl := pickIdx (cdNextT s cd) cd.bot

/-- `bot` = exactly the tables of `nextLevel` whose range intersects the range of the tops
    (`overlappingTables(thisRange)`) -/
def BotExact (s : Lsm) (cd : CompactDef) : Prop :=
  match keyRangeOf (cdTops s cd) with
  | none => cd.bot = []
  | some (lo, hi) =>
    ∀ j, j < (cdNextT s cd).length → (j ∈ cd.bot ↔ tblOverlaps lo hi ((cdNextT s cd).getD j default) = true)

/-- indices in range, `top` strictly increasing and non-empty, `bot` a contiguous run -/
def CdBase (s : Lsm) (cd : CompactDef) : Prop :=
  cd.thisLevel < s.levels.length ∧ cd.nextLevel < s.levels.length ∧
  (∀ i ∈ cd.top, i < (cdThisT s cd).length) ∧ cd.top.Pairwise (· < ·) ∧ cd.top ≠ [] ∧
  cd.bot = List.range' (cd.bot.headD 0) cd.bot.length ∧
  cd.bot.headD 0 + cd.bot.length ≤ (cdNextT s cd).length

/-- L0 → Lbase: the oldest `n` tables of L0, nothing between L0 and the base level -/
def IsL0Lbase (s : Lsm) (cd : CompactDef) : Prop :=
  cd.thisLevel = 0 ∧ 0 < cd.nextLevel ∧ cd.top = List.range cd.top.length ∧
  (∀ j, j < cd.nextLevel → 0 < j → s.levels.getD j [] = []) ∧ BotExact s cd

/-- Li → Li+1 (`i ≥ 1`): one table and the overlapping run below -/
def IsLiLnext (s : Lsm) (cd : CompactDef) : Prop :=
  1 ≤ cd.thisLevel ∧ cd.nextLevel = cd.thisLevel + 1 ∧ cd.top.length = 1 ∧ BotExact s cd

/-- L0 → L0: any subset of L0, no bottom tables -/
def IsL0L0 (_s : Lsm) (cd : CompactDef) : Prop :=
  cd.thisLevel = 0 ∧ cd.nextLevel = 0 ∧ cd.bot = []

/-- Lmax → Lmax: one table of the last level and the tables following it -/
def IsLmax (s : Lsm) (cd : CompactDef) : Prop :=
  1 ≤ cd.thisLevel ∧ cd.nextLevel = cd.thisLevel ∧ cd.thisLevel + 1 = s.levels.length ∧
  cd.top.length = 1 ∧ (cd.bot = [] ∨ cd.bot.headD 0 = cd.top.headD 0 + 1)

def CompactOk (s : Lsm) (cd : CompactDef) : Prop :=
  CdBase s cd ∧ (IsL0Lbase s cd ∨ IsLiLnext s cd ∨ IsL0L0 s cd ∨ IsLmax s cd)

/-- every boundary between two consecutive output tables separates different user keys
    (`addKeys` only breaks a table when the user key changes) -/
def CutsAtKeyChange : List Tbl → Prop
  | a :: b :: rest =>
    (∀ x y, a.biggest = some x → b.smallest = some y → x.key ≠ y.key) ∧ CutsAtKeyChange (b :: rest)
  | _ => True

instance (s : Lsm) : Decidable (VerBound s) := by unfold VerBound; infer_instance
instance (s : Lsm) (cd : CompactDef) : Decidable (BotExact s cd) := by
  unfold BotExact; split <;> infer_instance
instance (s : Lsm) (cd : CompactDef) : Decidable (CdBase s cd) := by unfold CdBase; infer_instance
instance (s : Lsm) (cd : CompactDef) : Decidable (IsL0Lbase s cd) := by unfold IsL0Lbase; infer_instance
instance (s : Lsm) (cd : CompactDef) : Decidable (IsLiLnext s cd) := by unfold IsLiLnext; infer_instance
instance (s : Lsm) (cd : CompactDef) : Decidable (IsL0L0 s cd) := by unfold IsL0L0; infer_instance
instance (s : Lsm) (cd : CompactDef) : Decidable (IsLmax s cd) := by unfold IsLmax; infer_instance
instance (s : Lsm) (cd : CompactDef) : Decidable (CompactOk s cd) := by unfold CompactOk; infer_instance

namespace LL

theorem flatten_sorted_iff (tbls : List Tbl) :
    SortedEnts (tbls.map (·.ents)).flatten ↔ (∀ t ∈ tbls, SortedEnts t.ents) ∧ tbls.Pairwise (Sep elt) := by
  rw [sorted_iff, List.pairwise_flatten, List.pairwise_map]
  constructor
  · rintro ⟨h1, h2⟩
    exact ⟨fun t ht => (sorted_iff _).mpr (h1 _ (List.mem_map.mpr ⟨t, ht, rfl⟩)), h2⟩
  · rintro ⟨h1, h2⟩
    refine ⟨?_, h2⟩
    intro l hl
    obtain ⟨t, ht, rfl⟩ := List.mem_map.mp hl
    exact (sorted_iff _).mp (h1 t ht)

theorem keyDisjoint_iff (tbls : List Tbl) : KeyDisjoint tbls ↔ tbls.Pairwise (Sep keyLt) := Iff.rfl

theorem Sep.keyLt_elt {a b : Tbl} (h : Sep keyLt a b) : Sep elt a b :=
  fun x hx y hy => .inl (h x hx y hy)

/-- entries of the tables a compaction reads -/
def topEnts (s : Lsm) (cd : CompactDef) : List Ent := ((cdTops s cd).map (·.ents)).flatten
def botEnts (s : Lsm) (cd : CompactDef) : List Ent := ((cdBots s cd).map (·.ents)).flatten

/-- the level lists after a compaction -/
def newNext (s : Lsm) (cd : CompactDef) (new0 : List Tbl) : List Tbl :=
  sortBySmallest (removeIdx (cdNextT s cd) (if cd.thisLevel = cd.nextLevel then cd.top ++ cd.bot else cd.bot) ++
    withIds new0 cd.outIds)
def newLevels (s : Lsm) (cd : CompactDef) (new0 : List Tbl) : List (List Tbl) :=
  if cd.thisLevel = cd.nextLevel then s.levels.set cd.nextLevel (newNext s cd new0)
  else (s.levels.set cd.nextLevel (newNext s cd new0)).set cd.thisLevel (removeIdx (cdThisT s cd) cd.top)

theorem compact_some {s s' : Lsm} {cd : CompactDef} {d n now : Nat} (h : s.compact cd d n now = some s') :
    ∃ new0, splitSizes cd.outSizes (compactOutput s cd d n now).1 = some new0 ∧
      s' = { s with levels := newLevels s cd new0 } := by
  unfold Lsm.compact at h
  simp only at h
  cases hsp : splitSizes cd.outSizes (compactOutput s cd d n now).1 with
  | none => rw [hsp] at h; simp at h
  | some new0 =>
    rw [hsp] at h
    refine ⟨new0, rfl, ?_⟩
    simp only at h
    unfold newLevels newNext cdNextT cdThisT
    by_cases hc : cd.thisLevel = cd.nextLevel
    · rw [if_pos hc, if_pos hc]
      have : (cd.thisLevel == cd.nextLevel) = true := by simpa using hc
      rw [if_pos this] at h
      rw [← hc]
      exact (Option.some.inj h).symm
    · rw [if_neg hc, if_neg hc]
      have : ¬ (cd.thisLevel == cd.nextLevel) = true := by simpa using hc
      rw [if_neg this] at h
      exact (Option.some.inj h).symm

theorem mem_compactOutput {s : Lsm} {cd : CompactDef} {d n now : Nat} {e : Ent}
    (h : e ∈ (compactOutput s cd d n now).1) : e ∈ topEnts s cd ∨ e ∈ botEnts s cd := by
  unfold compactOutput at h
  simp only at h
  have h1 := C12_merge_mem_flatten (C12_filter_mem h)
  rw [List.flatten_append] at h1
  rcases List.mem_append.mp h1 with h2 | h2
  · left
    unfold topEnts cdTops cdThisT
    split at h2
    · rw [List.mem_flatten] at h2 ⊢
      obtain ⟨l, hl, hel⟩ := h2
      obtain ⟨t, ht, rfl⟩ := List.mem_map.mp hl
      exact ⟨t.ents, List.mem_map.mpr ⟨t, List.mem_reverse.mp ht, rfl⟩, hel⟩
    · exact h2
  · right
    unfold botEnts cdBots cdNextT
    simp only [List.flatten_cons, List.flatten_nil, List.append_nil] at h2
    rw [List.mem_flatten] at h2 ⊢
    obtain ⟨l, hl, hel⟩ := h2
    obtain ⟨t, ht, rfl⟩ := List.mem_map.mp hl
    exact ⟨t.ents, List.mem_map.mpr ⟨t, (List.mem_filter.mp ht).1, rfl⟩, hel⟩

theorem compactOutput_sorted {s : Lsm} {cd : CompactDef} (d n now : Nat)
    (ht : ∀ t ∈ cdTops s cd, SortedEnts t.ents) (hb : SortedEnts (botEnts s cd)) :
    SortedEnts (compactOutput s cd d n now).1 := by
  unfold compactOutput
  simp only
  apply C12_filter_sorted
  apply C12_merge_sorted
  intro src hsrc
  rcases List.mem_append.mp hsrc with h | h
  · split at h
    · obtain ⟨t, ht', rfl⟩ := List.mem_map.mp h
      exact ht t (List.mem_reverse.mp ht')
    · obtain ⟨t, ht', rfl⟩ := List.mem_map.mp h
      exact ht t ht'
  · simp only [List.mem_singleton] at h
    subst h
    unfold botEnts at hb
    rw [flatten_sorted_iff] at hb ⊢
    exact ⟨fun t ht' => hb.1 t (List.mem_filter.mp ht').1, hb.2.sublist List.filter_sublist⟩

theorem mem_allEntries {s : Lsm} {e : Ent} :
    e ∈ s.allEntries ↔ e ∈ s.mem ∨ (∃ m ∈ s.imm, e ∈ m) ∨
      ∃ (i : Nat) (tbls : List Tbl) (t : Tbl), s.levels[i]? = some tbls ∧ t ∈ tbls ∧ e ∈ t.ents := by
  unfold Lsm.allEntries Lsm.sources
  cases hl : s.levels with
  | nil => simp
  | cons l0 rest =>
    simp only [List.flatten_append, List.mem_append, List.flatten_cons, List.mem_flatten, List.mem_reverse,
      List.mem_map]
    constructor
    · rintro ((h | ⟨m, hm, he⟩) | ⟨l, ⟨t, ht, rfl⟩, he⟩ | ⟨l, ⟨tbls, ht, rfl⟩, he⟩)
      · exact .inl h
      · exact .inr (.inl ⟨m, hm, he⟩)
      · exact .inr (.inr ⟨0, l0, t, rfl, ht, he⟩)
      · obtain ⟨l', hl', he'⟩ := List.mem_flatten.mp he
        obtain ⟨t, ht', rfl⟩ := List.mem_map.mp hl'
        obtain ⟨j, hj, rfl⟩ := List.getElem_of_mem ht
        exact .inr (.inr ⟨j + 1, rest[j], t, by simp, ht', he'⟩)
    · rintro (h | ⟨m, hm, he⟩ | ⟨i, tbls, t, hi, ht, he⟩)
      · exact .inl (.inl h)
      · exact .inl (.inr ⟨m, hm, he⟩)
      · right
        cases i with
        | zero => simp at hi; subst hi; exact .inl ⟨t.ents, ⟨t, ht, rfl⟩, he⟩
        | succ j =>
          simp at hi
          exact .inr ⟨_, ⟨tbls, List.mem_of_getElem? hi, rfl⟩,
            List.mem_flatten.mpr ⟨t.ents, List.mem_map.mpr ⟨t, ht, rfl⟩, he⟩⟩

theorem levels_getD {s : Lsm} {i : Nat} (h : i < s.levels.length) :
    s.levels[i]? = some (s.levels.getD i []) := by
  rw [List.getD_eq_getElem?_getD, List.getElem?_eq_getElem h]; rfl

theorem newLevels_get {s : Lsm} {cd : CompactDef} (new0 : List Tbl) (hthis : cd.thisLevel < s.levels.length)
    (hnext : cd.nextLevel < s.levels.length) (i : Nat) :
    (newLevels s cd new0)[i]? =
      if i = cd.thisLevel ∧ cd.thisLevel ≠ cd.nextLevel then some (removeIdx (cdThisT s cd) cd.top)
      else if i = cd.nextLevel then some (newNext s cd new0) else s.levels[i]? := by
  unfold newLevels
  by_cases hc : cd.thisLevel = cd.nextLevel
  · rw [if_pos hc, List.getElem?_set]
    have h1 : ¬ (i = cd.thisLevel ∧ cd.thisLevel ≠ cd.nextLevel) := fun h => h.2 hc
    rw [if_neg h1]
    by_cases hi : i = cd.nextLevel
    · rw [if_pos hi.symm, if_pos hnext, if_pos hi]
    · rw [if_neg (fun h => hi h.symm), if_neg hi]
  · rw [if_neg hc, List.getElem?_set, List.length_set]
    by_cases hi : i = cd.thisLevel
    · rw [if_pos hi.symm, if_pos hthis, if_pos ⟨hi, hc⟩]
    · rw [if_neg (fun h => hi h.symm), if_neg (fun h => hi h.1), List.getElem?_set]
      by_cases hi2 : i = cd.nextLevel
      · rw [if_pos hi2.symm, if_pos hnext, if_pos hi2]
      · rw [if_neg (fun h => hi2 h.symm), if_neg hi2]

theorem this_level {s : Lsm} {cd : CompactDef} (h : LsmInv s) (hb : CdBase s cd) :
    s.levels[cd.thisLevel]? = some (cdThisT s cd) ∧ LevelOk cd.thisLevel (cdThisT s cd) := by
  have := levels_getD hb.1
  exact ⟨this, h.level this⟩

theorem next_level {s : Lsm} {cd : CompactDef} (h : LsmInv s) (hb : CdBase s cd) :
    s.levels[cd.nextLevel]? = some (cdNextT s cd) ∧ LevelOk cd.nextLevel (cdNextT s cd) := by
  have := levels_getD hb.2.1
  exact ⟨this, h.level this⟩

theorem tops_mem {s : Lsm} {cd : CompactDef} {t : Tbl} (ht : t ∈ cdTops s cd) : t ∈ cdThisT s cd := by
  obtain ⟨j, _, hj⟩ := mem_pickIdx.mp ht
  exact List.mem_of_getElem? hj

theorem bots_mem {s : Lsm} {cd : CompactDef} {t : Tbl} (ht : t ∈ cdBots s cd) : t ∈ cdNextT s cd := by
  obtain ⟨j, _, hj⟩ := mem_pickIdx.mp ht
  exact List.mem_of_getElem? hj

theorem tops_ne_nil {s : Lsm} {cd : CompactDef} (hb : CdBase s cd) : cdTops s cd ≠ [] := by
  obtain ⟨_, _, h3, _, h5, _⟩ := hb
  obtain ⟨i, hi⟩ := List.exists_mem_of_ne_nil _ h5
  have hlt := h3 i hi
  intro hnil
  have : (cdThisT s cd)[i] ∈ cdTops s cd := mem_pickIdx.mpr ⟨i, hi, List.getElem?_eq_getElem hlt⟩
  rw [hnil] at this; simp at this

theorem bots_eq {s : Lsm} {cd : CompactDef} (hb : CdBase s cd) :
    cdBots s cd = ((cdNextT s cd).drop (cd.bot.headD 0)).take cd.bot.length := by
  have hbot := hb.2.2.2.2.2.1
  have : cdBots s cd = pickIdx (cdNextT s cd) (List.range' (cd.bot.headD 0) cd.bot.length) := by
    unfold cdBots; rw [← hbot]
  rw [this, pickIdx_range' _ _ _ hb.2.2.2.2.2.2]

theorem bots_sublist {s : Lsm} {cd : CompactDef} (hb : CdBase s cd) : (cdBots s cd).Sublist (cdNextT s cd) := by
  rw [bots_eq hb]
  exact (List.take_sublist _ _).trans (List.drop_sublist _ _)

theorem keyDisjoint_sublist {l l' : List Tbl} (h : l'.Sublist l) (hk : KeyDisjoint l) : KeyDisjoint l' :=
  List.Pairwise.sublist h hk

/-- the bottom run is sorted: it is a sublist of a level `≥ 1`, or empty -/
theorem botEnts_sorted {s : Lsm} {cd : CompactDef} (h : LsmInv s) (hc : CompactOk s cd) :
    SortedEnts (botEnts s cd) := by
  obtain ⟨hb, hcase⟩ := hc
  have hnl := (next_level h hb).2
  have hsub := bots_sublist hb
  have key : 1 ≤ cd.nextLevel → SortedEnts (botEnts s cd) := by
    intro h1
    unfold botEnts
    rw [flatten_sorted_iff]
    refine ⟨fun t ht => (hnl.1 t (hsub.subset ht)).2, ?_⟩
    have := keyDisjoint_sublist hsub (hnl.2 h1)
    exact this.imp Sep.keyLt_elt
  rcases hcase with hh | hh | hh | hh
  · exact key hh.2.1
  · exact key (by rw [hh.2.1]; omega)
  · unfold botEnts cdBots; rw [hh.2.2]; simp [pickIdx]; exact sorted_nil
  · exact key (by rw [hh.2.1]; exact hh.1)

theorem tops_sorted {s : Lsm} {cd : CompactDef} (h : LsmInv s) (hb : CdBase s cd) :
    ∀ t ∈ cdTops s cd, TblOk t :=
  fun t ht => (this_level h hb).2.1 t (tops_mem ht)

theorem out_sorted {s : Lsm} {cd : CompactDef} (h : LsmInv s) (hc : CompactOk s cd) (d n now : Nat) :
    SortedEnts (compactOutput s cd d n now).1 :=
  compactOutput_sorted d n now (fun t ht => (tops_sorted h hc.1 t ht).2) (botEnts_sorted h hc)

/-- facts about the freshly built tables -/
theorem new_tables {s : Lsm} {cd : CompactDef} {d n now : Nat} {new0 : List Tbl} (h : LsmInv s)
    (hc : CompactOk s cd) (hsp : splitSizes cd.outSizes (compactOutput s cd d n now).1 = some new0) :
    (∀ t ∈ withIds new0 cd.outIds, TblOk t ∧ ∀ e ∈ t.ents, e ∈ (compactOutput s cd d n now).1) ∧
    (withIds new0 cd.outIds).Pairwise (Sep elt) := by
  obtain ⟨hflat, hne⟩ := splitSizes_spec hsp
  have hs := out_sorted h hc d n now
  rw [← hflat, ← withIds_map_ents new0 cd.outIds, flatten_sorted_iff] at hs
  refine ⟨?_, hs.2⟩
  intro t ht
  have hte : t.ents ∈ (new0.map (·.ents)) := by
    rw [← withIds_map_ents new0 cd.outIds]; exact List.mem_map.mpr ⟨t, ht, rfl⟩
  obtain ⟨t0, ht0, het0⟩ := List.mem_map.mp hte
  refine ⟨⟨?_, hs.1 t ht⟩, ?_⟩
  · rw [← het0]; exact hne t0 ht0
  · intro e he
    rw [← hflat]
    exact List.mem_flatten.mpr ⟨t.ents, hte, he⟩

theorem cuts_pairwise {l : List Tbl} (hok : ∀ t ∈ l, TblOk t) (hp : l.Pairwise (Sep elt))
    (hc : CutsAtKeyChange l) : l.Pairwise (Sep keyLt) := by
  induction l with
  | nil => exact List.Pairwise.nil
  | cons a l ih =>
    cases l with
    | nil => simp
    | cons b rest =>
      obtain ⟨hab, hp'⟩ := List.pairwise_cons.mp hp
      obtain ⟨hcut, hc'⟩ := hc
      have ih' := ih (fun t ht => hok t (List.mem_cons_of_mem _ ht)) hp' hc'
      obtain ⟨hb1, _⟩ := List.pairwise_cons.mp ih'
      obtain ⟨x, hx⟩ := biggest_some (hok a (by simp)).1
      obtain ⟨y, hy⟩ := smallest_some (hok b (by simp)).1
      have hxy : klt x.key y.key := by
        rcases hab b (by simp) x (biggest_mem hx) y (smallest_mem hy) with h | ⟨h, _⟩
        · exact h
        · exact absurd h (hcut x y hx hy)
      have hsab : Sep keyLt a b := by
        intro u hu v hv
        exact klt_of_klt_of_kle (klt_of_kle_of_klt (tbl_keys_le_biggest (hok a (by simp)).2 hx u hu) hxy)
          (tbl_keys_ge_smallest (hok b (by simp)).2 hy v hv)
      refine List.pairwise_cons.mpr ⟨?_, ih'⟩
      intro t ht
      rcases List.mem_cons.mp ht with rfl | ht
      · exact hsab
      · exact Sep.trans sepRel_keyLt (hok b (by simp)).1 hsab (hb1 t ht)

/-- a kept table of the next level lies entirely on one side of everything the compaction reads -/
def OneSide (t : Tbl) (inputs : List Ent) : Prop :=
  (∀ x ∈ t.ents, ∀ y ∈ inputs, klt x.key y.key) ∨ (∀ x ∈ t.ents, ∀ y ∈ inputs, klt y.key x.key)

theorem mem_topEnts {s : Lsm} {cd : CompactDef} {e : Ent} :
    e ∈ topEnts s cd ↔ ∃ t ∈ cdTops s cd, e ∈ t.ents := by
  unfold topEnts
  constructor
  · intro h
    obtain ⟨l, hl, hel⟩ := List.mem_flatten.mp h
    obtain ⟨t, ht, rfl⟩ := List.mem_map.mp hl
    exact ⟨t, ht, hel⟩
  · rintro ⟨t, ht, hel⟩
    exact List.mem_flatten.mpr ⟨t.ents, List.mem_map.mpr ⟨t, ht, rfl⟩, hel⟩

theorem mem_botEnts {s : Lsm} {cd : CompactDef} {e : Ent} :
    e ∈ botEnts s cd ↔ ∃ t ∈ cdBots s cd, e ∈ t.ents := by
  unfold botEnts
  constructor
  · intro h
    obtain ⟨l, hl, hel⟩ := List.mem_flatten.mp h
    obtain ⟨t, ht, rfl⟩ := List.mem_map.mp hl
    exact ⟨t, ht, hel⟩
  · rintro ⟨t, ht, hel⟩
    exact List.mem_flatten.mpr ⟨t.ents, List.mem_map.mpr ⟨t, ht, rfl⟩, hel⟩

theorem level_sep_of_ne {l : List Tbl} (hk : KeyDisjoint l) {i j : Nat} {a b : Tbl} (hi : l[i]? = some a)
    (hj : l[j]? = some b) (hne : i ≠ j) : Sep keyLt a b ∨ Sep keyLt b a := by
  have hp := List.pairwise_iff_getElem.mp hk
  obtain ⟨hi1, rfl⟩ := List.getElem?_eq_some_iff.mp hi
  obtain ⟨hj1, rfl⟩ := List.getElem?_eq_some_iff.mp hj
  rcases Nat.lt_or_gt_of_ne hne with h | h
  · exact .inl (hp i j hi1 hj1 h)
  · exact .inr (hp j i hj1 hi1 h)

/-- the geometric heart of L0→Lbase / Li→Li+1: a table of the next level that does not intersect
    the key range of the tops is on one side of all tops and all bottom tables -/
theorem kept_oneSide_exact {s : Lsm} {cd : CompactDef} (h : LsmInv s) (hv : VerBound s) (hb : CdBase s cd)
    (hn : 1 ≤ cd.nextLevel) (hex : BotExact s cd) {t : Tbl} (ht : t ∈ removeIdx (cdNextT s cd) cd.bot) :
    OneSide t (topEnts s cd ++ botEnts s cd) := by
  obtain ⟨j, hj, hjn⟩ := mem_removeIdx.mp ht
  obtain ⟨hnl, hnok⟩ := next_level h hb
  have hkd := hnok.2 hn
  have htm : t ∈ cdNextT s cd := List.mem_of_getElem? hj
  have htok := hnok.1 t htm
  obtain ⟨lo, hi, hkr⟩ := keyRangeOf_some (tops_sorted h hb) (tops_ne_nil hb)
  obtain ⟨hlo, hhi, hcov⟩ := keyRangeOf_cover (tops_sorted h hb) hkr
  unfold BotExact at hex
  rw [hkr] at hex
  simp only at hex
  obtain ⟨hjlt, hjeq⟩ := List.getElem?_eq_some_iff.mp hj
  have hgetD : ∀ j' (hj' : j' < (cdNextT s cd).length), (cdNextT s cd).getD j' default = (cdNextT s cd)[j'] := by
    intro j' hj'; simp [List.getD_eq_getElem?_getD, List.getElem?_eq_getElem hj']
  have hnov : tblOverlaps lo hi t = false := by
    have h1 : ¬ tblOverlaps lo hi ((cdNextT s cd).getD j default) = true := fun h' => hjn ((hex j hjlt).mpr h')
    rw [hgetD j hjlt, hjeq] at h1
    simpa using h1
  have hver : ∀ e ∈ t.ents, e.ver ≤ maxU64 :=
    fun e he => hv e (mem_allEntries.mpr (.inr (.inr ⟨cd.nextLevel, _, t, hnl, htm, he⟩)))
  -- every bottom table overlaps, and is separated from `t`
  have hbot : ∀ b ∈ cdBots s cd, tblOverlaps lo hi b = true ∧ (Sep keyLt t b ∨ Sep keyLt b t) := by
    intro b hbm
    obtain ⟨j', hj'b, hj'⟩ := mem_pickIdx.mp hbm
    obtain ⟨hj'lt, hj'eq⟩ := List.getElem?_eq_some_iff.mp hj'
    have hov := (hex j' hj'lt).mp hj'b
    rw [hgetD j' hj'lt, hj'eq] at hov
    refine ⟨hov, level_sep_of_ne hkd hj hj' ?_⟩
    intro e; subst e; exact hjn hj'b
  rcases not_overlap_sides htok hver hlo hhi hnov with hside | hside
  · left
    intro x hx y hy
    rcases List.mem_append.mp hy with hy | hy
    · obtain ⟨tt, htt, hytt⟩ := mem_topEnts.mp hy
      exact klt_of_klt_of_kle (hside x hx) (hcov tt htt y hytt).1
    · obtain ⟨b, hbm, hyb⟩ := mem_botEnts.mp hy
      obtain ⟨hov, hsep⟩ := hbot b hbm
      rcases hsep with hsep | hsep
      · exact hsep x hx y hyb
      · exfalso
        apply overlap_not_left hov
        intro z hz
        obtain ⟨w, hw⟩ := List.exists_mem_of_ne_nil _ htok.1
        exact klt_trans (hsep z hz w hw) (hside w hw)
  · right
    intro x hx y hy
    rcases List.mem_append.mp hy with hy | hy
    · obtain ⟨tt, htt, hytt⟩ := mem_topEnts.mp hy
      exact klt_of_kle_of_klt (hcov tt htt y hytt).2 (hside x hx)
    · obtain ⟨b, hbm, hyb⟩ := mem_botEnts.mp hy
      obtain ⟨hov, hsep⟩ := hbot b hbm
      rcases hsep with hsep | hsep
      · exfalso
        apply overlap_not_right hov
        intro z hz
        obtain ⟨w, hw⟩ := List.exists_mem_of_ne_nil _ htok.1
        exact klt_trans (hside w hw) (hsep w hw z hz)
      · exact hsep y hyb x hx

theorem top_singleton {cd : CompactDef} (h : cd.top.length = 1) : cd.top = [cd.top.headD 0] := by
  cases ht : cd.top with
  | nil => rw [ht] at h; simp at h
  | cons a l =>
    rw [ht] at h
    cases l with
    | nil => rfl
    | cons _ _ => simp at h

theorem nextT_eq_thisT {s : Lsm} {cd : CompactDef} (h : cd.nextLevel = cd.thisLevel) :
    cdNextT s cd = cdThisT s cd := by unfold cdNextT cdThisT; rw [h]

theorem kept_oneSide_lmax {s : Lsm} {cd : CompactDef} (h : LsmInv s) (hb : CdBase s cd) (hm : IsLmax s cd)
    {t : Tbl} (ht : t ∈ removeIdx (cdNextT s cd) (cd.top ++ cd.bot)) :
    OneSide t (topEnts s cd ++ botEnts s cd) := by
  obtain ⟨h1, hnt, _, htl, hbot⟩ := hm
  have hnx := nextT_eq_thisT (s := s) hnt
  obtain ⟨j, hj, hjn⟩ := mem_removeIdx.mp ht
  obtain ⟨hnl, hnok⟩ := next_level h hb
  have hkd := hnok.2 (by rw [hnt]; exact h1)
  have hp := List.pairwise_iff_getElem.mp hkd
  have htop := top_singleton htl
  have hbr := hb.2.2.2.2.2.1
  -- the indices read form the interval [i, i + 1 + c)
  have hmt : ∀ j', j' ∈ cd.top ↔ j' = cd.top.headD 0 := by
    intro j'
    constructor
    · intro hm; rw [htop] at hm; simpa using hm
    · intro e; rw [htop, e]; simp
  have hmb : ∀ j', j' ∈ cd.bot ↔ cd.bot.headD 0 ≤ j' ∧ j' < cd.bot.headD 0 + cd.bot.length := by
    intro j'
    have : j' ∈ cd.bot ↔ j' ∈ List.range' (cd.bot.headD 0) cd.bot.length := by rw [← hbr]
    rw [this, List.mem_range'_1]
  have hidx : ∀ j', j' ∈ cd.top ++ cd.bot ↔ cd.top.headD 0 ≤ j' ∧ j' < cd.top.headD 0 + 1 + cd.bot.length := by
    intro j'
    rw [List.mem_append, hmt, hmb]
    rcases hbot with hb0 | hb1
    · rw [hb0]; simp; omega
    · rw [hb1]; omega
  have hinput : ∀ y ∈ topEnts s cd ++ botEnts s cd, ∃ j' b, j' ∈ cd.top ++ cd.bot ∧ (cdNextT s cd)[j']? = some b ∧ y ∈ b.ents := by
    intro y hy
    rcases List.mem_append.mp hy with hy | hy
    · obtain ⟨tt, htt, hytt⟩ := mem_topEnts.mp hy
      obtain ⟨j', hj', hjj⟩ := mem_pickIdx.mp htt
      exact ⟨j', tt, List.mem_append_left _ hj', by rw [hnx]; exact hjj, hytt⟩
    · obtain ⟨tt, htt, hytt⟩ := mem_botEnts.mp hy
      obtain ⟨j', hj', hjj⟩ := mem_pickIdx.mp htt
      exact ⟨j', tt, List.mem_append_right _ hj', hjj, hytt⟩
  obtain ⟨hjlt, hjeq⟩ := List.getElem?_eq_some_iff.mp hj
  have hjn' : ¬ (cd.top.headD 0 ≤ j ∧ j < cd.top.headD 0 + 1 + cd.bot.length) := fun h' => hjn ((hidx j).mpr h')
  by_cases hlow : j < cd.top.headD 0
  · left
    intro x hx y hy
    obtain ⟨j', b, hj'm, hj'b, hyb⟩ := hinput y hy
    obtain ⟨hj'lt, hj'eq⟩ := List.getElem?_eq_some_iff.mp hj'b
    have := hp j j' hjlt hj'lt (by have := (hidx j').mp hj'm; omega)
    rw [hjeq, hj'eq] at this
    exact this x hx y hyb
  · right
    intro x hx y hy
    obtain ⟨j', b, hj'm, hj'b, hyb⟩ := hinput y hy
    obtain ⟨hj'lt, hj'eq⟩ := List.getElem?_eq_some_iff.mp hj'b
    have := hp j' j hj'lt hjlt (by have := (hidx j').mp hj'm; omega)
    rw [hjeq, hj'eq] at this
    exact this y hyb x hx

/-- the index list removed from the next level -/
def keptIdx (cd : CompactDef) : List Nat := if cd.thisLevel = cd.nextLevel then cd.top ++ cd.bot else cd.bot

theorem newNext_eq (s : Lsm) (cd : CompactDef) (new0 : List Tbl) :
    newNext s cd new0 = sortBySmallest (removeIdx (cdNextT s cd) (keptIdx cd) ++ withIds new0 cd.outIds) := rfl

theorem kept_oneSide {s : Lsm} {cd : CompactDef} (h : LsmInv s) (hv : VerBound s) (hc : CompactOk s cd)
    (hn : 1 ≤ cd.nextLevel) {t : Tbl} (ht : t ∈ removeIdx (cdNextT s cd) (keptIdx cd)) :
    OneSide t (topEnts s cd ++ botEnts s cd) := by
  obtain ⟨hb, hcase⟩ := hc
  unfold keptIdx at ht
  rcases hcase with hh | hh | hh | hh
  · have : cd.thisLevel ≠ cd.nextLevel := by rw [hh.1]; omega
    rw [if_neg this] at ht
    exact kept_oneSide_exact h hv hb hn hh.2.2.2.2 ht
  · have : cd.thisLevel ≠ cd.nextLevel := by rw [hh.2.1]; omega
    rw [if_neg this] at ht
    exact kept_oneSide_exact h hv hb hn hh.2.2.2 ht
  · rw [hh.2.1] at hn; omega
  · rw [if_pos hh.2.1.symm] at ht
    exact kept_oneSide_lmax h hb hh ht

theorem newNext_level {s : Lsm} {cd : CompactDef} {d n now : Nat} {new0 : List Tbl} (h : LsmInv s)
    (hv : VerBound s) (hc : CompactOk s cd)
    (hsp : splitSizes cd.outSizes (compactOutput s cd d n now).1 = some new0)
    {R : Ent → Ent → Prop} (hR : SepRel R) (hkR : ∀ a b, keyLt a b → R a b)
    (hN : (withIds new0 cd.outIds).Pairwise (Sep R)) :
    (∀ t ∈ newNext s cd new0, TblOk t) ∧ (1 ≤ cd.nextLevel → (newNext s cd new0).Pairwise (Sep R)) := by
  obtain ⟨hnew, _⟩ := new_tables h hc hsp
  obtain ⟨hnl, hnok⟩ := next_level h hc.1
  have hsub := removeIdx_sublist (cdNextT s cd) (keptIdx cd)
  have hok : ∀ t ∈ removeIdx (cdNextT s cd) (keptIdx cd) ++ withIds new0 cd.outIds, TblOk t := by
    intro t ht
    rcases List.mem_append.mp ht with ht | ht
    · exact hnok.1 t (hsub.subset ht)
    · exact (hnew t ht).1
  rw [newNext_eq]
  refine ⟨fun t ht => hok t (mem_sortBySmallest.mp ht), ?_⟩
  intro hn
  apply sortBySmallest_pairwise hR (fun t ht => (hok t ht).1)
  rw [List.pairwise_append]
  refine ⟨?_, hN.imp (fun h => .inl h), ?_⟩
  · have := (hnok.2 hn).sublist hsub
    exact this.imp (fun hab => .inl (fun x hx y hy => hkR _ _ (hab x hx y hy)))
  · intro t ht nt hnt
    have hin : ∀ y ∈ nt.ents, y ∈ topEnts s cd ++ botEnts s cd := by
      intro y hy
      exact List.mem_append.mpr (mem_compactOutput ((hnew nt hnt).2 y hy))
    rcases kept_oneSide h hv hc hn ht with hside | hside
    · exact .inl (fun x hx y hy => hkR _ _ (hside x hx y (hin y hy)))
    · exact .inr (fun y hy x hx => hkR _ _ (hside x hx y (hin y hy)))

theorem mem_allEntries_compact {s : Lsm} {cd : CompactDef} {d n now : Nat} {new0 : List Tbl} (h : LsmInv s)
    (hc : CompactOk s cd) (hsp : splitSizes cd.outSizes (compactOutput s cd d n now).1 = some new0) {e : Ent}
    (he : e ∈ ({ s with levels := newLevels s cd new0 } : Lsm).allEntries) : e ∈ s.allEntries := by
  rw [mem_allEntries] at he ⊢
  rcases he with he | he | ⟨i, tbls, t, hi, ht, het⟩
  · exact .inl he
  · exact .inr (.inl he)
  · right; right
    obtain ⟨hthis, _⟩ := this_level h hc.1
    obtain ⟨hnext, _⟩ := next_level h hc.1
    simp only at hi
    rw [newLevels_get new0 hc.1.1 hc.1.2.1] at hi
    split at hi
    · rename_i hcond
      simp at hi; subst hi
      exact ⟨cd.thisLevel, _, t, hthis, (removeIdx_sublist _ _).subset ht, het⟩
    · split at hi
      · simp at hi; subst hi
        rw [newNext_eq] at ht
        rcases List.mem_append.mp (mem_sortBySmallest.mp ht) with ht | ht
        · exact ⟨cd.nextLevel, _, t, hnext, (removeIdx_sublist _ _).subset ht, het⟩
        · rcases mem_compactOutput (((new_tables h hc hsp).1 t ht).2 e het) with h1 | h1
          · obtain ⟨tt, htt, hett⟩ := mem_topEnts.mp h1
            exact ⟨cd.thisLevel, _, tt, hthis, tops_mem htt, hett⟩
          · obtain ⟨tt, htt, hett⟩ := mem_botEnts.mp h1
            exact ⟨cd.nextLevel, _, tt, hnext, bots_mem htt, hett⟩
      · exact ⟨i, tbls, t, hi, ht, het⟩

/-- levels of the state after a compaction, generic in the separation relation -/
theorem compact_levels {s : Lsm} {cd : CompactDef} {d n now : Nat} {new0 : List Tbl} (h : LsmInv s)
    (hv : VerBound s) (hc : CompactOk s cd)
    (hsp : splitSizes cd.outSizes (compactOutput s cd d n now).1 = some new0)
    {R : Ent → Ent → Prop} (hR : SepRel R) (hkR : ∀ a b, keyLt a b → R a b)
    (hN : (withIds new0 cd.outIds).Pairwise (Sep R)) {i : Nat} {tbls : List Tbl}
    (hi : (newLevels s cd new0)[i]? = some tbls) :
    (∀ t ∈ tbls, TblOk t) ∧ (1 ≤ i → tbls.Pairwise (Sep R)) := by
  rw [newLevels_get new0 hc.1.1 hc.1.2.1] at hi
  have weaken : ∀ {j : Nat} {l : List Tbl}, LevelOk j l → (∀ t ∈ l, TblOk t) ∧ (1 ≤ j → l.Pairwise (Sep R)) := by
    intro j l hl
    exact ⟨hl.1, fun hj => (hl.2 hj).imp (fun hab x hx y hy => hkR _ _ (hab x hx y hy))⟩
  split at hi
  · rename_i hcond
    simp at hi; subst hi
    obtain ⟨_, hl⟩ := this_level h hc.1
    have hsub := removeIdx_sublist (cdThisT s cd) cd.top
    rw [hcond.1]
    obtain ⟨w1, w2⟩ := weaken hl
    exact ⟨fun t ht => w1 t (hsub.subset ht), fun hj => (w2 hj).sublist hsub⟩
  · split at hi
    · rename_i hnx
      simp at hi; subst hi
      rw [hnx]
      exact newNext_level h hv hc hsp hR hkR hN
    · exact weaken (h.level hi)


/-- the state after a compaction satisfies the weak invariant (no assumption on table cuts) -/
theorem compact_invW {s s' : Lsm} {cd : CompactDef} {d n now : Nat} (h : LsmInv s) (hv : VerBound s)
    (hc : CompactOk s cd) (hs : s.compact cd d n now = some s') : LsmInvW s' := by
  obtain ⟨new0, hsp, rfl⟩ := compact_some hs
  refine ⟨h.1, h.2.1, ?_, fun e he => h.2.2.2 e (mem_allEntries_compact h hc hsp he)⟩
  rintro ⟨i, tbls⟩ hp
  have hi := (mem_zipIdx _ _ _).mp hp
  obtain ⟨h1, h2⟩ := compact_levels h hv hc hsp sepRel_elt (fun a b hab => .inl hab) (new_tables h hc hsp).2 hi
  exact ⟨fun t ht => (h1 t ht).2, fun hi1 => (flatten_sorted_iff tbls).mpr ⟨fun t ht => (h1 t ht).2, h2 hi1⟩⟩

theorem compact_verBound {s s' : Lsm} {cd : CompactDef} {d n now : Nat} (h : LsmInv s) (hv : VerBound s)
    (hc : CompactOk s cd) (hs : s.compact cd d n now = some s') : VerBound s' := by
  obtain ⟨new0, hsp, rfl⟩ := compact_some hs
  exact fun e he => hv e (mem_allEntries_compact h hc hsp he)

end LL

/-- the textbook form of C14 on one level: for consecutive tables, the last user key of the first
    is strictly below the first user key of the second -/
def KeyDisjointC : List Tbl → Prop
  | a :: b :: rest =>
    (∀ x y, a.biggest = some x → b.smallest = some y → cmpBytes x.key y.key = .lt) ∧ KeyDisjointC (b :: rest)
  | _ => True

namespace LL

theorem keyDisjoint_iff_consecutive {l : List Tbl} (hok : ∀ t ∈ l, TblOk t) :
    KeyDisjoint l ↔ KeyDisjointC l := by
  induction l with
  | nil => simp [KeyDisjoint, KeyDisjointC]
  | cons a l ih =>
    cases l with
    | nil => simp [KeyDisjoint, KeyDisjointC]
    | cons b rest =>
      have ih' := ih (fun t ht => hok t (List.mem_cons_of_mem _ ht))
      constructor
      · intro h
        obtain ⟨h1, h2⟩ := List.pairwise_cons.mp h
        refine ⟨?_, ih'.mp h2⟩
        intro x y hx hy
        exact h1 b (by simp) x (biggest_mem hx) y (smallest_mem hy)
      · rintro ⟨h1, h2⟩
        have hkd : KeyDisjoint (b :: rest) := ih'.mpr h2
        obtain ⟨hb1, _⟩ := List.pairwise_cons.mp hkd
        obtain ⟨x, hx⟩ := biggest_some (hok a (by simp)).1
        obtain ⟨y, hy⟩ := smallest_some (hok b (by simp)).1
        have hxy : klt x.key y.key := h1 x y hx hy
        have hsab : Sep keyLt a b := by
          intro u hu v hv
          exact klt_of_klt_of_kle (klt_of_kle_of_klt (tbl_keys_le_biggest (hok a (by simp)).2 hx u hu) hxy)
            (tbl_keys_ge_smallest (hok b (by simp)).2 hy v hv)
        refine List.pairwise_cons.mpr ⟨?_, hkd⟩
        intro t ht
        rcases List.mem_cons.mp ht with rfl | ht
        · exact hsab
        · exact Sep.trans sepRel_keyLt (hok b (by simp)).1 hsab (hb1 t ht)

end LL

/-! ## evaluating compactions on closed terms -/

deriving instance DecidableEq for Lsm

/-- fuel-driven copy of `merge2` (structural, so the kernel can evaluate it) -/
def merge2F : Nat → List Ent → List Ent → List Ent
  | 0, _, _ => []
  | _ + 1, [], ys => ys
  | _ + 1, x :: xs, [] => x :: xs
  | f + 1, x :: xs, y :: ys =>
    match entCmp x y with
    | .lt => x :: merge2F f xs (y :: ys)
    | .eq => x :: merge2F f xs ys
    | .gt => y :: merge2F f (x :: xs) ys

theorem merge2_eq_F (f : Nat) (xs ys : List Ent) (h : xs.length + ys.length < f) :
    merge2 xs ys = merge2F f xs ys := by
  induction f generalizing xs ys with
  | zero => omega
  | succ f ih =>
    cases xs with
    | nil => simp [merge2F]
    | cons x xs =>
      cases ys with
      | nil => simp [merge2F]
      | cons y ys =>
        rw [merge2_cons_cons]
        simp only [merge2F]
        simp only [List.length_cons] at h
        cases hc : entCmp x y with
        | lt => simp only; rw [ih _ _ (by simp; omega)]
        | eq => simp only; rw [ih _ _ (by omega)]
        | gt => simp only; rw [ih _ _ (by simp; omega)]

def mergeAllF (srcs : List (List Ent)) : List Ent :=
  srcs.foldr (fun a b => merge2F (a.length + b.length + 1) a b) []

theorem mergeAll_eq_F (srcs : List (List Ent)) : mergeAll srcs = mergeAllF srcs := by
  unfold mergeAll mergeAllF
  induction srcs with
  | nil => rfl
  | cons a l ih => simp only [List.foldr_cons, ih]; exact merge2_eq_F _ _ _ (by omega)

/-- decide a closed statement about `Lsm.compact`: `merge2` is defined by well-founded recursion, so
    it is first replaced by its fuel-driven copy -/
macro "lsm_decide" : tactic => `(tactic|
  (simp only [Lsm.compact, compactOutput, mergeAll_eq_F]; decide))

end Badger
