import BadgerProofs.Lemmas.LsmInv
import BadgerProofs.Props.C12Filter
/-!
# Compaction on the LSM model: list utilities, key ranges, `sortBySmallest`, the shape of
`Lsm.compact`, and the definitions `CompactOk`, `VerBound`, `CutsAtKeyChange`.
Helper lemmas live in `namespace Badger.LL`.
-/
namespace Badger
namespace LL

/-! ## index utilities: `zipIdx`, `removeIdx`, `pickIdx` -/

theorem zipIdx_map_snd {α : Type} (l : List α) : (zipIdx l).map (·.2) = l := by
  unfold zipIdx
  apply List.map_snd_zip
  simp

theorem mem_removeIdx {α : Type} {l : List α} {idx : List Nat} {t : α} :
    t ∈ removeIdx l idx ↔ ∃ j, l[j]? = some t ∧ j ∉ idx := by
  unfold removeIdx
  simp only [List.mem_map, List.mem_filter]
  constructor
  · rintro ⟨⟨j, t'⟩, ⟨hm, hc⟩, rfl⟩
    exact ⟨j, (mem_zipIdx _ _ _).mp hm, by simpa using hc⟩
  · rintro ⟨j, hj, hn⟩
    exact ⟨(j, t), ⟨(mem_zipIdx _ _ _).mpr hj, by simpa using hn⟩, rfl⟩

theorem removeIdx_sublist {α : Type} (l : List α) (idx : List Nat) : (removeIdx l idx).Sublist l := by
  have h : ((zipIdx l).filter (fun (p : Nat × α) => !idx.contains p.1)).Sublist (zipIdx l) := List.filter_sublist
  have := h.map (·.2)
  rw [zipIdx_map_snd] at this
  exact this

theorem mem_pickIdx {α : Type} {l : List α} {idx : List Nat} {t : α} :
    t ∈ pickIdx l idx ↔ ∃ j ∈ idx, l[j]? = some t := by
  unfold pickIdx
  simp [List.mem_filterMap]

theorem pickIdx_range' {α : Type} (l : List α) (b c : Nat) (h : b + c ≤ l.length) :
    pickIdx l (List.range' b c) = (l.drop b).take c := by
  induction c generalizing b with
  | zero => simp [pickIdx]
  | succ c ih =>
    have hb : b < l.length := by omega
    have := ih (b + 1) (by omega)
    unfold pickIdx at this ⊢
    rw [List.range'_succ, List.filterMap_cons]
    simp only [List.getElem?_eq_getElem hb]
    rw [this, List.drop_eq_getElem_cons hb, List.take_succ_cons]

theorem pickIdx_sublist_range' {α : Type} (l : List α) (b c : Nat) (h : b + c ≤ l.length) :
    (pickIdx l (List.range' b c)).Sublist l := by
  rw [pickIdx_range' l b c h]
  exact (List.take_sublist _ _).trans (List.drop_sublist _ _)

theorem pickIdx_singleton {α : Type} (l : List α) (i : Nat) (h : i < l.length) : pickIdx l [i] = [l[i]] := by
  simp [pickIdx, List.getElem?_eq_getElem h]

theorem pickIdx_range {α : Type} (l : List α) (n : Nat) (h : n ≤ l.length) :
    pickIdx l (List.range n) = l.take n := by
  rw [List.range_eq_range', pickIdx_range' l 0 n (by omega)]; simp

theorem removeIdx_range_aux {α : Type} (l : List α) (a n : Nat) :
    (((List.range' a l.length).zip l).filter (fun (p : Nat × α) => !(List.range n).contains p.1)).map (·.2) =
      l.drop (n - a) := by
  induction l generalizing a with
  | nil => simp
  | cons x xs ih =>
    simp only [List.length_cons, List.range'_succ, List.zip_cons_cons, List.filter_cons]
    by_cases ha : a < n
    · have : (List.range n).contains a = true := by simp [ha]
      simp only [this, Bool.not_true, Bool.false_eq_true, if_false]
      rw [ih (a + 1)]
      have : n - a = (n - (a + 1)) + 1 := by omega
      rw [this, List.drop_succ_cons]
    · have : (List.range n).contains a = false := by simp; omega
      simp only [this, Bool.not_false, if_true, List.map_cons]
      rw [ih (a + 1)]
      have h1 : n - a = 0 := by omega
      have h2 : n - (a + 1) = 0 := by omega
      rw [h1, h2]; simp

theorem removeIdx_range {α : Type} (l : List α) (n : Nat) : removeIdx l (List.range n) = l.drop n := by
  unfold removeIdx zipIdx
  have := removeIdx_range_aux l 0 n
  rw [← List.range_eq_range'] at this
  simpa using this

/-! ## `splitSizes`, `withIds` -/

theorem splitSizes_spec {ns : List Nat} {es : List Ent} {tbls : List Tbl} (h : splitSizes ns es = some tbls) :
    (tbls.map (·.ents)).flatten = es ∧ ∀ t ∈ tbls, t.ents ≠ [] := by
  induction ns generalizing es tbls with
  | nil =>
    cases es with
    | nil => simp [splitSizes] at h; subst h; simp
    | cons _ _ => simp [splitSizes] at h
  | cons n ns ih =>
    rw [splitSizes] at h
    split at h
    · simp at h
    · rename_i hc
      have hc' : n ≠ 0 ∧ n ≤ es.length := by
        constructor
        · intro h0; apply hc; left; simp [h0]
        · apply Nat.le_of_not_lt; intro hl; apply hc; right; exact hl
      cases hr : splitSizes ns (es.drop n) with
      | none => rw [hr] at h; simp at h
      | some r =>
        rw [hr] at h; simp at h; subst h
        obtain ⟨h1, h2⟩ := ih hr
        constructor
        · simp [h1]
        · intro t ht
          rcases List.mem_cons.mp ht with rfl | ht
          · simp
            refine ⟨hc'.1, ?_⟩
            intro h0; subst h0; simp at hc'
          · exact h2 t ht

theorem withIds_map_ents (ts : List Tbl) (is : List Nat) : (withIds ts is).map (·.ents) = ts.map (·.ents) := by
  induction ts generalizing is with
  | nil => cases is <;> simp [withIds]
  | cons t ts ih =>
    cases is with
    | nil => simp [withIds]
    | cons i is => simp [withIds, ih]


/-! ## `sortBySmallest` of pairwise separated tables -/

/-- every entry of `a` is `R`-before every entry of `b` -/
def Sep (R : Ent → Ent → Prop) (a b : Tbl) : Prop := ∀ x ∈ a.ents, ∀ y ∈ b.ents, R x y

/-- a transitive relation inside the internal-key order -/
structure SepRel (R : Ent → Ent → Prop) : Prop where
  toElt : ∀ {a b}, R a b → elt a b
  trans : ∀ {a b c}, R a b → R b c → R a c

/-- strict order on the user keys of two entries -/
def keyLt (a b : Ent) : Prop := klt a.key b.key

theorem sepRel_elt : SepRel elt := ⟨id, elt_trans⟩
theorem sepRel_keyLt : SepRel keyLt := ⟨fun h => .inl h, klt_trans⟩

theorem Sep.trans {R : Ent → Ent → Prop} (hR : SepRel R) {a b c : Tbl} (hb : b.ents ≠ [])
    (h1 : Sep R a b) (h2 : Sep R b c) : Sep R a c := by
  intro x hx z hz
  obtain ⟨y, hy⟩ := List.exists_mem_of_ne_nil _ hb
  exact hR.trans (h1 x hx y hy) (h2 y hy z hz)

theorem smallest_mem {t : Tbl} {a : Ent} (h : t.smallest = some a) : a ∈ t.ents := by
  unfold Tbl.smallest at h; exact List.mem_of_head? h

theorem smallest_some {t : Tbl} (h : t.ents ≠ []) : ∃ a, t.smallest = some a := by
  unfold Tbl.smallest
  cases ht : t.ents with
  | nil => exact absurd ht h
  | cons a _ => exact ⟨a, rfl⟩

theorem biggest_mem {t : Tbl} {a : Ent} (h : t.biggest = some a) : a ∈ t.ents := by
  unfold Tbl.biggest at h; exact List.mem_of_getLast? h

theorem biggest_some {t : Tbl} (h : t.ents ≠ []) : ∃ a, t.biggest = some a := by
  unfold Tbl.biggest
  exact ⟨t.ents.getLast h, List.getLast?_eq_some_getLast h⟩

theorem mem_insertBySmallest {t y : Tbl} {xs : List Tbl} :
    y ∈ insertBySmallest t xs ↔ y = t ∨ y ∈ xs := by
  induction xs with
  | nil => simp [insertBySmallest]
  | cons x xs ih =>
    unfold insertBySmallest
    split
    · split
      · simp only [List.mem_cons, ih]
        constructor
        · rintro (h | h | h)
          · exact .inr (.inl h)
          · exact .inl h
          · exact .inr (.inr h)
        · rintro (h | h | h)
          · exact .inr (.inl h)
          · exact .inl h
          · exact .inr (.inr h)
      · simp
    · simp only [List.mem_cons, ih]
      constructor
      · rintro (h | h | h)
        · exact .inr (.inl h)
        · exact .inl h
        · exact .inr (.inr h)
      · rintro (h | h | h)
        · exact .inr (.inl h)
        · exact .inl h
        · exact .inr (.inr h)

theorem mem_sortBySmallest {y : Tbl} {l : List Tbl} : y ∈ sortBySmallest l ↔ y ∈ l := by
  induction l with
  | nil => simp [sortBySmallest]
  | cons t l ih =>
    have : sortBySmallest (t :: l) = insertBySmallest t (sortBySmallest l) := rfl
    rw [this, mem_insertBySmallest, ih]; simp

theorem insertBySmallest_pairwise {R : Ent → Ent → Prop} (hR : SepRel R) {t : Tbl} {xs : List Tbl}
    (ht : t.ents ≠ []) (hne : ∀ x ∈ xs, x.ents ≠ []) (hp : xs.Pairwise (Sep R))
    (hs : ∀ x ∈ xs, Sep R x t ∨ Sep R t x) : (insertBySmallest t xs).Pairwise (Sep R) := by
  induction xs with
  | nil => simp [insertBySmallest]
  | cons x xs ih =>
    obtain ⟨hx, hp'⟩ := List.pairwise_cons.mp hp
    obtain ⟨a, ha⟩ := smallest_some ht
    obtain ⟨b, hb⟩ := smallest_some (hne x (by simp))
    have ham := smallest_mem ha
    have hbm := smallest_mem hb
    unfold insertBySmallest
    rw [ha, hb]
    simp only
    by_cases hc : entCmp b a = .lt
    · rw [if_pos (by simp [hc])]
      have hxt : Sep R x t := by
        rcases hs x (by simp) with h | h
        · exact h
        · exact absurd ((entCmp_lt_iff _ _).mp hc) (elt_asymm (hR.toElt (h a ham b hbm)))
      refine List.pairwise_cons.mpr ⟨?_, ih (fun y hy => hne y (List.mem_cons_of_mem _ hy)) hp'
        (fun y hy => hs y (List.mem_cons_of_mem _ hy))⟩
      intro y hy
      rcases mem_insertBySmallest.mp hy with rfl | hy
      · exact hxt
      · exact hx y hy
    · rw [if_neg (by simp [hc])]
      have htx : Sep R t x := by
        rcases hs x (by simp) with h | h
        · exact absurd ((entCmp_lt_iff _ _).mpr (hR.toElt (h b hbm a ham))) hc
        · exact h
      refine List.pairwise_cons.mpr ⟨?_, hp⟩
      intro y hy
      rcases List.mem_cons.mp hy with rfl | hy
      · exact htx
      · exact Sep.trans hR (hne x (by simp)) htx (hx y hy)

theorem sortBySmallest_pairwise {R : Ent → Ent → Prop} (hR : SepRel R) {l : List Tbl}
    (hne : ∀ x ∈ l, x.ents ≠ []) (hp : l.Pairwise (fun a b => Sep R a b ∨ Sep R b a)) :
    (sortBySmallest l).Pairwise (Sep R) := by
  induction l with
  | nil => simp [sortBySmallest]
  | cons t l ih =>
    obtain ⟨ht, hp'⟩ := List.pairwise_cons.mp hp
    have : sortBySmallest (t :: l) = insertBySmallest t (sortBySmallest l) := rfl
    rw [this]
    apply insertBySmallest_pairwise hR (hne t (by simp))
    · intro x hx; exact hne x (List.mem_cons_of_mem _ (mem_sortBySmallest.mp hx))
    · exact ih (fun x hx => hne x (List.mem_cons_of_mem _ hx)) hp'
    · intro x hx
      rcases ht x (mem_sortBySmallest.mp hx) with h | h
      · exact .inr h
      · exact .inl h


/-! ## key ranges (`keyRangeOf`, `tblOverlaps`) -/

/-- `a`'s user key is `≤` `b`'s -/
def kle (a b : Bytes) : Prop := ¬ klt b a

theorem kle_refl (a : Bytes) : kle a a := klt_irrefl a
theorem kle_of_klt {a b : Bytes} (h : klt a b) : kle a b := klt_asymm h
theorem kle_iff {a b : Bytes} : kle a b ↔ klt a b ∨ a = b := by
  unfold kle
  rcases klt_tri a b with h | h | h
  · simp [h, klt_asymm h]
  · subst h; simp [klt_irrefl]
  · simp [h, klt_asymm h]; intro e; subst e; exact klt_irrefl _ h
theorem klt_of_klt_of_kle {a b c : Bytes} (h1 : klt a b) (h2 : kle b c) : klt a c := by
  rcases kle_iff.mp h2 with h | rfl
  · exact klt_trans h1 h
  · exact h1
theorem klt_of_kle_of_klt {a b c : Bytes} (h1 : kle a b) (h2 : klt b c) : klt a c := by
  rcases kle_iff.mp h1 with h | rfl
  · exact klt_trans h h2
  · exact h2
theorem kle_trans {a b c : Bytes} (h1 : kle a b) (h2 : kle b c) : kle a c := by
  rcases kle_iff.mp h1 with h | rfl
  · exact kle_of_klt (klt_of_klt_of_kle h h2)
  · exact h2
theorem elt_kle {a b : Ent} (h : elt a b) : kle a.key b.key := by
  rcases h with h | ⟨h, _⟩
  · exact kle_of_klt h
  · rw [h]; exact kle_refl _
theorem elt_of_klt {a b : Ent} (h : klt a.key b.key) : elt a b := .inl h

theorem sorted_head {l : List Ent} (hs : SortedEnts l) {a : Ent} (ha : l.head? = some a) :
    ∀ x ∈ l, x = a ∨ elt a x := by
  cases l with
  | nil => simp at ha
  | cons y ys =>
    simp at ha; subst ha
    intro x hx
    rcases List.mem_cons.mp hx with rfl | hx
    · exact .inl rfl
    · exact .inr ((sorted_cons.mp hs).1 x hx)

theorem tbl_keys_ge_smallest {t : Tbl} (hs : SortedEnts t.ents) {a : Ent} (ha : t.smallest = some a) :
    ∀ x ∈ t.ents, kle a.key x.key := by
  intro x hx
  rcases sorted_head hs ha x hx with rfl | h
  · exact kle_refl _
  · exact elt_kle h

theorem tbl_keys_le_biggest {t : Tbl} (hs : SortedEnts t.ents) {b : Ent} (hb : t.biggest = some b) :
    ∀ x ∈ t.ents, kle x.key b.key := by
  intro x hx
  rcases sorted_getLast hs hb x hx with rfl | h
  · exact kle_refl _
  · exact elt_kle h

theorem foldl_min_spec (s : Ent) (ss : List Ent) :
    let m := ss.foldl (fun a x => if entCmp x a == .lt then x else a) s
    (m = s ∨ elt m s) ∧ ∀ x ∈ ss, ¬ elt x m := by
  induction ss generalizing s with
  | nil => simp
  | cons x ss ih =>
    simp only [List.foldl_cons]
    by_cases hc : entCmp x s = .lt
    · have hx : elt x s := (entCmp_lt_iff _ _).mp hc
      simp only [hc, beq_self_eq_true, if_true]
      obtain ⟨h1, h2⟩ := ih x
      refine ⟨?_, ?_⟩
      · rcases h1 with h1 | h1
        · right; rw [h1]; exact hx
        · right; exact elt_trans h1 hx
      · intro y hy
        rcases List.mem_cons.mp hy with rfl | hy
        · rcases h1 with h1 | h1
          · rw [h1]; exact elt_irrefl _
          · exact elt_asymm h1
        · exact h2 y hy
    · have hx : ¬ elt x s := fun h => hc ((entCmp_lt_iff _ _).mpr h)
      have : (entCmp x s == .lt) = false := by simp [hc]
      simp only [this, Bool.false_eq_true, if_false]
      obtain ⟨h1, h2⟩ := ih s
      refine ⟨h1, ?_⟩
      intro y hy
      rcases List.mem_cons.mp hy with rfl | hy
      · rcases h1 with h1 | h1
        · rw [h1]; exact hx
        · intro h; exact hx (elt_trans h h1)
      · exact h2 y hy

theorem foldl_max_spec (s : Ent) (ss : List Ent) :
    let m := ss.foldl (fun a x => if entCmp x a == .gt then x else a) s
    (m = s ∨ elt s m) ∧ ∀ x ∈ ss, ¬ elt m x := by
  induction ss generalizing s with
  | nil => simp
  | cons x ss ih =>
    simp only [List.foldl_cons]
    by_cases hc : entCmp x s = .gt
    · have hx : elt s x := (entCmp_gt_iff _ _).mp hc
      simp only [hc, beq_self_eq_true, if_true]
      obtain ⟨h1, h2⟩ := ih x
      refine ⟨?_, ?_⟩
      · rcases h1 with h1 | h1
        · right; rw [h1]; exact hx
        · right; exact elt_trans hx h1
      · intro y hy
        rcases List.mem_cons.mp hy with rfl | hy
        · rcases h1 with h1 | h1
          · rw [h1]; exact elt_irrefl _
          · exact elt_asymm h1
        · exact h2 y hy
    · have hx : ¬ elt s x := fun h => hc ((entCmp_gt_iff _ _).mpr h)
      have : (entCmp x s == .gt) = false := by simp [hc]
      simp only [this, Bool.false_eq_true, if_false]
      obtain ⟨h1, h2⟩ := ih s
      refine ⟨h1, ?_⟩
      intro y hy
      rcases List.mem_cons.mp hy with rfl | hy
      · rcases h1 with h1 | h1
        · rw [h1]; exact hx
        · intro h; exact hx (elt_trans h1 h)
      · exact h2 y hy

theorem keyRangeOf_cover {ts : List Tbl} (hok : ∀ t ∈ ts, TblOk t) {lo hi : Ent}
    (h : keyRangeOf ts = some (lo, hi)) :
    lo.ver = maxU64 ∧ hi.ver = 0 ∧ ∀ t ∈ ts, ∀ e ∈ t.ents, kle lo.key e.key ∧ kle e.key hi.key := by
  unfold keyRangeOf at h
  simp only at h
  split at h
  · rename_i s ss b bs hs hb
    have h := Option.some.inj h
    have hlo := congrArg Prod.fst h
    have hhi := congrArg Prod.snd h
    simp only at hlo hhi
    refine ⟨by rw [← hlo], by rw [← hhi], ?_⟩
    intro t ht e he
    obtain ⟨sm, hsm⟩ := smallest_some (hok t ht).1
    obtain ⟨bg, hbg⟩ := biggest_some (hok t ht).1
    have hsm' : sm ∈ s :: ss := by rw [← hs]; exact List.mem_filterMap.mpr ⟨t, ht, hsm⟩
    have hbg' : bg ∈ b :: bs := by rw [← hb]; exact List.mem_filterMap.mpr ⟨t, ht, hbg⟩
    obtain ⟨m1, m2⟩ := foldl_min_spec s ss
    obtain ⟨x1, x2⟩ := foldl_max_spec b bs
    constructor
    · rw [← hlo]; simp only
      apply kle_trans _ (tbl_keys_ge_smallest (hok t ht).2 hsm e he)
      intro hk
      rcases List.mem_cons.mp hsm' with rfl | hm
      · rcases m1 with m1 | m1
        · rw [m1] at hk; exact klt_irrefl _ hk
        · exact elt_asymm m1 (elt_of_klt hk)
      · exact m2 sm hm (elt_of_klt hk)
    · rw [← hhi]; simp only
      apply kle_trans (tbl_keys_le_biggest (hok t ht).2 hbg e he)
      intro hk
      rcases List.mem_cons.mp hbg' with rfl | hm
      · rcases x1 with x1 | x1
        · rw [x1] at hk; exact klt_irrefl _ hk
        · exact elt_asymm x1 (elt_of_klt hk)
      · exact x2 bg hm (elt_of_klt hk)
  · simp at h

theorem keyRangeOf_some {ts : List Tbl} (hok : ∀ t ∈ ts, TblOk t) (hne : ts ≠ []) :
    ∃ lo hi, keyRangeOf ts = some (lo, hi) := by
  cases ts with
  | nil => exact absurd rfl hne
  | cons t ts =>
    obtain ⟨sm, hsm⟩ := smallest_some (hok t (by simp)).1
    obtain ⟨bg, hbg⟩ := biggest_some (hok t (by simp)).1
    unfold keyRangeOf
    simp only [List.filterMap_cons, hsm, hbg]
    exact ⟨_, _, rfl⟩

theorem keyRangeOf_nil : keyRangeOf [] = none := rfl

theorem not_overlap_sides {t : Tbl} (hok : TblOk t) (hv : ∀ e ∈ t.ents, e.ver ≤ maxU64) {lo hi : Ent}
    (hlo : lo.ver = maxU64) (hhi : hi.ver = 0) (h : tblOverlaps lo hi t = false) :
    (∀ x ∈ t.ents, klt x.key lo.key) ∨ (∀ x ∈ t.ents, klt hi.key x.key) := by
  obtain ⟨sm, hsm⟩ := smallest_some hok.1
  obtain ⟨bg, hbg⟩ := biggest_some hok.1
  unfold tblOverlaps at h
  rw [hsm, hbg] at h
  simp only [Bool.and_eq_false_iff, bne_eq_false_iff_eq] at h
  rcases h with h | h
  · left
    have h' := (entCmp_gt_iff _ _).mp h
    have hk : klt bg.key lo.key := by
      rcases h' with h' | ⟨_, h'⟩
      · exact h'
      · have := hv bg (biggest_mem hbg); omega
    intro x hx
    exact klt_of_kle_of_klt (tbl_keys_le_biggest hok.2 hbg x hx) hk
  · right
    have h' := (entCmp_lt_iff _ _).mp h
    have hk : klt hi.key sm.key := by
      rcases h' with h' | ⟨_, h'⟩
      · exact h'
      · omega
    intro x hx
    exact klt_of_klt_of_kle hk (tbl_keys_ge_smallest hok.2 hsm x hx)

theorem overlap_not_left {t : Tbl} {lo hi : Ent} (h : tblOverlaps lo hi t = true) :
    ¬ (∀ x ∈ t.ents, klt x.key lo.key) := by
  unfold tblOverlaps at h
  split at h
  · rename_i s b hs hb
    simp only [Bool.and_eq_true, bne_iff_ne, ne_eq] at h
    intro hall
    exact h.1 ((entCmp_gt_iff _ _).mpr (elt_of_klt (hall b (biggest_mem hb))))
  · simp at h

theorem overlap_not_right {t : Tbl} {lo hi : Ent} (h : tblOverlaps lo hi t = true) :
    ¬ (∀ x ∈ t.ents, klt hi.key x.key) := by
  unfold tblOverlaps at h
  split at h
  · rename_i s b hs hb
    simp only [Bool.and_eq_true, bne_iff_ne, ne_eq] at h
    intro hall
    exact h.2 ((entCmp_lt_iff _ _).mpr (elt_of_klt (hall s (smallest_mem hs))))
  · simp at h

end LL

/-! ## well-formed compaction definitions -/

/-- versions fit a `uint64` -/
def VerBound (s : Lsm) : Prop := ∀ e ∈ s.allEntries, e.ver ≤ maxU64

def cdThisT (s : Lsm) (cd : CompactDef) : List Tbl := s.levels.getD cd.thisLevel []
def cdNextT (s : Lsm) (cd : CompactDef) : List Tbl := s.levels.getD cd.nextLevel []
def cdTops (s : Lsm) (cd : CompactDef) : List Tbl := pickIdx (cdThisT s cd) cd.top
def cdBots (s : Lsm) (cd : CompactDef) : List Tbl := pickIdx (cdNextT s cd) cd.bot

/-- `bot` = exactly the tables of `nextLevel` whose range intersects the range of the tops
    (`overlappingTables(thisRange)`) -/
def BotExact (s : Lsm) (cd : CompactDef) : Prop :=
  match keyRangeOf (cdTops s cd) with
  | none => cd.bot = []
  | some (lo, hi) =>
    ∀ j, j < (cdNextT s cd).length → (j ∈ cd.bot ↔ tblOverlaps lo hi ((cdNextT s cd).getD j default) = true)

/-- indices in range, `top` strictly increasing and non-empty, `bot` a contiguous run -/
def CdBase (s : Lsm) (cd : CompactDef) : Prop :=
  cd.thisLevel < s.levels.length ∧ cd.nextLevel < s.levels.length ∧
  (∀ i ∈ cd.top, i < (cdThisT s cd).length) ∧ cd.top.Pairwise (· < ·) ∧ cd.top ≠ [] ∧
  cd.bot = List.range' (cd.bot.headD 0) cd.bot.length ∧
  cd.bot.headD 0 + cd.bot.length ≤ (cdNextT s cd).length

/-- L0 → Lbase: the oldest `n` tables of L0, nothing between L0 and the base level -/
def IsL0Lbase (s : Lsm) (cd : CompactDef) : Prop :=
  cd.thisLevel = 0 ∧ 0 < cd.nextLevel ∧ cd.top = List.range cd.top.length ∧
  (∀ j, j < cd.nextLevel → 0 < j → s.levels.getD j [] = []) ∧ BotExact s cd

/-- Li → Li+1 (`i ≥ 1`): one table and the overlapping run below -/
def IsLiLnext (s : Lsm) (cd : CompactDef) : Prop :=
  1 ≤ cd.thisLevel ∧ cd.nextLevel = cd.thisLevel + 1 ∧ cd.top.length = 1 ∧ BotExact s cd

/-- L0 → L0: any subset of L0, no bottom tables -/
def IsL0L0 (_s : Lsm) (cd : CompactDef) : Prop :=
  cd.thisLevel = 0 ∧ cd.nextLevel = 0 ∧ cd.bot = []

/-- Lmax → Lmax: one table of the last level and the tables following it -/
def IsLmax (s : Lsm) (cd : CompactDef) : Prop :=
  1 ≤ cd.thisLevel ∧ cd.nextLevel = cd.thisLevel ∧ cd.thisLevel + 1 = s.levels.length ∧
  cd.top.length = 1 ∧ (cd.bot = [] ∨ cd.bot.headD 0 = cd.top.headD 0 + 1)

def CompactOk (s : Lsm) (cd : CompactDef) : Prop :=
  CdBase s cd ∧ (IsL0Lbase s cd ∨ IsLiLnext s cd ∨ IsL0L0 s cd ∨ IsLmax s cd)

/-- every boundary between two consecutive output tables separates different user keys
    (`addKeys` only breaks a table when the user key changes) -/
def CutsAtKeyChange : List Tbl → Prop
  | a :: b :: rest =>
    (∀ x y, a.biggest = some x → b.smallest = some y → x.key ≠ y.key) ∧ CutsAtKeyChange (b :: rest)
  | _ => True

instance (s : Lsm) : Decidable (VerBound s) := by unfold VerBound; infer_instance
instance (s : Lsm) (cd : CompactDef) : Decidable (BotExact s cd) := by
  unfold BotExact; split <;> infer_instance
instance (s : Lsm) (cd : CompactDef) : Decidable (CdBase s cd) := by unfold CdBase; infer_instance
instance (s : Lsm) (cd : CompactDef) : Decidable (IsL0Lbase s cd) := by unfold IsL0Lbase; infer_instance
instance (s : Lsm) (cd : CompactDef) : Decidable (IsLiLnext s cd) := by unfold IsLiLnext; infer_instance
instance (s : Lsm) (cd : CompactDef) : Decidable (IsL0L0 s cd) := by unfold IsL0L0; infer_instance
instance (s : Lsm) (cd : CompactDef) : Decidable (IsLmax s cd) := by unfold IsLmax; infer_instance
instance (s : Lsm) (cd : CompactDef) : Decidable (CompactOk s cd) := by unfold CompactOk; infer_instance

namespace LL

theorem flatten_sorted_iff (tbls : List Tbl) :
    SortedEnts (tbls.map (·.ents)).flatten ↔ (∀ t ∈ tbls, SortedEnts t.ents) ∧ tbls.Pairwise (Sep elt) := by
  rw [sorted_iff, List.pairwise_flatten, List.pairwise_map]
  constructor
  · rintro ⟨h1, h2⟩
    exact ⟨fun t ht => (sorted_iff _).mpr (h1 _ (List.mem_map.mpr ⟨t, ht, rfl⟩)), h2⟩
  · rintro ⟨h1, h2⟩
    refine ⟨?_, h2⟩
    intro l hl
    obtain ⟨t, ht, rfl⟩ := List.mem_map.mp hl
    exact (sorted_iff _).mp (h1 t ht)

theorem keyDisjoint_iff (tbls : List Tbl) : KeyDisjoint tbls ↔ tbls.Pairwise (Sep keyLt) := Iff.rfl

theorem Sep.keyLt_elt {a b : Tbl} (h : Sep keyLt a b) : Sep elt a b :=
  fun x hx y hy => .inl (h x hx y hy)

/-- entries of the tables a compaction reads -/
def topEnts (s : Lsm) (cd : CompactDef) : List Ent := ((cdTops s cd).map (·.ents)).flatten
def botEnts (s : Lsm) (cd : CompactDef) : List Ent := ((cdBots s cd).map (·.ents)).flatten

/-- the level lists after a compaction -/
def newNext (s : Lsm) (cd : CompactDef) (new0 : List Tbl) : List Tbl :=
  sortBySmallest (removeIdx (cdNextT s cd) (if cd.thisLevel = cd.nextLevel then cd.top ++ cd.bot else cd.bot) ++
    withIds new0 cd.outIds)
def newLevels (s : Lsm) (cd : CompactDef) (new0 : List Tbl) : List (List Tbl) :=
  if cd.thisLevel = cd.nextLevel then s.levels.set cd.nextLevel (newNext s cd new0)
  else (s.levels.set cd.nextLevel (newNext s cd new0)).set cd.thisLevel (removeIdx (cdThisT s cd) cd.top)

theorem compact_some {s s' : Lsm} {cd : CompactDef} {d n now : Nat} (h : s.compact cd d n now = some s') :
    ∃ new0, splitSizes cd.outSizes (compactOutput s cd d n now).1 = some new0 ∧
      s' = { s with levels := newLevels s cd new0 } := by
  unfold Lsm.compact at h
  simp only at h
  cases hsp : splitSizes cd.outSizes (compactOutput s cd d n now).1 with
  | none => rw [hsp] at h; simp at h
  | some new0 =>
    rw [hsp] at h
    refine ⟨new0, rfl, ?_⟩
    simp only at h
    unfold newLevels newNext cdNextT cdThisT
    by_cases hc : cd.thisLevel = cd.nextLevel
    · rw [if_pos hc, if_pos hc]
      have : (cd.thisLevel == cd.nextLevel) = true := by simpa using hc
      rw [if_pos this] at h
      rw [← hc]
      exact (Option.some.inj h).symm
    · rw [if_neg hc, if_neg hc]
      have : ¬ (cd.thisLevel == cd.nextLevel) = true := by simpa using hc
      rw [if_neg this] at h
      exact (Option.some.inj h).symm

theorem mem_compactOutput {s : Lsm} {cd : CompactDef} {d n now : Nat} {e : Ent}
    (h : e ∈ (compactOutput s cd d n now).1) : e ∈ topEnts s cd ∨ e ∈ botEnts s cd := by
  unfold compactOutput at h
  simp only at h
  have h1 := C12_merge_mem_flatten (C12_filter_mem h)
  rw [List.flatten_append] at h1
  rcases List.mem_append.mp h1 with h2 | h2
  · left
    unfold topEnts cdTops cdThisT
    split at h2
    · rw [List.mem_flatten] at h2 ⊢
      obtain ⟨l, hl, hel⟩ := h2
      obtain ⟨t, ht, rfl⟩ := List.mem_map.mp hl
      exact ⟨t.ents, List.mem_map.mpr ⟨t, List.mem_reverse.mp ht, rfl⟩, hel⟩
    · exact h2
  · right
    unfold botEnts cdBots cdNextT
    simp only [List.flatten_cons, List.flatten_nil, List.append_nil] at h2
    rw [List.mem_flatten] at h2 ⊢
    obtain ⟨l, hl, hel⟩ := h2
    obtain ⟨t, ht, rfl⟩ := List.mem_map.mp hl
    exact ⟨t.ents, List.mem_map.mpr ⟨t, (List.mem_filter.mp ht).1, rfl⟩, hel⟩

theorem compactOutput_sorted {s : Lsm} {cd : CompactDef} (d n now : Nat)
    (ht : ∀ t ∈ cdTops s cd, SortedEnts t.ents) (hb : SortedEnts (botEnts s cd)) :
    SortedEnts (compactOutput s cd d n now).1 := by
  unfold compactOutput
  simp only
  apply C12_filter_sorted
  apply C12_merge_sorted
  intro src hsrc
  rcases List.mem_append.mp hsrc with h | h
  · split at h
    · obtain ⟨t, ht', rfl⟩ := List.mem_map.mp h
      exact ht t (List.mem_reverse.mp ht')
    · obtain ⟨t, ht', rfl⟩ := List.mem_map.mp h
      exact ht t ht'
  · simp only [List.mem_singleton] at h
    subst h
    unfold botEnts at hb
    rw [flatten_sorted_iff] at hb ⊢
    exact ⟨fun t ht' => hb.1 t (List.mem_filter.mp ht').1, hb.2.sublist List.filter_sublist⟩

end LL
end Badger
