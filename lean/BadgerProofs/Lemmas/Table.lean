import BadgerModel.Table
import BadgerProofs.Lemmas.BlockSeek
/-!
Builder side of C18: the block under construction equals the block specification
(`blockData`, `blockOffs`), `finishBlock` ∘ `parseBlock` round trip, and the partition of
the input into blocks.
-/
namespace Badger.Tbl
open Badger

/-! ## The block under construction -/

def specBlock (es : List Entry) : BBlock :=
  { data := blockData es, baseKey := baseOf es, entryOffsets := (blockOffs es).map u32 }

theorem specBlock_nil : specBlock [] = {} := rfl

theorem blockData_append (e0 : Entry) (r : List Entry) (e : Entry) :
    blockData (e0 :: (r ++ [e])) = blockData (e0 :: r) ++ entryChunk e0.key e := by
  have := chunks_append e0 r e
  rw [List.cons_append] at this
  simp [blockData, this]

theorem blockOffs_append (e0 : Entry) (r : List Entry) (e : Entry) :
    blockOffs (e0 :: (r ++ [e])) = blockOffs (e0 :: r) ++ [(blockData (e0 :: r)).length] := by
  have := chunks_append e0 r e
  rw [List.cons_append] at this
  unfold blockOffs blockData
  rw [this, offsFrom_append]; simp

/-- `addEntry` extends the specification block by one entry; the two asserts are the
    `uint16` bounds on overlap and diff. -/
theorem addEntry_spec (es : List Entry) (e : Entry) (hb : es = [] ∨ baseOf es ≠ [])
    (cur : BBlock) (h : (specBlock es).addEntry e.key e.vs = some cur) :
    cur = specBlock (es ++ [e]) := by
  unfold BBlock.addEntry at h
  cases es with
  | nil =>
    simp only [specBlock, blockData, blockOffs, chunks, baseOf, offsFrom, List.flatten_nil,
      List.length_nil, if_true, List.map_nil, List.nil_append] at h
    split at h
    · cases h
    · split at h
      · cases h
      · simp only [Option.some.injEq] at h
        rw [← h]
        simp [specBlock, blockData, blockOffs, chunks, baseOf, offsFrom, entryChunk]
  | cons e0 r =>
    have hne : ¬ (e0.key.length = 0) := by
      rcases hb with hb | hb
      · cases hb
      · intro h0; apply hb; simpa [baseOf] using List.eq_nil_of_length_eq_zero h0
    simp only [specBlock, baseOf, hne, if_false] at h
    split at h
    · cases h
    · split at h
      · cases h
      · simp only [Option.some.injEq] at h
        rw [← h]
        simp only [specBlock, List.cons_append, blockData_append, blockOffs_append, baseOf,
          List.map_append, List.map_cons, List.map_nil, entryChunk, hne, if_false,
          List.append_assoc]

theorem blockOffs_map_u32 (es : List Entry) (h : (blockData es).length < 4294967296) :
    (blockOffs es).map u32 = blockOffs es := by
  have hle := offsFrom_le 0 (chunks es)
  have : ∀ x ∈ blockOffs es, u32 x = x := by
    intro x hx
    have := hle x hx
    unfold u32
    apply Nat.mod_eq_of_lt
    simp only [Nat.zero_add] at this
    unfold blockData at h
    omega
  calc (blockOffs es).map u32 = (blockOffs es).map id := List.map_congr_left this
    _ = blockOffs es := by simp

/-! ## `finishBlock` then `Table.block`'s tail parsing -/

theorem beNat_be4 (n : Nat) (h : n < 4294967296) : beNat (beBytes n 4) = n :=
  beNat_beBytes n 4 (by simpa using h)

theorem parseBlock_finish (cksum : Bytes → Bytes) (verify : Bytes → Bytes → Bool) (chk : Bool)
    (hv : ∀ d, verify d (cksum d) = true) (cur : BBlock)
    (hoffs : ∀ x ∈ cur.entryOffsets, x < 4294967296)
    (hsize : (cur.finish cksum).length < 4294967296) :
    ∃ b, parseBlock chk verify (cur.finish cksum) = .ok b ∧
      slice b.data 0 b.entriesIndexStart = some cur.data ∧ b.entryOffsets = cur.entryOffsets ∧
      verify b.data b.checksum = true := by
  unfold BBlock.finish at hsize ⊢
  generalize hd1 : cur.data ++ u32sLE cur.entryOffsets ++ beBytes (u32 cur.entryOffsets.length) 4 = d1 at hsize ⊢
  simp only at hsize ⊢
  generalize hck : cksum d1 = ck at hsize ⊢
  have hlen : (d1 ++ ck ++ beBytes (u32 ck.length) 4).length = d1.length + ck.length + 4 := by
    simp; omega
  have hd1len : d1.length = cur.data.length + 4 * cur.entryOffsets.length + 4 := by
    rw [← hd1]; simp [u32sLE_length]; omega
  rw [hlen] at hsize
  have hckl : u32 ck.length = ck.length := by unfold u32; omega
  have hnl : u32 cur.entryOffsets.length = cur.entryOffsets.length := by unfold u32; omega
  unfold parseBlock
  rw [hlen]
  have h1 : ¬ (d1.length + ck.length + 4 < 4) := by omega
  simp only [h1, if_false, Nat.add_sub_cancel]
  have hdrop : (d1 ++ ck ++ beBytes (u32 ck.length) 4).drop (d1.length + ck.length) =
      beBytes (u32 ck.length) 4 := by
    rw [List.drop_append_of_le_length (by simp)]
    simp
  rw [hdrop, hckl, beNat_be4 _ (by omega)]
  have h2 : ¬ (ck.length > d1.length + ck.length + 4) := by omega
  have h3 : ¬ (d1.length + ck.length < ck.length) := by omega
  simp only [h2, h3, if_false, Nat.add_sub_cancel]
  have h4 : ¬ (d1.length < 4) := by omega
  simp only [h4, if_false]
  have h44 : d1.length - 4 + 4 = d1.length := by omega
  rw [h44]
  have htake1 : (d1 ++ ck ++ beBytes ck.length 4).take (d1.length + ck.length) = d1 ++ ck := by
    rw [List.take_append_of_le_length (by simp)]
    exact List.take_of_length_le (by simp)
  have htake2 : (d1 ++ ck ++ beBytes ck.length 4).take d1.length = d1 := by
    rw [List.append_assoc, List.take_append_of_le_length (by simp)]
    exact List.take_of_length_le (by simp)
  rw [htake1, htake2]
  have hck' : (d1 ++ ck).drop d1.length = ck := by simp
  rw [hck']
  have hnum : (d1.drop (d1.length - 4)) = beBytes (u32 cur.entryOffsets.length) 4 := by
    have hl : d1.length - 4 = (cur.data ++ u32sLE cur.entryOffsets).length := by
      simp [u32sLE_length]; omega
    rw [hl, ← hd1, List.drop_left]
  rw [hnum, hnl, beNat_be4 _ (by omega)]
  have h5 : ¬ (d1.length - 4 < cur.entryOffsets.length * 4) := by omega
  simp only [h5, if_false]
  have heis : d1.length - 4 - cur.entryOffsets.length * 4 = cur.data.length := by omega
  rw [heis]
  have htake3 : (d1 ++ ck ++ beBytes ck.length 4).take (d1.length - 4) =
      cur.data ++ u32sLE cur.entryOffsets := by
    rw [List.append_assoc, List.take_append_of_le_length (by omega), ← hd1]
    rw [List.take_append_of_le_length (by simp [u32sLE_length]; omega)]
    exact List.take_of_length_le (by simp [u32sLE_length]; omega)
  rw [htake3]
  have hoffs' : bytesToU32s ((cur.data ++ u32sLE cur.entryOffsets).drop cur.data.length) = cur.entryOffsets := by
    simp [bytesToU32s_u32sLE _ hoffs]
  rw [hoffs']
  have hver : verify d1 ck = true := by rw [← hck]; exact hv d1
  simp only [hver, Bool.not_true, Bool.and_false, Bool.false_eq_true, if_false]
  refine ⟨_, rfl, ?_, rfl, hver⟩
  simp only
  rw [← hd1, List.append_assoc]
  exact slice_prefix _ _ _ rfl

end Badger.Tbl
