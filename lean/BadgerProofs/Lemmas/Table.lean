import BadgerModel.Table
import BadgerProofs.Lemmas.BlockSeek
/-!
Builder side of C18: the block under construction equals the block specification
(`blockData`, `blockOffs`), `finishBlock` ∘ `parseBlock` round trip, and the partition of
the input into blocks.
-/
namespace Badger.Tbl
open Badger

/-! ## The block under construction -/

def specBlock (es : List Entry) : BBlock :=
  { data := blockData es, baseKey := baseOf es, entryOffsets := (blockOffs es).map u32 }

theorem specBlock_nil : specBlock [] = {} := rfl

theorem blockData_append (e0 : Entry) (r : List Entry) (e : Entry) :
    blockData (e0 :: (r ++ [e])) = blockData (e0 :: r) ++ entryChunk e0.key e := by
  have := chunks_append e0 r e
  rw [List.cons_append] at this
  simp [blockData, this]

theorem blockOffs_append (e0 : Entry) (r : List Entry) (e : Entry) :
    blockOffs (e0 :: (r ++ [e])) = blockOffs (e0 :: r) ++ [(blockData (e0 :: r)).length] := by
  have := chunks_append e0 r e
  rw [List.cons_append] at this
  unfold blockOffs blockData
  rw [this, offsFrom_append]; simp

/-- `addEntry` extends the specification block by one entry; the two asserts are the
    `uint16` bounds on overlap and diff. -/
theorem addEntry_spec (es : List Entry) (e : Entry) (hb : es = [] ∨ baseOf es ≠ [])
    (cur : BBlock) (h : (specBlock es).addEntry e.key e.vs = some cur) :
    cur = specBlock (es ++ [e]) := by
  unfold BBlock.addEntry at h
  cases es with
  | nil =>
    simp only [specBlock, blockData, blockOffs, chunks, baseOf, offsFrom, List.flatten_nil,
      List.length_nil, if_true, List.map_nil, List.nil_append] at h
    split at h
    · cases h
    · split at h
      · cases h
      · simp only [Option.some.injEq] at h
        rw [← h]
        simp [specBlock, blockData, blockOffs, chunks, baseOf, offsFrom, entryChunk]
  | cons e0 r =>
    have hne : ¬ (e0.key.length = 0) := by
      rcases hb with hb | hb
      · cases hb
      · intro h0; apply hb; simpa [baseOf] using List.eq_nil_of_length_eq_zero h0
    simp only [specBlock, baseOf, hne, if_false] at h
    split at h
    · cases h
    · split at h
      · cases h
      · simp only [Option.some.injEq] at h
        rw [← h]
        simp only [specBlock, List.cons_append, blockData_append, blockOffs_append, baseOf,
          List.map_append, List.map_cons, List.map_nil, entryChunk, hne, if_false,
          List.append_assoc]

theorem blockOffs_map_u32 (es : List Entry) (h : (blockData es).length < 4294967296) :
    (blockOffs es).map u32 = blockOffs es := by
  have hle := offsFrom_le 0 (chunks es)
  have : ∀ x ∈ blockOffs es, u32 x = x := by
    intro x hx
    have := hle x hx
    unfold u32
    apply Nat.mod_eq_of_lt
    simp only [Nat.zero_add] at this
    unfold blockData at h
    omega
  calc (blockOffs es).map u32 = (blockOffs es).map id := List.map_congr_left this
    _ = blockOffs es := by simp

/-! ## `finishBlock` then `Table.block`'s tail parsing -/

theorem beNat_be4 (n : Nat) (h : n < 4294967296) : beNat (beBytes n 4) = n :=
  beNat_beBytes n 4 (by simpa using h)

theorem parseBlock_finish (cksum : Bytes → Bytes) (verify : Bytes → Bytes → Bool) (chk : Bool)
    (hv : ∀ d, verify d (cksum d) = true) (cur : BBlock)
    (hoffs : ∀ x ∈ cur.entryOffsets, x < 4294967296)
    (hsize : (cur.finish cksum).length < 4294967296) :
    ∃ b, parseBlock chk verify (cur.finish cksum) = .ok b ∧
      slice b.data 0 b.entriesIndexStart = some cur.data ∧ b.entryOffsets = cur.entryOffsets ∧
      verify b.data b.checksum = true := by
  unfold BBlock.finish at hsize ⊢
  generalize hd1 : cur.data ++ u32sLE cur.entryOffsets ++ beBytes (u32 cur.entryOffsets.length) 4 = d1 at hsize ⊢
  simp only at hsize ⊢
  generalize hck : cksum d1 = ck at hsize ⊢
  have hlen : (d1 ++ ck ++ beBytes (u32 ck.length) 4).length = d1.length + ck.length + 4 := by
    simp; omega
  have hd1len : d1.length = cur.data.length + 4 * cur.entryOffsets.length + 4 := by
    rw [← hd1]; simp [u32sLE_length]; omega
  rw [hlen] at hsize
  have hckl : u32 ck.length = ck.length := by unfold u32; omega
  have hnl : u32 cur.entryOffsets.length = cur.entryOffsets.length := by unfold u32; omega
  unfold parseBlock
  rw [hlen]
  have h1 : ¬ (d1.length + ck.length + 4 < 4) := by omega
  simp only [h1, if_false, Nat.add_sub_cancel]
  have hdrop : (d1 ++ ck ++ beBytes (u32 ck.length) 4).drop (d1.length + ck.length) =
      beBytes (u32 ck.length) 4 := by
    rw [List.drop_append_of_le_length (by simp)]
    simp
  rw [hdrop, hckl, beNat_be4 _ (by omega)]
  have h2 : ¬ (ck.length > d1.length + ck.length + 4) := by omega
  have h3 : ¬ (d1.length + ck.length < ck.length) := by omega
  simp only [h2, h3, if_false, Nat.add_sub_cancel]
  have h4 : ¬ (d1.length < 4) := by omega
  simp only [h4, if_false]
  have h44 : d1.length - 4 + 4 = d1.length := by omega
  rw [h44]
  have htake1 : (d1 ++ ck ++ beBytes ck.length 4).take (d1.length + ck.length) = d1 ++ ck := by
    rw [List.take_append_of_le_length (by simp)]
    exact List.take_of_length_le (by simp)
  have htake2 : (d1 ++ ck ++ beBytes ck.length 4).take d1.length = d1 := by
    rw [List.append_assoc, List.take_append_of_le_length (by simp)]
    exact List.take_of_length_le (by simp)
  rw [htake1, htake2]
  have hck' : (d1 ++ ck).drop d1.length = ck := by simp
  rw [hck']
  have hnum : (d1.drop (d1.length - 4)) = beBytes (u32 cur.entryOffsets.length) 4 := by
    have hl : d1.length - 4 = (cur.data ++ u32sLE cur.entryOffsets).length := by
      simp [u32sLE_length]; omega
    rw [hl, ← hd1, List.drop_left]
  rw [hnum, hnl, beNat_be4 _ (by omega)]
  have h5 : ¬ (d1.length - 4 < cur.entryOffsets.length * 4) := by omega
  simp only [h5, if_false]
  have heis : d1.length - 4 - cur.entryOffsets.length * 4 = cur.data.length := by omega
  rw [heis]
  have htake3 : (d1 ++ ck ++ beBytes ck.length 4).take (d1.length - 4) =
      cur.data ++ u32sLE cur.entryOffsets := by
    rw [List.append_assoc, List.take_append_of_le_length (by omega), ← hd1]
    rw [List.take_append_of_le_length (by simp [u32sLE_length]; omega)]
    exact List.take_of_length_le (by simp [u32sLE_length]; omega)
  rw [htake3]
  have hoffs' : bytesToU32s ((cur.data ++ u32sLE cur.entryOffsets).drop cur.data.length) = cur.entryOffsets := by
    simp [bytesToU32s_u32sLE _ hoffs]
  rw [hoffs']
  have hver : verify d1 ck = true := by rw [← hck]; exact hv d1
  simp only [hver, Bool.not_true, Bool.and_false, Bool.false_eq_true, if_false]
  refine ⟨_, rfl, ?_, rfl, hver⟩
  simp only
  rw [← hd1, List.append_assoc]
  exact slice_prefix _ _ _ rfl

/-! ## Builder invariant: the partition of the input into blocks -/

def finishedOf (env : Env) (g : List Entry) : BBlock × Bytes :=
  (specBlock g, (specBlock g).finish env.cksum)

def maxVersionOf (es : List Entry) : Nat := es.foldl (fun m e => if parseTs e.key > m then parseTs e.key else m) 0

structure BuilderInv (env : Env) (b : Builder) (done : List (List Entry)) (cur : List Entry) : Prop where
  cur_eq : b.cur = specBlock cur
  blocks : b.blockList = done.map (finishedOf env)
  done_ne : ∀ g ∈ done, g ≠ []
  base_ok : cur = [] ∨ baseOf cur ≠ []
  hashes : b.keyHashes = (done.flatten ++ cur).map (fun e => env.hash (parseKey e.key))
  maxv : b.maxVersion = maxVersionOf (done.flatten ++ cur)

theorem specBlock_offs_length (es : List Entry) : (specBlock es).entryOffsets.length = es.length := by
  simp [specBlock, blockOffs]

theorem maxVersionOf_append (es : List Entry) (e : Entry) :
    maxVersionOf (es ++ [e]) =
      if parseTs e.key > maxVersionOf es then parseTs e.key else maxVersionOf es := by
  simp [maxVersionOf, List.foldl_append]

theorem addHelper_inv {env : Env} {b b' : Builder} {done : List (List Entry)} {cur : List Entry}
    (inv : BuilderInv env b done cur) (e : Entry) (hk : e.key ≠ [])
    (h : b.addHelper env e.key e.vs 0 = some b') :
    BuilderInv env b' done (cur ++ [e]) := by
  unfold Builder.addHelper at h
  cases hadd : b.cur.addEntry e.key e.vs with
  | none => simp [hadd] at h
  | some c =>
    simp only [hadd, Option.some.injEq] at h
    rw [inv.cur_eq] at hadd
    have hc := addEntry_spec cur e inv.base_ok c hadd
    subst h
    refine ⟨hc, inv.blocks, inv.done_ne, ?_, ?_, ?_⟩
    · right
      cases cur with
      | nil => simpa [baseOf] using hk
      | cons e0 r =>
        rcases inv.base_ok with h | h
        · cases h
        · simpa [baseOf] using h
    · simp [inv.hashes]
    · show (if parseTs e.key > b.maxVersion then parseTs e.key else b.maxVersion) = _
      rw [inv.maxv, ← List.append_assoc, maxVersionOf_append]

theorem finishBlock_inv {env : Env} {b : Builder} {done : List (List Entry)} {cur : List Entry}
    (inv : BuilderInv env b done cur) (hne : cur ≠ []) :
    (b.finishBlock env).blockList = (done ++ [cur]).map (finishedOf env) ∧
    (b.finishBlock env).keyHashes = b.keyHashes ∧ (b.finishBlock env).maxVersion = b.maxVersion := by
  unfold Builder.finishBlock
  have : ¬ (b.cur.entryOffsets.length = 0) := by
    rw [inv.cur_eq, specBlock_offs_length]
    intro h; exact hne (List.eq_nil_of_length_eq_zero h)
  rw [if_neg this]
  refine ⟨?_, rfl, rfl⟩
  simp [inv.blocks, inv.cur_eq, finishedOf]

theorem finishBlock_nil {env : Env} {b : Builder} {done : List (List Entry)}
    (inv : BuilderInv env b done []) : b.finishBlock env = b := by
  unfold Builder.finishBlock
  have : b.cur.entryOffsets.length = 0 := by rw [inv.cur_eq, specBlock_offs_length]; rfl
  simp [this]

theorem add_inv {env : Env} {o : Opts} {b b' : Builder} {done : List (List Entry)} {cur : List Entry}
    (inv : BuilderInv env b done cur) (e : Entry) (hk : e.key ≠ [])
    (h : b.add env o e.key e.vs 0 = some b') :
    ∃ done' cur', BuilderInv env b' done' cur' ∧ cur' ≠ [] ∧
      done'.flatten ++ cur' = done.flatten ++ cur ++ [e] := by
  unfold Builder.add at h
  simp only [Bool.false_eq_true, if_false] at h
  cases hs : shouldFinishBlock o.blockSize o.encrypt b.cur e.key e.vs with
  | none => simp [hs] at h
  | some fin =>
    cases fin with
    | false =>
      simp only [hs] at h
      exact ⟨done, cur ++ [e], addHelper_inv inv e hk h, by simp, by simp⟩
    | true =>
      simp only [hs] at h
      have hne : cur ≠ [] := by
        intro hc
        unfold shouldFinishBlock at hs
        have : b.cur.entryOffsets.length = 0 := by
          rw [inv.cur_eq, specBlock_offs_length, hc]; rfl
        simp [this] at hs
      obtain ⟨hbl, hkh, hmv⟩ := finishBlock_inv inv hne
      have inv2 : BuilderInv env ({ (b.finishBlock env) with cur := {} } : Builder) (done ++ [cur]) [] := by
        refine ⟨rfl, hbl, ?_, Or.inl rfl, ?_, ?_⟩
        · intro g hg
          rcases List.mem_append.mp hg with hg | hg
          · exact inv.done_ne g hg
          · simp at hg; subst hg; exact hne
        · show (b.finishBlock env).keyHashes = _
          rw [hkh, inv.hashes]; simp
        · show (b.finishBlock env).maxVersion = _
          rw [hmv, inv.maxv]; simp
      have := addHelper_inv inv2 e hk h
      exact ⟨done ++ [cur], [e], by simpa using this, by simp, by simp⟩

theorem addAll_inv {env : Env} {o : Opts} : ∀ (es : List Entry) {b b' : Builder}
    {done : List (List Entry)} {cur : List Entry},
    BuilderInv env b done cur → (∀ e ∈ es, e.key ≠ []) → Builder.addAll env o b es = some b' →
    ∃ done' cur', BuilderInv env b' done' cur' ∧ (es ≠ [] → cur' ≠ []) ∧
      done'.flatten ++ cur' = done.flatten ++ cur ++ es := by
  intro es
  induction es with
  | nil =>
    intro b b' done cur inv _ h
    simp only [Builder.addAll, Option.some.injEq] at h
    subst h
    exact ⟨done, cur, inv, by simp, by simp⟩
  | cons e es ih =>
    intro b b' done cur inv hk h
    simp only [Builder.addAll] at h
    cases hadd : b.add env o e.key e.vs 0 with
    | none => simp [hadd] at h
    | some b1 =>
      simp only [hadd] at h
      obtain ⟨d1, c1, inv1, hne1, hfl1⟩ := add_inv inv e (hk e (by simp)) hadd
      obtain ⟨d2, c2, inv2, hne2, hfl2⟩ := ih inv1 (fun x hx => hk x (by simp [hx])) h
      refine ⟨d2, c2, inv2, ?_, ?_⟩
      · intro _
        cases es with
        | nil =>
          simp only [Builder.addAll, Option.some.injEq] at h
          subst h
          -- same builder: the invariants determine cur through the block spec
          have h1 := inv1.cur_eq
          have h2 := inv2.cur_eq
          intro hc2
          rw [hc2] at h2
          rw [h1] at h2
          have := congrArg (fun x => x.entryOffsets.length) h2
          simp only [specBlock_offs_length] at this
          exact hne1 (List.eq_nil_of_length_eq_zero this)
        | cons x xs => exact hne2 (by simp)
      · rw [hfl2, hfl1]; simp

/-! ## From the built file to `Table.block` -/

/-- What the iterators need to know about an opened table: block `j` reads back as the
    specification block of the `j`-th group of entries. -/
structure TableOK (env : Env) (t : TableCore) (G : List (List Entry)) : Prop where
  nb : t.offsetsLength = G.length
  blocks : ∀ (j : Nat) g, G[j]? = some g → ∃ b, t.block env (j : Int) = .ok b ∧
      slice b.data 0 b.entriesIndexStart = some (blockData g) ∧ b.entryOffsets = blockOffs g ∧
      env.verify b.data b.checksum = true
  keys : ∀ (j : Nat) g, G[j]? = some g → ∃ ko, t.file.index.offsets[j]? = some ko ∧ ko.key = baseOf g
  wf : ∀ g ∈ G, BlockWF g

theorem u32_of_lt {n : Nat} (h : n < 4294967296) : u32 n = n := Nat.mod_eq_of_lt h

theorem blockOffsets_length (start : Nat) (st : List (Bytes × Bytes)) :
    (blockOffsets start st).length = st.length := by
  induction st generalizing start with
  | nil => rfl
  | cons p rest ih => obtain ⟨k, s⟩ := p; simp [blockOffsets, ih]

theorem blockOffsets_get (st : List (Bytes × Bytes)) : ∀ (pre : Bytes) (j : Nat) (p : Bytes × Bytes),
    st[j]? = some p → (pre ++ (st.map (·.2)).flatten).length < 4294967296 →
    ∃ ko, (blockOffsets pre.length st)[j]? = some ko ∧ ko.key = p.1 ∧ ko.len = p.2.length ∧
      ko.offset + ko.len ≤ (pre ++ (st.map (·.2)).flatten).length ∧
      ((pre ++ (st.map (·.2)).flatten).drop ko.offset).take ko.len = p.2 := by
  induction st with
  | nil => intro pre j p h; simp at h
  | cons q rest ih =>
    obtain ⟨k, s⟩ := q
    intro pre j p h hsz
    simp only [List.map_cons, List.flatten_cons, List.length_append] at hsz
    have hs : u32 s.length = s.length := u32_of_lt (by omega)
    have hps : u32 (pre.length + s.length) = (pre ++ s).length := by
      rw [u32_of_lt (by omega)]; simp
    cases j with
    | zero =>
      simp only [List.getElem?_cons_zero, Option.some.injEq] at h
      subst h
      refine ⟨⟨k, pre.length, u32 s.length⟩, by simp [blockOffsets], rfl, hs, ?_, ?_⟩
      · simp only [hs, List.length_append, List.map_cons, List.flatten_cons]; omega
      · simp [hs]
    | succ j =>
      simp only [List.getElem?_cons_succ] at h
      have := ih (pre ++ s) j p h (by simp only [List.length_append]; omega)
      obtain ⟨ko, h1, h2, h3, h4, h5⟩ := this
      refine ⟨ko, ?_, h2, h3, ?_, ?_⟩
      · simp only [blockOffsets, List.getElem?_cons_succ, hs, hps]; exact h1
      · simpa [List.append_assoc] using h4
      · simpa [List.append_assoc] using h5

theorem storeAll_get (env : Env) (o : Opts) (bl : List (BBlock × Bytes)) : ∀ (i j : Nat) (q : BBlock × Bytes),
    bl[j]? = some q → (storeAll env o i bl)[j]? = some (q.1.baseKey, storeBlock env o (i + j) q.2) := by
  induction bl with
  | nil => intro i j q h; simp at h
  | cons x rest ih =>
    obtain ⟨bb, bytes⟩ := x
    intro i j q h
    cases j with
    | zero =>
      simp only [List.getElem?_cons_zero, Option.some.injEq] at h
      subst h; simp [storeAll]
    | succ j =>
      simp only [List.getElem?_cons_succ] at h
      have := ih (i + 1) j q h
      simp only [storeAll, List.getElem?_cons_succ]
      rw [this]
      have : i + 1 + j = i + (j + 1) := by omega
      rw [this]

theorem storeAll_length (env : Env) (o : Opts) (bl : List (BBlock × Bytes)) (i : Nat) :
    (storeAll env o i bl).length = bl.length := by
  induction bl generalizing i with
  | nil => rfl
  | cons x rest ih => obtain ⟨bb, bytes⟩ := x; simp [storeAll, ih]

def entriesSize (es : List Entry) : Nat :=
  (es.map (fun e => 4 + e.key.length + (encVS e.vs).length)).sum

theorem entryChunk_length_le (base : Bytes) (e : Entry) :
    (entryChunk base e).length ≤ 4 + e.key.length + (encVS e.vs).length := by
  unfold entryChunk
  simp only [List.length_append, hdr_length]
  split
  · omega
  · have : (keyDiff e.key base).length ≤ e.key.length := by simp [keyDiff]
    omega

theorem blockData_length_le (g : List Entry) : (blockData g).length ≤ entriesSize g := by
  cases g with
  | nil => simp [blockData, chunks]
  | cons e0 r =>
    simp only [blockData, chunks, List.flatten_cons, List.length_append, entriesSize, List.map_cons,
      List.sum_cons]
    have h0 := entryChunk_length_le [] e0
    have : ∀ (l : List Entry), ((l.map (entryChunk e0.key)).flatten).length ≤
        (l.map (fun e => 4 + e.key.length + (encVS e.vs).length)).sum := by
      intro l
      induction l with
      | nil => simp
      | cons x xs ih =>
        have := entryChunk_length_le e0.key x
        simp only [List.map_cons, List.flatten_cons, List.length_append, List.sum_cons]
        omega
    have := this r
    omega

theorem entriesSize_append (a b : List Entry) : entriesSize (a ++ b) = entriesSize a + entriesSize b := by
  simp [entriesSize]

theorem entriesSize_mem_flatten {G : List (List Entry)} {g : List Entry} (h : g ∈ G) :
    entriesSize g ≤ entriesSize G.flatten ∧ g.length ≤ G.flatten.length := by
  induction G with
  | nil => simp at h
  | cons x xs ih =>
    simp only [List.flatten_cons, entriesSize_append, List.length_append]
    rcases List.mem_cons.mp h with h | h
    · subst h; omega
    · have := ih h; omega

theorem finish_length (cksum : Bytes → Bytes) (cur : BBlock) :
    (cur.finish cksum).length = cur.data.length + 4 * cur.entryOffsets.length + 4 +
      (cksum (cur.data ++ u32sLE cur.entryOffsets ++ beBytes (u32 cur.entryOffsets.length) 4)).length + 4 := by
  simp [BBlock.finish, u32sLE_length]; omega

/-- The table produced by `Done` reads back block by block as the groups of the builder. -/
theorem done_tableOK {env : Env} (hl : env.Lawful) {o : Opts} {b : Builder} {G : List (List Entry)}
    {tf : TableFile} (K : Nat) (hK : ∀ d, (env.cksum d).length ≤ K)
    (hbl : (b.finishBlock env).blockList = G.map (finishedOf env))
    (hne : ∀ g ∈ G, g ≠ []) (hkeys : ∀ g ∈ G, ∀ e ∈ g, e.key ≠ [] ∧ e.key.length ≤ 65531)
    (hraw : entriesSize G.flatten + 4 * G.flatten.length + 8 + K < 4294967296)
    (hd : b.done env o = some tf) (hdata : tf.data.length < 4294967296) :
    TableOK env ⟨o, tf⟩ G := by
  unfold Builder.done at hd
  simp only at hd
  split at hd
  · cases hd
  · simp only [Option.some.injEq] at hd
    rw [hbl] at hd
    have hwf : ∀ g ∈ G, BlockWF g := by
      intro g hg
      have hsz := entriesSize_mem_flatten hg
      have hbd := blockData_length_le g
      refine ⟨?_, fun e he => (hkeys g hg e he).2, by omega⟩
      obtain ⟨e0, r, rfl⟩ := List.exists_cons_of_ne_nil (hne g hg)
      exact (hkeys _ hg e0 (by simp)).1
    have hdata' : (([] : Bytes) ++ ((storeAll env o 0 (G.map (finishedOf env))).map (fun p => p.2)).flatten).length < 4294967296 := by
      rw [← hd] at hdata; simpa using hdata
    refine ⟨?_, ?_, ?_, hwf⟩
    · rw [← hd]; simp [TableCore.offsetsLength, blockOffsets_length, storeAll_length]
    · intro j g hg
      have hgm : g ∈ G := List.mem_of_getElem? hg
      have hq : (G.map (finishedOf env))[j]? = some (finishedOf env g) := by simp [hg]
      have hst := storeAll_get env o _ 0 j _ hq
      obtain ⟨ko, hko, _, hlen, hbound, hraw'⟩ := blockOffsets_get _ [] j _ hst hdata'
      simp only [List.length_nil, List.nil_append, Nat.zero_add] at hko hbound hraw'
      have hjl : j < G.length := lt_of_getElem?_some hg
      unfold TableCore.block
      have h1 : ¬ ((j : Int) < 0) := by omega
      have h2 : ¬ (j ≥ (⟨o, tf⟩ : TableCore).offsetsLength) := by
        rw [← hd]; simp [TableCore.offsetsLength, blockOffsets_length, storeAll_length]; omega
      simp only [h1, if_false, Int.toNat_natCast, h2]
      rw [← hd]
      simp only [hko]
      have h3 : ¬ (ko.offset > (((storeAll env o 0 (G.map (finishedOf env))).map (fun p => p.2)).flatten).length) := by omega
      have h4 : ¬ ((((storeAll env o 0 (G.map (finishedOf env))).map (fun p => p.2)).flatten).length - ko.offset < ko.len) := by omega
      simp only [h3, h4, if_false, hraw']
      -- the stored block decodes to the finished block
      have hsz := entriesSize_mem_flatten hgm
      have hbd := blockData_length_le g
      have hfin : ((specBlock g).finish env.cksum).length < 4294967296 := by
        rw [finish_length]
        have hc := hK ((specBlock g).data ++ u32sLE (specBlock g).entryOffsets ++
          beBytes (u32 (specBlock g).entryOffsets.length) 4)
        have e1 : (specBlock g).entryOffsets.length = g.length := specBlock_offs_length g
        have e2 : (specBlock g).data.length = (blockData g).length := rfl
        omega
      have hoffs : ∀ x ∈ (specBlock g).entryOffsets, x < 4294967296 := by
        intro x hx
        simp only [specBlock, List.mem_map] at hx
        obtain ⟨y, _, rfl⟩ := hx
        exact Nat.mod_lt _ (by decide)
      obtain ⟨pb, hpb, hsl, heo, hver⟩ := parseBlock_finish env.cksum env.verify
        (o.chkMode == 2 || o.chkMode == 3) hl.verify_cksum (specBlock g) hoffs hfin
      have hbo : (blockOffs g).map u32 = blockOffs g := blockOffs_map_u32 g (by omega)
      have hres : ∃ b, parseBlock (o.chkMode == 2 || o.chkMode == 3) env.verify ((specBlock g).finish env.cksum) = .ok b ∧
          slice b.data 0 b.entriesIndexStart = some (blockData g) ∧ b.entryOffsets = blockOffs g ∧
          env.verify b.data b.checksum = true := ⟨pb, hpb, hsl, by rw [heo]; exact hbo, hver⟩
      simp only [finishedOf, storeBlock, Nat.zero_add]
      by_cases henc : o.encrypt = true <;> by_cases hcomp : o.compress = true <;>
        (try simp only [Bool.not_eq_true] at henc) <;> (try simp only [Bool.not_eq_true] at hcomp)
      · have hlen16 := hl.enc_len j (env.comp ((specBlock g).finish env.cksum))
        have : ¬ ((env.enc j (env.comp ((specBlock g).finish env.cksum))).length < 16) := by omega
        simp only [henc, hcomp, if_true, this, if_false, hl.dec_enc, hl.decomp_comp, Bool.not_eq_true, Bool.false_eq_true]
        exact hres
      · have hlen16 := hl.enc_len j ((specBlock g).finish env.cksum)
        have : ¬ ((env.enc j ((specBlock g).finish env.cksum)).length < 16) := by omega
        simp only [henc, hcomp, if_true, this, if_false, hl.dec_enc, hl.decomp_comp, Bool.not_eq_true, Bool.false_eq_true]
        exact hres
      · simp only [henc, hcomp, if_true, if_false, hl.decomp_comp, Bool.not_eq_true, Bool.false_eq_true]
        exact hres
      · simp only [henc, hcomp, if_false, Bool.not_eq_true, Bool.false_eq_true]
        exact hres
    · intro j g hg
      have hq : (G.map (finishedOf env))[j]? = some (finishedOf env g) := by simp [hg]
      have hst := storeAll_get env o _ 0 j _ hq
      obtain ⟨ko, hko, hkey, _⟩ := blockOffsets_get _ [] j _ hst hdata'
      simp only [List.length_nil] at hko
      refine ⟨ko, ?_, ?_⟩
      · rw [← hd]; exact hko
      · rw [hkey]; rfl

theorem builderInv_init (env : Env) : BuilderInv env {} [] [] :=
  ⟨rfl, rfl, by simp, Or.inl rfl, rfl, rfl⟩

/-- `NewTableBuilder; Add*; Done` on a non-empty entry list: the file reads back block by
    block as a partition `G` of the input; index metadata. -/
theorem build_tableOK {env : Env} (hl : env.Lawful) {o : Opts} {es : List Entry} {tf : TableFile}
    (K : Nat) (hK : ∀ d, (env.cksum d).length ≤ K) (hne : es ≠ [])
    (hkeys : ∀ e ∈ es, e.key ≠ [] ∧ e.key.length ≤ 65531)
    (hraw : entriesSize es + 4 * es.length + 8 + K < 4294967296)
    (hb : buildTable env o es = some (some tf)) (hdata : tf.data.length < 4294967296) :
    ∃ G, G.flatten = es ∧ (∀ g ∈ G, g ≠ []) ∧ TableOK env ⟨o, tf⟩ G ∧
      tf.index.keyCount = u32 es.length ∧ tf.index.maxVersion = maxVersionOf es ∧
      tf.index.bloom = (if o.bloom then env.mkFilter (es.map (fun e => env.hash (parseKey e.key))) else []) := by
  unfold buildTable at hb
  cases hadd : Builder.addAll env o {} es with
  | none => simp [hadd] at hb
  | some b =>
    simp only [hadd, Option.some.injEq] at hb
    obtain ⟨done, cur, inv, hcur, hfl⟩ :=
      addAll_inv es (builderInv_init env) (fun e he => (hkeys e he).1) hadd
    have hcne := hcur hne
    simp only [List.flatten_nil, List.nil_append] at hfl
    obtain ⟨hbl, hkh, hmv⟩ := finishBlock_inv inv hcne
    have hG : (done ++ [cur]).flatten = es := by simpa using hfl
    have hGne : ∀ g ∈ done ++ [cur], g ≠ [] := by
      intro g hg
      rcases List.mem_append.mp hg with hg | hg
      · exact inv.done_ne g hg
      · simp at hg; subst hg; exact hcne
    have hkeys' : ∀ g ∈ done ++ [cur], ∀ e ∈ g, e.key ≠ [] ∧ e.key.length ≤ 65531 := by
      intro g hg e he
      apply hkeys
      rw [← hG]
      exact List.mem_flatten.mpr ⟨g, hg, he⟩
    have hok := done_tableOK hl K hK hbl hGne hkeys' (by rw [hG]; exact hraw) hb hdata
    refine ⟨done ++ [cur], hG, hGne, hok, ?_, ?_, ?_⟩
    all_goals
      unfold Builder.done at hb
      simp only at hb
      split at hb
      · cases hb
      · simp only [Option.some.injEq] at hb
        rw [← hb]
        simp only [hkh, hmv, inv.hashes, inv.maxv, hfl, List.length_map]

end Badger.Tbl
