import BadgerModel.Spec.Crash
import BadgerProofs.Lemmas.CrashRecover
/-!
# The invariant that ties the logical state of the protocol machine to the kill view of the
# file system, and its preservation by every scheduler step.
-/
namespace Badger

/-- pointwise update of the kill view -/
def upd (F : KFs) (p : Path) (v : Option Inode) : KFs := fun q => if q = p then v else F q

@[simp] theorem upd_same (F : KFs) (p : Path) (v : Option Inode) : upd F p v p = v := by simp [upd]
theorem upd_ne (F : KFs) (p q : Path) (v : Option Inode) (h : q ≠ p) : upd F p v q = F q := by
  simp [upd, h]

theorem krun_mkFile (F : KFs) (p : Path) :
    krun F (mkFile p) = upd F p (some { chunks := [], size := .alloc }) := by
  funext q
  simp only [mkFile, krun_cons, krun_nil, kstep, upd]
  by_cases h : q = p <;> simp [h]

theorem krun_delFile (F : KFs) (p : Path) : krun F (delFile p) = upd F p none := by
  funext q
  simp only [delFile, krun_cons, krun_nil, kstep, upd]
  by_cases h : q = p <;> simp [h]

theorem krun_append1 (F : KFs) (p : Path) (c : Chunk) :
    krun F [.append p c] = upd F p ((F p).map (appendChunk c)) := by
  funext q; simp [kstep, upd]

theorem krun_truncate1 (F : KFs) (p : Path) (n : Nat) :
    krun F [.truncate p n] = upd F p ((F p).map (truncChunks n)) := by
  funext q; simp [kstep, upd]

@[simp] theorem krun_sync1 (F : KFs) (p : Path) : krun F [.sync p] = F := rfl
@[simp] theorem krun_zero1 (F : KFs) (p : Path) : krun F [.zero p] = F := rfl
@[simp] theorem krun_syncDir1 (F : KFs) : krun F [.syncDir] = F := rfl

/-- the timestamp written into the WAL records of the transaction in flight -/
def PState.pts (s : PState) : Nat := (s.inflight.map (·.ts)).getD 0

/-! ## the invariant, by region of the directory -/

def memView (F : KFs) : Nat → Option Inode := fun n => F (.mem n)
def sstView (F : KFs) : Nat → Option Inode := fun n => F (.sst n)

def entsOfMem (mtxns : List (Nat × List Txn)) (fid : Nat) : List CEnt := txnsEnts ((aget fid mtxns).getD [])
def entsOfTable (tcont : List (Nat × List CEnt)) (id : Nat) : List CEnt := (aget id tcont).getD []

theorem memEnts_eq (s : PState) (fid : Nat) : s.memEnts fid = entsOfMem s.mtxns fid := rfl
theorem tableEnts_eq (s : PState) (id : Nat) : s.tableEnts id = entsOfTable s.tcont id := rfl

/-- counters and the visible state -/
structure InvLogic (R : ViewRel) (lsm : List CEnt) (commits : List Txn) (done acked : Nat)
    (inflight : Option Txn) : Prop where
  view : R.r lsm (txnsEnts (commits.take done))
  acked_le : acked ≤ done
  done_le : done ≤ commits.length
  infl : match inflight with
    | none => done = commits.length
    | some t => commits = commits.take done ++ [t]

/-- the `.mem` files -/
structure InvMem (imm : List Nat) (curOpen curHdr : Bool) (cur nextMem : Nat)
    (mtxns : List (Nat × List Txn)) (pts : Nat) (pending : List CEnt) (Fm : Nat → Option Inode) : Prop where
  memNZ : ∀ n f, Fm n = some f → f.size ≠ .zero
  memKnown : ∀ n, (Fm n).isSome → n ∈ imm ∨ (curOpen = true ∧ n = cur)
  immFiles : ∀ k ∈ imm, ∃ f, Fm k = some f ∧ (replayLog f.chunks).ents = entsOfMem mtxns k
  curFile : curOpen = true → ∃ f, Fm cur = some f ∧
    f.chunks = walChunks curHdr ((aget cur mtxns).getD []) pts pending
  curTxns : TxnsOk ((aget cur mtxns).getD [])
  noHdr : curHdr = false → (aget cur mtxns).getD [] = [] ∧ pending = []
  memFresh : ∀ n, nextMem ≤ n → Fm n = none ∧ aget n mtxns = none
  curLt : cur < nextMem
  immLt : ∀ k ∈ imm, k < nextMem
  curNotImm : curOpen = true → cur ∉ imm
  immNodup : imm.Nodup

def KOut.fileOk (Fs : Nat → Option Inode) (o : KOut) : Prop :=
  (o.stage = 1 → ∃ f, Fs o.id = some f ∧ f.chunks = []) ∧
  (2 ≤ o.stage → ∃ f, Fs o.id = some f ∧ f.chunks = [.table o.ents])

/-- the `.sst` files: tables of the MANIFEST, the flusher's table, the compaction outputs -/
structure InvSst (R : ViewRel) (tset : List (Nat × Nat)) (tcont : List (Nat × List CEnt))
    (imm : List Nat) (mtxns : List (Nat × List Txn)) (fpc fsst nextSst : Nat)
    (kins : List Nat) (kout : List KOut) (Fs : Nat → Option Inode) : Prop where
  tables : ∀ x ∈ tset, ∃ f, Fs x.1 = some f ∧ f.chunks = [.table (entsOfTable tcont x.1)]
  sstFresh : ∀ n, nextSst ≤ n → Fs n = none ∧ aget n tset = none
  idle : imm = [] → fpc = 0
  fsstLt : imm ≠ [] → 1 ≤ fpc → fsst < nextSst
  flush1 : imm ≠ [] → fpc = 1 → ∃ f, Fs fsst = some f ∧ f.chunks = []
  flush2 : ∀ k, imm.head? = some k → 2 ≤ fpc → fpc ≤ 4 →
    ∃ f, Fs fsst = some f ∧ f.chunks = [.table (entsOfMem mtxns k)]
  flush5 : ∀ k, imm.head? = some k → 5 ≤ fpc →
    (aget fsst tset).isSome ∧ entsOfTable tcont fsst = entsOfMem mtxns k
  koutLt : ∀ o ∈ kout, o.id < nextSst
  koutNodup : (kout.map (·.id)).Nodup
  koutFiles : ∀ o ∈ kout, o.fileOk Fs
  kview : kins ≠ [] → R.r (kout.map (·.ents)).flatten (kins.map (entsOfTable tcont)).flatten
  kinsIn : ∀ id ∈ kins, (aget id tset).isSome

structure Inv (R : ViewRel) (s : PState) (F : KFs) : Prop where
  logic : InvLogic R s.lsmEnts s.commits s.done s.acked s.inflight
  manifest : ManifestOk F s.tset
  mem : InvMem s.imm s.curOpen s.curHdr s.cur s.nextMem s.mtxns s.pts s.pending (memView F)
  sst : InvSst R s.tset s.tcont s.imm s.mtxns s.fpc s.fsst s.nextSst s.kins s.kout (sstView F)
  vlogNZ : ∀ n f, F (.vlog n) = some f → f.size ≠ .zero

/-! ## views under updates -/

@[simp] theorem memView_upd_sst (F : KFs) (i : Nat) (v : Option Inode) : memView (upd F (.sst i) v) = memView F := by
  funext n; simp [memView, upd]
@[simp] theorem memView_upd_vlog (F : KFs) (i : Nat) (v : Option Inode) : memView (upd F (.vlog i) v) = memView F := by
  funext n; simp [memView, upd]
@[simp] theorem memView_upd_manifest (F : KFs) (v : Option Inode) : memView (upd F .manifest v) = memView F := by
  funext n; simp [memView, upd]
@[simp] theorem sstView_upd_mem (F : KFs) (i : Nat) (v : Option Inode) : sstView (upd F (.mem i) v) = sstView F := by
  funext n; simp [sstView, upd]
@[simp] theorem sstView_upd_vlog (F : KFs) (i : Nat) (v : Option Inode) : sstView (upd F (.vlog i) v) = sstView F := by
  funext n; simp [sstView, upd]
@[simp] theorem sstView_upd_manifest (F : KFs) (v : Option Inode) : sstView (upd F .manifest v) = sstView F := by
  funext n; simp [sstView, upd]
theorem memView_upd_mem (F : KFs) (i : Nat) (v : Option Inode) :
    memView (upd F (.mem i) v) = fun n => if n = i then v else memView F n := by
  funext n; simp [memView, upd]
theorem sstView_upd_sst (F : KFs) (i : Nat) (v : Option Inode) :
    sstView (upd F (.sst i) v) = fun n => if n = i then v else sstView F n := by
  funext n; simp [sstView, upd]

/-! ## association-list facts -/

theorem aget_none_iff {α β : Type} [DecidableEq α] (k : α) (l : List (α × β)) :
    aget k l = none ↔ ∀ x ∈ l, x.1 ≠ k := by
  induction l with
  | nil => simp [aget]
  | cons x xs ih =>
    obtain ⟨a, b⟩ := x
    simp only [aget, List.mem_cons, forall_eq_or_imp]
    by_cases h : a = k
    · simp [h]
    · simp [h, ih]

theorem aget_isSome_of_mem {α β : Type} [DecidableEq α] (x : α × β) (l : List (α × β)) (h : x ∈ l) :
    (aget x.1 l).isSome := by
  cases hg : aget x.1 l with
  | none => exact absurd rfl ((aget_none_iff x.1 l).mp hg x h)
  | some v => rfl

theorem aget_append_left_none {α β : Type} [DecidableEq α] (k : α) (a b : List (α × β))
    (h : aget k a = none) : aget k (a ++ b) = aget k b := by
  induction a with
  | nil => rfl
  | cons x xs ih =>
    obtain ⟨a', b'⟩ := x
    simp only [aget] at h
    by_cases h2 : a' = k
    · simp [h2] at h
    · simp only [h2, if_false] at h
      simp [aget, h2, ih h]

theorem mem_aerase {α β : Type} [DecidableEq α] (k : α) (l : List (α × β)) (x : α × β) :
    x ∈ aerase k l ↔ x ∈ l ∧ x.1 ≠ k := by
  simp [aerase, List.mem_filter]

theorem mem_aset_of_none {α β : Type} [DecidableEq α] (k : α) (v : β) (l : List (α × β)) (x : α × β)
    (h : aget k l = none) : x ∈ aset k v l ↔ x = (k, v) ∨ x ∈ l := by
  have hn := (aget_none_iff k l).mp h
  simp only [aset, List.mem_cons, List.mem_filter]
  constructor
  · rintro (h1 | ⟨h1, _⟩)
    · exact Or.inl h1
    · exact Or.inr h1
  · rintro (h1 | h1)
    · exact Or.inl h1
    · exact Or.inr ⟨h1, by simpa using hn x h1⟩

theorem ManifestOk_upd (F : KFs) (p : Path) (v : Option Inode) (t : List (Nat × Nat)) (hp : p ≠ .manifest)
    (h : ManifestOk F t) : ManifestOk (upd F p v) t := by
  obtain ⟨sets, sz, hf, hr⟩ := h
  exact ⟨sets, sz, by rw [upd_ne _ _ _ _ (Ne.symm hp)]; exact hf, hr⟩

end Badger
