import BadgerModel.CompactStatus
import BadgerProofs.Lemmas.BlockSeek
/-! Step characterisations of the `compactStatus` model (BadgerModel/CompactStatus.lean): what `compareAndAdd`, `delete` and the L0→L0 registration do to the per-level range lists and to the table-id set, in membership form. Used by Props/C14Status.lean. -/
set_option linter.unusedSimpArgs false
namespace Badger.CS
open Badger

theorem length_modAt {α : Type} (i : Nat) (f : α → α) (xs : List α) : (modAt i f xs).length = xs.length := by
  induction xs generalizing i with
  | nil => cases i <;> simp [modAt]
  | cons x xs ih => cases i <;> simp [modAt, ih]

theorem getD_modAt {α : Type} (i j : Nat) (f : α → α) (xs : List α) (d : α) :
    (modAt i f xs).getD j d = if i = j ∧ i < xs.length then f (xs.getD j d) else xs.getD j d := by
  induction xs generalizing i j with
  | nil => cases i <;> simp [modAt]
  | cons x xs ih =>
    cases i with
    | zero => cases j <;> simp [modAt]
    | succ i =>
      cases j with
      | zero => simp [modAt]
      | succ j => simpa [modAt] using ih i j

theorem getElem?_getD_modAt {α : Type} (i j : Nat) (f : α → α) (xs : List α) (d : α) :
    (modAt i f xs)[j]?.getD d = if i = j ∧ i < xs.length then f (xs[j]?.getD d) else xs[j]?.getD d := by
  simpa using getD_modAt i j f xs d

theorem mem_addIds (ids t : List Nat) (x : Nat) : x ∈ addIds ids t ↔ x ∈ ids ∨ x ∈ t := by
  induction ids generalizing t with
  | nil => simp [addIds]
  | cons a as ih =>
    simp only [addIds, List.foldl_cons] at ih ⊢
    rw [ih]
    unfold setAdd
    split <;> simp <;> grind

theorem delIds_eq (ids t : List Nat) (hn : ids.Nodup) (hm : ∀ id ∈ ids, id ∈ t) :
    delIds ids t = some (t.filter (fun x => decide (x ∉ ids))) := by
  induction ids generalizing t with
  | nil =>
    simp only [delIds, List.not_mem_nil, not_false_eq_true, decide_true]
    congr 1; induction t with
    | nil => rfl
    | cons x xs ih => simp [List.filter, ← ih]
  | cons a as ih =>
    have ha : a ∈ t := hm a (by simp)
    simp only [delIds, ha, if_true]
    rw [ih _ (List.nodup_cons.mp hn).2]
    · simp [List.filter_filter]; congr 1; funext x; grind
    · intro id hid
      have : id ≠ a := by intro h; subst h; exact (List.nodup_cons.mp hn).1 hid
      simp [hm id (by simp [hid]), this]

theorem equals_iff (r d : KeyRange) : r.equals d = true ↔ r = d := by
  cases r; cases d; simp [KeyRange.equals, and_assoc]

def rangesAt (l : Nat) (cd : CDef) : List KeyRange :=
  (if cd.thisLevel = l then [cd.thisRange] else []) ++ (if cd.nextLevel = l then [cd.nextRange] else [])

theorem caa_spec {cs cs' : CStatus} {cd : CDef} (h : cs.compareAndAdd cd = some (cs', true)) :
    cs'.levels.length = cs.levels.length ∧ cd.thisLevel < cs.levels.length ∧ cd.nextLevel < cs.levels.length ∧
    (cs.level cd.thisLevel).overlapsWith cd.thisRange = false ∧
    (cs.level cd.nextLevel).overlapsWith cd.nextRange = false ∧
    (∀ l, (cs'.level l).ranges = (cs.level l).ranges ++ rangesAt l cd) ∧
    (∀ x, x ∈ cs'.tables ↔ x ∈ cd.ids ∨ x ∈ cs.tables) := by
  unfold CStatus.compareAndAdd at h
  split at h
  · rename_i hl
    split at h
    · simp at h
    · split at h
      · simp at h
      · rename_i h1 h2
        simp only [Option.some.injEq, Prod.mk.injEq, and_true] at h
        subst h
        refine ⟨by simp [length_modAt], hl.1, hl.2, by simpa using h1, by simpa using h2, ?_, ?_⟩
        · intro l
          simp only [CStatus.level, getD_modAt, length_modAt, rangesAt]
          by_cases a : cd.thisLevel = l <;> by_cases b : cd.nextLevel = l <;> simp [a, b, hl.1, hl.2] <;> grind
        · intro x; exact mem_addIds _ _ _
  · simp at h

theorem caa_false {cs cs' : CStatus} {cd : CDef} (h : cs.compareAndAdd cd = some (cs', false)) : cs' = cs := by
  unfold CStatus.compareAndAdd at h
  split at h
  · split at h
    · simp at h; exact h.symm
    · split at h
      · simp at h; exact h.symm
      · simp at h
  · simp at h

theorem l0l0_spec {cs cs' : CStatus} {cands out : List Nat} (h : cs.l0l0 cands = (cs', some out)) :
    cs'.levels.length = cs.levels.length ∧ out = cands.filter (fun id => !(cs.tables.contains id)) ∧
    (∀ l, (cs'.level l).ranges = (cs.level l).ranges ++ (if l = 0 ∧ 0 < cs.levels.length then [infRange] else [])) ∧
    (∀ x, x ∈ cs'.tables ↔ x ∈ out ∨ x ∈ cs.tables) := by
  unfold CStatus.l0l0 at h
  simp only at h
  split at h
  · simp at h
  · simp only [Prod.mk.injEq, Option.some.injEq] at h
    obtain ⟨h1, h2⟩ := h
    subst h1 h2
    refine ⟨by simp [length_modAt], rfl, ?_, fun x => mem_addIds _ _ _⟩
    intro l
    simp only [CStatus.level, getD_modAt]
    by_cases a : l = 0 <;> by_cases b : 0 < cs.levels.length <;> simp [a, b] <;> grind


def delAt (l : Nat) (cd : CDef) : List KeyRange :=
  (if cd.thisLevel = l then [cd.thisRange] else []) ++
  (if cd.thisLevel ≠ cd.nextLevel ∧ cd.nextRange.isEmpty = false ∧ cd.nextLevel = l then [cd.nextRange] else [])

theorem mem_remove (lv : LevelCS) (d r : KeyRange) : r ∈ (lv.remove d).1.ranges ↔ r ∈ lv.ranges ∧ r ≠ d := by
  have : (r.equals d = false) ↔ ¬ r = d := by rw [← equals_iff]; simp
  simp [LevelCS.remove, List.mem_filter, this]

theorem remove_found (lv : LevelCS) (d : KeyRange) : (lv.remove d).2 = true ↔ d ∈ lv.ranges := by
  simp only [LevelCS.remove, List.any_eq_true, equals_iff]
  constructor
  · rintro ⟨x, hx, rfl⟩; exact hx
  · intro h; exact ⟨d, h, rfl⟩

theorem delete_spec {cs cs' : CStatus} {cd : CDef} (h : cs.delete cd = some cs') :
    cs'.levels.length = cs.levels.length ∧
    (∀ l r, r ∈ (cs'.level l).ranges ↔ r ∈ (cs.level l).ranges ∧ r ∉ delAt l cd) ∧
    delIds cd.ids cs.tables = some cs'.tables := by
  unfold CStatus.delete at h
  by_cases hl : cd.thisLevel < cs.levels.length ∧ cd.nextLevel < cs.levels.length
  · simp only [hl, and_self, if_true] at h
    by_cases hb : (decide (cd.thisLevel ≠ cd.nextLevel) && !cd.nextRange.isEmpty) = true
    · simp only [hb, if_true, Option.ite_none_right_eq_some, Option.map_eq_some_iff] at h
      · obtain ⟨_, t, ht, rfl⟩ := h
        refine ⟨by simp [length_modAt], ?_, ht⟩
        intro l r
        simp only [Bool.and_eq_true, decide_eq_true_eq, Bool.not_eq_true'] at hb
        simp only [CStatus.level, getD_modAt, length_modAt, delAt]
        have h1 := hl.1; have h2 := hl.2; have h3 := hb.1; have h4 := hb.2
        by_cases a : cd.thisLevel = l <;> by_cases b : cd.nextLevel = l <;> (try subst a) <;> (try subst b) <;>
          simp_all [mem_remove] <;> grind
    · simp only [hb, Option.ite_none_right_eq_some, Option.map_eq_some_iff] at h
      · obtain ⟨_, t, ht, rfl⟩ := h
        refine ⟨by simp [length_modAt], ?_, ht⟩
        intro l r
        have hb' : ¬(cd.thisLevel ≠ cd.nextLevel ∧ cd.nextRange.isEmpty = false ∧ cd.nextLevel = l) := by
          rintro ⟨x, y, _⟩; apply hb; simp [x, y]
        simp only [CStatus.level, getD_modAt, getElem?_getD_modAt, delAt, hb', if_false, List.append_nil]
        by_cases a : cd.thisLevel = l
        · subst a; simp [hl.1, mem_remove, getElem?_getD_modAt]
        · simp [a, getElem?_getD_modAt]
  · simp [hl] at h

theorem delete_isSome {cs : CStatus} {cd : CDef}
    (hl : cd.thisLevel < cs.levels.length ∧ cd.nextLevel < cs.levels.length)
    (h1 : cd.thisRange ∈ (cs.level cd.thisLevel).ranges)
    (h2 : cd.thisLevel ≠ cd.nextLevel → cd.nextRange.isEmpty = false → cd.nextRange ∈ (cs.level cd.nextLevel).ranges)
    (h3 : (delIds cd.ids cs.tables).isSome) : (cs.delete cd).isSome := by
  unfold CStatus.delete
  simp only [hl, and_self, if_true]
  have f1 : ((cs.level cd.thisLevel).remove cd.thisRange).2 = true := (remove_found _ _).mpr h1
  by_cases hb : (decide (cd.thisLevel ≠ cd.nextLevel) && !cd.nextRange.isEmpty) = true
  · simp only [hb, if_true, f1, Bool.and_true]
    simp only [Bool.and_eq_true, decide_eq_true_eq, Bool.not_eq_true'] at hb
    have f2 := h2 hb.1 hb.2
    have : ((List.getD (modAt cd.thisLevel
        (fun l => { (l.remove cd.thisRange).1 with delSize := l.delSize - cd.thisSize }) cs.levels)
        cd.nextLevel {}).remove cd.nextRange).2 = true := by
      rw [remove_found, getD_modAt]; simp [hb.1]; exact f2
    simp only [this, if_true]
    simpa using h3
  · simp only [hb, if_false, f1, if_true]
    simpa using h3

end Badger.CS
