import BadgerModel.Crc
/-!
Lemmas on the bit-level CRC32-C model: the register stays below `2^32`; each bit step and
each byte step is injective in the register (the polynomial has its top bit set) and the byte
step is injective in the data byte. Consequence (`crc32c_single_byte`): changing one byte of
a message — all other bytes and the length unchanged — always changes the checksum.
-/
namespace Badger

theorem crcPoly_lt : crcPoly < 2 ^ 32 := by decide
theorem crcPoly_ge : 2 ^ 31 ≤ crcPoly := by decide

theorem crcBit_lt {c : Nat} (h : c < 2 ^ 32) : crcBit c < 2 ^ 32 := by
  unfold crcBit
  apply Nat.xor_lt_two_pow
  · omega
  · split
    · exact crcPoly_lt
    · exact Nat.pow_pos (by decide)

theorem xor_left_cancel {a b c : Nat} (h : a ^^^ c = b ^^^ c) : a = b := by
  have := congrArg (· ^^^ c) h
  simpa [Nat.xor_assoc] using this

theorem xor_right_cancel {a b c : Nat} (h : c ^^^ a = c ^^^ b) : a = b := by
  rw [Nat.xor_comm c a, Nat.xor_comm c b] at h
  exact xor_left_cancel h

/-- The bit step is injective on 32-bit registers. -/
theorem crcBit_inj {c d : Nat} (hc : c < 2 ^ 32) (hd : d < 2 ^ 32) (h : crcBit c = crcBit d) :
    c = d := by
  unfold crcBit at h
  have hc2 : c / 2 < 2 ^ 31 := by omega
  have hd2 : d / 2 < 2 ^ 31 := by omega
  by_cases p : c % 2 = 1 <;> by_cases q : d % 2 = 1
  · rw [if_pos p, if_pos q] at h
    have := xor_left_cancel h; omega
  · rw [if_pos p, if_neg q] at h
    -- c/2 ^^^ poly = d/2  ⇒  poly = c/2 ^^^ d/2 < 2^31, impossible
    exfalso
    have e : crcPoly = c / 2 ^^^ d / 2 := by
      have := congrArg (c / 2 ^^^ ·) h
      simpa [← Nat.xor_assoc] using this
    have := Nat.xor_lt_two_pow hc2 hd2
    have := crcPoly_ge
    omega
  · rw [if_neg p, if_pos q] at h
    exfalso
    have e : crcPoly = d / 2 ^^^ c / 2 := by
      have := congrArg (d / 2 ^^^ ·) h.symm
      simpa [← Nat.xor_assoc] using this
    have := Nat.xor_lt_two_pow hd2 hc2
    have := crcPoly_ge
    omega
  · rw [if_neg p, if_neg q] at h
    have := xor_left_cancel h; omega

theorem xor_byte_lt {c : Nat} (b : UInt8) (h : c < 2 ^ 32) : c ^^^ b.toNat < 2 ^ 32 :=
  Nat.xor_lt_two_pow h (by have := b.toNat_lt; omega)

theorem crcByte_lt {c : Nat} (b : UInt8) (h : c < 2 ^ 32) : crcByte c b < 2 ^ 32 := by
  unfold crcByte
  exact crcBit_lt (crcBit_lt (crcBit_lt (crcBit_lt (crcBit_lt (crcBit_lt (crcBit_lt (crcBit_lt
    (xor_byte_lt b h))))))))

/-- Eight bit steps are injective. -/
theorem crcBit8_inj {c d : Nat} (hc : c < 2 ^ 32) (hd : d < 2 ^ 32)
    (h : crcBit (crcBit (crcBit (crcBit (crcBit (crcBit (crcBit (crcBit c))))))) =
         crcBit (crcBit (crcBit (crcBit (crcBit (crcBit (crcBit (crcBit d)))))))) : c = d := by
  have l1 := fun {x} (hx : x < 2 ^ 32) => crcBit_lt hx
  exact crcBit_inj hc hd <| crcBit_inj (l1 hc) (l1 hd) <|
    crcBit_inj (l1 (l1 hc)) (l1 (l1 hd)) <|
    crcBit_inj (l1 (l1 (l1 hc))) (l1 (l1 (l1 hd))) <|
    crcBit_inj (l1 (l1 (l1 (l1 hc)))) (l1 (l1 (l1 (l1 hd)))) <|
    crcBit_inj (l1 (l1 (l1 (l1 (l1 hc))))) (l1 (l1 (l1 (l1 (l1 hd))))) <|
    crcBit_inj (l1 (l1 (l1 (l1 (l1 (l1 hc)))))) (l1 (l1 (l1 (l1 (l1 (l1 hd)))))) <|
    crcBit_inj (l1 (l1 (l1 (l1 (l1 (l1 (l1 hc))))))) (l1 (l1 (l1 (l1 (l1 (l1 (l1 hd))))))) h

theorem crcByte_inj_state {c d : Nat} (b : UInt8) (hc : c < 2 ^ 32) (hd : d < 2 ^ 32)
    (h : crcByte c b = crcByte d b) : c = d :=
  xor_left_cancel (crcBit8_inj (xor_byte_lt b hc) (xor_byte_lt b hd) h)

theorem crcByte_inj_byte {c : Nat} (a b : UInt8) (hc : c < 2 ^ 32)
    (h : crcByte c a = crcByte c b) : a = b :=
  UInt8.toNat_inj.mp (xor_right_cancel (crcBit8_inj (xor_byte_lt a hc) (xor_byte_lt b hc) h))

theorem crcUpdate_lt (d : Bytes) : ∀ {c : Nat}, c < 2 ^ 32 → crcUpdate c d < 2 ^ 32 := by
  induction d with
  | nil => intro c h; exact h
  | cons b bs ih => intro c h; exact ih (crcByte_lt b h)

theorem crcUpdate_append (a b : Bytes) : ∀ c, crcUpdate c (a ++ b) = crcUpdate (crcUpdate c a) b := by
  induction a with
  | nil => intro c; rfl
  | cons x xs ih => intro c; exact ih _

theorem crcUpdate_inj (d : Bytes) : ∀ {c e : Nat}, c < 2 ^ 32 → e < 2 ^ 32 →
    crcUpdate c d = crcUpdate e d → c = e := by
  induction d with
  | nil => intro c e _ _ h; exact h
  | cons b bs ih =>
    intro c e hc he h
    exact crcByte_inj_state b hc he (ih (crcByte_lt b hc) (crcByte_lt b he) h)

theorem crc32c_lt (d : Bytes) : crc32c d < 2 ^ 32 := by
  unfold crc32c
  exact Nat.xor_lt_two_pow (crcUpdate_lt d (by decide)) (by decide)

/-- **Single-byte error detection**: two messages that differ in exactly one byte (same length,
    same bytes elsewhere) never have the same CRC32-C. -/
theorem crc32c_single_byte (pre suf : Bytes) (a b : UInt8) (hab : a ≠ b) :
    crc32c (pre ++ a :: suf) ≠ crc32c (pre ++ b :: suf) := by
  intro h
  unfold crc32c at h
  have h1 := xor_left_cancel h
  rw [crcUpdate_append, crcUpdate_append] at h1
  have hp : crcUpdate 0xFFFFFFFF pre < 2 ^ 32 := crcUpdate_lt pre (by decide)
  simp only [crcUpdate] at h1
  have h2 := crcUpdate_inj suf (crcByte_lt a hp) (crcByte_lt b hp) h1
  exact hab (crcByte_inj_byte a b hp h2)

/-- The all-zero 5-byte header (what a zero-filled tail parses to) never verifies against the
    four zero bytes that follow it. -/
theorem crc32c_zero_header : crc32c [0, 0, 0, 0, 0] ≠ 0 := by decide

set_option maxRecDepth 8000 in
example : crc32c [0x31, 0x32, 0x33, 0x34, 0x35, 0x36, 0x37, 0x38, 0x39] = 0xE3069283 := by decide

end Badger
