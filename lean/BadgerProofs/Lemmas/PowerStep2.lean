import BadgerProofs.Lemmas.PowerStep1
/-!
# Preservation of `PCore` (part 2: compaction atoms and the msync of a table file)
-/
namespace Badger

theorem isSome_of_or_none {α : Type} (a b : Option α) (ha : a = none) (hb : b = none) : ¬ (a.isSome = true ∨ b.isSome = true) := by
  rw [ha, hb]; simp

/-! ### msync of a table file -/

theorem PC_syncSst (R : ViewRel) (s : PState) (Q : QFs) (hI : Inv R s (fvOf Q)) (hP : PCore R s Q) (id : Nat) :
    PCore R { s with kout := s.kout.map (syncStage id) }
      (qupd Q (.sst id) ((Q (.sst id)).setD (Q (.sst id)).fv)) := by
  refine ⟨?_, ?_, ?_, hP.logic⟩
  · rw [qupd_ne _ _ _ _ (by simp)]; exact hP.man
  · rw [sstQ_qupd_sst]
    have hs := hP.sst
    show PSst s.tset s.tsetD s.tcont s.imm s.mtxns s.fpc s.fsst s.nextSst (s.kout.map (syncStage id)) s.kdir _
    exact {
      tables := by
        intro n h
        obtain ⟨a, b, c⟩ := hs.tables n h
        by_cases hn : n = id
        · subst hn
          simp only [if_true]
          exact ⟨by simpa [PV.setD, sstQ] using a, by simpa [PV.setD, sstQ] using b, by simpa [PV.setD, sstQ] using b⟩
        · simp only [hn, if_false]; exact ⟨a, b, c⟩
      dLt := hs.dLt
      fl3 := by
        intro k hk h3 h4
        by_cases hn : s.fsst = id
        · simp only [hn, if_true]
          obtain ⟨f, hf, hc⟩ := hI.sst.flush2 k hk (by omega) h4
          have hf' : (Q (.sst s.fsst)).fv = some f := hf
          rw [hn] at hf'
          exact ⟨f, by simpa [PV.setD, sstQ] using hf', hc⟩
        · simp only [hn, if_false]; exact hs.fl3 k hk h3 h4
      fl4 := by
        intro hne h4
        by_cases hn : s.fsst = id
        · simp only [hn, if_true]
          have := hs.fl4 hne h4
          rw [hn] at this
          simpa [PV.setD, sstQ] using this
        · simp only [hn, if_false]; exact hs.fl4 hne h4
      fl6 := hs.fl6
      kout3 := by
        intro o ho h3
        obtain ⟨o2, ho2, he⟩ := List.mem_map.mp ho
        subst he
        simp only [syncStage_id, syncStage_ents]
        by_cases hn : o2.id = id
        · simp only [hn, if_true]
          obtain ⟨f, hf, hc⟩ := (hI.sst.koutFiles o2 ho2).2 ((syncStage_stage id o2).2 (by omega))
          have hf' : (Q (.sst o2.id)).fv = some f := hf
          rw [hn] at hf'
          exact ⟨f, by simpa [PV.setD, sstQ] using hf', hc⟩
        · simp only [hn, if_false]
          have : syncStage id o2 = o2 := by
            unfold syncStage
            have : (o2.id == id) = false := by simpa using hn
            simp [this]
          rw [this] at h3
          exact hs.kout3 o2 ho2 h3
      kdirOk := by
        intro hk o ho
        obtain ⟨o2, ho2, he⟩ := List.mem_map.mp ho
        subst he
        obtain ⟨a, b⟩ := hs.kdirOk hk o2 ho2
        simp only [syncStage_id]
        refine ⟨?_, ?_⟩
        · unfold syncStage; split
          · simp
          · exact a
        · by_cases hn : o2.id = id
          · simp only [hn, if_true]
            rw [hn] at b
            simpa [PV.setD, sstQ] using b
          · simp only [hn, if_false]; exact b }
  · rw [memQ_qupd_sst]; exact hP.mem

/-! ### a table file no reader depends on changes (`kmk`, `kwrite`, `kdel`, the flusher's create / write) -/

theorem PSst_upd_free (tset tsetD : List (Nat × Nat)) (tcont : List (Nat × List CEnt)) (imm : List Nat)
    (mtxns : List (Nat × List Txn)) (fpc fsst nextSst : Nat) (kout : List KOut) (kdir : Bool)
    (Qs : Nat → PV) (id : Nat) (v : PV)
    (h : PSst tset tsetD tcont imm mtxns fpc fsst nextSst kout kdir Qs)
    (h1 : aget id tset = none) (h2 : aget id tsetD = none)
    (h3 : imm ≠ [] → 3 ≤ fpc → fpc ≤ 4 → fsst ≠ id)
    (h4 : ∀ o ∈ kout, o.id = id → o.stage ≠ 3 ∧ (kdir = true → v.lk = true)) :
    PSst tset tsetD tcont imm mtxns fpc fsst nextSst kout kdir (fun n => if n = id then v else Qs n) where
  tables := by
    intro n hn
    have : n ≠ id := by
      intro e; subst e
      exact isSome_of_or_none _ _ h1 h2 hn
    simp only [this, if_false]
    exact h.tables n hn
  dLt := h.dLt
  fl3 := by
    intro k hk a b
    have hne : imm ≠ [] := by intro e; rw [e] at hk; cases hk
    simp only [h3 hne a b, if_false]
    exact h.fl3 k hk a b
  fl4 := by
    intro hne a
    simp only [h3 hne (by omega) (by omega), if_false]
    exact h.fl4 hne a
  fl6 := h.fl6
  kout3 := by
    intro o ho a
    by_cases hn : o.id = id
    · exact absurd a (h4 o ho hn).1
    · simp only [hn, if_false]; exact h.kout3 o ho a
  kdirOk := by
    intro hk o ho
    obtain ⟨a, b⟩ := h.kdirOk hk o ho
    refine ⟨a, ?_⟩
    by_cases hn : o.id = id
    · simp only [hn, if_true]; exact (h4 o ho hn).2 hk
    · simp only [hn, if_false]; exact b

/-- the stages of the outputs change (they do not reach 3) -/
theorem PSst_kout (tset tsetD : List (Nat × Nat)) (tcont : List (Nat × List CEnt)) (imm : List Nat)
    (mtxns : List (Nat × List Txn)) (fpc fsst nextSst : Nat) (kout : List KOut) (kdir : Bool)
    (Qs : Nat → PV) (id st : Nat) (hst : st ≠ 3)
    (h : PSst tset tsetD tcont imm mtxns fpc fsst nextSst kout kdir Qs)
    (hk : kdir = true → 1 ≤ st) :
    PSst tset tsetD tcont imm mtxns fpc fsst nextSst (kout.map (setStage id st)) kdir Qs where
  tables := h.tables
  dLt := h.dLt
  fl3 := h.fl3
  fl4 := h.fl4
  fl6 := h.fl6
  kout3 := by
    intro o ho a
    obtain ⟨o2, ho2, he⟩ := List.mem_map.mp ho
    subst he
    rw [setStage_stage] at a
    by_cases hn : o2.id = id
    · rw [if_pos hn] at a; exact absurd a hst
    · rw [if_neg hn] at a
      simp only [setStage_id, setStage_ents]
      exact h.kout3 o2 ho2 a
  kdirOk := by
    intro hkd o ho
    obtain ⟨o2, ho2, he⟩ := List.mem_map.mp ho
    subst he
    obtain ⟨a, b⟩ := h.kdirOk hkd o2 ho2
    simp only [setStage_id]
    refine ⟨?_, b⟩
    rw [setStage_stage]
    by_cases hn : o2.id = id
    · rw [if_pos hn]; exact hk hkd
    · rw [if_neg hn]; exact a

theorem PC_kmk (R : ViewRel) (s : PState) (Q : QFs) (hI : Inv R s (fvOf Q)) (hP : PCore R s Q) (id : Nat)
    (hg : s.kout.any (fun o => o.id == id && o.stage == 0) = true) (hfl : s.flusherHolds id = false)
    (h1 : aget id s.tset = none) (h2 : aget id s.tsetD = none) (v : PV) :
    PCore R { s with kout := s.kout.map (setStage id 1) } (qupd Q (.sst id) v) := by
  refine ⟨?_, ?_, ?_, hP.logic⟩
  · rw [qupd_ne _ _ _ _ (by simp)]; exact hP.man
  · rw [sstQ_qupd_sst]
    have hs := hP.sst
    obtain ⟨o0, ho0, hoid⟩ := List.any_eq_true.mp hg
    have hoid' : o0.id = id ∧ o0.stage = 0 := by simpa using hoid
    have hkdir : s.kdir = false := by
      cases hk : s.kdir with
      | false => rfl
      | true => have := (hs.kdirOk hk o0 ho0).1; omega
    have := PSst_upd_free _ _ _ _ _ _ _ _ _ _ _ id v hs h1 h2
      (fun a b c => not_holds_ne _ _ _ _ hfl a (by omega) c)
      (by
        intro o ho he
        refine ⟨?_, by intro e; rw [hkdir] at e; cases e⟩
        intro h3
        have := eq_of_id_eq s.kout hI.sst.koutNodup o o0 ho ho0 (he.trans hoid'.1.symm)
        rw [this, hoid'.2] at h3; cases h3)
    exact PSst_kout _ _ _ _ _ _ _ _ _ _ _ id 1 (by omega) this (fun _ => Nat.le_refl _)
  · rw [memQ_qupd_sst]; exact hP.mem

theorem PC_kwrite (R : ViewRel) (s : PState) (Q : QFs) (hI : Inv R s (fvOf Q)) (hP : PCore R s Q) (id : Nat)
    (hg : s.kout.any (fun o => o.id == id && o.stage == 1) = true) (hfl : s.flusherHolds id = false)
    (h1 : aget id s.tset = none) (h2 : aget id s.tsetD = none) (f : Option Inode) :
    PCore R { s with kout := s.kout.map (setStage id 2) } (qupd Q (.sst id) ((Q (.sst id)).setV f)) := by
  refine ⟨?_, ?_, ?_, hP.logic⟩
  · rw [qupd_ne _ _ _ _ (by simp)]; exact hP.man
  · rw [sstQ_qupd_sst]
    have hs := hP.sst
    obtain ⟨o0, ho0, hoid⟩ := List.any_eq_true.mp hg
    have hoid' : o0.id = id ∧ o0.stage = 1 := by simpa using hoid
    have := PSst_upd_free _ _ _ _ _ _ _ _ _ _ _ id ((Q (.sst id)).setV f) hs h1 h2
      (fun a b c => not_holds_ne _ _ _ _ hfl a (by omega) c)
      (by
        intro o ho he
        have hoe := eq_of_id_eq s.kout hI.sst.koutNodup o o0 ho ho0 (he.trans hoid'.1.symm)
        refine ⟨by rw [hoe, hoid'.2]; omega, ?_⟩
        intro hk
        have := (hs.kdirOk hk o ho).2
        rw [he] at this
        simpa [PV.setV, sstQ] using this)
    exact PSst_kout _ _ _ _ _ _ _ _ _ _ _ id 2 (by omega) this (fun _ => by omega)
  · rw [memQ_qupd_sst]; exact hP.mem

theorem PC_kdel (R : ViewRel) (s : PState) (Q : QFs) (hP : PCore R s Q) (id : Nat)
    (h1 : aget id s.tset = none) (hmd : s.mdirty = false) (hfl : s.flusherHolds id = false)
    (hko : s.kout.any (fun o => o.id == id) = false) (v : PV) :
    PCore R { s with kdelq := s.kdelq.filter (· ≠ id) } (qupd Q (.sst id) v) := by
  refine ⟨?_, ?_, ?_, hP.logic⟩
  · rw [qupd_ne _ _ _ _ (by simp)]; exact hP.man
  · rw [sstQ_qupd_sst]
    have h2 : aget id s.tsetD = none := by rw [hP.man.clean hmd]; exact h1
    show PSst s.tset s.tsetD s.tcont s.imm s.mtxns s.fpc s.fsst s.nextSst s.kout s.kdir _
    exact PSst_upd_free _ _ _ _ _ _ _ _ _ _ _ id v hP.sst h1 h2
      (fun a b c => not_holds_ne _ _ _ _ hfl a (by omega) c)
      (by
        intro o ho he
        have : s.kout.any (fun o => o.id == id) = true := List.any_eq_true.mpr ⟨o, ho, by simp [he]⟩
        rw [hko] at this; cases this)
  · rw [memQ_qupd_sst]; exact hP.mem

/-! ### a compaction starts -/

theorem PC_compactStart (R : ViewRel) (s s' : PState) (Q : QFs) (hP : PCore R s Q)
    (e : PEq s { s' with nextSst := s.nextSst, kout := s.kout, kdir := s.kdir })
    (hn : s.nextSst ≤ s'.nextSst) (hk : s'.kdir = false) (hst : ∀ o ∈ s'.kout, o.stage = 0) : PCore R s' Q := by
  have h := PCore_of_eq R s _ Q hP e
  refine ⟨h.man, ?_, h.mem, h.logic⟩
  have hs := h.sst
  obtain ⟨e1, e2, e3, e4, e5, e6, e7, e8, e9, e10, e11, e12, e13, e14, e15, e16, e17, e18, e19, e20⟩ := e
  simp only at e1 e2 e3 e4 e5 e6 e7 e8 e9 e10 e11 e12 e13 e14 e15 e16 e17 e18 e19 e20
  exact {
    tables := hs.tables
    dLt := fun n hn' => hs.dLt n (Nat.le_trans hn hn')
    fl3 := hs.fl3
    fl4 := hs.fl4
    fl6 := hs.fl6
    kout3 := by intro o ho h3; rw [hst o ho] at h3; cases h3
    kdirOk := by intro e; rw [hk] at e; cases e }

/-! ### the MANIFEST change set of a compaction -/

theorem kmset_facts (R : ViewRel) (s : PState) (F : KFs) (h : Inv R s F) (t' : List (Nat × Nat))
    (hk : s.kins ≠ [])
    (hstage : ∀ o ∈ s.kout, o.stage = 3 ∧ aget o.id s.tset = none)
    (happ : applyMSet s.tset (kmsetChanges s) = some t') :
    (∀ x, x ∈ t' ↔ (∃ o ∈ s.kout, x = (o.id, o.level)) ∨ (x ∈ s.tset ∧ x.1 ∉ s.kins)) ∧
    (∀ o ∈ s.kout, entsOfTable (s.kout.map (fun o => (o.id, o.ents)) ++ s.tcont) o.id = o.ents) ∧
    (∀ id, (∀ o ∈ s.kout, o.id ≠ id) →
      entsOfTable (s.kout.map (fun o => (o.id, o.ents)) ++ s.tcont) id = entsOfTable s.tcont id) ∧
    R.r (tablesEnts (s.kout.map (fun o => (o.id, o.ents)) ++ s.tcont) t') (tablesEnts s.tcont s.tset) := by
  have hmem : ∀ x, x ∈ t' ↔ ((∃ o ∈ s.kout, x = (o.id, o.level)) ∨ x ∈ s.tset) ∧ x.1 ∉ s.kins := by
    unfold kmsetChanges at happ
    obtain ⟨t1, h1, hm1⟩ := applyMSet_creates _ _ _ _ happ
    intro x
    rw [applyMSet_deletes _ _ _ h1 x, hm1]
  have hkoutNotIns : ∀ o ∈ s.kout, o.id ∉ s.kins := by
    intro o ho hin
    have := h.sst.kinsIn o.id hin
    rw [(hstage o ho).2] at this; cases this
  have hmem' : ∀ x, x ∈ t' ↔ (∃ o ∈ s.kout, x = (o.id, o.level)) ∨ (x ∈ s.tset ∧ x.1 ∉ s.kins) := by
    intro x
    rw [hmem]
    constructor
    · rintro ⟨h1 | h1, h2⟩
      · exact Or.inl h1
      · exact Or.inr ⟨h1, h2⟩
    · rintro (⟨o, ho, he⟩ | ⟨h1, h2⟩)
      · exact ⟨Or.inl ⟨o, ho, he⟩, by rw [he]; exact hkoutNotIns o ho⟩
      · exact ⟨Or.inr h1, h2⟩
  have hcontOut : ∀ o ∈ s.kout, entsOfTable (s.kout.map (fun o => (o.id, o.ents)) ++ s.tcont) o.id = o.ents := by
    intro o ho
    simp only [entsOfTable]
    rw [aget_append_left_some _ _ _ _ (aget_conts_of_nodup _ h.sst.koutNodup o ho)]
    rfl
  have hcontId : ∀ id, (∀ o ∈ s.kout, o.id ≠ id) →
      entsOfTable (s.kout.map (fun o => (o.id, o.ents)) ++ s.tcont) id = entsOfTable s.tcont id := by
    intro id hid
    simp only [entsOfTable]
    rw [aget_append_left_none]
    exact aget_conts_none _ _ hid
  have hcontOld : ∀ x ∈ s.tset, entsOfTable (s.kout.map (fun o => (o.id, o.ents)) ++ s.tcont) x.1 = entsOfTable s.tcont x.1 := by
    intro x hx
    apply hcontId
    intro o ho e
    have := (aget_none_iff o.id s.tset).mp (hstage o ho).2 x hx
    exact this e.symm
  refine ⟨hmem', hcontOut, hcontId, ?_⟩
  unfold tablesEnts
  let keep := ((s.tset.filter (fun x => !s.kins.contains x.1)).map (fun x => entsOfTable s.tcont x.1)).flatten
  have e1 : R.r ((t'.map (fun x => entsOfTable (s.kout.map (fun o => (o.id, o.ents)) ++ s.tcont) x.1)).flatten)
      ((s.kout.map (·.ents)).flatten ++ keep) := by
    apply R.of_mem_iff
    intro e
    simp only [List.mem_append, mem_flatten_map, keep, List.mem_filter]
    constructor
    · rintro ⟨x, hx, he⟩
      rcases (hmem' x).mp hx with ⟨o, ho, hxe⟩ | ⟨h1, h2⟩
      · subst hxe; rw [hcontOut o ho] at he; exact Or.inl ⟨o, ho, he⟩
      · rw [hcontOld x h1] at he
        exact Or.inr ⟨x, ⟨h1, by simpa using h2⟩, he⟩
    · rintro (⟨o, ho, he⟩ | ⟨x, ⟨h1, h2⟩, he⟩)
      · exact ⟨(o.id, o.level), (hmem' _).mpr (Or.inl ⟨o, ho, rfl⟩), by rw [hcontOut o ho]; exact he⟩
      · exact ⟨x, (hmem' _).mpr (Or.inr ⟨h1, by simpa using h2⟩), by rw [hcontOld x h1]; exact he⟩
  have e2 : R.r ((s.kins.map (entsOfTable s.tcont)).flatten ++ keep)
      ((s.tset.map (fun x => entsOfTable s.tcont x.1)).flatten) := by
    apply R.of_mem_iff
    intro e
    simp only [List.mem_append, mem_flatten_map, keep, List.mem_filter]
    constructor
    · rintro (⟨id, hid, he⟩ | ⟨x, ⟨h1, _⟩, he⟩)
      · have := h.sst.kinsIn id hid
        cases hg : aget id s.tset with
        | none => rw [hg] at this; cases this
        | some lvl => exact ⟨(id, lvl), aget_mem _ _ _ hg, he⟩
      · exact ⟨x, h1, he⟩
    · rintro ⟨x, hx, he⟩
      by_cases hin : x.1 ∈ s.kins
      · exact Or.inl ⟨x.1, hin, he⟩
      · exact Or.inr ⟨x, ⟨hx, by simpa using hin⟩, he⟩
  exact R.trans _ _ _ e1 (R.trans _ _ _ (R.app_congr _ _ _ _ (h.sst.kview hk) (R.refl _)) e2)

theorem PC_kmset (R : ViewRel) (s : PState) (Q : QFs) (hI : Inv R s (fvOf Q)) (hP : PCore R s Q) (t' : List (Nat × Nat))
    (hk : s.kins ≠ [])
    (hstage : ∀ o ∈ s.kout, o.stage = 3 ∧ aget o.id s.tset = none)
    (happ : applyMSet s.tset (kmsetChanges s) = some t')
    (hmd : s.mdirty = false) (hkdir : s.kdir = true) (hpend : ∀ x ∈ s.pendU, x.2 ∉ s.kins) :
    PCore R { s with tset := t', tcont := s.kout.map (fun o => (o.id, o.ents)) ++ s.tcont,
                     kdelq := s.kins, kins := [], kout := [], mdirty := true }
      (qupd Q .manifest ((Q .manifest).setV ((Q .manifest).fv.map (appendChunk (.mset (kmsetChanges s)))))) := by
  obtain ⟨hmem', hcontOut, hcontId, hT⟩ := kmset_facts R s _ hI t' hk hstage happ
  have hD : s.tsetD = s.tset := hP.man.clean hmd
  have hcontOld : ∀ id, (aget id s.tset).isSome = true →
      entsOfTable (s.kout.map (fun o => (o.id, o.ents)) ++ s.tcont) id = entsOfTable s.tcont id := by
    intro id hid
    apply hcontId
    intro o ho e
    rw [← e, (hstage o ho).2] at hid; cases hid
  refine ⟨?_, ?_, ?_, ?_⟩
  · rw [qupd_same]
    have h := hP.man
    obtain ⟨sets, sz, hf, hr⟩ := h.vol
    refine ⟨by simpa [PV.setV] using h.lk, ?_, by simpa [PV.setV] using h.dur, by intro e; cases e⟩
    refine ⟨sets ++ [.mset (kmsetChanges s)], (if sz = .alloc then .alloc else .tight), ?_, ?_⟩
    · simp [PV.setV, hf, appendChunk]
    · rw [replayMSets_append, hr]
      simp [replayMSets, happ]
  · rw [sstQ_qupd_manifest]
    have hs := hP.sst
    show PSst t' s.tsetD (s.kout.map (fun o => (o.id, o.ents)) ++ s.tcont) s.imm s.mtxns s.fpc s.fsst s.nextSst [] s.kdir (sstQ Q)
    have hold : ∀ id, (aget id s.tset).isSome = true →
        (sstQ Q id).lk = true ∧ isTable (sstQ Q id).fv (entsOfTable (s.kout.map (fun o => (o.id, o.ents)) ++ s.tcont) id) ∧
          isTable (sstQ Q id).fd (entsOfTable (s.kout.map (fun o => (o.id, o.ents)) ++ s.tcont) id) := by
      intro id hid
      rw [hcontOld id hid]
      exact hs.tables id (Or.inl hid)
    exact {
      tables := by
        intro id hid
        rcases hid with hid | hid
        · cases hg : aget id t' with
          | none => rw [hg] at hid; cases hid
          | some lvl =>
            rcases (hmem' (id, lvl)).mp (aget_mem _ _ _ hg) with ⟨o, ho, hxe⟩ | ⟨h1, _⟩
            · have hio : id = o.id := congrArg Prod.fst hxe
              subst hio
              rw [hcontOut o ho]
              refine ⟨(hs.kdirOk hkdir o ho).2, ?_, hs.kout3 o ho (hstage o ho).1⟩
              exact (hI.sst.koutFiles o ho).2 (by rw [(hstage o ho).1]; omega)
            · exact hold id (aget_isSome_of_mem _ _ h1)
        · rw [hD] at hid; exact hold id hid
      dLt := hs.dLt
      fl3 := hs.fl3
      fl4 := hs.fl4
      fl6 := hs.fl6
      kout3 := by intro o ho; cases ho
      kdirOk := by intro _ o ho; cases ho }
  · rw [memQ_qupd_manifest]
    have hm := hP.mem
    show PMem s.imm s.curOpen s.cur s.nextMem s.mtxns s.curDirty s.curDurEntry s.pendU s.acked s.done
      t' s.tsetD (s.kout.map (fun o => (o.id, o.ents)) ++ s.tcont) (memQ Q)
    exact {
      immP := hm.immP
      curP := hm.curP
      deadP := hm.deadP
      pend := by
        intro x hx
        obtain ⟨a, b, c, d⟩ := hm.pend x hx
        refine ⟨a, b, c, fun e he => ?_⟩
        obtain ⟨d1, d2, d3⟩ := d e he
        refine ⟨?_, d2, by rw [hcontOld x.2 d1]; exact d3⟩
        cases hg : aget x.2 s.tset with
        | none => rw [hg] at d1; cases d1
        | some lvl =>
          exact aget_isSome_of_mem (x.2, lvl) t' ((hmem' _).mpr (Or.inr ⟨aget_mem _ _ _ hg, hpend x hx⟩)) }
  · have hl := hP.logic
    show PLogic R s.commits s.done s.curT (s.kout.map (fun o => (o.id, o.ents)) ++ s.tcont) t' s.tsetD s.mtxns s.imm
    refine ⟨hl.curLe, hl.link, ?_, ?_⟩
    · exact R.trans _ _ _ (R.app_congr _ _ _ _ hT (R.refl _)) hl.baseV
    · have : tablesEnts (s.kout.map (fun o => (o.id, o.ents)) ++ s.tcont) s.tsetD = tablesEnts s.tcont s.tsetD := by
        unfold tablesEnts
        congr 1
        apply List.map_congr_left
        intro x hx
        rw [hD] at hx
        exact hcontOld x.1 (aget_isSome_of_mem _ _ hx)
      rw [this]; exact hl.baseD

end Badger
