import BadgerProofs.Lemmas.LogTorn
/-!
Zero-filled torn tails: the hypotheses `TornRejected` (operational) and `NoCrcCollision`
(checksum only), zeros are never a record, and a strict prefix of a well-formed record completed
with zeros is rejected unless its checksum collides (the re-parsed header has lengths not larger
than the original ones, so neither a varint overflow nor a slice panic can occur).
-/
namespace Badger

/-- The torn candidate is not accepted as a record: reading it gives a short-read error, or a
    zero entry (empty key). Decidable (`tornRejectedB`). This is the `NoCrcCollision` hypothesis in
    its operational form — see `NoCrcCollision` below for the checksum-only form. -/
def TornRejected (ks : Nat → UInt8) (b : Bytes) : Prop :=
  Torn (safeReadEntry ks b) ∨ ∃ e h, safeReadEntry ks b = .ok (e, h) ∧ e.key = []

def tornRejectedB (ks : Nat → UInt8) (b : Bytes) : Bool :=
  match safeReadEntry ks b with
  | .error .eof => true
  | .error .unexpectedEof => true
  | .error .truncate => true
  | .error _ => false
  | .ok (e, _) => e.key.isEmpty

theorem tornRejectedB_iff (ks : Nat → UInt8) (b : Bytes) :
    tornRejectedB ks b = true ↔ TornRejected ks b := by
  unfold tornRejectedB TornRejected Torn TornErr
  cases h : safeReadEntry ks b with
  | error e => cases e <;> simp
  | ok r => obtain ⟨e, hl⟩ := r; simp [List.isEmpty_iff]

instance (ks : Nat → UInt8) (b : Bytes) : Decidable (TornRejected ks b) :=
  decidable_of_iff _ (tornRejectedB_iff ks b)

theorem breaks_of_tornRejected {ks : Nat → UInt8} {b : Bytes} (lc : Nat) (h : TornRejected ks b) :
    Breaks ks lc b := by
  rcases h with h | ⟨e, hl, hr, hk⟩
  · exact Or.inl h
  · exact Or.inr ⟨e, hl, hr, Or.inl hk⟩

/-- A zero-filled region is never a record: the all-zero header announces an empty key and an
    empty value, and `crc32c [0,0,0,0,0] ≠ 0`. -/
theorem tornRejected_zeros (ks : Nat → UInt8) (n : Nat) : TornRejected ks (List.replicate n 0) := by
  refine Or.inl ?_
  match n with
  | 0 => exact ⟨.eof, Or.inl rfl, by simp [safeReadEntry, headerDecodeFrom, readByte]⟩
  | 1 => exact ⟨.eof, Or.inl rfl, by simp [safeReadEntry, headerDecodeFrom, readByte, List.replicate]⟩
  | 2 => exact ⟨.eof, Or.inl rfl, by
      simp [safeReadEntry, headerDecodeFrom, readByte, List.replicate, readUvarint, readUvarintAux]⟩
  | 3 => exact ⟨.eof, Or.inl rfl, by
      simp [safeReadEntry, headerDecodeFrom, readByte, List.replicate, readUvarint, readUvarintAux]⟩
  | 4 => exact ⟨.eof, Or.inl rfl, by
      simp [safeReadEntry, headerDecodeFrom, readByte, List.replicate, readUvarint, readUvarintAux]⟩
  | m + 5 =>
    have hd : headerDecodeFrom (List.replicate (m + 5) (0 : UInt8)) =
        .ok (⟨0, 0, 0, 0, 0⟩, List.replicate m 0) := by
      simp [headerDecodeFrom, readByte, List.replicate, readUvarint, readUvarintAux]
    have hcrc : crc32c (List.take 5 (List.replicate (m + 5) (0 : UInt8))) ≠ 0 := by
      have : List.take 5 (List.replicate (m + 5) (0 : UInt8)) = [0, 0, 0, 0, 0] := by
        simp [List.replicate]
      rw [this]; exact crc32c_zero_header
    unfold safeReadEntry
    rw [hd]
    simp only [Nat.zero_add, Nat.zero_mod, List.length_replicate, Nat.add_sub_cancel_left]
    rw [if_neg (by omega)]
    simp only [readFull, if_true, Nat.lt_irrefl, if_false, List.length_replicate]
    match m with
    | 0 => exact ⟨.truncate, Or.inr (Or.inr rfl), by simp⟩
    | 1 => exact ⟨.unexpectedEof, Or.inr (Or.inl rfl), by simp⟩
    | 2 => exact ⟨.unexpectedEof, Or.inr (Or.inl rfl), by simp⟩
    | 3 => exact ⟨.unexpectedEof, Or.inr (Or.inl rfl), by simp⟩
    | k + 4 =>
      refine ⟨.truncate, Or.inr (Or.inr rfl), ?_⟩
      have h4 : List.take 4 (List.replicate (k + 4) (0 : UInt8)) = [0, 0, 0, 0] := by
        simp [List.replicate]
      simp only [show ¬ (k + 4 = 0) by omega, show ¬ (k + 4 < 4) by omega, if_false, h4]
      rw [if_neg (by decide)]
      simp only [Nat.add_zero]
      rw [if_pos]
      simpa [beNat] using hcrc.symm

/-- Checksum-only form of the hypothesis: wherever `safeRead.Entry` gets as far as comparing
    checksums on `b`, they differ. -/
def NoCrcCollision (b : Bytes) : Prop :=
  match headerDecodeFrom b with
  | .ok (h, r1) =>
    (h.klen + h.vlen) % 2 ^ 32 + 4 ≤ r1.length →
      beNat ((r1.drop ((h.klen + h.vlen) % 2 ^ 32)).take 4) ≠
        crc32c (b.take (b.length - r1.length + (h.klen + h.vlen) % 2 ^ 32))
  | .error _ => True

instance (b : Bytes) : Decidable (NoCrcCollision b) := by
  unfold NoCrcCollision
  split <;> infer_instance

/-- A strict prefix of a varint followed by a zero byte reads as a value not larger than the
    original (the low 7·j bits), consuming exactly the prefix and the zero byte. -/
theorem readUvarintAux_take_zero (k : Nat) : ∀ (i x n j : Nat) (rest : Bytes),
    j < (putUvarintF k n).length →
    ∃ v, v ≤ n ∧ readUvarintAux (k + 1) i x ((putUvarintF k n).take j ++ 0 :: rest) =
      .ok (x + v * 128 ^ i, rest) := by
  have zero_case : ∀ (k i x : Nat) (rest : Bytes),
      readUvarintAux (k + 1) i x (0 :: rest) = .ok (x + 0 * 128 ^ i, rest) := by
    intro k i x rest
    simp [readUvarintAux]
  induction k with
  | zero =>
    intro i x n j rest hj
    simp only [putUvarintF, List.length_cons, List.length_nil] at hj
    have : j = 0 := by omega
    subst this
    exact ⟨0, Nat.zero_le _, by simpa using zero_case 0 i x rest⟩
  | succ k ih =>
    intro i x n j rest hj
    simp only [putUvarintF] at hj ⊢
    split at hj
    · rename_i hlt
      simp only [List.length_cons, List.length_nil] at hj
      have : j = 0 := by omega
      subst this
      rw [if_pos hlt]
      exact ⟨0, Nat.zero_le _, by simpa using zero_case (k + 1) i x rest⟩
    · rename_i hge
      rw [if_neg hge]
      cases j with
      | zero => exact ⟨0, Nat.zero_le _, by simpa using zero_case (k + 1) i x rest⟩
      | succ j =>
        have hb : (UInt8.ofNat (n % 128 + 128)).toNat = n % 128 + 128 :=
          u8_ofNat_toNat _ (by omega)
        simp only [List.length_cons] at hj
        obtain ⟨v, hv, hr⟩ := ih (i + 1) (x + (n % 128 + 128) % 128 * 128 ^ i) (n / 128) j rest (by omega)
        refine ⟨n % 128 + 128 * v, by omega, ?_⟩
        simp only [List.take_succ_cons, List.cons_append, readUvarintAux, hb]
        rw [if_neg (by omega), hr]
        congr 2
        have e1 : (n % 128 + 128) % 128 = n % 128 := by omega
        rw [e1, Nat.pow_succ, Nat.add_mul, Nat.add_assoc]
        congr 1
        generalize 128 ^ i = m
        rw [← Nat.mul_assoc, Nat.mul_comm (v * m) 128, Nat.mul_assoc]

/-- Result of a field reader on damaged input: short read, or some value within `bound` with only
    zero bytes left. -/
def StageZ (bound : Nat) (r : Except RErr (Nat × Bytes)) : Prop :=
  Torn r ∨ ∃ v z, v ≤ bound ∧ r = .ok (v, List.replicate z 0)

theorem readUvarint_zeros (z : Nat) : StageZ 0 (readUvarint (List.replicate z 0)) := by
  cases z with
  | zero => exact Or.inl ⟨.eof, Or.inl rfl, by simp [readUvarint, readUvarintAux]⟩
  | succ z =>
    exact Or.inr ⟨0, z, Nat.le_refl _, by simp [List.replicate, readUvarint, readUvarintAux]⟩

theorem readUvarint_take_zeros (n j z : Nat) (hj : j < (putUvarint n).length) :
    StageZ n (readUvarint ((putUvarint n).take j ++ List.replicate z 0)) := by
  cases z with
  | zero =>
    simp only [List.replicate, List.append_nil]
    exact Or.inl (readUvarint_take n j hj)
  | succ z =>
    obtain ⟨v, hv, hr⟩ := readUvarintAux_take_zero 9 0 0 n j (List.replicate z 0) hj
    refine Or.inr ⟨v, z, hv, ?_⟩
    simp only [List.replicate, readUvarint, putUvarint]
    rw [hr]; simp

/-- The three varints of a header, after `meta` and `userMeta` have been read. -/
def hdr3 (m um : UInt8) (w : Bytes) : Except RErr (Header × Bytes) :=
  match readUvarint w with
  | .error e => .error e
  | .ok (klen, r2) =>
    match readUvarint r2 with
    | .error e => .error e
    | .ok (vlen, r3) =>
      match readUvarint r3 with
      | .error e => .error e
      | .ok (exp, r4) =>
        .ok ({ klen := klen % 2 ^ 32, vlen := vlen % 2 ^ 32, expiresAt := exp,
               metaB := m, userMeta := um }, r4)

theorem headerDecodeFrom_cons2 (m um : UInt8) (w : Bytes) :
    headerDecodeFrom (m :: um :: w) = hdr3 m um w := by
  simp only [headerDecodeFrom, readByte, hdr3]
  cases readUvarint w with
  | error e => rfl
  | ok p =>
    obtain ⟨klen, r2⟩ := p
    simp only
    cases readUvarint r2 with
    | error e => rfl
    | ok p =>
      obtain ⟨vlen, r3⟩ := p
      simp only
      cases readUvarint r3 with
      | error e => rfl
      | ok p => rfl

/-- Outcome of a damaged header: short read, or lengths not larger than the original ones. -/
def HdrZ (bk bv : Nat) (r : Except RErr (Header × Bytes)) : Prop :=
  Torn r ∨ ∃ h' r1, r = .ok (h', r1) ∧ h'.klen ≤ bk ∧ h'.vlen ≤ bv

theorem mod_le_of_le {v b : Nat} (h : v ≤ b) : v % 2 ^ 32 ≤ b :=
  Nat.le_trans (Nat.mod_le _ _) h

theorem chainZ1 (m um : UInt8) (w : Bytes) (bk bv : Nat) (h1 : StageZ bk (readUvarint w)) :
    HdrZ bk bv (hdr3 m um w) := by
  unfold hdr3
  rcases h1 with ⟨e, te, he⟩ | ⟨v, z, hv, hr⟩
  · rw [he]; exact Or.inl ⟨e, te, rfl⟩
  · rw [hr]; simp only
    rcases readUvarint_zeros z with ⟨e, te, he⟩ | ⟨v2, z2, hv2, hr2⟩
    · rw [he]; exact Or.inl ⟨e, te, rfl⟩
    · rw [hr2]; simp only
      rcases readUvarint_zeros z2 with ⟨e, te, he⟩ | ⟨v3, z3, _, hr3⟩
      · rw [he]; exact Or.inl ⟨e, te, rfl⟩
      · rw [hr3]
        exact Or.inr ⟨_, _, rfl, mod_le_of_le hv, by
          have : v2 = 0 := by omega
          subst this; simp⟩

theorem chainZ2 (m um : UInt8) (K : Nat) (hK : K < 2 ^ 64) (s : Bytes) (bv : Nat)
    (h2 : StageZ bv (readUvarint s)) : HdrZ K bv (hdr3 m um (putUvarint K ++ s)) := by
  unfold hdr3
  rw [readUvarint_put K s hK]; simp only
  rcases h2 with ⟨e, te, he⟩ | ⟨v, z, hv, hr⟩
  · rw [he]; exact Or.inl ⟨e, te, rfl⟩
  · rw [hr]; simp only
    rcases readUvarint_zeros z with ⟨e, te, he⟩ | ⟨v3, z3, _, hr3⟩
    · rw [he]; exact Or.inl ⟨e, te, rfl⟩
    · rw [hr3]
      exact Or.inr ⟨_, _, rfl, Nat.mod_le _ _, mod_le_of_le hv⟩

theorem chainZ3 (m um : UInt8) (K V : Nat) (hK : K < 2 ^ 64) (hV : V < 2 ^ 64) (s : Bytes) (be : Nat)
    (h3 : StageZ be (readUvarint s)) : HdrZ K V (hdr3 m um (putUvarint K ++ (putUvarint V ++ s))) := by
  unfold hdr3
  rw [readUvarint_put K _ hK]; simp only
  rw [readUvarint_put V s hV]; simp only
  rcases h3 with ⟨e, te, he⟩ | ⟨v, z, _, hr⟩
  · rw [he]; exact Or.inl ⟨e, te, rfl⟩
  · rw [hr]
    exact Or.inr ⟨_, _, rfl, Nat.mod_le _ _, Nat.mod_le _ _⟩

/-- A strict prefix of an encoded header followed by zero bytes: `DecodeFrom` fails with a short
    read or yields lengths bounded by the original ones (so no overflow error, and later no
    over-long key and no `uint32` wrap). -/
theorem headerDecodeFrom_take_zeros (h : Header) (wf : h.WF) (j z : Nat)
    (hj : j < (headerEncode h).length) :
    HdrZ h.klen h.vlen (headerDecodeFrom ((headerEncode h).take j ++ List.replicate z 0)) := by
  obtain ⟨hk, hv, he⟩ := wf
  obtain ⟨klen, vlen, exp, m, um⟩ := h
  rw [headerEncode_length] at hj
  simp only at hj hk hv he ⊢
  simp only [headerEncode, List.append_assoc]
  have eofT : ∀ {α : Type}, Torn (Except.error RErr.eof : Except RErr α) :=
    fun {_} => ⟨.eof, Or.inl rfl, rfl⟩
  match j, hj with
  | 0, _ =>
    simp only [List.take_zero, List.nil_append]
    match z with
    | 0 => exact Or.inl (by simpa [headerDecodeFrom, readByte] using eofT)
    | 1 => exact Or.inl (by simpa [headerDecodeFrom, readByte, List.replicate] using eofT)
    | z + 2 =>
      simp only [List.replicate, headerDecodeFrom_cons2]
      exact chainZ1 0 0 _ klen vlen (by
        rcases readUvarint_zeros z with t | ⟨v, z', hv', hr⟩
        · exact Or.inl t
        · exact Or.inr ⟨v, z', by omega, hr⟩)
  | 1, _ =>
    simp only [List.take_succ_cons, List.take_zero, List.cons_append, List.nil_append]
    match z with
    | 0 => exact Or.inl (by simpa [headerDecodeFrom, readByte] using eofT)
    | z + 1 =>
      simp only [List.replicate, headerDecodeFrom_cons2]
      exact chainZ1 m 0 _ klen vlen (by
        rcases readUvarint_zeros z with t | ⟨v, z', hv', hr⟩
        · exact Or.inl t
        · exact Or.inr ⟨v, z', by omega, hr⟩)
  | j + 2, hj =>
    simp only [List.take_succ_cons, List.cons_append, headerDecodeFrom_cons2]
    rcases take_append_cases (putUvarint klen) (putUvarint vlen ++ putUvarint exp) j with ⟨h1, e1⟩ | ⟨h1, e1⟩
    · rw [e1]
      exact chainZ1 m um _ klen vlen (readUvarint_take_zeros klen j z h1)
    · rw [e1, List.append_assoc]
      rcases take_append_cases (putUvarint vlen) (putUvarint exp) (j - (putUvarint klen).length)
        with ⟨h2, e2⟩ | ⟨h2, e2⟩
      · rw [e2]
        exact chainZ2 m um klen (by omega) _ vlen (readUvarint_take_zeros vlen _ z h2)
      · rw [e2, List.append_assoc]
        exact chainZ3 m um klen vlen (by omega) (by omega) _ exp
          (readUvarint_take_zeros exp _ z (by omega))

theorem readFull_err_torn {n : Nat} {r : Bytes} {e : RErr} (h : readFull n r = .error e) : TornErr e := by
  unfold readFull at h
  split at h
  · cases h
  · split at h
    · cases h; exact Or.inr (Or.inr rfl)
    · split at h
      · cases h; exact Or.inr (Or.inl rfl)
      · cases h

theorem readFull_ok {n : Nat} {r a r' : Bytes} (h : readFull n r = .ok (a, r')) :
    a = r.take n ∧ r' = r.drop n ∧ n ≤ r.length := by
  unfold readFull at h
  split at h
  · rename_i h0; cases h; subst h0; simp
  · split at h
    · cases h
    · split at h
      · cases h
      · cases h; exact ⟨rfl, rfl, by omega⟩

/-- If the header of the torn candidate is a short read, or parses to lengths badger accepts,
    then the absence of a checksum collision is all that is needed for rejection. -/
theorem tornRejected_of_header (ks : Nat → UInt8) (b : Bytes)
    (hh : Torn (headerDecodeFrom b) ∨
      ∃ h r1, headerDecodeFrom b = .ok (h, r1) ∧ h.klen ≤ 65536 ∧ h.klen + h.vlen < 2 ^ 32)
    (hn : NoCrcCollision b) : TornRejected ks b := by
  refine Or.inl ?_
  unfold safeReadEntry
  rcases hh with ⟨e, te, he⟩ | ⟨h, r1, hd, hk, hkv⟩
  · rw [he]; exact ⟨e, te, rfl⟩
  · unfold NoCrcCollision at hn
    rw [hd] at hn ⊢
    simp only at hn ⊢
    rw [if_neg (by omega)]
    have hmod : (h.klen + h.vlen) % 2 ^ 32 = h.klen + h.vlen := Nat.mod_eq_of_lt hkv
    rw [hmod] at hn ⊢
    cases h1 : readFull (h.klen + h.vlen) r1 with
    | error e => exact ⟨e, readFull_err_torn h1, rfl⟩
    | ok p =>
      obtain ⟨buf, r2⟩ := p
      obtain ⟨_, hr2, hlen1⟩ := readFull_ok h1
      simp only
      rw [if_neg (by omega)]
      cases h2 : readFull 4 r2 with
      | error e => exact ⟨e, readFull_err_torn h2, rfl⟩
      | ok q =>
        obtain ⟨crcBuf, r3⟩ := q
        obtain ⟨hcb, _, hlen2⟩ := readFull_ok h2
        simp only
        subst hr2
        have := hn (by rw [List.length_drop] at hlen2; omega)
        rw [← hcb] at this
        rw [if_pos this]
        exact ⟨.truncate, Or.inr (Or.inr rfl), rfl⟩

/-- The torn candidate of a well-formed record, completed with zeros, is rejected unless its
    checksum collides. -/
theorem tornRejected_take_zeros (ks ks' : Nat → UInt8) (e : Entry) (wf : e.WF) (j z : Nat)
    (hn : NoCrcCollision ((encodeEntry ks e).take j ++ List.replicate z 0)) :
    TornRejected ks' ((encodeEntry ks e).take j ++ List.replicate z 0) := by
  obtain ⟨hk, hkv, hexp⟩ := wf
  have hwf := entryHeader_WF e hkv hexp
  have hkl : (entryHeader e).klen = e.key.length := by
    simp only [entryHeader]; exact Nat.mod_eq_of_lt (by omega)
  have hvl : (entryHeader e).vlen = e.value.length := by
    simp only [entryHeader]; exact Nat.mod_eq_of_lt (by omega)
  apply tornRejected_of_header ks' _ _ hn
  have eb : encodeEntry ks e = headerEncode (entryHeader e) ++
      (xorFrom ks 0 (e.key ++ e.value) ++ beBytes (crc32c (encodeBody ks e)) 4) := by
    simp [encodeEntry, encodeBody]
  rw [eb]
  rcases take_append_cases (headerEncode (entryHeader e)) _ j with ⟨h1, e1⟩ | ⟨h1, e1⟩
  · rw [e1]
    rcases headerDecodeFrom_take_zeros _ hwf j z h1 with t | ⟨h', r1, hr, hk', hv'⟩
    · exact Or.inl t
    · exact Or.inr ⟨h', r1, hr, by omega, by omega⟩
  · rw [e1, List.append_assoc, C20_header_decodeFrom _ _ hwf]
    exact Or.inr ⟨_, _, rfl, by omega, by omega⟩

end Badger
