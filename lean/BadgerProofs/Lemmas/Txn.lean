import BadgerModel.Mvcc
import BadgerModel.Spec.Mvcc
import BadgerProofs.Lemmas.Order
import BadgerProofs.Lemmas.Sorted
/-!
# Frame lemmas for the transaction layer (`Db.findTxn/setTxn/modify/doneRead/discardTxn`)
and the specification of user-level scans used by C05.
-/
namespace Badger

/-! ## `findTxn` / `setTxn` -/

theorem findTxn_id {d : Db} {id : Nat} {t : TxnM} (h : d.findTxn id = some t) : t.id = id := by
  have := List.find?_some h
  simpa using this

@[simp] theorem setTxn_lsm (d : Db) (t : TxnM) : (d.setTxn t).lsm = d.lsm := rfl
@[simp] theorem setTxn_opts (d : Db) (t : TxnM) : (d.setTxn t).opts = d.opts := rfl
@[simp] theorem setTxn_nextTs (d : Db) (t : TxnM) : (d.setTxn t).nextTs = d.nextTs := rfl
@[simp] theorem setTxn_committed (d : Db) (t : TxnM) : (d.setTxn t).committed = d.committed := rfl
@[simp] theorem setTxn_readMark (d : Db) (t : TxnM) : (d.setTxn t).readMark = d.readMark := rfl
@[simp] theorem setTxn_discardTs (d : Db) (t : TxnM) : (d.setTxn t).discardTs = d.discardTs := rfl
@[simp] theorem setTxn_lastCleanupTs (d : Db) (t : TxnM) :
    (d.setTxn t).lastCleanupTs = d.lastCleanupTs := rfl
@[simp] theorem setTxn_now (d : Db) (t : TxnM) : (d.setTxn t).now = d.now := rfl

@[simp] theorem findTxn_setTxn_self (d : Db) (t : TxnM) : (d.setTxn t).findTxn t.id = some t := by
  simp [Db.setTxn, Db.findTxn]

theorem findTxn_setTxn_ne (d : Db) (t : TxnM) (id' : Nat) (h : id' ≠ t.id) :
    (d.setTxn t).findTxn id' = d.findTxn id' := by
  have h1 : (t.id == id') = false := by simpa using fun h' => h h'.symm
  simp only [Db.setTxn, Db.findTxn, List.find?_cons, h1]
  generalize d.txns = l
  induction l with
  | nil => rfl
  | cons x xs ih =>
    simp only [List.filter_cons]
    by_cases hx : x.id = t.id
    · have h2 : (x.id == id') = false := by simpa [hx] using fun h' => h h'.symm
      have h4 : (x.id != t.id) = false := by simp [hx]
      simp only [h4, List.find?_cons, h2]
      exact ih
    · have h4 : (x.id != t.id) = true := by simp [hx]
      simp only [h4, if_true, List.find?_cons]
      cases (x.id == id')
      · exact ih
      · rfl

/-! ## shape of `modify` -/

/-- the transaction record after an accepted `modify` -/
def modTxn (d : Db) (t : TxnM) (e : Ent) : TxnM :=
  { t with
    count := t.count + 1
    size := t.size + estimateSize d.opts.threshold e + 10
    dups := (match t.pending.find? (·.key == e.key) with
      | some o => if o.ver != e.ver then t.dups ++ [o] else t.dups
      | none => t.dups)
    pending := (t.pending.filter (·.key != e.key)) ++ [e]
    writes := if d.opts.detectConflicts then e.key :: t.writes else t.writes }

/-- the first validation failure of `modify` on an existing transaction, `none` if accepted. -/
def modCheck (d : Db) (t : TxnM) (e : Ent) : Option ModErr :=
  if !t.update then some .readonly
  else if t.discarded then some .discarded
  else if e.key.isEmpty then some .emptykey
  else if badgerPrefix.isPrefixOf e.key then some .invalidkey
  else if e.key.length > 65000 then some .keytoobig
  else if e.val.length > d.opts.vlogFileSize then some .valtoobig
  else if d.opts.inMemory && e.val.length > d.opts.threshold then some .valtoobig
  else if t.count + 1 ≥ d.opts.maxBatchCount ||
      t.size + estimateSize d.opts.threshold e + 10 ≥ d.opts.maxBatchSize then some .txntoobig
  else none

theorem modify_none {d : Db} {id : Nat} (e : Ent) (h : d.findTxn id = none) :
    d.modify id e = (d, some .discarded) := by
  simp [Db.modify, h]

/-- `modify` = validation (`modCheck`), then either nothing or `setTxn (modTxn …)`. -/
theorem modify_eq {d : Db} {id : Nat} {t : TxnM} (e : Ent) (h : d.findTxn id = some t) :
    d.modify id e =
      (match modCheck d t e with
       | some err => (d, some err)
       | none => (d.setTxn (modTxn d t e), none)) := by
  unfold Db.modify modCheck
  simp only [h]
  iterate 8 (split; · rfl)
  rfl

theorem modify_verdict {d : Db} {id : Nat} {t : TxnM} (e : Ent) (h : d.findTxn id = some t) :
    (d.modify id e).2 = modCheck d t e := by
  rw [modify_eq e h]; cases modCheck d t e <;> rfl

theorem modify_shape {d : Db} {id : Nat} {t : TxnM} (e : Ent) (h : d.findTxn id = some t) :
    (d.modify id e).1 = d ∨ ∃ t', t'.id = id ∧ (d.modify id e).1 = d.setTxn t' := by
  rw [modify_eq e h]
  cases modCheck d t e with
  | some err => exact .inl rfl
  | none => exact .inr ⟨modTxn d t e, (findTxn_id h : t.id = id), rfl⟩

/-- `Txn.Get` on a key with a pending write (update transaction, not discarded). -/
theorem txnGet_pending {d : Db} {id : Nat} {t : TxnM} {k : Bytes} {e : Ent}
    (ht : d.findTxn id = some t) (hk : k ≠ []) (hu : t.update = true) (hd : t.discarded = false)
    (hp : t.pending.find? (·.key == k) = some e) :
    d.txnGet id k =
      (d, if deletedOrExpired e.emeta e.exp d.now then GetRes.notfound else .found e t.readTs) := by
  unfold Db.txnGet
  have hk' : k.isEmpty = false := by cases k <;> simp_all
  simp only [ht, hk', hd, hu, hp, Bool.false_eq_true, if_false, if_true]
  split <;> rfl

/-! ## frame lemmas: `doneRead`, `discardTxn`, `cleanup` -/

@[simp] theorem doneRead_lsm (d : Db) (t : TxnM) : (d.doneRead t).1.lsm = d.lsm := by
  unfold Db.doneRead; split <;> rfl
@[simp] theorem doneRead_opts (d : Db) (t : TxnM) : (d.doneRead t).1.opts = d.opts := by
  unfold Db.doneRead; split <;> rfl
@[simp] theorem doneRead_nextTs (d : Db) (t : TxnM) : (d.doneRead t).1.nextTs = d.nextTs := by
  unfold Db.doneRead; split <;> rfl
@[simp] theorem doneRead_committed (d : Db) (t : TxnM) : (d.doneRead t).1.committed = d.committed := by
  unfold Db.doneRead; split <;> rfl
@[simp] theorem doneRead_discardTs (d : Db) (t : TxnM) : (d.doneRead t).1.discardTs = d.discardTs := by
  unfold Db.doneRead; split <;> rfl
@[simp] theorem doneRead_now (d : Db) (t : TxnM) : (d.doneRead t).1.now = d.now := by
  unfold Db.doneRead; split <;> rfl
@[simp] theorem doneRead_txns (d : Db) (t : TxnM) : (d.doneRead t).1.txns = d.txns := by
  unfold Db.doneRead; split <;> rfl
@[simp] theorem doneRead_lastCleanupTs (d : Db) (t : TxnM) :
    (d.doneRead t).1.lastCleanupTs = d.lastCleanupTs := by
  unfold Db.doneRead; split <;> rfl
theorem doneRead_txn (d : Db) (t : TxnM) : (d.doneRead t).2 = { t with doneRead := true } := by
  unfold Db.doneRead; split <;> rfl
theorem doneRead_managed (d : Db) (t : TxnM) (h : d.opts.managed = true) :
    (d.doneRead t).1 = d := by
  unfold Db.doneRead; simp [h]

@[simp] theorem cleanup_lsm (d : Db) : d.cleanup.lsm = d.lsm := by
  unfold Db.cleanup; split; · rfl
  dsimp only; split <;> rfl
@[simp] theorem cleanup_opts (d : Db) : d.cleanup.opts = d.opts := by
  unfold Db.cleanup; split; · rfl
  dsimp only; split <;> rfl
@[simp] theorem cleanup_nextTs (d : Db) : d.cleanup.nextTs = d.nextTs := by
  unfold Db.cleanup; split; · rfl
  dsimp only; split <;> rfl
@[simp] theorem cleanup_now (d : Db) : d.cleanup.now = d.now := by
  unfold Db.cleanup; split; · rfl
  dsimp only; split <;> rfl
@[simp] theorem cleanup_txns (d : Db) : d.cleanup.txns = d.txns := by
  unfold Db.cleanup; split; · rfl
  dsimp only; split <;> rfl
@[simp] theorem cleanup_readMark (d : Db) : d.cleanup.readMark = d.readMark := by
  unfold Db.cleanup; split; · rfl
  dsimp only; split <;> rfl
@[simp] theorem cleanup_discardTs (d : Db) : d.cleanup.discardTs = d.discardTs := by
  unfold Db.cleanup; split; · rfl
  dsimp only; split <;> rfl

@[simp] theorem discardTxn_lsm (d : Db) (id : Nat) : (d.discardTxn id).lsm = d.lsm := by
  unfold Db.discardTxn
  split; · rfl
  split; · rfl
  simp
@[simp] theorem discardTxn_opts (d : Db) (id : Nat) : (d.discardTxn id).opts = d.opts := by
  unfold Db.discardTxn
  split; · rfl
  split; · rfl
  simp
@[simp] theorem discardTxn_nextTs (d : Db) (id : Nat) : (d.discardTxn id).nextTs = d.nextTs := by
  unfold Db.discardTxn
  split; · rfl
  split; · rfl
  simp
@[simp] theorem discardTxn_committed (d : Db) (id : Nat) :
    (d.discardTxn id).committed = d.committed := by
  unfold Db.discardTxn
  split; · rfl
  split; · rfl
  simp
@[simp] theorem discardTxn_now (d : Db) (id : Nat) : (d.discardTxn id).now = d.now := by
  unfold Db.discardTxn
  split; · rfl
  split; · rfl
  simp
@[simp] theorem discardTxn_discardTs (d : Db) (id : Nat) :
    (d.discardTxn id).discardTs = d.discardTs := by
  unfold Db.discardTxn
  split; · rfl
  split; · rfl
  simp

theorem lsmForm_congr {d1 d2 : Db} (h : d1.opts = d2.opts) (e : Ent) : d1.lsmForm e = d2.lsmForm e := by
  unfold Db.lsmForm; rw [h]

/-! ## shape of `commit` -/

/-- the commit timestamp `commitAndSend` obtains -/
def commitTsOf (d : Db) (mts : Nat) : Nat := if d.opts.managed then mts else d.nextTs

def keepTogetherOf (t : TxnM) : Bool := (t.pending ++ t.dups).all (·.ver == 0)

/-- what `commitAndSend` + `writeToLSM` make of one entry of the transaction -/
def finEnt (d : Db) (keep : Bool) (cts : Nat) (e : Ent) : Ent :=
  let e := if e.ver == 0 then { e with ver := cts } else e
  let e := if keep then { e with emeta := setBit e.emeta bitTxn } else e
  d.lsmForm e

/-- the entries a commit writes, in write order -/
def commitEntries (d : Db) (t : TxnM) (cts : Nat) : List Ent :=
  (t.pending ++ t.dups).map (finEnt d (keepTogetherOf t) cts)

/-- the guard under which `commit` reaches the write path -/
def commitGoes (d : Db) (t : TxnM) (mts : Nat) : Bool :=
  !t.pending.isEmpty && !t.discarded &&
    !(keepTogetherOf t && d.opts.managed && mts == 0) &&
    !(d.opts.detectConflicts && d.hasConflict t)

theorem commit_none {d : Db} {id : Nat} (mts : Nat) (h : d.findTxn id = none) :
    d.commit id mts = (d, .err "err:discarded") := by
  simp [Db.commit, h]

/-- the write path of `commit`, stage by stage -/
def commitApply (d : Db) (t : TxnM) (id mts : Nat) : Db × CommitRes :=
  let d1 := (d.doneRead t).1
  let t1 := (d.doneRead t).2
  let d2 := if d1.opts.managed then d1 else d1.cleanup
  let cts := if d2.opts.managed then mts else d2.nextTs
  let d3 := if d2.opts.managed then d2 else { d2 with nextTs := d2.nextTs + 1 }
  let d4 := if d3.opts.detectConflicts then { d3 with committed := (cts, t1.writes) :: d3.committed } else d3
  let entries := (t1.pending ++ t1.dups).map (finEnt d4 (keepTogetherOf t) cts)
  let d5 := { d4 with lsm := { d4.lsm with mem := entries.foldl (fun m e => memPut e m) d4.lsm.mem } }
  ((d5.setTxn t1).discardTxn id, .ok cts)

theorem commit_eq {d : Db} {id : Nat} {t : TxnM} (mts : Nat) (h : d.findTxn id = some t) :
    d.commit id mts =
      if t.pending.isEmpty then (d.discardTxn id, .noop)
      else if t.discarded then (d, .err "err:discarded")
      else if keepTogetherOf t && d.opts.managed && mts == 0 then (d, .err "err:zerocommitts")
      else if d.opts.detectConflicts && d.hasConflict t then (d.discardTxn id, .conflict)
      else commitApply d t id mts := by
  unfold Db.commit commitApply
  rw [h]
  dsimp -zeta only
  generalize d.doneRead t = p
  obtain ⟨a, b⟩ := p
  rfl

theorem finEnt_congr {d1 d2 : Db} (h : d1.opts = d2.opts) (keep : Bool) (cts : Nat) :
    finEnt d1 keep cts = finEnt d2 keep cts := by
  funext e; unfold finEnt; exact lsmForm_congr h _

theorem commitApply_spec (d : Db) (t : TxnM) (id mts : Nat) :
    (commitApply d t id mts).2 = .ok (commitTsOf d mts) ∧
    (commitApply d t id mts).1.lsm =
      { d.lsm with mem := (commitEntries d t (commitTsOf d mts)).foldl (fun m e => memPut e m) d.lsm.mem } ∧
    (commitApply d t id mts).1.nextTs = (if d.opts.managed then d.nextTs else d.nextTs + 1) ∧
    (commitApply d t id mts).1.opts = d.opts ∧ (commitApply d t id mts).1.now = d.now ∧
    (commitApply d t id mts).1.discardTs = d.discardTs := by
  unfold commitApply
  simp only [discardTxn_lsm, setTxn_lsm, discardTxn_nextTs, setTxn_nextTs, discardTxn_opts, setTxn_opts,
    discardTxn_now, setTxn_now, discardTxn_discardTs, setTxn_discardTs, doneRead_txn]
  cases hm : d.opts.managed <;> cases hc : d.opts.detectConflicts
  all_goals
    simp only [doneRead_opts, hm, hc, cleanup_opts, cleanup_nextTs, doneRead_nextTs, cleanup_lsm, doneRead_lsm,
      commitTsOf, commitEntries, cleanup_now, doneRead_now, cleanup_discardTs, doneRead_discardTs,
      Bool.false_eq_true, if_false, if_true, true_and]
  all_goals
    refine ⟨?_, trivial⟩
    rw [finEnt_congr (d2 := d)]
    first | rfl | simp
/-- a commit that does not reach the write path returns the database unchanged or only
    discards the transaction. -/
theorem commit_stops {d : Db} {id : Nat} {t : TxnM} (mts : Nat) (h : d.findTxn id = some t)
    (hg : commitGoes d t mts = false) :
    (d.commit id mts = (d.discardTxn id, .noop)) ∨ (∃ s, d.commit id mts = (d, .err s)) ∨
    (d.commit id mts = (d.discardTxn id, .conflict)) := by
  rw [commit_eq mts h]
  split
  · exact .inl rfl
  split
  · exact .inr (.inl ⟨_, rfl⟩)
  split
  · exact .inr (.inl ⟨_, rfl⟩)
  split
  · exact .inr (.inr rfl)
  · exfalso
    simp_all [commitGoes]

theorem commit_goes_eq {d : Db} {id : Nat} {t : TxnM} (mts : Nat) (h : d.findTxn id = some t)
    (hg : commitGoes d t mts = true) : d.commit id mts = commitApply d t id mts := by
  rw [commit_eq mts h]
  simp only [commitGoes, Bool.and_eq_true, Bool.not_eq_true'] at hg
  obtain ⟨⟨⟨h1, h2⟩, h3⟩, h4⟩ := hg
  rw [if_neg (by simp [h1]), if_neg (by simp [h2]), if_neg (by simp [h3]), if_neg (by simp [h4])]

theorem commit_goes {d : Db} {id : Nat} {t : TxnM} (mts : Nat) (h : d.findTxn id = some t)
    (hg : commitGoes d t mts = true) :
    (d.commit id mts).2 = .ok (commitTsOf d mts) ∧
    (d.commit id mts).1.lsm =
      { d.lsm with mem := (commitEntries d t (commitTsOf d mts)).foldl (fun m e => memPut e m) d.lsm.mem } ∧
    (d.commit id mts).1.nextTs = (if d.opts.managed then d.nextTs else d.nextTs + 1) ∧
    (d.commit id mts).1.opts = d.opts ∧ (d.commit id mts).1.now = d.now ∧
    (d.commit id mts).1.discardTs = d.discardTs := by
  rw [commit_goes_eq mts h hg]; exact commitApply_spec d t id mts

/-- a commit answers `ok ts` only through the write path. -/
theorem commit_ok_inv {d : Db} {id mts ts : Nat} (h : (d.commit id mts).2 = .ok ts) :
    ∃ t, d.findTxn id = some t ∧ commitGoes d t mts = true ∧ ts = commitTsOf d mts := by
  cases hf : d.findTxn id with
  | none => rw [commit_none mts hf] at h; cases h
  | some t =>
    refine ⟨t, rfl, ?_⟩
    cases hg : commitGoes d t mts with
    | false =>
      rcases commit_stops mts hf hg with h' | ⟨s, h'⟩ | h' <;> rw [h'] at h <;> cases h
    | true =>
      have := (commit_goes mts hf hg).1
      rw [this] at h
      injection h with h
      exact ⟨rfl, h.symm⟩

/-! ## meta bits -/

theorem hasBit_setBit_self_vp (m : Nat) : hasBit (setBit m bitValuePointer) bitValuePointer = true := by
  unfold setBit hasBit bitValuePointer
  split
  · assumption
  · rename_i h; simp only [beq_iff_eq] at h ⊢; omega

theorem hasBit_clearBit_self_vp (m : Nat) : hasBit (clearBit m bitValuePointer) bitValuePointer = false := by
  unfold clearBit
  split
  · rename_i h; unfold hasBit bitValuePointer at *; simp only [beq_iff_eq, beq_eq_false_iff_ne] at h ⊢; omega
  · rename_i h; simpa using h

/-- bit `2^i`, `i ≠ 1`, is untouched by setting / clearing the value-pointer bit (`2^1`). -/
theorem hasBit_add_two (m i : Nat) (hi : i ≠ 1) (h : hasBit m 2 = false) :
    hasBit (m + 2) (2 ^ i) = hasBit m (2 ^ i) := by
  unfold hasBit at *
  simp only [beq_eq_false_iff_ne] at h
  rcases i with _ | _ | i
  · simp only [Nat.pow_zero, Nat.div_one]; congr 1; omega
  · exact absurd rfl hi
  · have e : 2 ^ (i + 1 + 1) = 4 * 2 ^ i := by rw [Nat.pow_succ, Nat.pow_succ]; omega
    rw [e, ← Nat.div_div_eq_div_mul, ← Nat.div_div_eq_div_mul]
    have : (m + 2) / 4 = m / 4 := by omega
    rw [this]

theorem hasBit_sub_two (m i : Nat) (hi : i ≠ 1) (h : hasBit m 2 = true) :
    hasBit (m - 2) (2 ^ i) = hasBit m (2 ^ i) := by
  unfold hasBit at *
  simp only [beq_iff_eq] at h
  rcases i with _ | _ | i
  · simp only [Nat.pow_zero, Nat.div_one]; congr 1; omega
  · exact absurd rfl hi
  · have e : 2 ^ (i + 1 + 1) = 4 * 2 ^ i := by rw [Nat.pow_succ, Nat.pow_succ]; omega
    rw [e, ← Nat.div_div_eq_div_mul, ← Nat.div_div_eq_div_mul]
    have : (m - 2) / 4 = m / 4 := by omega
    rw [this]

theorem hasBit_setVP (m i : Nat) (hi : i ≠ 1) :
    hasBit (setBit m bitValuePointer) (2 ^ i) = hasBit m (2 ^ i) := by
  unfold setBit bitValuePointer
  split
  · rfl
  · rename_i h; exact hasBit_add_two m i hi (by simpa using h)

theorem hasBit_clearVP (m i : Nat) (hi : i ≠ 1) :
    hasBit (clearBit m bitValuePointer) (2 ^ i) = hasBit m (2 ^ i) := by
  unfold clearBit bitValuePointer
  split
  · rename_i h; exact hasBit_sub_two m i hi h
  · rfl

/-- setting the transaction bit (64) leaves the delete (1), value-pointer (2), discard-earlier (4)
    and merge (8) bits alone -/
theorem hasBit_setTxn (m b : Nat) (hb : b = 1 ∨ b = 2 ∨ b = 4 ∨ b = 8) :
    hasBit (setBit m bitTxn) b = hasBit m b := by
  unfold setBit bitTxn
  split
  · rfl
  · unfold hasBit
    rcases hb with rfl | rfl | rfl | rfl <;> (congr 1; omega)

/-! ## `memPut` -/

theorem mem_memPut_self (e : Ent) (m : List Ent) : e ∈ memPut e m := by
  induction m with
  | nil => simp [memPut]
  | cons x xs ih =>
    unfold memPut
    split <;> simp [ih]

/-- `Put` removes an entry only by overwriting its own `(key, version)` slot -/
theorem mem_memPut_of_mem {y e : Ent} {m : List Ent} (h : y ∈ m) :
    y ∈ memPut e m ∨ (y.key = e.key ∧ y.ver = e.ver) := by
  induction m with
  | nil => cases h
  | cons x xs ih =>
    unfold memPut
    split
    · exact .inl (List.mem_cons_of_mem _ h)
    · rename_i heq
      simp only [List.mem_cons] at h
      rcases h with h | h
      · subst h
        have := (entCmp_eq_iff e y).mp heq
        exact .inr ⟨this.1.symm, this.2.symm⟩
      · exact .inl (List.mem_cons_of_mem _ h)
    · simp only [List.mem_cons] at h
      rcases h with h | h
      · subst h; exact .inl (List.mem_cons_self ..)
      · rcases ih h with h | h
        · exact .inl (List.mem_cons_of_mem _ h)
        · exact .inr h

theorem mem_foldl_memPut {x : Ent} {es m : List Ent}
    (h : x ∈ es.foldl (fun m e => memPut e m) m) : x ∈ es ∨ x ∈ m := by
  induction es generalizing m with
  | nil => exact .inr h
  | cons e es ih =>
    rcases ih h with h | h
    · exact .inl (List.mem_cons_of_mem _ h)
    · rcases mem_memPut_imp h with h | h
      · exact .inl (h ▸ List.mem_cons_self ..)
      · exact .inr h

theorem mem_foldl_memPut_keep {x : Ent} {es m : List Ent} (h : x ∈ m)
    (hs : ∀ y ∈ es, ¬ (x.key = y.key ∧ x.ver = y.ver)) :
    x ∈ es.foldl (fun m e => memPut e m) m := by
  induction es generalizing m with
  | nil => exact h
  | cons e es ih =>
    apply ih
    · rcases mem_memPut_of_mem (e := e) h with h | h
      · exact h
      · exact absurd h (hs e (List.mem_cons_self ..))
    · exact fun y hy => hs y (List.mem_cons_of_mem _ hy)

/-- with pairwise different `(key, version)` slots every written entry is in the memtable
    afterwards -/
theorem mem_foldl_memPut_of_distinct {e : Ent} {es m : List Ent}
    (hd : es.Pairwise (fun a b => ¬ (a.key = b.key ∧ a.ver = b.ver))) (h : e ∈ es) :
    e ∈ es.foldl (fun m e => memPut e m) m := by
  induction es generalizing m with
  | nil => cases h
  | cons a es ih =>
    rw [List.pairwise_cons] at hd
    simp only [List.mem_cons] at h
    rcases h with h | h
    · subst h
      exact mem_foldl_memPut_keep (m := memPut e m) (mem_memPut_self e m) hd.1
    · exact ih hd.2 h

/-- every written `(key, version)` slot is occupied afterwards -/
theorem slot_foldl_memPut {e : Ent} {es m : List Ent} (h : e ∈ es ∨ e ∈ m) :
    ∃ x ∈ es.foldl (fun m e => memPut e m) m, x.key = e.key ∧ x.ver = e.ver := by
  induction es generalizing m e with
  | nil =>
    rcases h with h | h
    · cases h
    · exact ⟨e, h, rfl, rfl⟩
  | cons a es ih =>
    simp only [List.foldl_cons]
    rcases h with h | h
    · simp only [List.mem_cons] at h
      rcases h with h | h
      · subst h
        exact ih (.inr (mem_memPut_self e m))
      · exact ih (.inl h)
    · rcases mem_memPut_of_mem (e := a) h with h | h
      · exact ih (.inr h)
      · obtain ⟨x, hx, h1, h2⟩ := ih (m := memPut a m) (e := a) (.inr (mem_memPut_self a m))
        exact ⟨x, hx, by rw [h1, h.1], by rw [h2, h.2]⟩

theorem foldl_memPut_sorted {es m : List Ent} (h : SortedEnts m) :
    SortedEnts (es.foldl (fun m e => memPut e m) m) := by
  induction es generalizing m with
  | nil => exact h
  | cons e es ih => exact ih (memPut_sorted h)

/-- entries newer than `ts` are invisible to the `≤ ts` filter -/
theorem filter_le_memPut (e : Ent) (m : List Ent) (ts : Nat) (he : ts < e.ver) :
    (memPut e m).filter (fun x => decide (x.ver ≤ ts)) = m.filter (fun x => decide (x.ver ≤ ts)) := by
  induction m with
  | nil => simp [memPut]; omega
  | cons x xs ih =>
    unfold memPut
    split
    · simp [List.filter_cons]; omega
    · rename_i heq
      have := (entCmp_eq_iff e x).mp heq
      have h1 : ¬ x.ver ≤ ts := by omega
      have h2 : ¬ e.ver ≤ ts := by omega
      simp [h1, h2]
    · simp only [List.filter_cons, ih]

/-! ## `newestLE` -/

/-- the fold of `newestLE` from an arbitrary start -/
def newestFrom (best : Option Ent) (es : List Ent) (k : Bytes) (ts : Nat) : Option Ent :=
  es.foldl (fun best e => if e.key = k ∧ e.ver ≤ ts then betterOf best e else best) best

theorem newestLE_eq_from (es : List Ent) (k : Bytes) (ts : Nat) :
    newestLE es k ts = newestFrom none es k ts := rfl

theorem newestFrom_append (b : Option Ent) (l1 l2 : List Ent) (k : Bytes) (ts : Nat) :
    newestFrom b (l1 ++ l2) k ts = newestFrom (newestFrom b l1 k ts) l2 k ts := by
  simp [newestFrom, List.foldl_append]

/-- `newestLE` looks only at the entries of key `k` with version `≤ ts`. -/
theorem newestFrom_filter (b : Option Ent) (l : List Ent) (k : Bytes) (ts : Nat) :
    newestFrom b l k ts = newestFrom b (l.filter (fun x => decide (x.key = k ∧ x.ver ≤ ts))) k ts := by
  induction l generalizing b with
  | nil => rfl
  | cons x xs ih =>
    simp only [List.filter_cons]
    by_cases h : x.key = k ∧ x.ver ≤ ts
    · simp only [h, and_self, decide_true, if_true]
      show newestFrom _ xs k ts = newestFrom _ _ k ts
      simp only [newestFrom, List.foldl_cons, h, and_self, if_true] 
      exact ih _
    · simp only [h, decide_false, Bool.false_eq_true, if_false]
      show newestFrom _ xs k ts = _
      simp only [newestFrom, h, if_false]
      exact ih _

theorem newestLE_congr_filter {l1 l2 : List Ent} (k : Bytes) (ts : Nat)
    (h : l1.filter (fun x => decide (x.key = k ∧ x.ver ≤ ts)) =
         l2.filter (fun x => decide (x.key = k ∧ x.ver ≤ ts))) :
    newestLE l1 k ts = newestLE l2 k ts := by
  rw [newestLE_eq_from, newestLE_eq_from, newestFrom_filter none l1, newestFrom_filter none l2, h]

theorem filter_and_ver (l : List Ent) (k : Bytes) (ts : Nat) :
    l.filter (fun x => decide (x.key = k ∧ x.ver ≤ ts)) =
      (l.filter (fun x => decide (x.ver ≤ ts))).filter (fun x => decide (x.key = k)) := by
  rw [List.filter_filter]
  congr 1; funext x; simp

/-- an entry of `k` with version `≤ ts` that strictly dominates every *other* such entry is
    the answer. -/
theorem newestFrom_unique_max {x : Ent} {k : Bytes} {ts : Nat} (hk : x.key = k) (hv : x.ver ≤ ts)
    (l : List Ent) (b : Option Ent)
    (hb : ∀ y, b = some y → y = x ∨ y.ver < x.ver)
    (hl : ∀ y ∈ l, y.key = k → y.ver ≤ ts → y = x ∨ y.ver < x.ver)
    (hx : x ∈ l ∨ b = some x) : newestFrom b l k ts = some x := by
  induction l generalizing b with
  | nil =>
    rcases hx with hx | hx
    · cases hx
    · exact hx
  | cons y ys ih =>
    simp only [newestFrom, List.foldl_cons]
    apply ih
    · intro z hz
      split at hz
      · rename_i hq
        have hy := hl y (List.mem_cons_self ..) hq.1 hq.2
        cases b with
        | none => simp only [betterOf] at hz; injection hz with hz; subst hz; exact hy
        | some b0 =>
          simp only [betterOf] at hz
          split at hz
          · injection hz with hz; subst hz; exact hy
          · injection hz with hz; subst hz; exact hb _ rfl
      · exact hb z hz
    · exact fun z hz => hl z (List.mem_cons_of_mem _ hz)
    · simp only [List.mem_cons] at hx
      rcases hx with (hx | hx) | hx
      · subst hx
        right
        rw [if_pos ⟨hk, hv⟩]
        cases b with
        | none => rfl
        | some b0 =>
          simp only [betterOf]
          rcases hb b0 rfl with h | h
          · subst h; simp
          · simp [h]
      · exact .inl hx
      · right
        subst hx
        split
        · rename_i hq
          simp only [betterOf]
          rcases hl y (List.mem_cons_self ..) hq.1 hq.2 with h | h
          · subst h; simp
          · have : ¬ x.ver < y.ver := by omega
            simp [this]
        · rfl

theorem newestLE_unique_max {x : Ent} {k : Bytes} {ts : Nat} {l : List Ent} (hx : x ∈ l)
    (hk : x.key = k) (hv : x.ver ≤ ts)
    (hl : ∀ y ∈ l, y.key = k → y.ver ≤ ts → y = x ∨ y.ver < x.ver) :
    newestLE l k ts = some x :=
  newestFrom_unique_max hk hv l none (by intro y h; cases h) hl (.inl hx)

/-- what `newestLE` returns is an entry of the list, of key `k`, version `≤ ts`, and no
    entry of `k` with version `≤ ts` is newer. -/
theorem newestFrom_some {b : Option Ent} {l : List Ent} {k : Bytes} {ts : Nat} {r : Ent}
    (h : newestFrom b l k ts = some r) :
    (r ∈ l ∧ r.key = k ∧ r.ver ≤ ts) ∨ b = some r := by
  induction l generalizing b with
  | nil => exact .inr h
  | cons y ys ih =>
    simp only [newestFrom, List.foldl_cons] at h
    rcases ih h with h' | h'
    · exact .inl ⟨List.mem_cons_of_mem _ h'.1, h'.2⟩
    · split at h'
      · rename_i hq
        cases b with
        | none =>
          simp only [betterOf] at h'; injection h' with h'; subst h'
          exact .inl ⟨List.mem_cons_self .., hq⟩
        | some b0 =>
          simp only [betterOf] at h'
          split at h'
          · injection h' with h'; subst h'; exact .inl ⟨List.mem_cons_self .., hq⟩
          · exact .inr h'
      · exact .inr h'

theorem newestFrom_ver_ge {b : Option Ent} {l : List Ent} {k : Bytes} {ts : Nat} :
    ∃ r, newestFrom b l k ts = r ∧
      (∀ y, b = some y → ∃ r', r = some r' ∧ y.ver ≤ r'.ver) ∧
      (∀ y ∈ l, y.key = k → y.ver ≤ ts → ∃ r', r = some r' ∧ y.ver ≤ r'.ver) := by
  induction l generalizing b with
  | nil =>
    refine ⟨b, rfl, ?_, ?_⟩
    · intro y hy; exact ⟨y, hy, Nat.le_refl _⟩
    · intro y hy; cases hy
  | cons x xs ih =>
    simp only [newestFrom, List.foldl_cons]
    obtain ⟨r, hr, h1, h2⟩ := ih (b := if x.key = k ∧ x.ver ≤ ts then betterOf b x else b)
    refine ⟨r, hr, ?_, ?_⟩
    · intro y hy
      subst hy
      split at h1
      · simp only [betterOf] at h1
        split at h1
        · rename_i hlt
          obtain ⟨r', hr', hle⟩ := h1 x rfl
          exact ⟨r', hr', by omega⟩
        · exact h1 y rfl
      · exact h1 y rfl
    · intro y hy hyk hyv
      simp only [List.mem_cons] at hy
      rcases hy with hy | hy
      · subst hy
        rw [if_pos ⟨hyk, hyv⟩] at h1
        cases b with
        | none => exact h1 y rfl
        | some b0 =>
          simp only [betterOf] at h1
          split at h1
          · exact h1 y rfl
          · rename_i hnlt
            obtain ⟨r', hr', hle⟩ := h1 b0 rfl
            exact ⟨r', hr', by omega⟩
      · exact h2 y hy hyk hyv

/-- no qualifying entry is newer than the answer; in particular the answer exists when a
    qualifying entry does. -/
theorem newestLE_max {l : List Ent} {k : Bytes} {ts : Nat} {y : Ent} (hy : y ∈ l) (hk : y.key = k)
    (hv : y.ver ≤ ts) : ∃ r, newestLE l k ts = some r ∧ y.ver ≤ r.ver := by
  obtain ⟨r, hr, -, h2⟩ := newestFrom_ver_ge (b := none) (l := l) (k := k) (ts := ts)
  obtain ⟨r', hr', hle⟩ := h2 y hy hk hv
  exact ⟨r', by rw [newestLE_eq_from, hr, hr'], hle⟩

theorem newestLE_none_iff {l : List Ent} {k : Bytes} {ts : Nat} :
    newestLE l k ts = none ↔ ∀ y ∈ l, ¬ (y.key = k ∧ y.ver ≤ ts) := by
  constructor
  · intro h y hy hq
    obtain ⟨r, hr, -⟩ := newestLE_max hy hq.1 hq.2
    rw [h] at hr; cases hr
  · intro h
    cases hr : newestLE l k ts with
    | none => rfl
    | some r =>
      have := newestLE_some_mem hr
      exact absurd ⟨this.2.1, this.2.2⟩ (h r this.1)

/-! ## all entries of a state -/

/-- everything below the memtable, in read-precedence order -/
def Lsm.restEntries (s : Lsm) : List Ent :=
  (s.imm.reverse ++
    (match s.levels with
     | [] => []
     | l0 :: rest => l0.reverse.map (·.ents) ++ rest.map (fun tbls => (tbls.map (·.ents)).flatten))).flatten

theorem allEntries_eq (s : Lsm) : s.allEntries = s.mem ++ s.restEntries := by
  unfold Lsm.allEntries Lsm.sources Lsm.restEntries
  simp only [List.cons_append, List.flatten_cons]
  rfl

theorem restEntries_mem (s : Lsm) (m : List Ent) : ({ s with mem := m } : Lsm).restEntries = s.restEntries := rfl

theorem pairwise_key_inj {l : List Ent} (h : l.Pairwise (fun a b => a.key ≠ b.key)) {a b : Ent}
    (ha : a ∈ l) (hb : b ∈ l) (hk : a.key = b.key) : a = b := by
  induction l with
  | nil => cases ha
  | cons x xs ih =>
    rw [List.pairwise_cons] at h
    simp only [List.mem_cons] at ha hb
    rcases ha with ha | ha <;> rcases hb with hb | hb
    · rw [ha, hb]
    · subst ha; exact absurd hk (h.1 b hb)
    · subst hb; exact absurd hk.symm (h.1 a ha)
    · exact ih h.2 ha hb



/-! ## operations and runs (the `Db` component of `Driver.mvccStep`) -/

inductive Op
  | begin (id : Nat) (update : Bool) (mts : Nat)
  | set (id : Nat) (e : Ent)
  | get (id : Nat) (k : Bytes)
  | commit (id : Nat) (mts : Nat)
  | discard (id : Nat)
  | iter (id : Nat) (o : IterOpts) (seek : Option Bytes)
  | flush
  | setNow (t : Nat)
  | setDiscard (ts : Nat)
  | compact (cd : CompactDef)

/-- the reads an iteration records (`Seek(key)` and every `Item()`), as in `mvccStep` -/
def iterReads (seek : Option Bytes) (items : List Ent) : List Bytes :=
  (match seek with | some k => if k.isEmpty then [] else [k] | none => []) ++ items.map (·.key)

def Db.step (d : Db) : Op → Db
  | .begin id u m => (d.begin id u m).1
  | .set id e => (d.modify id e).1
  | .get id k => (d.txnGet id k).1
  | .commit id m => (d.commit id m).1
  | .discard id => d.discardTxn id
  | .iter id o seek =>
    match d.iterate id o seek, d.findTxn id with
    | some items, some t =>
      if t.update then d.setTxn { t with reads := iterReads seek items ++ t.reads } else d
    | _, _ => d
  | .flush => { d with lsm := d.lsm.flush }
  | .setNow t => { d with now := t }
  | .setDiscard ts => ({ d with discardTs := ts } : Db).cleanup
  | .compact cd =>
    match d.lsm.compact cd d.discardAtOrBelow d.opts.numKeep d.now with
    | some l => { d with lsm := l }
    | none => d

def Db.run (d : Db) (ops : List Op) : Db := ops.foldl Db.step d

theorem begin_nextTs (d : Db) (id : Nat) (u : Bool) (m : Nat) : (d.begin id u m).1.nextTs = d.nextTs := by
  unfold Db.begin; simp only [setTxn_nextTs]; split <;> rfl
theorem begin_opts (d : Db) (id : Nat) (u : Bool) (m : Nat) : (d.begin id u m).1.opts = d.opts := by
  unfold Db.begin; simp only [setTxn_opts]; split <;> rfl
theorem begin_lsm (d : Db) (id : Nat) (u : Bool) (m : Nat) : (d.begin id u m).1.lsm = d.lsm := by
  unfold Db.begin; simp only [setTxn_lsm]; split <;> rfl

theorem txnGet_shape (d : Db) (id : Nat) (k : Bytes) :
    (d.txnGet id k).1 = d ∨ ∃ t', (d.txnGet id k).1 = d.setTxn t' := by
  unfold Db.txnGet
  cases hf : d.findTxn id with
  | none => exact .inl rfl
  | some t =>
    dsimp -zeta only
    split
    · exact .inl rfl
    split
    · exact .inl rfl
    split
    · split <;> exact .inl rfl
    · cases hu : t.update
      · simp only [Bool.false_eq_true, if_false]
        split
        · exact .inl rfl
        · split <;> exact .inl rfl
      · simp only [if_true]
        split
        · exact .inr ⟨_, rfl⟩
        · split <;> exact .inr ⟨_, rfl⟩

theorem txnGet_nextTs (d : Db) (id : Nat) (k : Bytes) : (d.txnGet id k).1.nextTs = d.nextTs := by
  rcases txnGet_shape d id k with h | ⟨t', h⟩ <;> rw [h] <;> rfl
theorem txnGet_opts (d : Db) (id : Nat) (k : Bytes) : (d.txnGet id k).1.opts = d.opts := by
  rcases txnGet_shape d id k with h | ⟨t', h⟩ <;> rw [h] <;> rfl
theorem txnGet_lsm (d : Db) (id : Nat) (k : Bytes) : (d.txnGet id k).1.lsm = d.lsm := by
  rcases txnGet_shape d id k with h | ⟨t', h⟩ <;> rw [h] <;> rfl

theorem modify_nextTs (d : Db) (id : Nat) (e : Ent) : (d.modify id e).1.nextTs = d.nextTs := by
  cases h : d.findTxn id with
  | none => rw [modify_none e h]
  | some t => rcases modify_shape e h with h1 | ⟨t', -, h1⟩ <;> rw [h1] <;> rfl
theorem modify_opts (d : Db) (id : Nat) (e : Ent) : (d.modify id e).1.opts = d.opts := by
  cases h : d.findTxn id with
  | none => rw [modify_none e h]
  | some t => rcases modify_shape e h with h1 | ⟨t', -, h1⟩ <;> rw [h1] <;> rfl
theorem modify_lsm (d : Db) (id : Nat) (e : Ent) : (d.modify id e).1.lsm = d.lsm := by
  cases h : d.findTxn id with
  | none => rw [modify_none e h]
  | some t => rcases modify_shape e h with h1 | ⟨t', -, h1⟩ <;> rw [h1] <;> rfl

/-- `commit` never changes the options and never decreases `nextTs`. -/
theorem commit_opts (d : Db) (id mts : Nat) : (d.commit id mts).1.opts = d.opts := by
  cases h : d.findTxn id with
  | none => rw [commit_none mts h]
  | some t =>
    cases hg : commitGoes d t mts with
    | false =>
      rcases commit_stops mts h hg with h' | ⟨s, h'⟩ | h' <;> rw [h'] <;> simp
    | true => exact (commit_goes mts h hg).2.2.2.1

theorem commit_nextTs_ge (d : Db) (id mts : Nat) : d.nextTs ≤ (d.commit id mts).1.nextTs := by
  cases h : d.findTxn id with
  | none => rw [commit_none mts h]; exact Nat.le_refl _
  | some t =>
    cases hg : commitGoes d t mts with
    | false =>
      rcases commit_stops mts h hg with h' | ⟨s, h'⟩ | h' <;> rw [h'] <;> simp
    | true => rw [(commit_goes mts h hg).2.2.1]; split <;> omega

theorem step_opts (d : Db) (op : Op) : (d.step op).opts = d.opts := by
  cases op with
  | begin id u m => exact begin_opts ..
  | set id e => exact modify_opts ..
  | get id k => exact txnGet_opts ..
  | commit id m => exact commit_opts ..
  | discard id => exact discardTxn_opts ..
  | iter id o seek =>
    simp only [Db.step]
    split
    · split <;> rfl
    · rfl
  | flush => rfl
  | setNow t => rfl
  | setDiscard ts => simp [Db.step]
  | compact cd => simp only [Db.step]; split <;> rfl

theorem step_nextTs_ge (d : Db) (op : Op) : d.nextTs ≤ (d.step op).nextTs := by
  cases op with
  | begin id u m => exact Nat.le_of_eq (begin_nextTs ..).symm
  | set id e => exact Nat.le_of_eq (modify_nextTs ..).symm
  | get id k => exact Nat.le_of_eq (txnGet_nextTs ..).symm
  | commit id m => exact commit_nextTs_ge ..
  | discard id => exact Nat.le_of_eq (discardTxn_nextTs ..).symm
  | iter id o seek =>
    simp only [Db.step]
    split
    · split <;> exact Nat.le_refl _
    · exact Nat.le_refl _
  | flush => exact Nat.le_refl _
  | setNow t => exact Nat.le_refl _
  | setDiscard ts => simp [Db.step]
  | compact cd => simp only [Db.step]; split <;> exact Nat.le_refl _

theorem run_opts (d : Db) (ops : List Op) : (d.run ops).opts = d.opts := by
  induction ops generalizing d with
  | nil => rfl
  | cons op ops ih => simp only [Db.run, List.foldl_cons] at ih ⊢; rw [ih, step_opts]

theorem run_nextTs_ge (d : Db) (ops : List Op) : d.nextTs ≤ (d.run ops).nextTs := by
  induction ops generalizing d with
  | nil => exact Nat.le_refl _
  | cons op ops ih =>
    simp only [Db.run, List.foldl_cons] at ih ⊢
    exact Nat.le_trans (step_nextTs_ge d op) (ih _)

/-! ## point reads ignore newer puts -/

theorem srcGet_nil (k : Bytes) (ts : Nat) : srcGet [] k ts = none := rfl

theorem srcGet_cons (x : Ent) (xs : List Ent) (k : Bytes) (ts : Nat) :
    srcGet (x :: xs) k ts =
      if kvCmp x.key x.ver k ts = .lt then srcGet xs k ts
      else if x.key = k then some x else none := by
  simp only [srcGet, seekGE]
  by_cases h : kvCmp x.key x.ver k ts = .lt
  · simp [h]
  · have : (kvCmp x.key x.ver k ts == .lt) = false := by simpa using h
    simp [h, this]

/-- a `Put` of a version newer than `ts` does not change `Seek(k@ts)`+`SameKey` on a source. -/
theorem srcGet_memPut_newer (e : Ent) (m : List Ent) (k : Bytes) (ts : Nat) (h : ts < e.ver) :
    srcGet (memPut e m) k ts = srcGet m k ts := by
  -- an entry `≥ (k, ts)` with a version `> ts` has a key strictly above `k`
  have hkey : ∀ x : Ent, ts < x.ver → kvCmp x.key x.ver k ts ≠ .lt → cmpBytes k x.key = .lt := by
    intro x hx hnl
    have h1 : ¬ (cmpBytes x.key k = .lt ∨ (x.key = k ∧ ts < x.ver)) := fun hc => hnl ((kvCmp_lt_iff ..).mpr hc)
    cases hc : cmpBytes x.key k with
    | lt => exact absurd (.inl hc) h1
    | eq => exact absurd (.inr ⟨(cmpBytes_eq_iff _ _).mp hc, hx⟩) h1
    | gt => exact (cmpBytes_gt_iff_lt _ _).mp hc
  have hne : ∀ x : Ent, ts < x.ver → kvCmp x.key x.ver k ts ≠ .lt → x.key ≠ k := by
    intro x hx hnl hh
    have := hkey x hx hnl
    rw [hh, cmpBytes_refl] at this; cases this
  induction m with
  | nil =>
    simp only [memPut, srcGet_cons, srcGet_nil]
    split
    · rfl
    · rename_i hnl
      simp [hne e h hnl]
  | cons x xs ih =>
    unfold memPut
    split
    · rename_i hlt
      rw [srcGet_cons (x := e)]
      split
      · rfl
      · rename_i hnl
        have hk1 := hkey e h hnl
        have hk2 : cmpBytes k x.key = .lt := by
          have := entCmp_lt_key_le hlt
          cases hc : cmpBytes e.key x.key with
          | lt => exact cmpBytes_lt_trans hk1 hc
          | eq => rw [← (cmpBytes_eq_iff _ _).mp hc]; exact hk1
          | gt => exact absurd hc this
        have hnx : x.key ≠ k := fun hh => by rw [hh, cmpBytes_refl] at hk2; cases hk2
        have hxnl : kvCmp x.key x.ver k ts ≠ .lt := by
          have : kvCmp x.key x.ver k ts = .gt :=
            (kvCmp_gt_iff ..).mpr (.inl ((cmpBytes_gt_iff_lt _ _).mpr hk2))
          rw [this]; simp
        rw [srcGet_cons (x := x), if_neg hxnl, if_neg hnx, if_neg (hne e h hnl)]
    · rename_i heq
      obtain ⟨hk', hv'⟩ := (entCmp_eq_iff e x).mp heq
      rw [srcGet_cons (x := e), srcGet_cons (x := x), hk', hv']
      split
      · rfl
      · rename_i hnl
        have hnx := hne x (by omega) hnl
        rw [if_neg hnx, if_neg hnx]
    · rw [srcGet_cons (x := x), srcGet_cons (x := x), ih]

theorem srcGet_foldl_memPut_newer (es m : List Ent) (k : Bytes) (ts : Nat)
    (h : ∀ e ∈ es, ts < e.ver) :
    srcGet (es.foldl (fun m e => memPut e m) m) k ts = srcGet m k ts := by
  induction es generalizing m with
  | nil => rfl
  | cons e es ih =>
    simp only [List.foldl_cons]
    rw [ih _ (fun x hx => h x (List.mem_cons_of_mem _ hx)),
      srcGet_memPut_newer e m k ts (h e (List.mem_cons_self ..))]

theorem get_mem_congr (s : Lsm) (m' : List Ent) (k : Bytes) (ts : Nat)
    (h : srcGet m' k ts = srcGet s.mem k ts) : ({ s with mem := m' } : Lsm).get k ts = s.get k ts := by
  simp [Lsm.get, h]

theorem filter_le_foldl_memPut (es m : List Ent) (ts : Nat) (h : ∀ e ∈ es, ts < e.ver) :
    (es.foldl (fun m e => memPut e m) m).filter (fun x => decide (x.ver ≤ ts)) =
      m.filter (fun x => decide (x.ver ≤ ts)) := by
  induction es generalizing m with
  | nil => rfl
  | cons e es ih =>
    simp only [List.foldl_cons]
    rw [ih _ (fun x hx => h x (List.mem_cons_of_mem _ hx)),
      filter_le_memPut e m ts (h e (List.mem_cons_self ..))]

/-! ## user-level scans (`parseItems`) -/

/-- in non-`AllVersions` mode every yielded item passed the `isDeletedOrExpired` test -/
theorem parseItems_live (o : IterOpts) (readTs now : Nat) (hall : o.allVersions = false) :
    (∀ fuel e rest, ∀ x ∈ parseItems.revFill o readTs now fuel e rest,
        deletedOrExpired x.emeta x.exp now = false) ∧
    (∀ fuel lk l, ∀ x ∈ parseItems o readTs now fuel lk l,
        deletedOrExpired x.emeta x.exp now = false) := by
  have key : ∀ fuel : Nat,
      (∀ e rest, ∀ x ∈ parseItems.revFill o readTs now fuel e rest,
        deletedOrExpired x.emeta x.exp now = false) ∧
      (∀ lk l, ∀ x ∈ parseItems o readTs now fuel lk l,
        deletedOrExpired x.emeta x.exp now = false) := by
    intro fuel
    induction fuel with
    | zero =>
      constructor
      · intro e rest x hx; simp [parseItems.revFill] at hx
      · intro lk l x hx; simp [parseItems] at hx
    | succ f ih =>
      obtain ⟨ih1, ih2⟩ := ih
      constructor
      · intro e rest x hx
        unfold parseItems.revFill at hx
        split at hx
        · exact ih2 _ _ x hx
        · rename_i hlive
          split at hx
          · simp only [List.mem_singleton] at hx; subst hx; simpa using hlive
          · split at hx
            · exact ih1 _ _ x hx
            · simp only [List.mem_cons] at hx
              rcases hx with hx | hx
              · subst hx; simpa using hlive
              · exact ih2 _ _ x hx
      · intro lk l x hx
        cases l with
        | nil => simp [parseItems] at hx
        | cons e rest =>
          rw [parseItems.eq_3] at hx
          simp only [hall, Bool.false_eq_true, if_false] at hx
          split at hx
          · cases hx
          split at hx
          · exact ih2 _ _ x hx
          split at hx
          · exact ih2 _ _ x hx
          split at hx
          · split at hx
            · exact ih2 _ _ x hx
            · split at hx
              · exact ih2 _ _ x hx
              · rename_i hlive
                simp only [List.mem_cons] at hx
                rcases hx with hx | hx
                · subst hx; simpa using hlive
                · exact ih2 _ _ x hx
          · exact ih1 _ _ x hx
  exact ⟨fun fuel => (key fuel).1, fun fuel => (key fuel).2⟩


/-- the pending write `Txn.Get` consults first -/
def pendingHit (t : TxnM) (k : Bytes) : Option Ent :=
  if t.update then t.pending.find? (·.key == k) else none

/-- answer of `Txn.Get` as a function of the transaction record, the clock and `DB.get` -/
def getAnswer (t : TxnM) (k : Bytes) (now : Nat) (snap : Option Ent) : GetRes :=
  if k.isEmpty then .err "err:emptykey"
  else if t.discarded then .err "err:discarded"
  else match pendingHit t k with
    | some e => if deletedOrExpired e.emeta e.exp now then .notfound else .found e t.readTs
    | none => match snap with
      | none => .notfound
      | some e => if deletedOrExpired e.emeta e.exp now then .notfound else .found e e.ver

theorem txnGet_eq {d : Db} {id : Nat} {t : TxnM} (k : Bytes) (h : d.findTxn id = some t) :
    d.txnGet id k =
      (if k.isEmpty || t.discarded || (pendingHit t k).isSome || !t.update then d
       else d.setTxn { t with reads := k :: t.reads },
       getAnswer t k d.now (d.lsm.get k t.readTs)) := by
  unfold Db.txnGet getAnswer pendingHit
  rw [h]
  dsimp -zeta only
  cases hk : k.isEmpty
  · cases hd : t.discarded
    · cases hu : t.update
      · simp only [Bool.false_eq_true, if_false, Bool.or_false, Bool.not_false, Bool.or_true, if_true,
          Option.isSome_none]
        cases d.lsm.get k t.readTs with
        | none => rfl
        | some e => by_cases hx : deletedOrExpired e.emeta e.exp d.now = true <;> simp [hx]
      · simp only [if_true, Bool.false_eq_true, if_false, Bool.or_false, Bool.not_true, Bool.false_or]
        cases hp : t.pending.find? (·.key == k) with
        | some e =>
          simp only [Option.isSome_some, if_true]
          by_cases hx : deletedOrExpired e.emeta e.exp d.now = true <;> simp [hx]
        | none =>
          simp only [Option.isSome_none, Bool.false_eq_true, if_false, setTxn_lsm, setTxn_now]
          cases d.lsm.get k t.readTs with
          | none => rfl
          | some e => by_cases hx : deletedOrExpired e.emeta e.exp d.now = true <;> simp [hx]
    · simp
  · simp

/-- the key `Seek`/`Rewind` positions at: the argument, or the prefix option -/
def seekKeyOf (o : IterOpts) (seek : Option Bytes) : Bytes :=
  match seek with
  | some k => if k.isEmpty then o.prefix_ else k
  | none => o.prefix_

def seekFrom (merged : List Ent) (rev : Bool) (readTs : Nat) (key : Bytes) : List Ent :=
  if key.isEmpty then (if rev then merged.reverse else merged)
  else if !rev then merged.dropWhile (fun e => kvCmp e.key e.ver key readTs == .lt)
  else merged.reverse.dropWhile (fun e => kvCmp e.key e.ver key 0 == .gt)

theorem seekList_eq (merged : List Ent) (o : IterOpts) (readTs : Nat) (seek : Option Bytes) :
    seekList merged o readTs seek = seekFrom merged o.reverse readTs (seekKeyOf o seek) := rfl


end Badger
